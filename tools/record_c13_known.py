#!/usr/bin/env python3
"""Maintainer tool (never run by a check): records the fixed approximate-mode histories of C13 on which the *pinned* tree's
SolverHybrid excludes a feasible value, into known/C13.txt.gz, and prints one `known:` line per site."""
import collections, gzip, logging, os, sys
sys.path.insert(0, os.path.join(os.path.dirname(os.path.abspath(__file__)), "..", "harness"))
sys.path.insert(0, "/repo")
logging.disable(logging.CRITICAL)
import claripy, solverhist, c13
from common import Driver, build_driver
from c01 import BV_DRIVER
build_driver(*BV_DRIVER)
drv = Driver("bvdriver")
fails = []
c13.approximate(claripy, solverhist, drv, collections.Counter(), 1500, fails)
drv.close()
os.makedirs(os.path.dirname(c13.KNOWN_FILE), exist_ok=True)
with gzip.open(c13.KNOWN_FILE, "wt", compresslevel=9) as f:
    for x in fails:
        f.write("%s\t%s\t%s\n" % (x["site"], x["key"], x["what"]))
by = collections.defaultdict(list)
for x in fails:
    by[x["site"]].append(x)
for site in sorted(by):
    l = by[site]
    print("known: property=C13 site=%s key=known/C13.txt.gz :: %d of the 1500 fixed approximate-mode histories (%s); e.g. %s: %s" % (
        site, len(l), l[0]["what"], l[0]["key"], "; ".join(l[0]["history"])[:300]))
