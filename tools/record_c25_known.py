#!/usr/bin/env python3
"""Maintainer tool (never run by a check): records the inputs of the fixed C25 domain on which constraint_to_si of the
*pinned* tree cuts off a satisfying assignment, into known/C25.txt.gz, and prints one `known:` line per site for
KNOWN_FINDINGS.txt.   usage (through ./check's environment): /venv/bin/python tools/record_c25_known.py"""
import collections, gzip, os, sys
sys.path.insert(0, os.path.join(os.path.dirname(os.path.abspath(__file__)), "..", "harness"))
import c25
from common import Driver, build_driver
from c01 import BV_DRIVER

c25.E = c25.Env()
build_driver(*BV_DRIVER)
drv = Driver("bvdriver")
ck = c25.Checker(drv, collections.Counter())
allf = {}
for tier in ("quick", "thorough"):
    n = 0
    for key in c25.domain(tier):
        n += 1
        r = ck.check(key)
        if r:
            allf[(c25.site_of(key), c25.key_str(key))] = r
    print(tier, n, "inputs", file=sys.stderr)
drv.close()
os.makedirs(os.path.dirname(c25.KNOWN_FILE), exist_ok=True)
with gzip.open(c25.KNOWN_FILE, "wt", compresslevel=9) as f:
    for (site, ks), (kind, detail) in sorted(allf.items()):
        f.write("%s\t%s\t%s\n" % (site, ks, kind))
by = collections.defaultdict(list)
for (site, ks), (kind, detail) in allf.items():
    by[site].append((len(ks), ks, kind, detail))
for site in sorted(by):
    l = sorted(by[site])
    kinds = collections.Counter(k for _, _, k, _ in l)
    print("known: property=C25 site=%s key=known/C25.txt.gz :: %d recorded failing inputs (%s); e.g. %s: %s" % (
        site, len(l), ", ".join("%s %d" % kv for kv in sorted(kinds.items())), l[0][1], l[0][3][:200]))
