#!/bin/bash
# try_seed_wt.sh <prop> <patch> [tier] : like try_seed.sh but on a scratch worktree of /repo (leaves /repo untouched, so it can
# run while other checks are using /repo); the worktree is removed afterwards
prop=$1; patch=$2; tier=${3:-quick}
wt=/tmp/seed_wt_$$
git -C /repo worktree add -q $wt HEAD || exit 2
( cd $wt && git apply "$patch" ) || { echo "PATCH DOES NOT APPLY"; git -C /repo worktree remove --force $wt; exit 2; }
cd /verif
PYTHONPATH=$wt:/verif/harness:/verif/tools PYTHONHASHSEED=0 PYTHONDONTWRITEBYTECODE=1 VERIF_REPO=$wt timeout 1800 /venv/bin/python harness/main.py $prop $tier 2>&1 | grep -E "VIOLATION|\] exit" | head -6
git -C /repo worktree remove --force $wt; git -C /repo worktree prune
