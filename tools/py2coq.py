#!/usr/bin/env python3
"""py2coq -- fail-closed translator from a pure-integer subset of Python to Gallina.

Subset: ints and bools; + - * // % ** << >> & | ^ ~ unary-; comparisons (chained too); and/or/not;
conditional expressions; if/elif/else; assignments and augmented assignments to locals; return;
raise <ClaripyError>; for over range()/a list parameter (as foldM); while (as while_loop with explicit
fuel); tuples; calls to other translated functions; abs/min/max; the two-field record BVV of
backend_concrete/bv.py with its decorators.  Everything else raises TranslateError.

Every Python operation that can fail (// and % by a non-literal, shifts by a non-literal, **) is
translated to the monadic primitive of Model/PyPrelude.v, so the generated functions return `res T`.
"""
from __future__ import annotations

import ast
import os


class TranslateError(Exception):
    pass


Z, B, BVVT, UNIT = "Z", "bool", "bvv", "unit"


def tylist(t):
    return ("list", t)


def tytuple(ts):
    return ("tuple", tuple(ts))


def coq_ty(t):
    if isinstance(t, tuple):
        if t[0] == "list":
            return "(list %s)" % coq_ty(t[1])
        if t[0] == "tuple":
            return "(" + " * ".join(coq_ty(x) for x in t[1]) + ")"
    return t


EXN = {
    "ClaripyZeroDivisionError": "ZeroDiv",
    "ClaripyOperationError": "OpErr",
    "ClaripyTypeError": "TypeErr",
    "ClaripyValueError": "ValueErr",
    "ClaripyVSAError": "VSAErr",
    "ClaripyVSAOperationError": "VSAErr",
    "BackendError": "BackendErr",
}

BINOPS_PURE = {ast.Add: "Z.add", ast.Sub: "Z.sub", ast.Mult: "Z.mul", ast.BitAnd: "Z.land", ast.BitOr: "Z.lor",
               ast.BitXor: "Z.lxor"}
BINOPS_MON = {ast.FloorDiv: "py_floordiv", ast.Mod: "py_mod", ast.LShift: "py_shl", ast.RShift: "py_shr",
              ast.Pow: "py_pow"}
CMPOPS = {ast.Eq: "Z.eqb", ast.Lt: "Z.ltb", ast.LtE: "Z.leb"}
DUNDER = {ast.Add: "add", ast.Sub: "sub", ast.Mult: "mul", ast.FloorDiv: "floordiv", ast.Mod: "mod",
          ast.BitAnd: "and", ast.BitOr: "or", ast.BitXor: "xor", ast.LShift: "lshift", ast.RShift: "rshift"}


class Fn:
    def __init__(self, pyname, coqname, params, ret, fuel=None, guards=()):
        self.pyname, self.coqname, self.params, self.ret, self.fuel, self.guards = pyname, coqname, params, ret, fuel, guards


class Ctx:
    """Translation context for one module: known functions (by python name) and BVV attribute handling."""

    def __init__(self):
        self.fns: dict[str, Fn] = {}
        self.methods: dict[str, Fn] = {}  # BVV methods by python name (e.g. __add__)
        self.consts: dict[str, str] = {}
        self.n = 0
        self.attr_hook = None  # callable(ctx, node, env) -> (binds, term, ty) | None

    def fresh(self, base="t"):
        self.n += 1
        return "%s_%d" % (base, self.n)


def vname(n):
    return "v_" + n


def zlit(k):
    return "(%d)" % k if k < 0 else "%d" % k


def nest(binds, final):
    out = final
    for (v, m) in reversed(binds):
        out = "(do %s <- %s; %s)" % (v, m, out)
    return out


# ----------------------------------------------------------------------------------------------
# expressions
# ----------------------------------------------------------------------------------------------

def tr_expr(cx: Ctx, e: ast.expr, env: dict):
    """-> (binds, term, type).  binds: list of (name, monadic-term)."""
    if isinstance(e, ast.Constant):
        if type(e.value) is bool:
            return [], "true" if e.value else "false", B
        if type(e.value) is int:
            return [], zlit(e.value), Z
        raise TranslateError("constant %r" % (e.value,))
    if isinstance(e, ast.Name):
        if e.id in env:
            return [], vname(e.id), env[e.id]
        if e.id in cx.consts:
            return [], cx.consts[e.id], Z
        raise TranslateError("unknown name %s" % e.id)
    if isinstance(e, ast.Tuple):
        parts = [tr_expr(cx, x, env) for x in e.elts]
        binds = [b for p in parts for b in p[0]]
        return binds, "(" + ", ".join(p[1] for p in parts) + ")", tytuple([p[2] for p in parts])
    if isinstance(e, ast.Attribute) or (isinstance(e, ast.Call) and isinstance(e.func, ast.Attribute)):
        if cx.attr_hook:
            r = cx.attr_hook(cx, e, env)
            if r is not None:
                return r
        raise TranslateError("attribute/method %s" % ast.unparse(e))
    if isinstance(e, ast.UnaryOp):
        b, t, ty = tr_expr(cx, e.operand, env)
        if isinstance(e.op, ast.USub) and ty == Z:
            return b, "(Z.opp %s)" % t, Z
        if isinstance(e.op, ast.Invert) and ty == Z:
            return b, "(Z.lnot %s)" % t, Z
        if isinstance(e.op, ast.Not) and ty == B:
            return b, "(negb %s)" % t, B
        if isinstance(e.op, ast.Invert) and ty == BVVT:
            v = cx.fresh()
            return b + [(v, "bvv___invert__ %s" % t)], v, BVVT
        if isinstance(e.op, ast.USub) and ty == BVVT:
            v = cx.fresh()
            return b + [(v, "bvv___neg__ %s" % t)], v, BVVT
        raise TranslateError("unary %s on %s" % (ast.unparse(e), ty))
    if isinstance(e, ast.BinOp):
        bl, tl, tyl = tr_expr(cx, e.left, env)
        br, trr, tyr = tr_expr(cx, e.right, env)
        op = type(e.op)
        if tyl == Z and tyr == Z:
            if op in BINOPS_PURE:
                return bl + br, "(%s %s %s)" % (BINOPS_PURE[op], tl, trr), Z
            if op in BINOPS_MON:
                lit = e.right.value if isinstance(e.right, ast.Constant) and type(e.right.value) is int else None
                if lit is not None:
                    if op in (ast.FloorDiv, ast.Mod) and lit > 0:
                        return bl, "(%s %s %s)" % ("Z.div" if op is ast.FloorDiv else "Z.modulo", tl, zlit(lit)), Z
                    if op is ast.RShift and lit >= 0:
                        return bl, "(Z.shiftr %s %s)" % (tl, zlit(lit)), Z
                    if op is ast.LShift and 0 <= lit <= 4096:
                        return bl, "(Z.shiftl %s %s)" % (tl, zlit(lit)), Z
                    if op is ast.Pow and 0 <= lit <= 4096:
                        return bl, "(Z.pow %s %s)" % (tl, zlit(lit)), Z
                v = cx.fresh()
                return bl + br + [(v, "%s %s %s" % (BINOPS_MON[op], tl, trr))], v, Z
            raise TranslateError("int operator %s" % ast.unparse(e))
        if BVVT in (tyl, tyr) and op in DUNDER:
            # Python dispatch with normalize_types: int operand is coerced to BVV(int, other.bits)
            binds = bl + br
            if tyl == BVVT and tyr == BVVT:
                v = cx.fresh()
                return binds + [(v, "bvv___%s__ %s %s" % (DUNDER[op], tl, trr))], v, BVVT
            if tyl == BVVT and tyr == Z:
                c, v = cx.fresh(), cx.fresh()
                return binds + [(c, "BVV %s (bbits %s)" % (trr, tl)),
                                (v, "bvv___%s__ %s %s" % (DUNDER[op], tl, c))], v, BVVT
            if tyl == Z and tyr == BVVT:
                c, v = cx.fresh(), cx.fresh()
                return binds + [(c, "BVV %s (bbits %s)" % (tl, trr)),
                                (v, "bvv___r%s__ %s %s" % (DUNDER[op], trr, c))], v, BVVT
        raise TranslateError("binop %s : %s, %s" % (ast.unparse(e), tyl, tyr))
    if isinstance(e, ast.Compare):
        binds, items = [], []
        prev = tr_expr(cx, e.left, env)
        binds += prev[0]
        for op, right in zip(e.ops, e.comparators):
            cur = tr_expr(cx, right, env)
            binds += cur[0]
            a, b = prev[1], cur[1]
            if prev[2] == Z and cur[2] == Z:
                o = type(op)
                if o is ast.Eq:
                    items.append("(Z.eqb %s %s)" % (a, b))
                elif o is ast.NotEq:
                    items.append("(negb (Z.eqb %s %s))" % (a, b))
                elif o is ast.Lt:
                    items.append("(Z.ltb %s %s)" % (a, b))
                elif o is ast.LtE:
                    items.append("(Z.leb %s %s)" % (a, b))
                elif o is ast.Gt:
                    items.append("(Z.ltb %s %s)" % (b, a))
                elif o is ast.GtE:
                    items.append("(Z.leb %s %s)" % (b, a))
                else:
                    raise TranslateError("comparison %s" % ast.unparse(e))
            elif prev[2] == B and cur[2] == B and isinstance(op, (ast.Eq, ast.NotEq)):
                items.append(("(Bool.eqb %s %s)" if isinstance(op, ast.Eq) else "(negb (Bool.eqb %s %s))") % (a, b))
            else:
                raise TranslateError("comparison %s : %s, %s" % (ast.unparse(e), prev[2], cur[2]))
            prev = cur
        if len(e.ops) > 1 and any(p for p in binds):
            # chained comparison with effects in later operands would need short-circuiting
            pass
        return binds, items[0] if len(items) == 1 else "(" + " && ".join(items) + ")", B
    if isinstance(e, ast.BoolOp):
        # short-circuit: a and b == if a then b else false
        vals = [tr_expr(cx, x, env) for x in e.values]
        for v in vals:
            if v[2] != B:
                raise TranslateError("boolean operator on non-bool %s" % ast.unparse(e))
        if all(not v[0] for v in vals):
            sym = " && " if isinstance(e.op, ast.And) else " || "
            return [], "(" + sym.join(v[1] for v in vals) + ")", B
        # effects: build nested conditionals, monadic
        acc = None
        for v in reversed(vals):
            cur = nest(v[0], "Ok %s" % v[1])
            if acc is None:
                acc = cur
            else:
                if isinstance(e.op, ast.And):
                    acc = "(do c_ <- %s; if c_ then %s else Ok false)" % (cur, acc)
                else:
                    acc = "(do c_ <- %s; if c_ then Ok true else %s)" % (cur, acc)
        r = cx.fresh()
        return [(r, acc)], r, B
    if isinstance(e, ast.IfExp):
        bc, tc, tyc = tr_expr(cx, e.test, env)
        if tyc != B:
            raise TranslateError("condition not bool: %s" % ast.unparse(e.test))
        ba, ta, tya = tr_expr(cx, e.body, env)
        bb, tb, tyb = tr_expr(cx, e.orelse, env)
        if tya != tyb:
            raise TranslateError("branches of different type: %s" % ast.unparse(e))
        if not ba and not bb:
            return bc, "(if %s then %s else %s)" % (tc, ta, tb), tya
        r = cx.fresh()
        return bc + [(r, "(if %s then %s else %s)" % (tc, nest(ba, "Ok %s" % ta), nest(bb, "Ok %s" % tb)))], r, tya
    if isinstance(e, ast.Call) and isinstance(e.func, ast.Name):
        fn = e.func.id
        args = [tr_expr(cx, a, env) for a in e.args]
        binds = [b for a in args for b in a[0]]
        if e.keywords:
            raise TranslateError("keyword arguments in %s" % ast.unparse(e))
        if fn == "BVV" and len(args) == 2 and args[0][2] == Z and args[1][2] == Z:
            v = cx.fresh()
            return binds + [(v, "BVV %s %s" % (args[0][1], args[1][1]))], v, BVVT
        if fn == "abs" and len(args) == 1 and args[0][2] == Z:
            return binds, "(Z.abs %s)" % args[0][1], Z
        if fn in ("min", "max") and len(args) >= 2 and all(a[2] == Z for a in args):
            t = args[0][1]
            for a in args[1:]:
                t = "(Z.%s %s %s)" % (fn, t, a[1])
            return binds, t, Z
        if fn == "int" and len(args) == 1 and args[0][2] in (Z, B):
            return binds, args[0][1] if args[0][2] == Z else "(if %s then 1 else 0)" % args[0][1], Z
        if fn == "bool" and len(args) == 1 and args[0][2] == Z:
            return binds, "(negb (Z.eqb %s 0))" % args[0][1], B
        if fn in cx.fns:
            f = cx.fns[fn]
            if len(args) != len(f.params):
                raise TranslateError("arity of %s" % ast.unparse(e))
            actual = []
            for (pn, pt), a in zip(f.params, args):
                if pt == BVVT and a[2] == Z:
                    raise TranslateError("int passed for BVV in %s" % ast.unparse(e))
                if pt != a[2]:
                    raise TranslateError("argument type %s vs %s in %s" % (pt, a[2], ast.unparse(e)))
                actual.append(a[1])
            v = cx.fresh()
            return binds + [(v, "%s %s" % (f.coqname, " ".join(actual)))], v, f.ret
        raise TranslateError("call to unknown function %s" % fn)
    raise TranslateError("expression %s" % ast.unparse(e))


# ----------------------------------------------------------------------------------------------
# statements
# ----------------------------------------------------------------------------------------------

def assigned_names(stmts):
    out = []
    for s in stmts:
        for n in ast.walk(s):
            if isinstance(n, (ast.Assign, ast.AugAssign, ast.AnnAssign)):
                tg = n.targets if isinstance(n, ast.Assign) else [n.target]
                for t in tg:
                    for m in ast.walk(t):
                        if isinstance(m, ast.Name) and m.id not in out:
                            out.append(m.id)
    return out


def has_return(stmts):
    return any(isinstance(n, ast.Return) for s in stmts for n in ast.walk(s))


def is_debug_block(s):
    return isinstance(s, ast.If) and ast.unparse(s.test) in ("_d._DEBUG", "debug._DEBUG")


def tr_block(cx: Ctx, stmts, env, ret_ty, wrap_ret=lambda t: "Ok %s" % t, fall=None):
    """Gallina term of type res <ret>.  `fall` is the term used when control falls off the end."""
    if not stmts:
        if fall is None:
            raise TranslateError("control falls off the end of a function that returns a value")
        return fall(env)
    s, rest = stmts[0], stmts[1:]
    if isinstance(s, ast.Expr) and isinstance(s.value, ast.Constant):
        return tr_block(cx, rest, env, ret_ty, wrap_ret, fall)
    if isinstance(s, ast.Pass) or is_debug_block(s):
        return tr_block(cx, rest, env, ret_ty, wrap_ret, fall)
    if isinstance(s, ast.Assert):
        b, t, ty = tr_expr(cx, s.test, env)
        if ty != B:
            raise TranslateError("assert of non-bool")
        return nest(b, "(if %s then %s else Crash PyAssert)" % (t, tr_block(cx, rest, env, ret_ty, wrap_ret, fall)))
    if isinstance(s, ast.Return):
        if s.value is None:
            raise TranslateError("bare return")
        b, t, ty = tr_expr(cx, s.value, env)
        if ty != ret_ty:
            raise TranslateError("return type %s, expected %s: %s" % (ty, ret_ty, ast.unparse(s)))
        return nest(b, wrap_ret(t))
    if isinstance(s, ast.Raise):
        nm = None
        if isinstance(s.exc, ast.Call) and isinstance(s.exc.func, ast.Name):
            nm = s.exc.func.id
        elif isinstance(s.exc, ast.Name):
            nm = s.exc.id
        if nm not in EXN:
            raise TranslateError("raise %s" % ast.unparse(s))
        return "(Err %s)" % EXN[nm]
    if isinstance(s, (ast.Assign, ast.AugAssign)):
        if isinstance(s, ast.Assign):
            if len(s.targets) != 1:
                raise TranslateError("multiple assignment targets")
            tgt, val = s.targets[0], s.value
        else:
            tgt, val = s.target, ast.BinOp(left=s.target, op=s.op, right=s.value)
            ast.copy_location(val, s)
            ast.fix_missing_locations(val)
        b, t, ty = tr_expr(cx, val, env)
        env2 = dict(env)
        if isinstance(tgt, ast.Name):
            env2[tgt.id] = ty
            return nest(b, "(let %s := %s in %s)" % (vname(tgt.id), t, tr_block(cx, rest, env2, ret_ty, wrap_ret, fall)))
        if isinstance(tgt, ast.Tuple) and all(isinstance(x, ast.Name) for x in tgt.elts) and isinstance(ty, tuple) \
                and ty[0] == "tuple" and len(ty[1]) == len(tgt.elts):
            for x, xt in zip(tgt.elts, ty[1]):
                env2[x.id] = xt
            pat = "(" + ", ".join(vname(x.id) for x in tgt.elts) + ")"
            return nest(b, "(let '%s := %s in %s)" % (pat, t, tr_block(cx, rest, env2, ret_ty, wrap_ret, fall)))
        raise TranslateError("assignment target %s" % ast.unparse(tgt))
    if isinstance(s, ast.If):
        b, t, ty = tr_expr(cx, s.test, env)
        if ty != B:
            raise TranslateError("if condition not bool: %s" % ast.unparse(s.test))
        th = tr_block(cx, list(s.body) + rest, env, ret_ty, wrap_ret, fall)
        el = tr_block(cx, list(s.orelse) + rest, env, ret_ty, wrap_ret, fall)
        return nest(b, "(if %s then %s else %s)" % (t, th, el))
    if isinstance(s, ast.For):
        if s.orelse or has_return(s.body):
            raise TranslateError("for with else/return")
        if not isinstance(s.target, ast.Name):
            raise TranslateError("for target")
        # iterable
        it = s.iter
        if isinstance(it, ast.Call) and isinstance(it.func, ast.Name) and it.func.id == "range":
            a = [tr_expr(cx, x, env) for x in it.args]
            if any(x[2] != Z for x in a):
                raise TranslateError("range of non-int")
            binds = [bb for x in a for bb in x[0]]
            if len(a) == 1:
                lst = "(zrange 0 %s 1)" % a[0][1]
            elif len(a) == 2:
                lst = "(zrange %s %s 1)" % (a[0][1], a[1][1])
            else:
                if not (isinstance(it.args[2], ast.Constant) and it.args[2].value > 0):
                    raise TranslateError("range step must be a positive literal")
                lst = "(zrange %s %s %s)" % (a[0][1], a[1][1], a[2][1])
            elt_ty = Z
        else:
            binds, lst, lty = tr_expr(cx, it, env)
            if not (isinstance(lty, tuple) and lty[0] == "list"):
                raise TranslateError("for over non-list %s" % ast.unparse(it))
            elt_ty = lty[1]
        state = [n for n in assigned_names(s.body) if n in env]
        new = [n for n in assigned_names(s.body) if n not in env and n != s.target.id]
        if new:
            raise TranslateError("loop body introduces new locals %s (initialise them before the loop)" % new)
        pat = "(" + ", ".join(vname(n) for n in state) + ")" if len(state) != 1 else vname(state[0])
        env_b = dict(env)
        env_b[s.target.id] = elt_ty
        body = tr_block(cx, list(s.body), env_b, None, fall=lambda e: "Ok %s" % pat)
        v = cx.fresh("st")
        after = tr_block(cx, rest, env, ret_ty, wrap_ret, fall)
        letpat = "'%s" % pat if len(state) != 1 else pat
        return nest(binds, "(do %s <- foldM (fun %s %s => %s) %s %s; let %s := %s in %s)" % (
            v, ("'" + pat) if len(state) != 1 else pat, vname(s.target.id), body, lst, pat, letpat, v, after))
    if isinstance(s, ast.While):
        if s.orelse:
            raise TranslateError("while/else")
        fuel = getattr(cx, "cur_fuel", None)
        if fuel is None:
            raise TranslateError("while loop in a function without a fuel expression")
        fb, ft, fty = tr_expr(cx, ast.parse(fuel, mode="eval").body, env)
        if fty != Z or fb:
            raise TranslateError("fuel expression must be a pure int")
        state = [n for n in assigned_names(s.body) if n in env]
        new = [n for n in assigned_names(s.body) if n not in env]
        if new:
            raise TranslateError("loop body introduces new locals %s" % new)
        pat = "(" + ", ".join(vname(n) for n in state) + ")" if len(state) != 1 else vname(state[0])
        cb, ct, cty = tr_expr(cx, s.test, env)
        if cty != B:
            raise TranslateError("while condition not bool")
        body = tr_block(cx, list(s.body), env, ret_ty, wrap_ret=lambda t: "Ok (Done (inr %s))" % t,
                        fall=lambda e: "Ok (Continue %s)" % pat)
        step = nest(cb, "(if %s then %s else Ok (Done (inl %s)))" % (ct, body, pat))
        v = cx.fresh("lp")
        after = tr_block(cx, rest, env, ret_ty, wrap_ret, fall)
        lam = ("fun '%s => %s" % (pat, step)) if len(state) != 1 else ("fun %s => %s" % (pat, step))
        letpat = "'%s" % pat if len(state) != 1 else pat
        return "(do %s <- while_loop (Z.to_nat (%s)) (%s) %s; match %s with inl %s => %s | inr r_ => %s end)" % (
            v, ft, lam, pat, v, pat if len(state) == 1 else pat, after, wrap_ret("r_"))
    raise TranslateError("statement %s" % ast.unparse(s).split("\n")[0])


def tr_function(cx: Ctx, node: ast.FunctionDef, spec: Fn, extra_env=None, guard=None):
    names = [a.arg for a in node.args.args]
    if node.args.vararg:
        names.append(node.args.vararg.arg)
    if names != [p[0] for p in spec.params]:
        raise TranslateError("%s: parameters %s, expected %s" % (node.name, names, [p[0] for p in spec.params]))
    env = {p[0]: p[1] for p in spec.params}
    if extra_env:
        env.update(extra_env)
    cx.cur_fuel = spec.fuel
    body = tr_block(cx, list(node.body), env, spec.ret)
    cx.cur_fuel = None
    if guard:
        body = guard(body)
    params = " ".join("(%s : %s)" % (vname(p[0]), coq_ty(p[1])) for p in spec.params)
    return "Definition %s %s : res %s :=\n  %s." % (spec.coqname, params, coq_ty(spec.ret), body)


def norm_dump(node):
    """ast dump without docstrings/positions: the fingerprint of a function."""
    node = ast.parse(ast.unparse(node))
    for n in ast.walk(node):
        if isinstance(n, (ast.FunctionDef, ast.ClassDef, ast.Module)) and n.body and isinstance(n.body[0], ast.Expr) \
                and isinstance(n.body[0].value, ast.Constant) and isinstance(n.body[0].value.value, str):
            n.body = n.body[1:] or [ast.Pass()]
    return ast.dump(node, annotate_fields=False)


HEADER = """(* GENERATED by tools/py2coq.py from %s -- do not edit *)
From Coq Require Import ZArith List Bool.
Import ListNotations.
Require Import CV.Model.PyPrelude.
Open Scope Z_scope.
"""

GENERATORS = {}


def generator(name):
    def deco(f):
        GENERATORS[name] = f
        return f
    return deco


# ----------------------------------------------------------------------------------------------
# backend_concrete/bv.py
# ----------------------------------------------------------------------------------------------

DECORATOR_FPS = {
    "compare_bits": "if self.bits == 0 or o.bits == 0: raise ClaripyTypeError(...)\nif self.bits != o.bits: raise ClaripyTypeError(...)",
    "compare_bits_0_length": "if self.bits != o.bits: raise ClaripyTypeError(...)",
}


def _check_decorators(fns):
    """The three decorators are recognised by name; their bodies must still be what the emitted guards say."""
    def inner_body(name):
        f = fns[name]
        inner = [s for s in f.body if isinstance(s, ast.FunctionDef)]
        if len(inner) != 1:
            raise TranslateError("decorator %s has unexpected shape" % name)
        return inner[0]

    cb = inner_body("compare_bits")
    txt = [ast.unparse(s) for s in cb.body]
    if len(txt) != 3 or not txt[0].startswith("if self.bits == 0 or o.bits == 0:\n    raise ClaripyTypeError(") \
            or not txt[1].startswith("if self.bits != o.bits:\n    raise ClaripyTypeError(") or txt[2] != "return f(self, o)":
        raise TranslateError("compare_bits changed: %s" % txt)
    c0 = inner_body("compare_bits_0_length")
    txt = [ast.unparse(s) for s in c0.body]
    if len(txt) != 2 or not txt[0].startswith("if self.bits != o.bits:\n    raise ClaripyTypeError(") or txt[1] != "return f(self, o)":
        raise TranslateError("compare_bits_0_length changed: %s" % txt)
    nt = inner_body("normalize_types")
    txt = [ast.unparse(s) for s in nt.body]
    expect = ["if _d._DEBUG and hasattr(o, '__module__') and (o.__module__ == 'z3'):\n    raise ValueError('this should no longer happen')",
              "if isinstance(o, numbers.Number):\n    o = BVV(o, self.bits)",
              "if isinstance(self, numbers.Number):\n    self = BVV(self, self.bits)",
              "if not isinstance(self, BVV) or not isinstance(o, BVV):\n    return NotImplemented",
              "return f(self, o)"]
    if txt != expect:
        raise TranslateError("normalize_types changed: %s" % txt)


def bvv_attr_hook(cx, e, env):
    # attribute reads on BVV-typed expressions, and .size()
    if isinstance(e, ast.Call):
        f = e.func
        if f.attr == "size" and not e.args:
            b, t, ty = tr_expr(cx, f.value, env)
            if ty == BVVT:
                return b, "(bbits %s)" % t, Z
        return None
    b, t, ty = tr_expr(cx, e.value, env)
    if ty != BVVT:
        return None
    if e.attr in ("value", "_value"):
        return b, "(bvalue %s)" % t, Z
    if e.attr == "bits":
        return b, "(bbits %s)" % t, Z
    if e.attr == "mod":
        return b, "(bvv_mod %s)" % t, Z
    if e.attr == "signed":
        v = cx.fresh()
        return b + [(v, "bvv_signed %s" % t)], v, Z
    return None


BV_METHODS_BIN = ["__add__", "__sub__", "__mul__", "__mod__", "__floordiv__", "__radd__", "__rsub__", "__rmul__",
                  "__rmod__", "__rfloordiv__", "__and__", "__or__", "__xor__", "__lshift__", "__rshift__",
                  "__rand__", "__ror__", "__rxor__", "__rlshift__", "__rrshift__"]
BV_METHODS_CMP = ["__eq__", "__ne__", "ULT", "UGT", "ULE", "UGE"]
BV_MODULE_FNS = [  # (name, params, ret) in dependency order
    ("LShR", [("a", BVVT), ("b", BVVT)], BVVT),
    ("ZeroExt", [("num", Z), ("o", BVVT)], BVVT),
    ("SignExt", [("num", Z), ("o", BVVT)], BVVT),
    ("Extract", [("f", Z), ("t", Z), ("o", BVVT)], BVVT),
    ("Concat", [("args", tylist(BVVT))], BVVT),
    ("RotateRight", [("self", BVVT), ("bits", BVVT)], BVVT),
    ("RotateLeft", [("self", BVVT), ("bits", BVVT)], BVVT),
    ("_reverse_16", [("v", Z)], Z),
    ("_reverse_32", [("v", Z)], Z),
    ("_reverse_64", [("v", Z)], Z),
    ("Reverse", [("a", BVVT)], BVVT),
    ("ULT", [("self", BVVT), ("o", BVVT)], B),
    ("UGT", [("self", BVVT), ("o", BVVT)], B),
    ("ULE", [("self", BVVT), ("o", BVVT)], B),
    ("UGE", [("self", BVVT), ("o", BVVT)], B),
    ("SLT", [("self", BVVT), ("o", BVVT)], B),
    ("SGT", [("self", BVVT), ("o", BVVT)], B),
    ("SLE", [("self", BVVT), ("o", BVVT)], B),
    ("SGE", [("self", BVVT), ("o", BVVT)], B),
    ("SMod", [("self", BVVT), ("o", BVVT)], BVVT),
    ("SDiv", [("self", BVVT), ("o", BVVT)], BVVT),
]


def _guard_for(decos):
    names = [ast.unparse(d) for d in decos]
    if names == ["normalize_types", "compare_bits"]:
        return lambda body: ("if (Z.eqb (bbits v_%s) 0) || (Z.eqb (bbits v_%s) 0) then Err TypeErr else "
                             "if negb (Z.eqb (bbits v_%s) (bbits v_%s)) then Err TypeErr else\n  %s")
    if names == ["normalize_types", "compare_bits_0_length"]:
        return lambda body: "if negb (Z.eqb (bbits v_%s) (bbits v_%s)) then Err TypeErr else\n  %s"
    if names == []:
        return None
    raise TranslateError("decorators %s" % names)


def _apply_guard(decos, p1, p2, body):
    names = [ast.unparse(d) for d in decos]
    if names == ["normalize_types", "compare_bits"]:
        return ("if (Z.eqb (bbits %s) 0) || (Z.eqb (bbits %s) 0) then Err TypeErr else "
                "if negb (Z.eqb (bbits %s) (bbits %s)) then Err TypeErr else\n  %s" % (p1, p2, p1, p2, body))
    if names == ["normalize_types", "compare_bits_0_length"]:
        return "if negb (Z.eqb (bbits %s) (bbits %s)) then Err TypeErr else\n  %s" % (p1, p2, body)
    if names == []:
        return body
    raise TranslateError("decorators %s" % names)


@generator("BvConcrete")
def gen_bvconcrete(repo):
    path = os.path.join(repo, "claripy/backends/backend_concrete/bv.py")
    tree = ast.parse(open(path).read())
    fns = {n.name: n for n in tree.body if isinstance(n, ast.FunctionDef)}
    cls = [n for n in tree.body if isinstance(n, ast.ClassDef) and n.name == "BVV"]
    if len(cls) != 1:
        raise TranslateError("class BVV not found")
    cls = cls[0]
    _check_decorators(fns)
    meths = {}
    props = {}
    for n in cls.body:
        if isinstance(n, ast.FunctionDef):
            decs = [ast.unparse(d) for d in n.decorator_list]
            if "property" in decs:
                props[n.name] = n
            elif any(d.endswith(".setter") for d in decs):
                props[n.name + ".setter"] = n
            else:
                meths[n.name] = n
    cx = Ctx()
    cx.attr_hook = bvv_attr_hook
    out = [HEADER % "claripy/backends/backend_concrete/bv.py"]
    out.append("Record bvv := mkbvv { bvalue : Z; bbits : Z }.")
    # constructor: __init__ + value setter
    init = meths["__init__"]
    body = [s for s in init.body if not is_debug_block(s)]
    if [ast.unparse(s) for s in body] != ["self.bits = bits", "self._value = 0", "self.mod = 1 << bits", "self.value = value"]:
        raise TranslateError("BVV.__init__ changed: %s" % [ast.unparse(s) for s in body])
    setter = props["value.setter"]
    if len(setter.body) != 1 or not isinstance(setter.body[0], ast.Assign) or ast.unparse(setter.body[0].targets[0]) != "self._value":
        raise TranslateError("value setter changed")
    sv = setter.body[0].value
    if not (isinstance(sv, ast.IfExp) and ast.unparse(sv.test) == "v is not None" and ast.unparse(sv.orelse) == "None"):
        raise TranslateError("value setter changed: %s" % ast.unparse(sv))
    # translate `v & (self.mod - 1)` with self.mod := m
    class Sub(ast.NodeTransformer):
        def visit_Attribute(self, node):
            if ast.unparse(node) == "self.mod":
                return ast.copy_location(ast.Name(id="m", ctx=ast.Load()), node)
            return node
    sexpr = Sub().visit(sv.body)
    b, t, ty = tr_expr(cx, sexpr, {"v": Z, "m": Z})
    if ty != Z:
        raise TranslateError("setter value type")
    out.append("Definition BVV (v_v v_bits : Z) : res bvv :=\n  do v_m <- py_shl 1 v_bits; %s." %
               nest(b, "Ok (mkbvv %s v_bits)" % t))
    out.append("Definition bvv_mod (x : bvv) : Z := Z.shiftl 1 (bbits x).")
    # signed getter
    sg = props["signed"]
    if len(sg.body) != 1 or not isinstance(sg.body[0], ast.Return):
        raise TranslateError("signed getter changed")
    out.append(tr_function(cx, sg, Fn("signed", "bvv_signed", [("self", BVVT)], Z)))
    if ast.unparse(meths["size"].body[0]) != "return self.bits":
        raise TranslateError("size() changed")
    # unary
    for nm in ("__invert__", "__neg__"):
        out.append(tr_function(cx, meths[nm], Fn(nm, "bvv_" + nm, [("self", BVVT)], BVVT)))
    for nm in BV_METHODS_BIN + BV_METHODS_CMP:
        m = meths[nm]
        ret = B if nm in BV_METHODS_CMP else BVVT
        spec = Fn(nm, "bvv_" + nm, [("self", BVVT), ("o", BVVT)], ret)
        out.append(tr_function(cx, m, spec, guard=lambda body, m=m: _apply_guard(m.decorator_list, "v_self", "v_o", body)))
    if ast.unparse(meths["__truediv__"].body[0]) != "return self // other":
        raise TranslateError("__truediv__ changed")
    for (nm, params, ret) in BV_MODULE_FNS:
        f = fns[nm]
        spec = Fn(nm, "bv_" + nm, params, ret)
        p = [x[0] for x in params]
        g = (lambda body, f=f, p=p: _apply_guard(f.decorator_list, "v_" + p[0], "v_" + p[1], body)) if f.decorator_list else None
        out.append(tr_function(cx, f, spec, guard=g))
        cx.fns[nm] = spec
    return "\n\n".join(out) + "\n"




# ----------------------------------------------------------------------------------------------
# backend_vsa/strided_interval.py : the static integer helpers
# ----------------------------------------------------------------------------------------------

SI_HELPERS = [  # (name, params, ret) in dependency order
    ("_modular_add", [("a", Z), ("b", Z), ("bits", Z)], Z),
    ("_modular_sub", [("a", Z), ("b", Z), ("bits", Z)], Z),
    ("_modular_mul", [("a", Z), ("b", Z), ("bits", Z)], Z),
    ("highbit", [("k", Z)], Z),
    ("max_int", [("k", Z)], Z),
    ("min_int", [("k", Z)], Z),
    ("signed_max_int", [("k", Z)], Z),
    ("signed_min_int", [("k", Z)], Z),
    ("_to_negative", [("a", Z), ("bits", Z)], Z),
    ("upper", [("bits", Z), ("i", Z), ("stride", Z)], Z),
    ("lower", [("bits", Z), ("i", Z), ("stride", Z)], Z),
    ("_wrapped_cardinality", [("x", Z), ("y", Z), ("bits", Z)], Z),
    ("_is_msb_zero", [("v", Z), ("bits", Z)], B),
    ("_is_msb_one", [("v", Z), ("bits", Z)], B),
    ("_get_msb", [("v", Z), ("bits", Z)], Z),
    ("_unsigned_to_signed", [("v", Z), ("bits", Z)], Z),
    ("_lex_lte", [("x", Z), ("y", Z), ("bits", Z)], B),
    ("_lex_lt", [("x", Z), ("y", Z), ("bits", Z)], B),
]


def si_attr_hook(cx, e, env):
    # StridedInterval.<static>(...) calls
    if isinstance(e, ast.Call) and isinstance(e.func, ast.Attribute) and ast.unparse(e.func.value) == "StridedInterval":
        call = ast.Call(func=ast.Name(id=e.func.attr, ctx=ast.Load()), args=e.args, keywords=e.keywords)
        ast.copy_location(call, e)
        ast.fix_missing_locations(call)
        return tr_expr(cx, call, env)
    return None


@generator("SIHelpers")
def gen_sihelpers(repo):
    path = os.path.join(repo, "claripy/backends/backend_vsa/strided_interval.py")
    tree = ast.parse(open(path).read())
    cls = [n for n in tree.body if isinstance(n, ast.ClassDef) and n.name == "StridedInterval"]
    if len(cls) != 1:
        raise TranslateError("class StridedInterval not found")
    meths = {n.name: n for n in cls[0].body if isinstance(n, ast.FunctionDef)}
    cx = Ctx()
    cx.attr_hook = si_attr_hook
    out = [HEADER % "claripy/backends/backend_vsa/strided_interval.py (static helpers)"]
    for (nm, params, ret) in SI_HELPERS:
        f = meths.get(nm)
        if f is None:
            raise TranslateError("%s not found" % nm)
        if [ast.unparse(d) for d in f.decorator_list] != ["staticmethod"]:
            raise TranslateError("%s is no longer a staticmethod" % nm)
        spec = Fn(nm, "si_" + nm.lstrip("_"), params, ret)
        f2 = ast.FunctionDef(name=f.name, args=f.args, body=f.body, decorator_list=[], returns=None, type_comment=None)
        out.append(tr_function(cx, f2, spec))
        cx.fns[nm] = spec
    return "\n\n".join(out) + "\n"


# ----------------------------------------------------------------------------------------------
# backend_z3.py: the operator tables of the Z3 round trip (C09)
# ----------------------------------------------------------------------------------------------

@generator("Z3OpMap")
def gen_z3opmap(repo):
    """op_map (Z3 declaration kind -> claripy operation, used by _abstract_internal) as an association list, and for
    every _op_raw_<op> whose body is a single Z3_mk_* call the name of that call (claripy operation -> Z3 constructor)."""
    import re
    path = os.path.join(repo, "claripy/backends/backend_z3.py")
    src = open(path).read()
    tree = ast.parse(src)
    table = None
    for n in tree.body:
        if isinstance(n, ast.Assign) and len(n.targets) == 1 and isinstance(n.targets[0], ast.Name) and n.targets[0].id == "op_map":
            if not isinstance(n.value, ast.Dict):
                raise TranslateError("op_map is no longer a dict literal")
            table = []
            for k, v in zip(n.value.keys, n.value.values):
                if not (isinstance(k, ast.Constant) and isinstance(k.value, str)):
                    raise TranslateError("op_map key is not a string literal")
                if isinstance(v, ast.Constant) and (v.value is None or isinstance(v.value, str)):
                    table.append((k.value, v.value))
                else:
                    raise TranslateError("op_map value for %s is not a string literal or None" % k.value)
    if table is None:
        raise TranslateError("op_map not found")
    cls = [n for n in tree.body if isinstance(n, ast.ClassDef) and n.name == "BackendZ3"]
    if len(cls) != 1:
        raise TranslateError("class BackendZ3 not found")
    raw = []
    for f in cls[0].body:
        if isinstance(f, ast.FunctionDef) and f.name.startswith("_op_raw_"):
            body = ast.unparse(f)
            mks = sorted(set(re.findall(r"Z3_mk_(\w+)", body)))
            if len(mks) == 1 and len([st for st in f.body if not isinstance(st, ast.Expr)]) == 1:
                raw.append((f.name[len("_op_raw_"):], mks[0]))
    def q(x):
        return "None" if x is None else 'Some "%s"' % x
    out = ["(* GENERATED by tools/py2coq.py from claripy/backends/backend_z3.py (op_map and the _op_raw_ functions) -- do not edit *)",
           "From Coq Require Import String List.", "Import ListNotations.", "Open Scope string_scope.", "",
           "Definition op_map : list (string * option string) :=", "  ["]
    out.append(";\n".join('   ("%s", %s)' % (k, q(v)) for k, v in table))
    out += ["  ].", "", "(* claripy operation -> the Z3_mk_* constructor its _op_raw_ function calls *)",
            "Definition op_raw_mk : list (string * string) :=", "  ["]
    out.append(";\n".join('   ("%s", "%s")' % kv for kv in raw))
    out += ["  ]."]
    return "\n".join(out) + "\n"


# ----------------------------------------------------------------------------------------------
# balancer.py / operations.py: the comparison tables of the balancer (C25)
# ----------------------------------------------------------------------------------------------

@generator("BalancerTables")
def gen_balancer_tables(repo):
    """operations.opposites (operator -> operator with swapped operands), Balancer.comparison_info
    (operator -> (is_lt, is_equal, is_unsigned)) and Balancer._unsigned_comparison as association lists."""
    def dict_literal(tree_body, name, where):
        for n in tree_body:
            tgt = None
            if isinstance(n, ast.Assign) and len(n.targets) == 1 and isinstance(n.targets[0], ast.Name):
                tgt, val = n.targets[0].id, n.value
            elif isinstance(n, ast.AnnAssign) and isinstance(n.target, ast.Name):
                tgt, val = n.target.id, n.value
            if tgt == name:
                if not isinstance(val, ast.Dict):
                    raise TranslateError("%s in %s is no longer a dict literal" % (name, where))
                return val
        raise TranslateError("%s not found in %s" % (name, where))

    ops_tree = ast.parse(open(os.path.join(repo, "claripy/operations.py")).read())
    opp = dict_literal(ops_tree.body, "opposites", "operations.py")
    opposites = []
    for k, v in zip(opp.keys, opp.values):
        if not (isinstance(k, ast.Constant) and isinstance(k.value, str) and isinstance(v, ast.Constant) and isinstance(v.value, str)):
            raise TranslateError("opposites entry is not a pair of string literals")
        opposites.append((k.value, v.value))
    bal_tree = ast.parse(open(os.path.join(repo, "claripy/backends/backend_vsa/balancer.py")).read())
    cls = [n for n in bal_tree.body if isinstance(n, ast.ClassDef) and n.name == "Balancer"]
    if len(cls) != 1:
        raise TranslateError("class Balancer not found")
    ci = dict_literal(cls[0].body, "comparison_info", "balancer.py")
    info = []
    for k, v in zip(ci.keys, ci.values):
        if not (isinstance(k, ast.Constant) and isinstance(k.value, str) and isinstance(v, ast.Tuple) and len(v.elts) == 3
                and all(isinstance(e, ast.Constant) and isinstance(e.value, bool) for e in v.elts)):
            raise TranslateError("comparison_info entry is not op -> (bool, bool, bool)")
        info.append((k.value, tuple(e.value for e in v.elts)))
    uc = dict_literal(cls[0].body, "_unsigned_comparison", "balancer.py")
    unsigned = []
    for k, v in zip(uc.keys, uc.values):
        if not (isinstance(k, ast.Constant) and isinstance(k.value, str) and isinstance(v, ast.Constant) and isinstance(v.value, str)):
            raise TranslateError("_unsigned_comparison entry is not a pair of string literals")
        unsigned.append((k.value, v.value))
    b = lambda x: "true" if x else "false"  # noqa
    out = ["(* GENERATED by tools/py2coq.py from claripy/operations.py (opposites) and claripy/backends/backend_vsa/balancer.py "
           "(comparison_info, _unsigned_comparison) -- do not edit *)",
           "From Coq Require Import String List Bool.", "Import ListNotations.", "Open Scope string_scope.", "",
           "Definition opposites : list (string * string) :=", "  ["]
    out.append(";\n".join('   ("%s", "%s")' % kv for kv in opposites))
    out += ["  ].", "", "(* operator -> (is_lt, is_equal, is_unsigned) *)",
            "Definition comparison_info : list (string * (bool * bool * bool)) :=", "  ["]
    out.append(";\n".join('   ("%s", (%s, %s, %s))' % (k, b(v[0]), b(v[1]), b(v[2])) for k, v in info))
    out += ["  ].", "", "Definition unsigned_comparison : list (string * string) :=", "  ["]
    out.append(";\n".join('   ("%s", "%s")' % kv for kv in unsigned))
    out += ["  ]."]
    return "\n".join(out) + "\n"


if __name__ == "__main__":
    import sys
    print(GENERATORS[sys.argv[1]](sys.argv[2] if len(sys.argv) > 2 else "/repo"))
