#!/bin/bash
# maintainer tool: apply every kept seeded change to /repo in turn, run the quick check of its property, undo; prints one line each
cd /verif
for d in seeded/*/; do
  n=$(basename $d); prop=${n%%-*}
  if ! git -C /repo apply --check /verif/$d/patch.diff 2>/dev/null; then echo "$n PATCH-DOES-NOT-APPLY"; continue; fi
  git -C /repo apply /verif/$d/patch.diff
  out=$(timeout 1800 ./check $prop quick 2>&1 | grep -E "VIOLATION|\] exit" | head -3 | tr '\n' ' ')
  git -C /repo checkout -- .
  echo "$n $(echo $out | grep -c VIOLATION) :: $(echo $out | cut -c1-160)"
done
git -C /repo status --short | head -3
