#!/usr/bin/env python3
"""keep_seed.py <prop> <name> <srcdir> <needs> <ran> <result>: store a confirmed seeded change under seeded/<prop>-<name>/"""
import json, os, shutil, sys
prop, name, src, needs, ran, result = sys.argv[1:7]
d = os.path.join(os.path.dirname(os.path.dirname(os.path.abspath(__file__))), "seeded", "%s-%s" % (prop, name))
os.makedirs(d, exist_ok=True)
for f in ("patch.diff", "demo.py", "notes.txt"):
    if os.path.exists(os.path.join(src, f)):
        shutil.copy(os.path.join(src, f), os.path.join(d, f))
json.dump({"property": prop, "needs_to_manifest": needs, "what_i_ran": ran, "check_result": result},
          open(os.path.join(d, "meta.json"), "w"), indent=1)
