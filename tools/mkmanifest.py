#!/usr/bin/env python3
"""Writes MANIFEST.json from the table below (kept here so the manifest always validates)."""
import json, os
V = os.path.dirname(os.path.dirname(os.path.abspath(__file__)))
ALL = ["C%02d" % i for i in range(1, 27)]

CHECKS = {
 "C19": dict(
   text="Machine-checked proof (Coq): Props/C19.v states, for every number of threads, every nesting depth, every initial "
        "collector state and every instruction-level schedule, that the counter is never negative, the collector is off "
        "whenever a wrapped call is in progress, and its state is restored once all calls have returned. The theorem is about "
        "the instruction lists regenerated from _enter_z3/_exit_z3/condom on every run (translator tie), and the generated "
        "model is additionally compared, line event by line event, with real threads driven through the real functions.",
   design="5/C19", technique="Coq invariant proof over translated program; line-level trace correspondence",
   note="Trusted: Coq kernel; tools/gen_gcguard.py translator; CPython line atomicity and threading.Lock semantics; "
        "extraction (ExtrOcamlBasic) + OCaml driver. No axioms (Print Assumptions: closed)."),
 "C01": dict(
   text="Machine-checked proof (Coq): C01_build_sound / C01_tree state, for every width, constant, assignment and operation tree, "
        "that what the construction model returns denotes the SMT-LIB value of the written tree; C01b_* state that every concrete "
        "folding function generated from backend_concrete/bv.py is its SMT-LIB operator (all widths, all values; Reverse excepted). "
        "Tie: bv.py is re-translated on every run and each generated function is run against the real one; the hand-written "
        "model of operations.py/simplifications.py/ast/bool.py:If/Base.__new__ is compared step by step with the real claripy on "
        "rule templates and random programs.  Rules the model marks Unmodelled (Extract/Concat/Reverse simplifiers, the three "
        "compare-against-constant helpers, min/max idiom, rotate-shift-mask) are covered by the direct property test only "
        "(extracted SMT-LIB evaluator as oracle) -- that part is testing, not proof.",
   design="5/C01", technique="Coq soundness proof of a rewriting model + translated concrete backend; one-step AST correspondence",
   note="Trusted: Coq kernel; tools/py2coq.py; Model/Ast.v operator-name->meaning table; extraction + OCaml driver; "
        "hash-consing identity modelled as structural equality. No axioms (all Print Assumptions closed)."),
}

CHECKS["C05"] = dict(
   text="Machine-checked proof (Coq): C05_width (the reported width of a built expression is the width of the value the written tree "
        "denotes, corollary of C01_tree), C05_variables (the value depends only on the occurring variables), C05_concrete*, C05_depth "
        "over the AST model, whose derived fields are compared with the fields claripy stores on every expression of the C01 generators "
        "and on results of replace/annotate/clear_annotations/claripy.simplify. The accuracy of claripy's *stored* variables/symbolic/"
        "depth after substitution, annotation changes and Z3 abstraction is established by recomputation on the real objects "
        "(testing), not by proof.",
   design="5/C05", technique="Coq lemmas on the AST model + field-by-field correspondence and recomputation",
   note="Trusted: Coq kernel; Model/Ast.v; the serialiser; stored `variables` may be a superset (allowed by the property).")
CHECKS["C10"] = dict(
   text="Machine-checked proof (Coq): C10_is_true / C10_is_false -- when the construction model's cheap check answers True for an "
        "expression built from any operation tree, the tree is valid (resp. unsatisfiable) under every assignment (corollary of "
        "C01_tree). The solver-level is_true/is_false (Z3 simplify, backend caches, frontend plumbing) are checked by enumeration of "
        "all models on small universes, including cache-aimed scenarios -- testing, not proof.",
   design="5/C10", technique="Coq corollary of the construction soundness theorem; model enumeration for solver-level checks",
   note="Trusted: Coq kernel; Model/Build.v tie of C01; Z3's simplify(e).eq(True) is an oracle assumed sound.")
CHECKS["C11"] = dict(
   text="Machine-checked proof (Coq) of the search algorithms every answer rests on, for every width and every truthful solver oracle: "
        "BackendZ3._extrema returns the true optimum (C11_extrema_max/min), _batch_eval returns feasible pairwise-distinct values and all "
        "of them when fewer than n (C11_enumerate), ModelCacheMixin.batch_eval's cached-then-solve keeps that (C11_cached_then_solve), "
        "FullFrontend.min/max on top of eval(e,2) return the optimum in the requested signedness (C11_frontend_max/min). The models are "
        "tied to the code by running the extracted loops against an oracle computed from the enumerated feasible set (same result, same "
        "number of solver checks). The bookkeeping of the cache mixins across histories is NOT modelled: it is checked by random "
        "histories and cache-aimed scenarios against a brute-force reference (4096 assignments) -- testing, not proof; that part found "
        "and led to the repair of seven defects.",
   design="5/C11", technique="Coq proofs of the backend search loops with an oracle; history fuzzing against enumeration for the cache layer",
   note="Trusted: Coq kernel; truthfulness of Z3; extraction + driver; the cache layer is outside the proved model.")

CHECKS["C08"] = dict(
   text="Machine-checked proof (Coq) over the AST/construction model, for every expression, replacement map, case list, switch table and "
        "assignment: replace_dict keeps the value when keys and images agree (C08_replace_equiv) and, for variable keys, yields exactly "
        "the original evaluated with the variables bound to their images, simultaneously (C08_replace_vars, C08_replace_var); ite_cases "
        "takes the first case whose condition holds (C08_ite_cases); ite_dict returns d[i] or the default for arbitrary integer keys "
        "(C08_ite_dict); reverse_ite_cases reports cases of which exactly one holds, with the expression's value (C08_reverse_ite_cases); "
        "chop/get_bytes are the documented Extract slices (C08_chop, C08_get_bytes); excavate_ite is an equivalence (C08_excavate). "
        "Tie: the extracted model runs next to the real functions and results are compared structurally. canonicalize, identical and "
        "burrow_ite have no theorem: they, and every other function again, are judged directly against the enumeration of all 4096 "
        "assignments (testing).",
   design="5/C08", technique="Coq proofs over a hand-written model of replace.py / bool.py / bv.py / ite_relocation.py; structural result correspondence; enumeration",
   note="Trusted: Coq kernel; Model/Rewrite.v (hand-written) tied by result comparison; object identity = structural equality; "
        "annotations not modelled. Known finding: BV.identical compares VSA abstractions. Two defects repaired (ite_dict key order, burrow_ite).")
CHECKS["C21"] = dict(
   text="Machine-checked proof (Coq), every width and every operand: strided-interval add is sound (C21_add); sub and neg, as repaired "
        "(the subtrahend's upper bound is first replaced by its last member), are sound for every subtrahend (C21_sub, C21_neg; a stride-0 "
        "operand must be a single value), while the pinned bounds rule without that step is refuted (C21_sub_unaligned_refuted, "
        "witness {0} - 2[0,1] at 2 bits); normalisation keeps every member (C21_normalize); zero_extend as repaired (a wrapping interval "
        "is split at the south pole and the relabelled pieces joined) is sound for every interval (C21_zext), relabelling alone -- the "
        "pinned rule -- is not (C21_zext_wrapping_refuted); bitwise_not as repaired (complement from the last member of every piece) is "
        "sound for every interval (C21_not); a definite answer of the unsigned "
        "comparisons ULT/ULE/UGT/UGE (_ssplit, _unsigned_bounds, the all-pairs decision) holds for every pair of members (C21_ult, C21_ule, "
        "C21_ugt, C21_uge), and they answer whenever a wrapping operand has a positive stride (C21_ucmp_total); the same for the signed "
        "comparisons SLT/SLE/SGT/SGE over the repaired _signed_bounds (_ssplit, then _nsplit of every piece, memberless pieces skipped: "
        "C21_slt, C21_sle, C21_sgt, C21_sge), and every member lies between one pair of _unsigned_bounds / _signed_bounds "
        "(C21_unsigned_bounds, C21_signed_bounds). The model's record-level operations call "
        "the integer helpers re-translated from strided_interval.py on every run and are compared result-for-result with the real code. "
        "All other transfer functions (mul, div, mod, and/or/xor, shifts, sign extension, extraction, concat, eq) are NOT modelled: "
        "they are swept directly -- exhaustively at widths 1-2 (1-3 in the thorough tier), sampled above -- and are unsound on the "
        "pinned tree in 3 operations (eq, mul, sdiv); those are known findings identified by (operation, input). Seventeen "
        "defects (sub, bitwise_not, zero_extend, n_values, __mod__, pseudo_join, the shift range, both right shifts, lshift, concat, "
        "cast_low, sign_extend, the sign-bit and, the two bounds functions, eval of a singleton, __neg__) were repaired.",
   design="5/C21", technique="Coq soundness proofs for add/sub/neg/not/zero_extend/the eight order comparisons over translated helpers; exhaustive small-width sweep of the real code for the rest",
   note="Trusted: Coq kernel; tools/py2coq.py; Model/SI.v, Model/SICmp.v, Model/SINot.v, Model/SIZextM.v, Model/SIUnion.v hand-written; sweep oracle = member enumeration from the definition. "
        "Much of this property is decided by testing, not proof; the known-findings list is large (known/C21.txt.gz).")
CHECKS["C22"] = dict(
   text="Machine-checked proof (Coq): cardinality equals the number of members for every width (C22_cardinality), the executable member "
        "list is the member set (C22_members), and the union of two intervals (union / _union / least_upper_bound of two = pseudo_join "
        "with all its cases: containment either way, TOP operands, covering the circle, overlap, disjoint with the choice of the smaller "
        "join) contains every member of both operands for every width and all operands (C22_union); the union model is compared "
        "result-for-result with the real code on ~10000 pairs per run. The queries that read _unsigned_bounds/_signed_bounds are modelled "
        "(Model/SIQuery.v) and compared result-for-result (max, min, eval(n) in both signednesses on ~5800 intervals per run): unsigned min "
        "is exactly the least member (C22_min_exact), unsigned eval lists members only (C22_eval_members), max is an upper and min a lower "
        "bound of every member in either signedness (C22_max_upper_partial, C22_min_lower_partial -- partial because max is not always a "
        "member: C22_max_not_member_refuted, a known finding). pseudo_join with either value of smart_join contains both operands "
        "(C22_join) and least_upper_bound of any number of intervals -- the stable sort by lower bound, the fold of every rotation with "
        "pseudo_join(smart_join=False), the candidate with the fewest values -- contains every operand (C22_lub); both are compared "
        "result-for-result with the real code (about 3400 pairs and 4700 triples/quadruples per quick run). intersection, widen and "
        "solution are NOT modelled: they are swept directly on the real code (all intervals and pairs of width 1-2, 1-3 thorough, samples "
        "above; least_upper_bound also on every triple at width 2 and samples of 3-4 operands at widths 3, 4); "
        "widen, intersection, solution and min/max on intervals with a non-member upper bound fail on the pinned tree and are "
        "known findings identified by (operation, input); five defects (eval of a singleton, the two bounds functions twice, "
        "pseudo_join without smart_join) were repaired.",
   design="5/C22", technique="Coq proofs of cardinality, pseudo_join, n-ary least_upper_bound and the bounds-reading queries; correspondence by extraction; exhaustive small-width sweep of the real joins/meets/queries",
   note="Trusted: Coq kernel; Model/SI.v, Model/SIUnion.v, Model/SICmp.v, Model/SIQuery.v; sweep oracle = member enumeration from the definition.")

CHECKS["C23"] = dict(
   text="Machine-checked proof (Coq), generic in the element domain: an operation applied to every (pair of) member(s) of sets of abstract "
        "values contains every concrete result whenever the element operation is sound under its side condition (C23_lift2, C23_lift1); "
        "collapsing/normalising with a sound join keeps every member value (C23_collapse, C23_normalize); for region value sets, applying "
        "an operation in every region and the union of two value sets are sound separately per region (C23_vmap, C23_vunion). Instances "
        "over the strided-interval model for every width and any number of members: C23_dsis_add, C23_dsis_sub, C23_dsis_neg, C23_dsis_not, C23_vs_add. "
        "Tie: the extracted lifted add/sub/neg and value-set add/sub are compared member set by member set with the real "
        "DiscreteStridedIntervalSet / ValueSet, and the traced model union with the region structure of the real union. Search: every "
        "lifted operation, union, collapse, normalize, intersection, comparison and query of the real classes against the member-level "
        "results (testing). Interval join/cardinality and the other transfer functions are parameters of the theorems (C21/C22).",
   design="5/C23", technique="Coq proof of the lifting principle + instances; correspondence by extraction; relative soundness search",
   note="Trusted: Coq kernel; extraction; Model/Lift.v hand-written. Two defects repaired (DSIS.__neg__, StridedInterval.__hash__).")

CHECKS["C24"] = dict(
   text="Machine-checked proof (Coq), for every expression (any depth, width, operator), any abstract domain and every assignment that "
        "respects the variables' annotations: bottom-up abstract evaluation with BackendVSA's If rule contains the expression's value "
        "whenever each operator's transfer function and the join are sound and has_true/has_false are complete (C24_aeval), also after "
        "ITE excavation as in BackendVSA.convert (C24_convert, using C08's excavation theorem), and for the executable table-driven "
        "instance (C24_table); the hypotheses are discharged for the modelled operators: table entries for + - unary- ~ ZeroExt and the eight "
        "order comparisons by C21's theorems (C24_add_entry, C24_sub_entry, C24_neg_entry, C24_invert_entry, C24_zext_entry, "
        "C24_cmp_entries) and the If-join by C22's union theorem (C24_union_join); every recorded entry of those operators on plain "
        "intervals is compared with the proved strided-interval model on every run (about 3300 entries in the quick tier), so its "
        "soundness is a theorem and not a hypothesis of the run. Tie: the real BackendVSA.convert runs with its operator applications recorded (run-time wrapper around "
        "_call); the extracted model replays the evaluation of the excavated tree from that table and must reach the same abstract value. "
        "Search: every assignment inside the intervals is enumerated with the extracted SMT-LIB evaluator (1-3 variables, width 2-4); a "
        "missing value is located at the sub-expression where soundness is lost; if that node carries exactly the interval-level result, "
        "the failure is the transfer function's (C21 known findings, reported as KNOWN-FINDING site=transfer:<op>), otherwise a violation. "
        "SolverVSA eval/min/max/solution/satisfiable/is_true/is_false/add are checked against the same enumeration.",
   design="5/C24", technique="Coq proof of abstract-interpretation soundness; recorded-table replay by extraction; exhaustive enumeration search",
   note="Trusted: Coq kernel; extraction; the run-time recorder. The transfer functions that are not modelled (mul, div, mod, and/or/xor, shifts, SignExt, Extract, Concat, ==) and joins of non-interval values are hypotheses (C21/C22). "
        "Region annotations/value sets and discrete sets at the AST level are covered by C23's check, not here.")

CHECKS["C25"] = dict(
   text="Machine-checked proof (Coq) over Model/Balance.v and the comparison tables regenerated from the source on every run "
        "(operations.opposites, Balancer.comparison_info, Balancer._unsigned_comparison): the tables mean what the balancer uses them "
        "for (C25_opposites, C25_comparison_info); for every width, constant and value the bound derived by _handle_comparison holds and "
        "it never reports unsatisfiable for a true comparison (C25_handle_comparison), the implicit bound of _get_assumptions holds "
        "(C25_assumption), a value between the bounds is in the bound interval read modulo 2^n (C25_in_bound), end to end for x op k and "
        "k op x with all ten operators (C25_simple); the rewriting rules for ZeroExt, Extract (>=, >), left shift (guarded) and "
        "strict-to-non-strict keep the constraint (C25_zeroext, C25_extract, C25_lshift, C25_nonstrict) and the unrepaired forms do not "
        "(C25_*_refuted). Tie: translator for the tables; extracted model against the real Balancer on bounds, _reverse_comparison, "
        "_nonstrict, _balance_zeroext. Search: fixed domain of ~27000 constraints (all shapes of the property text, plain and annotated "
        "variables) with every assignment enumerated; failing inputs of the pinned tree (annotated variables only) are known findings "
        "listed input by input in known/C25.txt.gz; random inputs on the clean sites. add/sub/and/concat/signext/If balancing, truism "
        "unpacking and alignment are NOT modelled (search only).",
   design="5/C25", technique="Coq proof of the comparison bookkeeping + table translator; correspondence by extraction; exhaustive fixed-domain search",
   note="Trusted: Coq kernel; tools/py2coq.py; extraction. Four balancer defects repaired (extract, lshift, zeroext signed, strict moves); "
        "unsoundness with interval-annotated operands (wrap-around of moved constants, VSA answers) remains as known findings.")

CHECKS["C13"] = dict(
   text="Machine-checked proof (Coq) over Model/Replace.v (ReplacementFrontend with its default settings, substitution = C08's model of "
        "replace_dict): by induction over every history of add(), the constraints held by the actual frontend have exactly the models "
        "of what was added and every replacement is implied by them (C13_add, C13_history); every query is put to the actual frontend "
        "about an expression with the asked expression's value in each such model (C13_query); the order of the pinned code is refuted "
        "(C13_pinned_order_refuted, the repaired defect). Tie: the extracted model replays random add() sequences (with queries in "
        "between) and must reproduce the real solver's actual constraints, replacement map and rewritten queries. Search: histories on "
        "SolverReplacement (default / auto_replace off), SolverHybrid (default / approximate_first with exact=True) against enumeration "
        "of 4096 assignments; pinned-variable scenarios; approximate modes (exact=False, approximate_first) on a fixed list of "
        "histories for containment (eval, min/max, solution, satisfiable). The hybrid dispatch, complex_auto_replace and the "
        "replacement cache are NOT modelled (testing only).",
   design="5/C13", technique="Coq proof of the replacement invariant over histories; correspondence by extraction; histories against enumeration",
   note="Trusted: Coq kernel; extraction; Z3 truthful. Two replacement-frontend defects repaired; one approximate-mode finding "
        "(interval intersection) is known.")

CHECKS["C02"] = dict(
   text="Machine-checked proof (Coq + Flocq): the model of each folded double-precision operation on Coq's primitive binary64 floats IS "
        "Flocq's IEEE-754 operation for every pair of operands incl. signed zeros, subnormals, infinities and NaN (C02_add, _sub, _mul, "
        "_div with the zero-divisor special-casing Python forces, _sqrt with the negative-argument case, _neg, _abs, _lt, _le, _eq, "
        "_is_nan; C02_div_pinned_refuted: the unrepaired code was not, witness 0/0); and single precision computed in double precision "
        "and rounded is the single-precision operation for every pair of single-precision reals (C02_float_add/sub/mul/div/sqrt, "
        "Flocq's double-rounding theorems at binary32/binary64; the real-valued part only). Tie: the model is evaluated inside Coq "
        "(vm_compute on primitive floats over a generated cases file) and compared bit for bit with claripy's eager folding. Search: "
        "every operation x rounding mode x sort x operand pair from pools of special values/ties/boundaries -- the folded constant or, "
        "where claripy does not fold, the solver's answer, and the same with the left operand symbolic and pinned by its bits -- against "
        "an independently built Z3 term; conversions, there-and-back chains, fpToIEEEBV cancellation, integer<->float. Conversions, "
        "non-RNE modes (no longer folded), the Z3 translation and the simplifier rules are NOT modelled (testing only).",
   design="5/C02", technique="Coq/Flocq proof that the folded operations are IEEE-754; in-Coq evaluation as correspondence; differential search against Z3",
   note="Trusted: Coq kernel; Coq.Floats.FloatAxioms and the real-number axioms of the standard library (named in the evidence); Flocq 4; "
        "CPython float = binary64 RNE; Z3's FPA as reference of the search. Seven floating-point defects repaired.")

CHECKS["C12"] = dict(
   text="Machine-checked proof (Coq) of the principle SolverComposite rests on, for every set of constraint groups: if the groups share no "
        "variable, the whole is satisfiable iff every group is (C12_sat, by gluing assignments), and the values an expression takes over "
        "all models are its values over the models of the groups it depends on provided the remaining groups are satisfiable (C12_eval); "
        "that premise is necessary (C12_eval_needs_sat -- the defect repaired in _ensure_sat was exactly its omission); the groups the "
        "model of split() produces are pairwise variable-disjoint, so the principle applies to them (C12_split_independent, "
        "C12_split_sat). The merged-solver cache is modelled (Model/CompCache.v): the repaired invalidation rule keeps every surviving "
        "cache entry the combination of the children it stands for over any history of stores (C12_cache_valid), the pinned rule did not "
        "(C12_cache_pinned_refuted); the extracted rule is compared with CompositedCacheMixin._remove_cached on the real cache keys. The rest "
        "of the bookkeeping of CompositeFrontend (child creation, copy-on-write, reabsorption) is NOT modelled: after every step of random "
        "histories (add, queries with/without extras, branch, simplify, split, combine, merge on trees of composites) the children are checked "
        "to be together equivalent to what was added, every cached merged solver (of a satisfiable composite) to have the models of the children "
        "it combines, and every answer is compared with enumeration of all 4096 assignments (testing).",
   design="5/C12", technique="Coq proof of the independence principle; invariant-and-answer checking of histories against enumeration",
   note="Trusted: Coq kernel; Z3 truthful. Seven composite defects repaired (merge x4, _ensure_sat, stale merged-solver cache, split with an empty model set). Pairwise disjointness of children is not an "
        "implementation invariant (stale redundant children after simplify).")
CHECKS["C14"] = dict(
   text="Machine-checked proof (Coq) over the functional store of frontends (Model/Frontend.v): an operation addressed to one solver leaves "
        "every other solver's bookkeeping unchanged (C14_step, C14_history), a branch starts as a copy of its parent (C14_branch), what a solver "
        "accepts changes only by its own additions (C14_add). The real objects share Z3 solvers, model caches and composite children between "
        "branches; that they refine the store is checked by (0) comparing every solver's constraint list with the extracted store after random "
        "add/branch/query histories, (1) interleaved histories on trees of up to 6 branches of the exact solvers against enumeration, (2) for all "
        "six frontend classes, each solver of a tree against a replica that saw only its own lineage (testing).",
   design="5/C14", technique="Coq isolation theorems on a functional store; store correspondence; tree histories and lineage replicas",
   note="Trusted: Coq kernel; Model/Frontend.v hand-written. The sharing mechanisms themselves are outside the proved model. "
        "The check runs in a child process so that an interpreter crash in Z3 is reported as a violation.")
CHECKS["C15"] = dict(
   text="Machine-checked proof (Coq) over Model/Frontend.v (ConstrainedFrontend + filter/deduplicator mixins): add accepts exactly the models of "
        "old and new constraints (C15_add, with the invariant that dropped duplicates are implied); merge has exactly the models of some "
        "condition_i with the i-th constraint set (C15_merge), with an ancestor the ancestor's models satisfying some condition "
        "(C15_merge_ancestor); combine has the models of all sets (C15_combine); split's grouping puts every conjunct with a variable in exactly "
        "one group, no variable in two groups, and all variables of a conjunct in its group (C15_split_groups), and a list of well-formed "
        "constraints has exactly the models of its groups together with the variable-free rest (C15_split_exact). Tie: extracted model vs real "
        "Solver/SolverCacheless constraint lists. SolverComposite's own merge/split/combine, Z3 and the caches are not modelled: all classes "
        "are judged against enumeration of the 4096 assignments (model sets, satisfiable, eval).",
   design="5/C15", technique="Coq proofs over a hand-written frontend model; constraint-list correspondence; enumeration of model sets",
   note="Trusted: Coq kernel; Model/Frontend.v. Composite merge/split defects repaired (see KNOWN_FINDINGS.txt fixed: lines).")

CHECKS["C26"] = dict(
   text="Machine-checked proof (Coq): the decimal numeral codec through which bitvector values of any width travel between claripy and Z3 "
        "(int_to_str_unlimited, str_to_int_unlimited, _abstract_bv_val) is the identity for every non-negative integer and every pair of chunk "
        "sizes (C26_parse, C26_print, C26_roundtrip, C26_abstract_bv_val); every value returned by the enumeration loop and the optimum search "
        "is feasible for every truthful solver oracle (C26_eval_feasible, C26_max_feasible, C26_min_feasible, corollaries of the C11 proofs). "
        "Tie: the extracted codec runs next to the real functions with the module's chunk size patched. Z3's own numeral printing, model "
        "completion, the cache layer, floats and strings are NOT modelled: returned values are tested for feasibility on solvers over widths "
        "1..256 whose feasible sets are known exactly through the extracted evaluator, and in histories against enumeration.",
   design="5/C26", technique="Coq round-trip proof of the numeral codec + feasibility corollaries; exact-reference tests of returned values",
   note="Trusted: Coq kernel; Model/Numeral.v hand-written (digit lists); Z3 truthful. Floats and strings of this property are not covered.")

CHECKS["C04"] = dict(
   text="Machine-checked proof (Coq): every concrete folding function generated from backend_concrete/bv.py (25 binary, 2 unary, extension, "
        "extraction, concatenation) returns a value or the documented division-by-zero error for ALL well-formed operands of ALL widths below "
        "the resource limit -- in particular for shift/rotate amounts up to 2^width-1 -- and never an unrelated Python exception "
        "(C04_binary_total, C04_unary_total, C04_resize_total, C04_concat_total; corollaries of the C01 specifications; bv.py is re-translated on "
        "every run). That the simplifiers, operations.op and Base.__new__ do not raise is NOT proved: boundary-constant programs and rule "
        "templates are built on the real claripy under time and memory limits, and the construction model must end in the same class (testing).",
   design="5/C04", technique="Coq totality corollaries over the translated concrete backend; boundary-constant program fuzzing with class correspondence",
   note="Trusted: Coq kernel; tools/py2coq.py. Floats, strings and NaN/metacharacter inputs of this property are not covered.")

CHECKS["C07"] = dict(
   text="Machine-checked proof (Coq) over Model/Annot.v -- the abstraction of an expression to the annotation sets that Base.__new__ maintains "
        "and operations._handle_annotations reads, for every set of annotations and every argument list: when a rewrite or fold is accepted the "
        "result is the simplified expression with annotations only added, every non-eliminatable non-relocatable annotation of every argument (at "
        "any depth) is still carried inside it, and every relocatable annotation of every argument is on it (C07_handle); when it is refused the "
        "plain node keeps its arguments (C07_build). Tie: every real _handle_annotations call made while building annotated programs is "
        "intercepted at run time and replayed on the extracted model; cached annotation sets are recomputed from the tree. Which rewrites the "
        "simplifiers propose, explicit simplification through Z3 and the solvers' handling of SimplificationAvoidanceAnnotation are tested only.",
   design="5/C07", technique="Coq proof over an abstract annotation-set model; interception-and-replay correspondence; annotated program fuzzing",
   note="Trusted: Coq kernel; Model/Annot.v hand-written; default Annotation.relocate. Three defects repaired (annotate() forgot inherited pinned "
        "annotations; If shortcuts; extract_simplifier).")

CHECKS["C06"] = dict(
   text="Machine-checked proof (Coq) that the pieces of the hash-consing key cannot confuse two expressions: the integer encoding of integer "
        "arguments (to_bytes((bit_length+15)//8, little, signed)) round-trips for EVERY integer, hence is injective (C06_int_roundtrip, "
        "C06_int_injective); the framing of a node whose arguments are expressions (8-byte hashes) with 8-byte annotation hashes and an optional "
        "8-byte length can be decoded back for every argument and annotation list, hence is injective (C06_frame_roundtrip, C06_frame_injective). "
        "Tie: the extracted encoders run next to Base._arg_serialize/_ast_serialize. The 64-bit blake2b digest, the Python hash of annotation "
        "objects and the weak table are oracles; that every construction path returns exactly the requested node and never two objects for one "
        "key is tested on near-miss requests (testing).",
   design="5/C06", technique="Coq round-trip/injectivity proofs of the key encoding; encoder correspondence; near-miss request fuzzing",
   note="Trusted: Coq kernel; Model/HashCons.v hand-written. Known finding: annotations enter the key only through their Python hash (T(-1)/T(-2) "
        "conflated). One defect repaired (annotated BVV served from the constant cache).")

CHECKS["C18"] = dict(
   text="Machine-checked proof (Coq) for the solver part: over Model/Pickle.v (children, unchecked set, unsat flag of a SolverComposite; child "
        "satisfiability an oracle) check_satisfiability is exact whenever every child outside the unchecked set is known satisfiable "
        "(C18_check_exact); after the __getstate__/__setstate__ round trip that invariant holds again and the answer is the exact one whatever "
        "had been checked before (C18_roundtrip); the pinned __setstate__ broke it (C18_pinned_refuted -- the defect was repaired). Tie: real "
        "composite states are fed to the extracted check before and after a real pickle round trip. Base.__reduce__, the state chains of the "
        "other frontends and cross-process round trips are NOT modelled: expressions (annotated) are round-tripped in-process and into fresh "
        "processes with other hash seeds, solver histories continue after interleaved round trips against enumeration (testing).",
   design="5/C18", technique="Coq invariant proof for the composite restore; state correspondence; in-process and cross-process round-trip tests",
   note="Trusted: Coq kernel; Model/Pickle.v hand-written. Floats and strings not covered. One defect repaired (unchecked children forgotten).")

CHECKS["C16"] = dict(
   text="Machine-checked proof (Coq) for the one core claripy computes itself: when SatCacheMixin._add finds that And(con, added) builds to the "
        "constant False, the pair it caches as unsat core is unsatisfiable under every assignment (C16_shortcut_core_unsat, corollary of the "
        "construction soundness theorem); the shortcut is replayed on the construction model. For cores read back from Z3 the tracking "
        "bookkeeping of BackendZ3._add/_unsat_core is modelled (Model/Track.v): with collision-free names the tracked solver holds exactly "
        "what was added (C16_track_exact), the returned core consists of tracked constraints (C16_core_subset) and is unsatisfiable "
        "whenever the constraints Z3 names are (C16_core_unsat); a name collision silently drops a constraint (C16_collision_refuted). Tie: "
        "the extracted tracking model against a raw tracked Z3 solver (assertion names in order, core selected by the reported names). "
        "clone/translate after branch, re-tracking after simplification and CompositeFrontend.unsat_core are NOT modelled: tracked Solver and "
        "SolverComposite objects are driven to unsatisfiability by random histories and the core is judged against enumeration (members were "
        "added, conjunction unsatisfiable, empty iff satisfiable). On the pinned tree cores are wrong after simplifying queries, after branch() "
        "and for the composite solver: known findings by scenario class.",
   design="5/C16", technique="Coq proofs for the cached shortcut core and the tracking bookkeeping; correspondence by extraction; enumeration tests of Z3-derived cores",
   note="Trusted: Coq kernel; Z3's core is an unsat subset of the tracked assertions. Mostly testing. Two defects repaired (nested list in the "
        "cached core; empty core when unsatisfiability was known only from a cache).")

CHECKS["C17"] = dict(
   text="Machine-checked proof (Coq) over Model/Z3Stack.v: for every number of requested values, every sequence of check outcomes and every "
        "position at which a check gives up, BackendZ3._batch_eval leaves the assertion stack of the Z3 solver exactly as it found it "
        "(C17_batch_eval_restores); the pinned code left its frame with the blocking constraints behind (C17_pinned_refuted -- repaired). "
        "Tie: real _batch_eval runs on real Z3 solvers with give-ups injected, scopes/assertions compared with the extracted model. The "
        "frontends' caches (sat flag, models, exhaustion marks, expansion constraints) are NOT modelled: z3_solver_sat is wrapped at run time so "
        "that the k-th check of an operation gives up, the operation must raise a claripy error, and every later answer of the solver and its "
        "branches is compared with enumeration (testing).",
   design="5/C17", technique="Coq proof of the push/pop discipline under every failure position; run-time fault injection into histories",
   note="Trusted: Coq kernel; Model/Z3Stack.v hand-written; give-ups are injected as ClaripySolverInterruptError. One defect repaired.")

CHECKS["C09"] = dict(
   text="Machine-checked proof (Coq) about the operator tables of the Z3 round trip, re-translated from backend_z3.py on every run: every entry "
        "of op_map (Z3 declaration kind -> claripy operation, used to abstract Z3's answers) in the bitvector/Boolean fragment pairs a Z3 "
        "operator with a claripy operation of the same SMT-LIB meaning for all arguments (C09_op_map; 39 entries constrained, "
        "C09_op_map_covered); every _op_raw_ function that is a single Z3_mk_ call uses a constructor with the claripy operation's meaning "
        "(C09_op_raw). The bvsmod entries are wrong and excepted with a refutation (C09_bsmod_entry_refuted; claripy never emits bvsmod). Z3's "
        "simplifier, the conversion of constants and sorts, n-ary distinct, floats and strings are NOT modelled: convert+abstract, "
        "claripy.simplify and Solver.simplify are tested against enumeration of 4096 assignments and, at 65..256 bits, on sampled assignments.",
   design="5/C09", technique="Coq proof over translated operator tables; enumeration tests of the round trip",
   note="Trusted: Coq kernel; tools/py2coq.py; Model/Z3Conv.v (hand-written SMT-LIB meaning per Z3 operator name). Floats/strings not covered.")

CHECKS["C03"] = dict(
   text="Machine-checked proof (Coq) over Model/Str.v (strings as lists of code points, hence every character): the concrete folding functions of "
        "backend_concrete/strings.py are the SMT-LIB string operations -- prefixof/suffixof/contains are the existential definitions, replace "
        "rewrites the leftmost occurrence or leaves the string alone, substr is the standard's case split, indexof is the least position at or "
        "after the start index or -1, to_int is defined on non-empty digit strings only and inverts from_int (C03_*). Tie: the extracted model "
        "runs next to the real functions on strings with NUL, backslash, quotes, regex metacharacters, newline, non-ASCII characters and boundary "
        "indices. How constants reach Z3, Z3's string theory and symbolic strings are NOT modelled: every fold is compared with the solver's "
        "evaluation on symbolic operands pinned to the constants and with an independent reference (testing).",
   design="5/C03", technique="Coq proofs of the concrete string functions against SMT-LIB definitions; output correspondence; fold-vs-solver tests",
   note="Trusted: Coq kernel; Model/Str.v renders Python built-ins by hand. Five defects repaired (prefix/suffix via regex, indexof beyond the end, "
        "to_int via int(), constants/values through Z3 escapes, single-argument concat).")

CHECKS["C20"] = dict(
   text="Machine-checked proof (Coq) over Model/Tls.v (per-thread conversion caches; a backend object belongs to the Z3 context of the thread that "
        "created it): for EVERY interleaving of conversion requests by any number of threads, each object a thread obtains belongs to its own "
        "context and denotes the requested expression (C20_own_context); a request by one thread leaves the caches of the others untouched "
        "(C20_isolated); a single shared cache fails (C20_shared_cache_refuted). Tie: real threads convert shared expressions; the context of "
        "every returned object is compared with the converting thread's context on the recorded interleaving. Z3 itself, the GIL, the hash-consing "
        "table and the frontends are NOT modelled: pre-generated solver scripts over shared expression objects are run alone and then by 2-16 "
        "threads under several switch intervals, and every answer must equal the run alone (sampling of schedules, not a proof over them).",
   design="5/C20", technique="Coq proof over all interleavings of the cache discipline; context-ownership correspondence; concurrent-vs-alone script tests",
   note="Trusted: Coq kernel; Model/Tls.v hand-written; schedules are sampled by the interpreter (no deterministic scheduler as in C19).")

REASONS = {}
DEFAULT_REASON = "not claimed yet: its Coq model and correspondence harness are not built in this snapshot (see DESIGN.md section 10 for the order); no other technique is substituted"

def main():
    checks = []
    for pid in ALL:
        if pid not in CHECKS:
            continue
        c = CHECKS[pid]
        checks.append({
            "property_id": pid,
            "quick_cmd": "./check %s quick" % pid,
            "thorough_cmd": "./check %s thorough" % pid,
            "evidence_file": "/verif/evidence/%s.json" % pid,
            "replay_cmd_template": "./check %s --replay {path}" % pid,
            "engine": "coq",
            "level_claimed": {"category": "proof", "text": c["text"], "design_ref": c["design"]},
            "level_note": c["note"],
            "technique": c["technique"],
        })
    m = {
        "version": 1,
        "setup_cmd": "./check setup",
        "hooks": {"guard": "CLARIPY_VERIF", "enable": "no source hooks are used: the harness wraps module attributes at run time",
                  "baseline_off_cmd": "cd /repo && /venv/bin/python -m pytest -q -p no:cacheprovider --timeout=900",
                  "source_commits": [], "add_only": True},
        "engines": [{"name": "coq", "path": "/verif/coq", "serves_properties": sorted(CHECKS),
                     "kind_free_text": "Coq 8.16.1 development (Spec/Gen/Model/Proofs/Props) + extracted OCaml drivers + Python correspondence harness"}],
        "checks": checks,
        "notes": "See DESIGN.md. KNOWN_FINDINGS.txt lists recorded defects and fix: commits.",
        "not_applicable": [{"property_id": p, "reason": REASONS.get(p, DEFAULT_REASON)} for p in ALL if p not in CHECKS],
    }
    json.dump(m, open(os.path.join(V, "MANIFEST.json"), "w"), indent=1)

if __name__ == "__main__":
    main()
