#!/usr/bin/env python3
"""Maintainer tool (never run by a check): records the inputs on which the strided-interval operations of the
*pinned* tree fail the C21/C22 sweep, per site, into known/<prop>.txt.gz, and prints one `known:` line per site for
KNOWN_FINDINGS.txt.   usage: record_si_known.py C21|C22"""
import collections, gzip, os, sys
sys.path.insert(0, os.path.join(os.path.dirname(os.path.abspath(__file__)), "..", "harness"))
import sicheck

prop = sys.argv[1]
allf = {}
for tier in ("quick", "thorough"):
    fails, n, hist = sicheck.sweep(prop, tier, 0, with_extra=False)
    for nm, key, kind in fails:
        allf[(nm, key)] = (sicheck.site_of(nm), kind)
    print(tier, n, "evaluations", len(fails), "failures", file=sys.stderr)
os.makedirs(os.path.dirname(sicheck.known_path(prop)), exist_ok=True)
with gzip.open(sicheck.known_path(prop), "wt", compresslevel=9) as f:
    for (nm, key), (site, kind) in sorted(allf.items()):
        f.write("%s\t%s\t%s\t%s\n" % (site, key, nm, kind))
by = collections.defaultdict(list)
for (nm, key), (site, kind) in allf.items():
    by[site].append((len(key), key, nm, kind))
for site in sorted(by):
    l = sorted(by[site])
    kinds = collections.Counter(k for _, _, _, k in l)
    print("known: property=%s site=%s key=known/%s.txt.gz :: %d recorded failing inputs (%s); smallest: %s(%s)" % (
        prop, site, prop, len(l), ", ".join("%s %d" % kv for kv in sorted(kinds.items())), l[0][2], l[0][1]))
