#!/usr/bin/env python3
"""Translator (fail-closed): claripy/backends/backend_z3.py::_enter_z3/_exit_z3/condom
-> coq/Gen/GcGuard.v  (instruction lists of the mini-language of Model/GcLang.v).

One instruction per source line, plus implicit Release/Ret instructions
(line 0).  Anything outside the recognised subset raises TranslateError: the
tie is then broken for C19 and the check goes to its search.
"""
from __future__ import annotations

import ast
import sys


class TranslateError(Exception):
    pass


CALLS = "_active_z3_calls"
WAS = "_gc_was_enabled"
LOCK = "_gc_lock"


def _cond(e: ast.expr) -> str:
    """Python condition -> Gallina `cond` constructor."""
    if isinstance(e, ast.Name) and e.id == WAS:
        return "Was"
    if isinstance(e, ast.UnaryOp) and isinstance(e.op, ast.Not):
        inner = _cond(e.operand)
        neg = {"Was": "NotWas", "NotWas": "Was", "CallsEq0": "CallsNe0", "CallsNe0": "CallsEq0",
               "CallsGt0": "CallsLe0", "CallsLe0": "CallsGt0", "GcOn": "GcOff", "GcOff": "GcOn"}
        return neg[inner]
    if isinstance(e, ast.Call) and ast.unparse(e) == "gc.isenabled()":
        return "GcOn"
    if isinstance(e, ast.Compare) and len(e.ops) == 1 and isinstance(e.left, ast.Name) and e.left.id == CALLS:
        c = e.comparators[0]
        if isinstance(c, ast.Constant) and type(c.value) is int:
            k, op = c.value, type(e.ops[0])
            table = {
                (ast.Eq, 0): "CallsEq0", (ast.NotEq, 0): "CallsNe0", (ast.Gt, 0): "CallsGt0",
                (ast.LtE, 0): "CallsLe0", (ast.GtE, 1): "CallsGt0", (ast.Lt, 1): "CallsLe0",
            }
            if (op, k) in table:
                return table[(op, k)]
    if isinstance(e, ast.Name) and e.id == CALLS:
        return "CallsNe0"
    raise TranslateError(f"unsupported condition: {ast.unparse(e)}")


class Compiler:
    def __init__(self):
        self.code: list[list] = []  # [text-or-callable, line]

    def emit(self, ins, line):
        self.code.append([ins, line])
        return len(self.code) - 1

    def stmts(self, body, locked):  # locked: 0/False or the line number of the enclosing with
        for s in body:
            self.stmt(s, locked)

    def stmt(self, s, locked):
        ln = s.lineno
        if isinstance(s, ast.Global):
            names = set(s.names)
            if not names <= {CALLS, WAS}:
                raise TranslateError(f"unexpected global {names}")
            return
        if isinstance(s, ast.Expr) and isinstance(s.value, ast.Constant) and isinstance(s.value.value, str):
            return  # docstring
        if isinstance(s, ast.Pass):
            return
        if isinstance(s, ast.With):
            if len(s.items) != 1 or ast.unparse(s.items[0].context_expr) != LOCK or s.items[0].optional_vars:
                raise TranslateError(f"unsupported with: {ast.unparse(s.items[0].context_expr)}")
            if locked:
                raise TranslateError("nested lock acquisition")
            self.emit("Acquire", ln)
            self.stmts(s.body, ln)
            self.emit("Release", ln)  # CPython reports the with-exit as a second line event on the with line
            return
        if isinstance(s, ast.If):
            c = _cond(s.test)
            j = self.emit(None, ln)
            self.stmts(s.body, locked)
            if s.orelse:
                k = self.emit(None, 0)
                self.code[j][0] = f"Jf {c} {len(self.code)}"
                self.stmts(s.orelse, locked)
                self.code[k][0] = f"Jmp {len(self.code)}"
            else:
                self.code[j][0] = f"Jf {c} {len(self.code)}"
            return
        if isinstance(s, ast.Return):
            if s.value is not None and not (isinstance(s.value, ast.Constant) and s.value.value is None):
                raise TranslateError("return with a value")
            if locked:
                self.emit(f"Jmp {len(self.code) + 1}", ln)  # the return statement itself (no effect)
                self.emit("Release", locked)  # with-exit, reported on the with line
                self.emit("Ret", 0)
            else:
                self.emit("Ret", ln)
            return
        if isinstance(s, ast.Expr) and isinstance(s.value, ast.Call):
            txt = ast.unparse(s.value.func)
            if txt == "gc.disable" and not s.value.args:
                self.emit("GcDisable", ln)
                return
            if txt == "gc.enable" and not s.value.args:
                self.emit("GcEnable", ln)
                return
            if txt.startswith("log."):
                self.emit("Log", ln)
                return
            if txt == f"{LOCK}.acquire" and not s.value.args and not locked:
                raise TranslateError("explicit acquire/release is outside the subset")
            raise TranslateError(f"unsupported call: {ast.unparse(s)}")
        if isinstance(s, ast.AugAssign) and isinstance(s.target, ast.Name) and s.target.id == CALLS:
            if isinstance(s.value, ast.Constant) and type(s.value.value) is int:
                k = s.value.value
                if isinstance(s.op, ast.Add):
                    self.emit(f"AddCalls ({k})", ln)
                    return
                if isinstance(s.op, ast.Sub):
                    self.emit(f"AddCalls ({-k})", ln)
                    return
            raise TranslateError(f"unsupported update: {ast.unparse(s)}")
        if isinstance(s, ast.Assign) and len(s.targets) == 1 and isinstance(s.targets[0], ast.Name):
            t = s.targets[0].id
            v = s.value
            if t == WAS:
                if isinstance(v, ast.Constant) and type(v.value) is bool:
                    self.emit(f"SetWas {'true' if v.value else 'false'}", ln)
                    return
                if ast.unparse(v) == "gc.isenabled()":
                    self.emit("SetWasFromGc", ln)
                    return
            if t == CALLS:
                if isinstance(v, ast.Constant) and type(v.value) is int:
                    self.emit(f"SetCalls ({v.value})", ln)
                    return
                # x = x + k / x = x - k
                if (isinstance(v, ast.BinOp) and isinstance(v.left, ast.Name) and v.left.id == CALLS
                        and isinstance(v.right, ast.Constant) and type(v.right.value) is int):
                    if isinstance(v.op, ast.Add):
                        self.emit(f"AddCalls ({v.right.value})", ln)
                        return
                    if isinstance(v.op, ast.Sub):
                        self.emit(f"AddCalls ({-v.right.value})", ln)
                        return
            raise TranslateError(f"unsupported assignment: {ast.unparse(s)}")
        raise TranslateError(f"unsupported statement: {ast.unparse(s)}")


def compile_fn(fn: ast.FunctionDef):
    if fn.args.args or fn.args.vararg or fn.args.kwarg or fn.decorator_list:
        raise TranslateError(f"{fn.name}: unexpected signature")
    c = Compiler()
    c.stmts(fn.body, False)
    c.emit("Ret", 0)
    return c.code


def condom_shape(fn: ast.FunctionDef):
    """Returns (enter_first, exit_in_finally) for the try/finally skeleton of condom.z3_condom."""
    inner = [s for s in fn.body if isinstance(s, ast.FunctionDef)]
    if len(inner) != 1:
        raise TranslateError("condom: expected exactly one inner function")
    body = [s for s in inner[0].body
            if not (isinstance(s, ast.Expr) and isinstance(s.value, ast.Constant))]
    tries = [s for s in body if isinstance(s, ast.Try)]
    if len(tries) != 1:
        raise TranslateError("condom: expected exactly one try statement")
    t = tries[0]

    def calls(stmts, name):
        n = 0
        for s in stmts:
            for node in ast.walk(s):
                if isinstance(node, ast.Call) and ast.unparse(node.func) == name:
                    n += 1
        return n

    # where is _enter_z3 called?  must be exactly once, as the first statement of the try body
    # (or immediately before the try).
    total_enter = calls(inner[0].body, "_enter_z3")
    total_exit = calls(inner[0].body, "_exit_z3")
    if total_enter != 1 or total_exit != 1:
        raise TranslateError(f"condom: {total_enter} _enter_z3 calls, {total_exit} _exit_z3 calls")
    idx_try = body.index(t)
    first = t.body[0] if t.body else None
    enter_first = bool(first is not None and isinstance(first, ast.Expr) and ast.unparse(first.value) == "_enter_z3()")
    if not enter_first:
        prev = body[idx_try - 1] if idx_try > 0 else None
        enter_first = bool(prev is not None and isinstance(prev, ast.Expr)
                           and ast.unparse(prev.value) == "_enter_z3()")
    # _exit_z3() unconditionally at the top level of finally?
    exit_in_finally = any(isinstance(s, ast.Expr) and ast.unparse(s.value) == "_exit_z3()" for s in t.finalbody)
    # the wrapped call f(*args, **kwargs) must be inside the try body after enter
    wrapped = calls(t.body, "f")
    if wrapped != 1:
        raise TranslateError("condom: wrapped call is not inside the try body exactly once")
    return enter_first, exit_in_finally


def translate(src_path: str) -> str:
    src = open(src_path).read()
    tree = ast.parse(src)
    fns = {n.name: n for n in tree.body if isinstance(n, ast.FunctionDef)}
    for need in ("_enter_z3", "_exit_z3", "condom"):
        if need not in fns:
            raise TranslateError(f"{need} not found")
    # initial values of the two globals
    init = {}
    for n in tree.body:
        if isinstance(n, ast.Assign) and len(n.targets) == 1 and isinstance(n.targets[0], ast.Name):
            if n.targets[0].id in (CALLS, WAS) and isinstance(n.value, ast.Constant):
                init[n.targets[0].id] = n.value.value
    if init.get(CALLS) != 0 or init.get(WAS) is not False:
        raise TranslateError(f"unexpected initial values {init}")
    # other writers of the two globals anywhere else in the module break the model's assumption
    for n in ast.walk(tree):
        if isinstance(n, ast.FunctionDef) and n.name not in ("_enter_z3", "_exit_z3"):
            for g in ast.walk(n):
                if isinstance(g, ast.Global) and (set(g.names) & {CALLS, WAS}):
                    raise TranslateError(f"{n.name} also declares the guard globals")
                if isinstance(g, ast.Call) and ast.unparse(g.func) in ("gc.enable", "gc.disable"):
                    raise TranslateError(f"{n.name} toggles the collector outside the guard")
    enter = compile_fn(fns["_enter_z3"])
    exit_ = compile_fn(fns["_exit_z3"])
    enter_first, exit_in_finally = condom_shape(fns["condom"])

    def lst(code, idx):
        return "[" + "; ".join(str(c[idx]) for c in code) + "]"

    out = []
    out.append("(* GENERATED by tools/gen_gcguard.py from claripy/backends/backend_z3.py -- do not edit *)")
    out.append("From Coq Require Import ZArith List. Import ListNotations.")
    out.append("Require Import CV.Model.GcLang.")
    out.append("Open Scope Z_scope.")
    out.append(f"Definition enter_prog : list instr := {lst(enter, 0)}.")
    out.append(f"Definition exit_prog : list instr := {lst(exit_, 0)}.")
    out.append(f"Definition enter_lines : list nat := {lst(enter, 1)}%nat.")
    out.append(f"Definition exit_lines : list nat := {lst(exit_, 1)}%nat.")
    out.append(f"Definition enter_before_body : bool := {'true' if enter_first else 'false'}.")
    out.append(f"Definition exit_in_finally : bool := {'true' if exit_in_finally else 'false'}.")
    return "\n".join(out) + "\n"


if __name__ == "__main__":
    sys.stdout.write(translate(sys.argv[1]))
