#!/bin/bash
# try_seed.sh <prop> <patch> [tier] : apply a seeded change to /repo, run the check, undo
prop=$1; patch=$2; tier=${3:-quick}
cd /verif
git -C /repo apply "$patch" || { echo "PATCH DOES NOT APPLY"; exit 2; }
timeout 1800 ./check $prop $tier 2>&1 | grep -E "VIOLATION|\] exit" | head -6
git -C /repo checkout -- .
git -C /repo status --short | head -3
