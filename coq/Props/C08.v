(* C08: substitution and the ITE utilities preserve meaning (over the AST/construction model).
   Not covered by a theorem: canonicalize/identical (variable renaming), burrow_ite -- direct tests only. *)
Require Import CV.Model.PyPrelude CV.Model.Ast CV.Model.Build CV.Model.Rewrite
               CV.Proofs.AstLemmas CV.Proofs.BuildSound CV.Proofs.SimpSound CV.Proofs.RewriteSound.
From Coq Require Import ZArith List.
Import ListNotations.
Open Scope Z_scope.

(* replace_dict: replacing sub-expressions by expressions with the same value (under rho) keeps the value *)
Theorem C08_replace_equiv : forall rho m vs,
  (forall k v, In (k, v) m -> wfe k -> wfe v /\ elen v = elen k /\ eval rho v = eval rho k) ->
  forall e r, wfe e -> subst m vs e = Ok r -> wfe r /\ elen r = elen e /\ eval rho r = eval rho e.
Proof. exact subst_equiv. Qed.
Print Assumptions C08_replace_equiv.

(* replace_dict with leaf keys substitutes exactly: the result under rho is the original under any assignment rho'
   that gives every leaf the value of its image *)
Theorem C08_replace_vars : forall rho rho' m vs,
  (forall k v, In (k, v) m -> is_leaf k = true /\ wfe v /\ elen v = elen k) ->
  (forall k v x, In (k, v) m -> In x vs -> In x (fvars k)) ->
  forall e r, wfe e ->
    (forall l, In l (leaves e) -> eval rho' l = eval rho (img m l)) ->
    subst m vs e = Ok r -> wfe r /\ elen r = elen e /\ eval rho r = eval rho' e.
Proof. exact subst_vars. Qed.
Print Assumptions C08_replace_vars.

Theorem C08_replace_var : forall rho e n w t x r,
  wfe e -> wfe t -> elen t = w -> eval rho t = Some (VBV w x) ->
  (forall w', In (BVS n w') (leaves e) -> w' = w) ->
  replace e (BVS n w) t = Ok r ->
  wfe r /\ elen r = elen e /\ eval rho r = eval (upd_bv rho n x) e.
Proof. exact replace_var. Qed.
Print Assumptions C08_replace_var.

Theorem C08_ite_cases : forall fuel L cases d r,
  (wok L = true \/ L = -1) -> Forall (case_ok L) cases -> wfe d -> elen d = L ->
  ite_cases (mk fuel) cases d = Ok r ->
  wfe r /\ elen r = L /\ forall rho, eval rho r = cases_val rho cases d.
Proof. intros fuel. exact (ite_cases_sound (mk fuel) (mk_sound fuel)). Qed.
Print Assumptions C08_ite_cases.

Theorem C08_ite_dict : forall fuel fuel' i d default r,
  wfe i -> wok (elen i) = true ->
  forall L, (wok L = true \/ L = -1) ->
  Forall (fun cv => wfe (snd cv) /\ elen (snd cv) = L) d ->
  wfe default -> elen default = L ->
  ite_dict (mk fuel) fuel' i d default = Ok r ->
  wfe r /\ elen r = L /\ forall rho, eval rho r = dict_val rho i d default.
Proof. intros fuel fuel'. exact (ite_dict_sound (mk fuel) (mk_sound fuel) fuel'). Qed.
Print Assumptions C08_ite_dict.

Theorem C08_reverse_ite_cases : forall fuel fuel' e L,
  wfe e -> reverse_ite_cases (mk fuel) fuel' e = Ok L ->
  Forall item_ok L /\ forall rho, sel rho L = [eval rho e].
Proof. intros fuel fuel'. exact (reverse_ite_cases_sound (mk fuel) (mk_sound fuel) fuel'). Qed.
Print Assumptions C08_reverse_ite_cases.

Theorem C08_chop : forall fuel (e : expr) (bits : Z) (l : list expr),
  wfe e -> chop (mk fuel) e bits = Ok l -> elen e <> bits ->
  exists l0 : list expr, l = List.rev l0 /\
    Forall2 (fun n c => targs OExtract [(n + 1) * bits - 1; n * bits] [e] ->
                        good OExtract [(n + 1) * bits - 1; n * bits] [e] c)
            (zrange 0 (elen e / bits) 1) l0.
Proof. intros fuel. exact (chop_sound (mk fuel) (mk_sound fuel)). Qed.
Print Assumptions C08_chop.

Theorem C08_get_bytes : forall fuel e index size r,
  wfe e -> get_bytes (mk fuel) e index size = Ok r ->
  let pos := (elen e + 7) / 8 - 1 - index in
  let hi := Z.min (pos * 8 + 7) (elen e - 1) in
  let lo := (pos - size + 1) * 8 in
  targs OExtract [hi; lo] [e] ->
  exists x, good OExtract [hi; lo] [e] x /\
    (if negb (elen x mod 8 =? 0)
     then targs OZeroExt [8 - elen x mod 8] [x] -> good OZeroExt [8 - elen x mod 8] [x] r
     else r = x).
Proof. intros fuel. exact (get_bytes_sound (mk fuel) (mk_sound fuel)). Qed.
Print Assumptions C08_get_bytes.

Theorem C08_excavate : forall fuel e r,
  wfe e -> excavate (mk fuel) e = Ok r -> wfe r /\ elen r = elen e /\ equiv r e.
Proof. intros fuel e. exact (excavate_sound (mk fuel) (mk_sound fuel) e). Qed.
Print Assumptions C08_excavate.
