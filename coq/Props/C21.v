(* C21: strided-interval transfer functions are sound.
   Proved for every width (below the resource limit), every operand and every pair of members:
     add                      (C21_add)
     sub, neg                 for every subtrahend whose stride is 0 only if it is a single value (C21_sub, C21_neg): sub as
                              repaired first replaces the subtrahend's upper bound by its last member; the pinned rule
                              (without that step) is refuted on the witness of the former known finding
                              (C21_sub_unaligned_refuted)
     zero_extend              for every interval (C21_zext): as repaired, a wrapping interval is split first; relabelling alone
                              (the pinned rule) is refuted on the witness of the former known finding (C21_zext_wrapping_refuted)
     bitwise_not              for every interval (C21_not): as repaired, complemented from the last member of every piece
     ULT, ULE, UGT, UGE       a TrueResult / FalseResult holds for every pair of members (C21_ult .. C21_uge), and the
                              comparison is answered whenever a wrapping operand has a positive stride (C21_ucmp_total)
     SLT, SLE, SGT, SGE       the same for the signed reading of the members (C21_slt .. C21_sge), with _signed_bounds as
                              repaired (split at the south pole, then at the north pole, skipping pieces without members)
   The other transfer functions are not modelled; they are covered by the sweep of the real code only. *)
Require Import CV.Model.PyPrelude CV.Model.SI CV.Proofs.SISound CV.Model.SIZextM CV.Proofs.SIZext CV.Model.SICmp CV.Proofs.SICmpSound.
Require Import CV.Model.SINot CV.Proofs.SINotSound.
From Coq Require Import ZArith List.
Open Scope Z_scope.

Theorem C21_add : forall a b x y,
  wf a -> wf b -> bits a = bits b -> gamma a x -> gamma b y ->
  exists r, si_add a b = Ok r /\ wf r /\ bits r = bits a /\ gamma r ((x + y) mod 2 ^ bits a).
Proof. exact add_sound. Qed.
Print Assumptions C21_add.

Theorem C21_sub : forall a b x y,
  wf a -> wf b -> bits a = bits b -> proper b -> gamma a x -> gamma b y ->
  exists r, si_sub a b = Ok r /\ wf r /\ bits r = bits a /\ gamma r ((x - y) mod 2 ^ bits a).
Proof. exact sub_sound_proper. Qed.
Print Assumptions C21_sub.

Theorem C21_neg : forall a y,
  wf a -> proper a -> gamma a y ->
  exists r, si_neg a = Ok r /\ wf r /\ bits r = bits a /\ gamma r ((- y) mod 2 ^ bits a).
Proof. exact neg_sound_proper. Qed.
Print Assumptions C21_neg.

Theorem C21_normalize : forall a,
  rawok a -> exists r, normalize a = Ok r /\ wf r /\ bits r = bits a /\ (forall x, gamma a x -> gamma r x).
Proof. exact normalize_sound. Qed.
Print Assumptions C21_normalize.

Theorem C21_sub_unaligned_refuted :
  let '(a, b) := sub_unaligned_witness in
  wf a /\ wf b /\ gamma a 0 /\ gamma b 0 /\
  (exists r, si_sub_core a b = Ok r /\ ~ In ((0 - 0) mod 2 ^ bits a) (members r)) /\
  (exists r, si_sub a b = Ok r /\ In ((0 - 0) mod 2 ^ bits a) (members r)).
Proof. exact sub_unaligned_refuted. Qed.
Print Assumptions C21_sub_unaligned_refuted.

Theorem C21_zext : forall a n r x, wf a -> bits a <= n < SHIFT_LIMIT -> si_zext a n = Ok r -> gamma a x ->
  wf r /\ bits r = n /\ gamma r x.
Proof. exact zext_sound. Qed.
Print Assumptions C21_zext.

Theorem C21_zext_wrapping_refuted :
  let a := mkSI 2 3 1 0 false in wf a /\ gamma a 0 /\ ~ In 0 (members (relabel a 3)) /\
  exists r, si_zext a 3 = Ok r /\ In 0 (members r) /\ In 1 (members r).
Proof. exact zext_wrapping_refuted. Qed.
Print Assumptions C21_zext_wrapping_refuted.

Theorem C21_ult : forall a b r x y, wf a -> wf b -> si_ult a b = Ok r -> gamma a x -> gamma b y ->
  (r = TT -> x < y) /\ (r = TF -> ~ x < y).
Proof. exact ult_sound. Qed.
Print Assumptions C21_ult.

Theorem C21_ule : forall a b r x y, wf a -> wf b -> si_ule a b = Ok r -> gamma a x -> gamma b y ->
  (r = TT -> x <= y) /\ (r = TF -> ~ x <= y).
Proof. exact ule_sound. Qed.
Print Assumptions C21_ule.

Theorem C21_ugt : forall a b r x y, wf a -> wf b -> si_ugt a b = Ok r -> gamma a x -> gamma b y ->
  (r = TT -> x > y) /\ (r = TF -> ~ x > y).
Proof. exact ugt_sound. Qed.
Print Assumptions C21_ugt.

Theorem C21_uge : forall a b r x y, wf a -> wf b -> si_uge a b = Ok r -> gamma a x -> gamma b y ->
  (r = TT -> x >= y) /\ (r = TF -> ~ x >= y).
Proof. exact uge_sound. Qed.
Print Assumptions C21_uge.

Theorem C21_ucmp_total : forall t f a b, wf a -> wf b -> bits a = bits b ->
  (lb a <= ub a \/ 0 < stride a) -> (lb b <= ub b \/ 0 < stride b) -> exists r, cmp_with t f a b = Ok r.
Proof. exact cmp_total. Qed.
Print Assumptions C21_ucmp_total.

Theorem C21_slt : forall a b r x y, wf a -> wf b -> si_slt a b = Ok r -> gamma a x -> gamma b y ->
  (r = TT -> sgn (bits a) x < sgn (bits a) y) /\ (r = TF -> ~ sgn (bits a) x < sgn (bits a) y).
Proof. exact slt_sound. Qed.
Print Assumptions C21_slt.

Theorem C21_sle : forall a b r x y, wf a -> wf b -> si_sle a b = Ok r -> gamma a x -> gamma b y ->
  (r = TT -> sgn (bits a) x <= sgn (bits a) y) /\ (r = TF -> ~ sgn (bits a) x <= sgn (bits a) y).
Proof. exact sle_sound. Qed.
Print Assumptions C21_sle.

Theorem C21_sgt : forall a b r x y, wf a -> wf b -> si_sgt a b = Ok r -> gamma a x -> gamma b y ->
  (r = TT -> sgn (bits a) x > sgn (bits a) y) /\ (r = TF -> ~ sgn (bits a) x > sgn (bits a) y).
Proof. exact sgt_sound. Qed.
Print Assumptions C21_sgt.

Theorem C21_sge : forall a b r x y, wf a -> wf b -> si_sge a b = Ok r -> gamma a x -> gamma b y ->
  (r = TT -> sgn (bits a) x >= sgn (bits a) y) /\ (r = TF -> ~ sgn (bits a) x >= sgn (bits a) y).
Proof. exact sge_sound. Qed.
Print Assumptions C21_sge.

(* every member's signed reading is between one pair of _signed_bounds (what eval / min / max with signed=True read) *)
Theorem C21_signed_bounds : forall a bs x, wf a -> signed_bounds a = Ok bs -> gamma a x ->
  exists p, In p bs /\ fst p <= sgn (bits a) x <= snd p.
Proof. exact signed_cover. Qed.
Print Assumptions C21_signed_bounds.

Theorem C21_unsigned_bounds : forall a bs x, wf a -> unsigned_bounds a = Ok bs -> gamma a x ->
  exists p, In p bs /\ fst p <= x <= snd p.
Proof. exact bounds_cover. Qed.
Print Assumptions C21_unsigned_bounds.

Theorem C21_not : forall a r x, wf a -> proper a -> si_not a = Ok r -> gamma a x ->
  wf r /\ bits r = bits a /\ gamma r (2 ^ bits a - 1 - x).
Proof. exact not_sound. Qed.
Print Assumptions C21_not.
