(* C21: strided-interval transfer functions are sound.
   Proved for every width (below the resource limit), every operand and every pair of members:
     add                      (C21_add)
     sub, neg                 when the subtracted interval's upper bound is one of its members (C21_sub, C21_neg)
   and refuted without that hypothesis (C21_sub_unaligned_refuted: the witness is a known finding).
     zero_extend              when the interval does not wrap around (C21_zext), refuted when it does (C21_zext_wrapping_refuted:
                              a known finding)
   The other transfer functions are not modelled; they are covered by the sweep of the real code only. *)
Require Import CV.Model.PyPrelude CV.Model.SI CV.Proofs.SISound CV.Proofs.SIZext.
From Coq Require Import ZArith List.
Open Scope Z_scope.

Theorem C21_add : forall a b x y,
  wf a -> wf b -> bits a = bits b -> gamma a x -> gamma b y ->
  exists r, si_add a b = Ok r /\ wf r /\ bits r = bits a /\ gamma r ((x + y) mod 2 ^ bits a).
Proof. exact add_sound. Qed.
Print Assumptions C21_add.

Theorem C21_sub : forall a b x y,
  wf a -> wf b -> bits a = bits b -> aligned b -> gamma a x -> gamma b y ->
  exists r, si_sub a b = Ok r /\ wf r /\ bits r = bits a /\ gamma r ((x - y) mod 2 ^ bits a).
Proof. exact sub_sound. Qed.
Print Assumptions C21_sub.

Theorem C21_neg : forall a y,
  wf a -> aligned a -> gamma a y ->
  exists r, si_neg a = Ok r /\ wf r /\ bits r = bits a /\ gamma r ((- y) mod 2 ^ bits a).
Proof. exact neg_sound. Qed.
Print Assumptions C21_neg.

Theorem C21_normalize : forall a,
  rawok a -> exists r, normalize a = Ok r /\ wf r /\ bits r = bits a /\ (forall x, gamma a x -> gamma r x).
Proof. exact normalize_sound. Qed.
Print Assumptions C21_normalize.

Theorem C21_sub_unaligned_refuted :
  let '(a, b) := sub_unaligned_witness in
  wf a /\ wf b /\ gamma a 0 /\ gamma b 0 /\
  exists r, si_sub a b = Ok r /\ ~ In ((0 - 0) mod 2 ^ bits a) (members r).
Proof. exact sub_unaligned_refuted. Qed.
Print Assumptions C21_sub_unaligned_refuted.

Theorem C21_zext : forall a n x, wf a -> lb a <= ub a -> bits a <= n -> gamma a x -> gamma (si_zext a n) x.
Proof. exact zext_sound. Qed.
Print Assumptions C21_zext.

Theorem C21_zext_wrapping_refuted :
  let a := mkSI 2 3 1 0 false in wf a /\ gamma a 0 /\ ~ In 0 (members (si_zext a 3)).
Proof. exact zext_wrapping_refuted. Qed.
Print Assumptions C21_zext_wrapping_refuted.
