(* C24: VSA evaluation of an expression over annotated variables over-approximates.
   C24_aeval / C24_convert   for ANY abstract domain, ANY expression (every depth, width and operator) and ANY assignment that
                             respects the variables' annotations: if each operator's transfer function is sound, the join is
                             sound and has_true/has_false are complete, then the bottom-up evaluation with the If rule of
                             BackendVSA.If -- after ITE excavation as in BackendVSA.convert -- contains the expression's value.
   C24_table                 the executable instance that the correspondence check runs: operator results and joins are looked up
                             in a recorded table; if every recorded entry is sound, the replayed result is sound.
   C24_add_entry / C24_sub_entry   the table hypothesis is dischargeable: an entry whose result is what the strided-interval model
                             computes for + (for -, as repaired, every subtrahend) is sound, by C21's theorems.
   C24_neg_entry / C24_invert_entry / C24_zext_entry / C24_cmp_entries   likewise for unary -, ~, ZeroExt and the eight order
                             comparisons (ULT .. SGE, whose abstract result is a BoolResult), by C21_neg, C21_not, C21_zext, C21_ult .. C21_sge.
   The soundness of the other interval transfer functions is C21's subject and a hypothesis here. *)
Require Import CV.Spec.BV CV.Model.PyPrelude CV.Model.Ast CV.Model.Build CV.Model.Rewrite CV.Model.AbsInt
               CV.Proofs.AstLemmas CV.Proofs.BuildSound CV.Proofs.SimpSound CV.Proofs.AbsIntSound CV.Proofs.AbsIntTable
               CV.Model.SI CV.Model.SIUnion CV.Proofs.SISound CV.Proofs.AbsIntSI CV.Model.SICmp CV.Model.SINot CV.Model.SIZextM.
From Coq Require Import ZArith List.
Import ListNotations.
Open Scope Z_scope.

Theorem C24_aeval : forall (A : Type) (gamma : A -> value -> Prop) (aleaf : expr -> res A) (aop : opk -> list Z -> list A -> res A)
    (has_true has_false : A -> bool) (join : A -> A -> res A) (ok_env : env -> Prop),
  (forall rho e a v, ok_env rho -> match e with Node _ _ _ _ => False | _ => True end ->
     aleaf e = Ok a -> eval rho e = Some v -> gamma a v) ->
  (forall op ints avs vs a v, Forall2 gamma avs vs -> aop op ints avs = Ok a -> eval_op op ints vs = Some v -> gamma a v) ->
  (forall a, gamma a (VBool true) -> has_true a = true) ->
  (forall a, gamma a (VBool false) -> has_false a = true) ->
  (forall a b c v, join a b = Ok c -> gamma a v \/ gamma b v -> gamma c v) ->
  forall rho, ok_env rho -> forall e a v,
  aeval A aleaf aop has_true has_false join e = Ok a -> eval rho e = Some v -> gamma a v.
Proof. exact aeval_sound. Qed.
Print Assumptions C24_aeval.

Theorem C24_convert : forall (A : Type) (gamma : A -> value -> Prop) (aleaf : expr -> res A) (aop : opk -> list Z -> list A -> res A)
    (has_true has_false : A -> bool) (join : A -> A -> res A) (ok_env : env -> Prop),
  (forall rho e a v, ok_env rho -> match e with Node _ _ _ _ => False | _ => True end ->
     aleaf e = Ok a -> eval rho e = Some v -> gamma a v) ->
  (forall op ints avs vs a v, Forall2 gamma avs vs -> aop op ints avs = Ok a -> eval_op op ints vs = Some v -> gamma a v) ->
  (forall a, gamma a (VBool true) -> has_true a = true) ->
  (forall a, gamma a (VBool false) -> has_false a = true) ->
  (forall a b c v, join a b = Ok c -> gamma a v \/ gamma b v -> gamma c v) ->
  forall mkf, sound_mk mkf ->
  forall rho e a v, ok_env rho -> wfe e ->
  convert A aleaf aop has_true has_false join mkf e = Ok a -> eval rho e = Some v -> gamma a v.
Proof. exact convert_sound. Qed.
Print Assumptions C24_convert.

Theorem C24_table : forall fuel ann tab joins rho e a v,
  Forall entry_ok tab -> Forall join_ok joins -> ann_ok ann rho -> wfe e ->
  vsa_convert (Build.mk fuel) ann tab joins e = Ok a -> eval rho e = Some v -> gamma_t a v.
Proof. intros fuel. exact (table_convert_sound (Build.mk fuel) (SimpSound.mk_sound fuel)). Qed.
Print Assumptions C24_table.

Theorem C24_add_entry : forall a b r, wf a -> wf b -> bits a = bits b -> si_add a b = Ok r ->
  entry_ok (OAdd, [], [asi a; asi b], asi r).
Proof. exact add_entry_ok. Qed.
Print Assumptions C24_add_entry.

Theorem C24_sub_entry : forall a b r, wf a -> wf b -> bits a = bits b -> proper b -> si_sub a b = Ok r ->
  entry_ok (OSub, [], [asi a; asi b], asi r).
Proof. exact sub_entry_ok. Qed.
Print Assumptions C24_sub_entry.

Theorem C24_union_join : forall a b r, wf a -> wf b -> bits a = bits b -> SIUnion.si_union a b = Ok r -> join_ok (asi a, asi b, asi r).
Proof. exact union_join_ok. Qed.
Print Assumptions C24_union_join.

Theorem C24_neg_entry : forall a r, wf a -> proper a -> si_neg a = Ok r -> entry_ok (ONeg, [], [asi a], asi r).
Proof. exact neg_entry_ok. Qed.
Print Assumptions C24_neg_entry.

Theorem C24_invert_entry : forall a r, wf a -> proper a -> si_not a = Ok r -> entry_ok (OInvert, [], [asi a], asi r).
Proof. exact invert_entry_ok. Qed.
Print Assumptions C24_invert_entry.

Theorem C24_zext_entry : forall a n r, wf a -> 0 <= n -> bits a + n < SHIFT_LIMIT -> si_zext a (bits a + n) = Ok r ->
  entry_ok (OZeroExt, [n], [asi a], asi r).
Proof. exact zext_entry_ok. Qed.
Print Assumptions C24_zext_entry.

Theorem C24_cmp_entries : forall a b r, wf a -> wf b ->
  (si_ult a b = Ok r -> entry_ok (OULT, [], [asi a; asi b], atri r)) /\
  (si_ule a b = Ok r -> entry_ok (OULE, [], [asi a; asi b], atri r)) /\
  (si_ugt a b = Ok r -> entry_ok (OUGT, [], [asi a; asi b], atri r)) /\
  (si_uge a b = Ok r -> entry_ok (OUGE, [], [asi a; asi b], atri r)) /\
  (si_slt a b = Ok r -> entry_ok (OSLT, [], [asi a; asi b], atri r)) /\
  (si_sle a b = Ok r -> entry_ok (OSLE, [], [asi a; asi b], atri r)) /\
  (si_sgt a b = Ok r -> entry_ok (OSGT, [], [asi a; asi b], atri r)) /\
  (si_sge a b = Ok r -> entry_ok (OSGE, [], [asi a; asi b], atri r)).
Proof.
  exact (fun a b r Wa Wb =>
    conj (ult_entry_ok a b r Wa Wb) (conj (ule_entry_ok a b r Wa Wb) (conj (ugt_entry_ok a b r Wa Wb) (conj (uge_entry_ok a b r Wa Wb)
    (conj (slt_entry_ok a b r Wa Wb) (conj (sle_entry_ok a b r Wa Wb) (conj (sgt_entry_ok a b r Wa Wb) (sge_entry_ok a b r Wa Wb)))))))).
Qed.
Print Assumptions C24_cmp_entries.
