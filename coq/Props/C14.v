(* C14: branches of a solver are isolated from each other -- stated over the store of frontends (Model/Frontend.v):
   an operation addressed to one solver leaves the bookkeeping of every other solver unchanged (C14_step, C14_history),
   a branch starts as a copy of its parent (C14_branch), and what a solver accepts changes only by its own additions
   (C14_add).  The real solver objects share mutable parts (Z3 solver, model caches, child solvers of SolverComposite);
   that they nevertheless behave like this store is checked by running interleaved histories on trees of branches and
   comparing every solver's constraint list with its store entry and every answer with enumeration (testing). *)
Require Import CV.Model.PyPrelude CV.Model.Ast CV.Model.Build CV.Model.Frontend CV.Proofs.FrontendSound.
From Coq Require Import ZArith Bool List.
Import ListNotations.

Theorem C14_step : forall m o k, touches o k = false -> sget (sstep m o) k = sget m k.
Proof. exact sstep_isolated. Qed.
Print Assumptions C14_step.

Theorem C14_history : forall ops m k,
  forallb (fun o => negb (touches o k)) ops = true -> sget (fold_left sstep ops m) k = sget m k.
Proof. exact history_isolated. Qed.
Print Assumptions C14_history.

Theorem C14_branch : forall m i j s, sget m i = Some s -> sget m j = None -> i <> j ->
  sget (sstep m (SBranch i j)) j = Some s /\ sget (sstep m (SBranch i j)) i = Some s.
Proof. exact branch_copies. Qed.
Print Assumptions C14_branch.

Theorem C14_add : forall m i new k s, sget m i = Some s -> Inv s ->
  sget (sstep m (SAdd i new)) i = Some (fe_add s new) /\
  (forall rho, models rho (cs (fe_add s new)) = models rho (cs s) && models rho new) /\
  (k <> i -> sget (sstep m (SAdd i new)) k = sget m k).
Proof. exact add_only_own. Qed.
Print Assumptions C14_add.
