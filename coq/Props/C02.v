(* C02: folded floating-point operations follow IEEE-754.
   Double precision, round to nearest even (the only mode the concrete backend folds since the repair): the model of each folded
   operation on Coq's primitive binary64 floats IS Flocq's IEEE-754 operation, for every pair of operands including signed
   zeros, subnormals, infinities and NaN:
     C02_add C02_sub C02_mul C02_div C02_sqrt C02_neg C02_abs C02_lt C02_le C02_eq C02_is_nan
   (C02_div covers the special-casing of zero divisors that Python's ZeroDivisionError forces; C02_div_pinned_refuted: the code
   before the repair was not IEEE-754 division, witness 0/0.)
   Single precision is computed in double precision and rounded to single precision; for every pair of single-precision reals
   that double rounding is innocuous:
     C02_float_add C02_float_sub C02_float_mul C02_float_div C02_float_sqrt   (real-valued part of the result)
   Axioms: Coq's primitive-float specification (FloatAxioms.*_spec, Prim2SF_valid, ...) through Flocq.IEEE754.PrimFloat, and the
   axioms of the classical real numbers for the rounding theorems -- all declared by the standard library.
   Not modelled: conversions (fpToFP, fpToSBV/UBV, integer to float), fpToIEEEBV/fpFP, the Z3 translation, the simplifier's
   fpToIEEEBV/fpToFP cancellations; the special-value behaviour of the single-precision operations. *)
From Coq Require Import ZArith Reals Floats.
From Flocq Require Import Core BinarySingleNaN.
Require Flocq.IEEE754.PrimFloat.
Require Import CV.Model.FPFold CV.Proofs.FPFoldSound.
Local Existing Instance Flocq.IEEE754.PrimFloat.Hprec.
Local Existing Instance Flocq.IEEE754.PrimFloat.Hmax.

Theorem C02_add : forall a b, P2B (fold_add a b) = Bplus mode_NE (P2B a) (P2B b).
Proof. exact fold_add_ieee. Qed.
Print Assumptions C02_add.
Theorem C02_sub : forall a b, P2B (fold_sub a b) = Bminus mode_NE (P2B a) (P2B b).
Proof. exact fold_sub_ieee. Qed.
Print Assumptions C02_sub.
Theorem C02_mul : forall a b, P2B (fold_mul a b) = Bmult mode_NE (P2B a) (P2B b).
Proof. exact fold_mul_ieee. Qed.
Print Assumptions C02_mul.
Theorem C02_div : forall a b, P2B (fold_div a b) = Bdiv mode_NE (P2B a) (P2B b).
Proof. exact fold_div_ieee. Qed.
Print Assumptions C02_div.
Theorem C02_div_pinned_refuted : exists a b, P2B (fold_div_pinned a b) <> Bdiv mode_NE (P2B a) (P2B b).
Proof. exact fold_div_pinned_refuted. Qed.
Print Assumptions C02_div_pinned_refuted.
Theorem C02_sqrt : forall a, P2B (fold_sqrt a) = Bsqrt mode_NE (P2B a).
Proof. exact fold_sqrt_ieee. Qed.
Print Assumptions C02_sqrt.
Theorem C02_neg : forall a, P2B (fold_neg a) = Bopp (P2B a).
Proof. exact fold_neg_ieee. Qed.
Print Assumptions C02_neg.
Theorem C02_abs : forall a, P2B (fold_abs a) = Babs (P2B a).
Proof. exact fold_abs_ieee. Qed.
Print Assumptions C02_abs.
Theorem C02_lt : forall a b, fold_lt a b = Bltb (P2B a) (P2B b).
Proof. exact fold_lt_ieee. Qed.
Print Assumptions C02_lt.
Theorem C02_le : forall a b, fold_le a b = Bleb (P2B a) (P2B b).
Proof. exact fold_le_ieee. Qed.
Print Assumptions C02_le.
Theorem C02_eq : forall a b, fold_eq a b = Beqb (P2B a) (P2B b).
Proof. exact fold_eq_ieee. Qed.
Print Assumptions C02_eq.
Theorem C02_is_nan : forall a, fold_is_nan a = is_nan (P2B a).
Proof. exact fold_is_nan_ieee. Qed.
Print Assumptions C02_is_nan.

Theorem C02_float_add : forall x y, is32 x -> is32 y -> rnd32 (rnd64 (x + y)) = rnd32 (x + y).
Proof. exact float_add_via_double. Qed.
Print Assumptions C02_float_add.
Theorem C02_float_sub : forall x y, is32 x -> is32 y -> rnd32 (rnd64 (x - y)) = rnd32 (x - y).
Proof. exact float_sub_via_double. Qed.
Print Assumptions C02_float_sub.
Theorem C02_float_mul : forall x y, is32 x -> is32 y -> rnd32 (rnd64 (x * y)) = rnd32 (x * y).
Proof. exact float_mul_via_double. Qed.
Print Assumptions C02_float_mul.
Theorem C02_float_div : forall x y, is32 x -> is32 y -> y <> 0%R -> rnd32 (rnd64 (x / y)) = rnd32 (x / y).
Proof. exact float_div_via_double. Qed.
Print Assumptions C02_float_div.
Theorem C02_float_sqrt : forall x, is32 x -> rnd32 (rnd64 (R_sqrt.sqrt x)) = rnd32 (R_sqrt.sqrt x).
Proof. exact float_sqrt_via_double. Qed.
Print Assumptions C02_float_sqrt.
