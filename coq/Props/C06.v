(* C06: structurally equal expressions are one object, different ones never merge -- the proved part is that the pieces of
   the hash-consing key cannot confuse two different expressions: the integer encoding used for integer arguments
   round-trips for every integer (C06_int_roundtrip, hence is injective, C06_int_injective), and the framing of a node whose
   arguments are expressions (8-byte hashes), with 8-byte annotation hashes and an optional 8-byte length, can be decoded
   back for every argument/annotation list (C06_frame_roundtrip, C06_frame_injective).  The 64-bit blake2b digest of the key,
   the Python hash of annotation objects and the weak-value table are outside the model (oracles); integer, string, float
   and tuple arguments mixed in one node are covered by tests only. *)
From Coq Require Import ZArith List.
Require Import CV.Model.HashCons CV.Proofs.HashConsSound.
Import ListNotations.
Open Scope Z_scope.

Theorem C06_int_roundtrip : forall z, dec_int (enc_int z) = z.
Proof. exact int_roundtrip. Qed.
Print Assumptions C06_int_roundtrip.

Theorem C06_int_injective : forall a b, enc_int a = enc_int b -> a = b.
Proof. exact enc_int_injective. Qed.
Print Assumptions C06_int_injective.

Theorem C06_frame_roundtrip : forall args anns len,
  Forall len8 args -> Forall len8 anns -> (match len with Some l => len8 l | None => True end) ->
  unbody (body args anns len) = (args, anns, len).
Proof. exact unbody_body. Qed.
Print Assumptions C06_frame_roundtrip.

Theorem C06_frame_injective : forall args anns len args' anns' len',
  Forall len8 args -> Forall len8 anns -> (match len with Some l => len8 l | None => True end) ->
  Forall len8 args' -> Forall len8 anns' -> (match len' with Some l => len8 l | None => True end) ->
  body args anns len = body args' anns' len' -> args = args' /\ anns = anns' /\ len = len'.
Proof. exact body_injective. Qed.
Print Assumptions C06_frame_injective.
