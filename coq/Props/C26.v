(* C26: values extracted from models are values the expression takes.
   (a) the numeral codec between claripy and Z3 is the identity for every non-negative integer and every chunk size
       (C26_parse, C26_print, C26_roundtrip, C26_abstract_bv_val) -- bitvectors of any width;
   (b) the values returned by the enumeration loop and the optimum search are feasible (C26_eval_feasible,
       C26_max_feasible, C26_min_feasible: corollaries of the C11 theorems, for every truthful oracle).
   Floats and strings, model completion inside Z3 and the cache layer are not modelled (tests only). *)
From Coq Require Import ZArith List.
Require Import CV.Model.Numeral CV.Proofs.NumeralSound CV.Model.Solve CV.Proofs.SolveProof.
Import ListNotations.
Open Scope Z_scope.

Theorem C26_parse : forall k s, (0 < k)%nat -> str_to_int k s = dval s.
Proof. exact str_to_int_value. Qed.
Print Assumptions C26_parse.

Theorem C26_print : forall k v, (0 < k)%nat -> 0 <= v -> dval (int_to_str k v) = v.
Proof. exact int_to_str_value. Qed.
Print Assumptions C26_print.

Theorem C26_roundtrip : forall k k' v, (0 < k)%nat -> (0 < k')%nat -> 0 <= v -> str_to_int k' (int_to_str k v) = v.
Proof. exact numeral_roundtrip. Qed.
Print Assumptions C26_roundtrip.

Theorem C26_abstract_bv_val : forall k fits v, (0 < k)%nat -> 0 <= v -> abstract_bv_val k fits v = v.
Proof. exact abstract_bv_val_id. Qed.
Print Assumptions C26_abstract_bv_val.

Theorem C26_eval_feasible : forall (V : Type) (feasible : V -> Prop) (pick : list V -> option V),
  (forall b v, pick b = Some v -> feasible v /\ ~ In v b) ->
  (forall b, pick b = None -> forall v, feasible v -> In v b) ->
  forall n v, In v (enumerate V pick n []) -> feasible v.
Proof. intros V feasible pick H1 H2 n. exact (proj1 (enumerate_correct V feasible pick H1 H2 n)). Qed.
Print Assumptions C26_eval_feasible.

Theorem C26_max_feasible : forall (feasible : Z -> Prop) (probe : Z -> Z -> bool),
  (forall a b, probe a b = true <-> exists v, feasible v /\ a <= v <= b) ->
  forall lo0 hi0, (forall v, feasible v -> lo0 <= v <= hi0) -> (exists v, feasible v) ->
  feasible (fst (extrema probe true lo0 hi0)).
Proof. intros f p H lo hi Hb He. exact (proj1 (extrema_max f p H lo hi Hb He)). Qed.
Print Assumptions C26_max_feasible.

Theorem C26_min_feasible : forall (feasible : Z -> Prop) (probe : Z -> Z -> bool),
  (forall a b, probe a b = true <-> exists v, feasible v /\ a <= v <= b) ->
  forall lo0 hi0, (forall v, feasible v -> lo0 <= v <= hi0) -> (exists v, feasible v) ->
  feasible (fst (extrema probe false lo0 hi0)).
Proof. intros f p H lo hi Hb He. exact (proj1 (extrema_min f p H lo hi Hb He)). Qed.
Print Assumptions C26_min_feasible.
