(* C16: unsat cores are unsatisfiable subsets of the tracked constraints.
   The proved part concerns the one core claripy computes itself: when SatCacheMixin._add finds that And(con, added) builds to the
   constant False it caches (con, added) as the unsat core -- that pair is unsatisfiable under every assignment
   (C16_shortcut_core_unsat, a corollary of the construction soundness theorem), and both members are constraints of the
   solver by construction of the shortcut.
   Cores read back from Z3 go through constraint tracking (Model/Track.v: each constraint is asserted under the name
   str(hash(z3 constraint)) unless that name is already tracked; the core is the tracked constraints whose names Z3 reports):
     C16_track_exact      with collision-free names the tracked solver holds exactly the models of what was added;
     C16_core_subset      every element of the returned core is a tracked (hence added) constraint;
     C16_core_unsat       the returned core is unsatisfiable whenever the constraints Z3 names are (Z3's promise);
     C16_collision_refuted   a name collision silently drops a constraint (32-bit Z3 AST hashes: a known risk, not a finding).
   translate/clone after simplify or branch and the composite solver's collection over children are not modelled: they are
   tested against enumeration, with known findings. *)
From Coq Require Import ZArith List Bool.
Require Import CV.Model.PyPrelude CV.Model.Ast CV.Model.Build CV.Model.Frontend
               CV.Proofs.AstLemmas CV.Proofs.BuildSound CV.Proofs.SimpSound CV.Proofs.FrontendSound
               CV.Model.Track CV.Proofs.TrackSound.
Import ListNotations.

Theorem C16_shortcut_core_unsat : forall fuel con added r,
  bool_ok con -> bool_ok added -> mk fuel OBAnd [] [con; added] = Ok r -> is_false r = true ->
  forall rho, models rho [con; added] = false.
Proof. intros fuel. exact (shortcut_core_unsat (mk fuel) (mk_sound fuel)). Qed.
Print Assumptions C16_shortcut_core_unsat.

Theorem C16_track_exact : forall (name : expr -> Z) cs st, named name st -> injective_on name (asserted st ++ cs) ->
  named name (track_add name st cs) /\
  forall rho, models rho (asserted (track_add name st cs)) = models rho (asserted st) && models rho cs.
Proof. intros name cs st. exact (track_add_exact name cs st). Qed.
Print Assumptions C16_track_exact.

Theorem C16_core_subset : forall st names c, In c (core_of st names) -> In c (asserted st).
Proof. exact core_subset. Qed.
Print Assumptions C16_core_subset.

Theorem C16_core_unsat : forall st names,
  (forall rho, exists p, In p st /\ existsb (Z.eqb (fst p)) names = true /\ holds rho (snd p) = false) ->
  forall rho, models rho (core_of st names) = false.
Proof. exact core_unsat. Qed.
Print Assumptions C16_core_unsat.

Theorem C16_collision_refuted : exists (name : expr -> Z) cs rho,
  models rho (asserted (track_add name [] cs)) = true /\ models rho cs = false.
Proof. exact collision_refuted. Qed.
Print Assumptions C16_collision_refuted.
