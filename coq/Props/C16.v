(* C16: unsat cores are unsatisfiable subsets of the tracked constraints.
   The proved part concerns the one core claripy computes itself: when SatCacheMixin._add finds that And(con, added) builds to the
   constant False it caches (con, added) as the unsat core -- that pair is unsatisfiable under every assignment
   (C16_shortcut_core_unsat, a corollary of the construction soundness theorem), and both members are constraints of the
   solver by construction of the shortcut.  Cores read back from Z3 (tracking names, translate/clone, the composite solver's
   collection over children) are not modelled: they are tested against enumeration, with known findings. *)
From Coq Require Import ZArith List Bool.
Require Import CV.Model.PyPrelude CV.Model.Ast CV.Model.Build CV.Model.Frontend
               CV.Proofs.AstLemmas CV.Proofs.BuildSound CV.Proofs.SimpSound CV.Proofs.FrontendSound.
Import ListNotations.

Theorem C16_shortcut_core_unsat : forall fuel con added r,
  bool_ok con -> bool_ok added -> mk fuel OBAnd [] [con; added] = Ok r -> is_false r = true ->
  forall rho, models rho [con; added] = false.
Proof. intros fuel. exact (shortcut_core_unsat (mk fuel) (mk_sound fuel)). Qed.
Print Assumptions C16_shortcut_core_unsat.
