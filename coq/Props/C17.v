(* C17: a solver stays correct after a backend timeout or interrupt -- the proved part: for every number of requested
   values, every sequence of check outcomes and every position at which a check gives up, BackendZ3._batch_eval leaves the
   assertion stack of the Z3 solver exactly as it found it (C17_batch_eval_restores); the pinned code did not
   (C17_pinned_refuted, repaired).  The caches of the frontends (sat flag, models, exhaustion marks, constraints added by the
   expansion mixin) are not modelled: failures are injected at every check position of every operation of random histories
   and all later answers are compared with enumeration (testing). *)
From Coq Require Import List.
Require Import CV.Model.Z3Stack CV.Proofs.Z3StackSound.
Import ListNotations.

Theorem C17_batch_eval_restores : forall n chk s, snd (batch_eval n chk s) = s.
Proof. exact batch_eval_restores. Qed.
Print Assumptions C17_batch_eval_restores.

Theorem C17_pinned_refuted : exists n chk s, snd (batch_eval_pinned n chk s) <> s.
Proof. exact batch_eval_pinned_refuted. Qed.
Print Assumptions C17_pinned_refuted.
