(* C12: SolverComposite answers like a monolithic solver.  The proved part is the principle it rests on: constraint groups
   that share no variable can be solved separately -- the whole is satisfiable iff every group is (C12_sat), and the values of
   an expression over all models are its values over the models of the groups it depends on, provided the remaining groups
   are satisfiable (C12_eval); that premise cannot be dropped (C12_eval_needs_sat).  That the children of a real
   SolverComposite are such groups (pairwise variable-disjoint, together equivalent to what was added) is checked as an
   invariant after every step of random histories, and every answer is compared with enumeration (testing). *)
Require Import CV.Model.PyPrelude CV.Model.Ast CV.Model.Frontend CV.Proofs.CompositeSound CV.Proofs.SplitComposite
               CV.Model.CompCache CV.Proofs.CompCacheSound.
From Coq Require Import ZArith Bool List.
Import ListNotations.

Theorem C12_sat : forall gs, independent gs ->
  ((exists rho, models rho (concat gs) = true) <-> (forall g, In g gs -> exists rho, models rho g = true)).
Proof. exact composite_sat_iff. Qed.
Print Assumptions C12_sat.

Theorem C12_eval : forall rel other e v,
  disjoint (gvars rel ++ fvars e) (gvars other) ->
  (exists rho, models rho other = true) ->
  ((exists rho, models rho (rel ++ other) = true /\ eval rho e = v) <->
   (exists rho, models rho rel = true /\ eval rho e = v)).
Proof. exact composite_eval. Qed.
Print Assumptions C12_eval.

Theorem C12_eval_needs_sat :
  exists rel other e v,
    disjoint (gvars rel ++ fvars e) (gvars other) /\
    (exists rho, models rho rel = true /\ eval rho e = v) /\
    ~ (exists rho, models rho (rel ++ other) = true /\ eval rho e = v).
Proof. exact composite_eval_needs_sat. Qed.
Print Assumptions C12_eval_needs_sat.

(* the groups that the model of split() (C15) produces are pairwise variable-disjoint, so the principle applies to them *)
Theorem C12_split_independent : forall l,
  independent (map (group_constraints (flatten_and l)) (fst (split_constraints l))).
Proof. exact split_independent. Qed.
Print Assumptions C12_split_independent.

Theorem C12_split_sat : forall l,
  let gs := map (group_constraints (flatten_and l)) (fst (split_constraints l)) in
  (exists rho, models rho (concat gs) = true) <-> (forall g, In g gs -> exists rho, models rho g = true).
Proof. exact split_sat_iff. Qed.
Print Assumptions C12_split_sat.

(* the cache of merged child solvers (CompositedCacheMixin): after a child is stored, every merged solver that stays cached
   still combines current children only -- with the invalidation rule as repaired; the rule of the pinned code (by the
   requested names only) leaves a stale entry behind (the defect the thorough tier found) *)
Theorem C12_cache_valid : forall kids cache ns,
  Forall (valid kids) cache -> Forall (valid (store_child kids ns)) (remove_cached cache (cvars ns)).
Proof. exact store_keeps_cache_valid. Qed.
Print Assumptions C12_cache_valid.

Theorem C12_cache_pinned_refuted : exists kids cache ns,
  Forall (valid kids) cache /\ ~ Forall (valid (store_child kids ns)) (remove_cached_pinned cache (cvars ns)).
Proof. exact pinned_invalidation_refuted. Qed.
Print Assumptions C12_cache_pinned_refuted.
