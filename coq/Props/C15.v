(* C15: fe_merge, combine and split of the frontend bookkeeping (Model/Frontend.v) have exactly their documented meaning.
   The state invariant Inv says that a constraint dropped as "already seen" is implied by the stored ones; it holds
   for the blank frontend and is preserved by every operation below.  Z3, the caches, simplify() and SolverComposite's
   own fe_merge/split/combine are not in this model: they are covered by enumeration tests only. *)
Require Import CV.Model.PyPrelude CV.Model.Ast CV.Model.Build CV.Model.Rewrite CV.Model.Frontend
               CV.Proofs.AstLemmas CV.Proofs.BuildSound CV.Proofs.SimpSound CV.Proofs.FrontendSound
               CV.Proofs.CompositeSound CV.Proofs.SplitComposite.
From Coq Require Import ZArith Bool List Permutation.
Import ListNotations.
Open Scope Z_scope.

Theorem C15_add : forall s new, Inv s ->
  Inv (fe_add s new) /\ forall rho, models rho (cs (fe_add s new)) = models rho (cs s) && models rho new.
Proof. exact add_sem. Qed.
Print Assumptions C15_add.

Theorem C15_merge : forall fuel s others conds r,
  Forall bool_ok conds -> Forall wfcs (s :: others) -> conds <> [] ->
  fe_merge (mk fuel) s others conds = Ok r ->
  Inv r /\ forall rho, models rho (cs r) =
                       existsb (fun vo => holds rho (fst vo) && models rho (cs (snd vo))) (combine conds (s :: others)).
Proof. intros fuel. exact (merge_sem (mk fuel) (mk_sound fuel)). Qed.
Print Assumptions C15_merge.

Theorem C15_merge_ancestor : forall fuel anc conds r,
  Inv anc -> Forall bool_ok conds -> conds <> [] ->
  fe_merge_anc (mk fuel) anc conds = Ok r ->
  Inv r /\ forall rho, models rho (cs r) = models rho (cs anc) && existsb (holds rho) conds.
Proof. intros fuel. exact (merge_anc_sem (mk fuel) (mk_sound fuel)). Qed.
Print Assumptions C15_merge_ancestor.

Theorem C15_combine : forall s others,
  Inv (combine_fe s others) /\
  forall rho, models rho (cs (combine_fe s others)) = forallb (fun o => models rho (cs o)) (s :: others).
Proof. exact combine_sem. Qed.
Print Assumptions C15_combine.

(* split: every conjunct with a variable lies in exactly one group (g_perm), a variable belongs to at most one
   group (g_disj), and all variables of a conjunct belong to its group (g_closed) *)
Theorem C15_split_groups : forall l,
  let sp := flatten_and l in GInv sp (fst (split_constraints l)) (length sp).
Proof. exact split_groups. Qed.
Print Assumptions C15_split_groups.

(* ... and the split is semantically exact: a list of well-formed constraints has exactly the models of its groups together
   with the variable-free rest (conjunctions are flattened first) *)
Theorem C15_split_exact : forall l rho, Forall wfe l ->
  models rho l = models rho (concat (map (group_constraints (flatten_and l)) (fst (split_constraints l))))
                 && models rho (snd (split_constraints l)).
Proof. exact split_exact. Qed.
Print Assumptions C15_split_exact.
