(* C22: queries agree with the member set.
   Proved: cardinality is the number of members (C22_cardinality); the executable member list used by the
   correspondence check is gamma (C22_members).  Joins, meet, widening, eval/min/max/solution are not
   modelled; they are covered by the sweep of the real code only. *)
Require Import CV.Model.PyPrelude CV.Model.SI CV.Proofs.SISound.
From Coq Require Import ZArith List.
Open Scope Z_scope.

Theorem C22_cardinality : forall a,
  wf a -> (lb a <> ub a -> 0 < stride a) ->
  cardinality a = Ok (Z.of_nat (length (members a))).
Proof. exact cardinality_exact. Qed.
Print Assumptions C22_cardinality.

Theorem C22_members : forall a x, 0 <= bits a -> 0 <= stride a -> (In x (members a) <-> gamma a x).
Proof. exact members_gamma. Qed.
Print Assumptions C22_members.
