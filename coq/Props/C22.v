(* C22: queries agree with the member set.
   Proved: cardinality is the number of members (C22_cardinality); the executable member list used by the
   correspondence check is gamma (C22_members); the union of two intervals (union / least_upper_bound / _union, i.e.
   pseudo_join with its ten cases: containment either way, TOP operands, covering the circle, overlapping, disjoint with the
   choice of the join with fewer values) contains every member of both operands, for every width and all operands
   (C22_union).  The queries that read the (lower, upper) pairs of _unsigned_bounds / _signed_bounds (Model/SIQuery.v):
   unsigned min is exactly the least member (C22_min_exact); unsigned eval lists members only (C22_eval_members); max is an
   upper bound and min a lower bound of every member in either signedness (C22_max_upper_partial, C22_min_lower_partial:
   partial, because max is not always a member -- C22_max_not_member_refuted, a known finding).
   pseudo_join with either value of smart_join contains both operands (C22_join), and least_upper_bound of any number of
   intervals -- every rotation of the sorted operands folded with pseudo_join, the candidate with the fewest values -- contains
   every operand (C22_lub).  Meet, widening and solution are not modelled; they are covered by the
   sweep of the real code only. *)
Require Import CV.Model.PyPrelude CV.Model.SI CV.Model.SIUnion CV.Proofs.SISound CV.Proofs.SIUnionSound.
Require Import CV.Model.SICmp CV.Model.SIQuery CV.Proofs.SIQuerySound CV.Proofs.SILubSound.
From Coq Require Import ZArith List.
Open Scope Z_scope.

Theorem C22_cardinality : forall a,
  wf a -> (lb a <> ub a -> 0 < stride a) ->
  cardinality a = Ok (Z.of_nat (length (members a))).
Proof. exact cardinality_exact. Qed.
Print Assumptions C22_cardinality.

Theorem C22_members : forall a x, 0 <= bits a -> 0 <= stride a -> (In x (members a) <-> gamma a x).
Proof. exact members_gamma. Qed.
Print Assumptions C22_members.

Theorem C22_union : forall a b, wf a -> wf b -> bits a = bits b ->
  exists r, si_union a b = Ok r /\ wf r /\ bits r = bits a /\ forall x, gamma a x \/ gamma b x -> gamma r x.
Proof. exact union_sound. Qed.
Print Assumptions C22_union.

Theorem C22_min_exact : forall a m, wf a -> stride a < 2 ^ bits a -> si_min false a = Ok m ->
  gamma a m /\ forall x, gamma a x -> m <= x.
Proof. exact min_exact. Qed.
Print Assumptions C22_min_exact.

Theorem C22_eval_members : forall a n vs v, wf a -> stride a < 2 ^ bits a -> si_eval false a n = Ok vs -> In v vs -> gamma a v.
Proof. exact eval_sound. Qed.
Print Assumptions C22_eval_members.

(* partial: the full statement "max returns the greatest member" is false of the code (next theorem) *)
Theorem C22_max_upper_partial : forall sg a m x, wf a -> si_max sg a = Ok m -> gamma a x -> rd sg a x <= m.
Proof. exact max_upper. Qed.
Print Assumptions C22_max_upper_partial.

Theorem C22_min_lower_partial : forall sg a m x, wf a -> si_min sg a = Ok m -> gamma a x -> m <= rd sg a x.
Proof. exact min_lower. Qed.
Print Assumptions C22_min_lower_partial.

Theorem C22_max_not_member_refuted :
  let a := mkSI 4 2 0 5 false in wf a /\ si_max false a = Ok 5 /\ ~ In 5 (members a).
Proof. exact max_not_member_refuted. Qed.
Print Assumptions C22_max_not_member_refuted.

Theorem C22_join : forall smart a b, wf a -> wf b -> bits a = bits b ->
  exists r, si_join smart a b = Ok r /\ wf r /\ bits r = bits a /\ forall x, gamma a x \/ gamma b x -> gamma r x.
Proof. exact join_sound. Qed.
Print Assumptions C22_join.

Theorem C22_lub : forall w l r, Forall (okw w) l -> si_lub l = Ok r ->
  okw w r /\ forall a v, In a l -> gamma a v -> gamma r v.
Proof. exact lub_sound. Qed.
Print Assumptions C22_lub.
