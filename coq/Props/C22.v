(* C22: queries agree with the member set.
   Proved: cardinality is the number of members (C22_cardinality); the executable member list used by the
   correspondence check is gamma (C22_members); the union of two intervals (union / least_upper_bound / _union, i.e.
   pseudo_join with its ten cases: containment either way, TOP operands, covering the circle, overlapping, disjoint with the
   choice of the join with fewer values) contains every member of both operands, for every width and all operands
   (C22_union).  least_upper_bound of three or more intervals, meet, widening, eval/min/max/solution are not modelled;
   they are covered by the sweep of the real code only. *)
Require Import CV.Model.PyPrelude CV.Model.SI CV.Model.SIUnion CV.Proofs.SISound CV.Proofs.SIUnionSound.
From Coq Require Import ZArith List.
Open Scope Z_scope.

Theorem C22_cardinality : forall a,
  wf a -> (lb a <> ub a -> 0 < stride a) ->
  cardinality a = Ok (Z.of_nat (length (members a))).
Proof. exact cardinality_exact. Qed.
Print Assumptions C22_cardinality.

Theorem C22_members : forall a x, 0 <= bits a -> 0 <= stride a -> (In x (members a) <-> gamma a x).
Proof. exact members_gamma. Qed.
Print Assumptions C22_members.

Theorem C22_union : forall a b, wf a -> wf b -> bits a = bits b ->
  exists r, si_union a b = Ok r /\ wf r /\ bits r = bits a /\ forall x, gamma a x \/ gamma b x -> gamma r x.
Proof. exact union_sound. Qed.
Print Assumptions C22_union.
