(* C10 -- property theorems only.  (The solver-level is_true/is_false are part of the frontend model.) *)
From Coq Require Import ZArith List.
Require Import CV.Model.PyPrelude CV.Model.Ast CV.Model.Build CV.Proofs.TreeSound CV.Proofs.MetaSound.

(* claripy.is_true(e) on an expression built from any operation tree: True only if the tree is valid *)
Theorem C10_is_true : forall fuel t e, builds fuel t e -> is_true e = true ->
  forall rho, teval rho t = Some (VBool true).
Proof. exact is_true_sound. Qed.
Print Assumptions C10_is_true.

Theorem C10_is_false : forall fuel t e, builds fuel t e -> is_false e = true ->
  forall rho, teval rho t = Some (VBool false).
Proof. exact is_false_sound. Qed.
Print Assumptions C10_is_false.
