(* C13: the replacement frontend with its default settings is exact.
   C13_add / C13_history   after any sequence of add() the constraints held by the actual frontend have exactly the models of
                           what the caller added, and every replacement is implied by them (invariant by induction over the history);
   C13_query               every query is put to the actual frontend about an expression that has, in every such model, the value of
                           the expression asked about -- so eval/min/max/solution/satisfiable answer as a plain solver would;
   C13_pinned_order_refuted   with the order of the pinned code (the constraint rewritten with its own replacement) the actual
                           frontend loses the constraint: witness x + y == 5 (the repaired defect).
   Substitution is C08's model of claripy.replace_dict (C08_subst).  Not modelled: the replacement cache (a memo of the same
   substitution), unsafe_replacement, complex_auto_replace/replace_constraints (interval replacements: C25/C24), branch/merge
   bookkeeping of the wrapped frontend (C14/C15), and the hybrid frontend's dispatch (search only). *)
Require Import CV.Model.PyPrelude CV.Model.Ast CV.Model.Build CV.Model.Rewrite CV.Model.Frontend CV.Model.Replace
               CV.Proofs.AstLemmas CV.Proofs.ReplaceSound.
From Coq Require Import ZArith List Bool.
Import ListNotations.
Open Scope Z_scope.

Theorem C13_add : forall s c s', RInv s -> wfe c -> radd s c = Ok s' -> RInv s'.
Proof. exact radd_inv. Qed.
Print Assumptions C13_add.

Theorem C13_history : forall cs s', Forall wfe cs -> radd_all rblank cs = Ok s' -> RInv s'.
Proof. intros cs s' Hw H. exact (radd_all_inv cs rblank s' rblank_inv Hw H). Qed.
Print Assumptions C13_history.

Theorem C13_query : forall s e e', RInv s -> wfe e -> rquery s e = Ok e' ->
  (forall rho, models rho (rcs s) = models rho (rorig s)) /\
  (forall rho, models rho (rorig s) = true -> eval rho e' = eval rho e).
Proof. exact rquery_exact. Qed.
Print Assumptions C13_query.

Theorem C13_pinned_order_refuted : exists s' rho, wfe pinned_witness /\ radd_pinned rblank pinned_witness = Ok s' /\
  models rho (rcs s') = true /\ models rho (rorig s') = false.
Proof. exact radd_pinned_refuted. Qed.
Print Assumptions C13_pinned_order_refuted.
