(* C18 (the part about solvers): a pickled SolverComposite gives the same satisfiability answers as the original.
   Over Model/Pickle.v: the answer of check_satisfiability is exact whenever every child outside the unchecked set is known
   satisfiable (C18_check_exact); after the pickle round trip that invariant holds and the answer is the exact one,
   whatever had been checked before (C18_roundtrip); the pinned __setstate__ violated this (C18_pinned_refuted, the defect
   that was repaired).  Expressions, the other frontends' state chains and cross-process round trips are tested only. *)
From Coq Require Import ZArith List Bool.
Require Import CV.Model.Ast CV.Model.Pickle CV.Proofs.PickleSound.
Import ListNotations.

Theorem C18_check_exact : forall sat c, pinv sat c -> check sat c = exact sat c.
Proof. exact check_exact. Qed.
Print Assumptions C18_check_exact.

Theorem C18_roundtrip : forall sat c, check sat (setstate (getstate c)) = exact sat c.
Proof. exact roundtrip_exact. Qed.
Print Assumptions C18_roundtrip.

Theorem C18_pinned_refuted :
  exists sat c, pinv sat c /\ check sat c = false /\ check sat (setstate_pinned (getstate c)) = true.
Proof. exact pinned_refuted. Qed.
Print Assumptions C18_pinned_refuted.
