(* C04: building and folding never crashes -- the proved part: every concrete folding function generated from
   backend_concrete/bv.py returns a value, or the documented division-by-zero error, for ALL well-formed operands of ALL
   widths below the resource limit (in particular shift and rotate amounts up to 2^width - 1, e.g. near 2^64): it never
   takes an unrelated Python exception (negative shift count, ZeroDivisionError, MemoryError).  These are corollaries of the
   functional specifications proved for C01.  The simplifiers and Base.__new__ are covered by the soundness theorem only for
   the results they return; that they do not raise is checked by running extreme-constant programs (testing). *)
From Coq Require Import ZArith List.
Require Import CV.Model.PyPrelude CV.Gen.BvConcrete CV.Proofs.BvConcreteProof CV.Proofs.NoCrash.
Import ListNotations.
Open Scope Z_scope.

Theorem C04_binary_total : forall a b : bvv, wfb a -> wfb b -> bbits a = bbits b -> 0 < bbits a ->
  benign (bvv___add__ a b) /\ benign (bvv___sub__ a b) /\ benign (bvv___mul__ a b) /\
  benign (bvv___and__ a b) /\ benign (bvv___or__ a b) /\ benign (bvv___xor__ a b) /\
  benign (bvv___floordiv__ a b) /\ benign (bvv___mod__ a b) /\ benign (bv_SDiv a b) /\ benign (bv_SMod a b) /\
  benign (bvv___lshift__ a b) /\ benign (bvv___rshift__ a b) /\ benign (bv_LShR a b) /\
  benign (bv_RotateLeft a b) /\ benign (bv_RotateRight a b) /\
  benign (bvv___eq__ a b) /\ benign (bvv___ne__ a b) /\
  benign (bv_ULT a b) /\ benign (bv_ULE a b) /\ benign (bv_UGT a b) /\ benign (bv_UGE a b) /\
  benign (bv_SLT a b) /\ benign (bv_SLE a b) /\ benign (bv_SGT a b) /\ benign (bv_SGE a b).
Proof. exact binary_total. Qed.
Print Assumptions C04_binary_total.

Theorem C04_unary_total : forall a, wfb a -> benign (bvv___neg__ a) /\ benign (bvv___invert__ a).
Proof. exact unary_total. Qed.
Print Assumptions C04_unary_total.

Theorem C04_resize_total : forall a k hi lo, wfb a -> 0 < bbits a ->
  (0 <= k -> bbits a + k <= SHIFT_LIMIT -> benign (bv_ZeroExt k a) /\ benign (bv_SignExt k a)) /\
  (0 <= lo <= hi -> hi < bbits a -> hi + 2 <= SHIFT_LIMIT -> benign (bv_Extract hi lo a)).
Proof. exact resize_total. Qed.
Print Assumptions C04_resize_total.

Theorem C04_concat_total : forall l, Forall wfb l -> total_bits l <= SHIFT_LIMIT -> benign (bv_Concat l).
Proof. exact concat_total. Qed.
Print Assumptions C04_concat_total.
