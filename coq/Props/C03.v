(* C03: string operations mean the same folded and solved -- the proved part: the concrete folding functions of
   backend_concrete/strings.py (as modelled in Model/Str.v over lists of code points, hence for every character) are the
   SMT-LIB string operations: prefix/suffix/contains are the existential definitions, replace rewrites the leftmost
   occurrence or leaves the string alone, substr is the standard's case split, indexof is the least position at or after
   the start index or -1, to_int is defined on non-empty digit strings only and inverts from_int.  How constants reach Z3
   (escaping), Z3's own string theory and symbolic strings are not modelled (tests only). *)
From Coq Require Import ZArith List Bool.
Require Import CV.Model.Numeral CV.Model.Str CV.Proofs.StrSound.
Import ListNotations.
Open Scope Z_scope.

Theorem C03_prefixof : forall t s, prefixof t s = true <-> exists u, s = t ++ u.
Proof. exact prefixof_spec. Qed.
Print Assumptions C03_prefixof.
Theorem C03_suffixof : forall t s, suffixof t s = true <-> exists u, s = u ++ t.
Proof. exact suffixof_spec. Qed.
Print Assumptions C03_suffixof.
Theorem C03_contains : forall s t, contains s t = true <-> exists a b, s = a ++ t ++ b.
Proof. exact contains_spec. Qed.
Print Assumptions C03_contains.
Theorem C03_replace : forall s p r,
  (forall k, ~ occurs_at p s k) /\ replace1 s p r = s \/
  exists k u, occurs_at p s k /\ (forall j, (j < k)%nat -> ~ occurs_at p s j) /\
              skipn k s = p ++ u /\ replace1 s p r = firstn k s ++ r ++ u.
Proof. exact replace1_spec. Qed.
Print Assumptions C03_replace.
Theorem C03_substr : forall start count s, 0 <= start -> 0 <= count ->
  substr start count s =
  if (start <? Z.of_nat (length s)) && (0 <? count)
  then firstn (Z.to_nat (Z.min count (Z.of_nat (length s) - start))) (skipn (Z.to_nat start) s)
  else [].
Proof. exact substr_spec. Qed.
Print Assumptions C03_substr.
Theorem C03_indexof : forall s t i, 0 <= i -> Z.of_nat (length s) < 2 ^ 64 ->
  (exists k, indexof s t i = Z.of_nat k /\ (Z.to_nat i <= k)%nat /\ occurs_at t s k /\
             forall j, (Z.to_nat i <= j < k)%nat -> ~ occurs_at t s j)
  \/ (indexof s t i = 2 ^ 64 - 1 /\ forall k, (Z.to_nat i <= k)%nat -> ~ occurs_at t s k).
Proof. exact indexof_spec. Qed.
Print Assumptions C03_indexof.
Theorem C03_to_int : forall s,
  (s <> [] /\ forallb is_digit s = true /\ to_int s = dval (map (fun c => c - 48) s) mod 2 ^ 64) \/
  ((s = [] \/ forallb is_digit s = false) /\ to_int s = 2 ^ 64 - 1).
Proof. exact to_int_spec. Qed.
Print Assumptions C03_to_int.
Theorem C03_from_int_roundtrip : forall v, 0 <= v < 2 ^ 64 -> to_int (from_int v) = v.
Proof. exact from_int_roundtrip. Qed.
Print Assumptions C03_from_int_roundtrip.
