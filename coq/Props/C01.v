(* C01 -- property theorems only.
   Model/Build.v is the hand-written model of claripy's expression construction (tied to the code by the
   one-step correspondence of harness/c01.py); Gen/BvConcrete.v is regenerated from
   claripy/backends/backend_concrete/bv.py on every run. *)
From Coq Require Import ZArith List.
Require Import CV.Model.PyPrelude CV.Spec.BV CV.Gen.BvConcrete CV.Model.Ast CV.Model.Build.
Require Import CV.Proofs.AstLemmas CV.Proofs.BvConcreteProof CV.Proofs.BuildSound CV.Proofs.SimpSound CV.Proofs.TreeSound.
Import ListNotations.
Open Scope Z_scope.

(* Whatever the construction model returns for a well-typed application denotes, under every assignment,
   at every width and for every constant, what the plain operation denotes in SMT-LIB semantics. *)
Theorem C01_build_sound : forall fuel op ints args r,
  Forall wfe args -> (exists len, tyop op ints (map elen args) = Some len) ->
  mk fuel op ints args = Ok r ->
  wfe r /\ elen r = calc_len op ints args /\
  forall rho, eval rho r = eval rho (Node op ints args (calc_len op ints args)).
Proof. intros fuel op ints args r Hf Ht H. exact (mk_sound fuel op ints args r (conj Hf Ht) H). Qed.
Print Assumptions C01_build_sound.

(* ... and again after any further operations: an expression built bottom-up from a whole operation tree
   denotes the tree the caller wrote. *)
Theorem C01_tree : forall fuel t e, builds fuel t e -> wfe e /\ forall rho, eval rho e = teval rho t.
Proof. exact builds_sound. Qed.
Print Assumptions C01_tree.

(* C01b: the concrete folding functions (generated from bv.py) are the SMT-LIB operators. *)
Theorem C01b_add : forall a b, wfb a -> wfb b -> bbits a = bbits b -> 0 < bbits a ->
  bvv___add__ a b = Ok (mkbvv (bvadd (bbits a) (bvalue a) (bvalue b)) (bbits a)).
Proof. exact add_spec. Qed.
Print Assumptions C01b_add.
Theorem C01b_sdiv : forall a b, wfb a -> wfb b -> bbits a = bbits b -> 0 < bbits a -> bvalue b <> 0 ->
  bv_SDiv a b = Ok (mkbvv (bvsdiv (bbits a) (bvalue a) (bvalue b)) (bbits a)).
Proof. exact sdiv_spec. Qed.
Print Assumptions C01b_sdiv.
Theorem C01b_smod : forall a b, wfb a -> wfb b -> bbits a = bbits b -> 0 < bbits a -> bvalue b <> 0 ->
  bv_SMod a b = Ok (mkbvv (bvsrem (bbits a) (bvalue a) (bvalue b)) (bbits a)).
Proof. exact smod_spec. Qed.
Print Assumptions C01b_smod.
Theorem C01b_shl : forall a b, wfb a -> wfb b -> bbits a = bbits b -> 0 < bbits a ->
  bvv___lshift__ a b = Ok (mkbvv (bvshl (bbits a) (bvalue a) (bvalue b)) (bbits a)).
Proof. exact shl_spec. Qed.
Print Assumptions C01b_shl.
Theorem C01b_ashr : forall a b, wfb a -> wfb b -> bbits a = bbits b -> 0 < bbits a ->
  bvv___rshift__ a b = Ok (mkbvv (bvashr (bbits a) (bvalue a) (bvalue b)) (bbits a)).
Proof. exact ashr_spec. Qed.
Print Assumptions C01b_ashr.
Theorem C01b_rotate_left : forall a n, wfb a -> wfb n -> bbits a = bbits n -> 0 < bbits a ->
  bv_RotateLeft a n = Ok (mkbvv (rotate_left (bbits a) (bvalue a) (bvalue n)) (bbits a)).
Proof. exact rotate_left_spec. Qed.
Print Assumptions C01b_rotate_left.
Theorem C01b_rotate_right : forall a n, wfb a -> wfb n -> bbits a = bbits n -> 0 < bbits a ->
  bv_RotateRight a n = Ok (mkbvv (rotate_right (bbits a) (bvalue a) (bvalue n)) (bbits a)).
Proof. exact rotate_right_spec. Qed.
Print Assumptions C01b_rotate_right.
Theorem C01b_extract : forall hi lo a, wfb a -> 0 <= lo <= hi -> hi < bbits a -> hi + 2 <= SHIFT_LIMIT ->
  bv_Extract hi lo a = Ok (mkbvv (bvextract hi lo (bvalue a)) (hi - lo + 1)).
Proof. exact extract_spec. Qed.
Print Assumptions C01b_extract.
Theorem C01b_concat : forall l, Forall wfb l -> total_bits l <= SHIFT_LIMIT ->
  bv_Concat l = Ok (mkbvv (fst (concat_list l)) (snd (concat_list l))).
Proof. exact concat_spec. Qed.
Print Assumptions C01b_concat.
Theorem C01b_signext : forall k a, wfb a -> 0 < bbits a -> 0 <= k -> bbits a + k <= SHIFT_LIMIT ->
  bv_SignExt k a = Ok (mkbvv (sign_extend (bbits a) k (bvalue a)) (bbits a + k)).
Proof. exact signext_spec. Qed.
Print Assumptions C01b_signext.
(* every concrete fold of a well-typed application is the SMT-LIB value (all operators at once) *)
Theorem C01b_fold : forall op ints args r,
  Forall wfe args -> (exists len, tyop op ints (map elen args) = Some len) ->
  fold_concrete op ints args = Ok r ->
  wfe r /\ forall rho, eval rho r = eval rho (Node op ints args (calc_len op ints args)).
Proof.
  intros op ints args r Hf Ht H. destruct (fold_concrete_sound op ints args r (conj Hf Ht) H) as (A & _ & B). auto.
Qed.
Print Assumptions C01b_fold.
