(* C20: solvers used from several threads answer as if used alone -- the proved part concerns the thread-local conversion
   caches (Model/Tls.v): for every interleaving of conversion requests by any number of threads, each object a thread obtains
   belongs to that thread's own Z3 context and denotes the requested expression (C20_own_context), and a request by one
   thread leaves the caches of the others untouched (C20_isolated); with a single shared cache this fails
   (C20_shared_cache_refuted).  Z3 itself, the hash-consing table, the GC guard (C19) and the frontends are outside this
   model: concurrent histories are compared with their single-threaded replay (testing). *)
From Coq Require Import List.
Require Import CV.Model.Tls CV.Proofs.TlsSound.
Import ListNotations.

Theorem C20_own_context : forall reqs,
  Forall2 (fun req o => o_ctx o = fst req /\ o_expr o = snd req) reqs (fst (run (fun _ => []) reqs)).
Proof. intros reqs. apply run_own_context. exact tinv_empty. Qed.
Print Assumptions C20_own_context.

Theorem C20_isolated : forall s t e u, u <> t -> snd (convert s t e) u = s u.
Proof. exact convert_other. Qed.
Print Assumptions C20_isolated.

Theorem C20_shared_cache_refuted :
  exists reqs, ~ Forall2 (fun req o => o_ctx o = fst req /\ o_expr o = snd req) reqs (fst (run_shared [] reqs)).
Proof. exact shared_cache_refuted. Qed.
Print Assumptions C20_shared_cache_refuted.
