(* C19 -- property theorems only.  The programs are Gen/GcGuard.v, regenerated from
   claripy/backends/backend_z3.py on every run. *)
Require Import CV.Model.GcLang CV.Gen.GcGuard CV.Proofs.GcProof.
From Coq Require Import ZArith List.

Theorem C19_gc : forall (gc0 : bool) (n : nat) (sched : list (nat * choice)),
  good gc0 (run enter_prog exit_prog exit_in_finally sched (init gc0 n)) = true.
Proof. exact gc_guard_safe. Qed.
Print Assumptions C19_gc.

Theorem C19_no_underflow : forall gc0 n sched i t,
  nth_error (thr (run enter_prog exit_prog exit_in_finally sched (init gc0 n))) i = Some t ->
  md t <> InExit 2 /\ md t <> InExit 3 /\ md t <> InExit 4 /\ md t <> InExit 5.
Proof. exact gc_guard_no_underflow. Qed.
Print Assumptions C19_no_underflow.
