(* C05 -- property theorems only (over Model/Ast.v, Model/Build.v). *)
From Coq Require Import ZArith List.
Require Import CV.Model.PyPrelude CV.Model.Ast CV.Model.Build CV.Proofs.AstLemmas CV.Proofs.TreeSound CV.Proofs.MetaSound.
Import ListNotations.

(* the reported bit width of a built expression is the width of the value the written tree denotes *)
Theorem C05_width : forall fuel t e, builds fuel t e ->
  forall rho, exists v, teval rho t = Some v /\ vlen v = elen e.
Proof. exact width_accurate. Qed.
Print Assumptions C05_width.

(* the value depends only on the variables that occur: a variable set that contains them is enough for
   splitting, caching and substitution *)
Theorem C05_variables : forall rho rho' e, agree rho rho' (fvars e) -> eval rho e = eval rho' e.
Proof. exact eval_ext. Qed.
Print Assumptions C05_variables.

(* reported concrete (not symbolic) iff no variable occurs, and then the value is assignment-independent *)
Theorem C05_concrete : forall e, symbolic e = false <-> fvars e = [].
Proof. exact symbolic_fvars. Qed.
Print Assumptions C05_concrete.
Theorem C05_concrete_value : forall rho rho' e, fvars e = [] -> eval rho e = eval rho' e.
Proof. exact eval_closed. Qed.
Print Assumptions C05_concrete_value.

Theorem C05_depth : forall op ints args len,
  depth (Node op ints args len) = S (fold_right (fun a m => Nat.max (depth a) m) O args).
Proof. exact depth_node. Qed.
Print Assumptions C05_depth.
