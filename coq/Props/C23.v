(* C23: discrete strided-interval sets and region value sets are sound abstractions.
   Generic part (any element domain A with concretisation gamma, well-formedness P):
     C23_lift2 / C23_lift1     an operation applied to every (pair of) member(s) is sound on the union of the members whenever
                               the element operation is sound under its side condition;
     C23_collapse / C23_normalize   collapsing with a sound join keeps every member value;
     C23_vmap / C23_vunion     per region: applying an operation in every region, and the union of two value sets.
   Instances over the strided-interval model (Model/SI.v, whose helpers are regenerated from the source):
     C23_dsis_add / C23_dsis_sub / C23_dsis_neg / C23_dsis_not / C23_vs_add, for every width below the resource limit and sets of any size.
   The join, cardinality and the remaining transfer functions of real intervals are parameters here (their soundness is C21's
   subject); the correspondence check compares lifted add/sub/neg exactly and the structure of unions. *)
Require Import CV.Model.PyPrelude CV.Model.SI CV.Model.Lift CV.Proofs.SISound CV.Proofs.LiftSound CV.Proofs.LiftSI.
From Coq Require Import ZArith List.
Open Scope Z_scope.

Theorem C23_lift2 : forall (A : Type) (P : A -> Prop) (gamma : A -> Z -> Prop) (f2 : A -> A -> res A) (c2 : Z -> Z -> Z)
    (Pre2 : A -> A -> Prop),
  (forall a b, P a -> P b -> Pre2 a b ->
     exists r, f2 a b = Ok r /\ P r /\ forall x y, gamma a x -> gamma b y -> gamma r (c2 x y)) ->
  forall s t, Forall P s -> Forall P t -> (forall a b, In a s -> In b t -> Pre2 a b) ->
  exists r, lift2 A f2 s t = Ok r /\ Forall P r /\ forall x y, gset A gamma s x -> gset A gamma t y -> gset A gamma r (c2 x y).
Proof. exact lift2_sound. Qed.
Print Assumptions C23_lift2.

Theorem C23_lift1 : forall (A : Type) (P : A -> Prop) (gamma : A -> Z -> Prop) (f1 : A -> res A) (c1 : Z -> Z) (Pre1 : A -> Prop),
  (forall a, P a -> Pre1 a -> exists r, f1 a = Ok r /\ P r /\ forall x, gamma a x -> gamma r (c1 x)) ->
  forall s, Forall P s -> Forall Pre1 s ->
  exists r, lift1 A f1 s = Ok r /\ Forall P r /\ forall x, gset A gamma s x -> gset A gamma r (c1 x).
Proof. exact lift1_sound. Qed.
Print Assumptions C23_lift1.

Theorem C23_collapse : forall (A : Type) (gamma : A -> Z -> Prop) (join : A -> A -> A),
  (forall a b x, gamma a x \/ gamma b x -> gamma (join a b) x) ->
  forall s x, gset A gamma s x -> gset A gamma (collapse A join s) x.
Proof. exact collapse_sound. Qed.
Print Assumptions C23_collapse.

Theorem C23_normalize : forall (A : Type) (gamma : A -> Z -> Prop) (join : A -> A -> A),
  (forall a b x, gamma a x \/ gamma b x -> gamma (join a b) x) ->
  forall (card : A -> Z) max s x, gset A gamma s x -> gset A gamma (normalize A join card max s) x.
Proof. exact normalize_sound. Qed.
Print Assumptions C23_normalize.

Theorem C23_vmap : forall (A : Type) (P : A -> Prop) (gamma : A -> Z -> Prop) (f1 : A -> res A) (c1 : Z -> Z) (Pre1 : A -> Prop),
  (forall a, P a -> Pre1 a -> exists r, f1 a = Ok r /\ P r /\ forall x, gamma a x -> gamma r (c1 x)) ->
  forall (R : Type) (r_eqb : R -> R -> bool) v, vwf A P R v -> Forall (fun ra => Pre1 (snd ra)) v ->
  exists w, vmap A R f1 v = Ok w /\ vwf A P R w /\ forall r x, gvs A gamma R r_eqb v r x -> gvs A gamma R r_eqb w r (c1 x).
Proof. exact vmap_sound. Qed.
Print Assumptions C23_vmap.

Theorem C23_vunion : forall (A : Type) (gamma : A -> Z -> Prop) (join : A -> A -> A),
  (forall a b x, gamma a x \/ gamma b x -> gamma (join a b) x) ->
  forall (R : Type) (r_eqb : R -> R -> bool), (forall a b, r_eqb a b = true <-> a = b) ->
  forall v w r x, gvs A gamma R r_eqb v r x \/ gvs A gamma R r_eqb w r x -> gvs A gamma R r_eqb (vunion A join R r_eqb v w) r x.
Proof. exact vunion_sound. Qed.
Print Assumptions C23_vunion.

Theorem C23_dsis_add : forall w s t, Forall (wfw w) s -> Forall (wfw w) t ->
  exists r, dsis_add s t = Ok r /\ Forall (wfw w) r /\
    forall x y, gset si gamma s x -> gset si gamma t y -> gset si gamma r ((x + y) mod 2 ^ w).
Proof. exact dsis_add_sound. Qed.
Print Assumptions C23_dsis_add.

Theorem C23_dsis_sub : forall w s t, Forall (wfw w) s -> Forall (wfw w) t -> Forall proper t ->
  exists r, dsis_sub s t = Ok r /\ Forall (wfw w) r /\
    forall x y, gset si gamma s x -> gset si gamma t y -> gset si gamma r ((x - y) mod 2 ^ w).
Proof. exact dsis_sub_sound. Qed.
Print Assumptions C23_dsis_sub.

Theorem C23_dsis_neg : forall w s, Forall (wfw w) s -> Forall proper s ->
  exists r, dsis_neg s = Ok r /\ Forall (wfw w) r /\ forall y, gset si gamma s y -> gset si gamma r ((- y) mod 2 ^ w).
Proof. exact dsis_neg_sound. Qed.
Print Assumptions C23_dsis_neg.

Theorem C23_dsis_not : forall w s, Forall (wfw w) s -> Forall proper s ->
  exists r, dsis_not s = Ok r /\ Forall (wfw w) r /\ forall y, gset si gamma s y -> gset si gamma r (2 ^ w - 1 - y).
Proof. exact dsis_not_sound. Qed.
Print Assumptions C23_dsis_not.

Theorem C23_vs_add : forall (R : Type) (r_eqb : R -> R -> bool) w (v : vset si R) c, vwf si (wfw w) R v -> wfw w c ->
  exists r, vs_add v c = Ok r /\ vwf si (wfw w) R r /\
    forall g x y, gvs si gamma R r_eqb v g x -> gamma c y -> gvs si gamma R r_eqb r g ((x + y) mod 2 ^ w).
Proof. exact vs_add_sound. Qed.
Print Assumptions C23_vs_add.
