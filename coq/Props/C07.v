(* C07: annotations survive rewriting as the annotation contract promises -- over Model/Annot.v, the abstraction of an
   expression to the annotation sets that Base.__new__ maintains and operations._handle_annotations reads.
   When a rewrite or fold is accepted (handle_annotations = Some r): r is the simplified expression with annotations only
   added (extends), every non-eliminatable non-relocatable annotation of every argument -- at any depth -- is still carried
   inside r, and every relocatable annotation of every argument is on r (C07_handle).  When it is refused the plain node
   is built, which keeps its arguments (C07_build).  Explicit simplification through Z3, user-defined relocate() methods and
   the solver's treatment of SimplificationAvoidanceAnnotation are not modelled (tests only). *)
From Coq Require Import ZArith List Bool.
Require Import CV.Model.Annot CV.Proofs.AnnotSound.
Import ListNotations.

Theorem C07_handle : forall simp args r,
  reloc_ok simp -> handle_annotations simp args = Some r ->
  extends simp r /\
  (forall aa, In aa args -> forall p, In p (unel aa) -> In p (unel r)) /\
  (forall aa, In aa args -> forall q, In q (reloc aa) -> is_reloc q = true -> In q (own r)).
Proof. exact handle_annotations_sound. Qed.
Print Assumptions C07_handle.

Theorem C07_build : forall given kids,
  (forall k, In k kids -> forall p, In p (unel k) -> In p (unel (build given kids))) /\
  (forall k, In k kids -> forall q, In q (reloc k) -> In q (own (build given kids))).
Proof. exact build_keeps. Qed.
Print Assumptions C07_build.
