(* C11 -- property theorems only, over Model/Solve.v: the search loops of BackendZ3 and FullFrontend.min/max and
   the cached-then-solve structure of ModelCacheMixin.batch_eval, for every width and every truthful solver
   oracle.  (The bookkeeping of the cache mixins across histories is tied to these by testing only.) *)
From Coq Require Import ZArith List.
Require Import CV.Model.Solve CV.Proofs.SolveProof.
Import ListNotations.
Open Scope Z_scope.

Theorem C11_extrema_max : forall (feasible : Z -> Prop) (probe : Z -> Z -> bool),
  (forall a b, probe a b = true <-> exists v, feasible v /\ a <= v <= b) ->
  forall lo0 hi0, (forall v, feasible v -> lo0 <= v <= hi0) -> (exists v, feasible v) ->
  is_maximum feasible (fst (extrema probe true lo0 hi0)).
Proof. exact extrema_max. Qed.
Print Assumptions C11_extrema_max.

Theorem C11_extrema_min : forall (feasible : Z -> Prop) (probe : Z -> Z -> bool),
  (forall a b, probe a b = true <-> exists v, feasible v /\ a <= v <= b) ->
  forall lo0 hi0, (forall v, feasible v -> lo0 <= v <= hi0) -> (exists v, feasible v) ->
  is_minimum feasible (fst (extrema probe false lo0 hi0)).
Proof. exact extrema_min. Qed.
Print Assumptions C11_extrema_min.

Theorem C11_enumerate : forall (V : Type) (feasible : V -> Prop) (pick : list V -> option V),
  (forall b v, pick b = Some v -> feasible v /\ ~ In v b) ->
  (forall b, pick b = None -> forall v, feasible v -> In v b) ->
  forall n, let r := enumerate V pick n [] in
  (forall v, In v r -> feasible v) /\ NoDup r /\ (length r <= n)%nat
  /\ ((length r < n)%nat -> forall v, feasible v -> In v r).
Proof. exact enumerate_correct. Qed.
Print Assumptions C11_enumerate.

Theorem C11_cached_then_solve : forall (V : Type) (feasible : V -> Prop) (pick : list V -> option V),
  (forall b v, pick b = Some v -> feasible v /\ ~ In v b) ->
  (forall b, pick b = None -> forall v, feasible v -> In v b) ->
  forall n cached exhausted,
  (forall v, In v cached -> feasible v) -> NoDup cached ->
  (exhausted = true -> forall v, feasible v -> In v cached) ->
  let r := cached_then_solve V pick n cached exhausted in
  (forall v, In v r -> feasible v) /\ NoDup r /\ ((length r < n)%nat -> forall v, feasible v -> In v r).
Proof. exact cached_then_solve_correct. Qed.
Print Assumptions C11_cached_then_solve.

Theorem C11_frontend_max : forall (feasible : Z -> Prop) (key : Z -> Z) (probe_with : (Z -> bool) -> Z -> Z -> bool),
  (forall bnd a b, probe_with bnd a b = true <-> exists v, feasible v /\ bnd v = true /\ a <= key v <= b) ->
  forall lo0 hi0, (forall v, feasible v -> lo0 <= key v <= hi0) ->
  forall two m, (forall v, In v two -> feasible v) -> ((length two < 2)%nat -> forall v, feasible v -> In v two) ->
  frontend_extremum probe_with true lo0 hi0 two key = Some m ->
  exists v, key_max feasible key v /\ (m = v \/ m = key v).
Proof. exact frontend_max_correct. Qed.
Print Assumptions C11_frontend_max.

Theorem C11_frontend_min : forall (feasible : Z -> Prop) (key : Z -> Z) (probe_with : (Z -> bool) -> Z -> Z -> bool),
  (forall bnd a b, probe_with bnd a b = true <-> exists v, feasible v /\ bnd v = true /\ a <= key v <= b) ->
  forall lo0 hi0, (forall v, feasible v -> lo0 <= key v <= hi0) ->
  forall two m, (forall v, In v two -> feasible v) -> ((length two < 2)%nat -> forall v, feasible v -> In v two) ->
  frontend_extremum probe_with false lo0 hi0 two key = Some m ->
  exists v, key_min feasible key v /\ (m = v \/ m = key v).
Proof. exact frontend_min_correct. Qed.
Print Assumptions C11_frontend_min.
