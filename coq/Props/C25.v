(* C25: constraint_to_si never cuts off a satisfying assignment -- the comparison bookkeeping of the balancer.
   Tables regenerated from the source on every run (Gen/BalancerTables.v: operations.opposites, Balancer.comparison_info,
   Balancer._unsigned_comparison) are proved to mean what the balancer uses them for:
     C25_opposites, C25_comparison_info.
   For every width, every constant and every value:
     C25_handle_comparison   the bound _handle_comparison derives from a true comparison holds for the left value, and it
                             never reports unsatisfiable;
     C25_assumption          the implicit second bound of _get_assumptions holds for every value;
     C25_in_bound            a value between the bounds is a member of the bound interval read modulo 2^n;
     C25_simple              end to end for  x <op> k  and  k <op> x  (all ten operators): satisfiable is reported and the
                             interval contains x;
     C25_zeroext / C25_extract / C25_lshift / C25_nonstrict   the rewriting rules keep (or weaken) the constraint;
     C25_extract_eq_refuted / C25_lshift_unguarded_refuted    the rules as they were before the repairs do not.
   Not modelled: alignment, add/sub/and/concat/signext/reverse/If balancing, truism unpacking (And/Or/Not), equality with a
   multi-valued right-hand side, and everything that depends on VSA's answers for annotated operands (search only). *)
Require Import CV.Gen.BalancerTables CV.Model.Balance CV.Proofs.BalanceSound.
From Coq Require Import ZArith List Bool String.
Open Scope Z_scope.

Theorem C25_opposites : forall op, exists op', reverse_op op = Some op' /\ forall n x y, cmp op' n y x = cmp op n x y.
Proof. exact opposites_ok. Qed.
Print Assumptions C25_opposites.

Theorem C25_comparison_info : forall op lt eq u, info op = Some (lt, eq, u) ->
  forall n x y, cmp op n x y = ordering lt eq (view u n x) (view u n y).
Proof. exact comparison_info_ok. Qed.
Print Assumptions C25_comparison_info.

Theorem C25_handle_comparison : forall op lt eq u size lmin lmax rmin rmax x r b,
  0 < size -> info op = Some (lt, eq, u) ->
  cmp op size x r = true ->
  lmin <= view u size x <= lmax -> rmin <= view u size r <= rmax ->
  - 2 ^ (size - 1) <= view u size x <= (if u then 2 ^ size - 1 else 2 ^ (size - 1) - 1) ->
  handle_comparison op size lmin lmax rmin rmax = Some b ->
  exists bd, b = Some (lt, bd) /\ (if lt then view u size x <= bd else bd <= view u size x).
Proof. exact handle_comparison_sound. Qed.
Print Assumptions C25_handle_comparison.

Theorem C25_assumption : forall op size op2 c2 x, 0 < size -> 0 <= x < 2 ^ size ->
  assumption op size = Some (op2, c2) ->
  exists lt u, info op2 = Some (lt, true, u) /\ (if lt then view u size x <= c2 else c2 <= view u size x).
Proof. exact assumption_holds. Qed.
Print Assumptions C25_assumption.

Theorem C25_in_bound : forall n mn mx x X, 0 < n -> 0 <= x < 2 ^ n ->
  (X = x \/ X = sgn n x) -> mn <= X <= mx -> mx - mn < 2 ^ n -> in_bound n mn mx x = true.
Proof. exact in_bound_sound. Qed.
Print Assumptions C25_in_bound.

Theorem C25_simple : forall (op : cop) (side : bool) (size k lmin lmax x : Z),
  0 < size -> 0 <= x < 2 ^ size -> 0 <= k < 2 ^ size ->
  (if side then cmp op size k x else cmp op size x k) = true ->
  (forall u, lmin <= view u size x <= lmax) ->
  exists lo hi, simple_bounds op side size k lmin lmax = Some (true, lo, hi) /\ in_bound size lo hi x = true.
Proof. exact simple_bounds_sound. Qed.
Print Assumptions C25_simple.

Theorem C25_zeroext : forall op n z x C, 0 < n -> 0 <= z -> 0 <= x < 2 ^ n -> 0 <= C < 2 ^ n ->
  cmp (zeroext_rule op z) n x C = cmp op (n + z) x C.
Proof. exact zeroext_rule_sound. Qed.
Print Assumptions C25_zeroext.

Theorem C25_extract : forall op n h x c, 0 <= h -> 0 <= x < 2 ^ n ->
  op = CUGE \/ op = CUGT -> cmp op (h + 1) (x mod 2 ^ (h + 1)) c = true -> cmp op n x c = true.
Proof. exact extract_rule_sound. Qed.
Print Assumptions C25_extract.

Theorem C25_extract_eq_refuted : cmp CEq 1 (2 mod 2 ^ 1) 0 = true /\ cmp CEq 3 2 0 = false.
Proof. exact extract_rule_eq_refuted. Qed.
Print Assumptions C25_extract_eq_refuted.

Theorem C25_lshift : forall op n s x r, 0 < s < n -> 0 <= x < 2 ^ (n - s) -> 0 <= r < 2 ^ (n - s) ->
  op <> CSLT -> op <> CSLE -> op <> CSGT -> op <> CSGE ->
  cmp op n x r = cmp op n ((x * 2 ^ s) mod 2 ^ n) (r * 2 ^ s).
Proof. exact lshift_rule_sound. Qed.
Print Assumptions C25_lshift.

Theorem C25_lshift_unguarded_refuted : cmp CEq 3 ((4 * 2 ^ 1) mod 2 ^ 3) (0 * 2 ^ 1) = true /\ cmp CEq 3 4 0 = false.
Proof. exact lshift_rule_unguarded_refuted. Qed.
Print Assumptions C25_lshift_unguarded_refuted.

Theorem C25_nonstrict : forall op n a c op' c', 0 < n -> 0 <= a < 2 ^ n -> 0 <= c < 2 ^ n ->
  nonstrict op n c = (op', c') -> cmp op' n a c' = cmp op n a c.
Proof. exact nonstrict_sound. Qed.
Print Assumptions C25_nonstrict.
