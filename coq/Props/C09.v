(* C09: the Z3 round trip preserves meaning -- the proved part is about the operator tables, regenerated from backend_z3.py on
   every run: every entry of op_map (Z3 declaration kind -> claripy operation, used when abstracting Z3's answer back) that
   lies in the bitvector/Boolean fragment maps a Z3 operator to a claripy operation with the same SMT-LIB meaning, for all
   arguments (C09_op_map, 39 entries constrained: C09_op_map_covered); every _op_raw_ function that is a single Z3_mk_ call
   uses a constructor with the meaning of the claripy operation (C09_op_raw).  Two entries are wrong and excepted: Z3's bvsmod
   is read back as claripy's SMod, which is the signed remainder (C09_bsmod_entry_refuted; claripy never emits bvsmod, see
   DESIGN).  Z3's simplifier, the conversion of constants and sorts, n-ary distinct, floats and strings are not modelled:
   simplification is tested against enumeration. *)
From Coq Require Import List String.
Require Import CV.Model.Ast CV.Model.Z3Conv CV.Gen.Z3OpMap CV.Proofs.Z3ConvProof.
Import ListNotations.

Theorem C09_op_map : Forall entry_ok op_map.
Proof. exact op_map_ok. Qed.
Print Assumptions C09_op_map.

Theorem C09_op_raw : Forall raw_ok op_raw_mk.
Proof. exact op_raw_ok. Qed.
Print Assumptions C09_op_raw.

Theorem C09_op_map_covered : (39 <= List.length (filter covered op_map))%nat.
Proof. exact op_map_covered. Qed.
Print Assumptions C09_op_map_covered.

Theorem C09_bsmod_entry_refuted :
  In ("Z3_OP_BSMOD"%string, Some "SMod"%string) op_map /\
  exists f g ints vs, zsem_kind "Z3_OP_BSMOD" = Some f /\ csem "SMod" = Some g /\ f ints vs <> g ints vs.
Proof. exact bsmod_entry_refuted. Qed.
Print Assumptions C09_bsmod_entry_refuted.
