(* Model of how claripy builds bitvector / Boolean expressions:
   operations.op._op (simplify, then construct), Base.__new__ (eager concrete folding through the
   translated backend_concrete/bv.py), simplifications.py, ast/bool.py:If.
   Open recursion: every simplifier takes the constructor [mk] of the previous fuel level.
   [Err Unmodelled] marks code paths this model does not cover (listed in DESIGN.md); the
   soundness theorem only speaks about [Ok] results.  No proofs here. *)
From Coq Require Import ZArith List Bool.
Require Import CV.Model.PyPrelude CV.Spec.BV CV.Gen.BvConcrete CV.Model.Ast.
Import ListNotations.
Open Scope Z_scope.

Definition mkfun := opk -> list Z -> list expr -> res expr.

Definition unmodelled {A} : res A := Err Unmodelled.

(* claripy.BVV(value, size): the value is masked *)
Definition cbvv (v w : Z) : expr := BVVe (v mod 2 ^ w) w.

Definition is_true (e : expr) : bool := match e with BoolVe true => true | _ => false end.
Definition is_false (e : expr) : bool := match e with BoolVe false => true | _ => false end.

(* ---- lengths (operations.*_length_calc) ---- *)
Definition calc_len (op : opk) (ints : list Z) (args : list expr) : Z :=
  match op, ints, args with
  | OConcat, _, _ => fold_right (fun a s => elen a + s) 0 args
  | OExtract, [hi; lo], _ => hi + 1 - lo
  | (OZeroExt | OSignExt), [n], [a] => elen a + n
  | (OEq | ONe | OULT | OULE | OUGT | OUGE | OSLT | OSLE | OSGT | OSGE | OBAnd | OBOr | OBNot), _, _ => -1
  | OIf, _, [_; t; _] => elen t
  | _, _, a :: _ => elen a
  | _, _, [] => -1
  end.

(* ---- eager concrete folding (Base.__new__ -> backends.concrete.call -> _abstract) ---- *)
Definition to_bvv (e : expr) : option bvv := match e with BVVe v w => Some (mkbvv v w) | _ => None end.
Definition of_bvv (r : res bvv) : res expr := do x <- r; Ok (BVVe (bvalue x) (bbits x)).
Definition of_bool (r : res bool) : res expr := do x <- r; Ok (BoolVe x).

Fixpoint all_bvv (l : list expr) : option (list bvv) :=
  match l with
  | [] => Some []
  | e :: r => match to_bvv e, all_bvv r with Some x, Some xs => Some (x :: xs) | _, _ => None end
  end.
Fixpoint all_boolv (l : list expr) : option (list bool) :=
  match l with
  | [] => Some []
  | BoolVe b :: r => match all_boolv r with Some xs => Some (b :: xs) | None => None end
  | _ :: _ => None
  end.

Definition reduce_bvv (f : bvv -> bvv -> res bvv) (l : list bvv) : res bvv :=
  match l with
  | [] => Crash PyType          (* reduce() of empty sequence *)
  | x :: r => foldM f r x
  end.

Definition fold_concrete (op : opk) (ints : list Z) (args : list expr) : res expr :=
  match all_bvv args with
  | Some bs =>
      match op, ints, bs with
      | OAdd, [], _ => of_bvv (reduce_bvv bvv___add__ bs)
      | OMul, [], _ => of_bvv (reduce_bvv bvv___mul__ bs)
      | OAnd, [], _ => of_bvv (reduce_bvv bvv___and__ bs)
      | OOr, [], _ => of_bvv (reduce_bvv bvv___or__ bs)
      | OXor, [], _ => of_bvv (reduce_bvv bvv___xor__ bs)
      | OSub, [], _ => of_bvv (reduce_bvv bvv___sub__ bs)
      | OUDiv, [], [a; b] => of_bvv (bvv___floordiv__ a b)
      | OURem, [], [a; b] => of_bvv (bvv___mod__ a b)
      | OSDiv, [], [a; b] => of_bvv (bv_SDiv a b)
      | OSMod, [], [a; b] => of_bvv (bv_SMod a b)
      | OShl, [], [a; b] => of_bvv (bvv___lshift__ a b)
      | OAShr, [], [a; b] => of_bvv (bvv___rshift__ a b)
      | OLShr, [], [a; b] => of_bvv (bv_LShR a b)
      | ORotL, [], [a; b] => of_bvv (bv_RotateLeft a b)
      | ORotR, [], [a; b] => of_bvv (bv_RotateRight a b)
      | ONeg, [], [a] => of_bvv (bvv___neg__ a)
      | OInvert, [], [a] => of_bvv (bvv___invert__ a)
      | OReverse, [], [a] => unmodelled   (* byte reversal: folded by bv_Reverse; not yet covered by a proof *)
      | OConcat, [], _ => of_bvv (bv_Concat bs)
      | OExtract, [hi; lo], [a] => of_bvv (bv_Extract hi lo a)
      | OZeroExt, [n], [a] => of_bvv (bv_ZeroExt n a)
      | OSignExt, [n], [a] => of_bvv (bv_SignExt n a)
      | OEq, [], [a; b] => of_bool (bvv___eq__ a b)
      | ONe, [], [a; b] => of_bool (bvv___ne__ a b)
      | OULT, [], [a; b] => of_bool (bv_ULT a b)
      | OULE, [], [a; b] => of_bool (bv_ULE a b)
      | OUGT, [], [a; b] => of_bool (bv_UGT a b)
      | OUGE, [], [a; b] => of_bool (bv_UGE a b)
      | OSLT, [], [a; b] => of_bool (bv_SLT a b)
      | OSLE, [], [a; b] => of_bool (bv_SLE a b)
      | OSGT, [], [a; b] => of_bool (bv_SGT a b)
      | OSGE, [], [a; b] => of_bool (bv_SGE a b)
      | _, _, _ => unmodelled
      end
  | None =>
      match op, ints, args with
      | OBAnd, [], _ => match all_boolv args with
                        | Some (b :: bs) => Ok (BoolVe (fold_left andb bs b)) | _ => unmodelled end
      | OBOr, [], _ => match all_boolv args with
                       | Some (b :: bs) => Ok (BoolVe (fold_left orb bs b)) | _ => unmodelled end
      | OBNot, [], [BoolVe b] => Ok (BoolVe (negb b))
      | OEq, [], [BoolVe a; BoolVe b] => Ok (BoolVe (Bool.eqb a b))
      | ONe, [], [BoolVe a; BoolVe b] => Ok (BoolVe (negb (Bool.eqb a b)))
      | OIf, [], [BoolVe c; t; f] =>
          match t, f with
          | BVVe _ _, BVVe _ _ | BoolVe _, BoolVe _ => Ok (if c then t else f)
          | _, _ => unmodelled
          end
      | _, _, _ => unmodelled
      end
  end.

(* Base.__new__ as reached from _op / make_like(simplify=False) *)
Definition construct (op : opk) (ints : list Z) (args : list expr) : res expr :=
  if existsb symbolic args then Ok (Node op ints args (calc_len op ints args))
  else fold_concrete op ints args.

(* ---- list helpers ---- *)
Fixpoint mem_expr (x : expr) (l : list expr) : bool :=
  match l with [] => false | y :: r => expr_eqb x y || mem_expr x r end.
Fixpoint dedup_aux (seen : list expr) (l : list expr) : list expr :=
  match l with
  | [] => []
  | x :: r => if mem_expr x seen then dedup_aux seen r else x :: dedup_aux (x :: seen) r
  end.
Definition dedup (l : list expr) : list expr := dedup_aux [] l.
Definition count_expr (x : expr) (l : list expr) : nat := length (filter (expr_eqb x) l).
(* xor: drop every argument occurring an even number of times, keep first occurrences of the others *)
Definition xor_filter (l : list expr) : list expr :=
  dedup (filter (fun x => Nat.odd (count_expr x l)) l).
Definition add_filter (l : list expr) : list expr :=
  filter (fun a => negb (match a with BVVe v _ => v =? 0 | _ => false end)) l.

Definition nth_e (l : list expr) (n : nat) : res expr :=
  match nth_error l n with Some e => Ok e | None => Crash PyType end.
Definition last_e (l : list expr) : res expr :=
  match rev l with e :: _ => Ok e | [] => Crash PyType end.

Fixpoint list_eqb (a b : list expr) : bool :=
  match a, b with
  | [], [] => true
  | x :: r, y :: s => expr_eqb x y && list_eqb r s
  | _, _ => false
  end.

(* the three filter functions passed to _flatten_simplifier.  The xor filter (drop arguments that
   occur an even number of times) is modelled only where it changes nothing. *)
Inductive filt := FNone | FDedup | FAdd | FXor.
Definition apply_filt (f : filt) (l : list expr) : res (list expr) :=
  match f with
  | FNone => Ok l
  | FDedup => Ok (dedup l)
  | FAdd => Ok (add_filter l)
  | FXor => if list_eqb (xor_filter l) l then Ok l else unmodelled
  end.

(* _flatten_simplifier (annotation check omitted: this model carries no annotations) *)
Definition flatten (op : opk) (filt : filt) (args : list expr)
           (initial : option expr) : res (option expr) :=
  let new_args := flat_map (fun a => if is_op op a && (Z.of_nat (length (args_of a)) <? 1000)
                                     then args_of a else [a]) args in
  let value_args := filter is_bvv new_args in
  let other_args := filter (fun a => negb (is_bvv a)) new_args in
  do new_args <- (match other_args, value_args with
                  | _ :: _, _ :: _ :: _ =>
                      do va <- construct op [] value_args; Ok (other_args ++ [va])
                  | _, _ => Ok new_args
                  end);
  do new_args <- apply_filt filt new_args;
  match new_args, initial with
  | [], Some i => Ok (Some i)
  | [x], _ => Ok (Some x)
  | _, _ => do r <- construct op [] new_args; Ok (Some r)
  end.

(* rule chaining: the first rule that returns a result wins (a sequence of `if ...: return` in the code) *)
Definition orelse (r : res (option expr)) (k : res (option expr)) : res (option expr) :=
  do x <- r; match x with Some _ => Ok x | None => k end.
Notation "r <|> k" := (orelse r k) (at level 60, right associativity).
Definition ret (r : res expr) : res (option expr) := do x <- r; Ok (Some x).
Definition done (e : expr) : res (option expr) := Ok (Some e).
Definition skip : res (option expr) := Ok None.
Definition when (c : bool) (k : res (option expr)) : res (option expr) := if c then k else skip.

Section Simplifiers.
Variable mk : mkfun.

(* x == <python int k>: the int is coerced to BVV(k, x.length) *)
Definition eq_int (x : expr) (k : Z) : res expr := mk OEq [] [x; cbvv k (elen x)].
Definition ne_int (x : expr) (k : Z) : res expr := mk ONe [] [x; cbvv k (elen x)].
Definition ugt_int (x : expr) (k : Z) : res expr := mk OUGT [] [x; cbvv k (elen x)].
Definition mk_not (e : expr) : res expr := mk OBNot [] [e].
(* (e).is_true() of a freshly built comparison *)
Definition test (r : res expr) (k : res (option expr)) : res (option expr) :=
  do c <- r; if is_true c then k else skip.

(* rshift_simplifier and lshr_simplifier (identical bodies) *)
Definition simp_rshift (val shift : expr) : res (option expr) :=
  test (eq_int shift 0) (done val)
  <|> match val with
      | Node OConcat [] (a0 :: _) _ =>
          (* Concat(0, x) >> s -> 0 when s exceeds the width of x: not yet covered by a proof *)
          test (eq_int a0 0) (test (ugt_int shift (elen val - elen a0)) unmodelled)
      | _ => skip
      end
  <|> match val with
      | Node OZeroExt [n] _ _ => test (ugt_int shift (elen val - n)) unmodelled
      | _ => skip
      end.

Definition simp_lshift (val shift : expr) : res (option expr) :=
  test (eq_int shift 0) (done val)
  <|> match val with
      | Node OShl [] [real_val; BVVe i _] _ =>
          match shift with
          | BVVe s _ =>
              if elen val <=? i + s then done (cbvv 0 (elen val))
              else ret (mk OShl [] [real_val; cbvv (i + s) (elen real_val)])
          | _ => skip
          end
      | _ => skip
      end.

Definition simp_zeroext (n : Z) (e : expr) : res (option expr) :=
  if n =? 0 then done e else
  match e with
  | Node OZeroExt [m] [x] _ =>
      (* the nested ZeroExt is built and discarded by the code (a missing `return`) *)
      do _ <- mk OZeroExt [n + m] [x]; skip
  | _ => skip
  end.

Definition simp_signext (n : Z) (e : expr) : res (option expr) :=
  if n =? 0 then done e else skip.

Definition is_single_bit (v : Z) : bool := (0 <? v) && (Z.land v (v - 1) =? 0).

(* the three "comparing against a constant" helpers and the bit-by-bit loop are not modelled:
   [Err Unmodelled] whenever their head pattern matches *)
Definition and_mask_trigger (a b : expr) : bool :=
  match a, b with
  | Node OAnd [] [_; BVVe _ _] _, BVVe _ _ => true
  | _, _ => false
  end.
Definition zeroext_extract_trigger (a : expr) : bool :=
  match a with
  | Node OExtract [_; 0] [Node OConcat [] [_; _] _] _ => true
  | Node OExtract [_; 0] [Node OZeroExt _ _ _] _ => true
  | _ => false
  end.
Definition zeroext_cmp_trigger (a b : expr) : bool :=
  match b with
  | BVVe _ _ => match a with
                | Node OZeroExt _ _ _ => true
                | Node OConcat [] [BVVe 0 _; _] _ => true
                | _ => false
                end
  | _ => false
  end.
Definition is_simple_op (e : expr) : bool := is_op OConcat e || is_op OSignExt e || is_op OZeroExt e.
Definition guard_unmodelled (c : bool) : res (option expr) := if c then unmodelled else skip.

(* the rules shared by eq and ne for (x ^ c) == 0 shapes; [same] builds the comparison with the
   same polarity as the one being simplified, [opp] the opposite one *)
Definition xor_zero_rules (same opp : expr -> Z -> res expr) (a b : expr) : res (option expr) :=
  match a, b with
  | Node OXor [] [a0; a1] _, BVVe 0 _ =>
      (match a1 with BVVe 1 _ => ret (same a0 1) | _ => skip end)
      <|> (match a0 with BVVe 1 _ => ret (same a1 1) | _ => skip end)
      <|> (match a1, a0 with
           | BVVe m _, Node OAnd [] [_; BVVe m' _] _ =>
               when ((m' =? m) && is_single_bit m) (ret (opp a0 0))
           | _, _ => skip
           end)
      <|> (match a1, a0 with
           | BVVe m _, Node OAnd [] [(BVVe m' _) as c; e1] _ =>
               when ((m' =? m) && is_single_bit m) (do x <- mk OAnd [] [e1; c]; ret (opp x 0))
           | _, _ => skip
           end)
  | _, _ => skip
  end.

Definition simp_eq (a b : expr) : res (option expr) :=
  when (expr_eqb a b) (done (BoolVe true))
  <|> when (is_bool a && expr_eqb b (BoolVe true)) (done a)
  <|> when (is_bool b && expr_eqb a (BoolVe true)) (done b)
  <|> when (is_bool a && expr_eqb b (BoolVe false)) (ret (mk_not a))
  <|> when (is_bool b && expr_eqb a (BoolVe false)) (ret (mk_not b))
  <|> guard_unmodelled (is_op OReverse a && is_op OReverse b)   (* Reverse(x) == Reverse(y) -> x == y *)
  <|> when (is_bvv a && negb (is_bvv b)) (ret (mk OEq [] [b; a]))
  <|> match a, b with
      | Node OSub [] [x; (BVVe _ _) as c1] _, BVVe _ _ =>
          (* expr - c1 == c2 -> expr == c1 + c2 *)
          do s <- mk OAdd [] [c1; b]; ret (mk OEq [] [x; s])
      | _, _ => skip
      end
  <|> xor_zero_rules eq_int ne_int a b
  <|> match a with
      | Node OIf [] [c; t; f] _ =>
          when (expr_eqb t b) (test (mk ONe [] [f; b]) (done c))
          <|> when (expr_eqb f b) (test (mk ONe [] [t; b]) (ret (mk_not c)))
      | _ => skip
      end
  <|> match b with
      | Node OIf [] [c; t; f] _ =>
          guard_unmodelled (expr_eqb t a)     (* this rule compares a branch with the If itself *)
          <|> when (expr_eqb f a) (test (mk ONe [] [t; a]) (ret (mk_not c)))
      | _ => skip
      end
  <|> guard_unmodelled (and_mask_trigger a b || zeroext_extract_trigger a || zeroext_cmp_trigger a b
                        || ((is_simple_op a || is_simple_op b) && (1 <? elen a) && (elen a =? elen b))).

Definition simp_ne (a b : expr) : res (option expr) :=
  when (expr_eqb a b) (done (BoolVe false))
  <|> guard_unmodelled (is_op OReverse a && is_op OReverse b)
  <|> when (is_bvv a && negb (is_bvv b)) (ret (mk ONe [] [b; a]))
  <|> match a with
      | Node OIf [] [c; t; f] _ =>
          when (expr_eqb f b) (test (mk ONe [] [t; b]) (done c))
          <|> when (expr_eqb t b) (test (mk ONe [] [f; b]) (ret (mk_not c)))
      | _ => skip
      end
  <|> match b with
      | Node OIf [] [c; t; f] _ =>
          when (expr_eqb f a) (test (mk ONe [] [t; a]) (done c))
          <|> when (expr_eqb t a) (test (mk ONe [] [f; a]) (ret (mk_not c)))
      | _ => skip
      end
  <|> xor_zero_rules ne_int eq_int a b
  <|> guard_unmodelled (and_mask_trigger a b || zeroext_extract_trigger a || zeroext_cmp_trigger a b
                        || (is_simple_op b && (1 <? elen a) && (elen a =? elen b))).

Definition simp_uge (a b : expr) : res (option expr) :=
  guard_unmodelled (zeroext_cmp_trigger a b).

Definition simp_not (body : expr) : res (option expr) :=
  match body with
  | Node OEq [] [x; y] _ => ret (mk ONe [] [x; y])
  | Node ONe [] [x; y] _ => ret (mk OEq [] [x; y])
  | Node OBNot [] [x] _ => done x
  | Node OSLT [] [x; y] _ => ret (mk OSGE [] [x; y])
  | Node OSLE [] [x; y] _ => ret (mk OSGT [] [x; y])
  | Node OSGT [] [x; y] _ => ret (mk OSLE [] [x; y])
  | Node OSGE [] [x; y] _ => ret (mk OSLT [] [x; y])
  | Node OULT [] [x; y] _ => ret (mk OUGE [] [x; y])
  | Node OULE [] [x; y] _ => ret (mk OUGT [] [x; y])
  | Node OUGT [] [x; y] _ => ret (mk OULE [] [x; y])
  | Node OUGE [] [x; y] _ => ret (mk OULT [] [x; y])
  | _ => skip
  end.

Definition simp_add (args : list expr) : res (option expr) :=
  match args with
  | [Node OSub [] [x; (BVVe _ _) as y] _; (BVVe _ _) as z] =>
      (* (x - y) + z ==> x - (y - z) *)
      do d <- mk OSub [] [y; z]; ret (mk OSub [] [x; d])
  | a0 :: _ => flatten OAdd FAdd args (Some (cbvv 0 (elen a0)))
  | [] => Crash PyType
  end.

Definition simp_mul (args : list expr) : res (option expr) := flatten OMul FNone args None.

Definition simp_sub (a b : expr) : res (option expr) :=
  match b with
  | BVVe bv _ =>
      if bv =? 0 then done a else
      match a with
      | Node OSub [] [x; (BVVe _ _) as y] _ =>
          (* (x - y) - z ==> x - (y + z) *)
          do s <- mk OAdd [] [y; b]; ret (mk OSub [] [x; s])
      | Node OAdd [] aargs _ =>
          match rev aargs with
          | ((BVVe _ _) as lastc) :: rest_rev =>
              (* (x + y) - z ==> x + (y - z) *)
              do d <- mk OSub [] [lastc; b];
              match aargs with
              | [x; _] => ret (mk OAdd [] [x; d])
              | _ => unmodelled   (* (x + y + c) - z, rebuilt through make_like without simplification: not yet covered by a proof *)
              end
          | _ => skip
          end
      | _ => skip
      end
  | _ =>
      when (expr_eqb a b) (done (cbvv 0 (elen a)))
      <|> test (mk OEq [] [a; b]) (done (cbvv 0 (elen a)))
  end.

(* head of the min/max idiom recogniser: it can only fire if one operand is an __and__ *)
Definition minmax_trigger (a b : expr) : bool := is_op OAnd a || is_op OAnd b.

Definition simp_xor (args : list expr) : res (option expr) :=
  match args with
  | [a; b] =>
      let z := cbvv 0 (elen a) in
      when (expr_eqb a z) (done b)
      <|> when (expr_eqb b z) (done a)
      <|> when (expr_eqb a b) (done z)
      <|> test (mk OEq [] [a; b]) (done z)
      <|> guard_unmodelled (minmax_trigger a b)
      <|> flatten OXor FXor args (Some z)
  | a :: _ => flatten OXor FXor args (Some (cbvv 0 (elen a)))
  | [] => Crash PyType
  end.

Definition same_leaf_kind (a b : expr) : bool :=
  match a, b with BVVe _ _, BVVe _ _ | BoolVe _, BoolVe _ => true | _, _ => false end.

(* `if a.op == b.op and a.op in {BVV,...}: if a.args == b.args and (a == b).is_true(): return a
    elif (a == b).is_true(): return a` *)
Definition same_value_rule (a b : expr) : res (option expr) :=
  if same_leaf_kind a b then when (expr_eqb a b) (test (mk OEq [] [a; b]) (done a))
  else test (mk OEq [] [a; b]) (done a).

Definition simp_or (args : list expr) : res (option expr) :=
  match args with
  | [a; b] =>
      let z := cbvv 0 (elen a) in
      when (expr_eqb a z) (done b)
      <|> when (expr_eqb b z) (done a)
      <|> same_value_rule a b
      <|> when (expr_eqb a b) (done a)
      <|> flatten OOr FDedup args None
  | _ => flatten OOr FDedup args None
  end.

(* head of rotate_shift_mask_simplifier *)
Definition rotate_mask_trigger (a b : expr) : bool :=
  match a, b with
  | Node OOr [] [Node OShl _ _ _; Node OLShr _ _ _] _, BVVe _ _ => true
  | _, _ => false
  end.
Definition is_allones (e : expr) : bool := match e with BVVe v w => v =? 2 ^ w - 1 | _ => false end.
Definition is_zero_bvv (e : expr) : bool := match e with BVVe 0 _ => true | _ => false end.

Definition simp_and (args : list expr) : res (option expr) :=
  match args with
  | [a; b] =>
      guard_unmodelled (rotate_mask_trigger a b)
      <|> when (is_allones a) (done b)
      <|> when (is_allones b) (done a)
      <|> when (expr_eqb a b) (done a)
      <|> same_value_rule a b
      <|> when (is_zero_bvv a || is_zero_bvv b) (done (cbvv 0 (elen a)))
      <|> guard_unmodelled ((match a with Node OConcat [] [_; _] _ => true | _ => false end)
                            || (is_op OIf a && is_op OIf b))
      <|> flatten OAnd FDedup args None
  | _ => flatten OAnd FDedup args None
  end.

Definition simp_invert (e : expr) : res (option expr) :=
  match e with
  | Node OIf [] [c; (BVVe 1 _) as t; (BVVe 0 _) as f] 1 =>
      do nc <- mk_not c; ret (mk OIf [] [nc; t; f])
  | _ => skip
  end.

(* boolean_or_simplifier *)
Definition is_boolv (e : expr) : bool := match e with BoolVe _ => true | _ => false end.
Definition simp_bor (args : list expr) : res (option expr) :=
  if existsb (fun a => expr_eqb a (BoolVe true)) args then done (BoolVe true) else
  if existsb is_boolv args then
    match filter (fun a => negb (is_boolv a)) args with
    | [x] => done x
    | [] => done (BoolVe false)
    | na => ret (mk OBOr [] na)
    end
  else flatten OBOr FDedup args None.

(* boolean_and_simplifier: the constant-elimination prefix and the flattening; the "series of binary
   conditions over one variable" tail is not modelled *)
Definition simp_band (args : list expr) : res (option expr) :=
  if existsb (fun a => expr_eqb a (BoolVe false)) args then done (BoolVe false) else
  let args' := filter (fun a => negb (is_boolv a)) args in
  match args' with
  | [x] => done x
  | [] => done (BoolVe true)
  | _ =>
    (match args' with
     | [Node OEq [] [x; BVVe v1 _] _; Node OEq [] [y; BVVe v2 _] _] =>
         when (expr_eqb x y && negb (v1 =? v2)) (done (BoolVe false))
     | _ => skip
     end)
    <|> (match args' with
         | [Node OUGE [] [x; y] _; Node ONe [] [x'; y'] _] =>
             when (expr_eqb x x' && expr_eqb y y') (ret (mk OUGT [] [x; y]))
         | _ => skip
         end)
    <|> (do f <- flatten OBAnd FDedup args' None;
         match f with
         | None => skip
         | Some fl =>
             if negb (is_op OBAnd fl) then done fl else
             match args_of fl with
             | [x] => done x
             | fargs =>
                 if existsb (fun a => negb (Nat.eqb (length (args_of a) + length (ints_of a)) 2)) fargs
                 then done fl
                 else unmodelled
             end
         end)
  end.

(* ast/bool.py: If(cond, t, f) on already-coerced arguments *)
Definition simp_if (c t f : expr) : res (option expr) :=
  when (is_true c) (done t)
  <|> when (is_false c) (done f)
  <|> match t with
      | Node OIf [] [c'; t1; f1] _ =>
          when (expr_eqb c' c) (ret (mk OIf [] [c; t1; f]))
          <|> (do nc <- mk_not c; when (expr_eqb c' nc) (ret (mk OIf [] [c; f1; f])))
      | _ => skip
      end
  <|> match f with
      | Node OIf [] [c'; t2; f2] _ =>
          when (expr_eqb c' c) (ret (mk OIf [] [c; t; f2]))
          <|> (do nc <- mk_not c; when (expr_eqb c' nc) (ret (mk OIf [] [c; t; t2])))
      | _ => skip
      end
  <|> when (expr_eqb t f) (done t)
  <|> when (expr_eqb t (BoolVe true) && expr_eqb f (BoolVe false)) (done c)
  <|> when (expr_eqb t (BoolVe false) && expr_eqb f (BoolVe true)) (ret (mk_not c)).

Definition simplify (op : opk) (ints : list Z) (args : list expr) : res (option expr) :=
  match op, ints, args with
  | OShl, [], [a; b] => simp_lshift a b
  | OAShr, [], [a; b] => simp_rshift a b
  | OLShr, [], [a; b] => simp_rshift a b
  | OEq, [], [a; b] => simp_eq a b
  | ONe, [], [a; b] => simp_ne a b
  | OUGE, [], [a; b] => simp_uge a b
  | OBNot, [], [a] => simp_not a
  | OAdd, [], _ => simp_add args
  | OMul, [], _ => simp_mul args
  | OSub, [], [a; b] => simp_sub a b
  | OXor, [], _ => simp_xor args
  | OOr, [], _ => simp_or args
  | OAnd, [], _ => simp_and args
  | OInvert, [], [a] => simp_invert a
  | OZeroExt, [n], [a] => simp_zeroext n a
  | OSignExt, [n], [a] => simp_signext n a
  | OBOr, [], _ => simp_bor args
  | OBAnd, [], _ => simp_band args
  | OIf, [], [c; t; f] => simp_if c t f
  | (OExtract | OConcat | OReverse), _, _ => unmodelled
  | _, _, _ => skip
  end.

End Simplifiers.

(* operations.op._op after type fixing: simplify, else construct.  (ast/bool.py:If has the same shape:
   its shortcuts, else the plain node.) *)
Fixpoint mk (fuel : nat) (op : opk) (ints : list Z) (args : list expr) : res expr :=
  match fuel with
  | O => OutOfFuel
  | S f =>
      do s <- simplify (mk f) op ints args;
      match s with
      | Some r => Ok r
      | None => construct op ints args
      end
  end.
