(* Mini-language for the Z3 GC guard (C19) and its small-step thread semantics.
   No proofs here: this file is extracted and executed by the driver. *)
From Coq Require Import ZArith List Bool.
Import ListNotations.
Open Scope Z_scope.

Inductive cond := CallsEq0 | CallsNe0 | CallsGt0 | CallsLe0 | Was | NotWas | GcOn | GcOff.

Inductive instr :=
| Acquire | Release
| Jf (c : cond) (l : nat)      (* continue at pc+1 if c holds, else jump to l *)
| Jmp (l : nat)
| SetWasFromGc | SetWas (b : bool)
| GcDisable | GcEnable
| AddCalls (k : Z) | SetCalls (k : Z)
| Log
| Ret.

Record shared := mkShared { lock : option nat; calls : Z; was : bool; gc_on : bool }.

Definition evalc (c : cond) (s : shared) : bool :=
  match c with
  | CallsEq0 => calls s =? 0
  | CallsNe0 => negb (calls s =? 0)
  | CallsGt0 => 0 <? calls s
  | CallsLe0 => calls s <=? 0
  | Was => was s
  | NotWas => negb (was s)
  | GcOn => gc_on s
  | GcOff => negb (gc_on s)
  end.

(* result of executing one instruction of thread [i] at [pc] *)
Inductive iresult := Next (pc : nat) (s : shared) | Returned (s : shared) | Blocked | Stuck.

Definition exec (prog : list instr) (i : nat) (pc : nat) (s : shared) : iresult :=
  match nth_error prog pc with
  | None => Stuck
  | Some ins =>
    match ins with
    | Acquire => match lock s with
                 | None => Next (S pc) (mkShared (Some i) (calls s) (was s) (gc_on s))
                 | Some _ => Blocked
                 end
    | Release => Next (S pc) (mkShared None (calls s) (was s) (gc_on s))
    | Jf c l => if evalc c s then Next (S pc) s else Next l s
    | Jmp l => Next l s
    | SetWasFromGc => Next (S pc) (mkShared (lock s) (calls s) (gc_on s) (gc_on s))
    | SetWas b => Next (S pc) (mkShared (lock s) (calls s) b (gc_on s))
    | GcDisable => Next (S pc) (mkShared (lock s) (calls s) (was s) false)
    | GcEnable => Next (S pc) (mkShared (lock s) (calls s) (was s) true)
    | AddCalls k => Next (S pc) (mkShared (lock s) (calls s + k) (was s) (gc_on s))
    | SetCalls k => Next (S pc) (mkShared (lock s) k (was s) (gc_on s))
    | Log => Next (S pc) s
    | Ret => Returned s
    end
  end.

(* A thread runs any well-nested sequence of condom-wrapped calls.
   [depth] = number of condom frames currently open (including the one whose
   _enter_z3/_exit_z3 is executing). *)
Inductive mode := Idle | InEnter (pc : nat) | InBody | InExit (pc : nat).
Record thread := mkThread { md : mode; depth : nat }.

(* what the scheduler asks thread i to do *)
Inductive choice :=
| ChStep      (* execute the next instruction of _enter_z3/_exit_z3 *)
| ChCall      (* Idle or InBody: start a (nested) wrapped call *)
| ChFinish    (* InBody: the wrapped function returns or raises: run the finally block *)
| ChRaise.    (* InBody: the wrapped function raises; only differs from ChFinish when _exit_z3 is not in finally *)

Section Sem.
Variable enter_prog exit_prog : list instr.
Variable exit_in_finally : bool.

Definition tstep (c : choice) (i : nat) (t : thread) (s : shared) : option (thread * shared) :=
  match md t, c with
  | Idle, ChCall => Some (mkThread (InEnter 0) 1, s)
  | InBody, ChCall => Some (mkThread (InEnter 0) (S (depth t)), s)
  | InBody, ChFinish => Some (mkThread (InExit 0) (depth t), s)
  | InBody, ChRaise =>
      if exit_in_finally then Some (mkThread (InExit 0) (depth t), s)
      else let d := pred (depth t) in
           Some (mkThread (match d with O => Idle | _ => InBody end) d, s)
  | InEnter pc, ChStep =>
      match exec enter_prog i pc s with
      | Next pc' s' => Some (mkThread (InEnter pc') (depth t), s')
      | Returned s' => Some (mkThread InBody (depth t), s')
      | Blocked | Stuck => None
      end
  | InExit pc, ChStep =>
      match exec exit_prog i pc s with
      | Next pc' s' => Some (mkThread (InExit pc') (depth t), s')
      | Returned s' =>
          let d := pred (depth t) in
          Some (mkThread (match d with O => Idle | _ => InBody end) d, s')
      | Blocked | Stuck => None
      end
  | _, _ => None
  end.

Record state := mkState { sh : shared; thr : list thread }.

Fixpoint upd {A} (l : list A) (i : nat) (x : A) : list A :=
  match l, i with
  | [], _ => []
  | _ :: r, O => x :: r
  | y :: r, S j => y :: upd r j x
  end.

Definition step (i : nat) (c : choice) (st : state) : option state :=
  match nth_error (thr st) i with
  | None => None
  | Some t => match tstep c i t (sh st) with
              | None => None
              | Some (t', s') => Some (mkState s' (upd (thr st) i t'))
              end
  end.

(* run a schedule; steps that are not enabled are skipped (so every list is a schedule) *)
Fixpoint run (sched : list (nat * choice)) (st : state) : state :=
  match sched with
  | [] => st
  | (i, c) :: r => match step i c st with
                   | Some st' => run r st'
                   | None => run r st
                   end
  end.

Definition init (gc0 : bool) (n : nat) : state :=
  mkState (mkShared None 0 false gc0) (repeat (mkThread Idle 0) n).

(* observations the property speaks about *)
Definition inprog (t : thread) : nat :=
  match md t with
  | Idle => 0
  | InBody => depth t
  | InEnter _ | InExit _ => pred (depth t)
  end.
Fixpoint total_inprog (l : list thread) : nat :=
  match l with [] => 0 | t :: r => inprog t + total_inprog r end%nat.
Definition all_idle (l : list thread) : bool :=
  forallb (fun t => match md t with Idle => true | _ => false end) l.

(* the property, as a boolean on one state (used by the search and stated by the theorem) *)
Definition good (gc0 : bool) (st : state) : bool :=
  (0 <=? calls (sh st))
  && (if (0 <? total_inprog (thr st))%nat then negb (gc_on (sh st)) else true)
  && (if all_idle (thr st) then Bool.eqb (gc_on (sh st)) gc0 else true).

End Sem.
