(* Executable forms of the Spec/BV.v operators whose definitions compute 2^amount for an amount as
   large as the operand's value (shifts).  Proofs/BVExecProof.v shows they are the Spec operators on
   well-formed operands; Model/Ast.v evaluates with these so that the extracted evaluator terminates
   quickly on shift amounts near 2^64. *)
From Coq Require Import ZArith Bool.
Require Import CV.Spec.BV.
Open Scope Z_scope.

Definition bvshl_x w a b := if w <=? b then 0 else bvshl w a b.
Definition bvlshr_x (w a b : Z) := if w <=? b then 0 else bvlshr w a b.
Definition bvashr_x w a b := if w <=? b then (if msb w a then 2 ^ w - 1 else 0) else bvashr w a b.
