(* The unsigned comparisons of StridedInterval: _ssplit, _unsigned_bounds, ULT / ULE / UGT / UGE.

   Hand-written from claripy/backends/backend_vsa/strided_interval.py.  An interval that wraps around
   2^bits is split at the south pole into [lb, last member below 2^bits] and [first member from 0, ub];
   both halves go through the constructor (SI.mk, i.e. normalize).  The comparison is decided on every pair
   of (lower, upper) bounds and is TrueResult / FalseResult only if every pair agrees.

   Not modelled: operands of different widths (normalize_types' extension), empty intervals: Err Unmodelled. *)
From Coq Require Import ZArith List Bool.
Import ListNotations.
Require Import CV.Model.PyPrelude CV.Gen.SIHelpers CV.Model.SI.
Open Scope Z_scope.

Inductive tri := TT | TF | TM.

Definition is_tt (t : tri) : bool := match t with TT => true | _ => false end.
Definition is_tf (t : tri) : bool := match t with TF => true | _ => false end.

(* StridedInterval._ssplit *)
Definition ssplit (a : si) : res (list si) :=
  do m <- si_max_int (bits a);
  if ub a <? lb a then
    do r <- py_mod (m - lb a) (stride a);
    let au := m - r in
    do A <- mk (bits a) (stride a) (lb a) au;
    do bl <- si_modular_add au (stride a) (bits a);
    do B <- mk (bits a) (stride a) bl (ub a);
    Ok [A; B]
  else Ok [a].

(* StridedInterval._unsigned_bounds: the (lower, upper) pair of every piece; the piece beyond the south pole is left out
   when it begins after its upper bound (it holds no member) *)
Definition bnd (s : si) : Z * Z := (lb s, ub s).
Definition unsigned_bounds (a : si) : res (list (Z * Z)) :=
  do l <- ssplit a;
  Ok (match l with
      | [p1; p2] => if ub p2 <? lb p2 then [bnd p1] else [bnd p1; bnd p2]
      | _ => map bnd l
      end).

(* the double loop and the two all(...) tests shared by the four comparisons:
   [t l1 u1 l2 u2] is the test that appends TrueResult, [f ...] the one that appends FalseResult *)
Definition decide (t f : Z -> Z -> Z -> Z -> bool) (b1 b2 : list (Z * Z)) : tri :=
  let rs := flat_map (fun p1 => map (fun p2 =>
              if t (fst p1) (snd p1) (fst p2) (snd p2) then TT
              else if f (fst p1) (snd p1) (fst p2) (snd p2) then TF else TM) b2) b1 in
  if forallb is_tt rs then TT else if forallb is_tf rs then TF else TM.

Definition cmp_with (t f : Z -> Z -> Z -> Z -> bool) (a b : si) : res tri :=
  if bot a || bot b then Err Unmodelled else
  if negb (bits a =? bits b) then Err Unmodelled else
  do b1 <- unsigned_bounds a;
  do b2 <- unsigned_bounds b;
  Ok (decide t f b1 b2).

Definition t_lt (l1 u1 l2 u2 : Z) : bool := u1 <? l2.     (* ub_1 <  lb_2 *)
Definition t_le (l1 u1 l2 u2 : Z) : bool := u1 <=? l2.    (* ub_1 <= lb_2 *)
Definition t_gt (l1 u1 l2 u2 : Z) : bool := u2 <? l1.     (* lb_1 >  ub_2 *)
Definition t_ge (l1 u1 l2 u2 : Z) : bool := u2 <=? l1.    (* lb_1 >= ub_2 *)

Definition si_ult := cmp_with t_lt t_ge.
Definition si_ule := cmp_with t_le t_gt.
Definition si_ugt := cmp_with t_gt t_le.
Definition si_uge := cmp_with t_ge t_lt.

(* ---------------- signed comparisons ---------------- *)

(* StridedInterval._nsplit: split at the north pole (between 2^(bits-1) - 1 and 2^(bits-1)) *)
Definition nsplit (a : si) : res (list si) :=
  do npl <- si_max_int (bits a - 1);
  do npr <- py_pow 2 (bits a - 1);
  let straddling :=
    if npr <=? ub a then (if ub a <? lb a then true else lb a <=? npl)
    else (ub a <? lb a) && (lb a <=? npl) in
  if straddling then
    do r <- py_mod (npl - lb a) (stride a);
    let au := npl - r in
    do A <- mk (bits a) (stride a) (lb a) au;
    do B <- mk (bits a) (stride a) (au + stride a) (ub a);
    Ok [A; B]
  else Ok [a].

(* StridedInterval._signed_bounds: split at the south pole, then every piece at the north pole; a piece that
   begins beyond its upper bound, or a half whose signed lower bound is above its signed upper bound, holds no member and
   is skipped *)
Fixpoint half_bounds (w : Z) (hs : list si) : res (list (Z * Z)) :=
  match hs with
  | [] => Ok []
  | h :: rest =>
    do l <- si_unsigned_to_signed (lb h) w;
    do u <- si_unsigned_to_signed (ub h) w;
    if u <? l then half_bounds w rest else
    do bs <- half_bounds w rest;
    Ok ((l, u) :: bs)
  end.

Fixpoint piece_bounds (a : si) (ps : list si) : res (list (Z * Z)) :=
  match ps with
  | [] => Ok []
  | p :: rest =>
    if ub p <? lb p then piece_bounds a rest else
    do hs <- nsplit p;
    do b <- half_bounds (bits a) hs;
    do bs <- piece_bounds a rest;
    Ok (b ++ bs)
  end.

Definition signed_bounds (a : si) : res (list (Z * Z)) :=
  do ps <- ssplit a; piece_bounds a ps.

Definition scmp_with (t f : Z -> Z -> Z -> Z -> bool) (a b : si) : res tri :=
  if bot a || bot b then Err Unmodelled else
  if negb (bits a =? bits b) then Err Unmodelled else
  do b1 <- signed_bounds a;
  do b2 <- signed_bounds b;
  Ok (decide t f b1 b2).

Definition si_slt := scmp_with t_lt t_ge.
Definition si_sle := scmp_with t_le t_gt.
Definition si_sgt := scmp_with t_gt t_le.
Definition si_sge := scmp_with t_ge t_lt.

(* the signed reading of an unsigned value *)
Definition sgn (w x : Z) : Z := if x <? 2 ^ (w - 1) then x else x - 2 ^ w.
