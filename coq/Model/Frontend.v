(* The constraint bookkeeping of the solver frontends (ConstrainedFrontend and the add-path mixins of
   claripy.Solver): add, branch, merge, combine, split.

   Hand-written from claripy/frontend/constrained_frontend.py (_add, merge, combine, split, _split_constraints),
   frontend/mixin/constraint_filter_mixin.py (_add) and constraint_deduplicator_mixin.py (_add).
   A frontend is its constraint list plus the set of constraints it has already seen (the union of
   _constraint_hashes and constraints_wo_annotations; hashes are structural identity).  Z3, the caches and
   simplify() are not part of this model.  Annotations are not modelled. *)
From Coq Require Import ZArith List Bool.
Import ListNotations.
Require Import CV.Model.PyPrelude CV.Model.Ast CV.Model.Build CV.Model.Rewrite.
Open Scope Z_scope.

Record fe := mkFe { cs : list expr; seen : list expr }.
Definition blank : fe := mkFe [] [].
(* branch(): a copy *)
Definition branch (s : fe) : fe := s.

Definition models (rho : env) (l : list expr) : bool := forallb (holds rho) l.

(* ConstraintFilterMixin._add: concrete True is dropped; if a concrete False is present it is moved to the end *)
Definition filter_new (new : list expr) : list expr :=
  if existsb is_false new then filter (fun c => negb (is_false c)) new ++ [BoolVe false]
  else filter (fun c => negb (is_true c)) new.

(* ConstraintDeduplicatorMixin._add + ConstrainedFrontend._add: a constraint seen before is not added again *)
Fixpoint add_each (s : fe) (l : list expr) : fe :=
  match l with
  | [] => s
  | c :: r => if mem_expr c (seen s) then add_each s r
              else add_each (mkFe (cs s ++ [c]) (c :: seen s)) r
  end.

Definition fe_add (s : fe) (new : list expr) : fe :=
  match new with [] => s | _ => add_each s (filter_new new) end.

Section WithMk.
Variable mkf : mkfun.

(* merge(others, merge_conditions): Or over And(condition_i, constraints of the i-th solver), added to a blank copy
   (zip: surplus solvers or conditions are ignored) *)
Definition fe_merge (s : fe) (others : list fe) (conds : list expr) : res fe :=
  do options <- sequence_res (map (fun vo => mkf OBAnd [] (fst vo :: cs (snd vo))) (combine conds (s :: others)));
  do m <- mkf OBOr [] options;
  Ok (fe_add blank [m]).

(* merge(..., common_ancestor=a): the ancestor's branch with Or(conditions) added *)
Definition fe_merge_anc (anc : fe) (conds : list expr) : res fe :=
  do m <- mkf OBOr [] conds;
  Ok (fe_add (branch anc) [m]).
End WithMk.

(* combine(others) *)
Definition combine_fe (s : fe) (others : list fe) : fe :=
  fold_left (fun acc o => fe_add acc (cs o)) (s :: others) blank.

(* ---- _split_constraints ---- *)

Definition flatten_and (l : list expr) : list expr :=
  flat_map (fun c => match c with Node OBAnd [] args _ => args | _ => [c] end) l.

Notation var := (bool * Z)%type (only parsing).
Definition vmem (v : var) (l : list var) : bool := existsb (var_eqb v) l.
Definition intersects (a b : list var) : bool := existsb (fun v => vmem v b) a.
Fixpoint vunion (a b : list var) : list var :=
  match a with [] => b | v :: r => if vmem v b then vunion r b else v :: vunion r b end.

(* a group: its variables and the positions (in the flattened list) of its constraints *)
Notation group := (list (bool * Z) * list nat)%type (only parsing).

Definition gstep (gs : list group) (n : nat) (vs : list var) : list group :=
  match vs with
  | [] => gs
  | _ =>
      let hit := filter (fun g => intersects vs (fst g)) gs in
      let miss := filter (fun g => negb (intersects vs (fst g))) gs in
      (fold_left (fun acc g => vunion (fst g) acc) hit vs, n :: flat_map snd hit) :: miss
  end.

Fixpoint groups_from (gs : list group) (n : nat) (l : list expr) : list group :=
  match l with
  | [] => gs
  | c :: r => groups_from (gstep gs n (fvars c)) (S n) r
  end.

Definition split_constraints (l : list expr) : list group * list expr :=
  let sp := flatten_and l in
  (groups_from [] 0 sp, filter (fun c => match fvars c with [] => true | _ => false end) sp).

Definition group_constraints (sp : list expr) (g : group) : list expr :=
  map (fun i => nth i sp (BoolVe true)) (snd g).

(* split(): one blank copy per group, plus one for the variable-free constraints *)
Definition split_fe (s : fe) : list fe :=
  let sp := flatten_and (cs s) in
  let '(gs, conc) := split_constraints (cs s) in
  map (fun g => fe_add blank (group_constraints sp g)) gs ++
  match conc with [] => [] | _ => [fe_add blank conc] end.

(* ---- a tree of solvers: the store maps solver identities to frontends (C14) ---- *)
Inductive sop :=
  | SAdd (i : nat) (new : list expr)      (* solver i: add(new) *)
  | SBranch (i j : nat)                   (* j := solver i .branch() *)
  | SQuery (i : nat).                     (* any query on solver i: no change of the constraint bookkeeping *)

Definition store := list (nat * fe).
Fixpoint sget (m : store) (k : nat) : option fe :=
  match m with [] => None | (i, s) :: r => if Nat.eqb i k then Some s else sget r k end.
Fixpoint sset (m : store) (k : nat) (s : fe) : store :=
  match m with
  | [] => [(k, s)]
  | (i, t) :: r => if Nat.eqb i k then (i, s) :: r else (i, t) :: sset r k s
  end.

Definition sstep (m : store) (o : sop) : store :=
  match o with
  | SAdd i new => match sget m i with Some s => sset m i (fe_add s new) | None => m end
  | SBranch i j => match sget m i, sget m j with Some s, None => sset m j (branch s) | _, _ => m end
  | SQuery _ => m
  end.

Definition touches (o : sop) (k : nat) : bool :=
  match o with SAdd i _ => Nat.eqb i k | SBranch _ j => Nat.eqb j k | SQuery _ => false end.
