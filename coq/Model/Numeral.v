(* Decimal numerals of unbounded size as they travel between claripy and Z3 (C26, C09):
   claripy/backends/backend_z3.py: int_to_str_unlimited, str_to_int_unlimited (chunked because CPython limits the
   length of int<->str conversions) and _abstract_bv_val (the value of a model numeral).
   A string of decimal digits is a list of digits, most significant first. *)
From Coq Require Import ZArith List Bool.
Import ListNotations.
Open Scope Z_scope.

Definition dval (ds : list Z) : Z := fold_left (fun acc d => acc * 10 + d) ds 0.

(* int(s, 10) on a chunk, and str(v) *)
Fixpoint digits_fuel (fuel : nat) (v : Z) : list Z :=
  match fuel with
  | O => [v mod 10]
  | S f => if v <? 10 then [v] else digits_fuel f (v / 10) ++ [v mod 10]
  end.
Definition digits (v : Z) : list Z := digits_fuel (Z.to_nat (Z.log2 v + 1)) v.

(* s.zfill(k) *)
Definition zfill (k : nat) (s : list Z) : list Z := repeat 0 (k - length s) ++ s.

(* str_to_int_unlimited(s) for a non-negative numeral: for i in range(0, len(s), k): v = v*10**len(chunk) + int(chunk) *)
Fixpoint parse_chunks (fuel k : nat) (s : list Z) (v : Z) : Z :=
  match fuel with
  | O => v
  | S f =>
      match s with
      | [] => v
      | _ => let c := firstn k s in parse_chunks f k (skipn k s) (v * 10 ^ Z.of_nat (length c) + dval c)
      end
  end.
Definition str_to_int (k : nat) (s : list Z) : Z := parse_chunks (length s) k s 0.

(* int_to_str_unlimited(v) for v > 0: while v > 0: chunk = str(v % MOD); v //= MOD; zfill unless last; prepend *)
Fixpoint print_chunks (fuel k : nat) (v : Z) (acc : list Z) : list Z :=
  match fuel with
  | O => acc
  | S f =>
      if v <=? 0 then acc else
      let md := 10 ^ Z.of_nat k in
      let chunk := digits (v mod md) in
      let v' := v / md in
      let chunk' := if 0 <? v' then zfill k chunk else chunk in
      print_chunks f k v' (chunk' ++ acc)
  end.
Definition int_to_str (k : nat) (v : Z) : list Z :=
  if v =? 0 then [0] else print_chunks (Z.to_nat (Z.log2 v + 1)) k v [].

(* _abstract_bv_val: Z3 either hands the value over as a uint64 or as a decimal string *)
Definition abstract_bv_val (k : nat) (fits64 : bool) (v : Z) : Z :=
  if fits64 then v else str_to_int k (digits v).
