(* C12: the cache of merged child solvers of SolverComposite (CompositedCacheMixin).
   Hand-written from claripy/frontend/mixin/composited_cache_mixin.py (_solver_for_names, _remove_cached, _store_child) and
   claripy/frontend/composite_frontend.py (_solver_for_names: the transitive closure over the children's variables).
   A child is an identity with the variables it mentions; a cache entry records the names it was requested for and the
   children that were combined.  [version] stands for the child's content: storing a child again gives it a new version. *)
From Coq Require Import ZArith List Bool Arith.
Import ListNotations.

Definition var := nat.
Record child := mkChild { cid : nat; cvars : list var; version : nat }.
Record entry := mkEntry { ekey : list var; ekids : list child }.

Definition inter (a b : list var) : bool := existsb (fun x => existsb (Nat.eqb x) b) a.
Definition evars (e : entry) : list var := flat_map cvars (ekids e).

(* _remove_cached(names) as repaired: by the requested names and by the merged solver's own variables *)
Definition remove_cached (cache : list entry) (names : list var) : list entry :=
  filter (fun e => negb (inter (ekey e) names) && negb (inter (evars e) names)) cache.

(* ... and as it was: by the requested names only *)
Definition remove_cached_pinned (cache : list entry) (names : list var) : list entry :=
  filter (fun e => negb (inter (ekey e) names)) cache.

(* _store_child(ns): the children registered for any of ns's variables are superseded *)
Definition store_child (kids : list child) (ns : child) : list child :=
  ns :: filter (fun k => negb (inter (cvars k) (cvars ns))) kids.
