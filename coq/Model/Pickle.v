(* What a pickled solver keeps and what it rebuilds (C18).
   Hand-written from the __getstate__/__setstate__ chains of claripy/frontend/composite_frontend.py,
   constrained_frontend.py and the mixins.  A composite solver: its children (constraint lists), the set of children whose
   satisfiability has not been established yet, and the flag set by a concrete False.  The satisfiability of a child is
   an oracle.  Pickling keeps the children and the flag; the unchecked set is rebuilt. *)
From Coq Require Import ZArith List Bool.
Import ListNotations.
Require Import CV.Model.Ast.

Record comp := mkComp { children : list (nat * list expr); unchecked : list nat; unsat_flag : bool }.

Section WithOracle.
Variable sat : list expr -> bool.

(* CompositeFrontend.check_satisfiability without extra constraints *)
Definition check (c : comp) : bool :=
  negb (unsat_flag c) &&
  forallb (fun ch => negb (existsb (Nat.eqb (fst ch)) (unchecked c)) || sat (snd ch)) (children c).

(* what the answer should be *)
Definition exact (c : comp) : bool := negb (unsat_flag c) && forallb (fun ch => sat (snd ch)) (children c).

(* every child that is not marked unchecked is known to be satisfiable *)
Definition pinv (c : comp) : Prop :=
  forall ch, In ch (children c) -> existsb (Nat.eqb (fst ch)) (unchecked c) = false -> sat (snd ch) = true.
End WithOracle.

Definition getstate (c : comp) : list (nat * list expr) * bool := (children c, unsat_flag c).
(* __setstate__ as repaired: every child is unchecked again *)
Definition setstate (s : list (nat * list expr) * bool) : comp := mkComp (fst s) (map fst (fst s)) (snd s).
(* __setstate__ of the pinned tree: nothing is unchecked *)
Definition setstate_pinned (s : list (nat * list expr) * bool) : comp := mkComp (fst s) [] (snd s).
