(* Models of the search loops of claripy/backends/backend_z3.py and of FullFrontend.min/max:
   BackendZ3._extrema (binary search), BackendZ3._batch_eval (enumeration with blocking clauses),
   ModelCacheMixin.batch_eval (cached results first, then the backend for the rest).
   The Z3 solver is an oracle.  No proofs here. *)
From Coq Require Import ZArith List Bool.
Import ListNotations.
Open Scope Z_scope.

Section Extrema.
(* probe a b: "is there a value of the expression in [a, b] satisfying the constraints" (one z3 check) *)
Variable probe : Z -> Z -> bool.

(* the while loop: `while hi - lo > 1` *)
Fixpoint ext_loop (fuel : nat) (is_max : bool) (lo hi : Z) (nprobes : nat) : Z * Z * nat :=
  match fuel with
  | O => (lo, hi, nprobes)
  | S f =>
      if 1 <? hi - lo then
        let middle := (lo + hi) / 2 in
        let sat := if is_max then probe middle hi else probe lo middle in
        if Bool.eqb sat is_max then ext_loop f is_max middle hi (S nprobes)
        else ext_loop f is_max lo middle (S nprobes)
      else (lo, hi, nprobes)
  end.

(* _extrema(is_max, expr, ..., signed): lo/hi start at the type's bounds *)
Definition extrema (is_max : bool) (lo0 hi0 : Z) : Z * nat :=
  let '(lo, hi, k) := ext_loop (Z.to_nat (hi0 - lo0)) is_max lo0 hi0 O in
  let sat := if is_max then probe hi hi else probe lo lo in
  (if Bool.eqb sat is_max then hi else lo, S k).

Definition bounds (signed : bool) (w : Z) : Z * Z :=
  if signed then (- 2 ^ (w - 1), 2 ^ (w - 1) - 1) else (0, 2 ^ w - 1).
End Extrema.

Section Enumerate.
Variable V : Type.
(* pick blocked: a solution whose value is not among [blocked], if there is one (one z3 check) *)
Variable pick : list V -> option V.

(* BackendZ3._batch_eval: up to n checks, each result is blocked for the following ones *)
Fixpoint enumerate (n : nat) (blocked : list V) : list V :=
  match n with
  | O => []
  | S k => match pick blocked with
           | None => []
           | Some v => v :: enumerate k (v :: blocked)
           end
  end.

(* ModelCacheMixin.batch_eval: results found in the cached models first; if fewer than n (and the
   expression is not known to be exhausted) the backend is asked for the remaining ones, with the cached
   results blocked *)
Definition cached_then_solve (n : nat) (cached : list V) (exhausted : bool) : list V :=
  if (Nat.leb n (length cached)) || exhausted then cached
  else cached ++ enumerate (n - length cached) cached.
End Enumerate.

(* FullFrontend.max / min: eval(e, 2); one value -> that value; else ask the backend with the two
   values as bounds.  [two]: the result of eval(e, 2) (already known correct by the enumeration theorem). *)
Definition frontend_extremum (probe_with : (Z -> bool) -> Z -> Z -> bool)
           (is_max : bool) (lo0 hi0 : Z) (two : list Z) (key : Z -> Z) : option Z :=
  match two with
  | [] => None
  | [a] => Some a
  | a :: b :: _ =>
      let bound := fun v => if is_max then (key a <=? key v) && (key b <=? key v)
                            else (key v <=? key a) && (key v <=? key b) in
      Some (fst (extrema (probe_with bound) is_max lo0 hi0))
  end.
