(* Concrete folding of the string operations (C03): claripy/backends/backend_concrete/strings.py.
   A string is the list of its code points.  Each function is the Python expression of the source, written with the
   list operations that define the Python built-ins used there (slicing, str.replace(p, r, 1), in, startswith, endswith,
   str.index, str.isdigit + int, str). *)
From Coq Require Import ZArith List Bool.
Import ListNotations.
Require Import CV.Model.Numeral.
Open Scope Z_scope.

Definition str := list Z.

Fixpoint prefix_b (t s : str) : bool :=
  match t, s with
  | [], _ => true
  | a :: t', b :: s' => (a =? b) && prefix_b t' s'
  | _ :: _, [] => false
  end.

(* s.find(t): the least k with t a prefix of s[k:] *)
Fixpoint find (t s : str) : option nat :=
  if prefix_b t s then Some O else
  match s with
  | [] => None
  | _ :: s' => option_map S (find t s')
  end.

(* StrSubstr: s[start : start + count] for non-negative start, count *)
Definition substr (start count : Z) (s : str) : str :=
  (* slicing clips at the end of the string *)
  let n := Z.of_nat (length s) in
  firstn (Z.to_nat (Z.min count n)) (skipn (Z.to_nat (Z.min start n)) s).
(* StrConcat *)
Definition strconcat (l : list str) : str := concat l.
(* StrReplace: s.replace(p, r, 1) *)
Definition replace1 (s p r : str) : str :=
  match find p s with
  | Some k => firstn k s ++ r ++ skipn (k + length p) s
  | None => s
  end.
(* StrLen (a 64-bit value) *)
Definition strlen (s : str) : Z := Z.of_nat (length s) mod 2 ^ 64.
(* StrContains: t in s *)
Definition contains (s t : str) : bool := match find t s with Some _ => true | None => false end.
(* StrPrefixOf / StrSuffixOf *)
Definition prefixof (t s : str) : bool := prefix_b t s.
Definition suffixof (t s : str) : bool := prefix_b (rev t) (rev s).
(* StrIndexOf(s, t, i): -1 as a 64-bit value when not found or i beyond the end *)
Definition indexof (s t : str) (i : Z) : Z :=
  if Z.of_nat (length s) <? i then 2 ^ 64 - 1 else
  match find t (skipn (Z.to_nat i) s) with
  | Some k => (i + Z.of_nat k) mod 2 ^ 64
  | None => 2 ^ 64 - 1
  end.
(* StrToInt: non-empty ASCII digits only *)
Definition is_digit (c : Z) : bool := (48 <=? c) && (c <=? 57).
Definition to_int (s : str) : Z :=
  match s with
  | [] => 2 ^ 64 - 1
  | _ => if forallb is_digit s then dval (map (fun c => c - 48) s) mod 2 ^ 64 else 2 ^ 64 - 1
  end.
(* IntToStr: str(value) *)
Definition from_int (v : Z) : str := map (fun d => d + 48) (digits v).
