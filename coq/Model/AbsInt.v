(* C24: abstract evaluation of an expression, as BackendVSA.convert does it: the ITEs are excavated first, then the tree is
   evaluated bottom-up with one transfer function per operator; If joins its branches unless the abstract condition
   excludes one of them (BackendVSA.If).  The abstract domain, the transfer functions, the value of a leaf (its annotation)
   and the join are parameters.  Hand-written from claripy/backends/backend.py (Backend.convert/_call) and
   claripy/backends/backend_vsa/backend_vsa.py (convert, If). *)
From Coq Require Import ZArith List Bool.
Require Import CV.Model.PyPrelude CV.Model.Ast CV.Model.Build CV.Model.Rewrite.
Import ListNotations.
Open Scope Z_scope.

Section AbsInt.
Variable A : Type.
Variable aleaf : expr -> res A.                       (* BVS with its annotation / BVV / BoolV *)
Variable aop : opk -> list Z -> list A -> res A.      (* the backend operation on already-converted arguments *)
Variable has_true has_false : A -> bool.
Variable join : A -> A -> res A.

Definition a_if (c t f : A) : res A :=
  if negb (has_true c) then Ok f else if negb (has_false c) then Ok t else join t f.

Fixpoint aeval (e : expr) : res A :=
  match e with
  | Node op ints args _ =>
      do vs <- sequence_res (map aeval args);
      match op, ints, vs with
      | OIf, [], [c; t; f] => a_if c t f
      | _, _, _ => aop op ints vs
      end
  | _ => aleaf e
  end.

Variable mkf : mkfun.
Definition convert (e : expr) : res A := do e' <- excavate mkf e; aeval e'.
End AbsInt.

(* ---- an executable instance: abstract values are intervals / truth-value sets; the operator results and joins are read
   from a table (recorded from the real backend operations by the correspondence check), so that running [convert] replays
   exactly the composition that the theorem is about: excavation, bottom-up evaluation and the If rule. ---- *)
Inductive aval := ASI (w s l u : Z) (bot : bool) | ABool (t f : bool).

Definition aval_eqb (a b : aval) : bool :=
  match a, b with
  | ASI w s l u bt, ASI w' s' l' u' bt' => (w =? w') && (s =? s') && (l =? l') && (u =? u') && Bool.eqb bt bt'
  | ABool t f, ABool t' f' => Bool.eqb t t' && Bool.eqb f f'
  | _, _ => false
  end.

Fixpoint avals_eqb (a b : list aval) : bool :=
  match a, b with
  | [], [] => true
  | x :: r, y :: s => aval_eqb x y && avals_eqb r s
  | _, _ => false
  end.

Fixpoint zs_eqb (a b : list Z) : bool :=
  match a, b with
  | [], [] => true
  | x :: r, y :: s => (x =? y) && zs_eqb r s
  | _, _ => false
  end.

Definition tab_entry : Type := opk * list Z * list aval * aval.

(* a lookup that finds nothing is reported as VSAErr: the real backend applied no such operation *)
Fixpoint tab_lookup (tab : list tab_entry) (op : opk) (ints : list Z) (args : list aval) : res aval :=
  match tab with
  | [] => Err VSAErr
  | (op', ints', args', r) :: rest =>
      if opk_eqb op op' && zs_eqb ints ints' && avals_eqb args args' then Ok r else tab_lookup rest op ints args
  end.

Fixpoint ann_lookup (ann : list (Z * aval)) (n : Z) : res aval :=
  match ann with [] => Err VSAErr | (k, a) :: rest => if k =? n then Ok a else ann_lookup rest n end.

Definition t_leaf (ann : list (Z * aval)) (e : expr) : res aval :=
  match e with
  | BVS n w => do a <- ann_lookup ann n;
               match a with ASI w' _ _ _ _ => if w =? w' then Ok a else Err Unmodelled | _ => Err Unmodelled end
  | BVVe v w => if (0 <=? v) && (v <? 2 ^ w) then Ok (ASI w 0 v v false) else Err Unmodelled
  | BoolVe b => Ok (ABool b (negb b))
  | _ => Err Unmodelled
  end.

Definition t_has_true (a : aval) : bool := match a with ABool t _ => t | _ => false end.
Definition t_has_false (a : aval) : bool := match a with ABool _ f => f | _ => false end.

Fixpoint join_lookup (joins : list (aval * aval * aval)) (a b : aval) : res aval :=
  match joins with
  | [] => Err VSAErr
  | (x, y, r) :: rest => if aval_eqb a x && aval_eqb b y then Ok r else join_lookup rest a b
  end.

Definition t_join (joins : list (aval * aval * aval)) (a b : aval) : res aval :=
  match a, b with
  | ABool t f, ABool t' f' => Ok (ABool (t || t') (f || f'))
  | _, _ => join_lookup joins a b
  end.

Definition vsa_convert (mkf : mkfun) (ann : list (Z * aval)) (tab : list tab_entry) (joins : list (aval * aval * aval))
    (e : expr) : res aval :=
  convert aval (t_leaf ann) (tab_lookup tab) t_has_true t_has_false (t_join joins) mkf e.

(* the evaluation alone, on an already excavated tree *)
Definition vsa_aeval (ann : list (Z * aval)) (tab : list tab_entry) (joins : list (aval * aval * aval)) (e : expr) : res aval :=
  aeval aval (t_leaf ann) (tab_lookup tab) t_has_true t_has_false (t_join joins) e.
