(* The frame discipline of BackendZ3._batch_eval on the Z3 solver (C17).
   Hand-written from claripy/backends/backend_z3.py:_batch_eval.  The solver is a stack of frames of assertions; the k-th
   check of the loop is an oracle that answers sat, unsat, or gives up (timeout / resource limit: z3_solver_sat raises). *)
From Coq Require Import ZArith List Bool Arith.
Import ListNotations.

Definition stack := list (list nat).
Definition push (s : stack) : stack := [] :: s.
Definition pop (s : stack) : stack := tl s.
Definition assert_ (a : nat) (s : stack) : stack := match s with f :: r => (a :: f) :: r | [] => [[a]] end.

Inductive outcome := Values (n : nat) | GaveUp.

(* for i in range(n): check; record a value; if i + 1 != n: solver.add(blocking constraint) *)
Fixpoint loop (todo : nat) (n i : nat) (chk : nat -> option bool) (s : stack) (found : nat) : outcome * stack :=
  match todo with
  | O => (Values found, s)
  | S t =>
      match chk i with
      | None => (GaveUp, s)
      | Some false => (Values found, s)
      | Some true =>
          let s' := if Nat.eqb (S i) n then s else assert_ i s in
          loop t n (S i) chk s' (S found)
      end
  end.

(* as repaired: try ... finally pop *)
Definition batch_eval (n : nat) (chk : nat -> option bool) (s : stack) : outcome * stack :=
  let s1 := if Nat.ltb 1 n then push s else s in
  let '(o, s2) := loop n n 0 chk s1 0 in
  (o, if Nat.ltb 1 n then pop s2 else s2).

(* the pinned tree: the pop is skipped when a check gives up *)
Definition batch_eval_pinned (n : nat) (chk : nat -> option bool) (s : stack) : outcome * stack :=
  let s1 := if Nat.ltb 1 n then push s else s in
  let '(o, s2) := loop n n 0 chk s1 0 in
  match o with
  | GaveUp => (o, s2)
  | _ => (o, if Nat.ltb 1 n then pop s2 else s2)
  end.
