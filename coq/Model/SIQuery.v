(* The queries of StridedInterval that read _unsigned_bounds / _signed_bounds: max, min, eval.

   Hand-written from claripy/backends/backend_vsa/strided_interval.py (max, min, eval); the bounds functions are in
   Model/SICmp.v.  Not modelled: reversed intervals (_reversed=True, the reversed_processor decorator), the empty
   interval for max / min (None): Err Unmodelled. *)
From Coq Require Import ZArith List Bool.
Import ListNotations.
Require Import CV.Model.PyPrelude CV.Gen.SIHelpers CV.Model.SI CV.Model.SICmp.
Open Scope Z_scope.

Definition bounds_of (sg : bool) (a : si) : res (list (Z * Z)) :=
  if sg then signed_bounds a else unsigned_bounds a.

(* Python's max(...) / min(...) of a generator: ValueError on an empty one *)
Definition list_max (l : list Z) : res Z := match l with [] => Crash PyOther | x :: r => Ok (fold_left Z.max r x) end.
Definition list_min (l : list Z) : res Z := match l with [] => Crash PyOther | x :: r => Ok (fold_left Z.min r x) end.

(* max(ub for _, ub in split) *)
Definition si_max (sg : bool) (a : si) : res Z :=
  if bot a then Err Unmodelled else do bs <- bounds_of sg a; list_max (map snd bs).

(* min(lb for lb, _ in split) *)
Definition si_min (sg : bool) (a : si) : res Z :=
  if bot a then Err Unmodelled else do bs <- bounds_of sg a; list_min (map fst bs).

(* the values one (lb, ub) pair contributes to eval: lb, lb + stride, ... while <= ub, at most n of them *)
Definition piece_vals (s : Z) (n : nat) (p : Z * Z) : list Z :=
  if snd p <? fst p then [] else
  map (fun i => fst p + Z.of_nat i * s) (seq 0 (Z.to_nat (Z.min (Z.of_nat n) ((snd p - fst p) / s + 1)))).

(* eval(n, signed) *)
Definition si_eval (sg : bool) (a : si) (n : nat) : res (list Z) :=
  if bot a then Ok [] else
  if (stride a =? 0) && negb (Nat.eqb n 0) then
    (if sg then do v <- si_unsigned_to_signed (lb a) (bits a); Ok [v] else Ok [lb a])
  else do bs <- bounds_of sg a; Ok (firstn n (flat_map (piece_vals (stride a) n) bs)).
