(* C25: the balancer's comparison bookkeeping.  Hand-written from claripy/backends/backend_vsa/balancer.py:
   _reverse_comparison (through the generated table operations.opposites), _get_assumptions, _handle_comparison (through the
   generated table comparison_info), _handle_eq/_handle_ne for a single-valued right-hand side, _replacements_iter (the bound
   interval), and the rewriting rules _balance_zeroext, _balance_extract (last branch), _balance_lshift and _nonstrict as
   arithmetic on the operands.  Values are unsigned representatives 0 <= x < 2^n; [sgn] reads them as two's complement. *)
From Coq Require Import ZArith List Bool String.
Require Import CV.Gen.BalancerTables.
Import ListNotations.
Open Scope Z_scope.

Definition sgn (n x : Z) : Z := if x <? 2 ^ (n - 1) then x else x - 2 ^ n.

(* comparison operators; the generated tables are keyed by their claripy names *)
Inductive cop := CEq | CNe | CULT | CULE | CUGT | CUGE | CSLT | CSLE | CSGT | CSGE.

Definition cop_name (o : cop) : string :=
  match o with
  | CEq => "__eq__" | CNe => "__ne__" | CULT => "ULT" | CULE => "ULE" | CUGT => "UGT" | CUGE => "UGE"
  | CSLT => "SLT" | CSLE => "SLE" | CSGT => "SGT" | CSGE => "SGE"
  end.

Definition all_cops : list cop := [CEq; CNe; CULT; CULE; CUGT; CUGE; CSLT; CSLE; CSGT; CSGE].

Definition cop_of (s : string) : option cop := find (fun o => String.eqb (cop_name o) s) all_cops.

(* the meaning of a comparison operator on n-bit values *)
Definition cmp (op : cop) (n x y : Z) : bool :=
  match op with
  | CEq => x =? y
  | CNe => negb (x =? y)
  | CULT => x <? y
  | CULE => x <=? y
  | CUGT => y <? x
  | CUGE => y <=? x
  | CSLT => sgn n x <? sgn n y
  | CSLE => sgn n x <=? sgn n y
  | CSGT => sgn n y <? sgn n x
  | CSGE => sgn n y <=? sgn n x
  end.

Fixpoint assoc {B} (l : list (string * B)) (k : string) : option B :=
  match l with [] => None | (a, b) :: r => if String.eqb a k then Some b else assoc r k end.

(* _reverse_comparison: the operator for swapped operands, read from operations.opposites *)
Definition reverse_op (op : cop) : option cop :=
  match assoc opposites (cop_name op) with Some s => cop_of s | None => None end.

(* Balancer.comparison_info *)
Definition info (op : cop) : option (bool * bool * bool) := assoc comparison_info (cop_name op).

(* the view of a value that an operator orders: unsigned, or two's complement *)
Definition view (unsigned : bool) (n x : Z) : Z := if unsigned then x else sgn n x.

(* _handle_comparison.  lmin..lmax: the range VSA reports for the left side, rmin..rmax for the right side (in the
   operator's view).  Result: None = ClaripyBalancerUnsatError; Some (true, b) = upper bound b; Some (false, b) = lower bound *)
Definition handle_comparison (op : cop) (size lmin lmax rmin rmax : Z) : option (option (bool * Z)) :=
  match info op with
  | None => None
  | Some (is_lt, is_equal, is_unsigned) =>
      let int_max := if is_unsigned then 2 ^ size - 1 else 2 ^ (size - 1) - 1 in
      let int_min := - 2 ^ (size - 1) in
      let bound_max := if is_equal then rmax else if is_lt then rmax - 1 else rmax + 1 in
      let bound_min := if is_equal then rmin else if is_lt then rmin - 1 else rmin + 1 in
      if is_lt && (bound_max <? int_min) then Some None
      else if negb is_lt && (int_max <? bound_min) then Some None
      else if is_lt then Some (Some (true, Z.min int_max (Z.min lmax bound_max)))
      else Some (Some (false, Z.max int_min (Z.max lmin bound_min)))
  end.

(* _get_assumptions: the implicit second bound, as (operator, constant in the operator's view) *)
Definition assumption (op : cop) (size : Z) : option (cop * Z) :=
  match op with
  | CULE | CULT => Some (CUGE, 0)
  | CUGE | CUGT => Some (CULE, 2 ^ size - 1)
  | CSLE | CSLT => Some (CSGE, - 2 ^ (size - 1))
  | CSGE | CSGT => Some (CSLE, 2 ^ (size - 1) - 1)
  | _ => None
  end.

(* _replacements_iter: the interval 1[mn, mx] read modulo 2^n (a lower bound above the upper bound wraps around) *)
Definition in_bound (n mn mx x : Z) : bool := (x - mn) mod 2 ^ n <=? (mx - mn) mod 2 ^ n.

(* the whole pipeline for  x <op> k  (variable on the left) or  k <op> x  (side = true), x a variable whose VSA range in
   the operator's view is lmin..lmax, k a constant: (sat, lower bound, upper bound) with the defaults of _replacements_iter *)
Definition simple_bounds (op : cop) (side : bool) (size k lmin lmax : Z) : option (bool * Z * Z) :=
  match (if side then reverse_op op else Some op) with
  | None => None
  | Some op1 =>
      match op1 with
      | CEq => Some (true, k, k)
      | CNe =>
        if k =? 0 then Some (true, 1, 2 ^ size - 1)
        else if k =? 2 ^ size - 1 then Some (true, 0, 2 ^ size - 2)
        else Some (true, 0, 2 ^ size - 1)
      | _ =>
        match info op1 with
        | None => None
        | Some (_, _, is_unsigned) =>
            let kv := view is_unsigned size k in
            match handle_comparison op1 size lmin lmax kv kv with
            | None => None
            | Some None => Some (false, 0, 0)
            | Some (Some (up1, b1)) =>
                match assumption op1 size with
                | None => None
                | Some (op2, c2) =>
                    match handle_comparison op2 size lmin lmax c2 c2 with
                    | Some (Some (up2, b2)) =>
                        Some (true, if up1 then b2 else b1, if up1 then b1 else b2)
                    | _ => None
                    end
                end
            end
        end
      end
  end.

(* ---- rewriting rules, as functions on the operator and the constant ---- *)

(* _balance_zeroext: ZeroExt(z, x) <op> C with the top z bits of C zero becomes x <op'> C[n-1:0] *)
Definition zeroext_rule (op : cop) (z : Z) : cop :=
  if 0 <? z then match assoc unsigned_comparison (cop_name op) with
                 | Some u => match cop_of u with Some c => c | None => op end
                 | None => op end
  else op.

(* _nonstrict: a < c is a <= c - 1 unless c can be the smallest value; a > c is a >= c + 1 unless c can be the largest *)
Definition nonstrict (op : cop) (size c : Z) : cop * Z :=
  match info op with
  | Some (is_lt, false, is_unsigned) =>
      let cv := view is_unsigned size c in
      if is_lt then
        if cv =? (if is_unsigned then 0 else - 2 ^ (size - 1)) then (op, c)
        else ((if is_unsigned then CULE else CSLE), (c - 1) mod 2 ^ size)
      else
        if cv =? (if is_unsigned then 2 ^ size - 1 else 2 ^ (size - 1) - 1) then (op, c)
        else ((if is_unsigned then CUGE else CSGE), (c + 1) mod 2 ^ size)
  | _ => (op, c)
  end.
