(* Strided intervals: the record, its constructor/normalisation, the wrapped-overflow test,
   add / sub / neg, and the member set gamma.

   Hand-written from claripy/backends/backend_vsa/strided_interval.py (StridedInterval.__init__,
   normalize, top, is_integer, _wrapped_overflow_add, add, sub (with the alignment of the subtrahend), neg).  Integer-level helpers
   (_modular_add, _modular_sub, max_int, _wrapped_cardinality) are NOT re-written here: the model calls
   the definitions in Gen/SIHelpers.v that tools/py2coq.py regenerates from the source on every run.

   Not modelled: names, the uninitialized flag, reversed intervals (_reversed=True), operands of
   different widths (normalize_types' agnostic_extend): these give Err Unmodelled. *)
From Coq Require Import ZArith List Bool.
Import ListNotations.
Require Import CV.Model.PyPrelude CV.Gen.SIHelpers.
Open Scope Z_scope.

Record si := mkSI { bits : Z; stride : Z; lb : Z; ub : Z; bot : bool }.

(* StridedInterval.normalize (run by the constructor):
     empty            -> unchanged
     bounds           -> bounds & (2^bits - 1)
     lb = ub          -> stride 0
     lb = ub+1, s = 1 -> [0, max_int]  (TOP)
     stride < 0       -> ClaripyVSAError
   (the "if self.lower_bound < 0" re-masking can never fire after the first masking) *)
Definition normalize (a : si) : res si :=
  if bot a then Ok a else
  do p <- py_pow 2 (bits a);
  let l := Z.land (lb a) (p - 1) in
  let u := Z.land (ub a) (p - 1) in
  let s := if l =? u then 0 else stride a in
  do u1 <- si_modular_add u 1 (bits a);
  do lu <- (if (l =? u1) && (s =? 1) then (do m <- si_max_int (bits a); Ok (0, m)) else Ok (l, u));
  if s <? 0 then Err VSAErr else Ok (mkSI (bits a) s (fst lu) (snd lu) false).

(* StridedInterval(bits=, stride=, lower_bound=, upper_bound=) *)
Definition mk (w s l u : Z) : res si := normalize (mkSI w s l u false).

Definition top (w : Z) : res si := do m <- si_max_int w; mk w 1 0 m.

Definition is_integer (a : si) : bool := lb a =? ub a.

Definition card_for_overflow (a : si) : res Z :=
  if is_integer a && (lb a =? 0) then Ok 0 else si_wrapped_cardinality (lb a) (ub a) (bits a).

Definition wrapped_overflow_add (a b : si) : res bool :=
  do ca <- card_for_overflow a;
  do cb <- card_for_overflow b;
  do m <- si_max_int (bits a);
  Ok (m + 1 <? ca + cb).

Definition si_add (a b : si) : res si :=
  if negb (bits a =? bits b) then Err Unmodelled else
  let nb := Z.max (bits a) (bits b) in
  do ov <- wrapped_overflow_add a b;
  if ov then top (bits a) else
  do l <- si_modular_add (lb a) (lb b) nb;
  do u <- si_modular_add (ub a) (ub b) nb;
  do r <- mk nb (Z.gcd (stride a) (stride b)) l u;
  normalize r.

(* sub without its first step: the bounds of the difference from the bounds of both operands *)
Definition si_sub_core (a b : si) : res si :=
  if negb (bits a =? bits b) then Err Unmodelled else
  let nb := Z.max (bits a) (bits b) in
  do ov <- wrapped_overflow_add a b;
  if ov then top (bits a) else
  do l <- si_modular_sub (lb a) (ub b) nb;
  do u <- si_modular_sub (ub a) (lb b) nb;
  do r <- mk nb (Z.gcd (stride a) (stride b)) l u;
  normalize r.

(* the first step of sub: the subtrahend with its last member as upper bound (its upper bound need not be a member) *)
Definition align_ub (b : si) : res si :=
  if (0 <? stride b) && negb (bot b) then
    do sp <- si_modular_sub (ub b) (lb b) (bits b);
    do r <- py_mod sp (stride b);
    do last <- si_modular_add (lb b) (sp - r) (bits b);
    if last =? ub b then Ok b else mk (bits b) (stride b) (lb b) last
  else Ok b.

Definition si_sub (a b : si) : res si :=
  if negb (bits a =? bits b) then Err Unmodelled else
  do b' <- align_ub b;
  si_sub_core a b'.

Definition si_neg (a : si) : res si :=
  do z <- mk (bits a) 0 0 0;
  si_sub z a.

(* -------- members -------- *)

Definition span (a : si) : Z := (ub a - lb a) mod 2 ^ bits a.

(* gamma: lb, lb+s, lb+2s, ... as long as the offset stays within (ub - lb) mod 2^bits; stride 0 is {lb} *)
Definition gamma (a : si) (x : Z) : Prop :=
  bot a = false /\
  exists k, 0 <= k /\ k * stride a <= span a /\ x = (lb a + k * stride a) mod 2 ^ bits a.

(* executable member list, for the correspondence check (stride 0: one member) *)
Definition members (a : si) : list Z :=
  if bot a then [] else
  if stride a <=? 0 then [lb a mod 2 ^ bits a]
  else map (fun k => (lb a + Z.of_nat k * stride a) mod 2 ^ bits a)
           (seq 0 (Z.to_nat (span a / stride a + 1))).

Definition wf (a : si) : Prop :=
  bot a = false /\ 0 < bits a < SHIFT_LIMIT /\ 0 <= stride a /\
  0 <= lb a < 2 ^ bits a /\ 0 <= ub a < 2 ^ bits a.

(* StridedInterval.cardinality *)
Definition cardinality (a : si) : res Z :=
  if bot a then Ok 0 else
  if is_integer a then Ok 1 else
  do d <- si_modular_sub (ub a) (lb a) (bits a);
  py_floordiv (d + stride a) (stride a).
