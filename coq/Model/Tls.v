(* Per-thread conversion caches of the backends (C20): claripy/backends/backend.py (_object_cache in threading.local),
   claripy/backends/backend_z3.py (_context, _ast_cache, ... in threading.local).
   A backend object belongs to the Z3 context of the thread that created it.  convert(e) by thread t returns the cached object
   for e if thread t's cache has one, otherwise creates one in t's context and caches it.  The interleaving of threads is an
   arbitrary sequence of (thread, expression) conversion requests. *)
From Coq Require Import ZArith List Bool Arith.
Import ListNotations.

Definition thread := nat.
Definition exprid := nat.
Record zobj := mkObj { o_ctx : thread; o_expr : exprid }.

Definition cache := list (exprid * zobj).
Fixpoint clookup (c : cache) (e : exprid) : option zobj :=
  match c with [] => None | (k, v) :: r => if Nat.eqb k e then Some v else clookup r e end.

(* thread-local caches: one cache per thread *)
Definition tls := thread -> cache.
Definition tls_set (s : tls) (t : thread) (c : cache) : tls := fun u => if Nat.eqb u t then c else s u.

Definition convert (s : tls) (t : thread) (e : exprid) : zobj * tls :=
  match clookup (s t) e with
  | Some o => (o, s)
  | None => let o := mkObj t e in (o, tls_set s t ((e, o) :: s t))
  end.

(* the variant with one cache shared by all threads *)
Definition convert_shared (c : cache) (t : thread) (e : exprid) : zobj * cache :=
  match clookup c e with
  | Some o => (o, c)
  | None => let o := mkObj t e in (o, (e, o) :: c)
  end.

Fixpoint run (s : tls) (reqs : list (thread * exprid)) : list zobj * tls :=
  match reqs with
  | [] => ([], s)
  | (t, e) :: r => let '(o, s1) := convert s t e in let '(os, s2) := run s1 r in (o :: os, s2)
  end.
Fixpoint run_shared (c : cache) (reqs : list (thread * exprid)) : list zobj * cache :=
  match reqs with
  | [] => ([], c)
  | (t, e) :: r => let '(o, c1) := convert_shared c t e in let '(os, c2) := run_shared c1 r in (o :: os, c2)
  end.
