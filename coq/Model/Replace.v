(* C13: the replacement frontend with its default settings (auto_replace, no complex_auto_replace).
   Hand-written from claripy/frontend/replacement_frontend.py: _add (derive a replacement from  Not(b)  and from
   a == k  with exactly one symbolic side; add_replacement(replace=False) keeps an existing mapping), _replacement
   (claripy.replace_dict, modelled by Rewrite.subst) and the queries, which rewrite the expression and ask the actual frontend.
   State: the constraints handed to the actual frontend, the replacement map, and (for the specification) what the caller added. *)
From Coq Require Import ZArith List Bool.
Require Import CV.Model.PyPrelude CV.Model.Ast CV.Model.Build CV.Model.Rewrite CV.Model.Frontend.
Import ListNotations.
Open Scope Z_scope.

Record rstate := mkR { rcs : list expr; rmap : list (expr * expr); rorig : list expr }.

Definition rblank : rstate := mkR [] [] [].

(* the replacement _add derives from a constraint *)
Definition derive (c : expr) : option (expr * expr) :=
  match c with
  | Node OBNot [] [a] _ => Some (a, BoolVe false)
  | Node OEq [] [a; b] _ =>
      if symbolic a && negb (symbolic b) then Some (a, b)
      else if symbolic b && negb (symbolic a) then Some (b, a)
      else None
  | _ => None
  end.

(* add_replacement(old, new, replace=False): an existing mapping for old is kept *)
Definition add_repl (m : list (expr * expr)) (kv : expr * expr) : list (expr * expr) :=
  match lookup m (fst kv) with Some _ => m | None => kv :: m end.

(* _add, one constraint: rewrite it with the replacements known so far, hand it to the actual frontend, then register
   the replacement derived from the constraint as the caller wrote it *)
Definition radd (s : rstate) (c : expr) : res rstate :=
  if negb (symbolic c) then Ok (mkR (rcs s ++ [c]) (rmap s) (rorig s ++ [c])) else
  do c' <- subst (rmap s) [] c;
  let m' := match derive c with Some kv => add_repl (rmap s) kv | None => rmap s end in
  Ok (mkR (rcs s ++ [c']) m' (rorig s ++ [c])).

(* the order of the pinned code: the constraint is rewritten with its own replacement *)
Definition radd_pinned (s : rstate) (c : expr) : res rstate :=
  if negb (symbolic c) then Ok (mkR (rcs s ++ [c]) (rmap s) (rorig s ++ [c])) else
  let m' := match derive c with Some kv => add_repl (rmap s) kv | None => rmap s end in
  do c' <- subst m' [] c;
  Ok (mkR (rcs s ++ [c']) m' (rorig s ++ [c])).

(* a query: the expression the actual frontend is asked about *)
Definition rquery (s : rstate) (e : expr) : res expr := subst (rmap s) [] e.

Fixpoint radd_all (s : rstate) (cs : list expr) : res rstate :=
  match cs with [] => Ok s | c :: r => do s' <- radd s c; radd_all s' r end.
