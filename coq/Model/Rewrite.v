(* Substitution, canonicalisation and the ITE utilities (C08), over the AST model.

   Hand-written from claripy/algorithm/replace.py (replace_dict, replace), claripy/ast/base.py
   (canonicalize), claripy/ast/bool.py (ite_cases, ite_dict, reverse_ite_cases), claripy/ast/bv.py
   (chop, get_bytes) and claripy/algorithm/ite_relocation.py (excavate_ite).
   Object identity ("a is b") is structural equality (hash-consing); the replacement dict is an association list
   in which the first matching key wins (a Python dict has one entry per key).  leaf_operation is the identity.
   Annotations are not modelled (excavate_ite treats annotated nodes as opaque: not represented here). *)
From Coq Require Import ZArith List Bool.
Import ListNotations.
Require Import CV.Model.PyPrelude CV.Model.Ast CV.Model.Build.
Open Scope Z_scope.

Fixpoint sequence_res {A} (l : list (res A)) : res (list A) :=
  match l with
  | [] => Ok []
  | x :: r => do y <- x; do ys <- sequence_res r; Ok (y :: ys)
  end.

Fixpoint lookup (m : list (expr * expr)) (e : expr) : option expr :=
  match m with
  | [] => None
  | (k, v) :: r => if expr_eqb k e then Some v else lookup r e
  end.

Definition var_eqb (a b : bool * Z) : bool := Bool.eqb (fst a) (fst b) && (snd a =? snd b).
Definition has_vars (vs : list (bool * Z)) (e : expr) : bool :=
  forallb (fun v => existsb (var_eqb v) (fvars e)) vs.

Fixpoint list_eqb (a b : list expr) : bool :=
  match a, b with
  | [], [] => true
  | x :: r, y :: s => expr_eqb x y && list_eqb r s
  | _, _ => false
  end.

(* replace_dict(expr, replacements, variable_set): a key that matches wins; sub-expressions lacking a variable of
   variable_set are left alone; a node is rebuilt (make_like: no simplifiers, eager concrete folding) only when an
   argument changed *)
Fixpoint subst (m : list (expr * expr)) (vs : list (bool * Z)) (e : expr) : res expr :=
  match lookup m e with
  | Some r => Ok r
  | None =>
      if negb (has_vars vs e) then Ok e else
      match e with
      | Node op ints args len =>
          do args' <- sequence_res (map (subst m vs) args);
          if list_eqb args args' then Ok e else construct op ints args'
      | _ => Ok e
      end
  end.

(* claripy.replace(expr, old, new) *)
Definition replace (e old new : expr) : res expr :=
  if negb (Bool.eqb (is_bool old) (is_bool new)) then Err OpErr (* ClaripyReplacementError *)
  else subst [(old, new)] (fvars old) e.

(* ---- canonicalize ---- *)

(* leaves, left to right; leaf_asts() pops its work stack from the right, i.e. yields them right to left, each distinct leaf once *)
Fixpoint leaves (e : expr) : list expr :=
  match e with
  | Node _ _ args _ => flat_map leaves args
  | _ => [e]
  end.

(* canonical_<i> is variable id -(i+1) *)
Definition canon_id (i : Z) : Z := - (i + 1).

Fixpoint canon_map (ls : list expr) (ctr : Z) (m : list (expr * expr)) : list (expr * expr) * Z :=
  match ls with
  | [] => (m, ctr)
  | l :: r =>
      match lookup m l with
      | Some _ => canon_map r ctr m
      | None =>
          match l with
          | BVS _ w => canon_map r (ctr + 1) (m ++ [(l, BVS (canon_id ctr) w)])
          | BoolS _ => canon_map r (ctr + 1) (m ++ [(l, BoolS (canon_id ctr))])
          | _ => canon_map r (ctr + 1) m     (* a constant leaf still consumes a number *)
          end
      end
  end.

Definition canonicalize (e : expr) : res (Z * expr) :=
  let '(m, c) := canon_map (dedup (rev (leaves e))) 0 [] in
  do r <- subst m [] e;
  Ok (c, r).

(* ---- case trees ---- *)
Section WithMk.
Variable mkf : mkfun.

(* ite_cases(cases, default) *)
Fixpoint ite_cases (cases : list (expr * expr)) (default : expr) : res expr :=
  match cases with
  | [] => Ok default
  | (c, v) :: r =>
      do sofar <- ite_cases r default;
      do same <- mkf OEq [] [v; sofar];
      if is_true same then Ok sofar else mkf OIf [] [c; v; sofar]
  end.

(* ite_dict(i, d, default): d as the list of its items in insertion order (keys are Python ints);
   fewer than four entries: linear; otherwise the keys are reduced modulo 2^len(i), split at the median key,
   and i <= median (unsigned) selects the half *)
Fixpoint insert_sorted (x : Z) (l : list Z) : list Z :=
  match l with [] => [x] | y :: r => if x <=? y then x :: l else y :: insert_sorted x r end.
Definition sort_keys (l : list Z) : list Z := fold_right insert_sorted [] l.

(* integer keys reduced to the value they denote at the width of i; the first of two equal keys wins (dict.setdefault) *)
Fixpoint norm_keys (n : Z) (d : list (Z * expr)) : list (Z * expr) :=
  match d with
  | [] => []
  | (k, v) :: r => (k mod n, v) :: filter (fun cv => negb (fst cv =? k mod n)) (norm_keys n r)
  end.

Fixpoint ite_dict (fuel : nat) (i : expr) (d : list (Z * expr)) (default : expr) : res expr :=
  match fuel with
  | O => OutOfFuel
  | S f =>
      if (Z.of_nat (length d) <? 4) then
        do cs <- sequence_res (map (fun cv => do c <- mkf OEq [] [i; cbvv (fst cv) (elen i)]; Ok (c, snd cv)) d);
        ite_cases cs default
      else
        let d := norm_keys (2 ^ elen i) d in
        let keys := sort_keys (map fst d) in
        let split := nth (Nat.div (length keys - 1) 2) keys 0 in
        let lo := filter (fun cv => fst cv <=? split) d in
        let hi := filter (fun cv => negb (fst cv <=? split)) d in
        do vlo <- ite_dict f i lo default;
        do vhi <- ite_dict f i hi default;
        do c <- mkf OULE [] [i; cbvv split (elen i)];
        mkf OIf [] [c; vlo; vhi]
  end.

(* reverse_ite_cases(ast): breadth-first over the If tree, yielding (path condition, leaf) *)
Fixpoint rev_cases (fuel : nat) (queue : list (expr * expr)) : res (list (expr * expr)) :=
  match fuel with
  | O => OutOfFuel
  | S f =>
      match queue with
      | [] => Ok []
      | (cond, Node OIf [] [c; t; e] _) :: rest =>
          do c1 <- mkf OBAnd [] [cond; c];
          do nc <- mkf OBNot [] [c];
          do c2 <- mkf OBAnd [] [cond; nc];
          rev_cases f (rest ++ [(c1, t); (c2, e)])
      | (cond, leaf) :: rest =>
          do r <- rev_cases f rest; Ok ((cond, leaf) :: r)
      end
  end.
Definition reverse_ite_cases (fuel : nat) (e : expr) : res (list (expr * expr)) :=
  rev_cases fuel [(BoolVe true, e)].

(* BV.chop(bits) *)
Definition chop (e : expr) (bits : Z) : res (list expr) :=
  let s := elen e in
  if bits <=? 0 then (if bits =? 0 then Crash PyZeroDivision else Err ValueErr) else
  if negb (s mod bits =? 0) then Err ValueErr else
  if s =? bits then Ok [e] else
  do l <- sequence_res (map (fun n => mkf OExtract [(n + 1) * bits - 1; n * bits] [e]) (zrange 0 (s / bits) 1));
  Ok (rev l).

(* BV.get_bytes(index, size) *)
Definition get_bytes (e : expr) (index size : Z) : res expr :=
  let s := elen e in
  let pos := (s + 7) / 8 - 1 - index in
  if pos <? 0 then Err ValueErr else
  if size =? 0 then Err Unmodelled (* BVV(0, 0) *) else
  do r <- mkf OExtract [Z.min (pos * 8 + 7) (s - 1); (pos - size + 1) * 8] [e];
  if negb (elen r mod 8 =? 0) then mkf OZeroExt [8 - elen r mod 8] [r] else Ok r.

(* ---- excavate_ite ---- *)

Definition is_if (e : expr) : bool := is_op OIf e.
Definition if_cond (e : expr) : expr := match e with Node OIf [] (c :: _) _ => c | _ => e end.

(* split the arguments on the condition of the first If among them;
   None: an If with an unrelated condition ("weird conditions -- giving up") *)
Fixpoint split_args (cond ncond : expr) (args : list expr) : option (list expr * list expr) :=
  match args with
  | [] => Some ([], [])
  | a :: r =>
      match split_args cond ncond r with
      | None => None
      | Some (ts, fs) =>
          match a with
          | Node OIf [] [c; t; f] _ =>
              if expr_eqb c cond then Some (t :: ts, f :: fs)
              else if expr_eqb c ncond then Some (f :: ts, t :: fs)
              else None
          | _ => Some (a :: ts, a :: fs)
          end
      end
  end.

Fixpoint excavate (e : expr) : res expr :=
  match e with
  | Node op ints args len =>
      do args' <- sequence_res (map excavate args);
      if opk_eqb op OIf then mkf OIf [] args'
      else match find is_if args' with
           | None => mkf op ints args'
           | Some i =>
               let cond := if_cond i in
               do ncond <- mkf OBNot [] [cond];
               match split_args cond ncond args' with
               | None => mkf op ints args'
               | Some (ts, fs) =>
                   do t <- mkf op ints ts;
                   do f <- mkf op ints fs;
                   mkf OIf [] [cond; t; f]
               end
           end
  | _ => Ok e
  end.
End WithMk.
