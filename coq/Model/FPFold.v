(* C02: the concrete backend's folding of double-precision operations, on Coq's primitive binary64 floats (the same IEEE-754
   binary64 arithmetic, round to nearest even, that Python's float uses).  Hand-written from
   claripy/backends/backend_concrete/fp.py: FPV.__add__/__sub__/__mul__/__truediv__ (with _divide_by_zero, because Python raises
   ZeroDivisionError), FPV.fpSqrt (math.sqrt raises for negative arguments), comparisons, fpIsNaN/fpIsInf, fpAbs/fpNeg.
   Only round-to-nearest-even is folded (_only_nearest_even declines every other mode). *)
From Coq Require Import Floats Bool.
Open Scope float_scope.

Definition fold_add (a b : float) : float := a + b.
Definition fold_sub (a b : float) : float := a - b.
Definition fold_mul (a b : float) : float := a * b.

(* _divide_by_zero(dividend, zero) *)
Definition divide_by_zero (a b : float) : float :=
  if is_zero a || is_nan a then nan
  else if xorb (get_sign a) (get_sign b) then neg_infinity else infinity.

(* FPV.__truediv__: Python raises ZeroDivisionError exactly when the divisor is a zero *)
Definition fold_div (a b : float) : float := if is_zero b then divide_by_zero a b else a / b.

(* the code before the repair: the sign was read off the text of the product a * b ("-..." or not) *)
Definition divide_by_zero_pinned (a b : float) : float :=
  let p := a * b in if negb (is_nan p) && get_sign p then neg_infinity else infinity.
Definition fold_div_pinned (a b : float) : float := if is_zero b then divide_by_zero_pinned a b else a / b.

(* FPV.fpSqrt: `if self.value < 0: nan` else math.sqrt *)
Definition fold_sqrt (a : float) : float := if a <? 0 then nan else sqrt a.

Definition fold_neg (a : float) : float := - a.
Definition fold_abs (a : float) : float := abs a.
Definition fold_lt (a b : float) : bool := a <? b.
Definition fold_le (a b : float) : bool := a <=? b.
Definition fold_eq (a b : float) : bool := a =? b.
Definition fold_is_nan (a : float) : bool := is_nan a.
Definition fold_is_inf (a : float) : bool := is_infinity a.
