(* StridedInterval.bitwise_not, as repaired: the interval is split at the south pole, every piece that holds a member is
   complemented from its last member (not from its upper bound, which need not be one) to its lower bound, and the one or two
   results are joined (least_upper_bound of one = the interval, of two = pseudo_join) and normalised.

   Hand-written from claripy/backends/backend_vsa/strided_interval.py (bitwise_not).  Not modelled: the uninitialized flag. *)
From Coq Require Import ZArith List Bool.
Import ListNotations.
Require Import CV.Model.PyPrelude CV.Gen.SIHelpers CV.Model.SI CV.Model.SICmp CV.Model.SIUnion.
Open Scope Z_scope.

(* tmp = StridedInterval(bits=self.bits, stride=self.stride, lower_bound=~last, upper_bound=~si.lower_bound); ~x = -x - 1 *)
Definition not_piece (w s : Z) (p : si) : res si :=
  do last <- (if 0 <? s then (do r <- py_mod (ub p - lb p) s; Ok (ub p - r)) else Ok (ub p));
  mk w s (- last - 1) (- lb p - 1).

Definition si_not (a : si) : res si :=
  do ps <- ssplit a;
  do rs <- mapM (not_piece (bits a) (stride a)) (filter (fun p => negb (ub p <? lb p)) ps);
  match rs with
  | [] => Crash PyAssert
  | [r] => normalize r
  | [r1; r2] => do u <- si_union r1 r2; normalize u
  | _ => Err Unmodelled
  end.
