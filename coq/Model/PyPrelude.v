(* Prelude for code produced by tools/py2coq.py: the result monad of modelled Python
   functions and the Python integer primitives that can fail.  No proofs here. *)
From Coq Require Import ZArith List Bool String.
Import ListNotations.
Open Scope Z_scope.

(* claripy errors that are documented outcomes *)
Inductive exn :=
| ZeroDiv            (* ClaripyZeroDivisionError *)
| OpErr              (* ClaripyOperationError (e.g. byte-reversal of a non-byte width) *)
| TypeErr            (* ClaripyTypeError (size mismatch, zero-length operands) *)
| ValueErr           (* ClaripyValueError *)
| BackendErr         (* BackendError and subclasses not listed above *)
| VSAErr             (* ClaripyVSAError / ClaripyVSAOperationError *)
| Unmodelled.        (* not a Python outcome: the model does not cover this code path *)

(* Python-level failures that are none of the above *)
Inductive crash :=
| PyZeroDivision     (* ZeroDivisionError from // or % *)
| PyNegShift         (* ValueError: negative shift count *)
| PyMemory           (* MemoryError / OverflowError: a shift that would build an absurdly large int *)
| PyAssert           (* AssertionError *)
| PyType             (* TypeError / AttributeError *)
| PyOther.

Inductive res (A : Type) :=
| Ok (a : A)
| Err (e : exn)
| Crash (k : crash)
| OutOfFuel.
Arguments Ok {A} a.
Arguments Err {A} e.
Arguments Crash {A} k.
Arguments OutOfFuel {A}.

Definition bind {A B} (m : res A) (f : A -> res B) : res B :=
  match m with
  | Ok a => f a
  | Err e => Err e
  | Crash k => Crash k
  | OutOfFuel => OutOfFuel
  end.
Notation "'do' x <- m ; f" := (bind m (fun x => f)) (at level 200, x name, m at level 100, f at level 200).
Notation "'do' ' p <- m ; f" := (bind m (fun p => f)) (at level 200, p pattern, m at level 100, f at level 200).

(* Shift amounts above this are treated as resource exhaustion (a Python int of more
   than 2^24 bits); C04 calls an expression well-sized when its widths are below it. *)
Definition SHIFT_LIMIT : Z := 16777216.

Definition py_shl (a b : Z) : res Z :=
  if b <? 0 then Crash PyNegShift
  else if a =? 0 then Ok 0
  else if SHIFT_LIMIT <? b then Crash PyMemory
  else Ok (Z.shiftl a b).

(* Z.shiftr iterates over the shift amount; shifting past every significant bit is answered at once
   (Proofs/BVLemmas.v: fast_shiftr_eq shows this is Z.shiftr) *)
Definition fast_shiftr (a b : Z) : Z :=
  if Z.log2 (Z.abs a) + 1 <? b then (if a <? 0 then -1 else 0) else Z.shiftr a b.

Definition py_shr (a b : Z) : res Z :=
  if b <? 0 then Crash PyNegShift else Ok (fast_shiftr a b).

Definition py_floordiv (a b : Z) : res Z :=
  if b =? 0 then Crash PyZeroDivision else Ok (a / b).

Definition py_mod (a b : Z) : res Z :=
  if b =? 0 then Crash PyZeroDivision else Ok (a mod b).

Definition py_pow (a b : Z) : res Z :=
  if b <? 0 then Crash PyType
  else if (SHIFT_LIMIT <? b) && negb ((a =? 0) || (a =? 1)) then Crash PyMemory
  else Ok (a ^ b).

(* Python range(a, b, c) for c > 0 *)
Definition zrange (a b c : Z) : list Z :=
  map (fun k => a + c * Z.of_nat k) (seq 0 (Z.to_nat ((b - a + c - 1) / c))).

(* int.bit_length() *)
Definition bit_length (a : Z) : Z := match Z.abs a with 0 => 0 | x => Z.log2 x + 1 end.

Fixpoint mapM {A B} (f : A -> res B) (l : list A) : res (list B) :=
  match l with
  | [] => Ok []
  | x :: r => do y <- f x; do ys <- mapM f r; Ok (y :: ys)
  end.

Fixpoint foldM {A S} (f : S -> A -> res S) (l : list A) (s : S) : res S :=
  match l with
  | [] => Ok s
  | x :: r => do s' <- f s x; foldM f r s'
  end.

(* while loops: [body s] returns either the next state (continue) or the final answer *)
Inductive loop_step (S R : Type) := Continue (s : S) | Done (r : R).
Arguments Continue {S R} s.
Arguments Done {S R} r.
Fixpoint while_loop {S R} (fuel : nat) (body : S -> res (loop_step S R)) (s : S) : res R :=
  match fuel with
  | O => OutOfFuel
  | S n => do st <- body s;
           match st with
           | Continue s' => while_loop n body s'
           | Done r => Ok r
           end
  end.
