(* The meaning of the Z3 operators of the bitvector/Boolean fragment (SMT-LIB, from Spec/BV.v), by Z3 declaration-kind
   name and by Z3_mk_* constructor name, and the meaning claripy gives to its operation names (Model/Ast.v eval_op).
   Used to check the tables regenerated from backend_z3.py (Gen/Z3OpMap.v). *)
From Coq Require Import ZArith List Bool String.
Import ListNotations.
Require Import CV.Spec.BV CV.Model.BVExec CV.Model.Ast.
Open Scope string_scope.

Definition sem := list Z -> list value -> option value.

(* claripy operation names *)
Definition opk_of_name (n : string) : option opk :=
  match n with
  | "__add__" => Some OAdd | "__sub__" => Some OSub | "__mul__" => Some OMul | "__floordiv__" => Some OUDiv
  | "__mod__" => Some OURem | "SDiv" => Some OSDiv | "SMod" => Some OSMod | "__neg__" => Some ONeg
  | "__invert__" => Some OInvert | "__and__" => Some OAnd | "__or__" => Some OOr | "__xor__" => Some OXor
  | "__lshift__" => Some OShl | "__rshift__" => Some OAShr | "LShR" => Some OLShr | "RotateLeft" => Some ORotL
  | "RotateRight" => Some ORotR | "Concat" => Some OConcat | "Extract" => Some OExtract | "ZeroExt" => Some OZeroExt
  | "SignExt" => Some OSignExt | "__eq__" => Some OEq | "__ne__" => Some ONe | "ULT" => Some OULT | "ULE" => Some OULE
  | "UGT" => Some OUGT | "UGE" => Some OUGE | "SLT" => Some OSLT | "SLE" => Some OSLE | "SGT" => Some OSGT
  | "SGE" => Some OSGE | "And" => Some OBAnd | "Or" => Some OBOr | "Not" => Some OBNot | "If" => Some OIf
  | _ => None
  end.
Definition csem (n : string) : option sem := option_map eval_op (opk_of_name n).

(* SMT-LIB meaning of the Z3 operators, written with the same building blocks as eval_op *)
Definition z_ne : sem := fun ints vs =>
  match ints, vs with
  | [], [VBV w x; VBV w' y] => if (w =? w')%Z then Some (VBool (negb (x =? y)%Z)) else None
  | [], [VBool x; VBool y] => Some (VBool (negb (Bool.eqb x y)))
  | _, _ => None
  end.
Definition z_eq : sem := fun ints vs =>
  match ints, vs with
  | [], [VBV w x; VBV w' y] => if (w =? w')%Z then Some (VBool (x =? y)%Z) else None
  | [], [VBool x; VBool y] => Some (VBool (Bool.eqb x y))
  | _, _ => None
  end.
Definition z_bin (f : Z -> Z -> Z -> Z) : sem := fun ints vs => match ints, vs with [], [a; b] => bin_bv f a b | _, _ => None end.
Definition z_nary (f : Z -> Z -> Z -> Z) : sem := fun ints vs => match ints with [] => nary (bin_bv f) vs | _ => None end.
Definition z_cmp (f : Z -> Z -> Z -> bool) : sem := fun ints vs => match ints, vs with [], [a; b] => cmp_bv f a b | _, _ => None end.

Definition zsem_kind (n : string) : option sem :=
  match n with
  | "Z3_OP_BADD" => Some (z_nary bvadd) | "Z3_OP_BMUL" => Some (z_nary bvmul) | "Z3_OP_BAND" => Some (z_nary bvand)
  | "Z3_OP_BOR" => Some (z_nary bvor) | "Z3_OP_BXOR" => Some (z_nary bvxor) | "Z3_OP_BSUB" => Some (z_bin bvsub)
  | "Z3_OP_BUDIV" | "Z3_OP_BUDIV_I" => Some (z_bin bvudiv)
  | "Z3_OP_BUREM" | "Z3_OP_BUREM_I" => Some (z_bin bvurem)
  | "Z3_OP_BSDIV" | "Z3_OP_BSDIV_I" => Some (z_bin bvsdiv)
  | "Z3_OP_BSREM" | "Z3_OP_BSREM_I" => Some (z_bin bvsrem)
  | "Z3_OP_BSMOD" | "Z3_OP_BSMOD_I" => Some (z_bin bvsmod)
  | "Z3_OP_BSHL" => Some (z_bin bvshl_x) | "Z3_OP_BASHR" => Some (z_bin bvashr_x) | "Z3_OP_BLSHR" => Some (z_bin bvlshr_x)
  | "Z3_OP_EXT_ROTATE_LEFT" => Some (z_bin rotate_left) | "Z3_OP_EXT_ROTATE_RIGHT" => Some (z_bin rotate_right)
  | "Z3_OP_BNEG" => Some (eval_op ONeg) | "Z3_OP_BNOT" => Some (eval_op OInvert)
  | "Z3_OP_CONCAT" => Some (eval_op OConcat) | "Z3_OP_EXTRACT" => Some (eval_op OExtract)
  | "Z3_OP_ZERO_EXT" => Some (eval_op OZeroExt) | "Z3_OP_SIGN_EXT" => Some (eval_op OSignExt)
  | "Z3_OP_EQ" => Some z_eq | "Z3_OP_DISTINCT" => Some z_ne
  | "Z3_OP_ULT" => Some (z_cmp (fun _ => bvult)) | "Z3_OP_ULEQ" => Some (z_cmp (fun _ => bvule))
  | "Z3_OP_UGT" => Some (z_cmp (fun _ => bvugt)) | "Z3_OP_UGEQ" => Some (z_cmp (fun _ => bvuge))
  | "Z3_OP_SLT" => Some (z_cmp bvslt) | "Z3_OP_SLEQ" => Some (z_cmp bvsle)
  | "Z3_OP_SGT" => Some (z_cmp bvsgt) | "Z3_OP_SGEQ" => Some (z_cmp bvsge)
  | "Z3_OP_AND" => Some (eval_op OBAnd) | "Z3_OP_OR" => Some (eval_op OBOr) | "Z3_OP_NOT" => Some (eval_op OBNot)
  | "Z3_OP_ITE" => Some (eval_op OIf)
  | _ => None
  end.

(* by constructor name *)
Definition zsem_mk (n : string) : option sem :=
  match n with
  | "bvlshr" => Some (z_bin bvlshr_x) | "ext_rotate_left" => Some (z_bin rotate_left) | "ext_rotate_right" => Some (z_bin rotate_right)
  | "sign_ext" => Some (eval_op OSignExt) | "zero_ext" => Some (eval_op OZeroExt) | "extract" => Some (eval_op OExtract)
  | "bvuge" => Some (z_cmp (fun _ => bvuge)) | "bvugt" => Some (z_cmp (fun _ => bvugt))
  | "bvule" => Some (z_cmp (fun _ => bvule)) | "bvult" => Some (z_cmp (fun _ => bvult))
  | "bvsrem" => Some (z_bin bvsrem) | "bvsmod" => Some (z_bin bvsmod) | "not" => Some (eval_op OBNot)
  | _ => None
  end.

(* entries of op_map whose Z3 operator claripy itself never emits and which are known to be mapped to another meaning *)
Definition excepted (zn : string) : bool := (zn =? "Z3_OP_BSMOD") || (zn =? "Z3_OP_BSMOD_I").

(* whenever both sides are in the modelled fragment they mean the same *)
Definition entry_ok (e : string * option string) : Prop :=
  match snd e with
  | None => True
  | Some cn =>
      if excepted (fst e) then True else
      match zsem_kind (fst e), csem cn with
      | Some f, Some g => forall ints vs, f ints vs = g ints vs
      | _, _ => True
      end
  end.
Definition raw_ok (e : string * string) : Prop :=
  match zsem_mk (snd e), csem (fst e) with
  | Some f, Some g => forall ints vs, f ints vs = g ints vs
  | _, _ => True
  end.
(* how many entries the statements above actually constrain *)
Definition covered (e : string * option string) : bool :=
  match snd e with
  | Some cn => negb (excepted (fst e)) && match zsem_kind (fst e), csem cn with Some _, Some _ => true | _, _ => false end
  | None => false
  end.
