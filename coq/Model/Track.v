(* C16: constraint tracking for unsat cores.  Hand-written from claripy/backends/backend_z3.py: _add(track=True) asserts each
   constraint under the name str(hash(z3 constraint)) unless that name is already tracked; _unsat_core returns the tracked
   constraints whose names Z3 reports.  The name function is a parameter (Z3's AST hash). *)
From Coq Require Import ZArith List Bool.
Require Import CV.Model.PyPrelude CV.Model.Ast CV.Model.Frontend.
Import ListNotations.
Open Scope Z_scope.

Section Track.
Variable name : expr -> Z.

Definition tracked := list (Z * expr).       (* solver.assertions(): (name, constraint) in assertion order *)

Definition has_name (st : tracked) (n : Z) : bool := existsb (fun p => fst p =? n) st.

(* _add(s, c, track=True) *)
Fixpoint track_add (st : tracked) (cs : list expr) : tracked :=
  match cs with
  | [] => st
  | c :: r => if has_name st (name c) then track_add st r else track_add (st ++ [(name c, c)]) r
  end.

(* _unsat_core(s): the tracked constraints whose names are in the core Z3 reports *)
Definition core_of (st : tracked) (names : list Z) : list expr :=
  map snd (filter (fun p => existsb (Z.eqb (fst p)) names) st).

Definition asserted (st : tracked) : list expr := map snd st.
End Track.
