(* The shared AST model: claripy bitvector / Boolean expressions, their denotation in the
   SMT-LIB semantics of Spec/BV.v, and well-formedness.  No proofs here. *)
From Coq Require Import ZArith List Bool.
Require Import CV.Spec.BV CV.Model.BVExec.
Import ListNotations.
Open Scope Z_scope.

Inductive opk :=
| OAdd | OSub | OMul | OUDiv | OURem | OSDiv | OSMod
| ONeg | OInvert | OAnd | OOr | OXor | OShl | OAShr | OLShr | ORotL | ORotR
| OConcat | OExtract | OZeroExt | OSignExt | OReverse
| OEq | ONe | OULT | OULE | OUGT | OUGE | OSLT | OSLE | OSGT | OSGE
| OBAnd | OBOr | OBNot | OIf.

Definition opk_eqb (a b : opk) : bool :=
  match a, b with
  | OAdd, OAdd | OSub, OSub | OMul, OMul | OUDiv, OUDiv | OURem, OURem | OSDiv, OSDiv | OSMod, OSMod
  | ONeg, ONeg | OInvert, OInvert | OAnd, OAnd | OOr, OOr | OXor, OXor | OShl, OShl | OAShr, OAShr
  | OLShr, OLShr | ORotL, ORotL | ORotR, ORotR | OConcat, OConcat | OExtract, OExtract
  | OZeroExt, OZeroExt | OSignExt, OSignExt | OReverse, OReverse | OEq, OEq | ONe, ONe
  | OULT, OULT | OULE, OULE | OUGT, OUGT | OUGE, OUGE | OSLT, OSLT | OSLE, OSLE | OSGT, OSGT
  | OSGE, OSGE | OBAnd, OBAnd | OBOr, OBOr | OBNot, OBNot | OIf, OIf => true
  | _, _ => false
  end.

(* [Node op ints args len]: integer parameters first (Extract hi lo, ZeroExt n), then AST
   arguments; [len] is the stored bit length, -1 for Booleans. *)
Inductive expr :=
| BVS (name : Z) (w : Z)      (* variables are identified by an integer id; the harness keeps the name table *)
| BVVe (v w : Z)
| BoolS (name : Z)
| BoolVe (b : bool)
| Node (op : opk) (ints : list Z) (args : list expr) (len : Z).

Inductive value := VBV (w v : Z) | VBool (b : bool).

Record env := mkEnv { bvenv : Z -> Z; boolenv : Z -> bool }.

Definition elen (e : expr) : Z :=
  match e with
  | BVS _ w => w | BVVe _ w => w | BoolS _ => -1 | BoolVe _ => -1 | Node _ _ _ l => l
  end.

(* ---- denotation ---- *)

Definition bin_bv (f : Z -> Z -> Z -> Z) (a b : value) : option value :=
  match a, b with
  | VBV w x, VBV w' y => if w =? w' then Some (VBV w (f w x y)) else None
  | _, _ => None
  end.
Definition cmp_bv (f : Z -> Z -> Z -> bool) (a b : value) : option value :=
  match a, b with
  | VBV w x, VBV w' y => if w =? w' then Some (VBool (f w x y)) else None
  | _, _ => None
  end.

Fixpoint fold_bin (f : value -> value -> option value) (acc : value) (l : list value) : option value :=
  match l with
  | [] => Some acc
  | x :: r => match f acc x with Some a => fold_bin f a r | None => None end
  end.
Definition nary (f : value -> value -> option value) (l : list value) : option value :=
  match l with [] => None | x :: r => fold_bin f x r end.

Definition bool_bin (f : bool -> bool -> bool) (a b : value) : option value :=
  match a, b with VBool x, VBool y => Some (VBool (f x y)) | _, _ => None end.

Definition concat2 (a b : value) : option value :=
  match a, b with
  | VBV wa x, VBV wb y => Some (VBV (wa + wb) (bvconcat wb x y))
  | _, _ => None
  end.

(* claripy's operator names and what they denote:
   __floordiv__ = bvudiv, __mod__ = bvurem, SDiv = bvsdiv, SMod = bvsrem (what the Z3 backend sends),
   __rshift__ = bvashr, LShR = bvlshr. *)
Definition eval_op (op : opk) (ints : list Z) (vs : list value) : option value :=
  match op, ints, vs with
  | OAdd, [], _ => nary (bin_bv bvadd) vs
  | OMul, [], _ => nary (bin_bv bvmul) vs
  | OAnd, [], _ => nary (bin_bv bvand) vs
  | OOr, [], _ => nary (bin_bv bvor) vs
  | OXor, [], _ => nary (bin_bv bvxor) vs
  | OSub, [], [a; b] => bin_bv bvsub a b
  | OUDiv, [], [a; b] => bin_bv bvudiv a b
  | OURem, [], [a; b] => bin_bv bvurem a b
  | OSDiv, [], [a; b] => bin_bv bvsdiv a b
  | OSMod, [], [a; b] => bin_bv bvsrem a b
  | OShl, [], [a; b] => bin_bv bvshl_x a b
  | OAShr, [], [a; b] => bin_bv bvashr_x a b
  | OLShr, [], [a; b] => bin_bv bvlshr_x a b
  | ORotL, [], [a; b] => bin_bv rotate_left a b
  | ORotR, [], [a; b] => bin_bv rotate_right a b
  | ONeg, [], [VBV w x] => Some (VBV w (bvneg w x))
  | OInvert, [], [VBV w x] => Some (VBV w (bvnot w x))
  | OReverse, [], [VBV w x] => if w mod 8 =? 0 then Some (VBV w (bvreverse w x)) else None
  | OConcat, [], _ => nary concat2 vs
  | OExtract, [hi; lo], [VBV w x] =>
      if (0 <=? lo) && (lo <=? hi) && (hi <? w) then Some (VBV (hi - lo + 1) (bvextract hi lo x)) else None
  | OZeroExt, [n], [VBV w x] => if 0 <=? n then Some (VBV (w + n) (zero_extend n x)) else None
  | OSignExt, [n], [VBV w x] => if 0 <=? n then Some (VBV (w + n) (sign_extend w n x)) else None
  | OEq, [], [VBV w x; VBV w' y] => if w =? w' then Some (VBool (x =? y)) else None
  | ONe, [], [VBV w x; VBV w' y] => if w =? w' then Some (VBool (negb (x =? y))) else None
  | OEq, [], [VBool x; VBool y] => Some (VBool (Bool.eqb x y))
  | ONe, [], [VBool x; VBool y] => Some (VBool (negb (Bool.eqb x y)))
  | OULT, [], [a; b] => cmp_bv (fun _ => bvult) a b
  | OULE, [], [a; b] => cmp_bv (fun _ => bvule) a b
  | OUGT, [], [a; b] => cmp_bv (fun _ => bvugt) a b
  | OUGE, [], [a; b] => cmp_bv (fun _ => bvuge) a b
  | OSLT, [], [a; b] => cmp_bv bvslt a b
  | OSLE, [], [a; b] => cmp_bv bvsle a b
  | OSGT, [], [a; b] => cmp_bv bvsgt a b
  | OSGE, [], [a; b] => cmp_bv bvsge a b
  | OBAnd, [], _ => nary (bool_bin andb) vs
  | OBOr, [], _ => nary (bool_bin orb) vs
  | OBNot, [], [VBool x] => Some (VBool (negb x))
  | OIf, [], [VBool c; VBV w x; VBV w' y] => if w =? w' then Some (VBV w (if c then x else y)) else None
  | OIf, [], [VBool c; VBool x; VBool y] => Some (VBool (if c then x else y))
  | _, _, _ => None
  end.

Fixpoint sequence {A} (l : list (option A)) : option (list A) :=
  match l with
  | [] => Some []
  | Some x :: r => match sequence r with Some xs => Some (x :: xs) | None => None end
  | None :: _ => None
  end.

Fixpoint eval (rho : env) (e : expr) : option value :=
  match e with
  | BVS n w => Some (VBV w (wrap w (bvenv rho n)))
  | BVVe v w => Some (VBV w v)
  | BoolS n => Some (VBool (boolenv rho n))
  | BoolVe b => Some (VBool b)
  | Node op ints args _ =>
      match sequence (map (eval rho) args) with
      | Some vs => eval_op op ints vs
      | None => None
      end
  end.

(* ---- structural helpers used by the construction model ---- *)

Fixpoint symbolic (e : expr) : bool :=
  match e with
  | BVS _ _ | BoolS _ => true
  | BVVe _ _ | BoolVe _ => false
  | Node _ _ args _ => existsb symbolic args
  end.

Fixpoint depth (e : expr) : nat :=
  match e with
  | Node _ _ args _ => S (fold_right (fun a m => Nat.max (depth a) m) O args)
  | _ => 1%nat
  end.

Fixpoint expr_eqb (a b : expr) : bool :=
  match a, b with
  | BVS n w, BVS n' w' => (n =? n') && (w =? w')
  | BVVe v w, BVVe v' w' => (v =? v') && (w =? w')
  | BoolS n, BoolS n' => n =? n'
  | BoolVe x, BoolVe y => Bool.eqb x y
  | Node op i a l, Node op' i' a' l' =>
      opk_eqb op op' && (l =? l')
      && (fix zs (x y : list Z) := match x, y with
            | [], [] => true | p :: r, q :: s => (p =? q) && zs r s | _, _ => false end) i i'
      && (fix es (x y : list expr) := match x, y with
            | [], [] => true | p :: r, q :: s => expr_eqb p q && es r s | _, _ => false end) a a'
  | _, _ => false
  end.

Definition is_bool (e : expr) : bool := elen e <? 0.

Definition op_of (e : expr) : option opk := match e with Node op _ _ _ => Some op | _ => None end.
Definition args_of (e : expr) : list expr := match e with Node _ _ a _ => a | _ => [] end.
Definition ints_of (e : expr) : list Z := match e with Node _ i _ _ => i | _ => [] end.
Definition is_op (o : opk) (e : expr) : bool := match e with Node op _ _ _ => opk_eqb op o | _ => false end.
Definition bvv_val (e : expr) : option Z := match e with BVVe v _ => Some v | _ => None end.
Definition is_bvv (e : expr) : bool := match e with BVVe _ _ => true | _ => false end.

(* free variables: (is_bool, id) *)
Fixpoint fvars (e : expr) : list (bool * Z) :=
  match e with
  | BVS n _ => [(false, n)]
  | BoolS n => [(true, n)]
  | BVVe _ _ | BoolVe _ => []
  | Node _ _ args _ => flat_map fvars args
  end.

(* a Boolean expression holds under rho *)
Definition holds (rho : env) (c : expr) : bool := match eval rho c with Some (VBool true) => true | _ => false end.
