(* Lifting an abstract domain to sets of abstract values (discrete strided-interval sets) and to region-indexed value sets (C23).
   Hand-written from claripy/backends/backend_vsa/discrete_strided_interval_set.py (apply_on_each_si, collapse, normalize)
   and valueset.py (__add__/__sub__ per region, union).  The element domain and its operations are parameters; element
   operations may fail (res), as the strided-interval model's do. *)
From Coq Require Import ZArith List Bool.
Require Import CV.Model.PyPrelude.
Import ListNotations.
Open Scope Z_scope.

Section Lift.
Variable A : Type.
Variable f2 : A -> A -> res A.     (* the element-level transfer function *)
Variable join : A -> A -> A.       (* the element-level union *)
Variable card : A -> Z.            (* the element-level cardinality *)

(* apply_on_each_si, binary: every pair (a in self, b in other) *)
Definition lift2 (s t : list A) : res (list A) := mapM (fun ab => f2 (fst ab) (snd ab)) (list_prod s t).
(* unary *)
Definition lift1 (f1 : A -> res A) (s : list A) : res (list A) := mapM f1 s.
(* collapse(): the join of all members *)
Definition collapse (s : list A) : list A := match s with [] => [] | a :: r => [fold_left join r a] end.
(* DSIS.cardinality: the sum of the members' cardinalities; normalize(): collapse when it exceeds max_cardinality *)
Definition total_card (s : list A) : Z := fold_right (fun a n => card a + n) 0 s.
Definition normalize (max : Z) (s : list A) : list A := if max <? total_card s then collapse s else s.

(* value sets: region -> element *)
Variable R : Type.
Variable r_eqb : R -> R -> bool.
Definition vset := list (R * A).
Fixpoint vget (v : vset) (r : R) : option A :=
  match v with [] => None | (k, a) :: rest => if r_eqb k r then Some a else vget rest r end.
(* __add__/__sub__/__and__ with a region-less operand: applied in every region *)
Definition vmap (g : A -> res A) (v : vset) : res vset := mapM (fun ra => do b <- g (snd ra); Ok (fst ra, b)) v.
(* union: the regions of both operands; joined where both have one *)
Fixpoint vunion (v w : vset) : vset :=
  match v with
  | [] => w
  | (r, a) :: rest =>
      match vget w r with
      | Some b => (r, join a b) :: vunion rest (filter (fun kb => negb (r_eqb (fst kb) r)) w)
      | None => (r, a) :: vunion rest w
      end
  end.
End Lift.
