(* StridedInterval.pseudo_join(s, b, smart_join), union / least_upper_bound of two intervals = pseudo_join(s, b, True), and
   least_upper_bound of any number of intervals (the candidate joins of every rotation of the sorted list, the one with the
   fewest values).
   Hand-written from claripy/backends/backend_vsa/strided_interval.py: pseudo_join, _is_surrounded, _surrounds_member,
   is_top, n_values.  The modular differences are written with mod directly (the translated helpers _modular_sub,
   _wrapped_cardinality, _lex_lte are proved equal to that in Proofs/SISound.v).  Reversed intervals and the uninitialized
   flag are not modelled. *)
From Coq Require Import ZArith List Bool.
Require Import CV.Model.PyPrelude CV.Gen.SIHelpers CV.Model.SI.
Open Scope Z_scope.

Definition modN (a : si) (v : Z) : Z := v mod 2 ^ bits a.

(* _surrounds_member(v): v lies on the arc from lb to ub *)
Definition surrounds (a : si) (v : Z) : bool := modN a (v - lb a) <=? modN a (ub a - lb a).

Definition is_top (a : si) : bool := (stride a =? 1) && (lb a =? modN a (ub a + 1)).

(* _is_surrounded(self=a, b): the arc of a lies within the arc of b *)
Definition is_surrounded (a b : si) : bool :=
  if bot a then true
  else if is_top a && is_top b then true
  else if is_top a then false
  else if is_top b then true
  else surrounds b (lb a) && surrounds b (ub a) &&
       (((lb b =? lb a) && (ub b =? ub a)) || negb (surrounds a (lb b)) || negb (surrounds a (ub b))).

(* n_values = 1 for stride 0 (a single value), else _wrapped_cardinality(lb, ub, bits) // stride + 1 *)
Definition n_values (a : si) : res Z :=
  if stride a =? 0 then Ok 1 else
  do q <- py_floordiv (modN a (ub a - lb a) + 1) (stride a); Ok (q + 1).

(* pseudo_join(s, b, smart_join) *)
Definition si_join (smart : bool) (a b : si) : res si :=
  if negb (bits a =? bits b) then Crash PyAssert else
  let w := bits a in
  if bot a then Ok b else if bot b then Ok a else
  if is_integer a && is_integer b then
    let upper := if smart then Z.max (ub a) (ub b) else ub b in
    let lower := if smart then Z.min (lb a) (lb b) else lb a in
    mk w (modN a (upper - lower)) lower upper
  else if is_surrounded a b then
    let g0 := if negb (is_integer a) then Z.gcd (stride a) (stride b) else stride b in
    mk w (Z.gcd g0 (modN a (lb a - lb b))) (lb b) (ub b)
  else if is_surrounded b a then
    let g0 := if negb (is_integer b) then Z.gcd (stride a) (stride b) else stride a in
    mk w (Z.gcd g0 (modN a (lb b - lb a))) (lb a) (ub a)
  else if surrounds a (lb b) && surrounds a (ub b) && surrounds b (lb a) && surrounds b (ub a) then top w
  else if surrounds a (lb b) then
    mk w (Z.gcd (Z.gcd (stride a) (stride b)) (modN a (lb b - lb a))) (lb a) (ub b)
  else if surrounds b (lb a) then
    mk w (Z.gcd (Z.gcd (stride a) (stride b)) (modN a (lb a - lb b))) (lb b) (ub a)
  else
    let g0 := if is_integer a then stride b else if is_integer b then stride a else Z.gcd (stride a) (stride b) in
    if negb smart then
      (* the operands are joined in the order given: from a to b; _wrapped_cardinality(lb a, lb b) - 1 = (lb b - lb a) mod 2^w *)
      mk w (Z.gcd g0 (modN a (lb b - lb a))) (lb a) (ub b)
    else
    do si1 <- mk w (Z.gcd g0 (modN a (lb a - lb b))) (lb b) (ub a);
    do si2 <- mk w (Z.gcd g0 (modN a (lb b - lb a))) (lb a) (ub b);
    do n1 <- n_values si1;
    do n2 <- n_values si2;
    if n1 <=? n2 then Ok si1 else Ok si2.

(* union / _union / least_upper_bound of two *)
Definition si_union (a b : si) : res si := si_join true a b.

(* sorted(intervals, key=lambda x: x.lower_bound): a stable sort *)
Fixpoint insert_lb (x : si) (l : list si) : list si :=
  match l with
  | nil => x :: nil
  | y :: r => if lb x <? lb y then x :: l else y :: insert_lb x r
  end.
Definition sort_lb (l : list si) : list si := fold_left (fun acc x => insert_lb x acc) l nil.

(* reduce(lambda x, y: pseudo_join(x, y, False), l) *)
Definition join_fold (l : list si) : res si :=
  match l with nil => Crash PyAssert | x :: r => foldM (si_join false) r x end.

(* the candidate with the fewest values; the first one wins a tie (ret.n_values > si.n_values replaces) *)
Fixpoint pick_least (best : si) (nb : Z) (cands : list si) : res si :=
  match cands with
  | nil => Ok best
  | c :: r => do nc <- n_values c; if nc <? nb then pick_least c nc r else pick_least best nb r
  end.

(* StridedInterval.least_upper_bound of a list of intervals *)
Definition si_lub (l : list si) : res si :=
  match l with
  | nil => Crash PyAssert
  | x :: nil => Ok x
  | x :: y :: nil => if negb (bits x =? bits y) then Crash PyAssert else si_join true x y
  | x :: _ =>
    if negb (forallb (fun y => bits y =? bits x) l) then Crash PyAssert else
    let s := sort_lb l in
    do cands <- mapM (fun i => join_fold (skipn i s ++ firstn i s)) (seq 0 (length s));
    match cands with
    | nil => Crash PyAssert
    | c :: r => do nc <- n_values c; pick_least c nc r
    end
  end.
