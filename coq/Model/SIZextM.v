(* StridedInterval.zero_extend, as repaired: an interval that does not wrap around 2^bits is only relabelled with the new
   width; one that does is split at the south pole, the pieces that hold members are relabelled and joined
   (least_upper_bound of one = the piece, of two = pseudo_join).
   Hand-written from claripy/backends/backend_vsa/strided_interval.py (zero_extend).  Not modelled: the uninitialized flag. *)
From Coq Require Import ZArith List Bool.
Import ListNotations.
Require Import CV.Model.PyPrelude CV.Gen.SIHelpers CV.Model.SI CV.Model.SICmp CV.Model.SIUnion.
Open Scope Z_scope.

(* si = self.copy(); si._bits = new_length *)
Definition relabel (a : si) (n : Z) : si := mkSI n (stride a) (lb a) (ub a) (bot a).

Definition si_zext (a : si) (n : Z) : res si :=
  if bot a || (lb a <=? ub a) then Ok (relabel a n) else
  do ps <- ssplit a;
  match filter (fun p => negb (ub p <? lb p)) ps with
  | [] => Crash PyAssert
  | [p] => Ok (relabel p n)
  | [p1; p2] => si_union (relabel p1 n) (relabel p2 n)
  | _ => Err Unmodelled
  end.
