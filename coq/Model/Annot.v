(* The annotation bookkeeping of expressions and operations._handle_annotations (C07).

   Hand-written from claripy/ast/base.py (Base.__new__, make_like/_apply_to_annotations) and claripy/operations.py
   (_handle_annotations).  An expression is abstracted to what the annotation logic reads: its own annotation tuple,
   the non-eliminatable non-relocatable ("pinned") annotations inherited from its sub-expressions, and its relocatable
   set.  Annotation.relocate is the default one (a relocatable annotation relocates as itself). *)
From Coq Require Import ZArith List Bool.
Import ListNotations.
Open Scope Z_scope.

Inductive akind := KElim | KPinned | KReloc.
Definition ann := (Z * akind)%type.
Definition akind_eqb (a b : akind) : bool :=
  match a, b with KElim, KElim | KPinned, KPinned | KReloc, KReloc => true | _, _ => false end.
Definition ann_eqb (a b : ann) : bool := (fst a =? fst b) && akind_eqb (snd a) (snd b).
Definition amem (a : ann) (l : list ann) : bool := existsb (ann_eqb a) l.
Definition is_pinned (a : ann) : bool := akind_eqb (snd a) KPinned.
Definition is_reloc (a : ann) : bool := akind_eqb (snd a) KReloc.

Fixpoint aunion (a b : list ann) : list ann :=
  match a with [] => b | x :: r => if amem x b then aunion r b else x :: aunion r b end.
Fixpoint adedup (l : list ann) : list ann :=
  match l with [] => [] | x :: r => if amem x r then adedup r else x :: adedup r end.

Record anode := mkA {
  own : list ann;          (* .annotations *)
  kids_unel : list ann;    (* union of the children's _uneliminatable_annotations *)
  reloc : list ann         (* ._relocatable_annotations *)
}.
(* ._uneliminatable_annotations *)
Definition unel (n : anode) : list ann := aunion (filter is_pinned (own n)) (kids_unel n).

(* Base.__new__(op, args, annotations=given): children's relocatable annotations join the node's own tuple *)
Definition build (given : list ann) (kids : list anode) : anode :=
  let r := fold_right (fun k acc => aunion (reloc k) acc) (filter is_reloc given) kids in
  mkA (adedup (given ++ r)) (fold_right (fun k acc => aunion (unel k) acc) [] kids) r.

(* _apply_to_annotations (skip_child_annotations=True): the caller manages the tuple; sub-expressions are unchanged *)
Definition reannotate (n : anode) (tuple : list ann) : anode :=
  mkA tuple (kids_unel n) (filter is_reloc tuple).
Definition append_annotation (n : anode) (a : ann) : anode := reannotate n (own n ++ [a]).

(* operations._handle_annotations(simp, args) *)
Fixpoint relocate_all (preserved : list ann) (todo : list ann) (relocated : list ann) (simp : anode) : list ann * anode :=
  match todo with
  | [] => (relocated, simp)
  | oa :: r =>
      if amem oa preserved || amem oa relocated then relocate_all preserved r relocated simp
      else relocate_all preserved r (oa :: relocated) (append_annotation simp oa)
  end.

Fixpoint handle_loop (preserved : list ann) (args : list anode) (relocated : list ann) (simp : anode) (bad : nat)
  : anode * nat :=
  match args with
  | [] => (simp, bad)
  | aa :: r =>
      let '(relocated', simp') := relocate_all preserved (reloc aa) relocated simp in
      let missing := filter (fun p => negb (amem p (unel simp'))) (unel aa) in
      handle_loop preserved r relocated' simp' (bad + length missing)
  end.

Definition handle_annotations (simp : anode) (args : list anode) : option anode :=
  let '(r, bad) := handle_loop (reloc simp) args [] simp 0 in
  match bad with O => Some r | _ => None end.
