(* The key under which Base.__new__ hash-conses an expression (C06): claripy/ast/base.py _ast_serialize / _arg_serialize.
   Bytes are integers 0..255.  Modelled: the integer encoding (to_bytes((bit_length+15)//8, "little", signed=True)) and the
   framing of a node whose arguments are expressions (each serialised as its 8-byte hash), with annotations (8-byte Python
   hashes) and the optional 8-byte length:   '{' op  ('<' h8 '>')*  ('(' h8 ')')*  [len8]  '}'
   blake2b and the Python hash of annotation objects are oracles. *)
From Coq Require Import ZArith List Bool.
Import ListNotations.
Open Scope Z_scope.

(* ---- integers ---- *)
Definition bit_length (z : Z) : Z := match Z.abs z with 0 => 0 | x => Z.log2 x + 1 end.
Definition nbytes (z : Z) : Z := (bit_length z + 15) / 8.
Fixpoint le_bytes (n : nat) (v : Z) : list Z :=
  match n with O => [] | S k => (v mod 256) :: le_bytes k (v / 256) end.
(* int.to_bytes(n, "little", signed=True) *)
Definition enc_int (z : Z) : list Z := le_bytes (Z.to_nat (nbytes z)) (z mod 256 ^ nbytes z).
Fixpoint le_value (l : list Z) : Z := match l with [] => 0 | b :: r => b + 256 * le_value r end.
(* int.from_bytes(b, "little", signed=True) *)
Definition dec_int (l : list Z) : Z :=
  let n := Z.of_nat (length l) in
  let u := le_value l in
  if u <? 256 ^ n / 2 then u else u - 256 ^ n.

(* ---- framing ---- *)
Definition LT : Z := 60.  Definition GT : Z := 62.  Definition LP : Z := 40.  Definition RP : Z := 41.
Definition item (o c : Z) (h : list Z) : list Z := o :: h ++ [c].
Definition body (args anns : list (list Z)) (len : option (list Z)) : list Z :=
  concat (map (item LT GT) args) ++ concat (map (item LP RP) anns) ++ match len with Some l => l | None => [] end.

(* the inverse: the total length decides whether a length field is present and how many items there are; the first byte
   of each 10-byte item says whether it is an argument or an annotation *)
Fixpoint chunks (n : nat) (s : list Z) : list (list Z) :=
  match n with O => [] | S k => firstn 10 s :: chunks k (skipn 10 s) end.
Definition payload (c : list Z) : list Z := firstn 8 (skipn 1 c).
Definition is_arg (c : list Z) : bool := match c with x :: _ => x =? LT | [] => false end.
Definition unbody (s : list Z) : list (list Z) * list (list Z) * option (list Z) :=
  let t := length s in
  let has_len := Nat.eqb (Nat.modulo t 10) 8 in
  let k := Nat.div t 10 in
  let cs := chunks k s in
  (map payload (filter is_arg cs), map payload (filter (fun c => negb (is_arg c)) cs),
   if has_len then Some (skipn (10 * k) s) else None).
