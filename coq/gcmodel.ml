
(** val negb : bool -> bool **)

let negb = function
| true -> false
| false -> true

type nat =
| O
| S of nat

type comparison =
| Eq
| Lt
| Gt

(** val compOpp : comparison -> comparison **)

let compOpp = function
| Eq -> Eq
| Lt -> Gt
| Gt -> Lt

(** val pred : nat -> nat **)

let pred n = match n with
| O -> n
| S u -> u

(** val add : nat -> nat -> nat **)

let rec add n m =
  match n with
  | O -> m
  | S p -> S (add p m)

type positive =
| XI of positive
| XO of positive
| XH

type z =
| Z0
| Zpos of positive
| Zneg of positive

(** val eqb : bool -> bool -> bool **)

let eqb b1 b2 =
  if b1 then b2 else if b2 then false else true

module Nat =
 struct
  (** val leb : nat -> nat -> bool **)

  let rec leb n m =
    match n with
    | O -> true
    | S n' -> (match m with
               | O -> false
               | S m' -> leb n' m')

  (** val ltb : nat -> nat -> bool **)

  let ltb n m =
    leb (S n) m
 end

module Pos =
 struct
  (** val succ : positive -> positive **)

  let rec succ = function
  | XI p -> XO (succ p)
  | XO p -> XI p
  | XH -> XO XH

  (** val add : positive -> positive -> positive **)

  let rec add x y =
    match x with
    | XI p ->
      (match y with
       | XI q -> XO (add_carry p q)
       | XO q -> XI (add p q)
       | XH -> XO (succ p))
    | XO p ->
      (match y with
       | XI q -> XI (add p q)
       | XO q -> XO (add p q)
       | XH -> XI p)
    | XH -> (match y with
             | XI q -> XO (succ q)
             | XO q -> XI q
             | XH -> XO XH)

  (** val add_carry : positive -> positive -> positive **)

  and add_carry x y =
    match x with
    | XI p ->
      (match y with
       | XI q -> XI (add_carry p q)
       | XO q -> XO (add_carry p q)
       | XH -> XI (succ p))
    | XO p ->
      (match y with
       | XI q -> XO (add_carry p q)
       | XO q -> XI (add p q)
       | XH -> XO (succ p))
    | XH ->
      (match y with
       | XI q -> XI (succ q)
       | XO q -> XO (succ q)
       | XH -> XI XH)

  (** val pred_double : positive -> positive **)

  let rec pred_double = function
  | XI p -> XI (XO p)
  | XO p -> XI (pred_double p)
  | XH -> XH

  (** val compare_cont : comparison -> positive -> positive -> comparison **)

  let rec compare_cont r x y =
    match x with
    | XI p ->
      (match y with
       | XI q -> compare_cont r p q
       | XO q -> compare_cont Gt p q
       | XH -> Gt)
    | XO p ->
      (match y with
       | XI q -> compare_cont Lt p q
       | XO q -> compare_cont r p q
       | XH -> Gt)
    | XH -> (match y with
             | XH -> r
             | _ -> Lt)

  (** val compare : positive -> positive -> comparison **)

  let compare =
    compare_cont Eq

  (** val eqb : positive -> positive -> bool **)

  let rec eqb p q =
    match p with
    | XI p0 -> (match q with
                | XI q0 -> eqb p0 q0
                | _ -> false)
    | XO p0 -> (match q with
                | XO q0 -> eqb p0 q0
                | _ -> false)
    | XH -> (match q with
             | XH -> true
             | _ -> false)
 end

module Z =
 struct
  (** val double : z -> z **)

  let double = function
  | Z0 -> Z0
  | Zpos p -> Zpos (XO p)
  | Zneg p -> Zneg (XO p)

  (** val succ_double : z -> z **)

  let succ_double = function
  | Z0 -> Zpos XH
  | Zpos p -> Zpos (XI p)
  | Zneg p -> Zneg (Pos.pred_double p)

  (** val pred_double : z -> z **)

  let pred_double = function
  | Z0 -> Zneg XH
  | Zpos p -> Zpos (Pos.pred_double p)
  | Zneg p -> Zneg (XI p)

  (** val pos_sub : positive -> positive -> z **)

  let rec pos_sub x y =
    match x with
    | XI p ->
      (match y with
       | XI q -> double (pos_sub p q)
       | XO q -> succ_double (pos_sub p q)
       | XH -> Zpos (XO p))
    | XO p ->
      (match y with
       | XI q -> pred_double (pos_sub p q)
       | XO q -> double (pos_sub p q)
       | XH -> Zpos (Pos.pred_double p))
    | XH ->
      (match y with
       | XI q -> Zneg (XO q)
       | XO q -> Zneg (Pos.pred_double q)
       | XH -> Z0)

  (** val add : z -> z -> z **)

  let add x y =
    match x with
    | Z0 -> y
    | Zpos x' ->
      (match y with
       | Z0 -> x
       | Zpos y' -> Zpos (Pos.add x' y')
       | Zneg y' -> pos_sub x' y')
    | Zneg x' ->
      (match y with
       | Z0 -> x
       | Zpos y' -> pos_sub y' x'
       | Zneg y' -> Zneg (Pos.add x' y'))

  (** val compare : z -> z -> comparison **)

  let compare x y =
    match x with
    | Z0 -> (match y with
             | Z0 -> Eq
             | Zpos _ -> Lt
             | Zneg _ -> Gt)
    | Zpos x' -> (match y with
                  | Zpos y' -> Pos.compare x' y'
                  | _ -> Gt)
    | Zneg x' ->
      (match y with
       | Zneg y' -> compOpp (Pos.compare x' y')
       | _ -> Lt)

  (** val leb : z -> z -> bool **)

  let leb x y =
    match compare x y with
    | Gt -> false
    | _ -> true

  (** val ltb : z -> z -> bool **)

  let ltb x y =
    match compare x y with
    | Lt -> true
    | _ -> false

  (** val eqb : z -> z -> bool **)

  let eqb x y =
    match x with
    | Z0 -> (match y with
             | Z0 -> true
             | _ -> false)
    | Zpos p -> (match y with
                 | Zpos q -> Pos.eqb p q
                 | _ -> false)
    | Zneg p -> (match y with
                 | Zneg q -> Pos.eqb p q
                 | _ -> false)
 end

(** val nth_error : 'a1 list -> nat -> 'a1 option **)

let rec nth_error l = function
| O -> (match l with
        | [] -> None
        | x :: _ -> Some x)
| S n0 -> (match l with
           | [] -> None
           | _ :: l0 -> nth_error l0 n0)

(** val forallb : ('a1 -> bool) -> 'a1 list -> bool **)

let rec forallb f = function
| [] -> true
| a :: l0 -> (&&) (f a) (forallb f l0)

(** val repeat : 'a1 -> nat -> 'a1 list **)

let rec repeat x = function
| O -> []
| S k -> x :: (repeat x k)

type cond =
| CallsEq0
| CallsNe0
| CallsGt0
| CallsLe0
| Was
| NotWas
| GcOn
| GcOff

type instr =
| Acquire
| Release
| Jf of cond * nat
| Jmp of nat
| SetWasFromGc
| SetWas of bool
| GcDisable
| GcEnable
| AddCalls of z
| SetCalls of z
| Log
| Ret

type shared = { lock : nat option; calls : z; was : bool; gc_on : bool }

(** val evalc : cond -> shared -> bool **)

let evalc c s =
  match c with
  | CallsEq0 -> Z.eqb s.calls Z0
  | CallsNe0 -> negb (Z.eqb s.calls Z0)
  | CallsGt0 -> Z.ltb Z0 s.calls
  | CallsLe0 -> Z.leb s.calls Z0
  | Was -> s.was
  | NotWas -> negb s.was
  | GcOn -> s.gc_on
  | GcOff -> negb s.gc_on

type iresult =
| Next of nat * shared
| Returned of shared
| Blocked
| Stuck

(** val exec : instr list -> nat -> nat -> shared -> iresult **)

let exec prog i pc s =
  match nth_error prog pc with
  | Some ins ->
    (match ins with
     | Acquire ->
       (match s.lock with
        | Some _ -> Blocked
        | None ->
          Next ((S pc), { lock = (Some i); calls = s.calls; was = s.was;
            gc_on = s.gc_on }))
     | Release ->
       Next ((S pc), { lock = None; calls = s.calls; was = s.was; gc_on =
         s.gc_on })
     | Jf (c, l) -> if evalc c s then Next ((S pc), s) else Next (l, s)
     | Jmp l -> Next (l, s)
     | SetWasFromGc ->
       Next ((S pc), { lock = s.lock; calls = s.calls; was = s.gc_on; gc_on =
         s.gc_on })
     | SetWas b ->
       Next ((S pc), { lock = s.lock; calls = s.calls; was = b; gc_on =
         s.gc_on })
     | GcDisable ->
       Next ((S pc), { lock = s.lock; calls = s.calls; was = s.was; gc_on =
         false })
     | GcEnable ->
       Next ((S pc), { lock = s.lock; calls = s.calls; was = s.was; gc_on =
         true })
     | AddCalls k ->
       Next ((S pc), { lock = s.lock; calls = (Z.add s.calls k); was = s.was;
         gc_on = s.gc_on })
     | SetCalls k ->
       Next ((S pc), { lock = s.lock; calls = k; was = s.was; gc_on =
         s.gc_on })
     | Log -> Next ((S pc), s)
     | Ret -> Returned s)
  | None -> Stuck

type mode =
| Idle
| InEnter of nat
| InBody
| InExit of nat

type thread = { md : mode; depth : nat }

type choice =
| ChStep
| ChCall
| ChFinish
| ChRaise

(** val tstep :
    instr list -> instr list -> bool -> choice -> nat -> thread -> shared ->
    (thread * shared) option **)

let tstep enter_prog0 exit_prog0 exit_in_finally0 c i t s =
  match t.md with
  | Idle ->
    (match c with
     | ChCall -> Some ({ md = (InEnter O); depth = (S O) }, s)
     | _ -> None)
  | InEnter pc ->
    (match c with
     | ChStep ->
       (match exec enter_prog0 i pc s with
        | Next (pc', s') -> Some ({ md = (InEnter pc'); depth = t.depth }, s')
        | Returned s' -> Some ({ md = InBody; depth = t.depth }, s')
        | _ -> None)
     | _ -> None)
  | InBody ->
    (match c with
     | ChStep -> None
     | ChCall -> Some ({ md = (InEnter O); depth = (S t.depth) }, s)
     | ChFinish -> Some ({ md = (InExit O); depth = t.depth }, s)
     | ChRaise ->
       if exit_in_finally0
       then Some ({ md = (InExit O); depth = t.depth }, s)
       else let d = pred t.depth in
            Some ({ md = (match d with
                          | O -> Idle
                          | S _ -> InBody); depth = d }, s))
  | InExit pc ->
    (match c with
     | ChStep ->
       (match exec exit_prog0 i pc s with
        | Next (pc', s') -> Some ({ md = (InExit pc'); depth = t.depth }, s')
        | Returned s' ->
          let d = pred t.depth in
          Some ({ md = (match d with
                        | O -> Idle
                        | S _ -> InBody); depth = d }, s')
        | _ -> None)
     | _ -> None)

type state = { sh : shared; thr : thread list }

(** val upd : 'a1 list -> nat -> 'a1 -> 'a1 list **)

let rec upd l i x =
  match l with
  | [] -> []
  | y :: r -> (match i with
               | O -> x :: r
               | S j -> y :: (upd r j x))

(** val step :
    instr list -> instr list -> bool -> nat -> choice -> state -> state option **)

let step enter_prog0 exit_prog0 exit_in_finally0 i c st =
  match nth_error st.thr i with
  | Some t ->
    (match tstep enter_prog0 exit_prog0 exit_in_finally0 c i t st.sh with
     | Some p -> let (t', s') = p in Some { sh = s'; thr = (upd st.thr i t') }
     | None -> None)
  | None -> None

(** val run :
    instr list -> instr list -> bool -> (nat * choice) list -> state -> state **)

let rec run enter_prog0 exit_prog0 exit_in_finally0 sched st =
  match sched with
  | [] -> st
  | p :: r ->
    let (i, c) = p in
    (match step enter_prog0 exit_prog0 exit_in_finally0 i c st with
     | Some st' -> run enter_prog0 exit_prog0 exit_in_finally0 r st'
     | None -> run enter_prog0 exit_prog0 exit_in_finally0 r st)

(** val init : bool -> nat -> state **)

let init gc0 n =
  { sh = { lock = None; calls = Z0; was = false; gc_on = gc0 }; thr =
    (repeat { md = Idle; depth = O } n) }

(** val inprog : thread -> nat **)

let inprog t =
  match t.md with
  | Idle -> O
  | InBody -> t.depth
  | _ -> pred t.depth

(** val total_inprog : thread list -> nat **)

let rec total_inprog = function
| [] -> O
| t :: r -> add (inprog t) (total_inprog r)

(** val all_idle : thread list -> bool **)

let all_idle l =
  forallb (fun t -> match t.md with
                    | Idle -> true
                    | _ -> false) l

(** val good : bool -> state -> bool **)

let good gc0 st =
  (&&)
    ((&&) (Z.leb Z0 st.sh.calls)
      (if Nat.ltb O (total_inprog st.thr) then negb st.sh.gc_on else true))
    (if all_idle st.thr then eqb st.sh.gc_on gc0 else true)

(** val enter_prog : instr list **)

let enter_prog =
  Acquire :: ((Jf (CallsEq0, (S (S (S (S (S O))))))) :: (SetWasFromGc :: ((Jf
    (Was, (S (S (S (S (S O))))))) :: (GcDisable :: ((AddCalls (Zpos
    XH)) :: (Release :: (Ret :: [])))))))

(** val exit_prog : instr list **)

let exit_prog =
  Acquire :: ((Jf (CallsEq0, (S (S (S (S (S (S O)))))))) :: (Log :: ((Jmp (S
    (S (S (S O))))) :: (Release :: (Ret :: ((AddCalls (Zneg XH)) :: ((Jf
    (CallsEq0, (S (S (S (S (S (S (S (S (S (S (S O))))))))))))) :: ((Jf (Was,
    (S (S (S (S (S (S (S (S (S (S O)))))))))))) :: (GcEnable :: ((SetWas
    false) :: (Release :: (Ret :: []))))))))))))

(** val enter_lines : nat list **)

let enter_lines =
  (S (S (S (S (S (S (S (S (S (S (S (S (S (S (S (S (S (S (S (S (S (S (S (S (S
    (S (S (S (S (S (S (S (S (S (S (S (S (S (S (S (S (S (S (S (S (S (S (S (S
    (S (S (S (S (S (S (S (S (S (S (S (S (S (S (S (S (S (S (S (S (S (S (S (S
    O))))))))))))))))))))))))))))))))))))))))))))))))))))))))))))))))))))))))) :: ((S
    (S (S (S (S (S (S (S (S (S (S (S (S (S (S (S (S (S (S (S (S (S (S (S (S
    (S (S (S (S (S (S (S (S (S (S (S (S (S (S (S (S (S (S (S (S (S (S (S (S
    (S (S (S (S (S (S (S (S (S (S (S (S (S (S (S (S (S (S (S (S (S (S (S (S
    (S
    O)))))))))))))))))))))))))))))))))))))))))))))))))))))))))))))))))))))))))) :: ((S
    (S (S (S (S (S (S (S (S (S (S (S (S (S (S (S (S (S (S (S (S (S (S (S (S
    (S (S (S (S (S (S (S (S (S (S (S (S (S (S (S (S (S (S (S (S (S (S (S (S
    (S (S (S (S (S (S (S (S (S (S (S (S (S (S (S (S (S (S (S (S (S (S (S (S
    (S (S
    O))))))))))))))))))))))))))))))))))))))))))))))))))))))))))))))))))))))))))) :: ((S
    (S (S (S (S (S (S (S (S (S (S (S (S (S (S (S (S (S (S (S (S (S (S (S (S
    (S (S (S (S (S (S (S (S (S (S (S (S (S (S (S (S (S (S (S (S (S (S (S (S
    (S (S (S (S (S (S (S (S (S (S (S (S (S (S (S (S (S (S (S (S (S (S (S (S
    (S (S (S
    O)))))))))))))))))))))))))))))))))))))))))))))))))))))))))))))))))))))))))))) :: ((S
    (S (S (S (S (S (S (S (S (S (S (S (S (S (S (S (S (S (S (S (S (S (S (S (S
    (S (S (S (S (S (S (S (S (S (S (S (S (S (S (S (S (S (S (S (S (S (S (S (S
    (S (S (S (S (S (S (S (S (S (S (S (S (S (S (S (S (S (S (S (S (S (S (S (S
    (S (S (S (S
    O))))))))))))))))))))))))))))))))))))))))))))))))))))))))))))))))))))))))))))) :: ((S
    (S (S (S (S (S (S (S (S (S (S (S (S (S (S (S (S (S (S (S (S (S (S (S (S
    (S (S (S (S (S (S (S (S (S (S (S (S (S (S (S (S (S (S (S (S (S (S (S (S
    (S (S (S (S (S (S (S (S (S (S (S (S (S (S (S (S (S (S (S (S (S (S (S (S
    (S (S (S (S (S
    O)))))))))))))))))))))))))))))))))))))))))))))))))))))))))))))))))))))))))))))) :: ((S
    (S (S (S (S (S (S (S (S (S (S (S (S (S (S (S (S (S (S (S (S (S (S (S (S
    (S (S (S (S (S (S (S (S (S (S (S (S (S (S (S (S (S (S (S (S (S (S (S (S
    (S (S (S (S (S (S (S (S (S (S (S (S (S (S (S (S (S (S (S (S (S (S (S (S
    O))))))))))))))))))))))))))))))))))))))))))))))))))))))))))))))))))))))))) :: (O :: [])))))))

(** val exit_lines : nat list **)

let exit_lines =
  (S (S (S (S (S (S (S (S (S (S (S (S (S (S (S (S (S (S (S (S (S (S (S (S (S
    (S (S (S (S (S (S (S (S (S (S (S (S (S (S (S (S (S (S (S (S (S (S (S (S
    (S (S (S (S (S (S (S (S (S (S (S (S (S (S (S (S (S (S (S (S (S (S (S (S
    (S (S (S (S (S (S (S (S (S (S (S
    O)))))))))))))))))))))))))))))))))))))))))))))))))))))))))))))))))))))))))))))))))))) :: ((S
    (S (S (S (S (S (S (S (S (S (S (S (S (S (S (S (S (S (S (S (S (S (S (S (S
    (S (S (S (S (S (S (S (S (S (S (S (S (S (S (S (S (S (S (S (S (S (S (S (S
    (S (S (S (S (S (S (S (S (S (S (S (S (S (S (S (S (S (S (S (S (S (S (S (S
    (S (S (S (S (S (S (S (S (S (S (S (S
    O))))))))))))))))))))))))))))))))))))))))))))))))))))))))))))))))))))))))))))))))))))) :: ((S
    (S (S (S (S (S (S (S (S (S (S (S (S (S (S (S (S (S (S (S (S (S (S (S (S
    (S (S (S (S (S (S (S (S (S (S (S (S (S (S (S (S (S (S (S (S (S (S (S (S
    (S (S (S (S (S (S (S (S (S (S (S (S (S (S (S (S (S (S (S (S (S (S (S (S
    (S (S (S (S (S (S (S (S (S (S (S (S (S
    O)))))))))))))))))))))))))))))))))))))))))))))))))))))))))))))))))))))))))))))))))))))) :: ((S
    (S (S (S (S (S (S (S (S (S (S (S (S (S (S (S (S (S (S (S (S (S (S (S (S
    (S (S (S (S (S (S (S (S (S (S (S (S (S (S (S (S (S (S (S (S (S (S (S (S
    (S (S (S (S (S (S (S (S (S (S (S (S (S (S (S (S (S (S (S (S (S (S (S (S
    (S (S (S (S (S (S (S (S (S (S (S (S (S (S
    O))))))))))))))))))))))))))))))))))))))))))))))))))))))))))))))))))))))))))))))))))))))) :: ((S
    (S (S (S (S (S (S (S (S (S (S (S (S (S (S (S (S (S (S (S (S (S (S (S (S
    (S (S (S (S (S (S (S (S (S (S (S (S (S (S (S (S (S (S (S (S (S (S (S (S
    (S (S (S (S (S (S (S (S (S (S (S (S (S (S (S (S (S (S (S (S (S (S (S (S
    (S (S (S (S (S (S (S (S (S (S (S
    O)))))))))))))))))))))))))))))))))))))))))))))))))))))))))))))))))))))))))))))))))))) :: (O :: ((S
    (S (S (S (S (S (S (S (S (S (S (S (S (S (S (S (S (S (S (S (S (S (S (S (S
    (S (S (S (S (S (S (S (S (S (S (S (S (S (S (S (S (S (S (S (S (S (S (S (S
    (S (S (S (S (S (S (S (S (S (S (S (S (S (S (S (S (S (S (S (S (S (S (S (S
    (S (S (S (S (S (S (S (S (S (S (S (S (S (S (S (S
    O))))))))))))))))))))))))))))))))))))))))))))))))))))))))))))))))))))))))))))))))))))))))) :: ((S
    (S (S (S (S (S (S (S (S (S (S (S (S (S (S (S (S (S (S (S (S (S (S (S (S
    (S (S (S (S (S (S (S (S (S (S (S (S (S (S (S (S (S (S (S (S (S (S (S (S
    (S (S (S (S (S (S (S (S (S (S (S (S (S (S (S (S (S (S (S (S (S (S (S (S
    (S (S (S (S (S (S (S (S (S (S (S (S (S (S (S (S (S
    O)))))))))))))))))))))))))))))))))))))))))))))))))))))))))))))))))))))))))))))))))))))))))) :: ((S
    (S (S (S (S (S (S (S (S (S (S (S (S (S (S (S (S (S (S (S (S (S (S (S (S
    (S (S (S (S (S (S (S (S (S (S (S (S (S (S (S (S (S (S (S (S (S (S (S (S
    (S (S (S (S (S (S (S (S (S (S (S (S (S (S (S (S (S (S (S (S (S (S (S (S
    (S (S (S (S (S (S (S (S (S (S (S (S (S (S (S (S (S (S
    O))))))))))))))))))))))))))))))))))))))))))))))))))))))))))))))))))))))))))))))))))))))))))) :: ((S
    (S (S (S (S (S (S (S (S (S (S (S (S (S (S (S (S (S (S (S (S (S (S (S (S
    (S (S (S (S (S (S (S (S (S (S (S (S (S (S (S (S (S (S (S (S (S (S (S (S
    (S (S (S (S (S (S (S (S (S (S (S (S (S (S (S (S (S (S (S (S (S (S (S (S
    (S (S (S (S (S (S (S (S (S (S (S (S (S (S (S (S (S (S (S
    O)))))))))))))))))))))))))))))))))))))))))))))))))))))))))))))))))))))))))))))))))))))))))))) :: ((S
    (S (S (S (S (S (S (S (S (S (S (S (S (S (S (S (S (S (S (S (S (S (S (S (S
    (S (S (S (S (S (S (S (S (S (S (S (S (S (S (S (S (S (S (S (S (S (S (S (S
    (S (S (S (S (S (S (S (S (S (S (S (S (S (S (S (S (S (S (S (S (S (S (S (S
    (S (S (S (S (S (S (S (S (S (S (S (S (S (S (S (S (S (S (S (S
    O))))))))))))))))))))))))))))))))))))))))))))))))))))))))))))))))))))))))))))))))))))))))))))) :: ((S
    (S (S (S (S (S (S (S (S (S (S (S (S (S (S (S (S (S (S (S (S (S (S (S (S
    (S (S (S (S (S (S (S (S (S (S (S (S (S (S (S (S (S (S (S (S (S (S (S (S
    (S (S (S (S (S (S (S (S (S (S (S (S (S (S (S (S (S (S (S (S (S (S (S (S
    (S (S (S (S (S (S (S (S (S (S (S
    O)))))))))))))))))))))))))))))))))))))))))))))))))))))))))))))))))))))))))))))))))))) :: (O :: []))))))))))))

(** val enter_before_body : bool **)

let enter_before_body =
  true

(** val exit_in_finally : bool **)

let exit_in_finally =
  true
