
val negb : bool -> bool

type nat =
| O
| S of nat

type comparison =
| Eq
| Lt
| Gt

val compOpp : comparison -> comparison

val pred : nat -> nat

val add : nat -> nat -> nat

type positive =
| XI of positive
| XO of positive
| XH

type z =
| Z0
| Zpos of positive
| Zneg of positive

val eqb : bool -> bool -> bool

module Nat :
 sig
  val leb : nat -> nat -> bool

  val ltb : nat -> nat -> bool
 end

module Pos :
 sig
  val succ : positive -> positive

  val add : positive -> positive -> positive

  val add_carry : positive -> positive -> positive

  val pred_double : positive -> positive

  val compare_cont : comparison -> positive -> positive -> comparison

  val compare : positive -> positive -> comparison

  val eqb : positive -> positive -> bool
 end

module Z :
 sig
  val double : z -> z

  val succ_double : z -> z

  val pred_double : z -> z

  val pos_sub : positive -> positive -> z

  val add : z -> z -> z

  val compare : z -> z -> comparison

  val leb : z -> z -> bool

  val ltb : z -> z -> bool

  val eqb : z -> z -> bool
 end

val nth_error : 'a1 list -> nat -> 'a1 option

val forallb : ('a1 -> bool) -> 'a1 list -> bool

val repeat : 'a1 -> nat -> 'a1 list

type cond =
| CallsEq0
| CallsNe0
| CallsGt0
| CallsLe0
| Was
| NotWas
| GcOn
| GcOff

type instr =
| Acquire
| Release
| Jf of cond * nat
| Jmp of nat
| SetWasFromGc
| SetWas of bool
| GcDisable
| GcEnable
| AddCalls of z
| SetCalls of z
| Log
| Ret

type shared = { lock : nat option; calls : z; was : bool; gc_on : bool }

val evalc : cond -> shared -> bool

type iresult =
| Next of nat * shared
| Returned of shared
| Blocked
| Stuck

val exec : instr list -> nat -> nat -> shared -> iresult

type mode =
| Idle
| InEnter of nat
| InBody
| InExit of nat

type thread = { md : mode; depth : nat }

type choice =
| ChStep
| ChCall
| ChFinish
| ChRaise

val tstep :
  instr list -> instr list -> bool -> choice -> nat -> thread -> shared ->
  (thread * shared) option

type state = { sh : shared; thr : thread list }

val upd : 'a1 list -> nat -> 'a1 -> 'a1 list

val step :
  instr list -> instr list -> bool -> nat -> choice -> state -> state option

val run :
  instr list -> instr list -> bool -> (nat * choice) list -> state -> state

val init : bool -> nat -> state

val inprog : thread -> nat

val total_inprog : thread list -> nat

val all_idle : thread list -> bool

val good : bool -> state -> bool

val enter_prog : instr list

val exit_prog : instr list

val enter_lines : nat list

val exit_lines : nat list

val enter_before_body : bool

val exit_in_finally : bool
