(* SMT-LIB QF_BV semantics, written from the standard's definitions, NOT from claripy's code.
   A bitvector of width w is an integer v with 0 <= v < 2^w; w and v are unbounded. *)
From Coq Require Import ZArith Bool List.
Import ListNotations.
Open Scope Z_scope.

Definition wrap (w v : Z) : Z := v mod 2 ^ w.
Definition inrange (w v : Z) : Prop := 0 <= v < 2 ^ w.

(* two's complement value *)
Definition sval (w v : Z) : Z := if v <? 2 ^ (w - 1) then v else v - 2 ^ w.
Definition msb (w v : Z) : bool := 2 ^ (w - 1) <=? v.

Definition bvadd w a b := wrap w (a + b).
Definition bvsub w a b := wrap w (a - b).
Definition bvmul w a b := wrap w (a * b).
Definition bvneg w a := wrap w (- a).
Definition bvnot w a := wrap w (Z.lnot a).      (* = 2^w - 1 - a *)
Definition bvand (w a b : Z) := Z.land a b.
Definition bvor (w a b : Z) := Z.lor a b.
Definition bvxor (w a b : Z) := Z.lxor a b.

(* SMT-LIB 2.6: division by zero is all-ones, remainder by zero is the dividend *)
Definition bvudiv w a b := if b =? 0 then 2 ^ w - 1 else a / b.
Definition bvurem (w a b : Z) := if b =? 0 then a else a mod b.

(* bvsdiv / bvsrem / bvsmod exactly as the standard defines them, by sign case split *)
Definition bvsdiv w s t :=
  match msb w s, msb w t with
  | false, false => bvudiv w s t
  | true, false => bvneg w (bvudiv w (bvneg w s) t)
  | false, true => bvneg w (bvudiv w s (bvneg w t))
  | true, true => bvudiv w (bvneg w s) (bvneg w t)
  end.
Definition bvsrem w s t :=
  match msb w s, msb w t with
  | false, false => bvurem w s t
  | true, false => bvneg w (bvurem w (bvneg w s) t)
  | false, true => bvurem w s (bvneg w t)
  | true, true => bvneg w (bvurem w (bvneg w s) (bvneg w t))
  end.
Definition bvsmod w s t :=
  let abs_s := if msb w s then bvneg w s else s in
  let abs_t := if msb w t then bvneg w t else t in
  let u := bvurem w abs_s abs_t in
  if u =? 0 then u
  else match msb w s, msb w t with
       | false, false => u
       | true, false => bvadd w (bvneg w u) t
       | false, true => bvadd w u t
       | true, true => bvneg w u
       end.

(* shifts: the amount is the unsigned value of the second operand *)
Definition bvshl w a b := wrap w (a * 2 ^ b).
Definition bvlshr (w a b : Z) := a / 2 ^ b.
Definition bvashr w a b := wrap w (sval w a / 2 ^ b).

Definition rotate_left w a n := let k := n mod w in wrap w (a * 2 ^ k) + a / 2 ^ (w - k).
Definition rotate_right w a n := let k := n mod w in a / 2 ^ k + wrap w (a * 2 ^ (w - k)).

(* concat: (wa, a) ++ (wb, b) has width wa + wb *)
Definition bvconcat (wb a b : Z) := a * 2 ^ wb + b.
(* extract hi lo: width hi - lo + 1 *)
Definition bvextract (hi lo a : Z) := (a / 2 ^ lo) mod 2 ^ (hi - lo + 1).
Definition zero_extend (k a : Z) := a.
Definition sign_extend w k a := wrap (w + k) (sval w a).

Definition bvult (a b : Z) := a <? b.
Definition bvule (a b : Z) := a <=? b.
Definition bvugt (a b : Z) := b <? a.
Definition bvuge (a b : Z) := b <=? a.
Definition bvslt w a b := sval w a <? sval w b.
Definition bvsle w a b := sval w a <=? sval w b.
Definition bvsgt w a b := sval w b <? sval w a.
Definition bvsge w a b := sval w b <=? sval w a.

(* byte reversal of a width-8n vector: byte i of the result is byte n-1-i of the argument *)
Fixpoint bytes_le (n : nat) (a : Z) : list Z :=
  match n with O => [] | S m => (a mod 256) :: bytes_le m (a / 256) end.
Fixpoint of_bytes_le (l : list Z) : Z :=
  match l with [] => 0 | b :: r => b + 256 * of_bytes_le r end.
Definition bvreverse w a := of_bytes_le (rev (bytes_le (Z.to_nat (w / 8)) a)).
