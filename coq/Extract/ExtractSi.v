From Coq Require Import ExtrOcamlBasic.
Require Import CV.Model.PyPrelude CV.Gen.SIHelpers CV.Model.SI CV.Model.Lift CV.Proofs.LiftSI CV.Model.SIZextM CV.Model.SIUnion CV.Model.SICmp CV.Model.SIQuery CV.Model.SINot.
From Coq Require Import ZArith List.
(* value-set union with the members traced: A := list of operand-member ids, join := app *)
Definition vunion_trace (v w : list (Z * list Z)) : list (Z * list Z) := vunion (list Z) (@app Z) Z Z.eqb v w.
Definition vs_add_z (v : list (Z * si)) (c : si) := @vs_add Z v c.
Definition vs_sub_z (v : list (Z * si)) (c : si) := @vs_sub Z v c.
Extraction Language OCaml.
Extraction "simodel.ml" SINot.si_not SIQuery.si_max SIQuery.si_min SIQuery.si_eval SICmp.si_ult SICmp.si_ule SICmp.si_ugt SICmp.si_uge SICmp.unsigned_bounds SICmp.si_slt SICmp.si_sle SICmp.si_sgt SICmp.si_sge SICmp.signed_bounds SIUnion.si_union SIUnion.si_join SIUnion.si_lub si_zext dsis_add dsis_sub dsis_neg dsis_not vs_add_z vs_sub_z vunion_trace SI.normalize SI.mk SI.top SI.si_add SI.si_sub SI.si_neg SI.members SI.cardinality SI.wrapped_overflow_add
  si_modular_add si_modular_sub si_modular_mul si_highbit si_max_int si_min_int si_signed_max_int si_signed_min_int
  si_to_negative si_upper si_lower si_wrapped_cardinality si_is_msb_zero si_is_msb_one si_get_msb
  si_unsigned_to_signed si_lex_lte si_lex_lt.
