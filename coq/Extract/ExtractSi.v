From Coq Require Import ExtrOcamlBasic.
Require Import CV.Model.PyPrelude CV.Gen.SIHelpers CV.Model.SI.
Extraction Language OCaml.
Extraction "simodel.ml" SI.normalize SI.mk SI.top SI.si_add SI.si_sub SI.si_neg SI.members SI.cardinality SI.wrapped_overflow_add
  si_modular_add si_modular_sub si_modular_mul si_highbit si_max_int si_min_int si_signed_max_int si_signed_min_int
  si_to_negative si_upper si_lower si_wrapped_cardinality si_is_msb_zero si_is_msb_one si_get_msb
  si_unsigned_to_signed si_lex_lte si_lex_lt.
