From Coq Require Import ExtrOcamlBasic.
Require Import CV.Model.GcLang CV.Gen.GcGuard.
Extraction Language OCaml.
Extraction "gcmodel.ml" GcLang.step GcLang.run GcLang.init GcLang.good GcLang.inprog
  GcGuard.enter_prog GcGuard.exit_prog GcGuard.enter_lines GcGuard.exit_lines GcGuard.exit_in_finally GcGuard.enter_before_body.
