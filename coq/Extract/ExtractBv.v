From Coq Require Import ExtrOcamlBasic.
Require Import CV.Model.PyPrelude CV.Spec.BV CV.Gen.BvConcrete CV.Model.Ast CV.Model.Build CV.Model.Solve CV.Model.Rewrite CV.Model.Frontend CV.Model.Numeral CV.Model.Annot CV.Model.HashCons CV.Model.Pickle CV.Model.Z3Stack CV.Model.Str CV.Model.Tls CV.Model.AbsInt CV.Model.Balance CV.Model.Replace CV.Model.Track CV.Model.CompCache.
Extraction Language OCaml.
Extraction "bvmodel.ml" Build.mk Ast.eval Ast.eval_op Ast.symbolic Ast.depth Ast.elen
  bvv_signed bvv___invert__ bvv___neg__
  bvv___add__ bvv___sub__ bvv___mul__ bvv___mod__ bvv___floordiv__
  bvv___radd__ bvv___rsub__ bvv___rmul__ bvv___rmod__ bvv___rfloordiv__
  bvv___and__ bvv___or__ bvv___xor__ bvv___rand__ bvv___ror__ bvv___rxor__
  bvv___lshift__ bvv___rshift__ bvv___rlshift__ bvv___rrshift__ bvv___eq__ bvv___ne__
  bv_ULT bv_ULE bv_UGT bv_UGE bv_SLT bv_SLE bv_SGT bv_SGE bv_SDiv bv_SMod bv_LShR
  bv_RotateLeft bv_RotateRight bv_Reverse bv_ZeroExt bv_SignExt bv_Extract bv_Concat
  BV.bvreverse Solve.extrema Solve.enumerate Solve.cached_then_solve Solve.bounds
  Rewrite.subst Rewrite.replace Rewrite.canonicalize Rewrite.ite_cases Rewrite.ite_dict Rewrite.reverse_ite_cases
  Rewrite.chop Rewrite.get_bytes Rewrite.excavate Ast.fvars AbsInt.vsa_convert AbsInt.vsa_aeval CompCache.remove_cached Track.track_add Track.core_of Replace.radd Replace.rquery Replace.rblank Balance.simple_bounds Balance.in_bound Balance.nonstrict Balance.zeroext_rule Balance.reverse_op Balance.cmp Balance.handle_comparison
  Frontend.fe_add Frontend.fe_merge Frontend.fe_merge_anc Frontend.combine_fe Frontend.split_constraints Frontend.split_fe Frontend.blank Frontend.sstep Frontend.sget Numeral.str_to_int Numeral.int_to_str Numeral.digits Numeral.dval Annot.handle_annotations Annot.build Annot.reannotate Annot.unel HashCons.enc_int HashCons.dec_int HashCons.body HashCons.unbody Pickle.check Pickle.exact Pickle.setstate Pickle.getstate Z3Stack.batch_eval Str.substr Str.replace1 Str.strlen Str.contains Str.prefixof Str.suffixof Str.indexof Str.to_int Str.from_int Tls.run.
