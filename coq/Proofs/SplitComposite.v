(* C12 x C15: the groups produced by the model of split() are pairwise variable-disjoint, so the independence principle of the
   composite solver applies to them: the conjunction of all groups is satisfiable iff every group is. *)
From Coq Require Import ZArith List Bool Lia Permutation.
Require Import CV.Model.PyPrelude CV.Model.Ast CV.Model.Frontend CV.Proofs.AstLemmas CV.Proofs.FrontendSound CV.Proofs.CompositeSound.
Require Import CV.Proofs.HashConsSound.
Import ListNotations.
Open Scope Z_scope.

Lemma in_gvars_group sp g v : In v (gvars (group_constraints sp g)) -> exists i, In i (snd g) /\ In v (fvars (nth i sp (BoolVe true))).
Proof.
  unfold gvars, group_constraints. intros H. apply in_flat_map in H as (c & Hc & Hv).
  apply in_map_iff in Hc as (i & <- & Hi). exists i. auto.
Qed.

Lemma groups_independent sp gs :
  (forall v, (length (owners v gs) <= 1)%nat) ->
  (forall g i v, In g gs -> In i (snd g) -> In v (fvars (nth i sp (BoolVe true))) -> vmem v (fst g) = true) ->
  independent (map (group_constraints sp) gs).
Proof.
  induction gs as [|g r IH]; intros Hd Hc; cbn [map independent]; [exact I|]. split.
  - intros v Hv Hr. apply in_gvars_group in Hv as (i & Hi & Hvi).
    assert (Og : vmem v (fst g) = true) by (eapply Hc; [left; reflexivity|exact Hi|exact Hvi]).
    unfold gvars in Hr. apply in_flat_map in Hr as (c & Hcin & Hvc).
    apply in_concat in Hcin as (cs & Hcs & Hccs). apply in_map_iff in Hcs as (g' & <- & Hg').
    assert (Hv' : In v (gvars (group_constraints sp g'))) by (unfold gvars; apply in_flat_map; exists c; auto).
    apply in_gvars_group in Hv' as (i' & Hi' & Hvi').
    assert (Og' : vmem v (fst g') = true) by (eapply Hc; [right; exact Hg'|exact Hi'|exact Hvi']).
    specialize (Hd v). unfold owners in Hd. cbn [filter] in Hd. rewrite Og in Hd. cbn [length] in Hd.
    assert (Hin : In g' (filter (fun g0 => vmem v (fst g0)) r)) by (apply filter_In; auto).
    destruct (filter (fun g0 => vmem v (fst g0)) r); [destruct Hin|cbn in Hd; lia].
  - apply IH.
    + intros v. specialize (Hd v). unfold owners in *. cbn [filter] in Hd. destruct (vmem v (fst g)); cbn [length] in Hd; lia.
    + intros g0 i v Hg0. apply Hc. right. exact Hg0.
Qed.

Theorem split_independent l :
  independent (map (group_constraints (flatten_and l)) (fst (split_constraints l))).
Proof.
  pose proof (split_groups l) as H. cbv zeta in H. destruct H as [_ Hd Hc]. apply groups_independent; assumption.
Qed.

Theorem split_sat_iff l :
  let gs := map (group_constraints (flatten_and l)) (fst (split_constraints l)) in
  (exists rho, models rho (concat gs) = true) <-> (forall g, In g gs -> exists rho, models rho g = true).
Proof. intros gs. apply composite_sat_iff. apply split_independent. Qed.

(* ---- the split is semantically exact: the groups together with the variable-free constraints have exactly the models of
   the flattened constraint list ---- *)
Lemma forallb_perm {A} (f : A -> bool) l l' : Permutation l l' -> forallb f l = forallb f l'.
Proof.
  induction 1 as [|x l l' _ IH|x y l|l l' l'' _ IH1 _ IH2]; cbn [forallb]; try congruence.
  - destruct (f x), (f y); reflexivity.
Qed.

Lemma forallb_filter_split {A} (f p : A -> bool) l :
  forallb f l = forallb f (filter p l) && forallb f (filter (fun x => negb (p x)) l).
Proof.
  induction l as [|x r IH]; cbn [forallb filter]; [reflexivity|].
  destruct (p x); cbn [negb forallb]; rewrite IH; destruct (f x); cbn [andb]; try reflexivity.
  - rewrite andb_false_r. reflexivity.
Qed.

Lemma filter_seq_nth {A} (p : A -> bool) (d : A) l :
  map (fun i => nth i l d) (filter (fun i => p (nth i l d)) (seq 0 (length l))) = filter p l.
Proof.
  assert (H : forall k, map (fun i => nth i l d) (filter (fun i => p (nth i l d)) (seq k (length l - k))) = filter p (skipn k l)).
  { intros k. remember (length l - k)%nat as n eqn:En. revert k En. induction n as [|n IH]; intros k En; cbn [seq filter map].
    - rewrite skipn_all2 by lia. reflexivity.
    - assert (Hk : (k < length l)%nat) by lia.
      destruct (skipn k l) as [|x r] eqn:Es.
      + apply (f_equal (@length A)) in Es. rewrite skipn_length in Es. cbn in Es. lia.
      + assert (Hx : nth k l d = x).
        { rewrite <- (firstn_skipn k l) at 1. rewrite app_nth2; rewrite firstn_length_le by lia; [|lia].
          rewrite Nat.sub_diag, Es. reflexivity. }
        assert (Hr : skipn (S k) l = r).
        { replace (S k) with (k + 1)%nat by lia. rewrite <- skipn_skipn'. rewrite Es. reflexivity. }
        rewrite Hx. cbn [filter]. destruct (p x); cbn [map]; rewrite ?Hx, (IH (S k)) by lia; rewrite Hr; reflexivity. }
  specialize (H 0%nat). rewrite Nat.sub_0_r in H. exact H.
Qed.

Theorem split_models l rho :
  let sp := flatten_and l in
  let gs := map (group_constraints sp) (fst (split_constraints l)) in
  models rho sp = models rho (concat gs) && models rho (snd (split_constraints l)).
Proof.
  intros sp gs. pose proof (split_groups l) as H. cbv zeta in H. fold sp in H. destruct H as [Hp _ _].
  unfold models at 1. rewrite (forallb_filter_split (holds rho) has_vars_b sp). f_equal.
  - rewrite <- (filter_seq_nth has_vars_b (BoolVe true) sp).
    unfold models, gs. rewrite <- flat_map_concat_map.
    assert (E : flat_map (group_constraints sp) (fst (split_constraints l)) =
                map (fun i => nth i sp (BoolVe true)) (flat_map snd (fst (split_constraints l)))).
    { generalize (fst (split_constraints l)). intros g0. induction g0 as [|g r IH]; cbn [flat_map]; [reflexivity|].
      rewrite map_app, IH. reflexivity. }
    rewrite E. apply forallb_perm. apply Permutation_map. apply Permutation_sym. exact Hp.
  - unfold models, split_constraints. cbn [snd]. fold sp. f_equal.
    apply filter_ext. intros c. unfold has_vars_b. destruct (fvars c); reflexivity.
Qed.

(* ---- flattening conjunctions keeps the models (well-formed constraints) ---- *)
Lemma fold_and_bools rho : forall args acc,
  Forall (fun a => exists b, eval rho a = Some (VBool b)) args ->
  exists vs, sequence (map (eval rho) args) = Some vs /\
             fold_bin (bool_bin andb) (VBool acc) vs = Some (VBool (acc && forallb (holds rho) args)).
Proof.
  induction args as [|a r IH]; intros acc H; cbn [map sequence].
  - exists []. split; [reflexivity|]. cbn. rewrite andb_true_r. reflexivity.
  - inversion H as [|? ? (b & Eb) Hr]; subst. rewrite Eb. destruct (IH (acc && b) Hr) as (vs & Es & Ef).
    rewrite Es. exists (VBool b :: vs). split; [reflexivity|]. cbn [fold_bin bool_bin]. rewrite Ef. f_equal. f_equal.
    cbn [forallb]. unfold holds at 2. rewrite Eb. destruct b; rewrite ?andb_true_r, ?andb_false_r, ?andb_false_l; cbn; try reflexivity.
Qed.

Lemma holds_and rho args len : wfe (Node OBAnd [] args len) -> holds rho (Node OBAnd [] args len) = forallb (holds rho) args.
Proof.
  intros Hw. apply wfe_node in Hw as [Hargs Hty]. cbn [tyop] in Hty.
  destruct args as [|a r]; [discriminate Hty|].
  destruct (forallb (Z.eqb (-1)) (map elen (a :: r))) eqn:Eb; [|discriminate Hty].
  assert (Hb : Forall (fun x => exists b, eval rho x = Some (VBool b)) (a :: r)).
  { rewrite forallb_forall in Eb. rewrite Forall_forall in *. intros x Hx.
    destruct (eval_wf rho x (Hargs x Hx)) as (v & Ev & Tv).
    assert (El : elen x = -1) by (symmetry; apply Z.eqb_eq; apply Eb; apply in_map; exact Hx).
    rewrite El in Tv. destruct (vty_bool v Tv) as (b & ->). eauto. }
  inversion Hb as [|? ? (b & Eb0) Hr]; subst.
  destruct (fold_and_bools rho r b Hr) as (vs & Es & Ef).
  unfold holds at 1. cbn [eval map sequence]. rewrite Eb0, Es. cbn [eval_op nary]. rewrite Ef.
  cbn [forallb]. unfold holds at 2. rewrite Eb0. destruct b; cbn [andb]; [destruct (forallb (holds rho) r); reflexivity|reflexivity].
Qed.

Theorem flatten_and_models l rho : Forall wfe l -> models rho (flatten_and l) = models rho l.
Proof.
  induction 1 as [|c r Hc Hr IH]; [reflexivity|].
  unfold flatten_and. cbn [flat_map]. fold (flatten_and r). rewrite models_app, IH. unfold models at 3. cbn [forallb]. f_equal.
  destruct c as [| | | |op ints args len]; try (unfold models; cbn [forallb]; apply andb_true_r).
  destruct op; try (unfold models; cbn [forallb]; apply andb_true_r).
  destruct ints; [|unfold models; cbn [forallb]; apply andb_true_r].
  rewrite holds_and by exact Hc. reflexivity.
Qed.

(* end to end: a list of well-formed constraints has exactly the models of its split groups and variable-free rest *)
Theorem split_exact l rho : Forall wfe l ->
  models rho l = models rho (concat (map (group_constraints (flatten_and l)) (fst (split_constraints l))))
                 && models rho (snd (split_constraints l)).
Proof. intros H. rewrite <- (flatten_and_models l rho H). apply split_models. Qed.
