(* Every Spec/BV.v operator maps in-range operands to an in-range result. *)
From Coq Require Import ZArith Bool List Lia.
Require Import CV.Spec.BV CV.Model.BVExec CV.Proofs.BVLemmas CV.Proofs.BVExecProof.
Import ListNotations.
Open Scope Z_scope.

Definition inr (w v : Z) : Prop := 0 <= v < 2 ^ w.

Lemma r_wrap w v : 0 <= w -> inr w (wrap w v).
Proof. apply wrap_range. Qed.

Lemma r_add w a b : 0 <= w -> inr w (bvadd w a b). Proof. intros; apply r_wrap; auto. Qed.
Lemma r_sub w a b : 0 <= w -> inr w (bvsub w a b). Proof. intros; apply r_wrap; auto. Qed.
Lemma r_mul w a b : 0 <= w -> inr w (bvmul w a b). Proof. intros; apply r_wrap; auto. Qed.
Lemma r_neg w a : 0 <= w -> inr w (bvneg w a). Proof. intros; apply r_wrap; auto. Qed.
Lemma r_not w a : 0 <= w -> inr w (bvnot w a). Proof. intros; apply r_wrap; auto. Qed.
Lemma r_and w a b : 0 <= w -> inr w a -> inr w b -> inr w (bvand w a b).
Proof. intros. apply land_range; unfold inr in *; lia. Qed.
Lemma r_or w a b : 0 <= w -> inr w a -> inr w b -> inr w (bvor w a b).
Proof. intros. apply lor_range; unfold inr in *; lia. Qed.
Lemma r_xor w a b : 0 <= w -> inr w a -> inr w b -> inr w (bvxor w a b).
Proof. intros. apply lxor_range; unfold inr in *; lia. Qed.

Lemma r_udiv w a b : 0 <= w -> inr w a -> inr w b -> inr w (bvudiv w a b).
Proof.
  unfold inr, bvudiv. intros Hw Ha Hb. pose proof (pow2_pos w Hw).
  destruct (b =? 0) eqn:E; [lia|]. apply Z.eqb_neq in E.
  pose proof (div_le_self a b ltac:(lia) ltac:(lia)). lia.
Qed.
Lemma r_urem w a b : 0 <= w -> inr w a -> inr w b -> inr w (bvurem w a b).
Proof.
  unfold inr, bvurem. intros Hw Ha Hb.
  destruct (b =? 0) eqn:E; [lia|]. apply Z.eqb_neq in E.
  pose proof (Z.mod_pos_bound a b ltac:(lia)). lia.
Qed.
Lemma r_sdiv w a b : 0 <= w -> inr w a -> inr w b -> inr w (bvsdiv w a b).
Proof.
  intros Hw Ha Hb. unfold bvsdiv.
  destruct (msb w a), (msb w b); try apply r_neg; try apply r_udiv; auto; try apply r_neg; auto.
Qed.
Lemma r_srem w a b : 0 <= w -> inr w a -> inr w b -> inr w (bvsrem w a b).
Proof.
  intros Hw Ha Hb. unfold bvsrem.
  destruct (msb w a), (msb w b); try apply r_neg; try apply r_urem; auto; try apply r_neg; auto.
Qed.

Lemma r_shl_x w a b : 0 <= w -> inr w (bvshl_x w a b).
Proof. intros. unfold bvshl_x. destruct (w <=? b); [pose proof (pow2_pos w); unfold inr; lia|apply r_wrap; auto]. Qed.
Lemma r_lshr_x w a b : 0 <= w -> inr w a -> 0 <= b -> inr w (bvlshr_x w a b).
Proof.
  intros Hw Ha Hb. unfold bvlshr_x, bvlshr, inr in *. pose proof (pow2_pos w Hw).
  destruct (w <=? b); [lia|].
  pose proof (div_le_self a (2 ^ b) ltac:(lia) ltac:(apply pow2_pos; lia)). lia.
Qed.
Lemma r_ashr_x w a b : 0 <= w -> inr w (bvashr_x w a b).
Proof.
  intros. unfold bvashr_x. pose proof (pow2_pos w ltac:(lia)).
  destruct (w <=? b); [destruct (msb w a); unfold inr; lia|apply r_wrap; auto].
Qed.

Lemma r_rotl w a n : 0 < w -> inr w a -> inr w (rotate_left w a n).
Proof.
  intros Hw Ha. unfold rotate_left. pose proof (Z.mod_pos_bound n w Hw) as Hk.
  rewrite <- shl_disjoint_or by (unfold inr in *; lia).
  apply lor_range; [lia|apply wrap_range; lia|].
  unfold inr in *. pose proof (div_le_self a (2 ^ (w - n mod w)) ltac:(lia) ltac:(apply pow2_pos; lia)). lia.
Qed.
Lemma r_rotr w a n : 0 < w -> inr w a -> inr w (rotate_right w a n).
Proof.
  intros Hw Ha. unfold rotate_right. pose proof (Z.mod_pos_bound n w Hw) as Hk.
  destruct (Z.eq_dec (n mod w) 0) as [K|K].
  - rewrite K. change (2 ^ 0) with 1. rewrite Z.div_1_r, Z.sub_0_r.
    assert (X : wrap w (a * 2 ^ w) = 0) by (unfold wrap; apply Z.mod_mul; pose proof (pow2_pos w); lia).
    rewrite X. unfold inr in *. lia.
  - rewrite Z.add_comm.
    replace (a / 2 ^ (n mod w)) with (a / 2 ^ (w - (w - n mod w))) by (do 2 f_equal; lia).
    rewrite <- shl_disjoint_or by (unfold inr in *; lia).
    apply lor_range; [lia|apply wrap_range; lia|].
    unfold inr in *.
    pose proof (div_le_self a (2 ^ (w - (w - n mod w))) ltac:(lia) ltac:(apply pow2_pos; lia)). lia.
Qed.

Lemma r_concat wa wb a b : 0 <= wa -> 0 <= wb -> inr wa a -> inr wb b -> inr (wa + wb) (bvconcat wb a b).
Proof. intros. apply concat_range; auto. Qed.
Lemma r_extract hi lo a : 0 <= lo <= hi -> inr (hi - lo + 1) (bvextract hi lo a).
Proof. intros. unfold bvextract, inr. apply Z.mod_pos_bound. apply pow2_pos; lia. Qed.
Lemma r_zext w n a : 0 <= w -> 0 <= n -> inr w a -> inr (w + n) (zero_extend n a).
Proof.
  unfold inr, zero_extend. intros. assert (2 ^ w <= 2 ^ (w + n)) by (apply Z.pow_le_mono_r; lia). lia.
Qed.
Lemma r_sext w n a : 0 <= w -> 0 <= n -> inr (w + n) (sign_extend w n a).
Proof. intros. apply r_wrap; lia. Qed.

Lemma r_of_bytes l : Forall (fun b => 0 <= b < 256) l -> 0 <= of_bytes_le l < 2 ^ (8 * Z.of_nat (length l)).
Proof.
  induction 1 as [|b r Hb Hr IH]; cbn [of_bytes_le length].
  - cbn. lia.
  - rewrite Nat2Z.inj_succ. replace (8 * Z.succ (Z.of_nat (length r))) with (8 + 8 * Z.of_nat (length r)) by lia.
    rewrite Z.pow_add_r by lia. change (2 ^ 8) with 256. lia.
Qed.
Lemma bytes_le_spec n : forall a, Forall (fun b => 0 <= b < 256) (bytes_le n a) /\ length (bytes_le n a) = n.
Proof.
  induction n as [|n IH]; intros a; cbn [bytes_le]; [split; [constructor|reflexivity]|].
  destruct (IH (a / 256)) as [F L]. split; [constructor; [apply Z.mod_pos_bound; lia|exact F]|cbn; lia].
Qed.
Lemma r_reverse w a : 0 <= w -> w mod 8 = 0 -> inr w (bvreverse w a).
Proof.
  intros Hw Hm. unfold bvreverse, inr.
  destruct (bytes_le_spec (Z.to_nat (w / 8)) a) as [F L].
  pose proof (r_of_bytes (rev (bytes_le (Z.to_nat (w / 8)) a))) as R.
  rewrite rev_length, L in R.
  assert (E : 8 * Z.of_nat (Z.to_nat (w / 8)) = w).
  { rewrite Z2Nat.id by (apply Z.div_pos; lia). pose proof (Z.div_mod w 8 ltac:(lia)). lia. }
  rewrite E in R. apply R. apply Forall_rev. exact F.
Qed.
