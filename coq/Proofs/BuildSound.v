(* Soundness of the construction model (Model/Build.v): whatever [mk] returns denotes, under every
   assignment, what the plain un-rewritten node denotes -- at every width and for every constant. *)
From Coq Require Import ZArith Bool List Lia.
Require Import CV.Model.PyPrelude CV.Spec.BV CV.Model.BVExec CV.Gen.BvConcrete CV.Model.Ast CV.Model.Build.
Require Import CV.Proofs.BVLemmas CV.Proofs.BVExecProof CV.Proofs.SpecRange CV.Proofs.AstLemmas CV.Proofs.BvConcreteProof.
Import ListNotations.
Open Scope Z_scope.

Definition equiv (a b : expr) : Prop := forall rho, eval rho a = eval rho b.
Definition plain (op : opk) (ints : list Z) (args : list expr) : expr := Node op ints args (calc_len op ints args).
(* a well-typed application of [op] *)
Definition targs (op : opk) (ints : list Z) (args : list expr) : Prop :=
  Forall wfe args /\ exists len, tyop op ints (map elen args) = Some len.
Definition good (op : opk) (ints : list Z) (args : list expr) (r : expr) : Prop :=
  wfe r /\ elen r = calc_len op ints args /\ equiv r (plain op ints args).
Definition sound_mk (mk : mkfun) : Prop :=
  forall op ints args r, targs op ints args -> mk op ints args = Ok r -> good op ints args r.

Lemma equiv_refl a : equiv a a. Proof. intros rho; reflexivity. Qed.
Lemma equiv_sym a b : equiv a b -> equiv b a. Proof. intros H rho; symmetry; apply H. Qed.
Lemma equiv_trans a b c : equiv a b -> equiv b c -> equiv a c.
Proof. intros H1 H2 rho. rewrite H1. apply H2. Qed.

(* calc_len is the length tyop assigns *)
Lemma calc_len_tyop op ints args len :
  tyop op ints (map elen args) = Some len -> calc_len op ints args = len.
Proof.
  intros H. destruct op; cbn [tyop] in H;
  repeat match type of H with
  | match ?l with [] => _ | _ :: _ => _ end = _ => destruct l eqn:?; try discriminate H
  end;
  match type of H with (if ?c then _ else _) = _ => destruct c eqn:Hc; [|discriminate H] end;
  inversion H; subst; clear H;
  repeat match goal with
  | E : map elen ?a = [] |- _ => destruct a; [|discriminate E]; clear E
  | E : map elen ?a = _ :: _ |- _ => destruct a; [discriminate E|]; cbn [map] in E; inversion E; subst; clear E
  end; cbn [calc_len map fold_right]; try reflexivity; try lia.
  - (* Concat *)
    f_equal. clear. induction args as [|y r IH]; cbn; [reflexivity|]. rewrite IH. reflexivity.
Qed.

Lemma targs_plain_wf op ints args : targs op ints args -> wfe (plain op ints args).
Proof.
  intros [Hf [len Hty]]. apply wfe_node. split; auto. rewrite Hty. f_equal. symmetry. eapply calc_len_tyop; eauto.
Qed.

Lemma good_plain op ints args : targs op ints args -> good op ints args (plain op ints args).
Proof. intros H. split; [apply targs_plain_wf; auto|split; [reflexivity|apply equiv_refl]]. Qed.

(* ---------------------------------------------------------------------------------------------- *)
(* eager concrete folding                                                                          *)
(* ---------------------------------------------------------------------------------------------- *)

Definition of_b (b : bvv) : expr := BVVe (bvalue b) (bbits b).
Definition val_b (b : bvv) : value := VBV (bbits b) (bvalue b).
Definition wfb' (b : bvv) : Prop := wok (bbits b) = true /\ 0 <= bvalue b < 2 ^ bbits b.

Lemma wfb'_wfb b : wfb' b -> wfb b.
Proof. intros [H1 H2]. apply wok_spec in H1. split; [lia|exact H2]. Qed.

Lemma all_bvv_spec args bs : all_bvv args = Some bs -> args = map of_b bs.
Proof.
  revert bs. induction args as [|e r IH]; intros bs H; cbn [all_bvv] in H.
  - inversion H; reflexivity.
  - destruct e; cbn [to_bvv] in H; try discriminate.
    destruct (all_bvv r) as [xs|]; [|discriminate]. inversion H; subst. cbn. f_equal. apply IH; reflexivity.
Qed.

Lemma wfe_map_of_b bs : Forall wfe (map of_b bs) -> Forall wfb' bs.
Proof.
  induction bs as [|b r IH]; cbn; intros H; inversion H; subst; constructor; auto.
Qed.

Lemma eval_map_of_b rho bs : sequence (map (eval rho) (map of_b bs)) = Some (map val_b bs).
Proof. induction bs as [|b r IH]; cbn; [reflexivity|]. cbn in IH. rewrite IH. reflexivity. Qed.

Lemma elen_of_b b : elen (of_b b) = bbits b. Proof. reflexivity. Qed.

Lemma good_bvv op ints bs X w :
  targs op ints (map of_b bs) -> calc_len op ints (map of_b bs) = w -> wok w = true -> inr w X ->
  eval_op op ints (map val_b bs) = Some (VBV w X) ->
  good op ints (map of_b bs) (BVVe X w).
Proof.
  intros Ht Hl Hw Hx He. split; [cbn; auto|]. split; [cbn; auto|].
  intros rho. unfold plain. cbn [eval]. rewrite eval_map_of_b. symmetry. exact He.
Qed.

Lemma good_boolv op ints bs b :
  targs op ints (map of_b bs) -> calc_len op ints (map of_b bs) = -1 ->
  (eval_op op ints (map val_b bs) = Some (VBool b)) ->
  good op ints (map of_b bs) (BoolVe b).
Proof.
  intros Ht Hl He. split; [exact I|]. split; [cbn; auto|].
  intros rho. unfold plain. cbn [eval]. rewrite eval_map_of_b. symmetry. exact He.
Qed.

(* n-ary reduction through a generated binary method *)
Lemma reduce_sound (f : bvv -> bvv -> res bvv) (spec : Z -> Z -> Z -> Z) w :
  wok w = true ->
  (forall x y, wfb' x -> wfb' y -> bbits x = w -> bbits y = w ->
     f x y = Ok (mkbvv (spec w (bvalue x) (bvalue y)) w)) ->
  (forall a b, inr w a -> inr w b -> inr w (spec w a b)) ->
  forall bs x, wfb' x -> bbits x = w -> Forall (fun b => wfb' b /\ bbits b = w) bs ->
  exists X, foldM f bs x = Ok (mkbvv X w)
            /\ fold_bin (bin_bv spec) (val_b x) (map val_b bs) = Some (VBV w X) /\ inr w X.
Proof.
  intros Hw Hf Hr. induction bs as [|b r IH]; intros x Hx Hxw Hall; cbn [foldM map fold_bin].
  - exists (bvalue x). destruct x as [v b]; cbn in *. subst. destruct Hx as [Hx1 Hx2]. cbn in Hx2.
    repeat split; auto; lia.
  - inversion Hall as [|? ? [Hb Hbw] Hrest]; subst.
    rewrite (Hf x b Hx Hb eq_refl Hbw). cbn [bind].
    unfold val_b at 1 2. cbn [bin_bv]. rewrite Hbw, Z.eqb_refl.
    destruct Hx as [_ Hxr], Hb as [_ Hbr]. rewrite Hbw in Hbr.
    destruct (IH (mkbvv (spec (bbits x) (bvalue x) (bvalue b)) (bbits x))) as (X & E1 & E2 & R); auto.
    + split; cbn; auto. apply Hr; auto.
    + exists X. repeat split; auto; unfold inr in R; lia.
Qed.

Lemma inr_of_wfb' b : wfb' b -> inr (bbits b) (bvalue b).
Proof. intros [_ H]; exact H. Qed.

(* concat: the generated fold starts from (0,0); the denotation folds from the first operand *)
Lemma concat_steps : forall r v w,
  0 <= w -> inr w v -> Forall wfb' r ->
  fold_bin concat2 (VBV w v) (map val_b r)
  = Some (VBV (snd (fold_left concat_step r (v, w))) (fst (fold_left concat_step r (v, w)))).
Proof.
  induction r as [|b r IH]; intros v w Hw Hv Hall; cbn [map fold_bin fold_left fst snd]; [reflexivity|].
  inversion Hall as [|? ? Hb Hr]; subst. unfold val_b at 1. cbn [concat2].
  assert (Hcs : concat_step (v, w) b = (bvconcat (bbits b) v (bvalue b), w + bbits b)) by reflexivity.
  rewrite Hcs. apply IH; auto.
  - destruct Hb as [Hb _]. apply wok_nonneg in Hb. lia.
  - destruct Hb as [Hb1 Hb2]. apply r_concat; auto. apply wok_nonneg; auto.
Qed.

Lemma total_bits_sum bs : total_bits bs = fold_right Z.add 0 (map elen (map of_b bs)).
Proof. induction bs as [|b r IH]; cbn; [reflexivity|]. unfold total_bits in IH. cbn in IH. rewrite <- IH. reflexivity. Qed.

Ltac use_f2 := repeat match goal with H : Forall wfb' (_ :: _) |- _ => inversion H; subst; clear H end.

Ltac tyinv Hty :=
  cbn [tyop map elen of_b] in Hty;
  match type of Hty with (if ?c then _ else _) = _ => destruct c eqn:Hc; [|discriminate Hty] end;
  inversion Hty; subst; clear Hty.

Lemma wfb'_pos b : wfb' b -> 0 < bbits b.
Proof. intros [H _]. apply wok_pos; auto. Qed.

Ltac spec' L := intros Hx Hy Hxw Hyw; subst;
  apply L; auto using wfb'_wfb, wfb'_pos; try congruence.

Lemma add_spec' w x y : wfb' x -> wfb' y -> bbits x = w -> bbits y = w ->
  bvv___add__ x y = Ok (mkbvv (bvadd w (bvalue x) (bvalue y)) w).
Proof. spec' add_spec. Qed.
Lemma mul_spec' w x y : wfb' x -> wfb' y -> bbits x = w -> bbits y = w ->
  bvv___mul__ x y = Ok (mkbvv (bvmul w (bvalue x) (bvalue y)) w).
Proof. spec' mul_spec. Qed.
Lemma and_spec' w x y : wfb' x -> wfb' y -> bbits x = w -> bbits y = w ->
  bvv___and__ x y = Ok (mkbvv (bvand w (bvalue x) (bvalue y)) w).
Proof. spec' and_spec. Qed.
Lemma or_spec' w x y : wfb' x -> wfb' y -> bbits x = w -> bbits y = w ->
  bvv___or__ x y = Ok (mkbvv (bvor w (bvalue x) (bvalue y)) w).
Proof. spec' or_spec. Qed.
Lemma xor_spec' w x y : wfb' x -> wfb' y -> bbits x = w -> bbits y = w ->
  bvv___xor__ x y = Ok (mkbvv (bvxor w (bvalue x) (bvalue y)) w).
Proof. spec' xor_spec. Qed.

Lemma r_add' w a b : 0 <= w -> inr w a -> inr w b -> inr w (bvadd w a b). Proof. intros; apply r_add; auto. Qed.
Lemma r_mul' w a b : 0 <= w -> inr w a -> inr w b -> inr w (bvmul w a b). Proof. intros; apply r_mul; auto. Qed.

Lemma forallb_same_bits w bs :
  Forall wfb' bs -> forallb (Z.eqb w) (map elen (map of_b bs)) = true ->
  Forall (fun b => wfb' b /\ bbits b = w) bs.
Proof.
  induction 1 as [|b r Hb Hr IH]; cbn [map forallb]; intros E; constructor.
  - apply andb_true_iff in E as [E _]. apply Z.eqb_eq in E. cbn in E. auto.
  - apply IH. apply andb_true_iff in E. tauto.
Qed.

Ltac if_inv Hty Hc :=
  match type of Hty with (if ?c then _ else _) = _ => destruct c eqn:Hc; [|discriminate Hty] end;
  inversion Hty; subst; clear Hty.

Ltac t_reduce L R :=
  let Hc := fresh "Hc" in let Hw := fresh "Hw" in let Hsame := fresh "Hsame" in
  let Hb0 := fresh "Hb0" in let Hrest := fresh "Hrest" in
  let X := fresh "X" in let E1 := fresh "E1" in let E2 := fresh "E2" in let RX := fresh "RX" in
  match goal with
  | Hty : tyop _ [] (map elen (map of_b ?bs)) = Some _ |- _ =>
      destruct bs as [|b0 rest]; [discriminate Hty|];
      cbn [map elen of_b tyop] in Hty;
      if_inv Hty Hc;
      apply andb_true_iff in Hc as [Hw Hsame]
  end;
  match goal with
  | Hwf : Forall wfb' (?b0 :: ?rest), Hf : of_bvv (reduce_bvv ?f _) = Ok ?r |- _ =>
      inversion Hwf as [|? ? Hb0 Hrest]; subst;
      destruct (reduce_sound f _ (bbits b0) Hw (L (bbits b0)) (fun a b Ha Hb => R (bbits b0) a b (wok_nonneg _ Hw) Ha Hb)
                  rest b0 Hb0 eq_refl (forallb_same_bits _ _ Hrest Hsame)) as (X & E1 & E2 & RX);
      cbn [reduce_bvv] in Hf; rewrite E1 in Hf; cbn [of_bvv bind bvalue bbits] in Hf;
      inversion Hf; subst; clear Hf;
      apply (good_bvv _ [] (b0 :: rest) X (bbits b0)); auto;
      cbn [map eval_op nary]; exact E2
  end.

Ltac t_two Hw Heq Hx Hy :=
  let Hc := fresh "Hc" in let Hr1 := fresh "Hr1" in let Hr2 := fresh "Hr2" in
  match goal with
  | Hwf : Forall wfb' [?x; ?y], Hty : tyop _ _ _ = Some _ |- _ =>
      cbn [tyop map elen of_b] in Hty;
      if_inv Hty Hc;
      apply andb_true_iff in Hc as [Hw Heq]; apply Z.eqb_eq in Heq;
      inversion Hwf as [|? ? Hx Hr1]; subst; inversion Hr1 as [|? ? Hy Hr2]; subst
  end.

Ltac fin_bv L R :=
  match goal with
  | Hf : context [Ok ?r] |- _ => idtac
  end.

Lemma all_boolv_spec args bs : all_boolv args = Some bs -> args = map BoolVe bs.
Proof.
  revert bs. induction args as [|e r IH]; intros bs H; cbn [all_boolv] in H.
  - inversion H; reflexivity.
  - destruct e; try discriminate. destruct (all_boolv r) as [xs|]; [|discriminate].
    inversion H; subst. cbn. f_equal. apply IH; reflexivity.
Qed.

Lemma eval_map_boolv rho bs : sequence (map (eval rho) (map BoolVe bs)) = Some (map VBool bs).
Proof. induction bs as [|b r IH]; cbn; [reflexivity|]. cbn in IH. rewrite IH. reflexivity. Qed.

Lemma fold_bin_boolv f : forall bs acc,
  fold_bin (bool_bin f) (VBool acc) (map VBool bs) = Some (VBool (fold_left f bs acc)).
Proof. induction bs as [|b r IH]; intros acc; cbn; [reflexivity|apply IH]. Qed.

Lemma fold_concrete_sound op ints args r :
  targs op ints args -> fold_concrete op ints args = Ok r -> good op ints args r.
Proof.
  intros Ht Hf. pose proof Ht as [Hwf [len Hty]]. unfold fold_concrete in Hf.
  destruct (all_bvv args) as [bs|] eqn:Hall.
  - apply all_bvv_spec in Hall. subst args. apply wfe_map_of_b in Hwf.
    destruct op; try discriminate Hf;
    repeat match type of Hf with
    | match ?l with [] => _ | _ :: _ => _ end = _ => destruct l; try discriminate Hf
    end.
    + t_reduce add_spec' r_add'.
    + (* Sub *) destruct bs as [|x [|y [|? ?]]]; try discriminate Hty.
      t_two Hw Heq Hx Hy. cbn [reduce_bvv foldM] in Hf.
      rewrite (sub_spec x y) in Hf by (auto using wfb'_wfb, wfb'_pos).
      cbn [bind of_bvv bvalue bbits] in Hf. inversion Hf; subst.
      apply (good_bvv _ [] [x; y]); auto; [apply r_sub; apply wok_nonneg; auto|].
      cbn [map eval_op val_b bin_bv]. rewrite <- Heq, Z.eqb_refl. reflexivity.
    + t_reduce mul_spec' r_mul'.
    + (* UDiv *) t_two Hw Heq Hx Hy.
      destruct (Z.eq_dec (bvalue b0) 0) as [Z0|NZ]; [rewrite (udiv_zero b b0) in Hf by (auto using wfb'_wfb, wfb'_pos); discriminate Hf|].
      rewrite (udiv_spec b b0) in Hf by (auto using wfb'_wfb, wfb'_pos).
      cbn [bind of_bvv bvalue bbits] in Hf. inversion Hf; subst.
      apply (good_bvv _ [] [b; b0]); auto; [apply r_udiv; auto using inr_of_wfb'; [apply wok_nonneg; auto|rewrite Heq; auto using inr_of_wfb']|].
      cbn [map eval_op val_b bin_bv]. rewrite <- Heq, Z.eqb_refl. reflexivity.
    + (* URem *) t_two Hw Heq Hx Hy.
      destruct (Z.eq_dec (bvalue b0) 0) as [Z0|NZ]; [rewrite (urem_zero b b0) in Hf by (auto using wfb'_wfb, wfb'_pos); discriminate Hf|].
      rewrite (urem_spec b b0) in Hf by (auto using wfb'_wfb, wfb'_pos).
      cbn [bind of_bvv bvalue bbits] in Hf. inversion Hf; subst.
      apply (good_bvv _ [] [b; b0]); auto; [apply r_urem; auto using inr_of_wfb'; [apply wok_nonneg; auto|rewrite Heq; auto using inr_of_wfb']|].
      cbn [map eval_op val_b bin_bv]. rewrite <- Heq, Z.eqb_refl. reflexivity.
    + (* SDiv *) t_two Hw Heq Hx Hy.
      destruct (Z.eq_dec (bvalue b0) 0) as [Z0|NZ]; [rewrite (sdiv_zero b b0) in Hf by (auto using wfb'_wfb, wfb'_pos); discriminate Hf|].
      rewrite (sdiv_spec b b0) in Hf by (auto using wfb'_wfb, wfb'_pos).
      cbn [bind of_bvv bvalue bbits] in Hf. inversion Hf; subst.
      apply (good_bvv _ [] [b; b0]); auto; [apply r_sdiv; auto using inr_of_wfb'; [apply wok_nonneg; auto|rewrite Heq; auto using inr_of_wfb']|].
      cbn [map eval_op val_b bin_bv]. rewrite <- Heq, Z.eqb_refl. reflexivity.
    + (* SMod *) t_two Hw Heq Hx Hy.
      destruct (Z.eq_dec (bvalue b0) 0) as [Z0|NZ]; [rewrite (smod_zero b b0) in Hf by (auto using wfb'_wfb, wfb'_pos); discriminate Hf|].
      rewrite (smod_spec b b0) in Hf by (auto using wfb'_wfb, wfb'_pos).
      cbn [bind of_bvv bvalue bbits] in Hf. inversion Hf; subst.
      apply (good_bvv _ [] [b; b0]); auto; [apply r_srem; auto using inr_of_wfb'; [apply wok_nonneg; auto|rewrite Heq; auto using inr_of_wfb']|].
      cbn [map eval_op val_b bin_bv]. rewrite <- Heq, Z.eqb_refl. reflexivity.
    + (* Neg *) inversion Hwf as [|? ? Hx Hr1]; subst. cbn [tyop map elen of_b] in Hty. if_inv Hty Hc.
      rewrite (neg_spec b) in Hf by (auto using wfb'_wfb). cbn [bind of_bvv bvalue bbits] in Hf. inversion Hf; subst.
      apply (good_bvv _ [] [b]); auto. apply r_neg. apply wok_nonneg; auto.
    + (* Invert *) inversion Hwf as [|? ? Hx Hr1]; subst. cbn [tyop map elen of_b] in Hty. if_inv Hty Hc.
      rewrite (invert_spec b) in Hf by (auto using wfb'_wfb). cbn [bind of_bvv bvalue bbits] in Hf. inversion Hf; subst.
      apply (good_bvv _ [] [b]); auto. apply r_not. apply wok_nonneg; auto.
    + t_reduce and_spec' r_and.
    + t_reduce or_spec' r_or.
    + t_reduce xor_spec' r_xor.
    + (* Shl *) t_two Hw Heq Hx Hy.
      rewrite (shl_spec b b0) in Hf by (auto using wfb'_wfb, wfb'_pos).
      cbn [bind of_bvv bvalue bbits] in Hf. inversion Hf; subst.
      apply (good_bvv _ [] [b; b0]); auto; [apply r_wrap; apply wok_nonneg; auto|].
      cbn [map eval_op val_b bin_bv]. rewrite <- Heq, Z.eqb_refl. rewrite bvshl_x_eq by (first [solve [apply wok_nonneg; auto] | destruct Hy as [_ Hy]; lia]). reflexivity.
    + (* AShr *) t_two Hw Heq Hx Hy.
      rewrite (ashr_spec b b0) in Hf by (auto using wfb'_wfb, wfb'_pos).
      cbn [bind of_bvv bvalue bbits] in Hf. inversion Hf; subst.
      apply (good_bvv _ [] [b; b0]); auto; [apply r_wrap; apply wok_nonneg; auto|].
      cbn [map eval_op val_b bin_bv]. rewrite <- Heq, Z.eqb_refl. rewrite bvashr_x_eq by (first [solve [auto using wfb'_pos] | solve [apply Hx] | destruct Hy as [_ Hy]; lia]). reflexivity.
    + (* LShr *) t_two Hw Heq Hx Hy.
      rewrite (lshr_spec b b0) in Hf by (auto using wfb'_wfb, wfb'_pos).
      cbn [bind of_bvv bvalue bbits] in Hf. inversion Hf; subst.
      apply (good_bvv _ [] [b; b0]); auto; [pose proof (r_lshr_x (bbits b) (bvalue b) (bvalue b0) ltac:(apply wok_nonneg; auto) (inr_of_wfb' _ Hx) ltac:(destruct Hy as [_ Hy]; lia)) as RR; rewrite bvlshr_x_eq in RR by (first [solve [apply wok_nonneg; auto] | solve [apply Hx] | destruct Hy as [_ Hy]; lia]); exact RR|].
      cbn [map eval_op val_b bin_bv]. rewrite <- Heq, Z.eqb_refl. rewrite bvlshr_x_eq by (first [solve [apply wok_nonneg; auto] | solve [apply Hx] | destruct Hy as [_ Hy]; lia]). reflexivity.
    + (* RotL *) t_two Hw Heq Hx Hy.
      rewrite (rotate_left_spec b b0) in Hf by (auto using wfb'_wfb, wfb'_pos).
      cbn [bind of_bvv bvalue bbits] in Hf. inversion Hf; subst.
      apply (good_bvv _ [] [b; b0]); auto; [apply r_rotl; auto using wfb'_pos, inr_of_wfb'|].
      cbn [map eval_op val_b bin_bv]. rewrite <- Heq, Z.eqb_refl. reflexivity.
    + (* RotR *) t_two Hw Heq Hx Hy.
      rewrite (rotate_right_spec b b0) in Hf by (auto using wfb'_wfb, wfb'_pos).
      cbn [bind of_bvv bvalue bbits] in Hf. inversion Hf; subst.
      apply (good_bvv _ [] [b; b0]); auto; [apply r_rotr; auto using wfb'_pos, inr_of_wfb'|].
      cbn [map eval_op val_b bin_bv]. rewrite <- Heq, Z.eqb_refl. reflexivity.
    + (* Concat *)
      destruct bs as [|b0 rest]; [cbn in Hty; discriminate Hty|]. cbn [tyop map] in Hty. if_inv Hty Hc.
      apply andb_true_iff in Hc as [Hall Hs].
      rewrite (concat_spec (b0 :: rest)) in Hf.
      2:{ clear -Hwf. induction Hwf; constructor; auto using wfb'_wfb. }
      2:{ rewrite total_bits_sum. apply wok_spec in Hs. cbn [map] in *. lia. }
      cbn [of_bvv bind bvalue bbits] in Hf. inversion Hf; subst. clear Hf.
      inversion Hwf as [|? ? Hb0 Hrest]; subst.
      pose proof (concat_steps rest (bvalue b0) (bbits b0) ltac:(destruct Hb0 as [Hq _]; apply wok_nonneg; auto)
                    (inr_of_wfb' _ Hb0) Hrest) as Hcs.
      assert (Hcl : concat_list (b0 :: rest) = fold_left concat_step rest (bvalue b0, bbits b0)).
      { unfold concat_list. cbn [fold_left]. f_equal. }
      rewrite Hcl.
      destruct (concat_fold (fun st o => do t <- py_shl (fst st) (bbits o); Ok (Z.lor t (bvalue o), snd st + bbits o))
                  (b0 :: rest) ltac:(intros; reflexivity) 0 0) as (_ & RR & SS); try lia.
      { clear -Hwf. induction Hwf; constructor; auto using wfb'_wfb. }
      fold (concat_list (b0 :: rest)) in RR, SS. rewrite Hcl in RR, SS.
      assert (Hsnd : snd (fold_left concat_step rest (bvalue b0, bbits b0)) = fold_right Z.add 0 (map elen (map of_b (b0 :: rest)))).
      { rewrite SS. rewrite total_bits_sum. lia. }
      apply (good_bvv _ [] (b0 :: rest)); auto.
      * rewrite Hsnd. eapply calc_len_tyop. cbn [tyop map]. rewrite Hall, Hs. reflexivity.
      * rewrite Hsnd. exact Hs.
    + (* Extract *) inversion Hwf as [|? ? Hx Hr1]; subst. cbn [tyop map elen of_b] in Hty. if_inv Hty Hc.
      apply andb_true_iff in Hc as [Hc G4]. apply andb_true_iff in Hc as [Hc G3]. apply andb_true_iff in Hc as [Hw G1].
      pose proof G1 as G1'. pose proof G3 as G3'. pose proof G4 as G4'.
      apply Z.leb_le in G1, G3. apply Z.ltb_lt in G4. pose proof (proj1 (wok_spec _) Hw) as Hww.
      rewrite (extract_spec z z0 b) in Hf by (auto using wfb'_wfb; lia).
      cbn [bind of_bvv bvalue bbits] in Hf. inversion Hf; subst.
      apply (good_bvv _ [z; z0] [b]); auto.
      * cbn. lia.
      * apply wok_spec. lia.
      * apply r_extract. lia.
      * cbn [map eval_op val_b]. rewrite G1', G3', G4'. reflexivity.
    + (* ZeroExt *) inversion Hwf as [|? ? Hx Hr1]; subst. cbn [tyop map elen of_b] in Hty. if_inv Hty Hc.
      apply andb_true_iff in Hc as [Hc G4]. apply andb_true_iff in Hc as [Hw G1]. pose proof G1 as G1'.
      apply Z.leb_le in G1. pose proof (proj1 (wok_spec _) G4) as Hww.
      rewrite (zeroext_spec z b) in Hf by (auto using wfb'_wfb; lia).
      cbn [bind of_bvv bvalue bbits] in Hf. inversion Hf; subst.
      apply (good_bvv _ [z] [b]); auto.
      * apply r_zext; auto using inr_of_wfb'. apply wok_nonneg; auto.
      * cbn [map eval_op val_b]. rewrite G1'. reflexivity.
    + (* SignExt *) inversion Hwf as [|? ? Hx Hr1]; subst. cbn [tyop map elen of_b] in Hty. if_inv Hty Hc.
      apply andb_true_iff in Hc as [Hc G4]. apply andb_true_iff in Hc as [Hw G1]. pose proof G1 as G1'.
      apply Z.leb_le in G1. pose proof (proj1 (wok_spec _) G4) as Hww.
      rewrite (signext_spec z b) in Hf by (auto using wfb'_wfb, wfb'_pos; lia).
      cbn [bind of_bvv bvalue bbits] in Hf. inversion Hf; subst.
      apply (good_bvv _ [z] [b]); auto.
      * apply r_sext; auto. apply wok_nonneg; auto.
      * cbn [map eval_op val_b]. rewrite G1'. reflexivity.
    + (* Eq *) cbn [tyop map elen of_b] in Hty. if_inv Hty Hc. apply andb_true_iff in Hc as [Hk Heq]. apply Z.eqb_eq in Heq.
      inversion Hwf as [|? ? Hx Hr1]; subst; inversion Hr1 as [|? ? Hy Hr2]; subst.
      assert (Hw : wok (bbits b) = true) by (destruct Hx; auto).
      rewrite (eq_spec b b0) in Hf by (auto using wfb'_wfb, wfb'_pos).
      cbn [bind of_bool] in Hf. inversion Hf; subst.
      apply (good_boolv _ [] [b; b0]); auto.
      cbn [map eval_op val_b cmp_bv]. rewrite <- Heq, Z.eqb_refl. reflexivity.
    + (* Ne *) cbn [tyop map elen of_b] in Hty. if_inv Hty Hc. apply andb_true_iff in Hc as [Hk Heq]. apply Z.eqb_eq in Heq.
      inversion Hwf as [|? ? Hx Hr1]; subst; inversion Hr1 as [|? ? Hy Hr2]; subst.
      assert (Hw : wok (bbits b) = true) by (destruct Hx; auto).
      rewrite (ne_spec b b0) in Hf by (auto using wfb'_wfb, wfb'_pos).
      cbn [bind of_bool] in Hf. inversion Hf; subst.
      apply (good_boolv _ [] [b; b0]); auto.
      cbn [map eval_op val_b cmp_bv]. rewrite <- Heq, Z.eqb_refl. reflexivity.
    + (* ULT *) t_two Hw Heq Hx Hy.
      rewrite (ult_spec b b0) in Hf by (auto using wfb'_wfb, wfb'_pos).
      cbn [bind of_bool] in Hf. inversion Hf; subst.
      apply (good_boolv _ [] [b; b0]); auto.
      cbn [map eval_op val_b cmp_bv]. rewrite <- Heq, Z.eqb_refl. reflexivity.
    + (* ULE *) t_two Hw Heq Hx Hy.
      rewrite (ule_spec b b0) in Hf by (auto using wfb'_wfb, wfb'_pos).
      cbn [bind of_bool] in Hf. inversion Hf; subst.
      apply (good_boolv _ [] [b; b0]); auto.
      cbn [map eval_op val_b cmp_bv]. rewrite <- Heq, Z.eqb_refl. reflexivity.
    + (* UGT *) t_two Hw Heq Hx Hy.
      rewrite (ugt_spec b b0) in Hf by (auto using wfb'_wfb, wfb'_pos).
      cbn [bind of_bool] in Hf. inversion Hf; subst.
      apply (good_boolv _ [] [b; b0]); auto.
      cbn [map eval_op val_b cmp_bv]. rewrite <- Heq, Z.eqb_refl. reflexivity.
    + (* UGE *) t_two Hw Heq Hx Hy.
      rewrite (uge_spec b b0) in Hf by (auto using wfb'_wfb, wfb'_pos).
      cbn [bind of_bool] in Hf. inversion Hf; subst.
      apply (good_boolv _ [] [b; b0]); auto.
      cbn [map eval_op val_b cmp_bv]. rewrite <- Heq, Z.eqb_refl. reflexivity.
    + (* SLT *) t_two Hw Heq Hx Hy.
      rewrite (slt_spec b b0) in Hf by (auto using wfb'_wfb, wfb'_pos).
      cbn [bind of_bool] in Hf. inversion Hf; subst.
      apply (good_boolv _ [] [b; b0]); auto.
      cbn [map eval_op val_b cmp_bv]. rewrite <- Heq, Z.eqb_refl. reflexivity.
    + (* SLE *) t_two Hw Heq Hx Hy.
      rewrite (sle_spec b b0) in Hf by (auto using wfb'_wfb, wfb'_pos).
      cbn [bind of_bool] in Hf. inversion Hf; subst.
      apply (good_boolv _ [] [b; b0]); auto.
      cbn [map eval_op val_b cmp_bv]. rewrite <- Heq, Z.eqb_refl. reflexivity.
    + (* SGT *) t_two Hw Heq Hx Hy.
      rewrite (sgt_spec b b0) in Hf by (auto using wfb'_wfb, wfb'_pos).
      cbn [bind of_bool] in Hf. inversion Hf; subst.
      apply (good_boolv _ [] [b; b0]); auto.
      cbn [map eval_op val_b cmp_bv]. rewrite <- Heq, Z.eqb_refl. reflexivity.
    + (* SGE *) t_two Hw Heq Hx Hy.
      rewrite (sge_spec b b0) in Hf by (auto using wfb'_wfb, wfb'_pos).
      cbn [bind of_bool] in Hf. inversion Hf; subst.
      apply (good_boolv _ [] [b; b0]); auto.
      cbn [map eval_op val_b cmp_bv]. rewrite <- Heq, Z.eqb_refl. reflexivity.
  - destruct op; try discriminate Hf; destruct ints; try discriminate Hf.
    + (* Eq on Booleans *)
      destruct args as [|[| | |a|] [|[| | |b|] [|? ?]]]; try discriminate Hf.
      inversion Hf; subst. split; [exact I|]. split; [reflexivity|]. intros rho. reflexivity.
    + (* Ne on Booleans *)
      destruct args as [|[| | |a|] [|[| | |b|] [|? ?]]]; try discriminate Hf.
      inversion Hf; subst. split; [exact I|]. split; [reflexivity|]. intros rho. reflexivity.
    + (* And *)
      destruct (all_boolv args) as [[|b bs]|] eqn:Hb; try discriminate Hf.
      apply all_boolv_spec in Hb. subst args. inversion Hf; subst.
      split; [exact I|]. split; [reflexivity|]. intros rho. unfold plain. cbn [eval].
      rewrite eval_map_boolv. cbn [map eval_op nary]. rewrite fold_bin_boolv. reflexivity.
    + (* Or *)
      destruct (all_boolv args) as [[|b bs]|] eqn:Hb; try discriminate Hf.
      apply all_boolv_spec in Hb. subst args. inversion Hf; subst.
      split; [exact I|]. split; [reflexivity|]. intros rho. unfold plain. cbn [eval].
      rewrite eval_map_boolv. cbn [map eval_op nary]. rewrite fold_bin_boolv. reflexivity.
    + (* Not *)
      destruct args as [|[| | |a|] [|? ?]]; try discriminate Hf.
      inversion Hf; subst. split; [exact I|]. split; [reflexivity|]. intros rho. reflexivity.
    + (* If *)
      destruct args as [|[| | |c|] [|t [|f [|? ?]]]]; try discriminate Hf.
      cbn [map elen tyop] in Hty. if_inv Hty Hc.
      apply andb_true_iff in Hc as [Hc He]. apply andb_true_iff in Hc as [_ Hk]. apply Z.eqb_eq in He.
      inversion Hwf as [|? ? _ Hr1]; subst. inversion Hr1 as [|? ? Htw Hr2]; subst. inversion Hr2 as [|? ? Hfw _]; subst.
      destruct t as [| tv tw | | tb |]; destruct f as [| fv fw | | fb |]; try discriminate Hf; inversion Hf; subst.
      * cbn in He. subst fw. destruct c.
        -- split; [exact Htw|]. split; [reflexivity|]. intros rho. unfold plain. cbn. rewrite Z.eqb_refl. reflexivity.
        -- split; [exact Hfw|]. split; [reflexivity|]. intros rho. unfold plain. cbn. rewrite Z.eqb_refl. reflexivity.
      * destruct c; (split; [exact I|]; split; [reflexivity|]; intros rho; reflexivity).
Qed.
