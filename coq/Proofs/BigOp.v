(* Commutative-monoid folds over lists: the algebra behind _flatten_simplifier. *)
From Coq Require Import List Bool Arith Lia.
Import ListNotations.

Section Monoid.
Variable T : Type.
Variable In : T -> Prop.
Variable f : T -> T -> T.
Variable u : T.
Hypothesis In_u : In u.
Hypothesis In_f : forall a b, In a -> In b -> In (f a b).
Hypothesis f_assoc : forall a b c, In a -> In b -> In c -> f a (f b c) = f (f a b) c.
Hypothesis f_comm : forall a b, In a -> In b -> f a b = f b a.
Hypothesis f_unit : forall a, In a -> f a u = a.

Definition big (l : list T) : T := fold_right f u l.

Lemma big_In l : Forall In l -> In (big l).
Proof. induction 1; cbn; auto. Qed.

Lemma f_unit_l a : In a -> f u a = a.
Proof. intros. rewrite f_comm; auto. Qed.

Lemma big_app l1 l2 : Forall In l1 -> Forall In l2 -> big (l1 ++ l2) = f (big l1) (big l2).
Proof.
  intros H1 H2. induction H1 as [|a r Ha Hr IH]; cbn [app big fold_right].
  - fold (big l2). rewrite f_unit_l; auto using big_In.
  - fold (big (r ++ l2)) (big r). rewrite IH. apply f_assoc; auto using big_In.
Qed.

(* left fold from the first element = big *)
Lemma fold_left_big : forall l a, In a -> Forall In l -> fold_left f l a = f a (big l).
Proof.
  induction l as [|b r IH]; intros a Ha Hl; cbn [fold_left big fold_right].
  - rewrite f_unit; auto.
  - inversion Hl; subst. fold (big r). rewrite IH; auto. symmetry. apply f_assoc; auto using big_In.
Qed.

Lemma big_partition (p : T -> bool) l : Forall In l ->
  big l = f (big (filter (fun x => negb (p x)) l)) (big (filter p l)).
Proof.
  induction 1 as [|a r Ha Hr IH]; cbn [filter big fold_right].
  - rewrite f_unit; auto.
  - fold (big r). rewrite IH.
    assert (I1 : In (big (filter (fun x => negb (p x)) r))).
    { apply big_In. apply Forall_forall. intros x Hx. apply filter_In in Hx as [Hx _].
      rewrite Forall_forall in Hr. auto. }
    assert (I2 : In (big (filter p r))).
    { apply big_In. apply Forall_forall. intros x Hx. apply filter_In in Hx as [Hx _].
      rewrite Forall_forall in Hr. auto. }
    destruct (p a); cbn [negb big fold_right].
    + fold (big (filter p r)).
      set (N := big (filter (fun x => negb (p x)) r)) in *. set (P := big (filter p r)) in *.
      rewrite (f_assoc a N P) by auto. rewrite (f_comm a N) by auto. symmetry. apply f_assoc; auto.
    + fold (big (filter (fun x => negb (p x)) r)). apply f_assoc; auto.
Qed.

(* Lists of keyed items: [val] gives the monoid element of an item; items with the same key have the
   same value (structural equality of expressions). *)
Variable K : Type.
Variable eqb : K -> K -> bool.
Hypothesis eqb_eq : forall a b, eqb a b = true <-> a = b.
Variable val : K -> T.

Notation B l := (big (map val l)).
Definition allIn (l : list K) : Prop := Forall (fun k => In (val k)) l.

Lemma allIn_map l : allIn l -> Forall In (map val l).
Proof. induction 1; cbn; constructor; auto. Qed.

Lemma big_partition_k (p : K -> bool) l : allIn l ->
  B l = f (B (filter (fun x => negb (p x)) l)) (B (filter p l)).
Proof.
  induction 1 as [|a r Ha Hr IH]; cbn [filter map big fold_right].
  - rewrite f_unit; auto.
  - fold (big (map val r)). rewrite IH.
    assert (I1 : In (B (filter (fun x => negb (p x)) r))).
    { apply big_In, allIn_map. apply Forall_forall. intros x Hx. apply filter_In in Hx as [Hx _].
      unfold allIn in Hr. rewrite Forall_forall in Hr. auto. }
    assert (I2 : In (B (filter p r))).
    { apply big_In, allIn_map. apply Forall_forall. intros x Hx. apply filter_In in Hx as [Hx _].
      unfold allIn in Hr. rewrite Forall_forall in Hr. auto. }
    destruct (p a); cbn [negb map big fold_right].
    + fold (big (map val (filter p r))).
      set (N := B (filter (fun x => negb (p x)) r)) in *. set (P := B (filter p r)) in *.
      rewrite (f_assoc (val a) N P) by auto. rewrite (f_comm (val a) N) by auto. symmetry. apply f_assoc; auto.
    + fold (big (map val (filter (fun x => negb (p x)) r))). apply f_assoc; auto.
Qed.

(* dropping items whose value is the unit *)
Lemma big_filter_unit (p : K -> bool) l : allIn l ->
  (forall x, List.In x l -> p x = false -> val x = u) -> B (filter p l) = B l.
Proof.
  induction 1 as [|a r Ha Hr IH]; intros Hu; cbn [filter map big fold_right]; [reflexivity|].
  fold (big (map val r)).
  assert (IHr : B (filter p r) = B r) by (apply IH; intros; apply Hu; auto; right; auto).
  destruct (p a) eqn:E; cbn [map big fold_right].
  - fold (big (map val (filter p r))). f_equal. exact IHr.
  - transitivity (B r); [exact IHr|]. rewrite (Hu a (or_introl eq_refl) E). symmetry. apply f_unit_l. apply big_In, allIn_map; auto.
Qed.

Fixpoint memk (x : K) (l : list K) : bool :=
  match l with [] => false | y :: r => eqb x y || memk x r end.
Fixpoint dedupk (seen l : list K) : list K :=
  match l with
  | [] => []
  | x :: r => if memk x seen then dedupk seen r else x :: dedupk (x :: seen) r
  end.

Lemma memk_In x l : memk x l = true -> List.In x l.
Proof.
  induction l as [|y r IH]; cbn; [discriminate|]. intros H. apply orb_true_iff in H as [H|H].
  - apply eqb_eq in H. auto.
  - auto.
Qed.

Lemma allIn_dedupk seen l : allIn l -> allIn (dedupk seen l).
Proof.
  revert seen. induction l as [|x r IH]; intros seen H; cbn; [constructor|].
  inversion H; subst. destruct (memk x seen); [apply IH; auto|constructor; auto; apply IH; auto].
Qed.

(* idempotent monoids: duplicates can be dropped *)
Section Idem.
Hypothesis f_idem : forall a, In a -> f a a = a.

Lemma absorb x seen : allIn seen -> List.In x seen -> f (B seen) (val x) = B seen.
Proof.
  intros Hs. induction Hs as [|y r Hy Hr IH]; cbn [map]; intros Hin; [destruct Hin|].
  cbn [big fold_right]. fold (big (map val r)).
  assert (Ir : In (B r)) by (apply big_In; auto using allIn_map).
  destruct Hin as [->|Hin].
  - rewrite (f_comm (val x)) by auto. rewrite <- f_assoc by auto. rewrite f_idem by auto. reflexivity.
  - assert (Ix : In (val x)) by (clear -Hr Hin; induction Hr; destruct Hin; subst; auto).
    rewrite <- f_assoc by auto. rewrite IH by auto. reflexivity.
Qed.

Lemma dedupk_big : forall l seen, allIn l -> allIn seen ->
  f (B seen) (B (dedupk seen l)) = f (B seen) (B l).
Proof.
  induction l as [|x r IH]; intros seen Hl Hs; cbn [dedupk]; [reflexivity|].
  inversion Hl as [|? ? Hx Hr]; subst.
  assert (Is : In (B seen)) by (apply big_In; auto using allIn_map).
  assert (Ir : In (B r)) by (apply big_In; auto using allIn_map).
  destruct (memk x seen) eqn:M.
  - rewrite IH by auto. cbn [map big fold_right]. fold (big (map val r)).
    rewrite f_assoc by auto. rewrite absorb by auto using memk_In. reflexivity.
  - cbn [map big fold_right]. fold (big (map val (dedupk (x :: seen) r))) (big (map val r)).
    assert (Id : In (B (dedupk (x :: seen) r))) by (apply big_In, allIn_map, allIn_dedupk; auto).
    rewrite !f_assoc by auto.
    assert (E : f (B seen) (val x) = B (x :: seen)).
    { cbn [map big fold_right]. apply f_comm; auto. }
    rewrite E. apply IH; auto. constructor; auto.
Qed.

Lemma dedup_big l : allIn l -> B (dedupk [] l) = B l.
Proof.
  intros H. pose proof (dedupk_big l [] H ltac:(constructor)) as E. cbn [map big fold_right] in E.
  rewrite !f_unit_l in E; auto; apply big_In; auto using allIn_map, allIn_dedupk.
Qed.
End Idem.

End Monoid.
