(* Instances of flatten_sound for __add__ __mul__ __and__ __or__ __xor__ And Or. *)
From Coq Require Import ZArith Bool List Lia.
Require Import CV.Model.PyPrelude CV.Spec.BV CV.Model.BVExec CV.Gen.BvConcrete CV.Model.Ast CV.Model.Build.
Require Import CV.Proofs.BVLemmas CV.Proofs.SpecRange CV.Proofs.AstLemmas CV.Proofs.BvConcreteProof
               CV.Proofs.BuildSound CV.Proofs.BigOp CV.Proofs.FlattenSound.
Import ListNotations.
Open Scope Z_scope.

(* Build.dedup is the keyed dedup of BigOp *)
Lemma dedup_aux_dedupk : forall l seen, dedup_aux seen l = dedupk expr expr_eqb seen l.
Proof.
  assert (M : forall x s, mem_expr x s = memk expr expr_eqb x s) by (intros x s; induction s; cbn; congruence).
  induction l as [|x r IH]; intros seen; cbn; [reflexivity|]. rewrite M. destruct (memk expr expr_eqb x seen); rewrite IH; reflexivity.
Qed.

Lemma okl_dedup l es : okl l es -> okl l (dedup es).
Proof.
  unfold dedup. rewrite dedup_aux_dedupk. intros H.
  apply (allIn_dedupk expr (fun e => wfe e /\ elen e = l) expr expr_eqb (fun e => e)) ; auto.
Qed.

Section BVInst.
Variable op : opk.
Variable spec : Z -> Z -> Z -> Z.
Variable unit_of : Z -> Z.
Variable w : Z.
Hypothesis Hw : wok w = true.
Hypothesis eval_op_nary : forall vs, eval_op op [] vs = nary (bin_bv spec) vs.
Hypothesis u_in : inr w (unit_of w).
Hypothesis s_in : forall a b, inr w a -> inr w b -> inr w (spec w a b).
Hypothesis s_assoc : forall a b c, inr w a -> inr w b -> inr w c -> spec w a (spec w b c) = spec w (spec w a b) c.
Hypothesis s_comm : forall a b, inr w a -> inr w b -> spec w a b = spec w b a.
Hypothesis s_unit : forall a, inr w a -> spec w a (unit_of w) = a.
Hypothesis ty_def : forall ints ls, tyop op ints ls =
  match ints, ls with
  | [], x :: r => if wok x && forallb (Z.eqb x) r then Some x else None
  | _, _ => None
  end.

Definition fvz (a b : value) : value :=
  match a, b with VBV _ x, VBV _ y => VBV w (spec w x y) | _, _ => a end.
Definition uvz : value := VBV w (unit_of w).

Ltac bvs := repeat match goal with H : vty ?v w |- _ =>
  let x := fresh "x" in let Hx := fresh "Hx" in destruct (vty_bv _ _ H Hw) as (x & -> & Hx); clear H end.

Lemma i_g_fv a b : vty a w -> vty b w -> bin_bv spec a b = Some (fvz a b).
Proof. intros Ha Hb. bvs. cbn. rewrite Z.eqb_refl. reflexivity. Qed.
Lemma i_In_u : vty uvz w. Proof. apply vty_mk_bv; auto. Qed.
Lemma i_In_f a b : vty a w -> vty b w -> vty (fvz a b) w.
Proof. intros Ha Hb. bvs. cbn. apply vty_mk_bv; auto. apply s_in; auto. Qed.
Lemma i_assoc a b c : vty a w -> vty b w -> vty c w -> fvz a (fvz b c) = fvz (fvz a b) c.
Proof. intros Ha Hb Hc. bvs. cbn. f_equal. apply s_assoc; auto. Qed.
Lemma i_comm a b : vty a w -> vty b w -> fvz a b = fvz b a.
Proof. intros Ha Hb. bvs. cbn. f_equal. apply s_comm; auto. Qed.
Lemma i_unit a : vty a w -> fvz a uvz = a.
Proof. intros Ha. bvs. cbn. f_equal. apply s_unit; auto. Qed.

Lemma i_ty_ok es : es <> [] -> okl w es -> tyop op [] (map elen es) = Some w.
Proof.
  intros Hne H. rewrite ty_def. destruct es as [|e r]; [congruence|]. cbn [map].
  unfold okl in H. inversion H as [|? ? Hh Hr]; subst. destruct Hh as [_ He]. rewrite He, Hw. cbn [andb].
  replace (forallb (Z.eqb w) (map elen r)) with true; [reflexivity|].
  symmetry. clear -Hr. induction Hr as [|x r [_ Hx] _ IH]; cbn; [reflexivity|]. rewrite Hx, Z.eqb_refl. exact IH.
Qed.

Lemma i_ty_inv ints es len : Forall wfe es -> tyop op ints (map elen es) = Some len ->
  ints = [] /\ es <> [] /\ Forall (fun e => elen e = len) es.
Proof.
  intros _ H. rewrite ty_def in H. destruct ints; [|discriminate H].
  destruct es as [|e r]; [discriminate H|]. cbn [map] in H.
  destruct (wok (elen e) && forallb (Z.eqb (elen e)) (map elen r)) eqn:E; [|discriminate H].
  inversion H; subst. apply andb_true_iff in E as [_ E].
  split; [reflexivity|]. split; [discriminate|]. constructor; [reflexivity|].
  clear -E. induction r as [|x r IH]; [constructor|]. cbn in E. apply andb_true_iff in E as [E1 E2].
  apply Z.eqb_eq in E1. constructor; auto.
Qed.

Definition inst_flatten_sound :=
  flatten_sound op w (bin_bv spec) fvz uvz eval_op_nary i_g_fv i_In_u i_In_f i_assoc i_comm i_unit i_ty_ok i_ty_inv.

(* filters *)
Lemma V_in rho e : wfe e -> elen e = w -> vty (V uvz rho e) w.
Proof. intros. apply (okl_eval w uvz); auto. Qed.

Lemma filt_none rho es es' : okl w es -> apply_filt FNone es = Ok es' ->
  okl w es' /\ big value fvz uvz (map (V uvz rho) es') = big value fvz uvz (map (V uvz rho) es).
Proof. intros H E. inversion E; subst. auto. Qed.

Lemma filt_xor rho es es' : okl w es -> apply_filt FXor es = Ok es' ->
  okl w es' /\ big value fvz uvz (map (V uvz rho) es') = big value fvz uvz (map (V uvz rho) es).
Proof. intros H E. cbn in E. destruct (list_eqb (xor_filter es) es); inversion E; subst. auto. Qed.

Lemma filt_dedup (Hidem : forall a, inr w a -> spec w a a = a) rho es es' :
  okl w es -> apply_filt FDedup es = Ok es' ->
  okl w es' /\ big value fvz uvz (map (V uvz rho) es') = big value fvz uvz (map (V uvz rho) es).
Proof.
  intros H E. inversion E; subst. split; [apply okl_dedup; auto|].
  unfold dedup. rewrite dedup_aux_dedupk.
  apply (dedup_big value (fun v => vty v w) fvz uvz i_In_u i_In_f i_assoc i_comm i_unit expr expr_eqb expr_eqb_eq).
  - intros a Ha. bvs. cbn. f_equal. apply Hidem; auto.
  - unfold allIn. eapply Forall_impl; [|exact H]. cbn. intros a [A1 A2]. apply V_in; auto.
Qed.

Lemma filt_add (Hu0 : unit_of w = 0) rho es es' : okl w es -> apply_filt FAdd es = Ok es' ->
  okl w es' /\ big value fvz uvz (map (V uvz rho) es') = big value fvz uvz (map (V uvz rho) es).
Proof.
  intros H E. inversion E; subst. unfold add_filter. split; [apply okl_filter; auto|].
  apply (big_filter_unit value (fun v => vty v w) fvz uvz i_In_u i_In_f i_comm i_unit expr).
  - unfold allIn. eapply Forall_impl; [|exact H]. cbn. intros a [A1 A2]. apply V_in; auto.
  - intros x Hx Hp. destruct x as [|v w'| | |]; cbn in Hp; try discriminate Hp.
    apply negb_false_iff in Hp. apply Z.eqb_eq in Hp. subst v.
    unfold okl in H. rewrite Forall_forall in H. destruct (H _ Hx) as [_ Hl]. cbn in Hl. subst w'.
    unfold V, uvz. cbn. rewrite Hu0. reflexivity.
Qed.

Lemma init_zero (Hu0 : unit_of w = 0) i : Some (cbvv 0 w) = Some i ->
  wfe i /\ elen i = w /\ forall rho, eval rho i = Some uvz.
Proof.
  intros E. inversion E; subst. unfold cbvv. pose proof (pow2_pos w (wok_nonneg _ Hw)).
  rewrite Z.mod_0_l by lia. split; [cbn; split; auto; lia|]. split; [reflexivity|].
  intros rho. cbn. unfold uvz. rewrite Hu0. reflexivity.
Qed.
Lemma init_none i : @None expr = Some i -> wfe i /\ elen i = w /\ forall rho, eval rho i = Some uvz.
Proof. discriminate. Qed.
End BVInst.

(* ---- spec-level algebra ---- *)
Lemma add_assoc w a b c : 0 <= w -> bvadd w a (bvadd w b c) = bvadd w (bvadd w a b) c.
Proof. intros. unfold bvadd, wrap. rewrite Zplus_mod_idemp_r, Zplus_mod_idemp_l. f_equal. lia. Qed.
Lemma mul_assoc w a b c : 0 <= w -> bvmul w a (bvmul w b c) = bvmul w (bvmul w a b) c.
Proof. intros. unfold bvmul, wrap. rewrite Zmult_mod_idemp_r, Zmult_mod_idemp_l. f_equal. lia. Qed.
Lemma and_unit w a : 0 <= w -> inr w a -> bvand w a (2 ^ w - 1) = a.
Proof. intros. unfold bvand. rewrite land_mask_mod by lia. apply Z.mod_small. exact H0. Qed.

Definition tydef_ok (op : opk) : Prop := forall ints ls, tyop op ints ls =
  match ints, ls with
  | [], x :: r => if wok x && forallb (Z.eqb x) r then Some x else None
  | _, _ => None
  end.
Lemma tydef_add : tydef_ok OAdd. Proof. intros [|? ?] [|? ?]; reflexivity. Qed.
Lemma tydef_mul : tydef_ok OMul. Proof. intros [|? ?] [|? ?]; reflexivity. Qed.
Lemma tydef_and : tydef_ok OAnd. Proof. intros [|? ?] [|? ?]; reflexivity. Qed.
Lemma tydef_or : tydef_ok OOr. Proof. intros [|? ?] [|? ?]; reflexivity. Qed.
Lemma tydef_xor : tydef_ok OXor. Proof. intros [|? ?] [|? ?]; reflexivity. Qed.

Ltac nn := match goal with H : wok ?w = true |- _ => pose proof (wok_nonneg _ H) end.

Section Laws.
Variable w : Z.
Hypothesis Hw : wok w = true.
Let Hn : 0 <= w := wok_nonneg _ Hw.

Lemma l_zero_in : inr w 0. Proof. unfold inr. pose proof (pow2_pos w Hn). lia. Qed.
Lemma l_one_in : inr w 1.
Proof. unfold inr. pose proof (wok_pos _ Hw). assert (2 ^ 1 <= 2 ^ w) by (apply Z.pow_le_mono_r; lia). lia. Qed.
Lemma l_ones_in : inr w (2 ^ w - 1). Proof. unfold inr. pose proof (pow2_pos w Hn). lia. Qed.

Lemma l_add_in a b : inr w a -> inr w b -> inr w (bvadd w a b). Proof. intros; apply r_add; auto. Qed.
Lemma l_add_assoc a b c : inr w a -> inr w b -> inr w c -> bvadd w a (bvadd w b c) = bvadd w (bvadd w a b) c.
Proof. intros; apply add_assoc; auto. Qed.
Lemma l_add_comm a b : inr w a -> inr w b -> bvadd w a b = bvadd w b a.
Proof. intros; unfold bvadd; f_equal; lia. Qed.
Lemma l_add_unit a : inr w a -> bvadd w a 0 = a.
Proof. intros Ha. unfold bvadd. rewrite Z.add_0_r. apply wrap_small. exact Ha. Qed.

Lemma l_mul_in a b : inr w a -> inr w b -> inr w (bvmul w a b). Proof. intros; apply r_mul; auto. Qed.
Lemma l_mul_assoc a b c : inr w a -> inr w b -> inr w c -> bvmul w a (bvmul w b c) = bvmul w (bvmul w a b) c.
Proof. intros; apply mul_assoc; auto. Qed.
Lemma l_mul_comm a b : inr w a -> inr w b -> bvmul w a b = bvmul w b a.
Proof. intros; unfold bvmul; f_equal; lia. Qed.
Lemma l_mul_unit a : inr w a -> bvmul w a 1 = a.
Proof. intros Ha. unfold bvmul. rewrite Z.mul_1_r. apply wrap_small. exact Ha. Qed.

Lemma l_and_in a b : inr w a -> inr w b -> inr w (bvand w a b). Proof. intros; apply r_and; auto. Qed.
Lemma l_and_assoc a b c : inr w a -> inr w b -> inr w c -> bvand w a (bvand w b c) = bvand w (bvand w a b) c.
Proof. intros; unfold bvand; apply Z.land_assoc. Qed.
Lemma l_and_comm a b : inr w a -> inr w b -> bvand w a b = bvand w b a.
Proof. intros; unfold bvand; apply Z.land_comm. Qed.
Lemma l_and_unit a : inr w a -> bvand w a (2 ^ w - 1) = a. Proof. intros; apply and_unit; auto. Qed.
Lemma l_and_idem a : inr w a -> bvand w a a = a. Proof. intros; unfold bvand; apply Z.land_diag. Qed.

Lemma l_or_in a b : inr w a -> inr w b -> inr w (bvor w a b). Proof. intros; apply r_or; auto. Qed.
Lemma l_or_assoc a b c : inr w a -> inr w b -> inr w c -> bvor w a (bvor w b c) = bvor w (bvor w a b) c.
Proof. intros; unfold bvor; apply Z.lor_assoc. Qed.
Lemma l_or_comm a b : inr w a -> inr w b -> bvor w a b = bvor w b a.
Proof. intros; unfold bvor; apply Z.lor_comm. Qed.
Lemma l_or_unit a : inr w a -> bvor w a 0 = a. Proof. intros; unfold bvor; apply Z.lor_0_r. Qed.
Lemma l_or_idem a : inr w a -> bvor w a a = a. Proof. intros; unfold bvor; apply Z.lor_diag. Qed.

Lemma l_xor_in a b : inr w a -> inr w b -> inr w (bvxor w a b). Proof. intros; apply r_xor; auto. Qed.
Lemma l_xor_assoc a b c : inr w a -> inr w b -> inr w c -> bvxor w a (bvxor w b c) = bvxor w (bvxor w a b) c.
Proof. intros; unfold bvxor; symmetry; apply Z.lxor_assoc. Qed.
Lemma l_xor_comm a b : inr w a -> inr w b -> bvxor w a b = bvxor w b a.
Proof. intros; unfold bvxor; apply Z.lxor_comm. Qed.
Lemma l_xor_unit a : inr w a -> bvxor w a 0 = a. Proof. intros; unfold bvxor; apply Z.lxor_0_r. Qed.
End Laws.

Lemma empty_fails_of op : (forall r0, construct op [] [] = Ok r0 -> False) -> forall r0, construct op [] [] <> Ok r0.
Proof. intros H r0 E. eapply H; eauto. Qed.

Theorem flatten_add_sound w args r : wok w = true -> okl w args -> args <> [] ->
  flatten OAdd FAdd args (Some (cbvv 0 w)) = Ok (Some r) -> good OAdd [] args r.
Proof.
  intros Hw Hok Hne H.
  apply (inst_flatten_sound OAdd bvadd (fun _ => 0) w Hw (fun vs => eq_refl)
           (l_zero_in w Hw) (l_add_in w Hw) (l_add_assoc w Hw) (l_add_comm w) (l_add_unit w) tydef_add
           FAdd (filt_add bvadd (fun _ => 0) w Hw (l_zero_in w Hw) (l_add_in w Hw) (l_add_comm w) (l_add_unit w) eq_refl)
           (Some (cbvv 0 w))); auto.
  - intros r0 E. vm_compute in E. discriminate E.
  - apply (init_zero (fun _ => 0) w Hw eq_refl).
Qed.

Theorem flatten_mul_sound w args r : wok w = true -> okl w args -> args <> [] ->
  flatten OMul FNone args None = Ok (Some r) -> good OMul [] args r.
Proof.
  intros Hw Hok Hne H.
  apply (inst_flatten_sound OMul bvmul (fun _ => 1) w Hw (fun vs => eq_refl)
           (l_one_in w Hw) (l_mul_in w Hw) (l_mul_assoc w Hw) (l_mul_comm w) (l_mul_unit w) tydef_mul
           FNone (filt_none bvmul (fun _ => 1) w) None); auto.
  - intros r0 E. vm_compute in E. discriminate E.
  - apply (init_none (fun _ => 1) w).
Qed.

Theorem flatten_and_sound w args r : wok w = true -> okl w args -> args <> [] ->
  flatten OAnd FDedup args None = Ok (Some r) -> good OAnd [] args r.
Proof.
  intros Hw Hok Hne H.
  apply (inst_flatten_sound OAnd bvand (fun w => 2 ^ w - 1) w Hw (fun vs => eq_refl)
           (l_ones_in w Hw) (l_and_in w Hw) (l_and_assoc w) (l_and_comm w) (l_and_unit w Hw) tydef_and
           FDedup (filt_dedup bvand (fun w => 2 ^ w - 1) w Hw (l_ones_in w Hw) (l_and_in w Hw) (l_and_assoc w)
                     (l_and_comm w) (l_and_unit w Hw) (l_and_idem w)) None); auto.
  - intros r0 E. vm_compute in E. discriminate E.
  - apply (init_none (fun w => 2 ^ w - 1) w).
Qed.

Theorem flatten_or_sound w args r : wok w = true -> okl w args -> args <> [] ->
  flatten OOr FDedup args None = Ok (Some r) -> good OOr [] args r.
Proof.
  intros Hw Hok Hne H.
  apply (inst_flatten_sound OOr bvor (fun _ => 0) w Hw (fun vs => eq_refl)
           (l_zero_in w Hw) (l_or_in w Hw) (l_or_assoc w) (l_or_comm w) (l_or_unit w) tydef_or
           FDedup (filt_dedup bvor (fun _ => 0) w Hw (l_zero_in w Hw) (l_or_in w Hw) (l_or_assoc w)
                     (l_or_comm w) (l_or_unit w) (l_or_idem w)) None); auto.
  - intros r0 E. vm_compute in E. discriminate E.
  - apply (init_none (fun _ => 0) w).
Qed.

Theorem flatten_xor_sound w args r : wok w = true -> okl w args -> args <> [] ->
  flatten OXor FXor args (Some (cbvv 0 w)) = Ok (Some r) -> good OXor [] args r.
Proof.
  intros Hw Hok Hne H.
  apply (inst_flatten_sound OXor bvxor (fun _ => 0) w Hw (fun vs => eq_refl)
           (l_zero_in w Hw) (l_xor_in w Hw) (l_xor_assoc w) (l_xor_comm w) (l_xor_unit w) tydef_xor
           FXor (filt_xor bvxor (fun _ => 0) w) (Some (cbvv 0 w))); auto.
  - intros r0 E. vm_compute in E. discriminate E.
  - apply (init_zero (fun _ => 0) w Hw eq_refl).
Qed.

(* ---- Boolean And / Or ---- *)
Lemma okl_bool_forallb es : okl (-1) es -> forallb (Z.eqb (-1)) (map elen es) = true.
Proof.
  unfold okl. induction 1 as [|x r0 [_ Hx] _ IH]; cbn; [reflexivity|]. rewrite Hx. cbn. exact IH.
Qed.

Section BoolInst.
Variable op : opk.
Variable fb : bool -> bool -> bool.
Variable ub : bool.
Hypothesis eval_op_nary : forall vs, eval_op op [] vs = nary (bool_bin fb) vs.
Hypothesis b_assoc : forall a b c, fb a (fb b c) = fb (fb a b) c.
Hypothesis b_comm : forall a b, fb a b = fb b a.
Hypothesis b_unit : forall a, fb a ub = a.
Hypothesis b_idem : forall a, fb a a = a.
Hypothesis ty_def : forall ints ls, tyop op ints ls =
  match ints, ls with
  | [], _ :: _ => if forallb (Z.eqb (-1)) ls then Some (-1) else None
  | _, _ => None
  end.

Definition fvb (a b : value) : value := match a, b with VBool x, VBool y => VBool (fb x y) | _, _ => a end.
Definition uvb : value := VBool ub.

Ltac bools := repeat match goal with H : vty ?v (-1) |- _ =>
  let x := fresh "x" in destruct (vty_bool _ H) as (x & ->); clear H end.

Lemma b_g_fv a b : vty a (-1) -> vty b (-1) -> bool_bin fb a b = Some (fvb a b).
Proof. intros Ha Hb. bools. reflexivity. Qed.
Lemma b_In_u : vty uvb (-1). Proof. apply vty_mk_bool. Qed.
Lemma b_In_f a b : vty a (-1) -> vty b (-1) -> vty (fvb a b) (-1).
Proof. intros Ha Hb. bools. apply vty_mk_bool. Qed.
Lemma bi_assoc a b c : vty a (-1) -> vty b (-1) -> vty c (-1) -> fvb a (fvb b c) = fvb (fvb a b) c.
Proof. intros Ha Hb Hc. bools. cbn. f_equal. apply b_assoc. Qed.
Lemma bi_comm a b : vty a (-1) -> vty b (-1) -> fvb a b = fvb b a.
Proof. intros Ha Hb. bools. cbn. f_equal. apply b_comm. Qed.
Lemma bi_unit a : vty a (-1) -> fvb a uvb = a.
Proof. intros Ha. bools. cbn. f_equal. apply b_unit. Qed.

Lemma b_ty_ok es : es <> [] -> okl (-1) es -> tyop op [] (map elen es) = Some (-1).
Proof.
  intros Hne H. rewrite ty_def. destruct es as [|e r]; [congruence|]. cbn [map].
  change (elen e :: map elen r) with (map elen (e :: r)). rewrite okl_bool_forallb by auto. reflexivity.
Qed.

Lemma b_ty_inv ints es len : Forall wfe es -> tyop op ints (map elen es) = Some len ->
  ints = [] /\ es <> [] /\ Forall (fun e => elen e = len) es.
Proof.
  intros _ H. rewrite ty_def in H. destruct ints; [|discriminate H].
  destruct es as [|e r]; [discriminate H|].
  destruct (forallb (Z.eqb (-1)) (map elen (e :: r))) eqn:E; [|discriminate H].
  inversion H; subst. split; [reflexivity|]. split; [discriminate|].
  clear -E. induction (e :: r) as [|x l IH]; [constructor|]. cbn [map forallb] in E. apply andb_true_iff in E as [E1 E2].
  apply Z.eqb_eq in E1. constructor; auto.
Qed.

Lemma b_filt_dedup rho es es' : okl (-1) es -> apply_filt FDedup es = Ok es' ->
  okl (-1) es' /\ big value fvb uvb (map (V uvb rho) es') = big value fvb uvb (map (V uvb rho) es).
Proof.
  intros H E. inversion E; subst. split; [apply okl_dedup; auto|].
  unfold dedup. rewrite dedup_aux_dedupk.
  apply (dedup_big value (fun v => vty v (-1)) fvb uvb b_In_u b_In_f bi_assoc bi_comm bi_unit expr expr_eqb expr_eqb_eq).
  - intros a Ha. bools. cbn. f_equal. apply b_idem.
  - unfold allIn. eapply Forall_impl; [|exact H]. cbn. intros a [A1 A2]. apply (okl_eval (-1) uvb); auto.
Qed.

Theorem bool_flatten_sound (Hempty : forall r0, construct op [] [] <> Ok r0) args r :
  okl (-1) args -> args <> [] -> flatten op FDedup args None = Ok (Some r) -> good op [] args r.
Proof.
  intros Hok Hne H.
  apply (flatten_sound op (-1) (bool_bin fb) fvb uvb eval_op_nary b_g_fv b_In_u b_In_f bi_assoc bi_comm bi_unit
           b_ty_ok b_ty_inv FDedup b_filt_dedup None Hempty); auto.
  discriminate.
Qed.
End BoolInst.

Theorem flatten_band_sound args r : okl (-1) args -> args <> [] ->
  flatten OBAnd FDedup args None = Ok (Some r) -> good OBAnd [] args r.
Proof.
  apply (bool_flatten_sound OBAnd andb true (fun vs => eq_refl) andb_assoc andb_comm andb_true_r andb_diag).
  - intros [|? ?] [|? ?]; reflexivity.
  - intros r0 E. vm_compute in E. discriminate E.
Qed.
Theorem flatten_bor_sound args r : okl (-1) args -> args <> [] ->
  flatten OBOr FDedup args None = Ok (Some r) -> good OBOr [] args r.
Proof.
  apply (bool_flatten_sound OBOr orb false (fun vs => eq_refl) orb_assoc orb_comm orb_false_r orb_diag).
  - intros [|? ?] [|? ?]; reflexivity.
  - intros r0 E. vm_compute in E. discriminate E.
Qed.
