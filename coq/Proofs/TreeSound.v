(* Whole operation trees: building bottom-up through [mk] yields an expression that denotes the tree. *)
From Coq Require Import ZArith Bool List Lia.
Require Import CV.Model.PyPrelude CV.Model.Ast CV.Model.Build CV.Proofs.AstLemmas CV.Proofs.BuildSound CV.Proofs.SimpSound.
Import ListNotations.
Open Scope Z_scope.

Inductive tree := TLeaf (e : expr) | TNode (op : opk) (ints : list Z) (ts : list tree).

(* the SMT-LIB value of the tree the caller wrote *)
Fixpoint teval (rho : env) (t : tree) : option value :=
  match t with
  | TLeaf e => eval rho e
  | TNode op ints ts =>
      match sequence (map (teval rho) ts) with
      | Some vs => eval_op op ints vs
      | None => None
      end
  end.

Inductive builds (fuel : nat) : tree -> expr -> Prop :=
| b_leaf e : wfe e -> builds fuel (TLeaf e) e
| b_node op ints ts es r :
    builds_list fuel ts es ->
    (exists len, tyop op ints (map elen es) = Some len) ->
    mk fuel op ints es = Ok r ->
    builds fuel (TNode op ints ts) r
with builds_list (fuel : nat) : list tree -> list expr -> Prop :=
| bl_nil : builds_list fuel [] []
| bl_cons t e ts es : builds fuel t e -> builds_list fuel ts es -> builds_list fuel (t :: ts) (e :: es).

Scheme builds_ind2 := Induction for builds Sort Prop
  with builds_list_ind2 := Induction for builds_list Sort Prop.

Theorem builds_sound fuel t e : builds fuel t e -> wfe e /\ forall rho, eval rho e = teval rho t.
Proof.
  intros H.
  induction H using builds_ind2 with
    (P0 := fun ts es _ => Forall wfe es /\ forall rho, map (eval rho) es = map (teval rho) ts).
  - split; auto.
  - destruct IHbuilds as [Hwf Hev].
    destruct (mk_sound fuel op ints es r (conj Hwf e) e0) as (Gw & _ & Ge).
    split; auto. intros rho. rewrite (Ge rho). unfold plain. cbn [eval teval]. rewrite Hev. reflexivity.
  - split; [constructor|reflexivity].
  - destruct IHbuilds as [Hw He]. destruct IHbuilds0 as [Hws Hes].
    split; [constructor; auto|]. intros rho. cbn [map]. rewrite He, Hes. reflexivity.
Qed.
