From Coq Require Import ZArith Bool Lia.
Require Import CV.Spec.BV CV.Model.BVExec CV.Proofs.BVLemmas.
Open Scope Z_scope.

Lemma bvshl_x_eq w a b : 0 <= w -> 0 <= b -> bvshl_x w a b = bvshl w a b.
Proof.
  intros Hw Hb. unfold bvshl_x. destruct (w <=? b) eqn:E; [|reflexivity]. apply Z.leb_le in E.
  unfold bvshl, wrap. replace b with (w + (b - w)) by lia. rewrite Z.pow_add_r by lia.
  replace (a * (2 ^ w * 2 ^ (b - w))) with ((a * 2 ^ (b - w)) * 2 ^ w) by ring.
  symmetry. apply Z.mod_mul. pose proof (pow2_pos w); lia.
Qed.

Lemma bvlshr_x_eq w a b : 0 <= w -> 0 <= a < 2 ^ w -> 0 <= b -> bvlshr_x w a b = bvlshr w a b.
Proof.
  intros Hw Ha Hb. unfold bvlshr_x. destruct (w <=? b) eqn:E; [|reflexivity]. apply Z.leb_le in E.
  unfold bvlshr. symmetry. apply Z.div_small.
  assert (2 ^ w <= 2 ^ b) by (apply Z.pow_le_mono_r; lia). lia.
Qed.

Lemma bvashr_x_eq w a b : 0 < w -> 0 <= a < 2 ^ w -> 0 <= b -> bvashr_x w a b = bvashr w a b.
Proof.
  intros Hw Ha Hb. unfold bvashr_x. destruct (w <=? b) eqn:E; [|reflexivity]. apply Z.leb_le in E.
  unfold bvashr, msb, sval. pose proof (pow2_half w Hw) as H2. pose proof (pow2_pos (w - 1) ltac:(lia)) as Hp.
  assert (Hwb : 2 ^ w <= 2 ^ b) by (apply Z.pow_le_mono_r; lia).
  destruct (2 ^ (w - 1) <=? a) eqn:M.
  - apply Z.leb_le in M. destruct (a <? 2 ^ (w - 1)) eqn:L; [apply Z.ltb_lt in L; lia|].
    assert (D : (a - 2 ^ w) / 2 ^ b = -1).
    { symmetry. apply Zdiv_unique with (r := a - 2 ^ w + 2 ^ b); lia. }
    rewrite D. unfold wrap. apply Zmod_unique with (q := -1); lia.
  - apply Z.leb_gt in M. destruct (a <? 2 ^ (w - 1)) eqn:L; [|apply Z.ltb_ge in L; lia].
    rewrite Z.div_small by lia. unfold wrap. symmetry. apply Z.mod_0_l. lia.
Qed.

(* ---- shift identities used by the rewrite rules ---- *)
Lemma wrap_sval w v : 0 < w -> 0 <= v < 2 ^ w -> wrap w (sval w v) = v.
Proof.
  intros Hw Hv. unfold sval, wrap. destruct (v <? 2 ^ (w - 1)); [apply Z.mod_small; lia|].
  symmetry. apply Zmod_unique with (q := -1); lia.
Qed.

Lemma shl_x_0 w v : 0 < w -> 0 <= v < 2 ^ w -> bvshl_x w v 0 = v.
Proof.
  intros Hw Hv. unfold bvshl_x. destruct (w <=? 0) eqn:E; [apply Z.leb_le in E; lia|].
  unfold bvshl. change (2 ^ 0) with 1. rewrite Z.mul_1_r. apply wrap_small; auto.
Qed.
Lemma lshr_x_0 w v : 0 < w -> bvlshr_x w v 0 = v.
Proof.
  intros Hw. unfold bvlshr_x. destruct (w <=? 0) eqn:E; [apply Z.leb_le in E; lia|].
  unfold bvlshr. change (2 ^ 0) with 1. apply Z.div_1_r.
Qed.
Lemma ashr_x_0 w v : 0 < w -> 0 <= v < 2 ^ w -> bvashr_x w v 0 = v.
Proof.
  intros Hw Hv. unfold bvashr_x. destruct (w <=? 0) eqn:E; [apply Z.leb_le in E; lia|].
  unfold bvashr. change (2 ^ 0) with 1. rewrite Z.div_1_r. apply wrap_sval; auto.
Qed.

Lemma shl_shl w v i s : 0 <= w -> 0 <= i -> 0 <= s ->
  bvshl_x w (bvshl_x w v i) s = bvshl_x w v (i + s).
Proof.
  intros Hw Hi Hs. rewrite !bvshl_x_eq by lia. unfold bvshl, wrap.
  rewrite Zmult_mod_idemp_l. rewrite Z.pow_add_r by lia. f_equal. ring.
Qed.
Lemma shl_x_sat w v b : w <= b -> bvshl_x w v b = 0.
Proof. intros H. unfold bvshl_x. destruct (w <=? b) eqn:E; [reflexivity|apply Z.leb_gt in E; lia]. Qed.
