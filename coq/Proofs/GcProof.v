(* C19: invariant proof for the *generated* GC-guard programs (Gen/GcGuard.v).
   Unbounded in the number of threads, nesting depth and schedule length. *)
From Coq Require Import ZArith List Bool Lia Arith.
Import ListNotations.
Require Import CV.Model.GcLang CV.Gen.GcGuard.
Open Scope Z_scope.
Local Arguments Z.of_nat : simpl never.
Local Arguments Z.sub : simpl never.
Local Arguments Z.add : simpl never.
Local Arguments Z.leb : simpl never.
Local Arguments Z.ltb : simpl never.
Local Arguments Z.eqb : simpl never.

Notation tstepG := (tstep enter_prog exit_prog exit_in_finally).
Notation stepG := (step enter_prog exit_prog exit_in_finally).
Notation runG := (run enter_prog exit_prog exit_in_finally).

(* ---- per-thread bookkeeping, specific to the generated programs ---- *)

(* net number of increments of the counter this thread has performed *)
Definition contrib (t : thread) : Z :=
  match md t with
  | Idle => 0
  | InBody => Z.of_nat (depth t)
  | InEnter pc => if (pc <=? 5)%nat then Z.of_nat (depth t) - 1 else Z.of_nat (depth t)
  | InExit pc => if (pc <=? 6)%nat then Z.of_nat (depth t) else Z.of_nat (depth t) - 1
  end.

Definition incrit (t : thread) : bool :=
  match md t with
  | InEnter pc => (1 <=? pc)%nat && (pc <=? 6)%nat
  | InExit pc => ((1 <=? pc)%nat && (pc <=? 4)%nat) || ((6 <=? pc)%nat && (pc <=? 11)%nat)
  | _ => false
  end.

Definition wf (t : thread) : Prop :=
  match md t with
  | Idle => depth t = O
  | InBody => (1 <= depth t)%nat
  | InEnter pc => (1 <= depth t)%nat /\ (pc <= 7)%nat
  | InExit pc => (1 <= depth t)%nat /\ (pc <= 12)%nat /\ pc <> 2%nat /\ pc <> 3%nat /\ pc <> 4%nat /\ pc <> 5%nat
  end.

Definition gcrel (gc0 : bool) (s : shared) : Prop :=
  0 <= calls s /\
  (calls s = 0 -> was s = false /\ gc_on s = gc0) /\
  (calls s > 0 -> was s = gc0 /\ gc_on s = false).

(* what holds of the shared state while thread [t] holds the lock *)
Definition hrel (gc0 : bool) (t : thread) (s : shared) : Prop :=
  match md t with
  | InEnter 1 => gcrel gc0 s
  | InEnter 2 => calls s = 0 /\ was s = false /\ gc_on s = gc0
  | InEnter 3 => calls s = 0 /\ was s = gc0 /\ gc_on s = gc0
  | InEnter 4 => calls s = 0 /\ was s = true /\ gc0 = true /\ gc_on s = true
  | InEnter 5 => 0 <= calls s /\ was s = gc0 /\ gc_on s = false
  | InEnter 6 => 0 < calls s /\ was s = gc0 /\ gc_on s = false
  | InExit 1 => gcrel gc0 s
  | InExit 6 => 0 < calls s /\ was s = gc0 /\ gc_on s = false
  | InExit 7 => 0 <= calls s /\ was s = gc0 /\ gc_on s = false
  | InExit 8 => calls s = 0 /\ was s = gc0 /\ gc_on s = false
  | InExit 9 => calls s = 0 /\ was s = true /\ gc0 = true /\ gc_on s = false
  | InExit 10 => calls s = 0 /\ gc_on s = gc0
  | InExit 11 => gcrel gc0 s
  | _ => False
  end.

(* ---- the thread-local step lemma ---- *)

Definition local_pre (gc0 : bool) (i : nat) (t : thread) (s : shared) : Prop :=
  wf t /\ contrib t <= calls s /\
  (incrit t = true -> lock s = Some i) /\
  (lock s = Some i -> incrit t = true /\ hrel gc0 t s) /\
  (lock s = None -> gcrel gc0 s).

Definition local_post (gc0 : bool) (i : nat) (t : thread) (s : shared) (t' : thread) (s' : shared) : Prop :=
  wf t' /\ calls s' - contrib t' = calls s - contrib t /\
  match lock s with
  | None => (s' = s /\ incrit t' = false) \/ (lock s' = Some i /\ incrit t' = true /\ hrel gc0 t' s')
  | Some j =>
      if Nat.eqb j i
      then (lock s' = Some i /\ incrit t' = true /\ hrel gc0 t' s')
           \/ (lock s' = None /\ incrit t' = false /\ gcrel gc0 s')
      else s' = s /\ incrit t' = false
  end.

Ltac bool_hyps :=
  repeat match goal with
  | H : (_ =? _) = true |- _ => apply Z.eqb_eq in H
  | H : (_ =? _) = false |- _ => apply Z.eqb_neq in H
  | H : (_ <? _) = true |- _ => apply Z.ltb_lt in H
  | H : (_ <? _) = false |- _ => apply Z.ltb_ge in H
  | H : (_ <=? _) = true |- _ => apply Z.leb_le in H
  | H : (_ <=? _) = false |- _ => apply Z.leb_gt in H
  end.

Lemma eqb_i_i i : Nat.eqb i i = true. Proof. apply Nat.eqb_refl. Qed.

Ltac crush :=
  repeat match goal with
  | |- _ /\ _ => split
  | |- _ -> _ => intro
  | H : _ /\ _ |- _ => destruct H
  | H : Some _ = Some _ |- _ => inversion H; subst; clear H
  | H : Some _ = None |- _ => discriminate H
  | H : None = Some _ |- _ => discriminate H
  | H : true = false |- _ => discriminate H
  | H : false = true |- _ => discriminate H
  | H : False |- _ => destruct H
  end; cbn [lock calls was gc_on md depth] in *; subst; try reflexivity; try assumption; try lia;
  try discriminate; try congruence.

Lemma tstep_local gc0 i c t s t' s' :
  exit_in_finally = true ->
  local_pre gc0 i t s -> tstepG c i t s = Some (t', s') -> local_post gc0 i t s t' s'.
Proof.
  intros Hfin (Hwf & Hc & Hcrit & Hlk & Hfree) Hstep.
  destruct t as [m d]. destruct s as [lk cl ws gc].
  unfold local_post, wf, contrib, incrit, hrel, gcrel in *.
  cbn [md depth lock calls was gc_on] in *.
  destruct m as [| pc | | pc]; destruct c; cbn [tstep md depth] in Hstep; try discriminate Hstep.
  - (* Idle, ChCall *)
    inversion Hstep; subst; clear Hstep. cbn.
    split; [lia|]. split; [lia|].
    destruct lk as [j|]; [destruct (Nat.eqb j i) eqn:E|].
    + apply Nat.eqb_eq in E; subst. destruct (Hlk eq_refl) as [X _]; discriminate X.
    + auto.
    + left; auto.
  - (* InEnter pc, ChStep *)
    destruct Hwf as [Hd Hpc].
    do 8 (destruct pc as [|pc]; [shelve|]). exfalso; lia.
  - (* InBody, ChCall *)
    inversion Hstep; subst; clear Hstep. cbn.
    split; [lia|]. split; [lia|].
    destruct lk as [j|]; [destruct (Nat.eqb j i) eqn:E|].
    + apply Nat.eqb_eq in E; subst. destruct (Hlk eq_refl) as [X _]; discriminate X.
    + auto.
    + left; auto.
  - (* InBody, ChFinish *)
    inversion Hstep; subst; clear Hstep. cbn.
    split; [lia|]. split; [lia|].
    destruct lk as [j|]; [destruct (Nat.eqb j i) eqn:E|].
    + apply Nat.eqb_eq in E; subst. destruct (Hlk eq_refl) as [X _]; discriminate X.
    + auto.
    + left; auto.
  - (* InBody, ChRaise *)
    rewrite Hfin in Hstep.
    inversion Hstep; subst; clear Hstep. cbn.
    split; [lia|]. split; [lia|].
    destruct lk as [j|]; [destruct (Nat.eqb j i) eqn:E|].
    + apply Nat.eqb_eq in E; subst. destruct (Hlk eq_refl) as [X _]; discriminate X.
    + auto.
    + left; auto.
  - (* InExit pc, ChStep *)
    destruct Hwf as (Hd & Hpc & N2 & N3 & N4 & N5).
    do 13 (destruct pc as [|pc]; [shelve|]). exfalso; lia.
  Unshelve.
  all: cbn in Hstep.
  all: try (exfalso; lia).
  all: repeat match type of Hstep with
       | context [match ?l with Some _ => _ | None => _ end] => destruct l eqn:?
       | context [if ?b then _ else _] => destruct b eqn:?
       end; cbn in Hstep; try discriminate Hstep;
       inversion Hstep; subst; clear Hstep; cbn [md depth lock calls was gc_on Nat.leb Nat.eqb andb orb].
  all: bool_hyps.
  all: try rewrite eqb_i_i.
  all: cbn in Hcrit, Hlk.
  all: try (specialize (Hcrit eq_refl); inversion Hcrit; subst; rewrite ?eqb_i_i).
  all: try (destruct (Hlk eq_refl) as [_ Hh]; cbn in Hh).
  all: try (specialize (Hfree eq_refl)).
  all: repeat match goal with
       | |- context [match ?l with Some _ => _ | None => _ end] => destruct l eqn:?
       | |- context [if Nat.eqb ?a ?b then _ else _] => destruct (Nat.eqb a b) eqn:?
       end.
  all: repeat match goal with
       | H : Nat.eqb _ _ = true |- _ => apply Nat.eqb_eq in H; subst
       end.
  all: try (destruct (Hlk eq_refl) as [X _]; discriminate X).
  all: try (split; [lia|]); try (split; [lia|]).
  all: cbn [Nat.leb] in Hc.
  all: try solve [exfalso; lia].
  all: try solve [intuition (subst; try lia; try congruence; try discriminate)].
  all: try solve [destruct ws, gc0; intuition (subst; try lia; try congruence; try discriminate)].
  all: try solve [assert (cl > 0) by lia; intuition (subst; try lia; try congruence; try discriminate)].
Qed.

(* ---- lists of threads ---- *)

Fixpoint sumc (l : list thread) : Z :=
  match l with [] => 0 | t :: r => contrib t + sumc r end.

Lemma contrib_nonneg t : wf t -> 0 <= contrib t.
Proof.
  destruct t as [m d]; unfold wf, contrib; cbn [md depth].
  destruct m as [|pc| |pc]; intros H; try lia;
  [destruct (pc <=? 5)%nat | destruct (pc <=? 6)%nat]; lia.
Qed.

Lemma inprog_le_contrib t : wf t -> Z.of_nat (inprog t) <= contrib t.
Proof.
  destruct t as [m d]; unfold wf, contrib, inprog; cbn [md depth].
  destruct m as [|pc| |pc]; intros H; try lia;
  [destruct (pc <=? 5)%nat | destruct (pc <=? 6)%nat]; lia.
Qed.

Lemma nth_error_upd_eq {A} (l : list A) i t x :
  nth_error l i = Some t -> nth_error (upd l i x) i = Some x.
Proof.
  revert i; induction l as [|y r IH]; intros [|i] H; cbn in *; try discriminate; auto.
Qed.

Lemma nth_error_upd_neq {A} (l : list A) i j x :
  i <> j -> nth_error (upd l i x) j = nth_error l j.
Proof.
  revert i j; induction l as [|y r IH]; intros [|i] [|j] H; cbn; auto; try congruence.
Qed.

Lemma sumc_upd l i t x :
  nth_error l i = Some t -> sumc (upd l i x) = sumc l - contrib t + contrib x.
Proof.
  revert i; induction l as [|y r IH]; intros [|i] H; cbn in *; try discriminate.
  - inversion H; subst; lia.
  - rewrite (IH _ H); lia.
Qed.

Lemma sumc_ge l : (forall i t, nth_error l i = Some t -> wf t) ->
  forall i t, nth_error l i = Some t -> contrib t <= sumc l /\ 0 <= sumc l.
Proof.
  induction l as [|y r IH]; intros Hwf [|i] t H; cbn in *; try discriminate.
  - inversion H; subst.
    assert (0 <= contrib t) by (apply contrib_nonneg, (Hwf O); reflexivity).
    assert (0 <= sumc r).
    { destruct r as [|z r']; [cbn; lia|].
      apply (IH (fun i t H => Hwf (S i) t H) O z); reflexivity. }
    lia.
  - assert (0 <= contrib y) by (apply contrib_nonneg, (Hwf O); reflexivity).
    destruct (IH (fun i t H => Hwf (S i) t H) i t H). lia.
Qed.

Lemma sumc_nonneg l : (forall i t, nth_error l i = Some t -> wf t) -> 0 <= sumc l.
Proof.
  intros H. destruct l as [|y r]; [cbn; lia|].
  apply (sumc_ge _ H O y); reflexivity.
Qed.

Lemma inprog_le_sumc l : (forall i t, nth_error l i = Some t -> wf t) ->
  Z.of_nat (total_inprog l) <= sumc l.
Proof.
  induction l as [|y r IH]; intros Hwf; cbn [total_inprog sumc]; [lia|].
  assert (Z.of_nat (inprog y) <= contrib y) by (apply inprog_le_contrib, (Hwf O); reflexivity).
  specialize (IH (fun i t H => Hwf (S i) t H)). lia.
Qed.

(* ---- the global invariant ---- *)

Definition Inv (gc0 : bool) (st : state) : Prop :=
  calls (sh st) = sumc (thr st) /\
  (forall i t, nth_error (thr st) i = Some t ->
     wf t /\ (incrit t = true -> lock (sh st) = Some i)) /\
  (forall i, lock (sh st) = Some i ->
     exists t, nth_error (thr st) i = Some t /\ incrit t = true /\ hrel gc0 t (sh st)) /\
  (lock (sh st) = None -> gcrel gc0 (sh st)).

Lemma Inv_init gc0 n : Inv gc0 (init gc0 n).
Proof.
  unfold Inv, init; cbn [sh thr lock calls].
  assert (Hrep : forall i t, nth_error (repeat (mkThread Idle 0) n) i = Some t -> t = mkThread Idle 0).
  { intros i t H. apply nth_error_In in H. apply repeat_spec in H. exact H. }
  split; [|split; [|split]].
  - induction n; cbn; auto. rewrite <- IHn; auto.
    intros i t H; apply (Hrep (S i)); exact H.
  - intros i t H. rewrite (Hrep _ _ H). cbn. split; [reflexivity|discriminate].
  - discriminate.
  - intros _. unfold gcrel; cbn. repeat split; auto; lia.
Qed.

Lemma step_inv gc0 i c st st' :
  exit_in_finally = true -> Inv gc0 st -> stepG i c st = Some st' -> Inv gc0 st'.
Proof.
  intros Hfin (Hsum & Hth & Hhold & Hfree) Hstep.
  unfold step in Hstep.
  destruct (nth_error (thr st) i) as [t|] eqn:Ht; [|discriminate].
  destruct (tstepG c i t (sh st)) as [[t' s']|] eqn:Hts; [|discriminate].
  inversion Hstep; subst; clear Hstep.
  destruct (Hth i t Ht) as [Hwft Hcritt].
  assert (Hwfall : forall j u, nth_error (thr st) j = Some u -> wf u)
    by (intros j u Hu; apply (Hth j u Hu)).
  assert (Hpre : local_pre gc0 i t (sh st)).
  { unfold local_pre. split; [exact Hwft|]. split.
    - rewrite Hsum. apply (sumc_ge _ Hwfall i t Ht).
    - split; [exact Hcritt|]. split; [|exact Hfree].
      intros Hl. destruct (Hhold i Hl) as (u & Hu & Hcu & Hhu).
      rewrite Ht in Hu; inversion Hu; subst. auto. }
  pose proof (tstep_local gc0 i c t (sh st) t' s' Hfin Hpre Hts) as (Hwf' & Hcalls & Hlock).
  unfold Inv; cbn [sh thr].
  split.
  { rewrite (sumc_upd _ _ _ t' Ht). lia. }
  destruct (lock (sh st)) as [j|] eqn:Hlk.
  - destruct (Nat.eqb j i) eqn:Eji.
    + apply Nat.eqb_eq in Eji; subst j.
      assert (Hothers : forall k u, k <> i -> nth_error (thr st) k = Some u -> incrit u = false).
      { intros k u Hk Hu. destruct (incrit u) eqn:E; auto.
        destruct (Hth k u Hu) as [_ X]. specialize (X E). congruence. }
      destruct Hlock as [(Hl' & Hc' & Hh') | (Hl' & Hc' & Hg')].
      * split; [|split].
        -- intros k u Hu. destruct (Nat.eq_dec i k) as [->|Hne].
           ++ rewrite (nth_error_upd_eq _ _ _ t' Ht) in Hu; inversion Hu; subst. auto.
           ++ rewrite (nth_error_upd_neq _ _ _ t' Hne) in Hu.
              split; [apply (Hwfall k u Hu)|]. intros E.
              rewrite (Hothers k u (not_eq_sym Hne) Hu) in E; discriminate.
        -- intros k Hk. rewrite Hl' in Hk; inversion Hk; subst k.
           exists t'. rewrite (nth_error_upd_eq _ _ _ t' Ht). auto.
        -- intros Hn; rewrite Hl' in Hn; discriminate.
      * split; [|split].
        -- intros k u Hu. destruct (Nat.eq_dec i k) as [->|Hne].
           ++ rewrite (nth_error_upd_eq _ _ _ t' Ht) in Hu; inversion Hu; subst.
              split; auto. intros E; rewrite Hc' in E; discriminate.
           ++ rewrite (nth_error_upd_neq _ _ _ t' Hne) in Hu.
              split; [apply (Hwfall k u Hu)|]. intros E.
              rewrite (Hothers k u (not_eq_sym Hne) Hu) in E; discriminate.
        -- intros k Hk. rewrite Hl' in Hk; discriminate.
        -- intros _; exact Hg'.
    + apply Nat.eqb_neq in Eji. destruct Hlock as [-> Hc'].
      rewrite ?Hlk.
      split; [|split].
      * intros k u Hu. destruct (Nat.eq_dec i k) as [->|Hne].
        -- rewrite (nth_error_upd_eq _ _ _ t' Ht) in Hu; inversion Hu; subst.
           split; auto. intros E; rewrite Hc' in E; discriminate.
        -- rewrite (nth_error_upd_neq _ _ _ t' Hne) in Hu. apply (Hth k u Hu).
      * intros k Hk. inversion Hk; subst k.
        destruct (Hhold j eq_refl) as (u & Hu & Hcu & Hhu).
        exists u. rewrite (nth_error_upd_neq _ _ _ t' (not_eq_sym Eji)). auto.
      * intros Hn; discriminate.
  - assert (Hothers : forall k u, nth_error (thr st) k = Some u -> incrit u = false).
    { intros k u Hu. destruct (incrit u) eqn:E; auto.
      destruct (Hth k u Hu) as [_ X]. specialize (X E). congruence. }
    destruct Hlock as [(-> & Hc') | (Hl' & Hc' & Hh')].
    + rewrite ?Hlk. split; [|split].
      * intros k u Hu. destruct (Nat.eq_dec i k) as [->|Hne].
        -- rewrite (nth_error_upd_eq _ _ _ t' Ht) in Hu; inversion Hu; subst.
           split; auto. intros E; rewrite Hc' in E; discriminate.
        -- rewrite (nth_error_upd_neq _ _ _ t' Hne) in Hu. apply (Hth k u Hu).
      * intros k Hk; discriminate.
      * exact Hfree.
    + split; [|split].
      * intros k u Hu. destruct (Nat.eq_dec i k) as [->|Hne].
        -- rewrite (nth_error_upd_eq _ _ _ t' Ht) in Hu; inversion Hu; subst. auto.
        -- rewrite (nth_error_upd_neq _ _ _ t' Hne) in Hu.
           split; [apply (Hwfall k u Hu)|]. intros E.
           rewrite (Hothers k u Hu) in E; discriminate.
      * intros k Hk. rewrite Hl' in Hk; inversion Hk; subst k.
        exists t'. rewrite (nth_error_upd_eq _ _ _ t' Ht). auto.
      * intros Hn; rewrite Hl' in Hn; discriminate.
Qed.

Lemma run_inv gc0 sched : forall st,
  exit_in_finally = true -> Inv gc0 st -> Inv gc0 (runG sched st).
Proof.
  induction sched as [|[i c] r IH]; intros st Hfin H; cbn [run]; [exact H|].
  destruct (stepG i c st) as [st'|] eqn:E.
  - apply IH; auto. eapply step_inv; eauto.
  - apply IH; auto.
Qed.

(* ---- the invariant implies the property ---- *)

Lemma hrel_gc_off gc0 t s : hrel gc0 t s -> calls s > 0 -> gc_on s = false.
Proof.
  destruct t as [m d]; unfold hrel, gcrel; cbn [md].
  destruct m as [|pc| |pc]; try tauto;
  repeat (destruct pc as [|pc]; try tauto; try solve [intuition lia]).
Qed.

Lemma all_idle_spec l : all_idle l = true ->
  forall i t, nth_error l i = Some t -> md t = Idle.
Proof.
  unfold all_idle. intros H i t Hi. rewrite forallb_forall in H.
  specialize (H t (nth_error_In _ _ Hi)). destruct (md t); auto; discriminate.
Qed.

Lemma sumc_idle l : (forall i t, nth_error l i = Some t -> md t = Idle) -> sumc l = 0.
Proof.
  induction l as [|y r IH]; intros H; cbn [sumc]; auto.
  rewrite (IH (fun i t Hi => H (S i) t Hi)).
  unfold contrib. rewrite (H O y eq_refl). reflexivity.
Qed.

Lemma Inv_good gc0 st : Inv gc0 st -> good gc0 st = true.
Proof.
  intros (Hsum & Hth & Hhold & Hfree).
  assert (Hwfall : forall j u, nth_error (thr st) j = Some u -> wf u)
    by (intros j u Hu; apply (Hth j u Hu)).
  unfold good. rewrite !andb_true_iff. split; [split|].
  - apply Z.leb_le. rewrite Hsum. apply sumc_nonneg; auto.
  - destruct (0 <? total_inprog (thr st))%nat eqn:E; auto.
    apply Nat.ltb_lt in E.
    pose proof (inprog_le_sumc _ Hwfall) as Hle.
    assert (Hpos : calls (sh st) > 0) by lia.
    destruct (lock (sh st)) as [j|] eqn:Hl.
    + destruct (Hhold j eq_refl) as (u & _ & _ & Hh).
      rewrite (hrel_gc_off _ _ _ Hh Hpos). reflexivity.
    + destruct (Hfree eq_refl) as (_ & _ & X). destruct (X Hpos) as [_ ->]. reflexivity.
  - destruct (all_idle (thr st)) eqn:E; auto.
    pose proof (all_idle_spec _ E) as Hidle.
    assert (Hc0 : calls (sh st) = 0) by (rewrite Hsum; apply sumc_idle; auto).
    destruct (lock (sh st)) as [j|] eqn:Hl.
    + destruct (Hhold j eq_refl) as (u & Hu & Hcu & _).
      unfold incrit in Hcu. rewrite (Hidle _ _ Hu) in Hcu. discriminate.
    + destruct (Hfree eq_refl) as (_ & X & _). destruct (X Hc0) as [_ ->].
      apply eqb_reflx.
Qed.

(* For every number of threads, every initial collector state and every schedule
   (at instruction granularity, finer than line granularity), the state reached
   satisfies the property.  Every reachable state is the end of some schedule. *)
Theorem gc_guard_safe : forall (gc0 : bool) (n : nat) (sched : list (nat * choice)),
  good gc0 (runG sched (init gc0 n)) = true.
Proof.
  intros. apply Inv_good, run_inv; [reflexivity|apply Inv_init].
Qed.

(* the underflow branch of _exit_z3 is dead code: no reachable thread is ever inside it *)
Theorem gc_guard_no_underflow : forall gc0 n sched i t,
  nth_error (thr (runG sched (init gc0 n))) i = Some t ->
  md t <> InExit 2 /\ md t <> InExit 3 /\ md t <> InExit 4 /\ md t <> InExit 5.
Proof.
  intros gc0 n sched i t H.
  destruct (run_inv gc0 sched (init gc0 n) eq_refl (Inv_init gc0 n)) as (_ & Hth & _).
  destruct (Hth i t H) as [Hw _]. unfold wf in Hw.
  destruct (md t) as [|pc| |pc]; try (repeat split; discriminate).
  destruct Hw as (_ & _ & N2 & N3 & N4 & N5).
  repeat split; intros E; inversion E; congruence.
Qed.

(* non-vacuity: a concrete 2-thread schedule with a nested call reaches a state where
   a call is in progress (so the second conjunct of [good] is exercised) *)
Example gc_guard_nonvacuous :
  let st := runG ((0%nat, ChCall) :: repeat (0%nat, ChStep) 8 ++ (1%nat, ChCall) :: repeat (1%nat, ChStep) 6
                  ++ (0%nat, ChCall) :: repeat (0%nat, ChStep) 6) (init true 2) in
  (0 <? total_inprog (thr st))%nat = true /\ calls (sh st) = 3 /\ gc_on (sh st) = false.
Proof. vm_compute. auto. Qed.
