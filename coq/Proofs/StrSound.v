(* C03: the concrete string functions are the SMT-LIB string operations. *)
From Coq Require Import ZArith List Bool Lia.
Require Import CV.Model.Numeral CV.Proofs.NumeralSound CV.Model.Str.
Import ListNotations.
Open Scope Z_scope.

Lemma skipn_skipn' {A} (a b : nat) (l : list A) : skipn a (skipn b l) = skipn (b + a) l.
Proof. revert l. induction b as [|k IH]; intros l; cbn [skipn Nat.add]; [reflexivity|]. destruct l; [destruct a; reflexivity|apply IH]. Qed.

(* ---------- str.prefixof, str.suffixof, str.contains ---------- *)
Lemma prefix_b_spec t : forall s, prefix_b t s = true <-> exists u, s = t ++ u.
Proof.
  induction t as [|a t IH]; intros s; cbn [prefix_b].
  - split; [intros _; exists s; reflexivity|auto].
  - destruct s as [|b s]; [split; [discriminate|intros (u & H); discriminate]|].
    rewrite andb_true_iff, Z.eqb_eq, IH. split.
    + intros (-> & u & ->). exists u. reflexivity.
    + intros (u & H). inversion H; subst. split; [reflexivity|]. exists u. reflexivity.
Qed.

Theorem prefixof_spec t s : prefixof t s = true <-> exists u, s = t ++ u.
Proof. apply prefix_b_spec. Qed.

Theorem suffixof_spec t s : suffixof t s = true <-> exists u, s = u ++ t.
Proof.
  unfold suffixof. rewrite prefix_b_spec. split.
  - intros (u & H). exists (rev u). apply (f_equal (@rev Z)) in H. rewrite rev_involutive, rev_app_distr, rev_involutive in H. exact H.
  - intros (u & ->). exists (rev u). rewrite rev_app_distr. reflexivity.
Qed.

(* find: the least position at which t occurs *)
Definition occurs_at (t s : str) (k : nat) : Prop := exists u, skipn k s = t ++ u /\ (k <= length s)%nat.

Lemma find_some t : forall s k, find t s = Some k -> occurs_at t s k /\ forall j, (j < k)%nat -> ~ occurs_at t s j.
Proof.
  induction s as [|b s IH]; intros k H; cbn [find] in H.
  - destruct (prefix_b t []) eqn:E; [|discriminate]. inversion H; subst.
    apply prefix_b_spec in E as (u & Hu). split; [exists u; cbn; split; [auto|lia]|intros j Hj; lia].
  - destruct (prefix_b t (b :: s)) eqn:E.
    + inversion H; subst. apply prefix_b_spec in E as (u & Hu). split; [exists u; cbn; split; [auto|lia]|intros j Hj; lia].
    + destruct (find t s) as [k'|] eqn:Ef; [|discriminate]. cbn [option_map] in H. inversion H; subst.
      destruct (IH k' eq_refl) as ((u & Hu & Hl) & Hmin). split.
      * exists u. cbn [skipn length]. split; [auto|lia].
      * intros j Hj (v & Hv & Hjl). destruct j as [|j].
        -- cbn [skipn] in Hv. assert (prefix_b t (b :: s) = true) by (apply prefix_b_spec; exists v; auto). congruence.
        -- apply (Hmin j ltac:(lia)). exists v. cbn [skipn length] in *. split; [auto|lia].
Qed.

Lemma find_none t : forall s, find t s = None -> forall k, ~ occurs_at t s k.
Proof.
  induction s as [|b s IH]; intros H k (u & Hu & Hl); cbn [find] in H.
  - destruct (prefix_b t []) eqn:E; [discriminate|]. cbn in Hl. assert (k = 0%nat) by lia. subst. cbn in Hu.
    assert (prefix_b t [] = true) by (apply prefix_b_spec; exists u; auto). congruence.
  - destruct (prefix_b t (b :: s)) eqn:E; [discriminate|]. destruct (find t s) eqn:Ef; [discriminate|].
    destruct k as [|k].
    + cbn in Hu. assert (prefix_b t (b :: s) = true) by (apply prefix_b_spec; exists u; auto). congruence.
    + apply (IH eq_refl k). exists u. cbn [skipn length] in *. split; [auto|lia].
Qed.

Theorem contains_spec s t : contains s t = true <-> exists a b, s = a ++ t ++ b.
Proof.
  unfold contains. destruct (find t s) as [k|] eqn:E; split; try discriminate; try (intros _; reflexivity).
  - intros _. destruct (find_some _ _ _ E) as ((u & Hu & _) & _). exists (firstn k s), u.
    rewrite <- Hu. symmetry. apply firstn_skipn.
  - intros (a & b & ->). exfalso. apply (find_none _ _ E (length a)). exists b. split.
    + rewrite skipn_app, Nat.sub_diag. rewrite skipn_all2 by lia. reflexivity.
    + rewrite app_length. lia.
Qed.

(* ---------- str.replace: the leftmost occurrence, or the string unchanged ---------- *)
Theorem replace1_spec s p r :
  (forall k, ~ occurs_at p s k) /\ replace1 s p r = s \/
  exists k u, occurs_at p s k /\ (forall j, (j < k)%nat -> ~ occurs_at p s j) /\
              skipn k s = p ++ u /\ replace1 s p r = firstn k s ++ r ++ u.
Proof.
  unfold replace1. destruct (find p s) as [k|] eqn:E.
  - right. destruct (find_some _ _ _ E) as ((u & Hu & Hl) & Hmin). exists k, u.
    split; [exists u; auto|]. split; [exact Hmin|]. split; [exact Hu|].
    f_equal. f_equal. rewrite <- (skipn_skipn' (length p) k s). rewrite Hu. rewrite skipn_app, Nat.sub_diag. rewrite skipn_all2 by lia. reflexivity.
  - left. split; [apply find_none; exact E|reflexivity].
Qed.

(* ---------- str.substr ---------- *)
Theorem substr_spec start count s : 0 <= start -> 0 <= count ->
  substr start count s =
  if (start <? Z.of_nat (length s)) && (0 <? count)
  then firstn (Z.to_nat (Z.min count (Z.of_nat (length s) - start))) (skipn (Z.to_nat start) s)
  else [].
Proof.
  intros Hs Hc. unfold substr. set (n := Z.of_nat (length s)).
  destruct (start <? n) eqn:E1; cbn [andb].
  - apply Z.ltb_lt in E1. rewrite (Z.min_l start n) by lia.
    destruct (0 <? count) eqn:E2.
    + apply Z.ltb_lt in E2.
      assert (Hl : length (skipn (Z.to_nat start) s) = Z.to_nat (n - start)) by (rewrite skipn_length; unfold n; lia).
      destruct (Z_le_gt_dec count (n - start)).
      * rewrite (Z.min_l count (n - start)) by lia. rewrite (Z.min_l count n) by lia. reflexivity.
      * rewrite (Z.min_r count (n - start)) by lia. rewrite firstn_all2 by (rewrite Hl; lia). rewrite firstn_all2 by (rewrite Hl; lia). reflexivity.
    + apply Z.ltb_ge in E2. assert (count = 0) by lia. subst. rewrite Z.min_l by (unfold n; lia). reflexivity.
  - apply Z.ltb_ge in E1. rewrite (Z.min_r start n) by lia. rewrite skipn_all2 by (unfold n; lia). apply firstn_nil.
Qed.

(* ---------- str.indexof ---------- *)
Theorem indexof_spec s t i : 0 <= i -> Z.of_nat (length s) < 2 ^ 64 ->
  (exists k, indexof s t i = Z.of_nat k /\ (Z.to_nat i <= k)%nat /\ occurs_at t s k /\
             forall j, (Z.to_nat i <= j < k)%nat -> ~ occurs_at t s j)
  \/ (indexof s t i = 2 ^ 64 - 1 /\ forall k, (Z.to_nat i <= k)%nat -> ~ occurs_at t s k).
Proof.
  intros Hi Hlen. unfold indexof.
  destruct (Z.of_nat (length s) <? i) eqn:E.
  - right. split; [reflexivity|]. apply Z.ltb_lt in E. intros k Hk (u & _ & Hl). lia.
  - apply Z.ltb_ge in E. set (n := Z.to_nat i).
    destruct (find t (skipn n s)) as [k|] eqn:Ef.
    + left. destruct (find_some _ _ _ Ef) as ((u & Hu & Hl) & Hmin).
      rewrite skipn_length in Hl. exists (n + k)%nat. split; [|split; [lia|split]].
      * rewrite Z.mod_small by (unfold n in *; lia). unfold n. lia.
      * exists u. split; [|lia]. rewrite <- Hu. rewrite skipn_skipn'. reflexivity.
      * intros j Hj (v & Hv & Hjl). apply (Hmin (j - n)%nat ltac:(lia)). exists v. split.
        -- rewrite skipn_skipn'. replace (n + (j - n))%nat with j by lia. exact Hv.
        -- rewrite skipn_length. lia.
    + right. split; [reflexivity|]. intros k Hk (u & Hu & Hl).
      apply (find_none _ _ Ef (k - n)%nat). exists u. split.
      * rewrite skipn_skipn'. replace (n + (k - n))%nat with k by (unfold n in *; lia). exact Hu.
      * rewrite skipn_length. unfold n in *. lia.
Qed.

(* ---------- str.to_int / int.to_str ---------- *)
Theorem to_int_spec s :
  (s <> [] /\ forallb is_digit s = true /\ to_int s = dval (map (fun c => c - 48) s) mod 2 ^ 64) \/
  ((s = [] \/ forallb is_digit s = false) /\ to_int s = 2 ^ 64 - 1).
Proof.
  unfold to_int. destruct s as [|c r]; [right; auto|].
  destruct (forallb is_digit (c :: r)) eqn:E; [left; split; [discriminate|auto]|right; auto].
Qed.

Theorem from_int_roundtrip v : 0 <= v < 2 ^ 64 -> to_int (from_int v) = v.
Proof.
  intros Hv. unfold to_int, from_int.
  assert (Hd : forall fuel x, 0 <= x -> Forall (fun d => 0 <= d <= 9) (digits_fuel fuel x)).
  { induction fuel as [|f IH]; intros x Hx; cbn [digits_fuel].
    - constructor; [|constructor]. pose proof (Z.mod_pos_bound x 10). lia.
    - destruct (x <? 10) eqn:E; [constructor; [apply Z.ltb_lt in E; lia|constructor]|].
      apply Forall_app. split; [apply IH; apply Z.div_pos; lia|].
      constructor; [|constructor]. pose proof (Z.mod_pos_bound x 10). lia. }
  assert (Hdig : Forall (fun d => 0 <= d <= 9) (digits v)) by (apply Hd; lia).
  assert (Hne : digits v <> []).
  { unfold digits. destruct (Z.to_nat (Z.log2 v + 1)); cbn [digits_fuel]; [discriminate|].
    destruct (v <? 10); [discriminate|]. intros H. apply app_eq_nil in H as [_ H]. discriminate. }
  destruct (map (fun d => d + 48) (digits v)) as [|c r] eqn:Em; [destruct (digits v); [congruence|discriminate]|].
  rewrite <- Em.
  assert (Hall : forallb is_digit (map (fun d => d + 48) (digits v)) = true).
  { clear -Hdig. induction Hdig as [|d l Hd Hl IH]; cbn; [reflexivity|]. rewrite IH. unfold is_digit.
    assert ((48 <=? d + 48) = true) by (apply Z.leb_le; lia). assert ((d + 48 <=? 57) = true) by (apply Z.leb_le; lia).
    rewrite H, H0. reflexivity. }
  rewrite Hall. rewrite map_map.
  assert (Hid : map (fun x => x + 48 - 48) (digits v) = digits v) by (clear; induction (digits v); cbn; [auto|f_equal; [lia|auto]]).
  rewrite Hid, digits_value by lia. apply Z.mod_small. lia.
Qed.
