(* C25: the balancer's comparison bookkeeping never excludes a value that satisfies the comparison. *)
From Coq Require Import ZArith List Bool String Lia.
Require Import CV.Gen.BalancerTables CV.Model.Balance.
Import ListNotations.
Open Scope Z_scope.

(* ---- the generated tables say what the balancer assumes of them ---- *)

(* operations.opposites: every comparison has an entry, and it is the same comparison with swapped operands *)
Theorem opposites_ok : forall op, exists op', reverse_op op = Some op' /\ forall n x y, cmp op' n y x = cmp op n x y.
Proof.
  intros op. destruct op; eexists; (split; [vm_compute; reflexivity|]); intros n x y; cbn [cmp]; try reflexivity;
    rewrite Z.eqb_sym; reflexivity.
Qed.

(* Balancer.comparison_info describes each ordering: x op y  <->  view x (< | <= | > | >=) view y *)
Definition ordering (lt eq : bool) (a b : Z) : bool :=
  if lt then (if eq then a <=? b else a <? b) else (if eq then b <=? a else b <? a).

Theorem comparison_info_ok : forall op lt eq u, info op = Some (lt, eq, u) ->
  forall n x y, cmp op n x y = ordering lt eq (view u n x) (view u n y).
Proof.
  intros op lt eq u H n x y. destruct op; vm_compute in H; try discriminate H; inversion H; subst; reflexivity.
Qed.

Theorem comparison_info_total : forall op, op <> CEq -> op <> CNe -> exists i, info op = Some i.
Proof. intros op H1 H2. destruct op; try congruence; eexists; vm_compute; reflexivity. Qed.

(* ---- _handle_comparison ---- *)
Theorem handle_comparison_sound : forall op lt eq u size lmin lmax rmin rmax x r b,
  0 < size -> info op = Some (lt, eq, u) ->
  cmp op size x r = true ->
  lmin <= view u size x <= lmax -> rmin <= view u size r <= rmax ->
  - 2 ^ (size - 1) <= view u size x <= (if u then 2 ^ size - 1 else 2 ^ (size - 1) - 1) ->
  handle_comparison op size lmin lmax rmin rmax = Some b ->
  exists bd, b = Some (lt, bd) /\ (if lt then view u size x <= bd else bd <= view u size x).
Proof.
  intros op lt eq u size lmin lmax rmin rmax x r b Hs Ei Hc Hl Hrr Hx Hh. unfold handle_comparison in Hh. rewrite Ei in Hh.
  rewrite (comparison_info_ok op lt eq u Ei) in Hc. unfold ordering in Hc.
  set (X := view u size x) in *. set (R := view u size r) in *.
  assert (Hp : 0 < 2 ^ (size - 1)) by (apply Z.pow_pos_nonneg; lia).
  destruct lt, eq; cbn [andb negb] in Hh.
  - destruct (rmax <? - 2 ^ (size - 1)) eqn:E1; [apply Z.ltb_lt in E1; apply Z.leb_le in Hc; lia|].
    inversion Hh; subst. eexists. split; [reflexivity|]. apply Z.leb_le in Hc. destruct u; lia.
  - destruct (rmax - 1 <? - 2 ^ (size - 1)) eqn:E1; [apply Z.ltb_lt in E1; apply Z.ltb_lt in Hc; lia|].
    inversion Hh; subst. eexists. split; [reflexivity|]. apply Z.ltb_lt in Hc. destruct u; lia.
  - destruct ((if u then 2 ^ size - 1 else 2 ^ (size - 1) - 1) <? rmin) eqn:E1; [apply Z.ltb_lt in E1; apply Z.leb_le in Hc; destruct u; lia|].
    inversion Hh; subst. eexists. split; [reflexivity|]. apply Z.leb_le in Hc. lia.
  - destruct ((if u then 2 ^ size - 1 else 2 ^ (size - 1) - 1) <? rmin + 1) eqn:E1; [apply Z.ltb_lt in E1; apply Z.ltb_lt in Hc; destruct u; lia|].
    inversion Hh; subst. eexists. split; [reflexivity|]. apply Z.ltb_lt in Hc. lia.
Qed.

(* ---- _get_assumptions: the implicit bound holds for every value ---- *)
Lemma sgn_range n x : 0 < n -> 0 <= x < 2 ^ n -> - 2 ^ (n - 1) <= sgn n x <= 2 ^ (n - 1) - 1.
Proof.
  intros Hn Hx. unfold sgn. assert (H2 : 2 ^ n = 2 * 2 ^ (n - 1)) by (rewrite <- Z.pow_succ_r by lia; f_equal; lia).
  destruct (x <? 2 ^ (n - 1)) eqn:E; [apply Z.ltb_lt in E|apply Z.ltb_ge in E]; lia.
Qed.

Theorem assumption_holds : forall op size op2 c2 x, 0 < size -> 0 <= x < 2 ^ size ->
  assumption op size = Some (op2, c2) ->
  exists lt u, info op2 = Some (lt, true, u) /\ (if lt then view u size x <= c2 else c2 <= view u size x).
Proof.
  intros op size op2 c2 x Hs Hx H. pose proof (sgn_range size x Hs Hx) as Hsg.
  destruct op; cbn in H; try discriminate H; inversion H; subst; do 2 eexists; (split; [vm_compute; reflexivity|]); cbn [view]; lia.
Qed.

(* ---- the bound interval: a value between the bounds (in either view) is a member of 1[mn, mx] read modulo 2^n ---- *)
Theorem in_bound_sound : forall n mn mx x X, 0 < n -> 0 <= x < 2 ^ n ->
  (X = x \/ X = sgn n x) -> mn <= X <= mx -> mx - mn < 2 ^ n -> in_bound n mn mx x = true.
Proof.
  intros n mn mx x X Hn Hx HX Hb Hw. unfold in_bound. apply Z.leb_le.
  assert (Hp : 0 < 2 ^ n) by (apply Z.pow_pos_nonneg; lia).
  rewrite (Z.mod_small (mx - mn)) by lia.
  assert (Hc : (x - mn) mod 2 ^ n = X - mn).
  { destruct HX as [->| ->]; [apply Z.mod_small; lia|]. unfold sgn in *. destruct (x <? 2 ^ (n - 1)); [apply Z.mod_small; lia|].
    symmetry. apply Z.mod_unique with 1; [|lia]. left. lia. }
  rewrite Hc. lia.
Qed.

(* ---- rewriting rules ---- *)

(* ZeroExt(z, x) <op> C with C < 2^n (its top z bits are zero), 0 < z: the comparison in width n+z is the unsigned-shaped
   comparison of x and C in width n *)
Theorem zeroext_rule_sound : forall op n z x C, 0 < n -> 0 <= z -> 0 <= x < 2 ^ n -> 0 <= C < 2 ^ n ->
  cmp (zeroext_rule op z) n x C = cmp op (n + z) x C.
Proof.
  intros op n z x C Hn Hz Hx HC. unfold zeroext_rule. destruct (0 <? z) eqn:Ez.
  - apply Z.ltb_lt in Ez.
    assert (Hw : 2 ^ n <= 2 ^ (n + z - 1)) by (apply Z.pow_le_mono_r; lia).
    assert (Hsx : sgn (n + z) x = x) by (unfold sgn; destruct (x <? 2 ^ (n + z - 1)) eqn:E; [reflexivity|apply Z.ltb_ge in E; lia]).
    assert (HsC : sgn (n + z) C = C) by (unfold sgn; destruct (C <? 2 ^ (n + z - 1)) eqn:E; [reflexivity|apply Z.ltb_ge in E; lia]).
    destruct op; vm_compute assoc; cbn [cmp]; rewrite ?Hsx, ?HsC; reflexivity.
  - apply Z.ltb_ge in Ez. replace (n + z) with n by lia. reflexivity.
Qed.

(* _balance_extract, last branch:  x[h:0] >= c  implies  x >= c  (and likewise >), because x mod 2^(h+1) <= x *)
Theorem extract_rule_sound : forall op n h x c, 0 <= h -> 0 <= x < 2 ^ n ->
  op = CUGE \/ op = CUGT -> cmp op (h + 1) (x mod 2 ^ (h + 1)) c = true -> cmp op n x c = true.
Proof.
  intros op n h x c Hh Hx Hop H.
  assert (Hp : 0 < 2 ^ (h + 1)) by (apply Z.pow_pos_nonneg; lia).
  pose proof (Z.mod_le x (2 ^ (h + 1)) ltac:(lia) Hp) as Hle.
  destruct Hop as [-> | ->]; cbn [cmp] in *; [apply Z.leb_le in H; apply Z.leb_le|apply Z.ltb_lt in H; apply Z.ltb_lt]; lia.
Qed.

(* ... and it does NOT carry over for the other operators (the repaired defect): x = 2, h = 0 *)
Theorem extract_rule_eq_refuted : cmp CEq 1 (2 mod 2 ^ 1) 0 = true /\ cmp CEq 3 2 0 = false.
Proof. split; reflexivity. Qed.

(* _balance_lshift: (x << s) <op> r*2^s with the top s bits of x zero, for the unsigned operators and ==, != *)
Theorem lshift_rule_sound : forall op n s x r, 0 < s < n -> 0 <= x < 2 ^ (n - s) -> 0 <= r < 2 ^ (n - s) ->
  op <> CSLT -> op <> CSLE -> op <> CSGT -> op <> CSGE ->
  cmp op n x r = cmp op n ((x * 2 ^ s) mod 2 ^ n) (r * 2 ^ s).
Proof.
  intros op n s x r Hs Hx Hr H1 H2 H3 H4.
  assert (Hp : 0 < 2 ^ s) by (apply Z.pow_pos_nonneg; lia).
  assert (Hn : 2 ^ n = 2 ^ (n - s) * 2 ^ s) by (rewrite <- Z.pow_add_r by lia; f_equal; lia).
  rewrite Z.mod_small by nia.
  assert (Heq : (x =? r) = (x * 2 ^ s =? r * 2 ^ s)).
  { destruct (x =? r) eqn:E1; [apply Z.eqb_eq in E1; subst; symmetry; apply Z.eqb_refl|].
    apply Z.eqb_neq in E1. symmetry. apply Z.eqb_neq. nia. }
  destruct op; try congruence; cbn [cmp].
  - exact Heq.
  - rewrite Heq. reflexivity.
  - destruct (x <? r) eqn:E1, (x * 2 ^ s <? r * 2 ^ s) eqn:E2; try reflexivity;
      [apply Z.ltb_lt in E1; apply Z.ltb_ge in E2; nia|apply Z.ltb_ge in E1; apply Z.ltb_lt in E2; nia].
  - destruct (x <=? r) eqn:E1, (x * 2 ^ s <=? r * 2 ^ s) eqn:E2; try reflexivity;
      [apply Z.leb_le in E1; apply Z.leb_gt in E2; nia|apply Z.leb_gt in E1; apply Z.leb_le in E2; nia].
  - destruct (r <? x) eqn:E1, (r * 2 ^ s <? x * 2 ^ s) eqn:E2; try reflexivity;
      [apply Z.ltb_lt in E1; apply Z.ltb_ge in E2; nia|apply Z.ltb_ge in E1; apply Z.ltb_lt in E2; nia].
  - destruct (r <=? x) eqn:E1, (r * 2 ^ s <=? x * 2 ^ s) eqn:E2; try reflexivity;
      [apply Z.leb_le in E1; apply Z.leb_gt in E2; nia|apply Z.leb_gt in E1; apply Z.leb_le in E2; nia].
Qed.

(* ... and not without the guard (the repaired defect): x = 4 in 3 bits, x << 1 == 0 *)
Theorem lshift_rule_unguarded_refuted : cmp CEq 3 ((4 * 2 ^ 1) mod 2 ^ 3) (0 * 2 ^ 1) = true /\ cmp CEq 3 4 0 = false.
Proof. split; reflexivity. Qed.

(* _nonstrict keeps the meaning *)
Lemma sgn_pred n c : 0 < n -> 0 <= c < 2 ^ n -> sgn n c <> - 2 ^ (n - 1) -> sgn n ((c - 1) mod 2 ^ n) = sgn n c - 1.
Proof.
  intros Hn Hc Hm. assert (Hp : 0 < 2 ^ (n - 1)) by (apply Z.pow_pos_nonneg; lia).
  assert (H2 : 2 ^ n = 2 * 2 ^ (n - 1)) by (rewrite <- Z.pow_succ_r by lia; f_equal; lia).
  unfold sgn in *. destruct (c =? 0) eqn:E0.
  - apply Z.eqb_eq in E0. subst c. replace ((0 - 1) mod 2 ^ n) with (2 ^ n - 1) by (apply Z.mod_unique with (-1); lia).
    destruct (0 <? 2 ^ (n - 1)) eqn:Ea; [|apply Z.ltb_ge in Ea; lia]. destruct (2 ^ n - 1 <? 2 ^ (n - 1)) eqn:Eb; [apply Z.ltb_lt in Eb; lia|lia].
  - apply Z.eqb_neq in E0. rewrite Z.mod_small by lia.
    destruct (c <? 2 ^ (n - 1)) eqn:Ea, (c - 1 <? 2 ^ (n - 1)) eqn:Eb; try lia;
      first [apply Z.ltb_lt in Ea; apply Z.ltb_ge in Eb; lia|apply Z.ltb_ge in Ea; apply Z.ltb_lt in Eb; lia].
Qed.

Lemma sgn_succ n c : 0 < n -> 0 <= c < 2 ^ n -> sgn n c <> 2 ^ (n - 1) - 1 -> sgn n ((c + 1) mod 2 ^ n) = sgn n c + 1.
Proof.
  intros Hn Hc Hm. assert (Hp : 0 < 2 ^ (n - 1)) by (apply Z.pow_pos_nonneg; lia).
  assert (H2 : 2 ^ n = 2 * 2 ^ (n - 1)) by (rewrite <- Z.pow_succ_r by lia; f_equal; lia).
  unfold sgn in *. destruct (c =? 2 ^ n - 1) eqn:E0.
  - apply Z.eqb_eq in E0. subst c. replace ((2 ^ n - 1 + 1) mod 2 ^ n) with 0 by (apply Z.mod_unique with 1; lia).
    destruct (0 <? 2 ^ (n - 1)) eqn:Ea; [|apply Z.ltb_ge in Ea; lia]. destruct (2 ^ n - 1 <? 2 ^ (n - 1)) eqn:Eb; [apply Z.ltb_lt in Eb; lia|lia].
  - apply Z.eqb_neq in E0. rewrite Z.mod_small by lia.
    destruct (c <? 2 ^ (n - 1)) eqn:Ea, (c + 1 <? 2 ^ (n - 1)) eqn:Eb; try lia;
      first [apply Z.ltb_lt in Ea; apply Z.ltb_ge in Eb; lia|apply Z.ltb_ge in Ea; apply Z.ltb_lt in Eb; lia].
Qed.

Theorem nonstrict_sound : forall op n a c op' c', 0 < n -> 0 <= a < 2 ^ n -> 0 <= c < 2 ^ n ->
  nonstrict op n c = (op', c') -> cmp op' n a c' = cmp op n a c.
Proof.
  intros op n a c op' c' Hn Ha Hc Hns.
  assert (Hp : 0 < 2 ^ (n - 1)) by (apply Z.pow_pos_nonneg; lia).
  assert (H2 : 2 ^ n = 2 * 2 ^ (n - 1)) by (rewrite <- Z.pow_succ_r by lia; f_equal; lia).
  destruct op; vm_compute info in Hns; unfold nonstrict in Hns; vm_compute info in Hns; cbn [view] in Hns;
    try (inversion Hns; subst; reflexivity).
  - (* ULT *) destruct (c =? 0) eqn:E; inversion Hns; subst; [reflexivity|]. apply Z.eqb_neq in E. cbn [cmp]. rewrite Z.mod_small by lia.
    destruct (a <? c) eqn:E1, (a <=? c - 1) eqn:E2; try reflexivity;
      [apply Z.ltb_lt in E1; apply Z.leb_gt in E2; lia|apply Z.ltb_ge in E1; apply Z.leb_le in E2; lia].
  - (* UGT *) destruct (c =? 2 ^ n - 1) eqn:E; inversion Hns; subst; [reflexivity|]. apply Z.eqb_neq in E. cbn [cmp]. rewrite Z.mod_small by lia.
    destruct (c <? a) eqn:E1, (c + 1 <=? a) eqn:E2; try reflexivity;
      [apply Z.ltb_lt in E1; apply Z.leb_gt in E2; lia|apply Z.ltb_ge in E1; apply Z.leb_le in E2; lia].
  - (* SLT *) destruct (sgn n c =? - 2 ^ (n - 1)) eqn:E; inversion Hns; subst; [reflexivity|]. apply Z.eqb_neq in E. cbn [cmp].
    rewrite sgn_pred by auto.
    destruct (sgn n a <? sgn n c) eqn:E1, (sgn n a <=? sgn n c - 1) eqn:E2; try reflexivity;
      [apply Z.ltb_lt in E1; apply Z.leb_gt in E2; lia|apply Z.ltb_ge in E1; apply Z.leb_le in E2; lia].
  - (* SGT *) destruct (sgn n c =? 2 ^ (n - 1) - 1) eqn:E; inversion Hns; subst; [reflexivity|]. apply Z.eqb_neq in E. cbn [cmp].
    rewrite sgn_succ by auto.
    destruct (sgn n c <? sgn n a) eqn:E1, (sgn n c + 1 <=? sgn n a) eqn:E2; try reflexivity;
      [apply Z.ltb_lt in E1; apply Z.leb_gt in E2; lia|apply Z.ltb_ge in E1; apply Z.leb_le in E2; lia].
Qed.

(* ---- the whole pipeline for  x <op> k  and  k <op> x ---- *)
Lemma view_range u n x : 0 < n -> 0 <= x < 2 ^ n ->
  - 2 ^ (n - 1) <= view u n x <= (if u then 2 ^ n - 1 else 2 ^ (n - 1) - 1).
Proof.
  intros Hn Hx. assert (Hp : 0 < 2 ^ (n - 1)) by (apply Z.pow_pos_nonneg; lia). destruct u; cbn [view]; [lia|apply sgn_range; auto].
Qed.

Lemma ordering_bounds op1 lt eqq u size k lmin lmax x :
  0 < size -> 0 <= x < 2 ^ size -> 0 <= k < 2 ^ size -> info op1 = Some (lt, eqq, u) ->
  (exists op2 c2, assumption op1 size = Some (op2, c2) /\ info op2 = Some (negb lt, true, u) /\
                  (if negb lt then view u size x <= c2 else c2 <= view u size x) /\
                  (if u then 0 <= c2 <= 2 ^ size - 1 else - 2 ^ (size - 1) <= c2 <= 2 ^ (size - 1) - 1)) ->
  cmp op1 size x k = true -> lmin <= view u size x <= lmax ->
  exists lo hi, (match handle_comparison op1 size lmin lmax (view u size k) (view u size k) with
                 | Some (Some (up1, b1)) =>
                     match assumption op1 size with
                     | Some (op2, c2) => match handle_comparison op2 size lmin lmax c2 c2 with
                                         | Some (Some (up2, b2)) => Some (true, if up1 then b2 else b1, if up1 then b1 else b2)
                                         | _ => None end
                     | None => None end
                 | Some None => Some (false, 0, 0)
                 | None => None end) = Some (true, lo, hi) /\ lo <= view u size x <= hi /\ hi - lo < 2 ^ size.
Proof.
  intros Hs Hx Hk Ei (op2 & c2 & Ha & Ei2 & Hc2 & Hc2r) Hc Hl.
  pose proof (view_range u size x Hs Hx) as Hvx.
  assert (Hp : 0 < 2 ^ (size - 1)) by (apply Z.pow_pos_nonneg; lia).
  assert (H2 : 2 ^ size = 2 * 2 ^ (size - 1)) by (rewrite <- Z.pow_succ_r by lia; f_equal; lia).
  destruct (handle_comparison op1 size lmin lmax (view u size k) (view u size k)) as [b1|] eqn:Eh1;
    [|unfold handle_comparison in Eh1; rewrite Ei in Eh1; destruct lt, eqq; cbn in Eh1;
      repeat match type of Eh1 with context [if ?c then _ else _] => destruct c end; discriminate].
  destruct (handle_comparison_sound op1 lt eqq u size lmin lmax (view u size k) (view u size k) x k b1 Hs Ei Hc Hl ltac:(lia) Hvx Eh1) as (bd1 & -> & Hb1).
  rewrite Ha.
  assert (Hc2' : cmp op2 size x (c2 mod 2 ^ size) = true \/ True) by (right; exact I).
  destruct (handle_comparison op2 size lmin lmax c2 c2) as [b2|] eqn:Eh2;
    [|unfold handle_comparison in Eh2; rewrite Ei2 in Eh2; destruct lt; cbn in Eh2;
      repeat match type of Eh2 with context [if ?c then _ else _] => destruct c end; discriminate].
  (* the second bound, directly from the definition *)
  unfold handle_comparison in Eh1, Eh2. rewrite Ei in Eh1. rewrite Ei2 in Eh2.
  destruct lt; cbn [negb andb] in *.
  - (* upper bound from the comparison, lower bound from the assumption *)
    destruct ((if u then 2 ^ size - 1 else 2 ^ (size - 1) - 1) <? c2) eqn:E2; [apply Z.ltb_lt in E2; destruct u; lia|].
    inversion Eh2; subst b2.
    destruct eqq; cbn in Eh1; repeat match type of Eh1 with context [if ?c then _ else _] => destruct c eqn:? end; inversion Eh1; subst bd1;
      do 2 eexists; (split; [reflexivity|]); destruct u; cbn [view] in *; try lia; pose proof (sgn_range size k Hs Hk); lia.
  - destruct (c2 <? - 2 ^ (size - 1)) eqn:E2; [apply Z.ltb_lt in E2; lia|].
    inversion Eh2; subst b2.
    destruct eqq; cbn in Eh1; repeat match type of Eh1 with context [if ?c then _ else _] => destruct c eqn:? end; inversion Eh1; subst bd1;
      do 2 eexists; (split; [reflexivity|]); destruct u; cbn [view] in *; try lia; pose proof (sgn_range size k Hs Hk); lia.
Qed.

Theorem simple_bounds_sound : forall (op : cop) (side : bool) (size k lmin lmax x : Z),
  0 < size -> 0 <= x < 2 ^ size -> 0 <= k < 2 ^ size ->
  (if side then cmp op size k x else cmp op size x k) = true ->
  (forall u, lmin <= view u size x <= lmax) ->
  exists lo hi, simple_bounds op side size k lmin lmax = Some (true, lo, hi) /\ in_bound size lo hi x = true.
Proof.
  intros op side size k lmin lmax x Hs Hx Hk Hc Hl.
  assert (Hp : 0 < 2 ^ size) by (apply Z.pow_pos_nonneg; lia).
  assert (Hp1 : 0 < 2 ^ (size - 1)) by (apply Z.pow_pos_nonneg; lia).
  assert (H2 : 2 ^ size = 2 * 2 ^ (size - 1)) by (rewrite <- Z.pow_succ_r by lia; f_equal; lia).
  unfold simple_bounds.
  assert (Hop1 : exists op1, (if side then reverse_op op else Some op) = Some op1 /\ cmp op1 size x k = true).
  { destruct side; [|eexists; split; [reflexivity|exact Hc]].
    destruct (opposites_ok op) as (op' & Hr & Hsem). exists op'. split; [exact Hr|]. rewrite Hsem. exact Hc. }
  destruct Hop1 as (op1 & -> & Hc1). clear Hc op.
  destruct op1.
  - (* == *) cbn [cmp] in Hc1. apply Z.eqb_eq in Hc1. subst. do 2 eexists. split; [reflexivity|].
    unfold in_bound. rewrite !Z.sub_diag. rewrite Z.mod_0_l by lia. reflexivity.
  - (* != *) cbn [cmp] in Hc1. apply negb_true_iff in Hc1. apply Z.eqb_neq in Hc1.
    destruct (k =? 0) eqn:E0; [apply Z.eqb_eq in E0; subst|destruct (k =? 2 ^ size - 1) eqn:E1; [apply Z.eqb_eq in E1; subst|]];
      do 2 eexists; (split; [reflexivity|]); unfold in_bound; apply Z.leb_le; rewrite !Z.mod_small by lia; lia.
  - destruct (ordering_bounds CULT true false true size k lmin lmax x Hs Hx Hk eq_refl) as (lo & hi & E & Hb & Hw); auto.
    { do 2 eexists. split; [reflexivity|]. split; [reflexivity|]. cbn [negb view]. lia. }
    cbn [info] in *. change (info CULT) with (Some (true, false, true)). cbn [view] in *. rewrite E. do 2 eexists. split; [reflexivity|].
    eapply in_bound_sound with (X := x); eauto.
  - destruct (ordering_bounds CULE true true true size k lmin lmax x Hs Hx Hk eq_refl) as (lo & hi & E & Hb & Hw); auto.
    { do 2 eexists. split; [reflexivity|]. split; [reflexivity|]. cbn [negb view]. lia. }
    change (info CULE) with (Some (true, true, true)). cbn [view] in *. rewrite E. do 2 eexists. split; [reflexivity|].
    eapply in_bound_sound with (X := x); eauto.
  - destruct (ordering_bounds CUGT false false true size k lmin lmax x Hs Hx Hk eq_refl) as (lo & hi & E & Hb & Hw); auto.
    { do 2 eexists. split; [reflexivity|]. split; [reflexivity|]. cbn [negb view]. lia. }
    change (info CUGT) with (Some (false, false, true)). cbn [view] in *. rewrite E. do 2 eexists. split; [reflexivity|].
    eapply in_bound_sound with (X := x); eauto.
  - destruct (ordering_bounds CUGE false true true size k lmin lmax x Hs Hx Hk eq_refl) as (lo & hi & E & Hb & Hw); auto.
    { do 2 eexists. split; [reflexivity|]. split; [reflexivity|]. cbn [negb view]. lia. }
    change (info CUGE) with (Some (false, true, true)). cbn [view] in *. rewrite E. do 2 eexists. split; [reflexivity|].
    eapply in_bound_sound with (X := x); eauto.
  - pose proof (sgn_range size x Hs Hx) as Hsx.
    destruct (ordering_bounds CSLT true false false size k lmin lmax x Hs Hx Hk eq_refl) as (lo & hi & E & Hb & Hw); auto.
    { do 2 eexists. split; [reflexivity|]. split; [reflexivity|]. cbn [negb view]. lia. }
    change (info CSLT) with (Some (true, false, false)). cbn [view] in *. rewrite E. do 2 eexists. split; [reflexivity|].
    eapply in_bound_sound with (X := sgn size x); eauto.
  - pose proof (sgn_range size x Hs Hx) as Hsx.
    destruct (ordering_bounds CSLE true true false size k lmin lmax x Hs Hx Hk eq_refl) as (lo & hi & E & Hb & Hw); auto.
    { do 2 eexists. split; [reflexivity|]. split; [reflexivity|]. cbn [negb view]. lia. }
    change (info CSLE) with (Some (true, true, false)). cbn [view] in *. rewrite E. do 2 eexists. split; [reflexivity|].
    eapply in_bound_sound with (X := sgn size x); eauto.
  - pose proof (sgn_range size x Hs Hx) as Hsx.
    destruct (ordering_bounds CSGT false false false size k lmin lmax x Hs Hx Hk eq_refl) as (lo & hi & E & Hb & Hw); auto.
    { do 2 eexists. split; [reflexivity|]. split; [reflexivity|]. cbn [negb view]. lia. }
    change (info CSGT) with (Some (false, false, false)). cbn [view] in *. rewrite E. do 2 eexists. split; [reflexivity|].
    eapply in_bound_sound with (X := sgn size x); eauto.
  - pose proof (sgn_range size x Hs Hx) as Hsx.
    destruct (ordering_bounds CSGE false true false size k lmin lmax x Hs Hx Hk eq_refl) as (lo & hi & E & Hb & Hw); auto.
    { do 2 eexists. split; [reflexivity|]. split; [reflexivity|]. cbn [negb view]. lia. }
    change (info CSGE) with (Some (false, true, false)). cbn [view] in *. rewrite E. do 2 eexists. split; [reflexivity|].
    eapply in_bound_sound with (X := sgn size x); eauto.
Qed.

(* the pipeline computes, and its hypotheses are satisfiable: x < 5 and 5 >= x for a plain 3-bit variable, x >s 6 (= -2) *)
Example simple_bounds_examples :
  simple_bounds CULT false 3 5 0 7 = Some (true, 0, 4) /\
  simple_bounds CUGE true 3 5 0 7 = Some (true, 0, 5) /\
  simple_bounds CSGT false 3 6 (-4) 3 = Some (true, -1, 3) /\
  in_bound 3 (-1) 3 7 = true /\ in_bound 3 (-1) 3 6 = false.
Proof. repeat split; vm_compute; reflexivity. Qed.
