(* C24 x C21: the hypotheses of the abstract-evaluation theorem are dischargeable.  An entry of the operator table whose result
   is what the strided-interval model computes for + (and for binary -, for every subtrahend whose stride is 0 only if it is a single value) is sound: C21's theorems
   prove the premise [entry_ok] of C24_table for these operators. *)
From Coq Require Import ZArith List Bool Lia.
Require Import CV.Spec.BV CV.Model.PyPrelude CV.Model.Ast CV.Model.SI CV.Model.SIUnion CV.Model.AbsInt CV.Proofs.SISound
               CV.Proofs.SIUnionSound CV.Proofs.AbsIntTable.
Import ListNotations.
Open Scope Z_scope.

Definition asi (a : si) : aval := ASI (bits a) (stride a) (lb a) (ub a) (bot a).

Lemma gamma_t_asi a v : gamma_t (asi a) v <-> exists x, v = VBV (bits a) x /\ SI.gamma a x.
Proof.
  unfold asi. destruct a as [w s l u bt]. cbn [bits stride lb ub bot gamma_t]. destruct v as [w' x|b]; split.
  - intros [-> G]. exists x. auto.
  - intros (y & E & G). inversion E; subst. auto.
  - intros [].
  - intros (y & E & _). discriminate E.
Qed.

Theorem add_entry_ok a b r : wf a -> wf b -> bits a = bits b -> si_add a b = Ok r ->
  entry_ok (OAdd, [], [asi a; asi b], asi r).
Proof.
  intros Wa Wb Hab Hr. unfold entry_ok. intros vs v HF Hev.
  inversion HF as [|? va ? ? Ga HF1]; subst. inversion HF1 as [|? vb ? ? Gb HF2]; subst. inversion HF2; subst.
  apply gamma_t_asi in Ga as (x & -> & Gx). apply gamma_t_asi in Gb as (y & -> & Gy).
  cbn [eval_op nary fold_bin bin_bv] in Hev. rewrite <- Hab, Z.eqb_refl in Hev. cbn [fold_bin] in Hev. inversion Hev; subst v.
  destruct (add_sound a b x y Wa Wb Hab Gx Gy) as (r' & E & _ & Br & G). rewrite Hr in E. inversion E; subst r'.
  apply gamma_t_asi. exists (bvadd (bits a) x y). split; [rewrite Br; reflexivity|exact G].
Qed.

Theorem sub_entry_ok a b r : wf a -> wf b -> bits a = bits b -> proper b -> si_sub a b = Ok r ->
  entry_ok (OSub, [], [asi a; asi b], asi r).
Proof.
  intros Wa Wb Hab Al Hr. unfold entry_ok. intros vs v HF Hev.
  inversion HF as [|? va ? ? Ga HF1]; subst. inversion HF1 as [|? vb ? ? Gb HF2]; subst. inversion HF2; subst.
  apply gamma_t_asi in Ga as (x & -> & Gx). apply gamma_t_asi in Gb as (y & -> & Gy).
  cbn [eval_op bin_bv] in Hev. rewrite <- Hab, Z.eqb_refl in Hev. inversion Hev; subst v.
  destruct (sub_sound_proper a b x y Wa Wb Hab Al Gx Gy) as (r' & E & _ & Br & G). rewrite Hr in E. inversion E; subst r'.
  apply gamma_t_asi. exists (bvsub (bits a) x y). split; [rewrite Br; reflexivity|exact G].
Qed.

(* the join hypothesis of the If rule is dischargeable too: what the union model computes is a sound join *)
Theorem union_join_ok a b r : wf a -> wf b -> bits a = bits b -> si_union a b = Ok r -> join_ok (asi a, asi b, asi r).
Proof.
  intros Wa Wb Hab Hr. unfold join_ok. intros v Hv.
  destruct (union_sound a b Wa Wb Hab) as (r' & E & _ & Br & G). rewrite Hr in E. inversion E; subst r'.
  apply gamma_t_asi. destruct Hv as [Hv|Hv]; apply gamma_t_asi in Hv as (x & -> & Gx).
  - exists x. split; [rewrite Br; reflexivity|apply G; auto].
  - exists x. split; [rewrite Br, Hab; reflexivity|apply G; auto].
Qed.
