(* C24 x C21: the hypotheses of the abstract-evaluation theorem are dischargeable.  An entry of the operator table whose result
   is what the strided-interval model computes for + (and for binary -, for every subtrahend whose stride is 0 only if it is a single value) is sound: C21's theorems
   prove the premise [entry_ok] of C24_table for these operators.  Likewise for unary -, ~, ZeroExt and the eight order
   comparisons (whose abstract result is a BoolResult: TrueResult / FalseResult / MaybeResult). *)
From Coq Require Import ZArith List Bool Lia.
Require Import CV.Spec.BV CV.Model.PyPrelude CV.Model.Ast CV.Model.SI CV.Model.SIUnion CV.Model.AbsInt CV.Proofs.SISound
               CV.Proofs.SIUnionSound CV.Proofs.AbsIntTable.
Require Import CV.Model.SICmp CV.Model.SINot CV.Model.SIZextM CV.Proofs.SICmpSound CV.Proofs.SINotSound CV.Proofs.SIZext.
Import ListNotations.
Open Scope Z_scope.

Definition asi (a : si) : aval := ASI (bits a) (stride a) (lb a) (ub a) (bot a).

Lemma gamma_t_asi a v : gamma_t (asi a) v <-> exists x, v = VBV (bits a) x /\ SI.gamma a x.
Proof.
  unfold asi. destruct a as [w s l u bt]. cbn [bits stride lb ub bot gamma_t]. destruct v as [w' x|b]; split.
  - intros [-> G]. exists x. auto.
  - intros (y & E & G). inversion E; subst. auto.
  - intros [].
  - intros (y & E & _). discriminate E.
Qed.

Theorem add_entry_ok a b r : wf a -> wf b -> bits a = bits b -> si_add a b = Ok r ->
  entry_ok (OAdd, [], [asi a; asi b], asi r).
Proof.
  intros Wa Wb Hab Hr. unfold entry_ok. intros vs v HF Hev.
  inversion HF as [|? va ? ? Ga HF1]; subst. inversion HF1 as [|? vb ? ? Gb HF2]; subst. inversion HF2; subst.
  apply gamma_t_asi in Ga as (x & -> & Gx). apply gamma_t_asi in Gb as (y & -> & Gy).
  cbn [eval_op nary fold_bin bin_bv] in Hev. rewrite <- Hab, Z.eqb_refl in Hev. cbn [fold_bin] in Hev. inversion Hev; subst v.
  destruct (add_sound a b x y Wa Wb Hab Gx Gy) as (r' & E & _ & Br & G). rewrite Hr in E. inversion E; subst r'.
  apply gamma_t_asi. exists (bvadd (bits a) x y). split; [rewrite Br; reflexivity|exact G].
Qed.

Theorem sub_entry_ok a b r : wf a -> wf b -> bits a = bits b -> proper b -> si_sub a b = Ok r ->
  entry_ok (OSub, [], [asi a; asi b], asi r).
Proof.
  intros Wa Wb Hab Al Hr. unfold entry_ok. intros vs v HF Hev.
  inversion HF as [|? va ? ? Ga HF1]; subst. inversion HF1 as [|? vb ? ? Gb HF2]; subst. inversion HF2; subst.
  apply gamma_t_asi in Ga as (x & -> & Gx). apply gamma_t_asi in Gb as (y & -> & Gy).
  cbn [eval_op bin_bv] in Hev. rewrite <- Hab, Z.eqb_refl in Hev. inversion Hev; subst v.
  destruct (sub_sound_proper a b x y Wa Wb Hab Al Gx Gy) as (r' & E & _ & Br & G). rewrite Hr in E. inversion E; subst r'.
  apply gamma_t_asi. exists (bvsub (bits a) x y). split; [rewrite Br; reflexivity|exact G].
Qed.

(* the join hypothesis of the If rule is dischargeable too: what the union model computes is a sound join *)
Theorem union_join_ok a b r : wf a -> wf b -> bits a = bits b -> si_union a b = Ok r -> join_ok (asi a, asi b, asi r).
Proof.
  intros Wa Wb Hab Hr. unfold join_ok. intros v Hv.
  destruct (union_sound a b Wa Wb Hab) as (r' & E & _ & Br & G). rewrite Hr in E. inversion E; subst r'.
  apply gamma_t_asi. destruct Hv as [Hv|Hv]; apply gamma_t_asi in Hv as (x & -> & Gx).
  - exists x. split; [rewrite Br; reflexivity|apply G; auto].
  - exists x. split; [rewrite Br, Hab; reflexivity|apply G; auto].
Qed.

(* ---- unary -, ~, ZeroExt ---- *)

Theorem neg_entry_ok a r : wf a -> proper a -> si_neg a = Ok r -> entry_ok (ONeg, [], [asi a], asi r).
Proof.
  intros Wa Pa Hr. unfold entry_ok. intros vs v HF Hev.
  inversion HF as [|? va ? ? Ga HF1]; subst. inversion HF1; subst.
  apply gamma_t_asi in Ga as (x & -> & Gx). cbn [eval_op] in Hev. inversion Hev; subst v.
  destruct (neg_sound_proper a x Wa Pa Gx) as (r' & E & _ & Br & G). rewrite Hr in E. inversion E; subst r'.
  apply gamma_t_asi. exists (bvneg (bits a) x). split; [rewrite Br; reflexivity|exact G].
Qed.

Lemma gamma_range a x : wf a -> SI.gamma a x -> 0 <= x < 2 ^ bits a.
Proof.
  intros (_ & Hw & _) (_ & k & _ & _ & ->). apply Z.mod_pos_bound. apply Z.pow_pos_nonneg; lia.
Qed.

Theorem invert_entry_ok a r : wf a -> proper a -> si_not a = Ok r -> entry_ok (OInvert, [], [asi a], asi r).
Proof.
  intros Wa Pa Hr. unfold entry_ok. intros vs v HF Hev.
  inversion HF as [|? va ? ? Ga HF1]; subst. inversion HF1; subst.
  apply gamma_t_asi in Ga as (x & -> & Gx). cbn [eval_op] in Hev. inversion Hev; subst v.
  destruct (not_sound a r x Wa Pa Hr Gx) as (_ & Br & G).
  apply gamma_t_asi. exists (bvnot (bits a) x). split; [rewrite Br; reflexivity|].
  pose proof (gamma_range a x Wa Gx) as Hx.
  replace (bvnot (bits a) x) with (2 ^ bits a - 1 - x); [exact G|].
  unfold bvnot, wrap, Z.lnot. replace (Z.pred (- x)) with (2 ^ bits a - 1 - x + (-1) * 2 ^ bits a) by lia.
  rewrite Z.mod_add by lia. symmetry. apply Z.mod_small. lia.
Qed.

Theorem zext_entry_ok a n r : wf a -> 0 <= n -> bits a + n < SHIFT_LIMIT -> si_zext a (bits a + n) = Ok r ->
  entry_ok (OZeroExt, [n], [asi a], asi r).
Proof.
  intros Wa Hn Hlim Hr. unfold entry_ok. intros vs v HF Hev.
  inversion HF as [|? va ? ? Ga HF1]; subst. inversion HF1; subst.
  apply gamma_t_asi in Ga as (x & -> & Gx). cbn [eval_op] in Hev.
  destruct (0 <=? n) eqn:E; [|discriminate]. inversion Hev; subst v.
  destruct (zext_sound a (bits a + n) r x Wa ltac:(lia) Hr Gx) as (_ & Br & G).
  apply gamma_t_asi. exists (zero_extend n x). split; [rewrite Br; reflexivity|exact G].
Qed.

(* ---- the order comparisons: a BoolResult as an abstract Boolean ---- *)

Definition atri (t : tri) : aval :=
  match t with TT => ABool true false | TF => ABool false true | TM => ABool true true end.

Lemma atri_ok (R : Prop) (fb : bool) r : (fb = true <-> R) -> (r = TT -> R) -> (r = TF -> ~ R) -> gamma_t (atri r) (VBool fb).
Proof.
  intros Hfb Ht Hf. destruct r; cbn [atri gamma_t]; destruct fb eqn:E; try reflexivity.
  - exfalso. specialize (Ht eq_refl). apply Hfb in Ht. discriminate.
  - exfalso. apply (Hf eq_refl). apply Hfb. reflexivity.
Qed.

Section Cmp.
Variables (a b : si) (r : tri).
Hypotheses (Wa : wf a) (Wb : wf b).

Local Ltac cmp_entry snd Hr :=
  unfold entry_ok; intros vs v HF Hev;
  inversion HF as [|? va ? ? Ga HF1]; subst; inversion HF1 as [|? vb ? ? Gb HF2]; subst; inversion HF2; subst;
  apply gamma_t_asi in Ga as (x & -> & Gx); apply gamma_t_asi in Gb as (y & -> & Gy);
  cbn [eval_op cmp_bv] in Hev; destruct (bits a =? bits b); [|discriminate]; inversion Hev; subst v;
  destruct (snd a b r x y Wa Wb Hr Gx Gy) as [Ht Hf].

Theorem ult_entry_ok : si_ult a b = Ok r -> entry_ok (OULT, [], [asi a; asi b], atri r).
Proof. intros Hr. cmp_entry ult_sound Hr. apply (atri_ok (x < y)); [unfold bvult; apply Z.ltb_lt|exact Ht|exact Hf]. Qed.

Theorem ule_entry_ok : si_ule a b = Ok r -> entry_ok (OULE, [], [asi a; asi b], atri r).
Proof. intros Hr. cmp_entry ule_sound Hr. apply (atri_ok (x <= y)); [unfold bvule; apply Z.leb_le|exact Ht|exact Hf]. Qed.

Theorem ugt_entry_ok : si_ugt a b = Ok r -> entry_ok (OUGT, [], [asi a; asi b], atri r).
Proof. intros Hr. cmp_entry ugt_sound Hr. apply (atri_ok (x > y)); [unfold bvugt; rewrite Z.ltb_lt; lia|exact Ht|exact Hf]. Qed.

Theorem uge_entry_ok : si_uge a b = Ok r -> entry_ok (OUGE, [], [asi a; asi b], atri r).
Proof. intros Hr. cmp_entry uge_sound Hr. apply (atri_ok (x >= y)); [unfold bvuge; rewrite Z.leb_le; lia|exact Ht|exact Hf]. Qed.

Theorem slt_entry_ok : si_slt a b = Ok r -> entry_ok (OSLT, [], [asi a; asi b], atri r).
Proof.
  intros Hr. cmp_entry slt_sound Hr.
  apply (atri_ok (sgn (bits a) x < sgn (bits a) y)); [unfold bvslt; change sval with sgn; apply Z.ltb_lt|exact Ht|exact Hf].
Qed.

Theorem sle_entry_ok : si_sle a b = Ok r -> entry_ok (OSLE, [], [asi a; asi b], atri r).
Proof.
  intros Hr. cmp_entry sle_sound Hr.
  apply (atri_ok (sgn (bits a) x <= sgn (bits a) y)); [unfold bvsle; change sval with sgn; apply Z.leb_le|exact Ht|exact Hf].
Qed.

Theorem sgt_entry_ok : si_sgt a b = Ok r -> entry_ok (OSGT, [], [asi a; asi b], atri r).
Proof.
  intros Hr. cmp_entry sgt_sound Hr.
  apply (atri_ok (sgn (bits a) x > sgn (bits a) y)); [unfold bvsgt; change sval with sgn; rewrite Z.ltb_lt; lia|exact Ht|exact Hf].
Qed.

Theorem sge_entry_ok : si_sge a b = Ok r -> entry_ok (OSGE, [], [asi a; asi b], atri r).
Proof.
  intros Hr. cmp_entry sge_sound Hr.
  apply (atri_ok (sgn (bits a) x >= sgn (bits a) y)); [unfold bvsge; change sval with sgn; rewrite Z.leb_le; lia|exact Ht|exact Hf].
Qed.
End Cmp.
