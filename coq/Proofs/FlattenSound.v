(* Soundness of Build.flatten (_flatten_simplifier) for the commutative-monoid operators. *)
From Coq Require Import ZArith Bool List Lia.
Require Import CV.Model.PyPrelude CV.Spec.BV CV.Model.BVExec CV.Gen.BvConcrete CV.Model.Ast CV.Model.Build.
Require Import CV.Proofs.BVLemmas CV.Proofs.SpecRange CV.Proofs.AstLemmas CV.Proofs.BvConcreteProof
               CV.Proofs.BuildSound CV.Proofs.BigOp.
Import ListNotations.
Open Scope Z_scope.

Lemma construct_sound op ints args r :
  targs op ints args -> construct op ints args = Ok r -> good op ints args r.
Proof.
  intros Ht H. unfold construct in H. destruct (existsb symbolic args).
  - inversion H; subst. apply good_plain; auto.
  - apply fold_concrete_sound; auto.
Qed.

Section Flat.
Variable op : opk.
Variable l : Z.                                   (* the common length of the operands: a width or -1 *)
Variable g : value -> value -> option value.      (* the binary step eval_op folds with *)
Variable fv : value -> value -> value.
Variable uv : value.
Notation In := (fun v => vty v l).
Hypothesis eval_op_nary : forall vs, eval_op op [] vs = nary g vs.
Hypothesis g_fv : forall a b, In a -> In b -> g a b = Some (fv a b).
Hypothesis In_u : In uv.
Hypothesis In_f : forall a b, In a -> In b -> In (fv a b).
Hypothesis f_assoc : forall a b c, In a -> In b -> In c -> fv a (fv b c) = fv (fv a b) c.
Hypothesis f_comm : forall a b, In a -> In b -> fv a b = fv b a.
Hypothesis f_unit : forall a, In a -> fv a uv = a.
(* typing of the operator *)
Definition okl (es : list expr) : Prop := Forall (fun e => wfe e /\ elen e = l) es.
Hypothesis ty_ok : forall es, es <> [] -> okl es -> tyop op [] (map elen es) = Some l.
Hypothesis ty_inv : forall ints es len, Forall wfe es -> tyop op ints (map elen es) = Some len ->
  ints = [] /\ es <> [] /\ Forall (fun e => elen e = len) es.

Notation bigv := (big value fv uv).
Definition V (rho : env) (e : expr) : value := match eval rho e with Some v => v | None => uv end.

Lemma okl_eval rho e : wfe e -> elen e = l -> eval rho e = Some (V rho e) /\ In (V rho e).
Proof.
  intros Hw Hl. destruct (eval_wf rho e Hw) as (v & E & T). unfold V. rewrite E. rewrite Hl in T. auto.
Qed.

Lemma okl_In rho es : okl es -> Forall In (map (V rho) es).
Proof.
  induction 1 as [|e r [Hw Hl] Hr IH]; cbn; constructor; auto. apply okl_eval; auto.
Qed.

Lemma okl_seq rho es : okl es -> sequence (map (eval rho) es) = Some (map (V rho) es).
Proof.
  induction 1 as [|e r [Hw Hl] Hr IH]; cbn; [reflexivity|].
  destruct (okl_eval rho e Hw Hl) as [E _]. rewrite E, IH. reflexivity.
Qed.

Lemma fold_bin_fv : forall vs a, In a -> Forall In vs -> fold_bin g a vs = Some (fold_left fv vs a).
Proof.
  induction vs as [|b r IH]; intros a Ha Hall; cbn; [reflexivity|].
  inversion Hall; subst. rewrite g_fv by auto. apply IH; auto.
Qed.

Lemma okl_targs es : es <> [] -> okl es -> targs op [] es.
Proof.
  intros Hne H. split; [|exists l; apply ty_ok; auto].
  eapply Forall_impl; [|exact H]. cbn. tauto.
Qed.

Lemma node_big rho es len : es <> [] -> okl es ->
  eval rho (Node op [] es len) = Some (bigv (map (V rho) es)).
Proof.
  intros Hne H. cbn [eval]. rewrite okl_seq by auto. rewrite eval_op_nary.
  destruct es as [|e r]; [congruence|]. cbn [map nary].
  pose proof (okl_In rho (e :: r) H) as HI. cbn [map] in HI. inversion HI; subst.
  rewrite fold_bin_fv by auto.
  rewrite (fold_left_big value (fun v => vty v l) fv uv In_u In_f f_assoc f_unit) by auto.
  reflexivity.
Qed.

(* step 1: splice in the operands of nested nodes of the same operator *)
Definition expand (a : expr) : list expr :=
  if is_op op a && (Z.of_nat (length (args_of a)) <? 1000) then args_of a else [a].

Lemma expand_ok rho a : wfe a -> elen a = l ->
  okl (expand a) /\ expand a <> [] /\ bigv (map (V rho) (expand a)) = V rho a.
Proof.
  intros Hw Hl. unfold expand.
  destruct (is_op op a && (Z.of_nat (length (args_of a)) <? 1000)) eqn:E.
  - apply andb_true_iff in E as [E _]. destruct a as [| | | |op' ints' args' len']; try discriminate E.
    cbn [is_op] in E. apply opk_eqb_eq in E. subst op'. cbn [args_of].
    apply wfe_node in Hw as [Hargs Hty]. cbn [elen] in Hl. subst len'.
    destruct (ty_inv ints' args' l Hargs Hty) as (-> & Hne & Hlen).
    assert (Hok : okl args').
    { clear -Hargs Hlen. unfold okl. induction Hargs; inversion Hlen; subst; constructor; auto. }
    split; [exact Hok|]. split; [exact Hne|].
    unfold V at 2. rewrite (node_big rho args' l Hne Hok). reflexivity.
  - split; [constructor; auto|]. split; [discriminate|].
    cbn [map big fold_right]. apply f_unit. apply okl_eval; auto.
Qed.

Lemma flat_ok rho es : okl es ->
  okl (flat_map expand es) /\ (es <> [] -> flat_map expand es <> [])
  /\ bigv (map (V rho) (flat_map expand es)) = bigv (map (V rho) es).
Proof.
  induction 1 as [|e r [Hw Hl] Hr (IH1 & IH2 & IH3)]; cbn [flat_map map].
  - split; [constructor|]. split; [congruence|reflexivity].
  - destruct (expand_ok rho e Hw Hl) as (E1 & E2 & E3).
    split; [apply Forall_app; auto|]. split.
    + intros _ H. apply app_eq_nil in H as [H _]. auto.
    + rewrite map_app.
      rewrite (big_app value (fun v => vty v l) fv uv In_u In_f f_assoc f_comm f_unit)
        by (apply okl_In; auto).
      rewrite E3, IH3. reflexivity.
Qed.

Lemma okl_filter p es : okl es -> okl (filter p es).
Proof.
  intros H. apply Forall_forall. intros x Hx. apply filter_In in Hx as [Hx _].
  unfold okl in H. rewrite Forall_forall in H. auto.
Qed.

(* step 2: collapse the constant operands into one *)
Lemma collapse_ok rho es es' : okl es -> es <> [] ->
  (match filter (fun a => negb (is_bvv a)) es, filter is_bvv es with
   | _ :: _, _ :: _ :: _ =>
       do va <- construct op [] (filter is_bvv es); Ok (filter (fun a => negb (is_bvv a)) es ++ [va])
   | _, _ => Ok es
   end) = Ok es' ->
  okl es' /\ es' <> [] /\ bigv (map (V rho) es') = bigv (map (V rho) es).
Proof.
  intros Hok Hne H.
  destruct (filter (fun a => negb (is_bvv a)) es) as [|o1 orest] eqn:Eo;
  [inversion H; subst; auto|].
  destruct (filter is_bvv es) as [|v1 [|v2 vrest]] eqn:Ev; try (inversion H; subst; auto; fail).
  destruct (construct op [] (v1 :: v2 :: vrest)) as [va| | |] eqn:Ec; cbn [bind] in H; try discriminate H.
  inversion H; subst. clear H.
  assert (Hov : okl (v1 :: v2 :: vrest)) by (rewrite <- Ev; apply okl_filter; auto).
  assert (Hoo : okl (o1 :: orest)) by (rewrite <- Eo; apply okl_filter; auto).
  assert (Htv : targs op [] (v1 :: v2 :: vrest)) by (apply okl_targs; [discriminate|auto]).
  pose proof (construct_sound op [] _ va Htv Ec) as (Gw & Gl & Ge).
  assert (Hlva : elen va = l).
  { rewrite Gl. eapply calc_len_tyop. apply ty_ok; [discriminate|auto]. }
  split; [change (okl ((o1 :: orest) ++ [va])); unfold okl; apply Forall_app; split; auto|]. split; [destruct orest; discriminate|].
  change (bigv (map (V rho) ((o1 :: orest) ++ [va])) = bigv (map (V rho) es)).
  rewrite map_app.
  rewrite (big_app value (fun v => vty v l) fv uv In_u In_f f_assoc f_comm f_unit).
  2:{ apply okl_In; auto. }
  2:{ cbn. constructor; [apply okl_eval; auto|constructor]. }
  cbn [map big fold_right]. rewrite f_unit by (apply okl_eval; auto).
  assert (Eva : V rho va = bigv (map (V rho) (v1 :: v2 :: vrest))).
  { unfold V at 1. rewrite (Ge rho). unfold plain. rewrite node_big by (auto; discriminate). reflexivity. }
  rewrite Eva. change (fv (bigv (map (V rho) (o1 :: orest))) (bigv (map (V rho) (v1 :: v2 :: vrest))) = bigv (map (V rho) es)).
  rewrite <- Ev, <- Eo.
  symmetry.
  apply (big_partition_k value (fun v => vty v l) fv uv In_u In_f f_assoc f_comm f_unit expr (V rho) is_bvv es).
  unfold allIn. eapply Forall_impl; [|exact Hok]. cbn. intros a [Ha1 Ha2]. apply okl_eval; auto.
Qed.

(* step 3: the filter; its soundness for this operator is a hypothesis discharged per operator *)
Variable F : filt.
Hypothesis filt_ok : forall rho es es', okl es -> apply_filt F es = Ok es' ->
  okl es' /\ bigv (map (V rho) es') = bigv (map (V rho) es).
(* the initial value (if any) denotes the unit *)
Variable initial : option expr.
Hypothesis empty_fails : forall r0, construct op [] [] <> Ok r0.
Hypothesis init_ok : forall i, initial = Some i -> wfe i /\ elen i = l /\ forall rho, eval rho i = Some uv.

Theorem flatten_sound args r :
  okl args -> args <> [] -> flatten op F args initial = Ok (Some r) -> good op [] args r.
Proof.
  intros Hok Hne H. unfold flatten in H.
  fold expand in H.
  set (na0 := flat_map expand args) in *.
  assert (H0 : forall rho, okl na0 /\ na0 <> [] /\ bigv (map (V rho) na0) = bigv (map (V rho) args)).
  { intros rho. destruct (flat_ok rho args Hok) as (A & B & C). auto. }
  destruct (match filter (fun a => negb (is_bvv a)) na0, filter is_bvv na0 with
            | _ :: _, _ :: _ :: _ =>
                do va <- construct op [] (filter is_bvv na0); Ok (filter (fun a => negb (is_bvv a)) na0 ++ [va])
            | _, _ => Ok na0
            end) as [na1| | |] eqn:E1; cbn [bind] in H; try discriminate H.
  assert (H1 : forall rho, okl na1 /\ na1 <> [] /\ bigv (map (V rho) na1) = bigv (map (V rho) args)).
  { intros rho. destruct (H0 rho) as (A & B & C).
    destruct (collapse_ok rho na0 na1 A B E1) as (A' & B' & C'). rewrite C' . auto. }
  destruct (apply_filt F na1) as [na2| | |] eqn:E2; cbn [bind] in H; try discriminate H.
  assert (H2 : forall rho, okl na2 /\ bigv (map (V rho) na2) = bigv (map (V rho) args)).
  { intros rho. destruct (H1 rho) as (A & B & C). destruct (filt_ok rho na1 na2 A E2) as (A' & C').
    rewrite C'. auto. }
  pose (rho0 := mkEnv (fun _ => 0) (fun _ => false)).
  assert (Hplain : forall rho, eval rho (plain op [] args) = Some (bigv (map (V rho) args))).
  { intros rho. unfold plain. apply node_big; auto. }
  assert (Hcl : calc_len op [] args = l) by (eapply calc_len_tyop; apply ty_ok; auto).
  destruct na2 as [|x [|y rest]].
  - destruct initial as [i|] eqn:Ei.
    + inversion H; subst. destruct (init_ok r eq_refl) as (Iw & Il & Ie).
      split; [auto|]. split; [congruence|]. intros rho. rewrite Ie, Hplain.
      destruct (H2 rho) as (_ & C). cbn in C. congruence.
    + destruct (construct op [] []) eqn:Ec; cbn [bind] in H; try discriminate H.
      exfalso. eapply empty_fails; eauto.
  - assert (Hr : r = x) by (destruct initial; inversion H; auto). subst r.
    destruct (H2 rho0) as (A & _). inversion A as [|? ? [Xw Xl] _]; subst.
    split; [auto|]. split; [congruence|]. intros rho. rewrite Hplain.
    destruct (H2 rho) as (_ & C). cbn [map big fold_right] in C.
    rewrite f_unit in C by (apply okl_eval; auto). rewrite <- C. apply okl_eval; auto.
  - assert (Hc : exists r', construct op [] (x :: y :: rest) = Ok r' /\ r = r').
    { destruct initial; destruct (construct op [] (x :: y :: rest)); cbn [bind] in H; try discriminate H;
      inversion H; eauto. }
    destruct Hc as (r' & Ec & ->).
    destruct (H2 rho0) as (A & _).
    assert (Ht : targs op [] (x :: y :: rest)) by (apply okl_targs; [discriminate|auto]).
    destruct (construct_sound op [] _ r' Ht Ec) as (Gw & Gl & Ge).
    split; [auto|]. split.
    + rewrite Gl, Hcl. eapply calc_len_tyop. apply ty_ok; [discriminate|auto].
    + intros rho. rewrite (Ge rho), Hplain. unfold plain. rewrite node_big by (auto; discriminate).
      destruct (H2 rho) as (_ & C). congruence.
Qed.
End Flat.
