(* Basic facts used by the bitvector proofs. *)
From Coq Require Import ZArith Bool Lia List.
Require Import CV.Model.PyPrelude CV.Spec.BV.
Open Scope Z_scope.

Lemma shiftl_1_pow w : 0 <= w -> Z.shiftl 1 w = 2 ^ w.
Proof. intros. rewrite Z.shiftl_mul_pow2 by lia. lia. Qed.

Lemma land_mask_mod v w : 0 <= w -> Z.land v (2 ^ w - 1) = v mod 2 ^ w.
Proof.
  intros. replace (2 ^ w - 1) with (Z.ones w) by (rewrite Z.ones_equiv; lia).
  apply Z.land_ones; lia.
Qed.

Lemma pow2_pos w : 0 <= w -> 0 < 2 ^ w.
Proof. intros; apply Z.pow_pos_nonneg; lia. Qed.

Lemma wrap_range w v : 0 <= w -> 0 <= wrap w v < 2 ^ w.
Proof. intros. unfold wrap. apply Z.mod_pos_bound. apply pow2_pos; lia. Qed.

Lemma wrap_small w v : 0 <= v < 2 ^ w -> wrap w v = v.
Proof. intros. unfold wrap. apply Z.mod_small; lia. Qed.

Lemma pow2_half w : 0 < w -> 2 ^ w = 2 * 2 ^ (w - 1).
Proof. intros. replace w with (1 + (w - 1)) at 1 by lia. rewrite Z.pow_add_r by lia. lia. Qed.

Lemma py_shl_ok a b : 0 <= b <= SHIFT_LIMIT -> py_shl a b = Ok (Z.shiftl a b).
Proof.
  intros. unfold py_shl.
  destruct (b <? 0) eqn:E1; [apply Z.ltb_lt in E1; lia|].
  destruct (a =? 0) eqn:E2.
  - apply Z.eqb_eq in E2; subst. rewrite Z.shiftl_0_l. reflexivity.
  - destruct (SHIFT_LIMIT <? b) eqn:E3; [apply Z.ltb_lt in E3; lia|]. reflexivity.
Qed.

Lemma fast_shiftr_eq a b : 0 <= b -> fast_shiftr a b = Z.shiftr a b.
Proof.
  intros Hb. unfold fast_shiftr.
  destruct (Z.log2 (Z.abs a) + 1 <? b) eqn:E; [|reflexivity]. apply Z.ltb_lt in E.
  destruct (a <? 0) eqn:N.
  - apply Z.ltb_lt in N. rewrite Z.shiftr_div_pow2 by lia.
    assert (Hlt : - a < 2 ^ b).
    { replace (Z.abs a) with (- a) in E by lia.
      apply Z.log2_lt_pow2; [lia|]. lia. }
    apply Zdiv_unique with (r := a + 2 ^ b); lia.
  - apply Z.ltb_ge in N. symmetry.
    destruct (Z.eq_dec a 0) as [->|Hne]; [apply Z.shiftr_0_l|].
    apply Z.shiftr_eq_0; [lia|]. replace (Z.abs a) with a in E by lia. lia.
Qed.

Lemma py_shr_ok a b : 0 <= b -> py_shr a b = Ok (Z.shiftr a b).
Proof.
  intros. unfold py_shr. destruct (b <? 0) eqn:E; [apply Z.ltb_lt in E; lia|].
  rewrite fast_shiftr_eq by lia. reflexivity.
Qed.

Lemma py_mod_ok a b : b <> 0 -> py_mod a b = Ok (a mod b).
Proof. intros. unfold py_mod. destruct (b =? 0) eqn:E; [apply Z.eqb_eq in E; lia|reflexivity]. Qed.

Lemma py_floordiv_ok a b : b <> 0 -> py_floordiv a b = Ok (a / b).
Proof. intros. unfold py_floordiv. destruct (b =? 0) eqn:E; [apply Z.eqb_eq in E; lia|reflexivity]. Qed.

(* testbit toolkit *)
Lemma tb_mod_pow2 a n i : 0 <= n -> Z.testbit (a mod 2 ^ n) i = (i <? n) && Z.testbit a i.
Proof. intros. apply Z.testbit_mod_pow2; lia. Qed.

Lemma tb_shl a s n : 0 <= s -> Z.testbit (Z.shiftl a s) n = (0 <=? n) && Z.testbit a (n - s).
Proof.
  intros Hs. destruct (0 <=? n) eqn:E.
  - apply Z.leb_le in E. rewrite Z.shiftl_spec by lia. reflexivity.
  - apply Z.leb_gt in E. rewrite Z.testbit_neg_r by lia. reflexivity.
Qed.

Lemma tb_shr a s n : 0 <= s -> 0 <= n -> Z.testbit (Z.shiftr a s) n = Z.testbit a (n + s).
Proof. intros. apply Z.shiftr_spec; lia. Qed.

Lemma tb_range_hi a w n : 0 <= a < 2 ^ w -> 0 <= w -> w <= n -> Z.testbit a n = false.
Proof.
  intros Ha Hw Hn.
  destruct (Z.eq_dec a 0) as [->|Hne]; [apply Z.testbit_0_l|].
  apply Z.bits_above_log2; [lia|].
  assert (Z.log2 a < w) by (apply Z.log2_lt_pow2; lia). lia.
Qed.

Lemma bits_hi_zero_lt v n : 0 <= n -> 0 <= v ->
  (forall i, n <= i -> Z.testbit v i = false) -> v < 2 ^ n.
Proof.
  intros Hn Hv H.
  assert (E : v = v mod 2 ^ n).
  { apply Z.bits_inj'. intros i Hi. rewrite tb_mod_pow2 by lia.
    destruct (i <? n) eqn:L; cbn [andb]; [reflexivity|]. apply Z.ltb_ge in L. apply H; lia. }
  rewrite E. apply Z.mod_pos_bound. apply pow2_pos; lia.
Qed.

Lemma land_range x y n : 0 <= n -> 0 <= x < 2 ^ n -> 0 <= y -> 0 <= Z.land x y < 2 ^ n.
Proof.
  intros Hn Hx Hy. split; [apply Z.land_nonneg; lia|].
  apply bits_hi_zero_lt; [lia|apply Z.land_nonneg; lia|].
  intros i Hi. rewrite Z.land_spec, (tb_range_hi x n i) by lia. reflexivity.
Qed.

Lemma lor_range x y n : 0 <= n -> 0 <= x < 2 ^ n -> 0 <= y < 2 ^ n -> 0 <= Z.lor x y < 2 ^ n.
Proof.
  intros Hn Hx Hy. split; [apply Z.lor_nonneg; lia|].
  apply bits_hi_zero_lt; [lia|apply Z.lor_nonneg; lia|].
  intros i Hi. rewrite Z.lor_spec, (tb_range_hi x n i), (tb_range_hi y n i) by lia. reflexivity.
Qed.

Lemma lxor_range x y n : 0 <= n -> 0 <= x < 2 ^ n -> 0 <= y < 2 ^ n -> 0 <= Z.lxor x y < 2 ^ n.
Proof.
  intros Hn Hx Hy. split; [apply Z.lxor_nonneg; lia|].
  apply bits_hi_zero_lt; [lia|apply Z.lxor_nonneg; lia|].
  intros i Hi. rewrite Z.lxor_spec, (tb_range_hi x n i), (tb_range_hi y n i) by lia. reflexivity.
Qed.

Lemma div_le_self x y : 0 <= x -> 0 < y -> 0 <= x / y <= x.
Proof.
  intros. split; [apply Z.div_pos; lia|]. apply Z.div_le_upper_bound; nia.
Qed.

Lemma lor_shiftl_add x y n : 0 <= n -> 0 <= y < 2 ^ n -> Z.lor (Z.shiftl x n) y = x * 2 ^ n + y.
Proof.
  intros Hn Hy.
  rewrite <- Z.lxor_lor.
  - rewrite <- Z.add_nocarry_lxor; [rewrite Z.shiftl_mul_pow2 by lia; reflexivity|].
    apply Z.bits_inj'. intros i Hi. rewrite Z.land_spec, Z.bits_0, tb_shl by lia.
    destruct (i <? n) eqn:L.
    + apply Z.ltb_lt in L. rewrite (Z.testbit_neg_r x (i - n)) by lia. rewrite andb_false_r. reflexivity.
    + apply Z.ltb_ge in L. rewrite (tb_range_hi y n i) by lia. apply andb_false_r.
  - apply Z.bits_inj'. intros i Hi. rewrite Z.land_spec, Z.bits_0, tb_shl by lia.
    destruct (i <? n) eqn:L.
    + apply Z.ltb_lt in L. rewrite (Z.testbit_neg_r x (i - n)) by lia. rewrite andb_false_r. reflexivity.
    + apply Z.ltb_ge in L. rewrite (tb_range_hi y n i) by lia. apply andb_false_r.
Qed.

Lemma concat_range x y m n : 0 <= m -> 0 <= n -> 0 <= x < 2 ^ m -> 0 <= y < 2 ^ n -> 0 <= x * 2 ^ n + y < 2 ^ (m + n).
Proof.
  intros. rewrite Z.pow_add_r by lia. pose proof (pow2_pos n ltac:(lia)). nia.
Qed.

Lemma lt_pow2_self w : 0 <= w -> w < 2 ^ w.
Proof. intros. apply Z.pow_gt_lin_r; lia. Qed.


Lemma shl_disjoint_or w a k : 0 <= k <= w -> 0 <= a < 2 ^ w ->
  Z.lor (wrap w (a * 2 ^ k)) (a / 2 ^ (w - k)) = wrap w (a * 2 ^ k) + a / 2 ^ (w - k).
Proof.
  intros Hk Ha. unfold wrap.
  replace (2 ^ w) with (2 ^ (w - k) * 2 ^ k) by (rewrite <- Z.pow_add_r by lia; f_equal; lia).
  pose proof (pow2_pos k ltac:(lia)). pose proof (pow2_pos (w - k) ltac:(lia)).
  rewrite Z.mul_mod_distr_r by lia.
  rewrite <- (Z.shiftl_mul_pow2 _ k) by lia.
  rewrite lor_shiftl_add; [rewrite Z.shiftl_mul_pow2 by lia; reflexivity|lia|].
  split; [apply Z.div_pos; lia|].
  apply Z.div_lt_upper_bound; [lia|].
  replace (2 ^ (w - k) * 2 ^ k) with (2 ^ w) by (rewrite <- Z.pow_add_r by lia; f_equal; lia). lia.
Qed.

