(* C16: with collision-free names the tracked solver holds exactly what was added, and the core read back from the names Z3
   reports consists of added constraints and is unsatisfiable whenever the named constraints are; a name collision silently
   drops a constraint. *)
From Coq Require Import ZArith List Bool Lia.
Require Import CV.Model.PyPrelude CV.Model.Ast CV.Model.Frontend CV.Model.Track CV.Proofs.FrontendSound.
Import ListNotations.
Open Scope Z_scope.

Section TrackSound.
Variable name : expr -> Z.

(* every tracked entry carries its own name *)
Definition named (st : tracked) : Prop := forall n c, In (n, c) st -> n = name c.

Lemma has_name_spec st n : has_name st n = true <-> exists c, In (n, c) st.
Proof.
  unfold has_name. rewrite existsb_exists. split.
  - intros ([m c] & Hin & E). cbn in E. apply Z.eqb_eq in E. subst. eauto.
  - intros (c & Hin). exists (n, c). split; [auto|cbn; apply Z.eqb_refl].
Qed.

(* names do not collide on the constraints involved *)
Definition injective_on (l : list expr) : Prop := forall c c', In c l -> In c' l -> name c = name c' -> c = c'.

Theorem track_add_exact cs : forall st, named st -> injective_on (asserted st ++ cs) ->
  named (track_add name st cs) /\
  forall rho, models rho (asserted (track_add name st cs)) = models rho (asserted st) && models rho cs.
Proof.
  induction cs as [|c r IH]; intros st Hn Hi; cbn [track_add].
  - split; [exact Hn|]. intros rho. unfold models at 3. cbn. rewrite andb_true_r. reflexivity.
  - destruct (has_name st (name c)) eqn:E.
    + (* already tracked under this name: by injectivity it is the same constraint *)
      apply has_name_spec in E as (c' & Hin). pose proof (Hn _ _ Hin) as Hnm.
      assert (Hc : c' = c).
      { apply Hi; [apply in_or_app; left; unfold asserted; apply in_map_iff; exists (name c, c'); auto
                  |apply in_or_app; right; left; reflexivity|symmetry; exact Hnm]. }
      subst c'.
      destruct (IH st Hn) as (Hn' & Hm).
      { intros x y Hx Hy. apply Hi; apply in_app_or in Hx; apply in_app_or in Hy; apply in_or_app;
          [destruct Hx; [left|right; right]; auto|destruct Hy; [left|right; right]; auto]. }
      split; [exact Hn'|]. intros rho. rewrite Hm.
      assert (Hh : models rho (asserted st) = true -> holds rho c = true).
      { unfold models, asserted. rewrite forallb_forall. intros H. apply H. apply in_map_iff. exists (name c, c). auto. }
      assert (Hc : models rho (c :: r) = holds rho c && models rho r) by reflexivity.
      rewrite Hc. destruct (models rho (asserted st)) eqn:Em; [rewrite (Hh eq_refl); reflexivity|reflexivity].
    + destruct (IH (st ++ [(name c, c)])) as (Hn' & Hm).
      { intros n x Hin. apply in_app_or in Hin as [Hin|[Hin|[]]]; [apply Hn; auto|inversion Hin; reflexivity]. }
      { unfold asserted. rewrite map_app. cbn [map snd]. rewrite <- app_assoc. exact Hi. }
      split; [exact Hn'|]. intros rho. rewrite Hm. unfold asserted. rewrite map_app. cbn [map snd].
      rewrite models_app.
      assert (H1 : models rho [c] = holds rho c) by (unfold models; cbn; apply andb_true_r).
      assert (H2 : models rho (c :: r) = holds rho c && models rho r) by reflexivity.
      rewrite H1, H2, andb_assoc. reflexivity.
Qed.

(* what unsat_core returns was asserted (hence, by track_add_exact, added) ... *)
Theorem core_subset st names c : In c (core_of st names) -> In c (asserted st).
Proof.
  unfold core_of, asserted. intros H. apply in_map_iff in H as (p & <- & Hp). apply filter_In in Hp as [Hp _].
  apply in_map. exact Hp.
Qed.

(* ... and is unsatisfiable if the constraints Z3 names are (the oracle's promise) *)
Theorem core_unsat st names :
  (forall rho, exists p, In p st /\ existsb (Z.eqb (fst p)) names = true /\ holds rho (snd p) = false) ->
  forall rho, models rho (core_of st names) = false.
Proof.
  intros H rho. destruct (H rho) as (p & Hin & Hn & Hf).
  destruct (models rho (core_of st names)) eqn:E; [|reflexivity].
  unfold models in E. rewrite forallb_forall in E.
  rewrite <- Hf. symmetry. apply E. unfold core_of. apply in_map. apply filter_In. auto.
Qed.
End TrackSound.

(* a collision drops the second constraint: with a constant name function, adding [x == 0; x == 1] asserts only the first *)
Theorem collision_refuted : exists (name : expr -> Z) cs rho,
  models rho (asserted (track_add name [] cs)) = true /\ models rho cs = false.
Proof.
  exists (fun _ => 7).
  exists [Node OEq [] [BVS 1 4; BVVe 0 4] (-1); Node OEq [] [BVS 1 4; BVVe 1 4] (-1)].
  exists (mkEnv (fun _ => 0) (fun _ => false)). split; vm_compute; reflexivity.
Qed.
