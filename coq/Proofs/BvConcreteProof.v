(* C01b: every operation of the *generated* Gen/BvConcrete.v (translated from
   claripy/backends/backend_concrete/bv.py on every run) equals its SMT-LIB operator of Spec/BV.v,
   at every width and for every value. *)
From Coq Require Import ZArith Bool Lia List.
Require Import CV.Model.PyPrelude CV.Spec.BV CV.Proofs.BVLemmas CV.Proofs.BVSigned CV.Gen.BvConcrete.
Import ListNotations.
Open Scope Z_scope.

Definition wfb (x : bvv) : Prop := 0 <= bbits x <= SHIFT_LIMIT /\ 0 <= bvalue x < 2 ^ bbits x.

Lemma BVV_ok v b : 0 <= b <= SHIFT_LIMIT -> BVV v b = Ok (mkbvv (wrap b v) b).
Proof.
  intros H. unfold BVV. rewrite py_shl_ok by lia. cbn [bind].
  rewrite shiftl_1_pow by lia. rewrite land_mask_mod by lia. reflexivity.
Qed.

Lemma BVV_wf v b : 0 <= b <= SHIFT_LIMIT -> wfb (mkbvv (wrap b v) b).
Proof. intros. split; cbn; [lia|apply wrap_range; lia]. Qed.

Lemma bvv_mod_pow x : 0 <= bbits x -> bvv_mod x = 2 ^ bbits x.
Proof. intros. unfold bvv_mod. apply shiftl_1_pow; lia. Qed.

Ltac guards :=
  repeat match goal with
  | |- context [Z.eqb ?a ?b] =>
      first [ rewrite (proj2 (Z.eqb_eq a b)) by (try assumption; try lia; try congruence)
            | rewrite (proj2 (Z.eqb_neq a b)) by (try assumption; try lia; try congruence) ]
  end; cbn [orb negb andb].

(* the signed value *)
Lemma signed_ok x : wfb x -> 0 < bbits x -> bvv_signed x = Ok (sval (bbits x) (bvalue x)).
Proof.
  intros [Hb Hv] Hpos. unfold bvv_signed, sval.
  rewrite bvv_mod_pow by lia.
  assert (Hhalf : 2 ^ bbits x / 2 = 2 ^ (bbits x - 1)).
  { rewrite (pow2_half (bbits x)) by lia. rewrite Z.mul_comm, Z.div_mul by lia. reflexivity. }
  rewrite Hhalf.
  assert (Hp : 0 < 2 ^ (bbits x - 1)) by (apply pow2_pos; lia).
  destruct (bvalue x <? 2 ^ (bbits x - 1)) eqn:E; cbn [bind]; [reflexivity|].
  apply Z.ltb_ge in E.
  rewrite py_mod_ok by lia. cbn [bind]. f_equal.
  pose proof (pow2_half (bbits x) Hpos) as H2.
  assert (bvalue x mod 2 ^ (bbits x - 1) = bvalue x - 2 ^ (bbits x - 1)).
  { symmetry. apply Zmod_unique with (q := 1); lia. }
  lia.
Qed.

Section Binary.
Variables a b : bvv.
Hypothesis Ha : wfb a.
Hypothesis Hb : wfb b.
Hypothesis Hw : bbits a = bbits b.
Hypothesis Hpos : 0 < bbits a.
Let w := bbits a.

Ltac start := unfold w in *; destruct Ha as [Ha1 Ha2], Hb as [Hb1 Hb2]; guards;
  try rewrite <- Hw in Hb1; try rewrite <- Hw in Hb2; try rewrite <- Hw.

Lemma add_spec : bvv___add__ a b = Ok (mkbvv (bvadd w (bvalue a) (bvalue b)) w).
Proof. unfold bvv___add__. start. rewrite BVV_ok by lia. reflexivity. Qed.

Lemma sub_spec : bvv___sub__ a b = Ok (mkbvv (bvsub w (bvalue a) (bvalue b)) w).
Proof. unfold bvv___sub__. start. rewrite BVV_ok by lia. reflexivity. Qed.

Lemma mul_spec : bvv___mul__ a b = Ok (mkbvv (bvmul w (bvalue a) (bvalue b)) w).
Proof. unfold bvv___mul__. start. rewrite BVV_ok by lia. reflexivity. Qed.

Lemma and_spec : bvv___and__ a b = Ok (mkbvv (bvand w (bvalue a) (bvalue b)) w).
Proof.
  unfold bvv___and__. start. rewrite BVV_ok by lia. cbn [bind]. do 2 f_equal.
  unfold bvand. apply wrap_small. apply land_range; lia.
Qed.

Lemma or_spec : bvv___or__ a b = Ok (mkbvv (bvor w (bvalue a) (bvalue b)) w).
Proof.
  unfold bvv___or__. start. rewrite BVV_ok by lia. cbn [bind]. do 2 f_equal.
  apply wrap_small. apply lor_range; lia.
Qed.

Lemma xor_spec : bvv___xor__ a b = Ok (mkbvv (bvxor w (bvalue a) (bvalue b)) w).
Proof.
  unfold bvv___xor__. start. rewrite BVV_ok by lia. cbn [bind]. do 2 f_equal.
  apply wrap_small. apply lxor_range; lia.
Qed.

(* unsigned division and remainder: the concrete backend raises on a zero divisor (exempt in C01) *)
Lemma udiv_spec : bvalue b <> 0 ->
  bvv___floordiv__ a b = Ok (mkbvv (bvudiv w (bvalue a) (bvalue b)) w).
Proof.
  intros Hnz. unfold bvv___floordiv__. start. rewrite py_floordiv_ok by lia. cbn [bind].
  rewrite BVV_ok by lia. cbn [bind]. do 2 f_equal. unfold bvudiv. guards.
  apply wrap_small. pose proof (div_le_self (bvalue a) (bvalue b) ltac:(lia) ltac:(lia)). lia.
Qed.

Lemma udiv_zero : bvalue b = 0 -> bvv___floordiv__ a b = Err ZeroDiv.
Proof. intros Hz. unfold bvv___floordiv__. start. reflexivity. Qed.

Lemma urem_spec : bvalue b <> 0 ->
  bvv___mod__ a b = Ok (mkbvv (bvurem w (bvalue a) (bvalue b)) w).
Proof.
  intros Hnz. unfold bvv___mod__. start. rewrite py_mod_ok by lia. cbn [bind].
  rewrite BVV_ok by lia. cbn [bind]. do 2 f_equal. unfold bvurem. guards.
  apply wrap_small. pose proof (Z.mod_pos_bound (bvalue a) (bvalue b) ltac:(lia)). lia.
Qed.

Lemma urem_zero : bvalue b = 0 -> bvv___mod__ a b = Err ZeroDiv.
Proof. intros Hz. unfold bvv___mod__. start. reflexivity. Qed.

(* comparisons *)
Lemma eq_spec : bvv___eq__ a b = Ok (bvalue a =? bvalue b).
Proof. unfold bvv___eq__. start. reflexivity. Qed.
Lemma ne_spec : bvv___ne__ a b = Ok (negb (bvalue a =? bvalue b)).
Proof. unfold bvv___ne__. start. reflexivity. Qed.
Lemma ult_spec : bv_ULT a b = Ok (bvult (bvalue a) (bvalue b)).
Proof. unfold bv_ULT. start. reflexivity. Qed.
Lemma ule_spec : bv_ULE a b = Ok (bvule (bvalue a) (bvalue b)).
Proof. unfold bv_ULE. start. reflexivity. Qed.
Lemma ugt_spec : bv_UGT a b = Ok (bvugt (bvalue a) (bvalue b)).
Proof. unfold bv_UGT. start. reflexivity. Qed.
Lemma uge_spec : bv_UGE a b = Ok (bvuge (bvalue a) (bvalue b)).
Proof. unfold bv_UGE. start. reflexivity. Qed.

Lemma slt_spec : bv_SLT a b = Ok (bvslt w (bvalue a) (bvalue b)).
Proof. unfold bv_SLT. pose proof Ha as Ha'; pose proof Hb as Hb'. start.
  rewrite !signed_ok by (auto; lia). cbn [bind]. rewrite <- ?Hw. reflexivity. Qed.
Lemma sle_spec : bv_SLE a b = Ok (bvsle w (bvalue a) (bvalue b)).
Proof. unfold bv_SLE. pose proof Ha as Ha'; pose proof Hb as Hb'. start.
  rewrite !signed_ok by (auto; lia). cbn [bind]. rewrite <- ?Hw. reflexivity. Qed.
Lemma sgt_spec : bv_SGT a b = Ok (bvsgt w (bvalue a) (bvalue b)).
Proof. unfold bv_SGT. pose proof Ha as Ha'; pose proof Hb as Hb'. start.
  rewrite !signed_ok by (auto; lia). cbn [bind]. rewrite <- ?Hw. reflexivity. Qed.
Lemma sge_spec : bv_SGE a b = Ok (bvsge w (bvalue a) (bvalue b)).
Proof. unfold bv_SGE. pose proof Ha as Ha'; pose proof Hb as Hb'. start.
  rewrite !signed_ok by (auto; lia). cbn [bind]. rewrite <- ?Hw. reflexivity. Qed.

End Binary.

(* ---- unary, shifts, extension, extraction ---- *)

Lemma invert_spec a : wfb a -> bvv___invert__ a = Ok (mkbvv (bvnot (bbits a) (bvalue a)) (bbits a)).
Proof.
  intros [Hb Hv]. unfold bvv___invert__. rewrite BVV_ok by lia. cbn [bind]. do 2 f_equal.
  rewrite bvv_mod_pow by lia. unfold bvnot, wrap.
  apply Z.bits_inj'. intros i Hi. rewrite !tb_mod_pow2 by lia.
  destruct (i <? bbits a) eqn:L; cbn [andb]; [|reflexivity]. apply Z.ltb_lt in L.
  rewrite Z.lxor_spec, Z.lnot_spec by lia.
  replace (2 ^ bbits a - 1) with (Z.ones (bbits a)) by (rewrite Z.ones_equiv; lia).
  rewrite Z.ones_spec_low by lia. apply xorb_true_r.
Qed.

Lemma neg_spec a : wfb a -> bvv___neg__ a = Ok (mkbvv (bvneg (bbits a) (bvalue a)) (bbits a)).
Proof.
  intros [Hb Hv]. unfold bvv___neg__. rewrite bvv_mod_pow by lia.
  pose proof (pow2_pos (bbits a) ltac:(lia)).
  rewrite py_mod_ok by lia. cbn [bind]. rewrite BVV_ok by lia. cbn [bind]. do 2 f_equal.
  unfold bvneg, wrap. apply Z.mod_mod; lia.
Qed.

Section Shifts.
Variables a b : bvv.
Hypothesis Ha : wfb a.
Hypothesis Hb : wfb b.
Hypothesis Hw : bbits a = bbits b.
Hypothesis Hpos : 0 < bbits a.
Let w := bbits a.

Lemma shl_spec : bvv___lshift__ a b = Ok (mkbvv (bvshl w (bvalue a) (bvalue b)) w).
Proof.
  unfold bvv___lshift__, w. destruct Ha as [Ha1 Ha2], Hb as [Hb1 Hb2]. guards.
  pose proof (pow2_pos (bbits a) ltac:(lia)) as Hp.
  destruct (bbits a <=? bvalue b) eqn:E.
  - apply Z.leb_le in E. rewrite BVV_ok by lia. cbn [bind]. do 2 f_equal.
    unfold bvshl, wrap. rewrite Z.mod_0_l by lia.
    replace (bvalue b) with (bbits a + (bvalue b - bbits a)) by lia.
    rewrite Z.pow_add_r by lia. symmetry.
    replace (bvalue a * (2 ^ bbits a * 2 ^ (bvalue b - bbits a)))
      with ((bvalue a * 2 ^ (bvalue b - bbits a)) * 2 ^ bbits a) by ring.
    apply Z.mod_mul; lia.
  - apply Z.leb_gt in E. rewrite py_shl_ok by lia. cbn [bind]. rewrite BVV_ok by lia. cbn [bind].
    rewrite Z.shiftl_mul_pow2 by lia. reflexivity.
Qed.

Lemma lshr_spec : bv_LShR a b = Ok (mkbvv (bvlshr w (bvalue a) (bvalue b)) w).
Proof.
  unfold bv_LShR, w. destruct Ha as [Ha1 Ha2], Hb as [Hb1 Hb2]. guards.
  rewrite py_shr_ok by lia. cbn [bind]. rewrite BVV_ok by lia. cbn [bind]. do 2 f_equal.
  rewrite Z.shiftr_div_pow2 by lia. unfold bvlshr. apply wrap_small.
  pose proof (div_le_self (bvalue a) (2 ^ bvalue b) ltac:(lia) ltac:(apply pow2_pos; lia)). lia.
Qed.

Lemma ashr_spec : bvv___rshift__ a b = Ok (mkbvv (bvashr w (bvalue a) (bvalue b)) w).
Proof.
  unfold bvv___rshift__, w. pose proof Ha as Ha'. destruct Ha as [Ha1 Ha2], Hb as [Hb1 Hb2]. guards.
  rewrite signed_ok by (auto; lia). cbn [bind].
  rewrite py_shr_ok by lia. cbn [bind]. rewrite BVV_ok by lia. cbn [bind].
  rewrite Z.shiftr_div_pow2 by lia. reflexivity.
Qed.
End Shifts.

Lemma zeroext_spec k a : wfb a -> 0 <= k -> bbits a + k <= SHIFT_LIMIT ->
  bv_ZeroExt k a = Ok (mkbvv (zero_extend k (bvalue a)) (bbits a + k)).
Proof.
  intros [Hb Hv] Hk Hl. unfold bv_ZeroExt. rewrite BVV_ok by lia. cbn [bind]. do 2 f_equal.
  unfold zero_extend. apply wrap_small. split; [lia|].
  assert (2 ^ bbits a <= 2 ^ (bbits a + k)) by (apply Z.pow_le_mono_r; lia). lia.
Qed.

Lemma signext_spec k a : wfb a -> 0 < bbits a -> 0 <= k -> bbits a + k <= SHIFT_LIMIT ->
  bv_SignExt k a = Ok (mkbvv (sign_extend (bbits a) k (bvalue a)) (bbits a + k)).
Proof.
  intros Hwf Hp Hk Hl. pose proof Hwf as [Hb Hv]. unfold bv_SignExt.
  rewrite signed_ok by auto. cbn [bind]. rewrite BVV_ok by lia. reflexivity.
Qed.

Lemma extract_spec hi lo a : wfb a -> 0 <= lo <= hi -> hi < bbits a -> hi + 2 <= SHIFT_LIMIT ->
  bv_Extract hi lo a = Ok (mkbvv (bvextract hi lo (bvalue a)) (hi - lo + 1)).
Proof.
  intros [Hb Hv] Hlo Hhi Hlim. unfold bv_Extract.
  rewrite py_shr_ok by lia. cbn [bind]. rewrite py_shl_ok by lia. cbn [bind].
  rewrite BVV_ok by lia. cbn [bind].
  replace (hi + 1 - lo) with (hi - lo + 1) by lia. do 2 f_equal.
  rewrite shiftl_1_pow by lia. rewrite land_mask_mod by lia. rewrite Z.shiftr_div_pow2 by lia.
  unfold bvextract, wrap. replace (hi + 2 - lo) with ((hi - lo + 1) + 1) by lia.
  apply Z.bits_inj'. intros i Hi. rewrite !tb_mod_pow2 by lia.
  destruct (i <? hi - lo + 1) eqn:L; cbn [andb]; [|reflexivity].
  apply Z.ltb_lt in L. destruct (i <? hi - lo + 1 + 1) eqn:L2; [reflexivity|apply Z.ltb_ge in L2; lia].
Qed.

(* ---- signed division and remainder ---- *)

Section Signed.
Variables a b : bvv.
Hypothesis Ha : wfb a.
Hypothesis Hb : wfb b.
Hypothesis Hw : bbits a = bbits b.
Hypothesis Hpos : 0 < bbits a.
Let w := bbits a.

Lemma sval_zero_iff v : 0 <= v < 2 ^ w -> (sval w v = 0 <-> v = 0).
Proof.
  intros Hv. unfold sval. pose proof (pow2_half w Hpos). pose proof (pow2_pos (w - 1) ltac:(unfold w; lia)).
  destruct (v <? 2 ^ (w - 1)) eqn:E; [lia|]. apply Z.ltb_ge in E. lia.
Qed.

Lemma sdiv_spec : bvalue b <> 0 ->
  bv_SDiv a b = Ok (mkbvv (bvsdiv w (bvalue a) (bvalue b)) w).
Proof.
  intros Hnz. unfold bv_SDiv, w. pose proof Ha as Ha'. pose proof Hb as Hb'.
  destruct Ha as [Ha1 Ha2], Hb as [Hb1 Hb2]. guards.
  rewrite !signed_ok by (auto; lia). cbn [bind]. rewrite <- Hw in *.
  assert (Hsb : sval (bbits a) (bvalue b) <> 0) by (intro X; apply (sval_zero_iff (bvalue b)) in X; unfold w in *; lia).
  guards.
  rewrite bvsdiv_quot by (auto; lia).
  rewrite <- (py_trunc_div _ _ Hsb).
  destruct (0 <? sval (bbits a) (bvalue a) * sval (bbits a) (bvalue b)) eqn:E; cbn [bind].
  - rewrite py_floordiv_ok by auto. cbn [bind]. rewrite BVV_ok by lia. reflexivity.
  - rewrite py_mod_ok by auto. cbn [bind]. rewrite py_floordiv_ok by auto. cbn [bind].
    rewrite BVV_ok by lia. reflexivity.
Qed.

Lemma sdiv_zero : bvalue b = 0 -> bv_SDiv a b = Err ZeroDiv.
Proof.
  intros Hz. unfold bv_SDiv, w. pose proof Ha as Ha'. pose proof Hb as Hb'.
  destruct Ha as [Ha1 Ha2], Hb as [Hb1 Hb2]. guards.
  rewrite !signed_ok by (auto; lia). cbn [bind]. rewrite <- Hw in *.
  assert (Hsb : sval (bbits a) (bvalue b) = 0) by (apply sval_zero_iff; unfold w; lia).
  rewrite Hsb. reflexivity.
Qed.

(* claripy's SMod is the remainder with the sign of the dividend: SMT-LIB bvsrem *)
Lemma smod_spec : bvalue b <> 0 ->
  bv_SMod a b = Ok (mkbvv (bvsrem w (bvalue a) (bvalue b)) w).
Proof.
  intros Hnz. unfold bv_SMod, w. pose proof Ha as Ha'. pose proof Hb as Hb'.
  destruct Ha as [Ha1 Ha2], Hb as [Hb1 Hb2]. guards.
  rewrite !signed_ok by (auto; lia). cbn [bind]. rewrite <- Hw in *.
  assert (Hsb : sval (bbits a) (bvalue b) <> 0) by (intro X; apply (sval_zero_iff (bvalue b)) in X; unfold w in *; lia).
  guards.
  rewrite bvsrem_rem by (auto; lia).
  set (sa := sval (bbits a) (bvalue a)) in *. set (sb := sval (bbits a) (bvalue b)) in *.
  assert (Hr : Z.rem sa sb = sa - Z.quot sa sb * sb) by (pose proof (Z.quot_rem' sa sb); lia).
  rewrite Hr. rewrite <- (py_trunc_div _ _ Hsb).
  destruct (0 <? sa * sb) eqn:E; cbn [bind].
  - rewrite py_floordiv_ok by auto. cbn [bind]. rewrite BVV_ok by lia. reflexivity.
  - rewrite py_mod_ok by auto. cbn [bind]. rewrite py_floordiv_ok by auto. cbn [bind].
    rewrite BVV_ok by lia. reflexivity.
Qed.
Lemma smod_zero : bvalue b = 0 -> bv_SMod a b = Err ZeroDiv.
Proof.
  intros Hz. unfold bv_SMod, w. pose proof Ha as Ha'. pose proof Hb as Hb'.
  destruct Ha as [Ha1 Ha2], Hb as [Hb1 Hb2]. guards.
  rewrite !signed_ok by (auto; lia). cbn [bind]. rewrite <- Hw in *.
  assert (Hsb : sval (bbits a) (bvalue b) = 0) by (apply sval_zero_iff; unfold w; lia).
  rewrite Hsb. reflexivity.
Qed.
End Signed.

(* ---- concatenation (n-ary) ---- *)

Definition concat_step (st : Z * Z) (o : bvv) : Z * Z :=
  (bvconcat (bbits o) (fst st) (bvalue o), snd st + bbits o).
Definition concat_list (l : list bvv) : Z * Z := fold_left concat_step l (0, 0).
Definition total_bits (l : list bvv) : Z := fold_right (fun o acc => bbits o + acc) 0 l.

Lemma concat_fold (f : Z * Z -> bvv -> res (Z * Z)) l :
  (forall tv tb o, f (tv, tb) o = do t <- py_shl tv (bbits o); Ok (Z.lor t (bvalue o), tb + bbits o)) ->
  forall tv tb,
  Forall wfb l -> 0 <= tb -> 0 <= tv < 2 ^ tb ->
  foldM f l (tv, tb) = Ok (fold_left concat_step l (tv, tb))
  /\ 0 <= fst (fold_left concat_step l (tv, tb)) < 2 ^ snd (fold_left concat_step l (tv, tb))
  /\ snd (fold_left concat_step l (tv, tb)) = tb + total_bits l.
Proof.
  intros Hf.
  induction l as [|o r IH]; intros tv tb Hall Htb Htv; cbn [foldM fold_left total_bits fold_right fst snd].
  - repeat split; try lia.
  - inversion Hall as [|? ? [Ho1 Ho2] Hr]; subst.
    rewrite Hf. rewrite py_shl_ok by lia. cbn [bind].
    rewrite lor_shiftl_add by lia.
    destruct (IH (tv * 2 ^ bbits o + bvalue o) (tb + bbits o) Hr ltac:(lia)
                 ltac:(apply concat_range; lia)) as (E & R & S).
    assert (Hcs : concat_step (tv, tb) o = (tv * 2 ^ bbits o + bvalue o, tb + bbits o)) by reflexivity.
    rewrite Hcs, E. split; [reflexivity|]. split; [apply R|]. rewrite S. fold (total_bits r). lia.
Qed.

Lemma concat_spec l : Forall wfb l -> total_bits l <= SHIFT_LIMIT ->
  bv_Concat l = Ok (mkbvv (fst (concat_list l)) (snd (concat_list l))).
Proof.
  intros Hall Hlim. unfold bv_Concat, concat_list.
  match goal with |- context [foldM ?f l (0, 0)] =>
    destruct (concat_fold f l ltac:(intros; reflexivity) 0 0 Hall ltac:(lia) ltac:(cbn; lia)) as (E & R & S)
  end.
  rewrite E. cbn [bind].
  destruct (fold_left concat_step l (0, 0)) as [v w] eqn:F. cbn [fst snd] in *.
  assert (0 <= total_bits l).
  { clear -Hall. induction Hall as [|o r [Ho _] _ IH]; [cbn; lia|]. change (total_bits (o :: r)) with (bbits o + total_bits r). lia. }
  rewrite BVV_ok by lia. cbn [bind]. rewrite wrap_small by lia. reflexivity.
Qed.

(* binary special case, the one SMT-LIB defines *)
Corollary concat2_spec a b : wfb a -> wfb b -> bbits a + bbits b <= SHIFT_LIMIT ->
  bv_Concat [a; b] = Ok (mkbvv (bvconcat (bbits b) (bvalue a) (bvalue b)) (bbits a + bbits b)).
Proof.
  intros Ha Hb Hl.
  assert (Hall : Forall wfb [a; b]) by (constructor; [auto|constructor; [auto|constructor]]).
  assert (Htb : total_bits [a; b] <= SHIFT_LIMIT) by (unfold total_bits; cbn [fold_right]; lia).
  rewrite (concat_spec _ Hall Htb).
  unfold concat_list, concat_step, bvconcat. cbn [fold_left fst snd].
  rewrite Z.mul_0_l, Z.add_0_l, Z.add_0_l. reflexivity.
Qed.

(* ---- rotates ---- *)

Lemma rsub_spec a b : wfb a -> wfb b -> bbits a = bbits b -> 0 < bbits a ->
  bvv___rsub__ a b = Ok (mkbvv (bvsub (bbits a) (bvalue b) (bvalue a)) (bbits a)).
Proof.
  intros [Ha1 Ha2] [Hb1 Hb2] Hw Hp. unfold bvv___rsub__. guards. rewrite BVV_ok by lia. reflexivity.
Qed.

Section Rotate.
Variables a n : bvv.
Hypothesis Ha : wfb a.
Hypothesis Hn : wfb n.
Hypothesis Hw : bbits a = bbits n.
Hypothesis Hpos : 0 < bbits a.
Let w := bbits a.

Lemma rot_amount :
  exists ks, (do c <- BVV w (bbits n); bvv___mod__ n c) = Ok ks /\ wfb ks /\ bbits ks = w
             /\ bvalue ks = bvalue n mod w /\ 0 <= bvalue ks < w.
Proof.
  unfold w. destruct Ha as [Ha1 Ha2], Hn as [Hn1 Hn2].
  pose proof (lt_pow2_self (bbits a) ltac:(lia)) as Hlt.
  rewrite BVV_ok by lia. cbn [bind]. rewrite <- Hw.
  assert (Hc : wfb (mkbvv (wrap (bbits a) (bbits a)) (bbits a))) by (apply BVV_wf; lia).
  rewrite wrap_small in * by lia.
  rewrite (urem_spec n (mkbvv (bbits a) (bbits a))) by (cbn; auto; try lia; split; lia).
  cbn [bvalue bbits]. unfold bvurem. guards. rewrite <- Hw.
  pose proof (Z.mod_pos_bound (bvalue n) (bbits a) ltac:(lia)).
  eexists; split; [reflexivity|]. unfold wfb; cbn [bvalue bbits]. repeat split; try lia.
Qed.

Lemma rotate_left_spec :
  bv_RotateLeft a n = Ok (mkbvv (rotate_left w (bvalue a) (bvalue n)) w).
Proof.
  unfold bv_RotateLeft. destruct rot_amount as (ks & E & Hks & Hkw & Hkv & Hkr).
  fold w. cbn [bind] in E |- *.
  destruct (BVV w (bbits n)) as [c| | |] eqn:Ec; cbn [bind] in E |- *; try discriminate E.
  rewrite E. cbn [bind].
  pose proof Ha as [Ha1 Ha2]. unfold w in *.
  pose proof (lt_pow2_self (bbits a) ltac:(lia)) as Hlt.
  rewrite (shl_spec a ks) by (auto; lia). cbn [bind].
  rewrite Hkw. rewrite BVV_ok by lia. cbn [bind]. rewrite wrap_small by lia.
  rewrite (rsub_spec ks (mkbvv (bbits a) (bbits a))) by (cbn; auto; try lia; split; cbn; lia).
  cbn [bind bvalue bbits]. rewrite Hkw.
  assert (Hd : wfb (mkbvv (bvsub (bbits a) (bbits a) (bvalue ks)) (bbits a))) by (apply BVV_wf; lia).
  rewrite (lshr_spec a _) by (cbn; auto; lia). cbn [bind bvalue bbits].
  rewrite or_spec; cbn [bvalue bbits]; try lia; try (apply BVV_wf; lia).
  2:{ split; cbn [bbits bvalue]; [lia|]. unfold bvlshr.
      pose proof (div_le_self (bvalue a) (2 ^ bvsub (bbits a) (bbits a) (bvalue ks)) ltac:(lia)
                    ltac:(apply pow2_pos; apply wrap_range; lia)). lia. }
  cbn [bind]. do 2 f_equal. unfold bvor, bvshl, bvlshr, rotate_left, bvsub. rewrite <- Hkv.
  destruct (Z.eq_dec (bvalue ks) 0) as [K0|K0].
  - rewrite K0. rewrite Z.sub_0_r. rewrite (wrap_small (bbits a) (bbits a)) by lia.
    rewrite (Z.div_small (bvalue a) (2 ^ bbits a)) by lia.
    rewrite Z.lor_0_r. lia.
  - rewrite (wrap_small (bbits a) (bbits a - bvalue ks)) by lia.
    apply shl_disjoint_or; lia.
Qed.

Lemma rotate_right_spec :
  bv_RotateRight a n = Ok (mkbvv (rotate_right w (bvalue a) (bvalue n)) w).
Proof.
  unfold bv_RotateRight. destruct rot_amount as (ks & E & Hks & Hkw & Hkv & Hkr).
  fold w. cbn [bind] in E |- *.
  destruct (BVV w (bbits n)) as [c| | |] eqn:Ec; cbn [bind] in E |- *; try discriminate E.
  rewrite E. cbn [bind].
  pose proof Ha as [Ha1 Ha2]. unfold w in *.
  pose proof (lt_pow2_self (bbits a) ltac:(lia)) as Hlt.
  rewrite (lshr_spec a ks) by (auto; lia). cbn [bind].
  rewrite Hkw. rewrite BVV_ok by lia. cbn [bind]. rewrite wrap_small by lia.
  rewrite (rsub_spec ks (mkbvv (bbits a) (bbits a))) by (cbn; auto; try lia; split; cbn; lia).
  cbn [bind bvalue bbits]. rewrite Hkw.
  assert (Hd : wfb (mkbvv (bvsub (bbits a) (bbits a) (bvalue ks)) (bbits a))) by (apply BVV_wf; lia).
  rewrite (shl_spec a _) by (cbn; auto; lia). cbn [bind bvalue bbits].
  rewrite or_spec; cbn [bvalue bbits]; try lia; try (apply BVV_wf; lia).
  2:{ split; cbn [bbits bvalue]; [lia|]. unfold bvlshr.
      pose proof (div_le_self (bvalue a) (2 ^ bvalue ks) ltac:(lia) ltac:(apply pow2_pos; lia)). lia. }
  cbn [bind]. do 2 f_equal. unfold bvor, bvshl, bvlshr, rotate_right, bvsub. rewrite <- Hkv.
  destruct (Z.eq_dec (bvalue ks) 0) as [K0|K0].
  - rewrite K0. rewrite Z.sub_0_r. rewrite (wrap_small (bbits a) (bbits a)) by lia.
    change (2 ^ 0) with 1. rewrite Z.div_1_r.
    assert (X : wrap (bbits a) (bvalue a * 2 ^ bbits a) = 0).
    { unfold wrap. apply Z.mod_mul. pose proof (pow2_pos (bbits a)); lia. }
    rewrite X. rewrite Z.lor_0_r. lia.
  - rewrite (wrap_small (bbits a) (bbits a - bvalue ks)) by lia.
    rewrite Z.lor_comm, Z.add_comm.
    replace (bvalue a / 2 ^ bvalue ks) with (bvalue a / 2 ^ (bbits a - (bbits a - bvalue ks)))
      by (do 2 f_equal; lia).
    apply shl_disjoint_or; lia.
Qed.
End Rotate.
