(* C17: whatever the checks answer -- in particular wherever one gives up -- _batch_eval leaves the solver's assertion
   stack exactly as it found it. *)
From Coq Require Import ZArith List Bool Arith Lia.
Require Import CV.Model.Z3Stack.
Import ListNotations.

(* the loop only touches the top frame *)
Lemma loop_tail todo : forall n i chk f r found o s',
  loop todo n i chk (f :: r) found = (o, s') -> exists f', s' = f' :: r.
Proof.
  induction todo as [|t IH]; intros n i chk f r found o s' H; cbn [loop] in H.
  - inversion H; subst. eauto.
  - destruct (chk i) as [[|]|].
    + destruct (Nat.eqb (S i) n); [eapply IH; eauto|]. cbn [assert_] in H. eapply IH; eauto.
    + inversion H; subst. eauto.
    + inversion H; subst. eauto.
Qed.

(* with n <= 1 nothing is asserted at all *)
Lemma loop_small n chk s o s' : (n <= 1)%nat -> loop n n 0 chk s 0 = (o, s') -> s' = s.
Proof.
  intros Hn H. destruct n as [|[|n]]; [cbn in H; inversion H; auto| |lia].
  cbn [loop] in H. destruct (chk 0%nat) as [[|]|]; cbn in H; inversion H; auto.
Qed.

Theorem batch_eval_restores n chk s : snd (batch_eval n chk s) = s.
Proof.
  unfold batch_eval. destruct (Nat.ltb 1 n) eqn:E.
  - destruct (loop n n 0 chk (push s) 0) as [o s2] eqn:El. cbn [snd]. unfold push in El.
    destruct (loop_tail _ _ _ _ _ _ _ _ _ El) as (f' & ->). reflexivity.
  - destruct (loop n n 0 chk s 0) as [o s2] eqn:El. cbn [snd].
    apply Nat.ltb_ge in E. eapply loop_small; eauto.
Qed.

(* the pinned code left the frame, with the blocking constraints, on the solver *)
Theorem batch_eval_pinned_refuted :
  exists n chk s, snd (batch_eval_pinned n chk s) <> s.
Proof.
  exists 3%nat, (fun k => match k with O => Some true | _ => None end), ([] : stack).
  cbn. discriminate.
Qed.
