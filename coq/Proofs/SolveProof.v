(* Correctness of the search loops, for every width and every truthful oracle. *)
From Coq Require Import ZArith List Bool Lia.
Require Import CV.Model.Solve.
Import ListNotations.
Open Scope Z_scope.

Section ExtremaProof.
Variable feasible : Z -> Prop.
Variable probe : Z -> Z -> bool.
Hypothesis probe_ok : forall a b, probe a b = true <-> exists v, feasible v /\ a <= v <= b.

Definition is_maximum (m : Z) : Prop := feasible m /\ forall v, feasible v -> v <= m.
Definition is_minimum (m : Z) : Prop := feasible m /\ forall v, feasible v -> m <= v.

(* invariant of the loop when searching the maximum *)
Definition inv_max (lo hi : Z) : Prop := (forall v, feasible v -> v <= hi) /\ (exists v, feasible v /\ lo <= v).
Definition inv_min (lo hi : Z) : Prop := (forall v, feasible v -> lo <= v) /\ (exists v, feasible v /\ v <= hi).

Lemma mid_between lo hi : 1 < hi - lo -> lo < (lo + hi) / 2 < hi.
Proof.
  intros H. pose proof (Z.div_mod (lo + hi) 2 ltac:(lia)). pose proof (Z.mod_pos_bound (lo + hi) 2 ltac:(lia)). lia.
Qed.

Lemma loop_max : forall fuel lo hi k, inv_max lo hi -> hi - lo <= Z.of_nat fuel ->
  let '(lo', hi', _) := ext_loop probe fuel true lo hi k in
  inv_max lo' hi' /\ hi' - lo' <= 1.
Proof.
  induction fuel as [|f IH]; intros lo hi k Hinv Hf; cbn [ext_loop].
  - split; [exact Hinv|lia].
  - destruct (1 <? hi - lo) eqn:E; [|apply Z.ltb_ge in E; split; [exact Hinv|lia]].
    apply Z.ltb_lt in E. pose proof (mid_between lo hi E) as Hm.
    destruct (probe ((lo + hi) / 2) hi) eqn:P; cbn [Bool.eqb].
    + apply IH; [|lia]. destruct Hinv as [Hhi _]. split; [exact Hhi|].
      apply probe_ok in P as (v & Fv & Rv). exists v. split; [auto|lia].
    + apply IH; [|lia]. destruct Hinv as [Hhi Hlo]. split; [|exact Hlo].
      intros v Fv. destruct (Z_le_gt_dec v ((lo + hi) / 2)) as [L|G]; [exact L|].
      exfalso. assert (X : probe ((lo + hi) / 2) hi = true)
        by (apply probe_ok; exists v; split; [auto|specialize (Hhi v Fv); lia]).
      congruence.
Qed.

Lemma loop_min : forall fuel lo hi k, inv_min lo hi -> hi - lo <= Z.of_nat fuel ->
  let '(lo', hi', _) := ext_loop probe fuel false lo hi k in
  inv_min lo' hi' /\ hi' - lo' <= 1.
Proof.
  induction fuel as [|f IH]; intros lo hi k Hinv Hf; cbn [ext_loop].
  - split; [exact Hinv|lia].
  - destruct (1 <? hi - lo) eqn:E; [|apply Z.ltb_ge in E; split; [exact Hinv|lia]].
    apply Z.ltb_lt in E. pose proof (mid_between lo hi E) as Hm.
    destruct (probe lo ((lo + hi) / 2)) eqn:P; cbn [Bool.eqb].
    + apply IH; [|lia]. destruct Hinv as [Hlo _]. split; [exact Hlo|].
      apply probe_ok in P as (v & Fv & Rv). exists v. split; [auto|lia].
    + apply IH; [|lia]. destruct Hinv as [Hlo Hhi]. split; [|exact Hhi].
      intros v Fv. destruct (Z_le_gt_dec ((lo + hi) / 2) v) as [L|G]; [exact L|].
      exfalso. assert (X : probe lo ((lo + hi) / 2) = true)
        by (apply probe_ok; exists v; split; [auto|specialize (Hlo v Fv); lia]).
      congruence.
Qed.

(* BackendZ3._extrema returns the true optimum whenever the feasible set is non-empty and lies within the
   initial bounds -- for every width (lo0, hi0 arbitrary) *)
Theorem extrema_max lo0 hi0 :
  (forall v, feasible v -> lo0 <= v <= hi0) -> (exists v, feasible v) ->
  is_maximum (fst (extrema probe true lo0 hi0)).
Proof.
  intros Hb (v0 & F0). unfold extrema.
  pose proof (loop_max (Z.to_nat (hi0 - lo0)) lo0 hi0 O) as L.
  destruct (ext_loop probe (Z.to_nat (hi0 - lo0)) true lo0 hi0 O) as [[lo hi] k].
  destruct L as [[Hhi (v1 & F1 & L1)] Hd].
  - split; [intros v Fv; apply Hb; auto|exists v0; split; [auto|apply Hb; auto]].
  - specialize (Hb v0 F0). lia.
  - cbn [fst]. destruct (probe hi hi) eqn:P; cbn [Bool.eqb].
    + apply probe_ok in P as (v & Fv & Rv). assert (v = hi) by lia. subst. split; auto.
    + assert (Hne : forall v, feasible v -> v <> hi).
      { intros v Fv ->. assert (probe hi hi = true) by (apply probe_ok; exists hi; split; [auto|lia]). congruence. }
      assert (v1 = lo) by (specialize (Hhi v1 F1); specialize (Hne v1 F1); lia). subst v1.
      split; [auto|]. intros v Fv. specialize (Hhi v Fv). specialize (Hne v Fv). lia.
Qed.

Theorem extrema_min lo0 hi0 :
  (forall v, feasible v -> lo0 <= v <= hi0) -> (exists v, feasible v) ->
  is_minimum (fst (extrema probe false lo0 hi0)).
Proof.
  intros Hb (v0 & F0). unfold extrema.
  pose proof (loop_min (Z.to_nat (hi0 - lo0)) lo0 hi0 O) as L.
  destruct (ext_loop probe (Z.to_nat (hi0 - lo0)) false lo0 hi0 O) as [[lo hi] k].
  destruct L as [[Hlo (v1 & F1 & L1)] Hd].
  - split; [intros v Fv; apply Hb; auto|exists v0; split; [auto|apply Hb; auto]].
  - specialize (Hb v0 F0). lia.
  - cbn [fst]. destruct (probe lo lo) eqn:P; cbn [Bool.eqb].
    + apply probe_ok in P as (v & Fv & Rv). assert (v = lo) by lia. subst. split; auto.
    + assert (Hne : forall v, feasible v -> v <> lo).
      { intros v Fv ->. assert (probe lo lo = true) by (apply probe_ok; exists lo; split; [auto|lia]). congruence. }
      assert (v1 = hi) by (specialize (Hlo v1 F1); specialize (Hne v1 F1); lia). subst v1.
      split; [auto|]. intros v Fv. specialize (Hlo v Fv). specialize (Hne v Fv). lia.
Qed.
End ExtremaProof.

Lemma NoDup_app_intro {A} (l1 l2 : list A) :
  NoDup l1 -> NoDup l2 -> (forall x, In x l1 -> ~ In x l2) -> NoDup (l1 ++ l2).
Proof.
  induction 1 as [|a l Ha Hl IH]; intros H2 Hd; cbn; [exact H2|].
  constructor.
  - intros Hin. apply in_app_or in Hin as [Hin|Hin]; [auto|]. apply (Hd a); [left; reflexivity|exact Hin].
  - apply IH; auto. intros x Hx. apply Hd. right; exact Hx.
Qed.

Section EnumerateProof.
Variable V : Type.
Variable feasible : V -> Prop.
Variable pick : list V -> option V.
Hypothesis pick_some : forall b v, pick b = Some v -> feasible v /\ ~ In v b.
Hypothesis pick_none : forall b, pick b = None -> forall v, feasible v -> In v b.

Lemma enumerate_spec : forall n blocked,
  let r := enumerate V pick n blocked in
  (forall v, In v r -> feasible v /\ ~ In v blocked) /\ NoDup r /\ (length r <= n)%nat
  /\ ((length r < n)%nat -> forall v, feasible v -> In v blocked \/ In v r).
Proof.
  induction n as [|k IH]; intros blocked; cbn [enumerate].
  - split; [intros v []|]. split; [constructor|]. split; [cbn; lia|]. intros Hl; cbn in Hl; lia.
  - destruct (pick blocked) as [v|] eqn:P.
    + destruct (pick_some _ _ P) as [Fv Nb]. destruct (IH (v :: blocked)) as (A & B & C & D).
      split; [|split; [|split]].
      * intros u [->|H]; [auto|]. destruct (A u H) as [Fu Nu]. split; [auto|]. intros Hin. apply Nu. right; auto.
      * constructor; auto. intros Hin. destruct (A v Hin) as [_ Nv]. apply Nv. left; reflexivity.
      * cbn. lia.
      * intros Hl u Fu. cbn in Hl. destruct (D ltac:(lia) u Fu) as [[->|H]|H];
          [right; left; auto|left; auto|right; right; auto].
    + split; [intros v []|]. split; [constructor|]. split; [cbn; lia|].
      intros _ v Fv. left. eapply pick_none; eauto.
Qed.

(* eval / batch_eval straight from the backend: feasible, pairwise distinct, at most n, complete if fewer *)
Theorem enumerate_correct n :
  let r := enumerate V pick n [] in
  (forall v, In v r -> feasible v) /\ NoDup r /\ (length r <= n)%nat
  /\ ((length r < n)%nat -> forall v, feasible v -> In v r).
Proof.
  destruct (enumerate_spec n []) as (A & B & C & D). repeat split; auto.
  - intros v H. apply A; auto.
  - intros Hl v Fv. destruct (D Hl v Fv) as [[]|H]; auto.
Qed.

(* the cache layer in front of it *)
Theorem cached_then_solve_correct n cached exhausted :
  (forall v, In v cached -> feasible v) -> NoDup cached ->
  (exhausted = true -> forall v, feasible v -> In v cached) ->
  let r := cached_then_solve V pick n cached exhausted in
  (forall v, In v r -> feasible v) /\ NoDup r
  /\ ((length r < n)%nat -> forall v, feasible v -> In v r).
Proof.
  intros Hc Hnd Hex. unfold cached_then_solve.
  destruct (Nat.leb n (length cached)) eqn:E; cbn [orb].
  - apply Nat.leb_le in E. repeat split; auto. intros Hl. lia.
  - destruct exhausted.
    + repeat split; auto.
    + apply Nat.leb_gt in E. destruct (enumerate_spec (n - length cached) cached) as (A & B & C & D).
      repeat split.
      * intros v H. apply in_app_or in H as [H|H]; auto. apply A; auto.
      * apply NoDup_app_intro; auto. intros v H1 H2. apply A in H2 as [_ H2]. auto.
      * intros Hl v Fv. rewrite app_length in Hl. apply in_or_app. apply D; auto. lia.
Qed.
End EnumerateProof.

(* FullFrontend.max / min on top of eval(e, 2) and the backend search *)
Section FrontendExtremum.
Variable feasible : Z -> Prop.          (* values (unsigned bit patterns) the expression can take *)
Variable key : Z -> Z.                  (* identity for unsigned queries, two's complement value for signed ones *)
Variable probe_with : (Z -> bool) -> Z -> Z -> bool.
(* a check with the two extra bound constraints [bnd] and the search interval [a, b] over keys *)
Hypothesis probe_ok : forall bnd a b,
  probe_with bnd a b = true <-> exists v, feasible v /\ bnd v = true /\ a <= key v <= b.
Variables lo0 hi0 : Z.
Hypothesis in_bounds : forall v, feasible v -> lo0 <= key v <= hi0.

Definition key_max (v : Z) : Prop := feasible v /\ forall u, feasible u -> key u <= key v.
Definition key_min (v : Z) : Prop := feasible v /\ forall u, feasible u -> key v <= key u.

Theorem frontend_max_correct two m :
  (forall v, In v two -> feasible v) -> ((length two < 2)%nat -> forall v, feasible v -> In v two) ->
  frontend_extremum probe_with true lo0 hi0 two key = Some m ->
  exists v, key_max v /\ (m = v \/ m = key v).
Proof.
  intros Hf Hc H. unfold frontend_extremum in H. destruct two as [|a [|b rest]]; [discriminate H| |].
  - inversion H; subst. exists m. split; [|left; reflexivity]. split; [apply Hf; left; reflexivity|].
    intros u Fu. destruct (Hc ltac:(cbn; lia) u Fu) as [->|[]]. lia.
  - inversion H; subst. clear H.
    set (bnd := fun v => (key a <=? key v) && (key b <=? key v)).
    set (F' := fun k => exists v, feasible v /\ bnd v = true /\ key v = k).
    assert (Hp : forall x y, probe_with bnd x y = true <-> exists k, F' k /\ x <= k <= y).
    { intros x y. rewrite probe_ok. split.
      - intros (v & Fv & Bv & Rv). exists (key v). split; [exists v; auto|exact Rv].
      - intros (k & (v & Fv & Bv & Ek) & Rk). exists v. subst k. auto. }
    assert (Fa : feasible a) by (apply Hf; left; reflexivity).
    assert (Fb : feasible b) by (apply Hf; right; left; reflexivity).
    assert (Hne : exists k, F' k).
    { destruct (Z_le_gt_dec (key a) (key b)).
      - exists (key b), b. unfold bnd. repeat split; auto. apply andb_true_iff. split; apply Z.leb_le; lia.
      - exists (key a), a. unfold bnd. repeat split; auto. apply andb_true_iff. split; apply Z.leb_le; lia. }
    assert (Hb' : forall k, F' k -> lo0 <= k <= hi0) by (intros k (v & Fv & _ & <-); apply in_bounds; auto).
    destruct (extrema_max F' (probe_with bnd) Hp lo0 hi0 Hb' Hne) as [(v & Fv & Bv & Ek) Hmax].
    exists v. split; [|right; auto]. split; auto. intros u Fu.
    destruct (bnd u) eqn:Bu.
    + rewrite Ek. apply Hmax. exists u. auto.
    + (* u is below one of the two known values, which are themselves bounded by the maximum *)
      unfold bnd in Bu, Bv. apply andb_true_iff in Bv as [B1 B2]. apply Z.leb_le in B1, B2.
      apply andb_false_iff in Bu as [Bu|Bu]; apply Z.leb_gt in Bu; lia.
Qed.

Theorem frontend_min_correct two m :
  (forall v, In v two -> feasible v) -> ((length two < 2)%nat -> forall v, feasible v -> In v two) ->
  frontend_extremum probe_with false lo0 hi0 two key = Some m ->
  exists v, key_min v /\ (m = v \/ m = key v).
Proof.
  intros Hf Hc H. unfold frontend_extremum in H. destruct two as [|a [|b rest]]; [discriminate H| |].
  - inversion H; subst. exists m. split; [|left; reflexivity]. split; [apply Hf; left; reflexivity|].
    intros u Fu. destruct (Hc ltac:(cbn; lia) u Fu) as [->|[]]. lia.
  - inversion H; subst. clear H.
    set (bnd := fun v => (key v <=? key a) && (key v <=? key b)).
    set (F' := fun k => exists v, feasible v /\ bnd v = true /\ key v = k).
    assert (Hp : forall x y, probe_with bnd x y = true <-> exists k, F' k /\ x <= k <= y).
    { intros x y. rewrite probe_ok. split.
      - intros (v & Fv & Bv & Rv). exists (key v). split; [exists v; auto|exact Rv].
      - intros (k & (v & Fv & Bv & Ek) & Rk). exists v. subst k. auto. }
    assert (Fa : feasible a) by (apply Hf; left; reflexivity).
    assert (Fb : feasible b) by (apply Hf; right; left; reflexivity).
    assert (Hne : exists k, F' k).
    { destruct (Z_le_gt_dec (key a) (key b)).
      - exists (key a), a. unfold bnd. repeat split; auto. apply andb_true_iff. split; apply Z.leb_le; lia.
      - exists (key b), b. unfold bnd. repeat split; auto. apply andb_true_iff. split; apply Z.leb_le; lia. }
    assert (Hb' : forall k, F' k -> lo0 <= k <= hi0) by (intros k (v & Fv & _ & <-); apply in_bounds; auto).
    destruct (extrema_min F' (probe_with bnd) Hp lo0 hi0 Hb' Hne) as [(v & Fv & Bv & Ek) Hmin].
    exists v. split; [|right; auto]. split; auto. intros u Fu.
    destruct (bnd u) eqn:Bu.
    + rewrite Ek. apply Hmin. exists u. auto.
    + unfold bnd in Bu, Bv. apply andb_true_iff in Bv as [B1 B2]. apply Z.leb_le in B1, B2.
      apply andb_false_iff in Bu as [Bu|Bu]; apply Z.leb_gt in Bu; lia.
Qed.
End FrontendExtremum.
