(* Structural facts about Model/Ast.v: induction principle, decidable equality, well-formedness,
   totality and range of the denotation on well-formed expressions. *)
From Coq Require Import ZArith Bool List Lia.
Require Import CV.Model.PyPrelude CV.Spec.BV CV.Model.BVExec CV.Model.Ast CV.Proofs.BVLemmas CV.Proofs.BVExecProof.
Import ListNotations.
Open Scope Z_scope.

(* ---- induction over the nested list ---- *)
Section Ind.
Variable P : expr -> Prop.
Hypothesis HBVS : forall n w, P (BVS n w).
Hypothesis HBVV : forall v w, P (BVVe v w).
Hypothesis HBoolS : forall n, P (BoolS n).
Hypothesis HBoolV : forall b, P (BoolVe b).
Hypothesis HNode : forall op ints args len, Forall P args -> P (Node op ints args len).
Fixpoint expr_ind2 (e : expr) : P e :=
  match e with
  | BVS n w => HBVS n w
  | BVVe v w => HBVV v w
  | BoolS n => HBoolS n
  | BoolVe b => HBoolV b
  | Node op ints args len =>
      HNode op ints args len
        ((fix go (l : list expr) : Forall P l :=
            match l with [] => Forall_nil P | x :: r => Forall_cons x (expr_ind2 x) (go r) end) args)
  end.
End Ind.

(* ---- expr_eqb decides equality ---- *)
Lemma opk_eqb_eq a b : opk_eqb a b = true <-> a = b.
Proof. split; [destruct a, b; cbn; congruence|intros ->; destruct b; reflexivity]. Qed.

Lemma zs_eqb_eq : forall x y,
  (fix zs (x y : list Z) := match x, y with
     | [], [] => true | p :: r, q :: s => (p =? q) && zs r s | _, _ => false end) x y = true <-> x = y.
Proof.
  induction x as [|p r IH]; destruct y as [|q s]; split; intros H; try reflexivity; try discriminate.
  - apply andb_true_iff in H as [H1 H2]. apply Z.eqb_eq in H1. apply IH in H2. congruence.
  - inversion H; subst. apply andb_true_iff. split; [apply Z.eqb_refl|apply IH; reflexivity].
Qed.

Lemma expr_eqb_eq a : forall b, expr_eqb a b = true <-> a = b.
Proof.
  induction a as [n w|v w|n|x|op ints args len IH] using expr_ind2; intros b; destruct b; cbn;
    split; intros H; try discriminate; try reflexivity.
  - apply andb_true_iff in H as [H1 H2]. apply Z.eqb_eq in H1, H2. congruence.
  - inversion H; subst. rewrite !Z.eqb_refl. reflexivity.
  - apply andb_true_iff in H as [H1 H2]. apply Z.eqb_eq in H1, H2. congruence.
  - inversion H; subst. rewrite !Z.eqb_refl. reflexivity.
  - apply Z.eqb_eq in H. congruence.
  - inversion H; subst. apply Z.eqb_refl.
  - apply Bool.eqb_prop in H. congruence.
  - inversion H; subst. apply Bool.eqb_reflx.
  - apply andb_true_iff in H as [H123 H4]. apply andb_true_iff in H123 as [H12 H3].
    apply andb_true_iff in H12 as [H1 H2].
    apply opk_eqb_eq in H1. apply Z.eqb_eq in H2. apply zs_eqb_eq in H3. subst.
    f_equal. clear - IH H4. revert args0 H4.
    induction IH as [|p r Hp Hr IHr]; intros [|q s] H4; try discriminate; try reflexivity.
    apply andb_true_iff in H4 as [Hq Hs]. apply Hp in Hq. subst. f_equal. apply IHr, Hs.
  - inversion H; subst. rewrite (proj2 (opk_eqb_eq _ _) eq_refl), Z.eqb_refl. cbn [andb].
    rewrite (proj2 (zs_eqb_eq _ _) eq_refl). cbn [andb].
    clear - IH. induction IH as [|p r Hp Hr IHr]; [reflexivity|].
    rewrite (proj2 (Hp p) eq_refl). cbn [andb]. exact IHr.
Qed.

Lemma expr_eqb_refl a : expr_eqb a a = true.
Proof. apply expr_eqb_eq. reflexivity. Qed.

(* ---- typing and well-formedness ---- *)
Definition wok (w : Z) : bool := (0 <? w) && (w <=? SHIFT_LIMIT - 2).

(* result length of [op] applied to arguments of the given lengths (-1 = Bool), if well-typed *)
Definition tyop (op : opk) (ints : list Z) (ls : list Z) : option Z :=
  match op, ints, ls with
  | (OAdd | OMul | OAnd | OOr | OXor), [], w :: r =>
      if wok w && forallb (Z.eqb w) r then Some w else None
  | (OSub | OUDiv | OURem | OSDiv | OSMod | OShl | OAShr | OLShr | ORotL | ORotR), [], [a; b] =>
      if wok a && (a =? b) then Some a else None
  | (ONeg | OInvert), [], [a] => if wok a then Some a else None
  | OReverse, [], [a] => if wok a && (a mod 8 =? 0) then Some a else None
  | OConcat, [], _ :: _ =>
      let s := fold_right Z.add 0 ls in
      if forallb wok ls && wok s then Some s else None
  | OExtract, [hi; lo], [a] => if wok a && (0 <=? lo) && (lo <=? hi) && (hi <? a) then Some (hi - lo + 1) else None
  | (OZeroExt | OSignExt), [n], [a] => if wok a && (0 <=? n) && wok (a + n) then Some (a + n) else None
  | (OEq | ONe), [], [a; b] => if (wok a || (a =? -1)) && (a =? b) then Some (-1) else None
  | (OULT | OULE | OUGT | OUGE | OSLT | OSLE | OSGT | OSGE), [], [a; b] =>
      if wok a && (a =? b) then Some (-1) else None
  | (OBAnd | OBOr), [], _ :: _ => if forallb (Z.eqb (-1)) ls then Some (-1) else None
  | OBNot, [], [a] => if a =? -1 then Some (-1) else None
  | OIf, [], [c; a; b] => if (c =? -1) && (wok a || (a =? -1)) && (a =? b) then Some a else None
  | _, _, _ => None
  end.

Fixpoint wfe (e : expr) : Prop :=
  match e with
  | BVS _ w => wok w = true
  | BVVe v w => wok w = true /\ 0 <= v < 2 ^ w
  | BoolS _ | BoolVe _ => True
  | Node op ints args len =>
      (fix all (l : list expr) : Prop := match l with [] => True | x :: r => wfe x /\ all r end) args
      /\ tyop op ints (map elen args) = Some len
  end.

Lemma wfe_node op ints args len :
  wfe (Node op ints args len) <-> Forall wfe args /\ tyop op ints (map elen args) = Some len.
Proof.
  cbn [wfe]. split; intros [H1 H2]; split; auto.
  - clear H2. induction args as [|x r IH]; [constructor|]. constructor; [apply H1|apply IH, H1].
  - clear H2. induction H1 as [|x r Hx Hr IH]; [exact I|split; auto].
Qed.

Lemma wok_spec w : wok w = true <-> 0 < w <= SHIFT_LIMIT - 2.
Proof. unfold wok. rewrite andb_true_iff, Z.ltb_lt, Z.leb_le. tauto. Qed.

(* ---- values ---- *)
Definition vlen (v : value) : Z := match v with VBV w _ => w | VBool _ => -1 end.
Definition vok (v : value) : Prop := match v with VBV w x => wok w = true /\ 0 <= x < 2 ^ w | VBool _ => True end.

Require Import CV.Proofs.SpecRange.

Definition vty (v : value) (l : Z) : Prop := vlen v = l /\ vok v.

Lemma vty_bv v l : vty v l -> wok l = true -> exists x, v = VBV l x /\ 0 <= x < 2 ^ l.
Proof.
  intros [H1 H2] Hw. destruct v as [w x|b]; cbn in *.
  - subst. exists x. tauto.
  - subst. discriminate Hw.
Qed.
Lemma vty_bool v : vty v (-1) -> exists b, v = VBool b.
Proof.
  intros [H1 H2]. destruct v as [w x|b]; cbn in *; [|eauto].
  destruct H2 as [H2 _]. apply wok_spec in H2. lia.
Qed.
Lemma vty_mk_bv w x : wok w = true -> 0 <= x < 2 ^ w -> vty (VBV w x) w.
Proof. intros. split; cbn; auto. Qed.
Lemma vty_mk_bool b : vty (VBool b) (-1).
Proof. split; cbn; auto. Qed.

Lemma wok_nonneg w : wok w = true -> 0 <= w.
Proof. intros H. apply wok_spec in H. lia. Qed.
Lemma wok_pos w : wok w = true -> 0 < w.
Proof. intros H. apply wok_spec in H. lia. Qed.

(* n-ary folds over values of one width *)
Lemma fold_bin_bv (f : Z -> Z -> Z -> Z) w :
  wok w = true -> (forall a b, inr w a -> inr w b -> inr w (f w a b)) ->
  forall vs acc, inr w acc -> Forall (fun v => vty v w) vs ->
  exists x, fold_bin (bin_bv f) (VBV w acc) vs = Some (VBV w x) /\ inr w x.
Proof.
  intros Hw Hf. induction vs as [|v r IH]; intros acc Hacc Hall; cbn [fold_bin].
  - eauto.
  - inversion Hall as [|? ? Hv Hr]; subst. destruct (vty_bv _ _ Hv Hw) as (x & -> & Hx).
    cbn [bin_bv]. rewrite Z.eqb_refl. apply IH; auto.
Qed.

Lemma nary_bv (f : Z -> Z -> Z -> Z) w vs :
  wok w = true -> (forall a b, inr w a -> inr w b -> inr w (f w a b)) ->
  vs <> [] -> Forall (fun v => vty v w) vs ->
  exists x, nary (bin_bv f) vs = Some (VBV w x) /\ inr w x.
Proof.
  intros Hw Hf Hne Hall. destruct vs as [|v r]; [congruence|]. cbn [nary].
  inversion Hall as [|? ? Hv Hr]; subst. destruct (vty_bv _ _ Hv Hw) as (x & -> & Hx).
  apply fold_bin_bv; auto.
Qed.

Lemma fold_bin_bool (f : bool -> bool -> bool) :
  forall vs acc, Forall (fun v => vty v (-1)) vs ->
  exists b, fold_bin (bool_bin f) (VBool acc) vs = Some (VBool b).
Proof.
  induction vs as [|v r IH]; intros acc Hall; cbn [fold_bin]; [eauto|].
  inversion Hall as [|? ? Hv Hr]; subst. destruct (vty_bool _ Hv) as (b & ->). cbn [bool_bin]. apply IH; auto.
Qed.

Lemma Forall2_same_len ls w (vs : list value) :
  Forall2 vty vs ls -> forallb (Z.eqb w) ls = true -> Forall (fun v => vty v w) vs.
Proof.
  intros H. induction H as [|v l vs' ls' Hv Hr IH]; cbn [forallb]; intros E; constructor.
  - apply andb_true_iff in E as [E1 _]. apply Z.eqb_eq in E1. subst. exact Hv.
  - apply IH. apply andb_true_iff in E. tauto.
Qed.

(* concat: widths accumulate *)
Lemma fold_concat : forall vs ls wacc acc,
  Forall2 vty vs ls -> forallb wok ls = true -> 0 <= wacc -> inr wacc acc ->
  exists x, fold_bin concat2 (VBV wacc acc) vs = Some (VBV (wacc + fold_right Z.add 0 ls) x)
            /\ inr (wacc + fold_right Z.add 0 ls) x.
Proof.
  induction vs as [|v r IH]; intros ls wacc acc H2 Hok Hw Hacc; inversion H2; subst; cbn [fold_bin fold_right].
  - rewrite Z.add_0_r. eauto.
  - cbn [forallb] in Hok. apply andb_true_iff in Hok as [Ho1 Ho2].
    match goal with H : vty v _ |- _ => destruct (vty_bv _ _ H Ho1) as (x & -> & Hx) end.
    cbn [concat2].
    match goal with H : Forall2 vty r ?l' |- _ =>
      destruct (IH l' (wacc + y) (bvconcat y acc x) H Ho2 ltac:(pose proof (wok_nonneg _ Ho1); lia)
                   ltac:(apply r_concat; auto; apply wok_nonneg; auto)) as (z & E & R) end.
    rewrite E. rewrite Z.add_assoc. eauto.
Qed.

Ltac inv_f2 :=
  repeat match goal with
  | H : Forall2 _ _ (_ :: _) |- _ => inversion H; subst; clear H
  | H : Forall2 _ _ [] |- _ => inversion H; subst; clear H
  | H : Forall2 _ (_ :: _) _ |- _ => inversion H; subst; clear H
  | H : Forall2 _ [] _ |- _ => inversion H; subst; clear H
  end.

Ltac split_andb :=
  repeat match goal with
  | H : _ && _ = true |- _ => apply andb_true_iff in H; destruct H
  | H : (_ =? _) = true |- _ => apply Z.eqb_eq in H
  | H : (_ <=? _) = true |- _ => apply Z.leb_le in H
  | H : (_ <? _) = true |- _ => apply Z.ltb_lt in H
  end.

Ltac t_nary :=
  match goal with
  | Hc : wok ?z && forallb (Z.eqb ?z) ?l = true, H2 : Forall2 vty ?vs (?z :: ?l) |- _ =>
     let Hw := fresh "Hw" in let Hall := fresh "Hall" in
     apply andb_true_iff in Hc as [Hw Hall];
     assert (Hv : Forall (fun v => vty v z) vs)
       by (apply (Forall2_same_len (z :: l)); [exact H2|cbn [forallb]; rewrite Z.eqb_refl; exact Hall]);
     assert (Hne : vs <> []) by (inversion H2; congruence);
     cbn [eval_op];
     match goal with
     | |- context [nary (bin_bv ?f) vs] =>
         destruct (nary_bv f z vs Hw) as (x & E & R); auto;
         [intros; first [apply r_add|apply r_mul|apply r_and|apply r_or|apply r_xor]; auto; apply wok_nonneg; auto|];
         rewrite E; eexists; split; [reflexivity|apply vty_mk_bv; auto]
     end
  end.

Ltac t_bvs :=
  repeat match goal with H : vty ?v ?w, Hw : wok ?w = true |- _ =>
           destruct (vty_bv _ _ H Hw) as (? & -> & ?); clear H end.

Ltac t_bin :=
  inv_f2; split_andb; subst; t_bvs;
  cbn [eval_op bin_bv]; rewrite Z.eqb_refl; eexists; split; [reflexivity|];
  apply vty_mk_bv; auto;
  first [apply r_sub|apply r_udiv|apply r_urem|apply r_sdiv|apply r_srem|apply r_shl_x|apply r_ashr_x
        |apply r_lshr_x|apply r_rotl|apply r_rotr]; auto;
  try (apply wok_nonneg; auto); try (apply wok_pos; auto); unfold inr in *; lia.

Ltac t_un :=
  inv_f2; match goal with H : vty ?v ?w, Hc : wok ?w = true |- _ => destruct (vty_bv _ _ H Hc) as (? & -> & ?) end;
  cbn [eval_op]; eexists; split; [reflexivity|]; apply vty_mk_bv; auto;
  first [apply r_neg|apply r_not]; apply wok_nonneg; auto.

Ltac t_cmp :=
  inv_f2; split_andb; subst; t_bvs;
  cbn [eval_op cmp_bv]; rewrite Z.eqb_refl; eexists; split; [reflexivity|apply vty_mk_bool].

Ltac t_eq :=
  inv_f2;
  let Hk := fresh "Hk" in let He := fresh "He" in
  match goal with Hc : (_ || _) && _ = true |- _ => apply andb_true_iff in Hc as [Hk He] end;
  apply Z.eqb_eq in He; subst;
  apply orb_true_iff in Hk as [Hk|Hk];
  [ t_bvs; cbn [eval_op]; rewrite Z.eqb_refl; eexists; split; [reflexivity|apply vty_mk_bool]
  | apply Z.eqb_eq in Hk; subst;
    repeat match goal with H : vty ?v (-1) |- _ => destruct (vty_bool _ H) as (? & ->); clear H end;
    cbn [eval_op]; eexists; split; [reflexivity|apply vty_mk_bool] ].

Lemma bool_nary_typed (f : bool -> bool -> bool) vs z l :
  Forall2 vty vs (z :: l) -> forallb (Z.eqb (-1)) (z :: l) = true ->
  exists b, nary (bool_bin f) vs = Some (VBool b).
Proof.
  intros H2 Hc. inversion H2; subst. cbn [nary].
  cbn [forallb] in Hc. apply andb_true_iff in Hc as [Hz Hl]. apply Z.eqb_eq in Hz. subst.
  match goal with H : vty ?v (-1) |- _ => destruct (vty_bool _ H) as (b0 & ->) end.
  apply fold_bin_bool. apply (Forall2_same_len l); auto.
Qed.

Ltac t_bool_nary :=
  match goal with
  | Hc : forallb (Z.eqb (-1)) (?z :: ?l) = true, H2 : Forall2 vty ?vs (?z :: ?l) |- _ =>
     cbn [eval_op];
     match goal with |- context [nary (bool_bin ?f) vs] =>
       let b := fresh "b" in let E := fresh "E" in
       destruct (bool_nary_typed f vs z l H2 Hc) as (b & E); rewrite E;
       eexists; split; [reflexivity|apply vty_mk_bool] end
  end.

Lemma eval_op_typed op ints vs ls len :
  Forall2 vty vs ls -> tyop op ints ls = Some len ->
  exists v, eval_op op ints vs = Some v /\ vty v len.
Proof.
  intros H2 Hty.
  destruct op; cbn [tyop] in Hty;
  repeat match type of Hty with
  | match ?l with [] => _ | _ :: _ => _ end = _ => destruct l; try discriminate Hty
  end;
  match type of Hty with (if ?c then _ else _) = _ => destruct c eqn:Hc; [|discriminate Hty] end;
  inversion Hty; subst; clear Hty.
  all: try solve [t_nary].
  all: try solve [t_bin].
  all: try solve [t_un].
  all: try solve [t_cmp].
  all: try solve [t_eq].
  all: try solve [t_bool_nary].
  - (* LShR *)
    inv_f2. split_andb. subst. t_bvs. cbn [eval_op bin_bv]. rewrite Z.eqb_refl.
    eexists; split; [reflexivity|]. apply vty_mk_bv; auto.
    apply r_lshr_x; [apply wok_nonneg; auto|assumption|lia].
  - (* Concat *)
    apply andb_true_iff in Hc as [Hall Hs]. cbn [eval_op]. inversion H2; subst. cbn [nary].
    cbn [forallb] in Hall. apply andb_true_iff in Hall as [Hz Hl].
    match goal with H : vty ?v ?z |- _ => destruct (vty_bv _ _ H Hz) as (xx & -> & Hxx) end.
    match goal with H : Forall2 vty ?r ?l |- _ =>
      destruct (fold_concat r l _ xx H Hl (wok_nonneg _ Hz) Hxx) as (yy & E & R) end.
    rewrite E. cbn [fold_right] in *. eexists; split; [reflexivity|apply vty_mk_bv; auto].
  - (* Extract *)
    inv_f2. apply andb_true_iff in Hc as [Hc G4]. apply andb_true_iff in Hc as [Hc G3].
    apply andb_true_iff in Hc as [Hw G1].
    match goal with H : vty ?v ?w |- _ => destruct (vty_bv _ _ H Hw) as (xx & -> & Hxx) end.
    cbn [eval_op]. rewrite G1, G3, G4. cbn [andb].
    apply Z.leb_le in G1, G3. apply Z.ltb_lt in G4. apply wok_spec in Hw.
    eexists; split; [reflexivity|]. apply vty_mk_bv; [apply wok_spec; lia|apply r_extract; lia].
  - (* ZeroExt *)
    inv_f2. apply andb_true_iff in Hc as [Hc G4]. apply andb_true_iff in Hc as [Hw G1].
    match goal with H : vty ?v ?w |- _ => destruct (vty_bv _ _ H Hw) as (xx & -> & Hxx) end.
    cbn [eval_op]. rewrite G1. apply Z.leb_le in G1.
    eexists; split; [reflexivity|]. apply vty_mk_bv; auto. apply r_zext; auto. apply wok_nonneg; auto.
  - (* SignExt *)
    inv_f2. apply andb_true_iff in Hc as [Hc G4]. apply andb_true_iff in Hc as [Hw G1].
    match goal with H : vty ?v ?w |- _ => destruct (vty_bv _ _ H Hw) as (xx & -> & Hxx) end.
    cbn [eval_op]. rewrite G1. apply Z.leb_le in G1.
    eexists; split; [reflexivity|]. apply vty_mk_bv; auto. apply r_sext; auto. apply wok_nonneg; auto.
  - (* Reverse *)
    inv_f2. apply andb_true_iff in Hc as [Hw G1].
    match goal with H : vty ?v ?w |- _ => destruct (vty_bv _ _ H Hw) as (xx & -> & Hxx) end.
    cbn [eval_op]. rewrite G1. apply Z.eqb_eq in G1.
    eexists; split; [reflexivity|]. apply vty_mk_bv; auto. apply r_reverse; auto. apply wok_nonneg; auto.
  - (* Not *)
    inv_f2. apply Z.eqb_eq in Hc. subst.
    match goal with H : vty ?v (-1) |- _ => destruct (vty_bool _ H) as (? & ->) end.
    cbn [eval_op]. eexists; split; [reflexivity|apply vty_mk_bool].
  - (* If *)
    inv_f2. apply andb_true_iff in Hc as [Hc He]. apply andb_true_iff in Hc as [Hc Hk].
    apply Z.eqb_eq in Hc, He. subst.
    match goal with H : vty ?v (-1) |- _ => destruct (vty_bool _ H) as (c & ->); clear H end.
    apply orb_true_iff in Hk as [Hk|Hk].
    + t_bvs. cbn [eval_op]. rewrite Z.eqb_refl. eexists; split; [reflexivity|]. apply vty_mk_bv; auto.
      destruct c; auto.
    + apply Z.eqb_eq in Hk. subst.
      repeat match goal with H : vty ?v (-1) |- _ => destruct (vty_bool _ H) as (? & ->); clear H end.
      cbn [eval_op]. eexists; split; [reflexivity|apply vty_mk_bool].
Qed.

Lemma sequence_Forall2 {A B} (P : A -> B -> Prop) (f : B -> option A) (l : list B) :
  Forall (fun b => exists a, f b = Some a /\ P a b) l ->
  exists vs, sequence (map f l) = Some vs /\ Forall2 P vs l.
Proof.
  induction 1 as [|b r (a & E & Pa) Hr (vs & Es & F2)]; cbn [map sequence].
  - exists []. split; [reflexivity|constructor].
  - rewrite E, Es. exists (a :: vs). split; [reflexivity|constructor; auto].
Qed.

Lemma Forall2_map_r {A B C} (P : A -> C -> Prop) (g : B -> C) vs (l : list B) :
  Forall2 (fun a b => P a (g b)) vs l -> Forall2 P vs (map g l).
Proof. induction 1; cbn; constructor; auto. Qed.

Lemma eval_args_wf rho args :
  Forall (fun e => exists v, eval rho e = Some v /\ vty v (elen e)) args ->
  exists vs, sequence (map (eval rho) args) = Some vs /\ Forall2 vty vs (map elen args).
Proof.
  intros H. destruct (sequence_Forall2 (fun v e => vty v (elen e)) (eval rho) args H) as (vs & E & F).
  exists vs. split; [exact E|apply Forall2_map_r; exact F].
Qed.

Theorem eval_wf rho e : wfe e -> exists v, eval rho e = Some v /\ vty v (elen e).
Proof.
  induction e as [n w|v w|n|b|op ints args len IH] using expr_ind2; intros Hwf.
  - cbn in *. eexists; split; [reflexivity|]. apply vty_mk_bv; auto. apply wrap_range. apply wok_nonneg; auto.
  - cbn in *. destruct Hwf. eexists; split; [reflexivity|]. apply vty_mk_bv; auto.
  - cbn. eexists; split; [reflexivity|apply vty_mk_bool].
  - cbn. eexists; split; [reflexivity|apply vty_mk_bool].
  - apply wfe_node in Hwf as [Hargs Hty].
    assert (H : Forall (fun e => exists v, eval rho e = Some v /\ vty v (elen e)) args).
    { clear Hty. induction IH as [|x r Hx Hr IHr]; [constructor|].
      inversion Hargs; subst. constructor; auto. }
    destruct (eval_args_wf rho args H) as (vs & E & F).
    cbn [eval elen]. rewrite E. apply (eval_op_typed op ints vs (map elen args) len F Hty).
Qed.

(* a well-formed expression is either Boolean (-1) or has a positive width *)
Lemma wfe_len e : wfe e -> elen e = -1 \/ wok (elen e) = true.
Proof.
  intros H. destruct (eval_wf (mkEnv (fun _ => 0) (fun _ => false)) e H) as (v & _ & [Hl Hv]).
  destruct v; cbn in *; [right; subst; tauto|left; auto].
Qed.

Lemma eval_bv rho e : wfe e -> wok (elen e) = true ->
  exists x, eval rho e = Some (VBV (elen e) x) /\ 0 <= x < 2 ^ elen e.
Proof.
  intros H Hw. destruct (eval_wf rho e H) as (v & E & T).
  destruct (vty_bv _ _ T Hw) as (x & -> & Hx). eauto.
Qed.
Lemma eval_bool rho e : wfe e -> elen e = -1 -> exists b, eval rho e = Some (VBool b).
Proof.
  intros H Hl. destruct (eval_wf rho e H) as (v & E & T). rewrite Hl in T.
  destruct (vty_bool _ T) as (b & ->). eauto.
Qed.
