(* C06: the pieces of the hash-consing key are injective: the integer encoding round-trips, and the framing of a node with
   expression arguments, annotation hashes and optional length can be decoded back. *)
From Coq Require Import ZArith List Bool Lia Arith.
Require Import CV.Model.HashCons.
Import ListNotations.
Open Scope Z_scope.

(* ---------- integers ---------- *)
Lemma le_value_bytes n : forall v, 0 <= v < 256 ^ Z.of_nat n -> le_value (le_bytes n v) = v.
Proof.
  induction n as [|k IH]; intros v Hv; cbn [le_bytes le_value].
  - cbn in Hv. lia.
  - rewrite IH.
    + pose proof (Z.div_mod v 256). lia.
    + rewrite Nat2Z.inj_succ, Z.pow_succ_r in Hv by lia. split; [apply Z.div_pos; lia|apply Z.div_lt_upper_bound; lia].
Qed.

Lemma le_bytes_length n v : length (le_bytes n v) = n.
Proof. revert v. induction n; intros; cbn; auto. Qed.

Lemma bit_length_bound z : Z.abs z < 2 ^ bit_length z.
Proof.
  unfold bit_length. destruct (Z.abs z) eqn:E.
  - change (2 ^ 0) with 1. lia.
  - replace (Z.log2 (Z.pos p) + 1) with (Z.succ (Z.log2 (Z.pos p))) by lia.
    pose proof (Z.log2_spec (Z.pos p) (Pos2Z.is_pos p)) as H. tauto.
  - pose proof (Z.abs_nonneg z). lia.
Qed.

Lemma bit_length_nonneg z : 0 <= bit_length z.
Proof. unfold bit_length. destruct (Z.abs z) as [|p|p]; [lia| |]; pose proof (Z.log2_nonneg (Z.pos p)); pose proof (Z.log2_nonneg (Z.neg p)); lia. Qed.

Theorem int_roundtrip z : dec_int (enc_int z) = z.
Proof.
  unfold dec_int, enc_int. rewrite le_bytes_length.
  pose proof (bit_length_nonneg z) as Hb. pose proof (bit_length_bound z) as Hz.
  set (n := nbytes z).
  assert (Hn : 0 < n) by (unfold n, nbytes; apply Z.div_str_pos; lia).
  rewrite Z2Nat.id by lia.
  assert (Hpow : 256 ^ n = 2 ^ (8 * n)) by (rewrite Z.pow_mul_r by lia; reflexivity).
  assert (H8 : bit_length z + 8 <= 8 * n).
  { unfold n, nbytes. pose proof (Z.div_mod (bit_length z + 15) 8 ltac:(lia)). pose proof (Z.mod_pos_bound (bit_length z + 15) 8 ltac:(lia)). lia. }
  assert (Hhalf : Z.abs z < 2 ^ (8 * n - 1)).
  { apply Z.lt_le_trans with (2 ^ bit_length z); [exact Hz|]. apply Z.pow_le_mono_r; lia. }
  assert (Hdbl : 2 ^ (8 * n) = 2 * 2 ^ (8 * n - 1)) by (rewrite <- Z.pow_succ_r by lia; f_equal; lia).
  assert (Hp : 0 < 2 ^ (8 * n - 1)) by (apply Z.pow_pos_nonneg; lia).
  assert (H256 : 0 < 256 ^ n) by (apply Z.pow_pos_nonneg; lia).
  assert (Hrange : 0 <= z mod 256 ^ n < 256 ^ Z.of_nat (Z.to_nat n)).
  { rewrite Z2Nat.id by lia. apply Z.mod_pos_bound. exact H256. }
  rewrite (le_value_bytes _ _ Hrange).
  rewrite Hpow, Hdbl.
  replace (2 * 2 ^ (8 * n - 1) / 2) with (2 ^ (8 * n - 1))
    by (replace (2 * 2 ^ (8 * n - 1)) with (2 ^ (8 * n - 1) * 2) by lia; rewrite Z.div_mul by lia; reflexivity).
  destruct (Z_lt_le_dec z 0) as [Hneg|Hpos].
  - assert (Hm : z mod (2 * 2 ^ (8 * n - 1)) = z + 2 * 2 ^ (8 * n - 1)).
    { symmetry. apply Z.mod_unique with (-1); lia. }
    rewrite Hm. destruct (z + 2 * 2 ^ (8 * n - 1) <? 2 ^ (8 * n - 1)) eqn:E; [apply Z.ltb_lt in E; lia|lia].
  - rewrite Z.mod_small by lia. destruct (z <? 2 ^ (8 * n - 1)) eqn:E; [reflexivity|apply Z.ltb_ge in E; lia].
Qed.

Corollary enc_int_injective a b : enc_int a = enc_int b -> a = b.
Proof. intros H. rewrite <- (int_roundtrip a), <- (int_roundtrip b), H. reflexivity. Qed.

(* ---------- framing ---------- *)
Definition len8 (h : list Z) : Prop := length h = 8%nat.

Lemma item_length o c h : len8 h -> length (item o c h) = 10%nat.
Proof. unfold len8, item. intros H. cbn [length]. rewrite app_length, H. reflexivity. Qed.

Lemma payload_item o c h : len8 h -> payload (item o c h) = h.
Proof.
  unfold len8, payload, item. intros H. change (skipn 1 (o :: h ++ [c])) with (h ++ [c]).
  rewrite firstn_app, H, Nat.sub_diag, firstn_O, app_nil_r. rewrite <- H. apply firstn_all.
Qed.

Lemma concat_items_length o c l : Forall len8 l -> length (concat (map (item o c) l)) = (10 * length l)%nat.
Proof.
  induction 1 as [|h r Hh Hr IH]; cbn [map concat length]; [reflexivity|].
  rewrite app_length, item_length, IH by auto. lia.
Qed.

Lemma chunks_items o c l rest : Forall len8 l ->
  chunks (length l) (concat (map (item o c) l) ++ rest) = map (item o c) l.
Proof.
  induction 1 as [|h r Hh Hr IH]; cbn [map concat length chunks]; [reflexivity|].
  rewrite <- app_assoc.
  assert (H10 : length (item o c h) = 10%nat) by (apply item_length; auto).
  rewrite firstn_app, H10, Nat.sub_diag, firstn_O, app_nil_r.
  rewrite (firstn_all2 (item o c h)) by lia. f_equal.
  rewrite skipn_app, H10, Nat.sub_diag.
  rewrite (skipn_all2 (item o c h)) by lia. cbn [skipn app]. exact IH.
Qed.

Lemma skipn_skipn' {A} (a b : nat) (l : list A) : skipn a (skipn b l) = skipn (b + a) l.
Proof. revert l. induction b as [|k IH]; intros l; cbn [skipn Nat.add]; [reflexivity|]. destruct l; [destruct a; reflexivity|apply IH]. Qed.

Lemma chunks_app n m s : chunks (n + m) s = chunks n s ++ chunks m (skipn (10 * n) s).
Proof.
  revert s. induction n as [|k IH]; intros s; cbn [Nat.add chunks app].
  - reflexivity.
  - rewrite IH. f_equal. f_equal. rewrite skipn_skipn'. replace (10 * S k)%nat with (10 + 10 * k)%nat by lia. reflexivity.
Qed.

Theorem unbody_body args anns len :
  Forall len8 args -> Forall len8 anns -> (match len with Some l => len8 l | None => True end) ->
  unbody (body args anns len) = (args, anns, len).
Proof.
  intros Ha Hn Hl. unfold unbody, body.
  set (A := concat (map (item LT GT) args)). set (N := concat (map (item LP RP) anns)).
  set (L := match len with Some l => l | None => [] end).
  assert (HA : length A = (10 * length args)%nat) by (apply concat_items_length; auto).
  assert (HN : length N = (10 * length anns)%nat) by (apply concat_items_length; auto).
  assert (HL : length L = match len with Some _ => 8%nat | None => 0%nat end) by (destruct len; [exact Hl|reflexivity]).
  assert (HT : length (A ++ N ++ L) = (10 * (length args + length anns) + length L)%nat) by (rewrite !app_length; lia).
  assert (Hk : Nat.div (length (A ++ N ++ L)) 10 = (length args + length anns)%nat).
  { rewrite HT. destruct len; rewrite HL.
    - rewrite Nat.mul_comm, Nat.div_add_l by lia. change (8 / 10)%nat with 0%nat. lia.
    - rewrite Nat.add_0_r, Nat.mul_comm, Nat.div_mul by lia. reflexivity. }
  assert (Hm : Nat.modulo (length (A ++ N ++ L)) 10 = length L).
  { rewrite HT. rewrite Nat.add_comm, Nat.mul_comm, Nat.mod_add by lia. destruct len; rewrite HL; reflexivity. }
  rewrite Hk, Hm.
  assert (Hcs : chunks (length args + length anns) (A ++ N ++ L) = map (item LT GT) args ++ map (item LP RP) anns).
  { rewrite chunks_app. unfold A at 1. rewrite chunks_items by auto. f_equal.
    rewrite skipn_app, HA, Nat.sub_diag. rewrite (skipn_all2 A) by lia. cbn [skipn app].
    unfold N. apply chunks_items. auto. }
  rewrite Hcs.
  assert (Fa : filter is_arg (map (item LT GT) args ++ map (item LP RP) anns) = map (item LT GT) args).
  { rewrite filter_app.
    assert (E1 : filter is_arg (map (item LT GT) args) = map (item LT GT) args) by (clear; induction args; cbn; [auto|f_equal; auto]).
    assert (E2 : filter is_arg (map (item LP RP) anns) = []) by (clear; induction anns; cbn; auto).
    rewrite E1, E2, app_nil_r. reflexivity. }
  assert (Fn : filter (fun c => negb (is_arg c)) (map (item LT GT) args ++ map (item LP RP) anns) = map (item LP RP) anns).
  { rewrite filter_app.
    assert (E1 : filter (fun c => negb (is_arg c)) (map (item LT GT) args) = []) by (clear; induction args; cbn; auto).
    assert (E2 : filter (fun c => negb (is_arg c)) (map (item LP RP) anns) = map (item LP RP) anns)
      by (clear; induction anns; cbn; [auto|f_equal; auto]).
    rewrite E1, E2. reflexivity. }
  rewrite Fa, Fn.
  assert (Pa : map payload (map (item LT GT) args) = args).
  { clear -Ha. induction Ha as [|h r Hh Hr IH]; cbn [map]; [auto|]. rewrite payload_item by auto. f_equal. auto. }
  assert (Pn : map payload (map (item LP RP) anns) = anns).
  { clear -Hn. induction Hn as [|h r Hh Hr IH]; cbn [map]; [auto|]. rewrite payload_item by auto. f_equal. auto. }
  rewrite Pa, Pn. f_equal.
  (* the length field *)
  assert (Hsk : skipn (10 * (length args + length anns)) (A ++ N ++ L) = L).
  { rewrite app_assoc. rewrite skipn_app.
    assert (E : length (A ++ N) = (10 * (length args + length anns))%nat) by (rewrite app_length; lia).
    rewrite (skipn_all2 (A ++ N)) by lia. rewrite E, Nat.sub_diag. reflexivity. }
  rewrite Hsk. destruct len as [l|]; rewrite HL; cbn [Nat.eqb]; reflexivity.
Qed.

Corollary body_injective args anns len args' anns' len' :
  Forall len8 args -> Forall len8 anns -> (match len with Some l => len8 l | None => True end) ->
  Forall len8 args' -> Forall len8 anns' -> (match len' with Some l => len8 l | None => True end) ->
  body args anns len = body args' anns' len' -> args = args' /\ anns = anns' /\ len = len'.
Proof.
  intros H1 H2 H3 H4 H5 H6 E.
  pose proof (unbody_body args anns len H1 H2 H3) as U1. pose proof (unbody_body args' anns' len' H4 H5 H6) as U2.
  rewrite E in U1. rewrite U1 in U2. inversion U2. auto.
Qed.
