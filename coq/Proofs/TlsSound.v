(* C20: with per-thread caches every object a thread obtains belongs to its own context and denotes the requested
   expression, whatever the interleaving; with one shared cache that fails. *)
From Coq Require Import ZArith List Bool Arith Lia.
Require Import CV.Model.Tls.
Import ListNotations.

(* every cached object of thread t is in t's context and keyed by its own expression *)
Definition tinv (s : tls) : Prop := forall t e o, clookup (s t) e = Some o -> o_ctx o = t /\ o_expr o = e.

Lemma clookup_cons k v c e : clookup ((k, v) :: c) e = if Nat.eqb k e then Some v else clookup c e.
Proof. reflexivity. Qed.

Lemma convert_inv s t e : tinv s -> let '(o, s') := convert s t e in tinv s' /\ o_ctx o = t /\ o_expr o = e.
Proof.
  intros H. unfold convert. destruct (clookup (s t) e) as [o|] eqn:E.
  - split; [exact H|]. apply (H t e o E).
  - split; [|split; reflexivity].
    intros u e' o' Hl. unfold tls_set in Hl. destruct (Nat.eqb u t) eqn:Eu.
    + apply Nat.eqb_eq in Eu. subst u. rewrite clookup_cons in Hl. destruct (Nat.eqb e e') eqn:Ee.
      * apply Nat.eqb_eq in Ee. subst e'. inversion Hl; subst. split; reflexivity.
      * apply (H t e' o' Hl).
    + apply (H u e' o' Hl).
Qed.

(* a conversion by one thread leaves the caches of all other threads untouched *)
Lemma convert_other s t e u : u <> t -> snd (convert s t e) u = s u.
Proof.
  intros Hu. unfold convert. destruct (clookup (s t) e); cbn [snd]; [reflexivity|].
  unfold tls_set. destruct (Nat.eqb u t) eqn:E; [apply Nat.eqb_eq in E; contradiction|reflexivity].
Qed.

Theorem run_own_context reqs : forall s, tinv s ->
  Forall2 (fun req o => o_ctx o = fst req /\ o_expr o = snd req) reqs (fst (run s reqs)).
Proof.
  induction reqs as [|[t e] r IH]; intros s H; cbn [run]; [constructor|].
  pose proof (convert_inv s t e H) as Hc. destruct (convert s t e) as [o s1]. destruct Hc as (H1 & Ho).
  specialize (IH s1 H1). destruct (run s1 r) as [os s2]. cbn [fst] in *. constructor; auto.
Qed.

Lemma tinv_empty : tinv (fun _ => []).
Proof. intros t e o H. discriminate. Qed.

(* one shared cache: the second thread is handed the first thread's object *)
Theorem shared_cache_refuted :
  exists reqs, ~ Forall2 (fun req o => o_ctx o = fst req /\ o_expr o = snd req) reqs (fst (run_shared [] reqs)).
Proof.
  exists [(1, 7); (2, 7)]%nat. cbn. intros H. inversion H as [|? ? ? ? _ H2]; subst.
  inversion H2 as [|? ? ? ? (Hc & _) _]; subst. cbn in Hc. discriminate.
Qed.
