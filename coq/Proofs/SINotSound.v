(* C21: bitwise_not (as repaired) is sound: the result contains the complement of every member. *)
From Coq Require Import ZArith List Bool Lia.
Require Import CV.Model.PyPrelude CV.Gen.SIHelpers CV.Model.SI CV.Model.SICmp CV.Model.SIUnion CV.Model.SINot.
Require Import CV.Proofs.SISound CV.Proofs.SICmpSound CV.Proofs.SIUnionSound.
Import ListNotations.
Open Scope Z_scope.

(* every member is lb + j * (the stride of the whole interval) of a piece that does not wrap, not beyond its upper bound *)
Lemma ssplit_cover_s a ps x : wf a -> ssplit a = Ok ps -> gamma a x ->
  exists p, In p ps /\ 0 <= lb p /\ lb p <= ub p /\ ub p < 2 ^ bits a /\ exists j, 0 <= j /\ x = lb p + j * stride a /\ x <= ub p.
Proof.
  intros Hwf Hps Hg. pose proof Hwf as (Hb & Hw & Hs & Hl & Hu). destruct Hg as (_ & k & Hk & Hks & Hx).
  pose proof (pow_pos (bits a) ltac:(lia)) as Hn.
  unfold ssplit in Hps. rewrite max_int_ok in Hps by lia. cbn [bind] in Hps.
  unfold span in Hks.
  destruct (ub a <? lb a) eqn:E.
  - apply Z.ltb_lt in E.
    unfold py_mod in Hps. destruct (stride a =? 0) eqn:Es; [discriminate|]. apply Z.eqb_neq in Es.
    cbn [bind] in Hps.
    assert (Hsp : 0 < stride a) by lia.
    set (n := 2 ^ bits a) in *.
    pose proof (Z.div_mod (n - 1 - lb a) (stride a) ltac:(lia)) as Hdm.
    pose proof (Z.mod_pos_bound (n - 1 - lb a) (stride a) Hsp) as Hr.
    assert (Hq : 0 <= (n - 1 - lb a) / stride a) by (apply Z.div_pos; lia).
    set (q := (n - 1 - lb a) / stride a) in *.
    set (r := (n - 1 - lb a) mod stride a) in *.
    assert (Hau : lb a <= n - 1 - r < n) by nia.
    destruct (mk (bits a) (stride a) (lb a) (n - 1 - r)) as [A| | |] eqn:EA; try discriminate.
    cbn [bind] in Hps. rewrite modular_add_ok in Hps by lia. cbn [bind] in Hps. fold n in Hps.
    destruct (mk (bits a) (stride a) ((n - 1 - r + stride a) mod n) (ub a)) as [B| | |] eqn:EB; try discriminate.
    cbn [bind] in Hps. inversion Hps; subst ps; clear Hps.
    rewrite (mod_minus n (ub a - lb a)) in Hks by lia.
    destruct (Z.lt_ge_cases (lb a + k * stride a) n) as [Hlt|Hge].
    + rewrite Z.mod_small in Hx by nia. assert (k <= q) by nia.
      apply mk_bounds in EA; [|lia|fold n; lia|fold n; lia]. fold n in EA.
      exists A. split; [left; reflexivity|].
      destruct EA as [[-> ->]|(-> & -> & _ & E1)].
      * split; [lia|]. split; [lia|]. split; [lia|]. exists k. nia.
      * split; [lia|]. split; [lia|]. split; [lia|]. exists x. nia.
    + rewrite (mod_plus n) in Hx by nia.
      assert (Hkq : q + 1 <= k) by nia.
      assert (Hsn : stride a < n) by nia.
      rewrite (mod_plus n) in EB by nia.
      apply mk_bounds in EB; [|lia|fold n; nia|fold n; lia]. fold n in EB.
      exists B. split; [right; left; reflexivity|].
      destruct EB as [[-> ->]|(-> & -> & _ & E1)].
      * split; [nia|]. split; [nia|]. split; [lia|]. exists (k - q - 1). nia.
      * split; [lia|]. split; [lia|]. split; [lia|]. exists x. nia.
  - apply Z.ltb_ge in E. inversion Hps; subst ps; clear Hps.
    exists a. split; [left; reflexivity|]. split; [lia|]. split; [exact E|]. split; [lia|].
    rewrite Z.mod_small in Hks by lia. rewrite Z.mod_small in Hx by nia. exists k. nia.
Qed.

(* the complement of a plain member of a piece is a member of what not_piece builds *)
Lemma not_piece_sound w s p r x j :
  0 < w < SHIFT_LIMIT -> 0 <= s -> (s = 0 -> lb p = ub p) -> 0 <= lb p -> lb p <= ub p -> ub p < 2 ^ w ->
  0 <= j -> x = lb p + j * s -> x <= ub p ->
  not_piece w s p = Ok r -> wf r /\ bits r = w /\ gamma r (2 ^ w - 1 - x).
Proof.
  intros Hw Hs Hp Hl Hlu Hu Hj Hx Hxu Hr.
  pose proof (pow_pos w ltac:(lia)) as Hn.
  unfold not_piece in Hr.
  set (n := 2 ^ w) in *.
  assert (Hlast : exists last q, (if 0 <? s then (do r0 <- py_mod (ub p - lb p) s; Ok (ub p - r0)) else Ok (ub p)) = Ok last /\
                                 0 <= q /\ last = lb p + q * s /\ j <= q /\ last <= ub p).
  { destruct (0 <? s) eqn:Es.
    - apply Z.ltb_lt in Es. unfold py_mod. destruct (s =? 0) eqn:Ez; [apply Z.eqb_eq in Ez; lia|]. cbn [bind].
      pose proof (Z.div_mod (ub p - lb p) s ltac:(lia)) as Hdm.
      pose proof (Z.mod_pos_bound (ub p - lb p) s Es) as Hr0.
      assert (Hq : 0 <= (ub p - lb p) / s) by (apply Z.div_pos; lia).
      exists (ub p - (ub p - lb p) mod s), ((ub p - lb p) / s). split; [reflexivity|]. split; [exact Hq|].
      set (q0 := (ub p - lb p) / s) in *. set (r0 := (ub p - lb p) mod s) in *.
      split; [lia|]. split; [|lia].
      assert (j * s <= q0 * s + r0) by lia. nia.
    - apply Z.ltb_ge in Es. assert (s = 0) by lia. exists (ub p), j. split; [reflexivity|]. split; [lia|].
      split; [rewrite (Hp H), H; lia|]. split; lia. }
  destruct Hlast as (last & q & Hlast & Hq & Hlq & Hjq & Hlastu). rewrite Hlast in Hr. cbn [bind] in Hr.
  destruct (mk_sound w s (- last - 1) (- lb p - 1) Hw Hs) as (r' & Hr' & Hwf & Hbits & Hg).
  rewrite Hr in Hr'. inversion Hr'; subst r'; clear Hr'.
  split; [exact Hwf|]. split; [exact Hbits|]. apply Hg.
  split; [reflexivity|]. exists (q - j). cbn [stride lb ub bits]. unfold span; cbn [lb ub bits]. fold n.
  replace (- lb p - 1 - (- last - 1)) with (q * s) by lia.
  assert (Hqs : 0 <= q * s < n) by nia.
  rewrite (Z.mod_small (q * s)) by lia.
  split; [lia|]. split; [nia|].
  replace (- last - 1 + (q - j) * s) with (n - 1 - x + (-1) * n) by nia.
  rewrite Z.mod_add by lia. symmetry. apply Z.mod_small. nia.
Qed.

Lemma mapM_in {A B} (f : A -> res B) l : forall rs a, mapM f l = Ok rs -> In a l -> exists b, f a = Ok b /\ In b rs.
Proof.
  induction l as [|a0 l IH]; intros rs a H Hin; [destruct Hin|].
  cbn [mapM] in H. destruct (f a0) as [b0| | |] eqn:E0; try discriminate. cbn [bind] in H.
  destruct (mapM f l) as [rs0| | |] eqn:E1; try discriminate. cbn [bind] in H. inversion H; subst rs; clear H.
  destruct Hin as [->|Hin].
  - exists b0. split; [exact E0|left; reflexivity].
  - destruct (IH rs0 a eq_refl Hin) as (b & Hb & Hin'). exists b. split; [exact Hb|right; exact Hin'].
Qed.

Lemma mapM_all {A B} (f : A -> res B) (P : B -> Prop) l :
  (forall a b, f a = Ok b -> P b) -> forall rs, mapM f l = Ok rs -> Forall P rs.
Proof.
  intros Hf. induction l as [|a0 l IH]; intros rs H; cbn [mapM] in H; [inversion H; constructor|].
  destruct (f a0) as [b0| | |] eqn:E0; try discriminate. cbn [bind] in H.
  destruct (mapM f l) as [rs0| | |] eqn:E1; try discriminate. cbn [bind] in H. inversion H; subst rs; clear H.
  constructor; [exact (Hf a0 b0 E0)|exact (IH rs0 eq_refl)].
Qed.

Theorem not_sound a r x : wf a -> proper a -> si_not a = Ok r -> gamma a x ->
  wf r /\ bits r = bits a /\ gamma r (2 ^ bits a - 1 - x).
Proof.
  intros Hwf Hp Hr Hg. pose proof Hwf as (_ & Hw & Hs & _).
  unfold si_not in Hr. destruct (ssplit a) as [ps| | |] eqn:Eps; try discriminate. cbn [bind] in Hr.
  destruct (mapM (not_piece (bits a) (stride a)) (filter (fun p => negb (ub p <? lb p)) ps)) as [rs| | |] eqn:Ers; try discriminate.
  cbn [bind] in Hr.
  destruct (ssplit_cover_s a ps x Hwf Eps Hg) as (p & Hin & Hl & Hlu & Hu & j & Hj & Hx & Hxu).
  assert (Hlive : In p (filter (fun p => negb (ub p <? lb p)) ps)).
  { apply filter_In. split; [exact Hin|]. destruct (Z.ltb_spec (ub p) (lb p)); [lia|reflexivity]. }
  destruct (mapM_in _ _ rs p Ers Hlive) as (rp & Hrp & Hinr).
  assert (Hpp : stride a = 0 -> lb p = ub p).
  { intros E0. assert (j * stride a = 0) by (rewrite E0; lia).
    (* with stride 0 the interval is a single value and is not split *)
    unfold ssplit in Eps. rewrite max_int_ok in Eps by lia. cbn [bind] in Eps.
    destruct (ub a <? lb a) eqn:Ew.
    - unfold py_mod in Eps. rewrite E0 in Eps. cbn in Eps. discriminate.
    - inversion Eps; subst ps. destruct Hin as [<-|[]]. exact (Hp E0). }
  destruct (not_piece_sound (bits a) (stride a) p rp x j Hw Hs Hpp Hl Hlu Hu Hj Hx Hxu Hrp) as (Hwfp & Hbp & Hgp).
  assert (Hall : Forall (fun r0 => wf r0 /\ bits r0 = bits a) rs).
  { apply (mapM_all (not_piece (bits a) (stride a)) (fun r0 => wf r0 /\ bits r0 = bits a) (filter (fun p => negb (ub p <? lb p)) ps)); [|exact Ers].
    intros p0 b0 Hb0. unfold not_piece in Hb0.
    destruct (if 0 <? stride a then _ else _) as [l0| | |]; try discriminate. cbn [bind] in Hb0.
    destruct (mk_sound (bits a) (stride a) (- l0 - 1) (- lb p0 - 1) Hw Hs) as (r' & Hr' & Hwf' & Hb' & _).
    rewrite Hb0 in Hr'. inversion Hr'; subst r'. split; assumption. }
  destruct rs as [|r1 [|r2 [|r3 rs']]]; try discriminate.
  - destruct Hinr as [<-|[]].
    destruct (normalize_sound r1 (wf_rawok _ Hwfp)) as (r' & Hr' & Hwf' & Hb' & Hg').
    rewrite Hr in Hr'. inversion Hr'; subst r'. split; [exact Hwf'|]. split; [congruence|]. apply Hg'. exact Hgp.
  - inversion Hall as [|? ? (W1 & B1) Hall2]; subst. inversion Hall2 as [|? ? (W2 & B2) _]; subst.
    destruct (union_sound r1 r2 W1 W2 ltac:(congruence)) as (u & Hu' & Wu & Bu & Gu).
    rewrite Hu' in Hr. cbn [bind] in Hr.
    destruct (normalize_sound u (wf_rawok _ Wu)) as (r' & Hr' & Hwf' & Hb' & Hg').
    rewrite Hr in Hr'. inversion Hr'; subst r'. split; [exact Hwf'|]. split; [congruence|]. apply Hg'. apply Gu.
    destruct Hinr as [<-|[<-|[]]]; [left|right]; exact Hgp.
Qed.

(* the premises are met and the repaired rule computes: 4 bits ~2[0, 5] = ~{0, 2, 4} = {15, 13, 11} = 2[11, 15];
   a wrapping interval: ~4[14, 6] = ~{14, 2, 6} = {1, 13, 9} *)
Example not_examples :
  wf (mkSI 4 2 0 5 false) /\ proper (mkSI 4 2 0 5 false) /\ si_not (mkSI 4 2 0 5 false) = Ok (mkSI 4 2 11 15 false) /\
  (exists r, si_not (mkSI 4 4 14 6 false) = Ok r /\ In 1 (members r) /\ In 13 (members r) /\ In 9 (members r)).
Proof.
  split; [repeat split; cbn; unfold SHIFT_LIMIT; lia|]. split; [intros H; discriminate H|].
  split; [vm_compute; reflexivity|]. eexists. split; [vm_compute; reflexivity|]. vm_compute. tauto.
Qed.

(* ---- totality: bitwise_not answers for every proper interval ---- *)

Lemma ssplit_shape a : wf a -> (lb a <= ub a \/ 0 < stride a) ->
  (ssplit a = Ok [a] /\ lb a <= ub a) \/
  (exists A B, ssplit a = Ok [A; B] /\ lb A <= ub A /\ wf A /\ wf B /\ bits A = bits a /\ bits B = bits a).
Proof.
  intros (Hb & Hw & Hs & Hl & Hu) Hc.
  pose proof (pow_pos (bits a) ltac:(lia)) as Hn.
  unfold ssplit. rewrite max_int_ok by lia. cbn [bind].
  destruct (ub a <? lb a) eqn:E; [|left; split; [reflexivity|apply Z.ltb_ge in E; exact E]].
  apply Z.ltb_lt in E. right. unfold py_mod. destruct (stride a =? 0) eqn:Es; [apply Z.eqb_eq in Es; lia|]. cbn [bind].
  assert (Hsp : 0 < stride a) by lia.
  pose proof (Z.mod_pos_bound (2 ^ bits a - 1 - lb a) (stride a) Hsp) as Hr.
  pose proof (Z.mod_le (2 ^ bits a - 1 - lb a) (stride a) ltac:(lia) Hsp) as Hrle.
  set (r := (2 ^ bits a - 1 - lb a) mod stride a) in *.
  destruct (mk_sound (bits a) (stride a) (lb a) (2 ^ bits a - 1 - r) Hw Hs) as (A & EA & WA & BA & _).
  rewrite EA. cbn [bind]. rewrite modular_add_ok by lia. cbn [bind].
  match goal with |- context [mk ?w ?s ?l ?u] => destruct (mk_sound w s l u Hw Hs) as (B & EB & WB & BB & _) end.
  rewrite EB. cbn [bind]. exists A, B. split; [reflexivity|].
  split; [|split; [exact WA|split; [exact WB|split; [exact BA|exact BB]]]].
  apply mk_bounds in EA; [|lia|lia|lia]. destruct EA as [[-> ->]|(-> & -> & _)]; lia.
Qed.

Lemma not_piece_total w s p : 0 < w < SHIFT_LIMIT -> 0 <= s -> exists r, not_piece w s p = Ok r /\ wf r /\ bits r = w.
Proof.
  intros Hw Hs. unfold not_piece.
  assert (Hl : exists last, (if 0 <? s then (do r0 <- py_mod (ub p - lb p) s; Ok (ub p - r0)) else Ok (ub p)) = Ok last).
  { destruct (0 <? s) eqn:E; [|eexists; reflexivity]. apply Z.ltb_lt in E. unfold py_mod.
    destruct (s =? 0) eqn:Ez; [apply Z.eqb_eq in Ez; lia|]. cbn [bind]. eexists; reflexivity. }
  destruct Hl as (last & ->). cbn [bind].
  destruct (mk_sound w s (- last - 1) (- lb p - 1) Hw Hs) as (r & Hr & Wr & Br & _). exists r. auto.
Qed.

Theorem not_total a : wf a -> proper a -> exists r, si_not a = Ok r.
Proof.
  intros Hwf Hp. pose proof Hwf as (Hb & Hw & Hs & Hl & Hu).
  assert (Hc : lb a <= ub a \/ 0 < stride a).
  { destruct (Z.eq_dec (stride a) 0) as [E|E]; [left; rewrite (Hp E); lia|right; lia]. }
  unfold si_not.
  destruct (ssplit_shape a Hwf Hc) as [[-> Hle]|(A & B & -> & HA & WA & WB & BA & BB)]; cbn [bind filter].
  - destruct (Z.ltb_spec (ub a) (lb a)); [lia|]. cbn [negb mapM].
    destruct (not_piece_total (bits a) (stride a) a Hw Hs) as (r1 & -> & W1 & B1). cbn [bind].
    destruct (normalize_sound r1 (wf_rawok _ W1)) as (r & Hr & _). exists r. exact Hr.
  - destruct (Z.ltb_spec (ub A) (lb A)); [lia|]. cbn [negb].
    destruct (not_piece_total (bits a) (stride a) A Hw Hs) as (r1 & E1 & W1 & B1).
    destruct (ub B <? lb B); cbn [negb mapM]; rewrite E1; cbn [bind].
    + destruct (normalize_sound r1 (wf_rawok _ W1)) as (r & Hr & _). exists r. exact Hr.
    + destruct (not_piece_total (bits a) (stride a) B Hw Hs) as (r2 & -> & W2 & B2). cbn [bind].
      destruct (union_sound r1 r2 W1 W2 ltac:(congruence)) as (u & -> & Wu & _). cbn [bind].
      destruct (normalize_sound u (wf_rawok _ Wu)) as (r & Hr & _). exists r. exact Hr.
Qed.

(* the total form used by the lifting to sets of intervals *)
Theorem not_sound_total a : wf a -> proper a ->
  exists r, si_not a = Ok r /\ wf r /\ bits r = bits a /\ forall x, gamma a x -> gamma r (2 ^ bits a - 1 - x).
Proof.
  intros Hwf Hp. destruct (not_total a Hwf Hp) as (r & Hr). exists r. split; [exact Hr|].
  split; [|split].
  - pose proof Hwf as (Hb & Hw & Hs & Hl & Hu).
    destruct (not_sound a r (lb a) Hwf Hp Hr) as (W & _).
    + split; [exact Hb|]. exists 0. pose proof (span_range a ltac:(lia)). split; [lia|]. split; [lia|].
      rewrite Z.mul_0_l, Z.add_0_r, Z.mod_small; lia.
    + exact W.
  - pose proof Hwf as (Hb & Hw & Hs & Hl & Hu).
    destruct (not_sound a r (lb a) Hwf Hp Hr) as (_ & B & _).
    + split; [exact Hb|]. exists 0. pose proof (span_range a ltac:(lia)). split; [lia|]. split; [lia|].
      rewrite Z.mul_0_l, Z.add_0_r, Z.mod_small; lia.
    + exact B.
  - intros x Hx. exact (proj2 (proj2 (not_sound a r x Hwf Hp Hr Hx))).
Qed.
