(* C09: every entry of the regenerated Z3 operator tables that lies in the bitvector/Boolean fragment maps a Z3 operator to a
   claripy operation with the same SMT-LIB meaning. *)
From Coq Require Import ZArith List Bool String Lia.
Require Import CV.Spec.BV CV.Model.BVExec CV.Model.Ast CV.Model.Z3Conv CV.Gen.Z3OpMap.
Import ListNotations.

Ltac entry :=
  unfold entry_ok, raw_ok; cbn [fst snd excepted String.eqb Ascii.eqb Bool.eqb orb zsem_kind zsem_mk csem opk_of_name option_map];
  first [exact I | intros ints vs; try reflexivity;
         unfold z_nary, z_bin, z_cmp, z_eq, z_ne; cbn [eval_op];
         destruct ints as [|? ?]; try reflexivity;
         repeat (let v := fresh "v" in destruct vs as [|v vs]; try reflexivity; try (destruct v; try reflexivity))].

Theorem op_map_ok : Forall entry_ok op_map.
Proof. unfold op_map. repeat (constructor; [entry|]). constructor. Qed.

Theorem op_raw_ok : Forall raw_ok op_raw_mk.
Proof. unfold op_raw_mk. repeat (constructor; [entry|]). constructor. Qed.

(* the statement is not empty: this many entries of op_map are constrained by it *)
Theorem op_map_covered : (39 <= List.length (filter covered op_map))%nat.
Proof. vm_compute. lia. Qed.

(* the excepted entries really are wrong: Z3's bvsmod (sign of the divisor) is mapped to claripy's SMod (sign of the dividend) *)
Theorem bsmod_entry_refuted :
  In ("Z3_OP_BSMOD"%string, Some "SMod"%string) op_map /\
  exists f g ints vs, zsem_kind "Z3_OP_BSMOD" = Some f /\ csem "SMod" = Some g /\ f ints vs <> g ints vs.
Proof.
  split; [vm_compute; tauto|].
  eexists _, _, [], [VBV 4 13; VBV 4 2]. split; [reflexivity|]. split; [reflexivity|]. vm_compute. discriminate.
Qed.
