(* C21: StridedInterval.zero_extend only relabels the width.  That is sound for an interval that does not wrap around
   (lower bound <= upper bound) and not for one that does. *)
From Coq Require Import ZArith List Bool Lia.
Require Import CV.Model.PyPrelude CV.Model.SI CV.Proofs.SISound.
Import ListNotations.
Open Scope Z_scope.

(* zero_extend(new_length): a copy with _bits = new_length *)
Definition si_zext (a : si) (n : Z) : si := mkSI n (stride a) (lb a) (ub a) (bot a).

Theorem zext_sound a n x : wf a -> lb a <= ub a -> bits a <= n -> gamma a x -> gamma (si_zext a n) x.
Proof.
  intros (Hb & Hw & Hs & Hl & Hu) Hle Hn (Hbot & k & Hk & Hks & Hx).
  assert (Hp : 0 < 2 ^ bits a) by (apply Z.pow_pos_nonneg; lia).
  assert (Hpn : 2 ^ bits a <= 2 ^ n) by (apply Z.pow_le_mono_r; lia).
  assert (Hspan : span a = ub a - lb a) by (unfold span; apply Z.mod_small; lia).
  rewrite Hspan in Hks.
  assert (Hx' : x = lb a + k * stride a) by (rewrite Hx; apply Z.mod_small; nia).
  split; [exact Hbot|]. exists k. split; [exact Hk|]. unfold span, si_zext. cbn [bits stride lb ub].
  rewrite (Z.mod_small (ub a - lb a)) by lia. split; [exact Hks|]. rewrite Hx'. symmetry. apply Z.mod_small. nia.
Qed.

(* the wrapping interval 2-bit 3[1, 0] = {1, 0} loses its member 0 when relabelled to 3 bits: 3[1, 0] = {1, 4, 7} *)
Theorem zext_wrapping_refuted :
  let a := mkSI 2 3 1 0 false in wf a /\ gamma a 0 /\ ~ In 0 (members (si_zext a 3)).
Proof.
  cbv zeta. split; [repeat split; cbn; unfold SHIFT_LIMIT; lia|]. split.
  - split; [reflexivity|]. exists 1. cbn. repeat split; lia.
  - vm_compute. intros [H|[H|[H|[]]]]; discriminate H.
Qed.
