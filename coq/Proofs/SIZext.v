(* C21: StridedInterval.zero_extend.  Relabelling the width is sound for an interval that does not wrap around
   (lower bound <= upper bound) and not for one that does (the pinned rule); the repaired function splits a wrapping interval
   first and is sound for every interval. *)
From Coq Require Import ZArith List Bool Lia.
Require Import CV.Model.PyPrelude CV.Gen.SIHelpers CV.Model.SI CV.Model.SICmp CV.Model.SIUnion CV.Model.SIZextM.
Require Import CV.Proofs.SISound CV.Proofs.SICmpSound CV.Proofs.SIUnionSound.
Import ListNotations.
Open Scope Z_scope.

Lemma relabel_sound a n x : wf a -> lb a <= ub a -> bits a <= n -> gamma a x -> gamma (relabel a n) x.
Proof.
  intros (Hb & Hw & Hs & Hl & Hu) Hle Hn (Hbot & k & Hk & Hks & Hx).
  assert (Hp : 0 < 2 ^ bits a) by (apply Z.pow_pos_nonneg; lia).
  assert (Hpn : 2 ^ bits a <= 2 ^ n) by (apply Z.pow_le_mono_r; lia).
  assert (Hspan : span a = ub a - lb a) by (unfold span; apply Z.mod_small; lia).
  rewrite Hspan in Hks.
  assert (Hx' : x = lb a + k * stride a) by (rewrite Hx; apply Z.mod_small; nia).
  split; [exact Hbot|]. exists k. split; [exact Hk|]. unfold span, relabel. cbn [bits stride lb ub].
  rewrite (Z.mod_small (ub a - lb a)) by lia. split; [exact Hks|]. rewrite Hx'. symmetry. apply Z.mod_small. nia.
Qed.

Lemma relabel_wf a n : wf a -> bits a <= n < SHIFT_LIMIT -> wf (relabel a n).
Proof.
  intros (Hb & Hw & Hs & Hl & Hu) Hn.
  assert (Hpn : 2 ^ bits a <= 2 ^ n) by (apply Z.pow_le_mono_r; lia).
  unfold wf, relabel; cbn [bot bits stride lb ub]. repeat split; try lia; assumption.
Qed.

(* every piece of _ssplit is a well-formed interval of the same width *)
Lemma ssplit_wf a ps : wf a -> ssplit a = Ok ps -> Forall (fun p => wf p /\ bits p = bits a) ps.
Proof.
  intros Hwf Hps. pose proof Hwf as (Hb & Hw & Hs & Hl & Hu).
  unfold ssplit in Hps. rewrite max_int_ok in Hps by lia. cbn [bind] in Hps.
  destruct (ub a <? lb a).
  - destruct (py_mod _ _) as [r| | |]; try discriminate. cbn [bind] in Hps.
    destruct (mk_sound (bits a) (stride a) (lb a) (2 ^ bits a - 1 - r) Hw Hs) as (A & EA & WA & BA & _).
    rewrite EA in Hps. cbn [bind] in Hps.
    destruct (si_modular_add _ _ _) as [bl| | |]; try discriminate. cbn [bind] in Hps.
    destruct (mk_sound (bits a) (stride a) bl (ub a) Hw Hs) as (B & EB & WB & BB & _).
    rewrite EB in Hps. cbn [bind] in Hps. inversion Hps.
    constructor; [split; assumption|]. constructor; [split; assumption|]. constructor.
  - inversion Hps. constructor; [split; [exact Hwf|reflexivity]|]. constructor.
Qed.

Lemma plain_gamma p x : wf p -> plain_member p x -> gamma p x.
Proof.
  intros (Hb & Hw & Hs & Hl & Hu) (Hlu & j & Hj & Hx & Hxu).
  split; [exact Hb|]. exists j. split; [exact Hj|]. unfold span. rewrite Z.mod_small by lia.
  split; [lia|]. rewrite <- Hx. symmetry. apply Z.mod_small. lia.
Qed.

Theorem zext_sound a n r x : wf a -> bits a <= n < SHIFT_LIMIT -> si_zext a n = Ok r -> gamma a x ->
  wf r /\ bits r = n /\ gamma r x.
Proof.
  intros Hwf Hn Hr Hg. pose proof Hwf as (Hb & Hw & _). unfold si_zext in Hr. rewrite Hb in Hr. cbn [orb] in Hr.
  destruct (lb a <=? ub a) eqn:E.
  - apply Z.leb_le in E. inversion Hr; subst r. split; [apply relabel_wf; assumption|]. split; [reflexivity|].
    apply relabel_sound; [exact Hwf|exact E|lia|exact Hg].
  - destruct (ssplit a) as [ps| | |] eqn:Eps; try discriminate. cbn [bind] in Hr.
    destruct (ssplit_cover a ps x Hwf Eps Hg) as (p & Hin & Hwp & Hbp & Hm).
    pose proof (ssplit_wf a ps Hwf Eps) as Hall.
    assert (Hlive : In p (filter (fun p => negb (ub p <? lb p)) ps)).
    { apply filter_In. split; [exact Hin|]. destruct Hm as (Hlu & _). destruct (Z.ltb_spec (ub p) (lb p)); [lia|reflexivity]. }
    assert (Hgp : gamma (relabel p n) x).
    { apply relabel_sound; [exact Hwp|exact (proj1 Hm)|lia|exact (plain_gamma p x Hwp Hm)]. }
    assert (Hall' : Forall (fun p => wf p /\ bits p = bits a) (filter (fun p => negb (ub p <? lb p)) ps)).
    { rewrite Forall_forall in *. intros q Hq. apply filter_In in Hq. exact (Hall q (proj1 Hq)). }
    destruct (filter (fun p => negb (ub p <? lb p)) ps) as [|p1 [|p2 [|p3 l]]]; try discriminate.
    + destruct Hlive as [<-|[]]. inversion Hr; subst r.
      split; [apply relabel_wf; [exact Hwp|lia]|]. split; [reflexivity|exact Hgp].
    + inversion Hall' as [|? ? (W1 & B1) Hall2]; subst. inversion Hall2 as [|? ? (W2 & B2) _]; subst.
      destruct (union_sound (relabel p1 n) (relabel p2 n) (relabel_wf p1 n W1 ltac:(lia)) (relabel_wf p2 n W2 ltac:(lia)) eq_refl)
        as (u & Hu & Wu & Bu & Gu).
      rewrite Hu in Hr. inversion Hr; subst r. split; [exact Wu|]. split; [exact Bu|]. apply Gu.
      destruct Hlive as [<-|[<-|[]]]; [left|right]; exact Hgp.
Qed.

(* the pinned rule (relabelling only): the wrapping interval 2-bit 3[1, 0] = {1, 0} loses its member 0 when relabelled to
   3 bits, 3[1, 0] = {1, 4, 7}; the repaired function returns 1[0, 1] *)
Theorem zext_wrapping_refuted :
  let a := mkSI 2 3 1 0 false in wf a /\ gamma a 0 /\ ~ In 0 (members (relabel a 3)) /\
  exists r, si_zext a 3 = Ok r /\ In 0 (members r) /\ In 1 (members r).
Proof.
  cbv zeta. split; [repeat split; cbn; unfold SHIFT_LIMIT; lia|]. split.
  - split; [reflexivity|]. exists 1. cbn. repeat split; lia.
  - split; [vm_compute; intros [H|[H|[H|[]]]]; discriminate H|].
    eexists. split; [vm_compute; reflexivity|]. vm_compute. tauto.
Qed.
