(* The numeral codec is the identity: parsing in chunks of any size gives the numeral's value, printing in chunks gives
   a numeral of the value, so a value of any width survives the trip through Z3's decimal strings. *)
From Coq Require Import ZArith List Bool Lia.
Require Import CV.Model.Numeral.
Import ListNotations.
Open Scope Z_scope.

Lemma dval_acc ds : forall a, fold_left (fun acc d => acc * 10 + d) ds a = a * 10 ^ Z.of_nat (length ds) + dval ds.
Proof.
  unfold dval. induction ds as [|d r IH]; intros a; cbn [fold_left length].
  - cbn. lia.
  - rewrite IH. rewrite (IH (0 * 10 + d)). rewrite Nat2Z.inj_succ, Z.pow_succ_r by lia. ring.
Qed.

Lemma dval_app a b : dval (a ++ b) = dval a * 10 ^ Z.of_nat (length b) + dval b.
Proof. unfold dval at 1. rewrite fold_left_app. fold (dval a). apply dval_acc. Qed.

Lemma dval_cons d r : dval (d :: r) = d * 10 ^ Z.of_nat (length r) + dval r.
Proof. change (d :: r) with ([d] ++ r). rewrite dval_app. cbn. lia. Qed.

(* ---------- parsing ---------- *)

Theorem parse_chunks_value k : (0 < k)%nat -> forall fuel s v, (length s <= fuel)%nat ->
  parse_chunks fuel k s v = v * 10 ^ Z.of_nat (length s) + dval s.
Proof.
  intros Hk. induction fuel as [|f IH]; intros s v Hlen.
  - destruct s; [|cbn in Hlen; lia]. cbn. lia.
  - cbn [parse_chunks]. destruct s as [|d r] eqn:Es; [cbn; lia|]. rewrite <- Es in *.
    assert (Hsk : (length (skipn k s) <= f)%nat).
    { rewrite skipn_length. rewrite Es in *. cbn [length] in *. lia. }
    rewrite IH by exact Hsk.
    assert (Hd : dval s = dval (firstn k s) * 10 ^ Z.of_nat (length (skipn k s)) + dval (skipn k s))
      by (rewrite <- dval_app, firstn_skipn; reflexivity).
    assert (Hl : length s = (length (firstn k s) + length (skipn k s))%nat)
      by (rewrite <- app_length, firstn_skipn; reflexivity).
    rewrite Hd, Hl, Nat2Z.inj_add, Z.pow_add_r by lia. ring.
Qed.

Theorem str_to_int_value k s : (0 < k)%nat -> str_to_int k s = dval s.
Proof. intros Hk. unfold str_to_int. rewrite parse_chunks_value by auto. lia. Qed.

(* ---------- decimal digits ---------- *)

Lemma digits_fuel_value fuel : forall v, 0 <= v -> v < 2 ^ Z.of_nat fuel * 10 -> dval (digits_fuel fuel v) = v.
Proof.
  induction fuel as [|f IH]; intros v Hv Hb; cbn [digits_fuel].
  - cbn in Hb. unfold dval. cbn. rewrite Z.mod_small; lia.
  - destruct (v <? 10) eqn:E; [unfold dval; cbn; lia|]. apply Z.ltb_ge in E.
    rewrite dval_app. cbn [length]. change (Z.of_nat 1) with 1. rewrite Z.pow_1_r.
    rewrite IH.
    + unfold dval. cbn. pose proof (Z.div_mod v 10). lia.
    + apply Z.div_pos; lia.
    + rewrite Nat2Z.inj_succ, Z.pow_succ_r in Hb by lia.
      apply Z.div_lt_upper_bound; [lia|]. nia.
Qed.

Lemma log2_bound v : 0 < v -> v < 2 ^ Z.of_nat (Z.to_nat (Z.log2 v + 1)).
Proof.
  intros Hv. rewrite Z2Nat.id by (pose proof (Z.log2_nonneg v); lia).
  replace (Z.log2 v + 1) with (Z.succ (Z.log2 v)) by lia. apply Z.log2_spec. exact Hv.
Qed.

Theorem digits_value v : 0 <= v -> dval (digits v) = v.
Proof.
  intros Hv. unfold digits. destruct (Z.eq_dec v 0) as [->|Hn]; [reflexivity|].
  apply digits_fuel_value; [lia|]. pose proof (log2_bound v ltac:(lia)). nia.
Qed.

Lemma dval_repeat0 n s : dval (repeat 0 n ++ s) = dval s.
Proof.
  induction n as [|n IH]; cbn [repeat app]; [reflexivity|]. rewrite dval_cons, IH. lia.
Qed.

Lemma dval_zfill k s : dval (zfill k s) = dval s.
Proof. apply dval_repeat0. Qed.

(* ---------- printing ---------- *)

Lemma digits_fuel_length fuel : forall v k, 0 <= v -> v < 10 ^ Z.of_nat k -> (0 < k)%nat ->
  (length (digits_fuel fuel v) <= Nat.max k 1)%nat -> True.
Proof. auto. Qed.

Theorem print_chunks_value k : (0 < k)%nat -> forall fuel v acc, 0 <= v -> v < 2 ^ Z.of_nat fuel ->
  dval (print_chunks fuel k v acc) = v * 10 ^ Z.of_nat (length acc) + dval acc.
Proof.
  intros Hk. assert (Hmd : 10 <= 10 ^ Z.of_nat k).
  { replace 10 with (10 ^ 1) at 1 by reflexivity. apply Z.pow_le_mono_r; lia. }
  induction fuel as [|f IH]; intros v acc Hv Hb; cbn [print_chunks].
  - cbn in Hb. assert (v = 0) by lia. subst. lia.
  - destruct (v <=? 0) eqn:E; [assert (v = 0) by lia; subst; lia|]. apply Z.leb_gt in E.
    set (md := 10 ^ Z.of_nat k) in *.
    assert (Hq : 0 <= v / md) by (apply Z.div_pos; lia).
    assert (Hqb : v / md < 2 ^ Z.of_nat f).
    { rewrite Nat2Z.inj_succ, Z.pow_succ_r in Hb by lia. apply Z.div_lt_upper_bound; [lia|]. nia. }
    rewrite IH by auto.
    pose proof (Z.mod_pos_bound v md ltac:(lia)) as Hm.
    (* the chunk has the value v mod md; when it is padded it has exactly k digits *)
    destruct (0 <? v / md) eqn:Eq.
    + (* padded: length k *)
      assert (Hlen : length (zfill k (digits (v mod md))) = k \/ (k < length (digits (v mod md)))%nat).
      { unfold zfill. rewrite app_length, repeat_length. lia. }
      rewrite app_length, dval_app, dval_zfill, digits_value by lia.
      destruct Hlen as [Hl|Hl].
      * rewrite Hl. rewrite Nat2Z.inj_add, Z.pow_add_r by lia. fold md.
        pose proof (Z.div_mod v md ltac:(lia)). nia.
      * (* a chunk below 10^k never has more than k digits *)
        exfalso. revert Hl. apply Nat.le_ngt.
        assert (Hd : forall fuel' x n, 0 <= x < 10 ^ Z.of_nat n -> (0 < n)%nat -> (length (digits_fuel fuel' x) <= n)%nat).
        { clear. induction fuel' as [|g IHg]; intros x n Hx Hn; cbn [digits_fuel]; [cbn; lia|].
          destruct (x <? 10) eqn:E; [cbn; lia|]. apply Z.ltb_ge in E. rewrite app_length. cbn [length].
          destruct n as [|[|n']]; [lia| |].
          - cbn in Hx. lia.
          - assert ((length (digits_fuel g (x / 10)) <= S n')%nat).
            { apply IHg; [|lia]. split; [apply Z.div_pos; lia|].
              apply Z.div_lt_upper_bound; [lia|]. rewrite (Nat2Z.inj_succ (S n')), Z.pow_succ_r in Hx by lia. lia. }
            lia. }
        apply Hd; [fold md; lia|lia].
    + (* last chunk: v < md *)
      apply Z.ltb_ge in Eq. assert (Hz : v / md = 0) by lia.
      assert (Hsm : v < md).
      { destruct (Z_lt_le_dec v md); auto. exfalso.
        assert (1 <= v / md) by (apply Z.div_le_lower_bound; lia). lia. }
      rewrite Hz, Z.mod_small by lia. rewrite dval_app, digits_value by lia. lia.
Qed.

Theorem int_to_str_value k v : (0 < k)%nat -> 0 <= v -> dval (int_to_str k v) = v.
Proof.
  intros Hk Hv. unfold int_to_str. destruct (v =? 0) eqn:E; [apply Z.eqb_eq in E; subst; reflexivity|].
  apply Z.eqb_neq in E. rewrite print_chunks_value; [cbn; lia|auto|lia|apply log2_bound; lia].
Qed.

(* the round trip, for any two chunk sizes *)
Theorem numeral_roundtrip k k' v : (0 < k)%nat -> (0 < k')%nat -> 0 <= v -> str_to_int k' (int_to_str k v) = v.
Proof. intros. rewrite str_to_int_value by auto. apply int_to_str_value; auto. Qed.

(* the value read from a model numeral is the numeral's value, whichever path is taken *)
Theorem abstract_bv_val_id k fits v : (0 < k)%nat -> 0 <= v -> abstract_bv_val k fits v = v.
Proof.
  intros Hk Hv. unfold abstract_bv_val. destruct fits; [reflexivity|].
  rewrite str_to_int_value by auto. apply digits_value. exact Hv.
Qed.
