(* C15 (and the state model behind C14): fe_add / fe_merge / combine / split of the frontend bookkeeping. *)
From Coq Require Import ZArith Bool List Lia Permutation.
Require Import CV.Model.PyPrelude CV.Model.Ast CV.Model.Build CV.Model.Rewrite CV.Model.Frontend
               CV.Proofs.AstLemmas CV.Proofs.BuildSound CV.Proofs.FlattenSound CV.Proofs.SimpSound CV.Proofs.RewriteSound.
Import ListNotations.
Open Scope Z_scope.

(* every constraint ever seen is implied by the current constraints *)
Definition Inv (s : fe) : Prop :=
  forall rho, models rho (cs s) = true -> forall e, In e (seen s) -> holds rho e = true.

Lemma inv_blank : Inv blank. Proof. intros rho _ e []. Qed.

Lemma models_app rho a b : models rho (a ++ b) = models rho a && models rho b.
Proof. apply forallb_app. Qed.

Lemma holds_true rho c : is_true c = true -> holds rho c = true.
Proof. destruct c as [| | |[|]|]; try discriminate. reflexivity. Qed.
Lemma holds_false rho c : is_false c = true -> holds rho c = false.
Proof. destruct c as [| | |[|]|]; try discriminate. reflexivity. Qed.

Lemma filter_new_sem rho new : models rho (filter_new new) = models rho new.
Proof.
  unfold filter_new. destruct (existsb is_false new) eqn:E.
  - rewrite models_app. replace (models rho [BoolVe false]) with false by reflexivity. rewrite andb_false_r.
    apply existsb_exists in E as (c & Hin & Hc). symmetry. unfold models.
    apply not_true_is_false. intros H. rewrite forallb_forall in H. specialize (H c Hin).
    rewrite (holds_false rho c Hc) in H. discriminate.
  - clear E. induction new as [|c r IH]; cbn [filter models forallb]; [reflexivity|].
    destruct (is_true c) eqn:Et; cbn [negb models forallb].
    + rewrite (holds_true rho c Et). exact IH.
    + unfold models in IH. rewrite IH. reflexivity.
Qed.

Lemma mem_expr_in c l : mem_expr c l = true -> In c l.
Proof.
  induction l as [|y r IH]; cbn; [discriminate|]. intros H. apply orb_true_iff in H as [H|H].
  - apply expr_eqb_eq in H. auto.
  - auto.
Qed.

Lemma add_each_sem l : forall s, Inv s ->
  Inv (add_each s l) /\ forall rho, models rho (cs (add_each s l)) = models rho (cs s) && models rho l.
Proof.
  induction l as [|c r IH]; intros s Hs; cbn [add_each].
  - split; [auto|]. intros rho. cbn. rewrite andb_true_r. reflexivity.
  - destruct (mem_expr c (seen s)) eqn:Em.
    + destruct (IH s Hs) as (I1 & I2). split; [auto|]. intros rho. rewrite I2. cbn [models forallb].
      destruct (models rho (cs s)) eqn:Ec; [|reflexivity]. cbn [andb].
      rewrite (Hs rho Ec c (mem_expr_in _ _ Em)). reflexivity.
    + assert (Hs' : Inv (mkFe (cs s ++ [c]) (c :: seen s))).
      { intros rho Hm e [<-|Hin]; cbn [cs seen] in *; rewrite models_app in Hm; apply andb_true_iff in Hm as [H1 H2].
        - cbn in H2. rewrite andb_true_r in H2. exact H2.
        - apply (Hs rho H1 e Hin). }
      destruct (IH _ Hs') as (I1 & I2). split; [auto|]. intros rho. rewrite I2. cbn [cs]. rewrite models_app.
      cbn [models forallb]. rewrite andb_true_r, andb_assoc. reflexivity.
Qed.

Theorem add_sem s new : Inv s ->
  Inv (fe_add s new) /\ forall rho, models rho (cs (fe_add s new)) = models rho (cs s) && models rho new.
Proof.
  intros Hs. unfold fe_add. destruct new as [|c r].
  - split; [auto|]. intros rho. cbn. rewrite andb_true_r. reflexivity.
  - destruct (add_each_sem (filter_new (c :: r)) s Hs) as (I1 & I2). split; [auto|].
    intros rho. rewrite I2, filter_new_sem. reflexivity.
Qed.

(* ---------- combine ---------- *)

Theorem combine_sem s others :
  Inv (combine_fe s others) /\
  forall rho, models rho (cs (combine_fe s others)) = forallb (fun o => models rho (cs o)) (s :: others).
Proof.
  unfold combine_fe.
  assert (G : forall l acc, Inv acc ->
            Inv (fold_left (fun a o => fe_add a (cs o)) l acc) /\
            forall rho, models rho (cs (fold_left (fun a o => fe_add a (cs o)) l acc)) =
                        models rho (cs acc) && forallb (fun o => models rho (cs o)) l).
  { induction l as [|o r IH]; intros acc Ha; cbn [fold_left forallb].
    - split; [auto|]. intros rho. rewrite andb_true_r. reflexivity.
    - destruct (add_sem acc (cs o) Ha) as (A1 & A2). destruct (IH _ A1) as (I1 & I2). split; [auto|].
      intros rho. rewrite I2, A2, andb_assoc. reflexivity. }
  destruct (G (s :: others) blank inv_blank) as (G1 & G2). split; [auto|]. intros rho. rewrite G2. reflexivity.
Qed.

(* ---------- fe_merge ---------- *)
Section WithMk.
Variable mkf : mkfun.
Hypothesis Hmk : sound_mk mkf.

Definition bool_ok (c : expr) : Prop := wfe c /\ elen c = -1.
Definition wfcs (s : fe) : Prop := Forall bool_ok (cs s).

Lemma holds_valb rho e : holds rho e = valb rho e.
Proof. unfold holds, valb. destruct (eval rho e) as [[|[|]]|]; reflexivity. Qed.

Lemma mk_and_sem args r : Forall bool_ok args -> args <> [] -> mkf OBAnd [] args = Ok r ->
  bool_ok r /\ forall rho, holds rho r = forallb (holds rho) args.
Proof.
  intros Hok Hne H.
  assert (Ht : targs OBAnd [] args) by (apply okl_bool_targs; [left; reflexivity|exact Hok|exact Hne]).
  destruct (Hmk _ _ _ _ Ht H) as (Gw & Gl & Ge). cbn [calc_len] in Gl. split; [split; auto|].
  intros rho. unfold holds at 1. rewrite Ge, band_eval by auto.
  assert (E : forallb (valb rho) args = forallb (holds rho) args).
  { clear. induction args as [|a r IH]; cbn; [auto|]. rewrite IH, holds_valb. reflexivity. }
  rewrite E. destruct (forallb (holds rho) args); reflexivity.
Qed.

Lemma mk_or_sem args r : Forall bool_ok args -> args <> [] -> mkf OBOr [] args = Ok r ->
  bool_ok r /\ forall rho, holds rho r = existsb (holds rho) args.
Proof.
  intros Hok Hne H.
  assert (Ht : targs OBOr [] args) by (apply okl_bool_targs; [right; reflexivity|exact Hok|exact Hne]).
  destruct (Hmk _ _ _ _ Ht H) as (Gw & Gl & Ge). cbn [calc_len] in Gl. split; [split; auto|].
  intros rho. unfold holds at 1. rewrite Ge, bor_eval by auto.
  assert (E : existsb (valb rho) args = existsb (holds rho) args).
  { clear. induction args as [|a r IH]; cbn; [auto|]. rewrite IH, holds_valb. reflexivity. }
  rewrite E. destruct (existsb (holds rho) args); reflexivity.
Qed.

(* SatCacheMixin._add: when And(con, added) builds to the constant False, {con, added} is an unsatisfiable pair --
   the core that the syntactic shortcut caches *)
Theorem shortcut_core_unsat con added r :
  bool_ok con -> bool_ok added -> mkf OBAnd [] [con; added] = Ok r -> is_false r = true ->
  forall rho, models rho [con; added] = false.
Proof.
  intros Hc Ha H Hf rho.
  destruct (mk_and_sem [con; added] r ltac:(constructor; [auto|constructor; [auto|constructor]]) ltac:(discriminate) H) as (_ & Hr).
  unfold models. rewrite <- Hr. apply holds_false. exact Hf.
Qed.

(* merge without ancestor: exactly the models of some condition_i together with the i-th constraint set *)
Theorem merge_sem s others conds r :
  Forall bool_ok conds -> Forall wfcs (s :: others) -> conds <> [] ->
  fe_merge mkf s others conds = Ok r ->
  Inv r /\ forall rho, models rho (cs r) =
                       existsb (fun vo => holds rho (fst vo) && models rho (cs (snd vo))) (combine conds (s :: others)).
Proof.
  intros Hc Hs Hne H. unfold fe_merge in H.
  destruct (sequence_res _) as [options| | |] eqn:Eo; try discriminate H. cbn [bind] in H.
  destruct (mkf OBOr [] options) as [m| | |] eqn:Em; try discriminate H. cbn [bind] in H. inversion H; subst r. clear H.
  apply sequence_res_spec in Eo.
  assert (Hopt : Forall bool_ok options /\
                 forall rho, existsb (holds rho) options =
                             existsb (fun vo => holds rho (fst vo) && models rho (cs (snd vo))) (combine conds (s :: others))).
  { clear Em Hne. revert Hc Hs Eo. generalize (s :: others) as sl. intros sl Hc. revert sl options.
    induction Hc as [|v vr Hv Hvr IH]; intros sl options Hs Eo.
    - cbn [combine] in Eo. inversion Eo; subst. split; [constructor|reflexivity].
    - destruct sl as [|o orest]; cbn [combine] in Eo; [inversion Eo; subst; split; [constructor|reflexivity]|].
      inversion Eo as [|? ? ? ? Ha Hrest]; subst. inversion Hs as [|? ? Ho Hor]; subst. cbn [fst snd] in Ha.
      destruct (IH orest l' Hor Hrest) as (I1 & I2).
      destruct (mk_and_sem (v :: cs o) y ltac:(constructor; auto) ltac:(discriminate) Ha) as (Y1 & Y2).
      split; [constructor; auto|]. intros rho. cbn [existsb combine fst snd]. rewrite Y2, I2. reflexivity. }
  destruct Hopt as (O1 & O2).
  destruct (add_sem blank [m] inv_blank) as (A1 & A2). split; [auto|]. intros rho. rewrite A2.
  cbn [cs blank models forallb]. rewrite andb_true_r.
  destruct options as [|o1 orest].
  - (* no solver paired with a condition: Or() of nothing is not well-typed; claripy.Or() raises *)
    exfalso. destruct conds; [congruence|]. cbn [combine] in Eo. inversion Eo.
  - destruct (mk_or_sem (o1 :: orest) m O1 ltac:(discriminate) Em) as (_ & M2). rewrite M2. apply O2.
Qed.

(* fe_merge with a common ancestor: the ancestor's models that satisfy some condition *)
Theorem merge_anc_sem anc conds r :
  Inv anc -> Forall bool_ok conds -> conds <> [] ->
  fe_merge_anc mkf anc conds = Ok r ->
  Inv r /\ forall rho, models rho (cs r) = models rho (cs anc) && existsb (holds rho) conds.
Proof.
  intros Ha Hc Hne H. unfold fe_merge_anc in H.
  destruct (mkf OBOr [] conds) as [m| | |] eqn:Em; try discriminate H. cbn [bind] in H. inversion H; subst r.
  destruct (add_sem (branch anc) [m] Ha) as (A1 & A2). split; [auto|]. intros rho. rewrite A2.
  destruct (mk_or_sem conds m Hc Hne Em) as (_ & M2). cbn [models forallb]. rewrite andb_true_r, M2. reflexivity.
Qed.
End WithMk.

(* ---------- split ---------- *)

Definition has_vars_b (c : expr) : bool := match fvars c with [] => false | _ => true end.

Lemma vmem_spec v l : vmem v l = true <-> In v l.
Proof.
  unfold vmem. rewrite existsb_exists. split.
  - intros (x & Hx & E). apply var_eqb_eq in E. subst. auto.
  - intros H. exists v. split; auto. apply var_eqb_eq. reflexivity.
Qed.

Lemma vmem_vunion v a b : vmem v (vunion a b) = vmem v a || vmem v b.
Proof.
  induction a as [|x r IH]; cbn [vunion]; [reflexivity|].
  destruct (vmem x b) eqn:Ex.
  - rewrite IH. cbn [vmem existsb]. destruct (var_eqb v x) eqn:E; [|reflexivity].
    apply var_eqb_eq in E. subst. rewrite Ex. rewrite orb_true_r. reflexivity.
  - cbn [vmem existsb]. fold (vmem v (vunion r b)). fold (vmem v r). rewrite IH, orb_assoc. reflexivity.
Qed.

Lemma vmem_fold v hit : forall acc,
  vmem v (fold_left (fun acc (g : group) => vunion (fst g) acc) hit acc) = vmem v acc || existsb (fun g => vmem v (fst g)) hit.
Proof.
  induction hit as [|g r IH]; intros acc; cbn [fold_left existsb]; [rewrite orb_false_r; reflexivity|].
  rewrite IH, vmem_vunion. destruct (vmem v (fst g)), (vmem v acc); reflexivity.
Qed.

Definition owners (v : var) (gs : list group) : list group := filter (fun g => vmem v (fst g)) gs.

Record GInv (sp : list expr) (gs : list group) (k : nat) : Prop := {
  g_perm : Permutation (flat_map snd gs) (filter (fun i => has_vars_b (nth i sp (BoolVe true))) (seq 0 k));
  g_disj : forall v, (length (owners v gs) <= 1)%nat;
  g_closed : forall g i v, In g gs -> In i (snd g) -> In v (fvars (nth i sp (BoolVe true))) -> vmem v (fst g) = true
}.

Lemma filter_split_perm {A} (f : A -> bool) l : Permutation (filter f l ++ filter (fun x => negb (f x)) l) l.
Proof.
  induction l as [|x r IH]; cbn [filter]; [constructor|].
  destruct (f x); cbn [negb app].
  - constructor. exact IH.
  - apply Permutation_sym. apply Permutation_cons_app. apply Permutation_sym. exact IH.
Qed.

Lemma filter_length_split {A} (f p : A -> bool) l :
  length (filter p l) = (length (filter p (filter f l)) + length (filter p (filter (fun x => negb (f x)) l)))%nat.
Proof.
  induction l as [|x r IH]; cbn [filter]; [reflexivity|].
  destruct (f x); cbn [negb filter]; destruct (p x); cbn [length]; lia.
Qed.

Lemma owners_cons v g gs : owners v (g :: gs) = if vmem v (fst g) then g :: owners v gs else owners v gs.
Proof. reflexivity. Qed.

Lemma owners_split v (f : group -> bool) gs :
  length (owners v gs) = (length (owners v (filter f gs)) + length (owners v (filter (fun g => negb (f g)) gs)))%nat.
Proof.
  induction gs as [|x r IH]; [reflexivity|]. cbn [filter]. rewrite owners_cons.
  destruct (f x); cbn [negb]; rewrite owners_cons; destruct (vmem v (fst x)); cbn [length]; lia.
Qed.

Lemma intersects_spec a b : intersects a b = true <-> exists v, In v a /\ In v b.
Proof.
  unfold intersects. rewrite existsb_exists. split.
  - intros (v & Hv & Hm). exists v. split; auto. apply vmem_spec. auto.
  - intros (v & Ha & Hb). exists v. split; auto. apply vmem_spec. auto.
Qed.

Lemma gstep_inv sp gs k :
  GInv sp gs k -> GInv sp (gstep gs k (fvars (nth k sp (BoolVe true)))) (S k).
Proof.
  intros [Hp Hd Hc]. set (c := nth k sp (BoolVe true)). set (vs := fvars c).
  assert (Hseq : filter (fun i => has_vars_b (nth i sp (BoolVe true))) (seq 0 (S k)) =
                 filter (fun i => has_vars_b (nth i sp (BoolVe true))) (seq 0 k) ++ (if has_vars_b c then [k] else [])).
  { rewrite seq_S, filter_app. cbn [filter Nat.add]. fold c. destruct (has_vars_b c); reflexivity. }
  unfold gstep. destruct vs as [|v0 vr] eqn:Evs.
  - (* no variables: nothing changes *)
    assert (Hb : has_vars_b c = false) by (unfold has_vars_b; fold vs; rewrite Evs; reflexivity).
    constructor; auto. rewrite Hseq, Hb, app_nil_r. exact Hp.
  - assert (Hb : has_vars_b c = true) by (unfold has_vars_b; fold vs; rewrite Evs; reflexivity).
    rewrite <- Evs. clear Evs.
    set (hit := filter (fun g => intersects vs (fst g)) gs).
    set (miss := filter (fun g => negb (intersects vs (fst g))) gs).
    set (U := fold_left (fun acc (g : group) => vunion (fst g) acc) hit vs).
    assert (HU : forall v, vmem v U = vmem v vs || existsb (fun g => vmem v (fst g)) hit) by (intros; apply vmem_fold).
    constructor.
    + (* permutation *)
      rewrite Hseq, Hb. cbn [flat_map snd app].
      apply Permutation_trans with (k :: flat_map snd gs).
      * constructor. rewrite <- flat_map_app. apply Permutation_flat_map. apply filter_split_perm.
      * apply Permutation_trans with (k :: filter (fun i => has_vars_b (nth i sp (BoolVe true))) (seq 0 k)).
        -- constructor. exact Hp.
        -- apply Permutation_cons_append.
    + (* each variable in at most one group *)
      intros v. rewrite owners_cons. change (fst (U, k :: flat_map snd hit)) with U.
      pose proof (owners_split v (fun g : group => intersects vs (fst g)) gs) as Hs.
      cbv beta in Hs. fold hit in Hs. fold miss in Hs.
      pose proof (Hd v) as Hv.
      destruct (vmem v U) eqn:EU; cbn [length]; [|lia].
      rewrite HU in EU. apply orb_true_iff in EU as [E1|E2].
      * (* v is a variable of the new constraint: no group of miss contains it *)
        assert (Hnil : owners v miss = []).
        { clear -E1. unfold miss, owners. induction gs as [|g r IH]; cbn [filter]; [reflexivity|].
          destruct (intersects vs (fst g)) eqn:Ei; cbn [negb filter]; [exact IH|].
          destruct (vmem v (fst g)) eqn:Eg; [|exact IH].
          exfalso. assert (intersects vs (fst g) = true).
          { apply intersects_spec. exists v. split; apply vmem_spec; auto. }
          congruence. }
        rewrite Hnil. cbn. lia.
      * apply existsb_exists in E2 as (g & Hg & Hvg).
        assert ((1 <= length (owners v hit))%nat).
        { clear -Hg Hvg. unfold owners. induction hit as [|x r IH]; [destruct Hg|]. cbn [filter]. destruct Hg as [<-|Hg].
          - rewrite Hvg. cbn. lia.
          - destruct (vmem v (fst x)); cbn [length]; [lia|auto]. }
        lia.
    + (* closure *)
      intros g i v [<-|Hg] Hi Hv; cbn [fst snd] in *.
      * rewrite HU. destruct Hi as [<-|Hi].
        -- fold c in Hv. fold vs in Hv. apply vmem_spec in Hv. rewrite Hv. reflexivity.
        -- apply in_flat_map in Hi as (h & Hh & Hih). apply orb_true_iff. right.
           apply existsb_exists. exists h. split; [auto|].
           apply (Hc h i v); auto. unfold hit in Hh. apply filter_In in Hh. tauto.
      * apply (Hc g i v); auto. unfold miss in Hg. apply filter_In in Hg. tauto.
Qed.

Lemma groups_from_inv sp : forall l gs k,
  GInv sp gs k -> (forall j, (j < length l)%nat -> nth (k + j) sp (BoolVe true) = nth j l (BoolVe true)) ->
  GInv sp (groups_from gs k l) (k + length l).
Proof.
  induction l as [|c r IH]; intros gs k Hg Hnth; cbn [groups_from length].
  - rewrite Nat.add_0_r. exact Hg.
  - replace (k + S (length r))%nat with (S k + length r)%nat by lia. apply IH.
    + pose proof (Hnth 0%nat ltac:(cbn; lia)) as H0. rewrite Nat.add_0_r in H0. cbn [nth] in H0. rewrite <- H0.
      apply gstep_inv. exact Hg.
    + intros j Hj. replace (S k + j)%nat with (k + S j)%nat by lia. rewrite (Hnth (S j) ltac:(cbn; lia)). reflexivity.
Qed.

(* the groups: every conjunct with a variable is in exactly one group; a variable belongs to at most one group;
   the variables of a conjunct all belong to its group *)
Theorem split_groups l :
  let sp := flatten_and l in
  GInv sp (fst (split_constraints l)) (length sp).
Proof.
  intros sp. unfold split_constraints. cbn [fst]. fold sp.
  apply (groups_from_inv sp sp [] 0%nat).
  - constructor; cbn; [constructor|lia|intros ? ? ? []].
  - intros j _. reflexivity.
Qed.

(* ---------- the store of solvers: operations on one solver leave every other solver alone (C14) ---------- *)

Lemma sget_sset_same m k s : sget (sset m k s) k = Some s.
Proof.
  induction m as [|[i t] r IH]; cbn [sset sget].
  - rewrite Nat.eqb_refl. reflexivity.
  - destruct (Nat.eqb i k) eqn:E; cbn [sget]; rewrite E; auto.
Qed.

Lemma sget_sset_other m k j s : j <> k -> sget (sset m k s) j = sget m j.
Proof.
  intros Hjk. induction m as [|[i t] r IH]; cbn [sset sget].
  - destruct (Nat.eqb k j) eqn:E; [apply Nat.eqb_eq in E; congruence|reflexivity].
  - destruct (Nat.eqb i k) eqn:E; cbn [sget].
    + apply Nat.eqb_eq in E. subst i. destruct (Nat.eqb k j) eqn:E2; [apply Nat.eqb_eq in E2; congruence|reflexivity].
    + destruct (Nat.eqb i j); auto.
Qed.

Theorem sstep_isolated m o k : touches o k = false -> sget (sstep m o) k = sget m k.
Proof.
  destruct o as [i new|i j|i]; cbn [touches sstep]; intros H; auto.
  - destruct (sget m i); auto. apply sget_sset_other. apply Nat.eqb_neq in H. congruence.
  - destruct (sget m i); auto. destruct (sget m j); auto. apply sget_sset_other. apply Nat.eqb_neq in H. congruence.
Qed.

Theorem history_isolated ops : forall m k,
  forallb (fun o => negb (touches o k)) ops = true -> sget (fold_left sstep ops m) k = sget m k.
Proof.
  induction ops as [|o r IH]; intros m k H; cbn [fold_left]; [reflexivity|].
  cbn [forallb] in H. apply andb_true_iff in H as [H1 H2]. rewrite IH by auto.
  apply sstep_isolated. apply negb_true_iff. exact H1.
Qed.

Theorem branch_copies m i j s : sget m i = Some s -> sget m j = None -> i <> j ->
  sget (sstep m (SBranch i j)) j = Some s /\ sget (sstep m (SBranch i j)) i = Some s.
Proof.
  intros Hi Hj Hij. cbn [sstep]. rewrite Hi, Hj. split.
  - apply sget_sset_same.
  - rewrite sget_sset_other by auto. exact Hi.
Qed.

(* what a solver of the store accepts depends only on the additions made to it and to its ancestors before the branch *)
Theorem add_only_own m i new k s : sget m i = Some s -> Inv s ->
  sget (sstep m (SAdd i new)) i = Some (fe_add s new) /\
  (forall rho, models rho (cs (fe_add s new)) = models rho (cs s) && models rho new) /\
  (k <> i -> sget (sstep m (SAdd i new)) k = sget m k).
Proof.
  intros Hi Hs. cbn [sstep]. rewrite Hi. split; [apply sget_sset_same|]. split.
  - apply add_sem. exact Hs.
  - intros Hk. apply sget_sset_other. exact Hk.
Qed.
