(* C08: substitution, case trees, chop/get_bytes and ITE excavation preserve meaning. *)
From Coq Require Import ZArith Bool List Lia.
Require Import CV.Model.PyPrelude CV.Model.Ast CV.Model.Build CV.Model.Rewrite
               CV.Proofs.AstLemmas CV.Proofs.BuildSound CV.Proofs.FlattenSound CV.Proofs.SimpSound.
Import ListNotations.
Open Scope Z_scope.

(* ---------- sequencing ---------- *)

Lemma sequence_res_spec {A B} (f : A -> res B) : forall l l',
  sequence_res (map f l) = Ok l' -> Forall2 (fun a b => f a = Ok b) l l'.
Proof.
  induction l as [|x r IH]; intros l' H; cbn in H.
  - inversion H. constructor.
  - destruct (f x) eqn:E; try discriminate H. cbn [bind] in H.
    destruct (sequence_res (map f r)) eqn:E2; try discriminate H. cbn [bind] in H. inversion H; subst.
    constructor; auto.
Qed.

Lemma list_eqb_eq a : forall b, list_eqb a b = true -> a = b.
Proof.
  induction a as [|x r IH]; intros [|y s] H; cbn in H; try discriminate; auto.
  apply andb_true_iff in H as [H1 H2]. apply expr_eqb_eq in H1. subst. f_equal. auto.
Qed.

Lemma lookup_in m e v : lookup m e = Some v -> In (e, v) m.
Proof.
  induction m as [|[k w] r IH]; cbn; [discriminate|].
  destruct (expr_eqb k e) eqn:E.
  - intros H. inversion H; subst. apply expr_eqb_eq in E. subst. auto.
  - auto.
Qed.

(* ---------- rebuilding a node from arguments that evaluate alike ---------- *)

Lemma rebuild_sound rho rho' op ints args args' len r :
  wfe (Node op ints args len) ->
  Forall2 (fun a a' => wfe a' /\ elen a' = elen a /\ eval rho a' = eval rho' a) args args' ->
  (if list_eqb args args' then Ok (Node op ints args len) else construct op ints args') = Ok r ->
  wfe r /\ elen r = len /\ eval rho r = eval rho' (Node op ints args len).
Proof.
  intros Hw HF H. pose proof Hw as Hw0. apply wfe_node in Hw as [Hargs Hty].
  assert (Hwf' : Forall wfe args') by (clear -HF; induction HF; constructor; tauto).
  assert (Hlen : map elen args' = map elen args) by (clear -HF; induction HF; cbn; [auto|f_equal; tauto]).
  assert (Hev : map (eval rho) args' = map (eval rho') args) by (clear -HF; induction HF; cbn; [auto|f_equal; tauto]).
  assert (Hnode : eval rho (Node op ints args' len) = eval rho' (Node op ints args len))
    by (cbn [eval]; rewrite Hev; reflexivity).
  destruct (list_eqb args args') eqn:E.
  - apply list_eqb_eq in E. subst args'. inversion H; subst. split; [auto|]. split; [reflexivity|]. exact Hnode.
  - assert (Ht : targs op ints args') by (split; [auto|exists len; rewrite Hlen; auto]).
    destruct (construct_sound _ _ _ _ Ht H) as (Gw & Gl & Ge).
    assert (Hcl : calc_len op ints args' = len) by (apply calc_len_tyop; rewrite Hlen; auto).
    split; [auto|]. split; [lia|]. rewrite Ge. unfold plain. rewrite Hcl. exact Hnode.
Qed.

Definition is_leaf (e : expr) : bool := match e with Node _ _ _ _ => false | _ => true end.

Lemma subst_leaf m vs e : is_leaf e = true ->
  subst m vs e = match lookup m e with Some r => Ok r | None => Ok e end.
Proof.
  destruct e; try discriminate; intros _; cbn [subst]; destruct (lookup m _); auto;
    destruct (negb (has_vars vs _)); reflexivity.
Qed.

(* ---------- (A) replacing sub-expressions by expressions that evaluate alike ---------- *)

Theorem subst_equiv rho m vs :
  (forall k v, In (k, v) m -> wfe k -> wfe v /\ elen v = elen k /\ eval rho v = eval rho k) ->
  forall e r, wfe e -> subst m vs e = Ok r -> wfe r /\ elen r = elen e /\ eval rho r = eval rho e.
Proof.
  intros Hm e. induction e as [n w|v w|n|b|op ints args len IH] using expr_ind2; intros r Hw H.
  1-4: (rewrite subst_leaf in H by reflexivity; destruct (lookup m _) eqn:El;
        [inversion H; subst; apply lookup_in in El; apply Hm; auto|inversion H; subst; auto]).
  cbn [subst] in H.
  destruct (lookup m (Node op ints args len)) eqn:El.
  - inversion H; subst. apply lookup_in in El. apply Hm; auto.
  - destruct (negb (has_vars vs (Node op ints args len))); [inversion H; subst; auto|].
    destruct (sequence_res (map (subst m vs) args)) as [args'| | |] eqn:Es; try discriminate H. cbn [bind] in H.
    apply sequence_res_spec in Es.
    pose proof Hw as Hw0. apply wfe_node in Hw0 as [Hargs _].
    assert (HF : Forall2 (fun a a' => wfe a' /\ elen a' = elen a /\ eval rho a' = eval rho a) args args').
    { clear -IH Es Hargs. induction Es as [|a a' l l' Ha Hl IHl]; [constructor|].
      inversion IH; subst. inversion Hargs; subst. constructor; auto. }
    exact (rebuild_sound rho rho op ints args args' len r Hw HF H).
Qed.

(* ---------- (B) replacing variables: the result under rho is the original under the updated assignment ---------- *)

Definition img (m : list (expr * expr)) (l : expr) : expr := match lookup m l with Some v => v | None => l end.
Lemma leaf_ext rho rho' e :
  (forall l, In l (leaves e) -> eval rho l = eval rho' l) -> eval rho e = eval rho' e.
Proof.
  induction e as [n w|v w|n|b|op ints args len IH] using expr_ind2; intros H;
    try (apply H; left; reflexivity).
  cbn [eval]. assert (E : map (eval rho) args = map (eval rho') args).
  { cbn [leaves] in H. induction IH as [|x r Hx Hr IHr]; [reflexivity|]. cbn [map flat_map] in *. f_equal.
    - apply Hx. intros l Hl. apply H. apply in_or_app. auto.
    - apply IHr. intros l Hl. apply H. apply in_or_app. auto. }
  rewrite E. reflexivity.
Qed.

Lemma leaves_leaf e l : In l (leaves e) -> is_leaf l = true.
Proof.
  induction e as [n w|v w|n|b|op ints args len IH] using expr_ind2; cbn [leaves];
    try (intros [<-|[]]; reflexivity).
  intros H. apply in_flat_map in H as (x & Hx & Hl). rewrite Forall_forall in IH. eauto.
Qed.

Lemma leaves_fvars e l x : In l (leaves e) -> In x (fvars l) -> In x (fvars e).
Proof.
  induction e as [n w|v w|n|b|op ints args len IH] using expr_ind2; cbn [leaves];
    try (intros [<-|[]]; auto).
  intros H Hx. apply in_flat_map in H as (a & Ha & Hl). cbn [fvars]. apply in_flat_map. exists a. split; auto.
  rewrite Forall_forall in IH. eauto.
Qed.

Lemma var_eqb_eq a b : var_eqb a b = true <-> a = b.
Proof.
  destruct a as [a1 a2], b as [b1 b2]. unfold var_eqb. cbn [fst snd].
  rewrite andb_true_iff, eqb_true_iff, Z.eqb_eq. split; [intros [-> ->]; auto|intros H; inversion H; auto].
Qed.

Lemma has_vars_false vs e : has_vars vs e = false -> exists x, In x vs /\ ~ In x (fvars e).
Proof.
  unfold has_vars. induction vs as [|x r IH]; cbn [forallb]; [discriminate|].
  intros H. apply andb_false_iff in H as [H|H].
  - exists x. split; [left; auto|]. intros Hin.
    assert (existsb (var_eqb x) (fvars e) = true) by (apply existsb_exists; exists x; split; auto; apply var_eqb_eq; auto).
    congruence.
  - destruct (IH H) as (y & Hy & Hn). exists y. split; [right; auto|auto].
Qed.

Theorem subst_vars rho rho' m vs :
  (forall k v, In (k, v) m -> is_leaf k = true /\ wfe v /\ elen v = elen k) ->
  (forall k v x, In (k, v) m -> In x vs -> In x (fvars k)) ->
  forall e r, wfe e ->
    (forall l, In l (leaves e) -> eval rho' l = eval rho (img m l)) ->
    subst m vs e = Ok r -> wfe r /\ elen r = elen e /\ eval rho r = eval rho' e.
Proof.
  intros Hm Hvs e. induction e as [n w|v w|n|b|op ints args len IH] using expr_ind2; intros r Hw Hl H.
  1-4: (rewrite subst_leaf in H by reflexivity; pose proof (Hl _ (or_introl eq_refl)) as Hx; unfold img in Hx;
        destruct (lookup m _) eqn:El;
        [inversion H; subst; apply lookup_in in El; destruct (Hm _ _ El) as (_ & ? & ?); auto
        |inversion H; subst; auto]).
  cbn [subst] in H.
  destruct (lookup m (Node op ints args len)) eqn:El.
  - apply lookup_in in El. destruct (Hm _ _ El) as (Hk & _). discriminate Hk.
  - destruct (has_vars vs (Node op ints args len)) eqn:Ev; cbn [negb] in H.
    + destruct (sequence_res (map (subst m vs) args)) as [args'| | |] eqn:Es; try discriminate H. cbn [bind] in H.
      apply sequence_res_spec in Es.
      pose proof Hw as Hw0. apply wfe_node in Hw0 as [Hargs _].
      assert (HF : Forall2 (fun a a' => wfe a' /\ elen a' = elen a /\ eval rho a' = eval rho' a) args args').
      { clear -IH Es Hargs Hl. cbn [leaves] in Hl. induction Es as [|a a' l l' Ha Hll IHl]; [constructor|].
        inversion IH; subst. inversion Hargs; subst. cbn [flat_map] in Hl. constructor.
        - match goal with HI : forall r, wfe a -> _ |- _ => apply HI; auto end.
          intros x Hx. apply Hl. apply in_or_app. auto.
        - apply IHl; auto. intros x Hx. apply Hl. apply in_or_app. auto. }
      exact (rebuild_sound rho rho' op ints args args' len r Hw HF H).
    + inversion H; subst. split; [auto|]. split; [reflexivity|].
      apply leaf_ext. intros l Hin. rewrite (Hl l Hin). unfold img.
      destruct (lookup m l) eqn:El2; [|reflexivity]. exfalso.
      apply lookup_in in El2. destruct (has_vars_false _ _ Ev) as (x & Hx & Hn). apply Hn.
      eapply leaves_fvars; eauto.
Qed.

(* claripy.replace(e, x, t) for a bitvector variable x: the result is e evaluated with x bound to the value of t *)
Definition upd_bv (rho : env) (n x : Z) : env :=
  mkEnv (fun k => if k =? n then x else bvenv rho k) (boolenv rho).

Theorem replace_var rho e n w t x r :
  wfe e -> wfe t -> elen t = w -> eval rho t = Some (VBV w x) ->
  (forall w', In (BVS n w') (leaves e) -> w' = w) ->
  replace e (BVS n w) t = Ok r ->
  wfe r /\ elen r = elen e /\ eval rho r = eval (upd_bv rho n x) e.
Proof.
  intros He Ht Hl Hx Hocc H. unfold replace in H.
  destruct (negb (Bool.eqb (is_bool (BVS n w)) (is_bool t))); [discriminate|].
  assert (Hxr : 0 <= x < 2 ^ w).
  { destruct (eval_wf rho t Ht) as (v & Ev & Tv). rewrite Hx in Ev. inversion Ev; subst v.
    destruct Tv as [_ Hok]. cbn in Hok. tauto. }
  eapply subst_vars; try exact H; auto.
  - intros k v [E|[]]. inversion E; subst. cbn. auto.
  - intros k v y [E|[]] Hy. inversion E; subst. exact Hy.
  - intros l Hin. unfold img. cbn [lookup].
    destruct (expr_eqb (BVS n w) l) eqn:E.
    + apply expr_eqb_eq in E. subst l. rewrite Hx. cbn [eval upd_bv bvenv]. rewrite Z.eqb_refl.
      unfold BV.wrap. rewrite Z.mod_small; auto.
    + pose proof (leaves_leaf _ _ Hin) as Lf. destruct l as [n' w'|v' w'|n'|b'|]; try discriminate Lf; try reflexivity.
      cbn [eval upd_bv bvenv]. destruct (n' =? n) eqn:En; [|reflexivity].
      apply Z.eqb_eq in En. subst n'. rewrite (Hocc w' Hin) in E. rewrite expr_eqb_refl in E. discriminate.
Qed.

(* ================= case trees, chop, get_bytes, excavate_ite: for every sound construction function ================= *)
Section WithMk.
Variable mkf : mkfun.
Hypothesis Hmk : sound_mk mkf.

Lemma veq_eq x y l : vty x l -> vty y l -> veq x y = true -> x = y.
Proof.
  intros [Lx Ox] [Ly Oy] H. destruct x as [w p|p], y as [w' q|q]; cbn in *; try discriminate.
  - apply Z.eqb_eq in H. subst. reflexivity.
  - apply eqb_prop in H. subst. reflexivity.
Qed.

(* rebuilding through mkf from arguments that evaluate like the old ones *)
Lemma mk_rebuild op ints args args' len r :
  wfe (Node op ints args len) ->
  Forall2 (fun a a' => wfe a' /\ elen a' = elen a /\ equiv a' a) args args' ->
  mkf op ints args' = Ok r ->
  wfe r /\ elen r = len /\ equiv r (Node op ints args len).
Proof.
  intros Hw HF H. apply wfe_node in Hw as [Hargs Hty].
  assert (Hwf' : Forall wfe args') by (clear -HF; induction HF; constructor; tauto).
  assert (Hlen : map elen args' = map elen args) by (clear -HF; induction HF; cbn; [auto|f_equal; tauto]).
  assert (Ht : targs op ints args') by (split; [auto|exists len; rewrite Hlen; auto]).
  destruct (Hmk _ _ _ _ Ht H) as (Gw & Gl & Ge).
  assert (Hcl : calc_len op ints args' = len) by (apply calc_len_tyop; rewrite Hlen; auto).
  split; [auto|]. split; [lia|]. intros rho. rewrite Ge. unfold plain. cbn [eval].
  assert (Hev : map (eval rho) args' = map (eval rho) args).
  { clear -HF. induction HF as [|a a' l l' (_ & _ & He) _ IH]; cbn; [auto|]. rewrite (He rho). f_equal. auto. }
  rewrite Hev. reflexivity.
Qed.

(* ---------- ite_cases ---------- *)

Fixpoint cases_val (rho : env) (cases : list (expr * expr)) (d : expr) : option value :=
  match cases with
  | [] => eval rho d
  | (c, v) :: r => match eval rho c with Some (VBool true) => eval rho v | _ => cases_val rho r d end
  end.

Definition case_ok (L : Z) (cv : expr * expr) : Prop :=
  wfe (fst cv) /\ elen (fst cv) = -1 /\ wfe (snd cv) /\ elen (snd cv) = L.

Theorem ite_cases_sound L cases d r :
  (wok L = true \/ L = -1) -> Forall (case_ok L) cases -> wfe d -> elen d = L ->
  ite_cases mkf cases d = Ok r ->
  wfe r /\ elen r = L /\ forall rho, eval rho r = cases_val rho cases d.
Proof.
  intros HL Hc Hd Ld. revert r. induction Hc as [|[c v] rest (Hcw & Hcl & Hvw & Hvl) Hrest IH]; intros r H; cbn [ite_cases] in H.
  - inversion H; subst. auto.
  - cbn [fst snd] in *.
    destruct (ite_cases mkf rest d) as [sofar| | |] eqn:Es; try discriminate H. cbn [bind] in H.
    destruct (IH sofar eq_refl) as (Sw & Sl & Se).
    destruct (mkf OEq [] [v; sofar]) as [same| | |] eqn:Eq; try discriminate H. cbn [bind] in H.
    assert (Hlen : elen v = elen sofar) by lia.
    assert (HL' : wok (elen v) = true \/ elen v = -1) by (rewrite Hvl; auto).
    destruct (is_true same) eqn:It.
    + inversion H; subst r. split; [auto|]. split; [auto|]. intros rho. cbn [cases_val].
      destruct same as [| | |[|]|]; try discriminate It.
      destruct (eval_wf rho v Hvw) as (x & Ex & Tx). destruct (eval_wf rho sofar Sw) as (y & Ey & Ty).
      rewrite <- Hlen in Ty.
      pose proof (mk_eq_true mkf Hmk rho v sofar Hvw Sw Hlen HL' Eq x y Ex Ey) as Hv.
      apply (veq_eq x y _ Tx Ty) in Hv. subst y.
      rewrite <- Se. destruct (eval rho c) as [[|[|]]|]; congruence.
    + assert (Ht : targs OIf [] [c; v; sofar]) by (apply targs_if; auto).
      destruct (Hmk _ _ _ _ Ht H) as (Gw & Gl & Ge). cbn [calc_len] in Gl.
      split; [auto|]. split; [lia|]. intros rho. rewrite Ge. cbn [cases_val].
      destruct (if_branch_eval rho c v sofar _ (targs_plain_wf _ _ _ Ht)) as (cb & vt & vf & Ec & Et & Ef & Ei & _).
      unfold plain. rewrite Ei, Ec. destruct cb; [auto|]. rewrite <- Se. auto.
Qed.

(* ---------- ite_dict ---------- *)

Definition dict_val (rho : env) (i : expr) (d : list (Z * expr)) (default : expr) : option value :=
  match eval rho i with
  | Some (VBV w x) =>
      match find (fun cv => fst cv mod 2 ^ w =? x) d with
      | Some cv => eval rho (snd cv)
      | None => eval rho default
      end
  | _ => None
  end.

Lemma find_filter {A} (P Q : A -> bool) l :
  (forall a, In a l -> P a = true -> Q a = true) -> find P (filter Q l) = find P l.
Proof.
  induction l as [|a r IH]; intros H; cbn [filter find]; [reflexivity|].
  destruct (Q a) eqn:Eq; cbn [find].
  - destruct (P a); [reflexivity|]. apply IH. intros; apply H; auto. right; auto.
  - destruct (P a) eqn:Ep.
    + rewrite (H a (or_introl eq_refl) Ep) in Eq. discriminate.
    + apply IH. intros; apply H; auto. right; auto.
Qed.

Lemma wfe_cbvv v w : wok w = true -> wfe (cbvv v w) /\ elen (cbvv v w) = w.
Proof.
  intros Hw. unfold cbvv. cbn [wfe elen]. split; [split; auto|reflexivity].
  apply Z.mod_pos_bound. apply wok_spec in Hw. apply Z.pow_pos_nonneg; lia.
Qed.

Lemma insert_sorted_in k x l : In k (insert_sorted x l) -> k = x \/ In k l.
Proof.
  induction l as [|y r IH]; cbn; [intros [H|[]]; auto|].
  destruct (x <=? y); cbn; [intros [H|H]; auto|]. intros [H|H]; [auto|]. destruct (IH H); auto.
Qed.
Lemma sort_keys_in k l : In k (sort_keys l) -> In k l.
Proof.
  unfold sort_keys. induction l as [|y r IH]; cbn; [auto|]. intros H. apply insert_sorted_in in H as [H|H]; auto.
Qed.

Lemma norm_keys_forall n (Q : expr -> Prop) d :
  0 < n -> Forall (fun cv => Q (snd cv)) d -> Forall (fun cv : Z * expr => 0 <= fst cv < n /\ Q (snd cv)) (norm_keys n d).
Proof.
  intros Hn. induction 1 as [|[k v] r Hv Hr IH]; cbn [norm_keys]; constructor.
  - cbn [fst snd]. split; [apply Z.mod_pos_bound; auto|auto].
  - rewrite Forall_forall in *. intros cv Hin. apply filter_In in Hin. apply IH. tauto.
Qed.

Lemma norm_keys_find n d x : 0 < n ->
  option_map snd (find (fun cv : Z * expr => fst cv mod n =? x) (norm_keys n d)) =
  option_map snd (find (fun cv : Z * expr => fst cv mod n =? x) d).
Proof.
  intros Hn. induction d as [|[k v] r IH]; cbn [norm_keys find fst]; [reflexivity|].
  rewrite Z.mod_mod by lia. destruct (k mod n =? x) eqn:E; [reflexivity|].
  rewrite find_filter; [exact IH|].
  intros a Hin Pa. apply Z.eqb_eq in Pa. apply negb_true_iff. apply Z.eqb_neq. apply Z.eqb_neq in E.
  assert (Hr : forall cv, In cv (norm_keys n r) -> fst cv mod n = fst cv).
  { clear -Hn. induction r as [|[k' v'] r' IHr]; cbn [norm_keys]; [intros ? []|].
    intros cv [<-|Hin]; [cbn [fst]; apply Z.mod_mod; lia|]. apply filter_In in Hin. apply IHr. tauto. }
  rewrite <- (Hr a Hin). congruence.
Qed.

Theorem ite_dict_sound fuel : forall i d default r,
  wfe i -> wok (elen i) = true ->
  forall L, (wok L = true \/ L = -1) ->
  Forall (fun cv => wfe (snd cv) /\ elen (snd cv) = L) d ->
  wfe default -> elen default = L ->
  ite_dict mkf fuel i d default = Ok r ->
  wfe r /\ elen r = L /\ forall rho, eval rho r = dict_val rho i d default.
Proof.
  induction fuel as [|f IH]; intros i d default r Hi Hwi L HL Hd Hdef Ldef H; [discriminate H|].
  cbn [ite_dict] in H.
  destruct (Z.of_nat (length d) <? 4) eqn:Esmall.
  - (* linear *)
    destruct (sequence_res (map (fun cv => do c <- mkf OEq [] [i; cbvv (fst cv) (elen i)]; Ok (c, snd cv)) d))
      as [cs| | |] eqn:Es; try discriminate H. cbn [bind] in H.
    apply sequence_res_spec in Es.
    assert (Hcs : Forall (case_ok L) cs /\
                  forall rho, cases_val rho cs default = dict_val rho i d default).
    { clear H Esmall. induction Es as [|cv c' l l' Hc Hl IHl].
      - split; [constructor|]. intros rho. unfold dict_val. cbn.
        destruct (eval_bv rho i Hi Hwi) as (x & -> & _). reflexivity.
      - inversion Hd as [|? ? (Hvw & Hvl) Hd']; subst.
        destruct (IHl Hd') as (IH1 & IH2).
        destruct (mkf OEq [] [i; cbvv (fst cv) (elen i)]) as [c| | |] eqn:Ec; try discriminate Hc.
        cbn [bind] in Hc. inversion Hc; subst c'.
        destruct (wfe_cbvv (fst cv) (elen i) Hwi) as (Kw & Kl).
        assert (Ht : targs OEq [] [i; cbvv (fst cv) (elen i)])
          by (apply targs_eq; auto).
        destruct (Hmk _ _ _ _ Ht Ec) as (Cw & Cl & Ce). cbn [calc_len] in Cl.
        split; [constructor; [unfold case_ok; cbn [fst snd]; auto|auto]|].
        intros rho. cbn [cases_val]. rewrite Ce. unfold dict_val in *. specialize (IH2 rho).
        destruct (eval_bv rho i Hi Hwi) as (x & Ex & Hx). rewrite Ex in *.
        unfold plain. cbn [eval map sequence calc_len]. rewrite Ex. unfold cbvv. cbn [eval sequence eval_op].
        rewrite Z.eqb_refl. cbn [find fst snd].
        rewrite (Z.eqb_sym x). destruct (fst cv mod 2 ^ elen i =? x); [reflexivity|exact IH2]. }
    destruct Hcs as (Hc1 & Hc2).
    destruct (ite_cases_sound L cs default r HL Hc1 Hdef Ldef H) as (Rw & Rl & Re).
    split; [auto|]. split; [auto|]. intros rho. rewrite Re. apply Hc2.
  - (* split at a key of the normalised dictionary *)
    assert (Hn : 0 < 2 ^ elen i) by (apply wok_spec in Hwi; apply Z.pow_pos_nonneg; lia).
    set (n := 2 ^ elen i) in *.
    set (d' := norm_keys n d) in *.
    set (spl := nth (Nat.div (length (sort_keys (map fst d')) - 1) 2) (sort_keys (map fst d')) 0) in *.
    set (lo := filter (fun cv => fst cv <=? spl) d') in *.
    set (hi := filter (fun cv => negb (fst cv <=? spl)) d') in *.
    destruct (ite_dict mkf f i lo default) as [vlo| | |] eqn:Elo; try discriminate H. cbn [bind] in H.
    destruct (ite_dict mkf f i hi default) as [vhi| | |] eqn:Ehi; try discriminate H. cbn [bind] in H.
    destruct (mkf OULE [] [i; cbvv spl (elen i)]) as [c| | |] eqn:Ec; try discriminate H. cbn [bind] in H.
    assert (Hd' : Forall (fun cv => 0 <= fst cv < n /\ wfe (snd cv) /\ elen (snd cv) = L) d')
      by (apply (norm_keys_forall n (fun v => wfe v /\ elen v = L) d Hn Hd)).
    assert (Hlo : Forall (fun cv => wfe (snd cv) /\ elen (snd cv) = L) lo).
    { unfold lo. rewrite Forall_forall in *. intros x Hx. apply filter_In in Hx. apply Hd'. tauto. }
    assert (Hhi : Forall (fun cv => wfe (snd cv) /\ elen (snd cv) = L) hi).
    { unfold hi. rewrite Forall_forall in *. intros x Hx. apply filter_In in Hx. apply Hd'. tauto. }
    destruct (IH i lo default vlo Hi Hwi L HL Hlo Hdef Ldef Elo) as (Lw & Ll & Le).
    destruct (IH i hi default vhi Hi Hwi L HL Hhi Hdef Ldef Ehi) as (Hw & Hl & He).
    destruct (wfe_cbvv spl (elen i) Hwi) as (Kw & Kl).
    assert (Htc : targs OULE [] [i; cbvv spl (elen i)]).
    { split; [constructor; [auto|constructor; [auto|constructor]]|]. exists (-1). cbn [map tyop]. rewrite Kl, Hwi, Z.eqb_refl. reflexivity. }
    destruct (Hmk _ _ _ _ Htc Ec) as (Cw & Cl & Ce). cbn [calc_len] in Cl.
    assert (Ht : targs OIf [] [c; vlo; vhi]) by (apply targs_if; auto; lia).
    destruct (Hmk _ _ _ _ Ht H) as (Gw & Gl & Ge). cbn [calc_len] in Gl.
    split; [auto|]. split; [lia|]. intros rho. rewrite Ge.
    destruct (if_branch_eval rho c vlo vhi _ (targs_plain_wf _ _ _ Ht)) as (cb & vt & vf & Ecb & Et & Ef & Ei & _).
    unfold plain. rewrite Ei. rewrite Ce in Ecb. unfold plain in Ecb. cbn [eval map sequence calc_len] in Ecb.
    destruct (eval_bv rho i Hi Hwi) as (x & Ex & Hx). rewrite Ex in Ecb.
    unfold cbvv in Ecb. cbn [eval sequence eval_op cmp_bv] in Ecb. rewrite Z.eqb_refl in Ecb.
    inversion Ecb as [Hcb]. clear Ecb.
    (* the normalised dictionary answers like the original *)
    assert (Hdv : dict_val rho i d default = dict_val rho i d' default).
    { unfold dict_val. rewrite Ex. fold n. pose proof (norm_keys_find n d x Hn) as Hf. fold d' in Hf.
      destruct (find (fun cv => fst cv mod n =? x) d') as [a|], (find (fun cv => fst cv mod n =? x) d) as [b|];
        cbn [option_map] in Hf; try discriminate Hf; [inversion Hf; congruence|reflexivity]. }
    rewrite Hdv.
    unfold dict_val. rewrite Ex. rewrite Le in Et. rewrite He in Ef. unfold dict_val in Et, Ef. rewrite Ex in Et, Ef.
    fold n in Et, Ef |- *.
    assert (Hsm : forall cv, In cv d' -> fst cv mod n = fst cv).
    { intros cv Hin. rewrite Forall_forall in Hd'. apply Z.mod_small. apply (Hd' cv Hin). }
    assert (Hspl : spl mod n = spl).
    { apply Z.mod_small. subst spl.
      destruct (nth_in_or_default (Nat.div (length (sort_keys (map fst d')) - 1) 2) (sort_keys (map fst d')) 0) as [Hin|Hdflt].
      - apply sort_keys_in in Hin. apply in_map_iff in Hin as (cv & <- & Hcv). rewrite Forall_forall in Hd'. apply (Hd' cv Hcv).
      - rewrite Hdflt. lia. }
    unfold BV.bvule in *. fold n in Hcb |- *. rewrite Hspl in *.
    destruct (x <=? spl) eqn:Ecmp.
    + rewrite <- Et. unfold lo. rewrite find_filter; [reflexivity|].
      intros a Ha Pa. apply Z.eqb_eq in Pa. rewrite (Hsm a Ha) in Pa. apply Z.leb_le. apply Z.leb_le in Ecmp. lia.
    + rewrite <- Ef. unfold hi. rewrite find_filter; [reflexivity|].
      intros a Ha Pa. apply Z.eqb_eq in Pa. rewrite (Hsm a Ha) in Pa. apply Z.leb_gt in Ecmp.
      apply negb_true_iff. apply Z.leb_gt. lia.
Qed.
End WithMk.

Section WithMk2.
Variable mkf : mkfun.
Hypothesis Hmk : sound_mk mkf.

(* ---------- reverse_ite_cases ---------- *)

(* the values of the cases whose condition holds *)
Fixpoint sel (rho : env) (q : list (expr * expr)) : list (option value) :=
  match q with
  | [] => []
  | (c, v) :: r => if holds rho c then eval rho v :: sel rho r else sel rho r
  end.

Lemma sel_app rho a b : sel rho (a ++ b) = sel rho a ++ sel rho b.
Proof. induction a as [|[c v] r IH]; cbn; [auto|]. destruct (holds rho c); cbn; rewrite IH; auto. Qed.

Definition item_ok (cv : expr * expr) : Prop := wfe (fst cv) /\ elen (fst cv) = -1 /\ wfe (snd cv).

Lemma band2_sem a b r : wfe a -> elen a = -1 -> wfe b -> elen b = -1 -> mkf OBAnd [] [a; b] = Ok r ->
  wfe r /\ elen r = -1 /\ forall rho, holds rho r = holds rho a && holds rho b.
Proof.
  intros Ha La Hb Lb H.
  assert (Hok : okl (-1) [a; b]) by (repeat constructor; auto).
  assert (Ht : targs OBAnd [] [a; b]) by (apply okl_bool_targs; [right; left|auto|discriminate] || (apply okl_bool_targs; [left; reflexivity|auto|discriminate])).
  destruct (Hmk _ _ _ _ Ht H) as (Gw & Gl & Ge). cbn [calc_len] in Gl.
  split; [auto|]. split; [auto|]. intros rho. unfold holds. rewrite Ge.
  rewrite band_eval by (auto; discriminate). cbn [forallb].
  rewrite (valb_eval rho a Ha La), (valb_eval rho b Hb Lb).
  destruct (valb rho a), (valb rho b); reflexivity.
Qed.

Theorem rev_cases_sound fuel : forall q L,
  Forall item_ok q -> rev_cases mkf fuel q = Ok L ->
  Forall item_ok L /\
  forall rho, (length (sel rho q) <= 1)%nat -> sel rho L = sel rho q.
Proof.
  induction fuel as [|f IH]; intros q L Hq H; [discriminate H|].
  cbn [rev_cases] in H. destruct q as [|[cond e] rest]; [inversion H; subst; split; [constructor|auto]|].
  inversion Hq as [|? ? (Hcw & Hcl & Hew) Hrest]; subst. cbn [fst snd] in *.
  assert (Hleaf : forall L', (do r <- rev_cases mkf f rest; Ok ((cond, e) :: r)) = Ok L' ->
            Forall item_ok L' /\ forall rho, (length (sel rho ((cond, e) :: rest)) <= 1)%nat -> sel rho L' = sel rho ((cond, e) :: rest)).
  { intros L' H'. destruct (rev_cases mkf f rest) as [r| | |] eqn:Er; try discriminate H'. cbn [bind] in H'.
    inversion H'; subst L'. destruct (IH rest r Hrest Er) as (I1 & I2).
    split; [constructor; [unfold item_ok; cbn; auto|auto]|].
    intros rho Hlen. cbn [sel] in *. destruct (holds rho cond); cbn [length] in Hlen; [f_equal|]; apply I2; lia. }
  destruct e as [| | | |op ints args len]; try (apply Hleaf; exact H).
  destruct op; try (apply Hleaf; exact H).
  destruct ints; try (apply Hleaf; exact H).
  destruct args as [|c [|t [|e [|? ?]]]]; try (apply Hleaf; exact H).
  clear Hleaf.
  destruct (mkf OBAnd [] [cond; c]) as [c1| | |] eqn:E1; try discriminate H. cbn [bind] in H.
  destruct (mkf OBNot [] [c]) as [nc| | |] eqn:En; try discriminate H. cbn [bind] in H.
  destruct (mkf OBAnd [] [cond; nc]) as [c2| | |] eqn:E2; try discriminate H. cbn [bind] in H.
  pose proof (fun rho => if_branch_eval rho c t e len Hew) as Hif.
  destruct (Hif (mkEnv (fun _ => 0) (fun _ => false))) as (_ & _ & _ & _ & _ & _ & _ & Cw & Cl & Tw & Ew & _).
  destruct (mk_not_sem mkf Hmk c nc Cw Cl En) as (Nw & Nl & Ne).
  destruct (band2_sem cond c c1 Hcw Hcl Cw Cl E1) as (W1 & L1 & S1).
  destruct (band2_sem cond nc c2 Hcw Hcl Nw Nl E2) as (W2 & L2 & S2).
  assert (Hq' : Forall item_ok (rest ++ [(c1, t); (c2, e)])).
  { apply Forall_app. split; [auto|]. repeat constructor; cbn; auto. }
  destruct (IH _ L Hq' H) as (I1 & I2). split; [auto|].
  intros rho Hlen.
  assert (Hsame : sel rho (rest ++ [(c1, t); (c2, e)]) = sel rho ((cond, Node OIf [] [c; t; e] len) :: rest)).
  { rewrite sel_app. cbn [sel]. rewrite S1, S2.
    destruct (Hif rho) as (cb & vt & vf & Ec & Et & Ee & Ei & _).
    assert (Hc : holds rho c = cb) by (unfold holds; rewrite Ec; destruct cb; auto).
    assert (Hn : holds rho nc = negb cb) by (unfold holds; rewrite (Ne rho cb Ec); destruct cb; auto).
    rewrite Hc, Hn. cbn [sel] in Hlen. destruct (holds rho cond); cbn [andb].
    - cbn [length] in Hlen. destruct (sel rho rest); [|cbn in Hlen; lia]. cbn [app]. rewrite Ei.
      destruct cb; cbn [negb]; congruence.
    - rewrite app_nil_r. reflexivity. }
  rewrite <- Hsame. apply I2. rewrite Hsame. exact Hlen.
Qed.

(* exactly one of the reported cases holds, and its value is the value of the expression *)
Theorem reverse_ite_cases_sound fuel e L :
  wfe e -> reverse_ite_cases mkf fuel e = Ok L ->
  Forall item_ok L /\ forall rho, sel rho L = [eval rho e].
Proof.
  intros He H. unfold reverse_ite_cases in H.
  destruct (rev_cases_sound fuel [(BoolVe true, e)] L) as (I1 & I2); auto.
  - repeat constructor; cbn; auto.
  - split; [auto|]. intros rho. rewrite I2; cbn; auto.
Qed.

(* ---------- chop, get_bytes ---------- *)

(* chop: the chunks are Extract((n+1)*bits-1, n*bits) for n = 0 .. len/bits - 1, listed most significant first *)
Theorem chop_sound e bits l :
  wfe e -> chop mkf e bits = Ok l ->
  elen e <> bits ->
  exists l0 : list expr, l = List.rev l0 /\
    Forall2 (fun n c => targs OExtract [(n + 1) * bits - 1; n * bits] [e] ->
                        good OExtract [(n + 1) * bits - 1; n * bits] [e] c)
            (zrange 0 (elen e / bits) 1) l0.
Proof.
  intros He H Hne. unfold chop in H.
  destruct (bits <=? 0) eqn:Eb; [destruct (bits =? 0); discriminate|].
  destruct (negb (elen e mod bits =? 0)); [discriminate|].
  destruct (elen e =? bits) eqn:Es; [apply Z.eqb_eq in Es; contradiction|].
  destruct (sequence_res _) as [l0| | |] eqn:Eseq; try discriminate H. cbn [bind] in H. inversion H; subst l. clear H.
  apply sequence_res_spec in Eseq. exists l0. split; [reflexivity|].
  induction Eseq as [|a b la lb Hab _ IH]; constructor; auto.
Qed.

Theorem get_bytes_sound e index size r :
  wfe e -> get_bytes mkf e index size = Ok r ->
  let pos := (elen e + 7) / 8 - 1 - index in
  let hi := Z.min (pos * 8 + 7) (elen e - 1) in
  let lo := (pos - size + 1) * 8 in
  targs OExtract [hi; lo] [e] ->
  exists x, good OExtract [hi; lo] [e] x /\
    (if negb (elen x mod 8 =? 0)
     then targs OZeroExt [8 - elen x mod 8] [x] -> good OZeroExt [8 - elen x mod 8] [x] r
     else r = x).
Proof.
  intros He H pos hi lo Ht. unfold get_bytes in H. fold pos in H.
  destruct (pos <? 0); [discriminate|]. destruct (size =? 0); [discriminate|].
  fold hi lo in H.
  destruct (mkf OExtract [hi; lo] [e]) as [x| | |] eqn:Ex; try discriminate H. cbn [bind] in H.
  exists x. split; [apply Hmk; auto|].
  destruct (negb (elen x mod 8 =? 0)).
  - intros Hz. apply Hmk; auto.
  - inversion H. reflexivity.
Qed.

(* ---------- excavate_ite ---------- *)

Lemma split_args_sem cond ncond : forall args ts fs,
  wfe cond -> elen cond = -1 ->
  (forall rho cb, eval rho cond = Some (VBool cb) -> eval rho ncond = Some (VBool (negb cb))) ->
  Forall wfe args -> split_args cond ncond args = Some (ts, fs) ->
  Forall wfe ts /\ Forall wfe fs /\ map elen ts = map elen args /\ map elen fs = map elen args /\
  forall rho, match eval rho cond with
              | Some (VBool true) => map (eval rho) ts = map (eval rho) args
              | _ => map (eval rho) fs = map (eval rho) args
              end.
Proof.
  intros args ts fs Hc Lc Hn. revert ts fs. induction args as [|a r IH]; intros ts fs Hw H; cbn [split_args] in H.
  - inversion H; subst. repeat split; auto. intros rho. destruct (eval rho cond) as [[|[|]]|]; reflexivity.
  - inversion Hw as [|? ? Ha Hr]; subst.
    destruct (split_args cond ncond r) as [[ts0 fs0]|] eqn:Er; [|discriminate H].
    destruct (IH ts0 fs0 Hr eq_refl) as (I1 & I2 & I3 & I4 & I5).
    assert (Hplain : Some (a :: ts0, a :: fs0) = Some (ts, fs) ->
             Forall wfe ts /\ Forall wfe fs /\ map elen ts = map elen (a :: r) /\ map elen fs = map elen (a :: r) /\
             forall rho, match eval rho cond with
                         | Some (VBool true) => map (eval rho) ts = map (eval rho) (a :: r)
                         | _ => map (eval rho) fs = map (eval rho) (a :: r) end).
    { intros E. inversion E; subst. repeat split; auto; cbn [map]; try congruence.
      intros rho. specialize (I5 rho). destruct (eval rho cond) as [[|[|]]|]; cbn [map]; congruence. }
    destruct a as [| | | |op ints aargs len]; try (apply Hplain; exact H).
    destruct op; try (apply Hplain; exact H).
    destruct ints; try (apply Hplain; exact H).
    destruct aargs as [|c [|t [|f [|? ?]]]]; try (apply Hplain; exact H).
    clear Hplain.
    pose proof (fun rho => if_branch_eval rho c t f len Ha) as Hif.
    destruct (Hif (mkEnv (fun _ => 0) (fun _ => false))) as (_ & _ & _ & _ & _ & _ & _ & Cw & Cl & Tw & Fw & Tl & Fl).
    destruct (expr_eqb c cond) eqn:E1.
    + apply expr_eqb_eq in E1. subst c. inversion H; subst.
      repeat split; auto; cbn [map elen]; try congruence.
      intros rho. specialize (I5 rho). destruct (Hif rho) as (cb & vt & vf & Ec & Et & Ef & Ei & _).
      rewrite Ec in *. cbn [map]. rewrite Ei. destruct cb; congruence.
    + destruct (expr_eqb c ncond) eqn:E2; [|discriminate H].
      apply expr_eqb_eq in E2. subst c. inversion H; subst.
      repeat split; auto; cbn [map elen]; try congruence.
      intros rho. specialize (I5 rho). destruct (Hif rho) as (cb & vt & vf & Ec & Et & Ef & Ei & _).
      destruct (eval_bool rho cond Hc Lc) as (b & Eb). rewrite Eb in *.
      rewrite (Hn rho b Eb) in Ec. inversion Ec; subst cb. cbn [map]. rewrite Ei.
      destruct b; cbn [negb]; congruence.
Qed.

Theorem excavate_sound e : forall r,
  wfe e -> excavate mkf e = Ok r -> wfe r /\ elen r = elen e /\ equiv r e.
Proof.
  induction e as [n w|v w|n|b|op ints args len IH] using expr_ind2; intros r Hw H; cbn [excavate] in H.
  1-4: (inversion H; subst; split; [auto|split; [reflexivity|apply equiv_refl]]).
  destruct (sequence_res (map (excavate mkf) args)) as [args'| | |] eqn:Es; try discriminate H. cbn [bind] in H.
  apply sequence_res_spec in Es.
  pose proof Hw as Hw0. apply wfe_node in Hw0 as [Hargs Hty].
  assert (HF : Forall2 (fun a a' => wfe a' /\ elen a' = elen a /\ equiv a' a) args args').
  { clear -IH Es Hargs. induction Es as [|a a' l l' Ha Hl IHl]; [constructor|].
    inversion IH; subst. inversion Hargs; subst. constructor; auto. }
  assert (Hwf' : Forall wfe args') by (clear -HF; induction HF; constructor; tauto).
  assert (Hlen : map elen args' = map elen args) by (clear -HF; induction HF; cbn; [auto|f_equal; tauto]).
  cbn [elen].
  assert (Hdirect : forall ints', ints' = ints -> mkf op ints' args' = Ok r ->
            wfe r /\ elen r = len /\ equiv r (Node op ints args len)).
  { intros ? -> Hm. eapply mk_rebuild; eauto. }
  destruct (opk_eqb op OIf) eqn:Eop.
  - assert (op = OIf) by (destruct op; try discriminate Eop; reflexivity). subst op.
    cbn [tyop] in Hty. destruct ints; [|discriminate Hty]. apply (Hdirect []); auto.
  - destruct (find is_if args') as [i|] eqn:Ef; [|apply (Hdirect ints); auto].
    apply find_some in Ef as [Hin Hisif].
    destruct (mkf OBNot [] [if_cond i]) as [ncond| | |] eqn:En; try discriminate H. cbn [bind] in H.
    destruct (split_args (if_cond i) ncond args') as [[ts fs]|] eqn:Esp; [|apply (Hdirect ints); auto].
    destruct (mkf op ints ts) as [t| | |] eqn:Et; try discriminate H. cbn [bind] in H.
    destruct (mkf op ints fs) as [f| | |] eqn:Efs; try discriminate H. cbn [bind] in H.
    (* the condition *)
    assert (Hi : wfe i) by (rewrite Forall_forall in Hwf'; auto).
    assert (Hc : wfe (if_cond i) /\ elen (if_cond i) = -1).
    { unfold is_if, is_op in Hisif. destruct i as [| | | |o ii ia il]; try discriminate Hisif.
      destruct o; try discriminate Hisif. pose proof Hi as Hi'. apply wfe_node in Hi' as [Hia Hity].
      cbn [tyop] in Hity. destruct ii; [|discriminate Hity].
      destruct ia as [|c [|t0 [|f0 [|? ?]]]]; try discriminate Hity. cbn [if_cond].
      destruct (if_branch_eval (mkEnv (fun _ => 0) (fun _ => false)) c t0 f0 il Hi) as (_ & _ & _ & _ & _ & _ & _ & Cw & Cl & _).
      auto. }
    destruct Hc as (Cw & Cl).
    destruct (mk_not_sem mkf Hmk _ _ Cw Cl En) as (Nw & Nl & Ne).
    destruct (split_args_sem _ _ _ _ _ Cw Cl Ne Hwf' Esp) as (Tw & Fw & Tl & Fl & Sem).
    assert (Htt : targs op ints ts) by (split; [auto|exists len; rewrite Tl, Hlen; auto]).
    assert (Htf : targs op ints fs) by (split; [auto|exists len; rewrite Fl, Hlen; auto]).
    destruct (Hmk _ _ _ _ Htt Et) as (Gtw & Gtl & Gte).
    destruct (Hmk _ _ _ _ Htf Efs) as (Gfw & Gfl & Gfe).
    assert (Hclt : calc_len op ints ts = len) by (apply calc_len_tyop; rewrite Tl, Hlen; auto).
    assert (Hclf : calc_len op ints fs = len) by (apply calc_len_tyop; rewrite Fl, Hlen; auto).
    assert (Hti : targs OIf [] [if_cond i; t; f]) by (apply targs_if; auto; lia).
    destruct (Hmk _ _ _ _ Hti H) as (Gw & Gl & Ge). cbn [calc_len] in Gl.
    split; [auto|]. split; [lia|]. intros rho. rewrite Ge.
    destruct (if_branch_eval rho _ t f _ (targs_plain_wf _ _ _ Hti)) as (cb & vt & vf & Ec & Evt & Evf & Ei & _).
    unfold plain. rewrite Ei.
    assert (Hev : map (eval rho) args' = map (eval rho) args).
    { clear -HF. induction HF as [|a a' l l' (_ & _ & He) _ IHl]; cbn; [auto|]. rewrite (He rho). f_equal. auto. }
    specialize (Sem rho). rewrite Ec in Sem. cbn [eval]. rewrite <- Hev.
    destruct cb.
    + rewrite <- Evt, Gte. unfold plain. cbn [eval]. rewrite Sem. reflexivity.
    + rewrite <- Evf, Gfe. unfold plain. cbn [eval]. rewrite Sem. reflexivity.
Qed.
End WithMk2.
