(* C23: operations lifted to sets of abstract values and to value sets are sound whenever the element-level operations are. *)
From Coq Require Import ZArith List Bool Lia.
Require Import CV.Model.PyPrelude CV.Model.Lift.
Import ListNotations.
Open Scope Z_scope.

Lemma mapM_ok {A B} (f : A -> res B) (Q : A -> B -> Prop) l :
  (forall a, In a l -> exists b, f a = Ok b /\ Q a b) -> exists bs, mapM f l = Ok bs /\ Forall2 Q l bs.
Proof.
  induction l as [|a r IH]; intros H; cbn [mapM].
  - exists []. split; [reflexivity|constructor].
  - destruct (H a (or_introl eq_refl)) as (b & Hb & Qb). destruct IH as (bs & Hbs & Qbs); [intros; apply H; right; auto|].
    exists (b :: bs). rewrite Hb. cbn [bind]. rewrite Hbs. cbn [bind]. split; [reflexivity|constructor; auto].
Qed.

Lemma Forall2_in_l {A B} (Q : A -> B -> Prop) l bs a : Forall2 Q l bs -> In a l -> exists b, In b bs /\ Q a b.
Proof.
  induction 1 as [|a' b' l' bs' Hq Hf IH]; intros Hin; [destruct Hin|]. destruct Hin as [<-|Hin].
  - exists b'. split; [left; reflexivity|auto].
  - destruct (IH Hin) as (b & Hb & Qb). exists b. split; [right; auto|auto].
Qed.

Lemma Forall2_all_r {A B} (Q : A -> B -> Prop) (P : B -> Prop) l bs : Forall2 Q l bs -> (forall a b, In a l -> Q a b -> P b) -> Forall P bs.
Proof. induction 1 as [|a b l' bs' Hq Hf IH]; intros H; constructor; [eapply H; [left; reflexivity|eauto]|apply IH; intros; eapply H; [right|]; eauto]. Qed.

Section LiftSound.
Variable A : Type.
Variable P : A -> Prop.                 (* well-formed elements *)
Variable gamma : A -> Z -> Prop.
Definition gset (s : list A) (x : Z) : Prop := exists a, In a s /\ gamma a x.

Variable f2 : A -> A -> res A.
Variable c2 : Z -> Z -> Z.
Variable Pre2 : A -> A -> Prop.         (* side condition of the element operation (same width, alignment, ...) *)
Hypothesis f2_sound : forall a b, P a -> P b -> Pre2 a b ->
  exists r, f2 a b = Ok r /\ P r /\ forall x y, gamma a x -> gamma b y -> gamma r (c2 x y).

Theorem lift2_sound s t : Forall P s -> Forall P t -> (forall a b, In a s -> In b t -> Pre2 a b) ->
  exists r, lift2 A f2 s t = Ok r /\ Forall P r /\ forall x y, gset s x -> gset t y -> gset r (c2 x y).
Proof.
  intros Hs Ht Hpre. rewrite Forall_forall in Hs, Ht.
  destruct (mapM_ok (fun ab => f2 (fst ab) (snd ab))
             (fun ab r => P r /\ forall x y, gamma (fst ab) x -> gamma (snd ab) y -> gamma r (c2 x y)) (list_prod s t)) as (r & Hr & Q).
  { intros [a b] Hin. apply in_prod_iff in Hin. destruct Hin as [Ha Hb]. cbn [fst snd].
    destruct (f2_sound a b (Hs a Ha) (Ht b Hb) (Hpre a b Ha Hb)) as (r & E & Pr & G). exists r. auto. }
  exists r. split; [exact Hr|]. split.
  - eapply Forall2_all_r; [exact Q|]. intros ab b _ [Pb _]. exact Pb.
  - intros x y (a & Ha & Gx) (b & Hb & Gy).
    destruct (Forall2_in_l _ _ _ (a, b) Q) as (c & Hc & _ & G); [apply in_prod; auto|].
    exists c. split; [auto|]. apply (G x y); auto.
Qed.

Variable f1 : A -> res A.
Variable c1 : Z -> Z.
Variable Pre1 : A -> Prop.
Hypothesis f1_sound : forall a, P a -> Pre1 a -> exists r, f1 a = Ok r /\ P r /\ forall x, gamma a x -> gamma r (c1 x).

Theorem lift1_sound s : Forall P s -> Forall Pre1 s ->
  exists r, lift1 A f1 s = Ok r /\ Forall P r /\ forall x, gset s x -> gset r (c1 x).
Proof.
  intros Hs Hp. rewrite Forall_forall in Hs, Hp.
  destruct (mapM_ok f1 (fun a r => P r /\ forall x, gamma a x -> gamma r (c1 x)) s) as (r & Hr & Q).
  { intros a Ha. destruct (f1_sound a (Hs a Ha) (Hp a Ha)) as (r & E & Pr & G). exists r. auto. }
  exists r. split; [exact Hr|]. split.
  - eapply Forall2_all_r; [exact Q|]. intros a b _ [Pb _]. exact Pb.
  - intros x (a & Ha & Gx). destruct (Forall2_in_l _ _ _ a Q Ha) as (c & Hc & _ & G). exists c. auto.
Qed.

(* ---- collapse / normalize ---- *)
Variable join : A -> A -> A.
Hypothesis join_sound : forall a b x, gamma a x \/ gamma b x -> gamma (join a b) x.
Variable card : A -> Z.

Lemma fold_join_acc r : forall a x, gamma a x -> gamma (fold_left join r a) x.
Proof. induction r as [|b r IH]; intros a x H; cbn [fold_left]; [auto|]. apply IH. apply join_sound. auto. Qed.

Lemma fold_join_mem r : forall a b x, In b r -> gamma b x -> gamma (fold_left join r a) x.
Proof.
  induction r as [|c r IH]; intros a b x Hin G; [destruct Hin|]. cbn [fold_left]. destruct Hin as [<-|Hin].
  - apply fold_join_acc. apply join_sound. auto.
  - eapply IH; eauto.
Qed.

Theorem collapse_sound s x : gset s x -> gset (collapse A join s) x.
Proof.
  intros (a & Ha & G). destruct s as [|b r]; [destruct Ha|]. cbn [collapse]. exists (fold_left join r b).
  split; [left; reflexivity|]. destruct Ha as [<-|Ha]; [apply fold_join_acc; auto|eapply fold_join_mem; eauto].
Qed.

Theorem normalize_sound max s x : gset s x -> gset (normalize A join card max s) x.
Proof. intros H. unfold normalize. destruct (max <? total_card A card s); [apply collapse_sound; auto|auto]. Qed.

(* ---- value sets: soundness holds separately for every region ---- *)
Variable R : Type.
Variable r_eqb : R -> R -> bool.
Hypothesis r_eqb_eq : forall a b, r_eqb a b = true <-> a = b.

Definition gvs (v : vset A R) (r : R) (x : Z) : Prop := exists a, vget A R r_eqb v r = Some a /\ gamma a x.
Definition vwf (v : vset A R) : Prop := Forall (fun ra => P (snd ra)) v.

Theorem vmap_sound v : vwf v -> Forall (fun ra => Pre1 (snd ra)) v ->
  exists w, vmap A R f1 v = Ok w /\ vwf w /\ forall r x, gvs v r x -> gvs w r (c1 x).
Proof.
  induction v as [|[k a] rest IH]; intros Hw Hp; cbn [vmap mapM].
  - exists []. split; [reflexivity|]. split; [constructor|]. intros r x (a & Ha & _). discriminate.
  - inversion Hw as [|? ? Pa Hw']; subst. inversion Hp as [|? ? Qa Hp']; subst. cbn [snd fst] in *.
    destruct (f1_sound a Pa Qa) as (b & Eb & Pb & Gb). destruct (IH Hw' Hp') as (w & Ew & Ww & Gw).
    exists ((k, b) :: w). rewrite Eb. cbn [bind]. unfold vmap in Ew. rewrite Ew. cbn [bind]. split; [reflexivity|].
    split; [constructor; auto|]. intros r x (a' & Ha & G). cbn [vget] in Ha. unfold gvs. cbn [vget].
    destruct (r_eqb k r); [inversion Ha; subst; exists b; auto|apply Gw; exists a'; auto].
Qed.

Lemma vget_filter_other w r k : r_eqb k r = false ->
  vget A R r_eqb (filter (fun kb => negb (r_eqb (fst kb) k)) w) r = vget A R r_eqb w r.
Proof.
  intros Hk. induction w as [|[q b] rest IH]; cbn [filter vget fst]; [reflexivity|].
  destruct (r_eqb q k) eqn:Eqk; cbn [negb].
  - apply r_eqb_eq in Eqk. subst q. rewrite Hk. exact IH.
  - cbn [vget]. destruct (r_eqb q r); [reflexivity|exact IH].
Qed.

Theorem vunion_sound v : forall w r x, gvs v r x \/ gvs w r x -> gvs (vunion A join R r_eqb v w) r x.
Proof.
  induction v as [|[k a] rest IH]; intros w r x H; cbn [vunion].
  - destruct H as [(b & Hb & _)|H]; [discriminate|exact H].
  - assert (Hkk : r_eqb k k = true) by (apply r_eqb_eq; reflexivity).
    destruct (vget A R r_eqb w k) as [b|] eqn:Ew.
    + destruct (r_eqb k r) eqn:Ekr.
      * exists (join a b). cbn [vget]. rewrite Ekr. split; [reflexivity|]. apply join_sound.
        apply r_eqb_eq in Ekr. subst r. destruct H as [(a' & Ha & G)|(b' & Hb & G)].
        -- cbn [vget] in Ha. rewrite Hkk in Ha. inversion Ha; subst. auto.
        -- rewrite Ew in Hb. inversion Hb; subst. auto.
      * assert (Hrec : gvs (vunion A join R r_eqb rest (filter (fun kb => negb (r_eqb (fst kb) k)) w)) r x).
        { apply IH. destruct H as [(a' & Ha & G)|(b' & Hb & G)].
          - left. exists a'. cbn [vget] in Ha. rewrite Ekr in Ha. auto.
          - right. exists b'. rewrite vget_filter_other by exact Ekr. auto. }
        destruct Hrec as (c & Hc & G). exists c. cbn [vget]. rewrite Ekr. auto.
    + destruct (r_eqb k r) eqn:Ekr.
      * apply r_eqb_eq in Ekr. subst r. destruct H as [(a' & Ha & G)|(b' & Hb & G)].
        -- exists a'. cbn [vget] in *. rewrite Hkk in *. auto.
        -- rewrite Ew in Hb. discriminate.
      * assert (Hrec : gvs (vunion A join R r_eqb rest w) r x).
        { apply IH. destruct H as [(a' & Ha & G)|H]; [left; exists a'; cbn [vget] in Ha; rewrite Ekr in Ha; auto|right; auto]. }
        destruct Hrec as (c & Hc & G). exists c. cbn [vget]. rewrite Ekr. auto.
Qed.
End LiftSound.
