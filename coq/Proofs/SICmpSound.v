(* C21: the unsigned comparisons of strided intervals never claim TrueResult / FalseResult wrongly.
   Every member of an interval lies between one of the (lower, upper) pairs of _unsigned_bounds; the decision
   is definite only when every pair of pairs agrees, so it holds for every pair of members. *)
From Coq Require Import ZArith List Bool Lia.
Require Import CV.Model.PyPrelude CV.Gen.SIHelpers CV.Model.SI CV.Model.SICmp CV.Proofs.SISound.
Import ListNotations.
Open Scope Z_scope.

(* what the constructor does to bounds that are already in range: it keeps them or widens them to everything *)
Lemma mk_bounds w s l u r :
  0 < w < SHIFT_LIMIT -> 0 <= l < 2 ^ w -> 0 <= u < 2 ^ w ->
  mk w s l u = Ok r -> (lb r = l /\ ub r = u) \/ (lb r = 0 /\ ub r = 2 ^ w - 1 /\ l = (u + 1) mod 2 ^ w /\ s = 1).
Proof.
  intros Hw Hl Hu. unfold mk, normalize. cbn [bot bits lb ub stride].
  rewrite pow_ok by lia. cbn [bind]. rewrite !land_mask by lia.
  rewrite modular_add_ok by lia. cbn [bind].
  rewrite (Z.mod_small l), (Z.mod_small u) by lia.
  destruct ((l =? (u + 1) mod 2 ^ w) && ((if l =? u then 0 else s) =? 1)) eqn:E.
  - rewrite max_int_ok by lia. cbn [bind fst snd].
    apply andb_true_iff in E. destruct E as [E E1]. apply Z.eqb_eq in E. apply Z.eqb_eq in E1.
    destruct (l =? u); [discriminate E1|].
    destruct (s <? 0); [discriminate|].
    intros H; inversion H; subst r; cbn [lb ub]. right. split; [reflexivity|]. split; [lia|]. split; [exact E|exact E1].
  - cbn [bind fst snd].
    destruct ((if l =? u then 0 else s) <? 0); [discriminate|].
    intros H; inversion H; subst; cbn [lb ub]. left; lia.
Qed.

Definition covers (bs : list (Z * Z)) (x : Z) : Prop := exists p, In p bs /\ fst p <= x <= snd p.

Definition raw_bounds (a : si) : res (list (Z * Z)) := do l <- ssplit a; Ok (map bnd l).

Lemma raw_bounds_cover a bs x : wf a -> raw_bounds a = Ok bs -> gamma a x -> covers bs x.
Proof.
  intros (Hb & Hw & Hs & Hl & Hu) Hbs (_ & k & Hk & Hks & Hx).
  pose proof (pow_pos (bits a) ltac:(lia)) as Hn.
  unfold raw_bounds, bnd, ssplit in Hbs. rewrite max_int_ok in Hbs by lia. cbn [bind] in Hbs.
  unfold span in Hks.
  set (n := 2 ^ bits a) in *.
  destruct (ub a <? lb a) eqn:E.
  - apply Z.ltb_lt in E.
    unfold py_mod in Hbs. destruct (stride a =? 0) eqn:Es; [discriminate|]. apply Z.eqb_neq in Es.
    cbn [bind] in Hbs.
    assert (Hsp : 0 < stride a) by lia.
    pose proof (Z.div_mod (n - 1 - lb a) (stride a) ltac:(lia)) as Hdm.
    pose proof (Z.mod_pos_bound (n - 1 - lb a) (stride a) Hsp) as Hr.
    assert (Hq : 0 <= (n - 1 - lb a) / stride a) by (apply Z.div_pos; lia).
    set (q := (n - 1 - lb a) / stride a) in *.
    set (r := (n - 1 - lb a) mod stride a) in *.
    assert (Hau : lb a <= n - 1 - r < n) by nia.
    destruct (mk (bits a) (stride a) (lb a) (n - 1 - r)) as [A| | |] eqn:EA; try discriminate.
    cbn [bind] in Hbs. rewrite modular_add_ok in Hbs by lia. cbn [bind] in Hbs. fold n in Hbs.
    destruct (mk (bits a) (stride a) ((n - 1 - r + stride a) mod n) (ub a)) as [B| | |] eqn:EB; try discriminate.
    cbn [bind] in Hbs. inversion Hbs; subst bs; clear Hbs. cbn [map].
    pose proof (Z.mod_pos_bound (n - 1 - r + stride a) n Hn) as Hbl.
    apply mk_bounds in EA; [|lia|fold n; lia|fold n; lia].
    apply mk_bounds in EB; [|lia|fold n; lia|fold n; lia].
    fold n in EA, EB.
    rewrite (mod_minus n (ub a - lb a)) in Hks by lia.
    destruct (Z.lt_ge_cases (lb a + k * stride a) n) as [Hlt|Hge].
    + (* the member is below 2^bits: first half *)
      rewrite Z.mod_small in Hx by nia.
      exists (lb A, ub A). split; [left; reflexivity|]. cbn [fst snd].
      assert (k <= q) by nia.
      destruct EA as [[-> ->]|(-> & -> & _ & _)]; nia.
    + (* the member wrapped: second half *)
      rewrite (mod_plus n) in Hx by nia.
      exists (lb B, ub B). split; [right; left; reflexivity|]. cbn [fst snd].
      assert (Hkq : q + 1 <= k) by nia.
      assert (Hsn : stride a < n) by nia.
      rewrite (mod_plus n) in EB by nia.
      destruct EB as [[-> ->]|(-> & -> & _ & _)]; nia.
  - apply Z.ltb_ge in E. inversion Hbs; subst bs; clear Hbs. cbn [map].
    exists (lb a, ub a). split; [left; reflexivity|]. cbn [fst snd].
    rewrite Z.mod_small in Hks by lia. rewrite Z.mod_small in Hx by nia. nia.
Qed.

Lemma bounds_cover a bs x : wf a -> unsigned_bounds a = Ok bs -> gamma a x -> covers bs x.
Proof.
  intros Hwf Hbs Hg. unfold unsigned_bounds in Hbs.
  destruct (ssplit a) as [l| | |] eqn:El; try discriminate. cbn [bind] in Hbs.
  assert (Hraw : raw_bounds a = Ok (map bnd l)) by (unfold raw_bounds; rewrite El; reflexivity).
  destruct (raw_bounds_cover a _ x Hwf Hraw Hg) as (p & Hp & Hr).
  inversion Hbs; subst bs; clear Hbs.
  destruct l as [|p1 [|p2 [|p3 l']]]; try (exists p; split; assumption).
  destruct (ub p2 <? lb p2) eqn:E; [|exists p; split; assumption].
  apply Z.ltb_lt in E. destruct Hp as [<-|[<-|[]]].
  - exists (bnd p1). split; [left; reflexivity|exact Hr].
  - unfold bnd in Hr; cbn [fst snd] in Hr. lia.
Qed.

Lemma decide_elem (t f : Z -> Z -> Z -> Z -> bool) (b1 b2 : list (Z * Z)) (p1 p2 : Z * Z) :
  In p1 b1 -> In p2 b2 ->
  In (if t (fst p1) (snd p1) (fst p2) (snd p2) then TT
      else if f (fst p1) (snd p1) (fst p2) (snd p2) then TF else TM)
     (flat_map (fun p1 : Z * Z => map (fun p2 : Z * Z =>
              if t (fst p1) (snd p1) (fst p2) (snd p2) then TT
              else if f (fst p1) (snd p1) (fst p2) (snd p2) then TF else TM) b2) b1).
Proof.
  intros H1 H2. apply in_flat_map. exists p1. split; [exact H1|].
  apply (in_map (fun p2 : Z * Z => if t (fst p1) (snd p1) (fst p2) (snd p2) then TT
              else if f (fst p1) (snd p1) (fst p2) (snd p2) then TF else TM)). exact H2.
Qed.

Lemma decide_tt t f b1 b2 p1 p2 :
  decide t f b1 b2 = TT -> In p1 b1 -> In p2 b2 -> t (fst p1) (snd p1) (fst p2) (snd p2) = true.
Proof.
  intros Hd H1 H2. unfold decide in Hd.
  pose proof (decide_elem t f b1 b2 p1 p2 H1 H2) as Hin.
  destruct (forallb is_tt _) eqn:E1.
  - rewrite forallb_forall in E1. specialize (E1 _ Hin).
    destruct (t (fst p1) (snd p1) (fst p2) (snd p2)); [reflexivity|].
    destruct (f (fst p1) (snd p1) (fst p2) (snd p2)); discriminate E1.
  - destruct (forallb is_tf _); discriminate Hd.
Qed.

Lemma decide_tf t f b1 b2 p1 p2 :
  decide t f b1 b2 = TF -> In p1 b1 -> In p2 b2 -> f (fst p1) (snd p1) (fst p2) (snd p2) = true.
Proof.
  intros Hd H1 H2. unfold decide in Hd.
  pose proof (decide_elem t f b1 b2 p1 p2 H1 H2) as Hin.
  destruct (forallb is_tt _) eqn:E1; [discriminate Hd|].
  destruct (forallb is_tf _) eqn:E2; [|discriminate Hd].
  rewrite forallb_forall in E2. specialize (E2 _ Hin).
  destruct (t (fst p1) (snd p1) (fst p2) (snd p2)); [discriminate E2|].
  destruct (f (fst p1) (snd p1) (fst p2) (snd p2)); [reflexivity|discriminate E2].
Qed.

(* the shared argument: R is the relation decided, t / f the tests on bounds that append True / False *)
Lemma cmp_sound t f (R : Z -> Z -> Prop) :
  (forall l1 u1 l2 u2 x y, t l1 u1 l2 u2 = true -> l1 <= x <= u1 -> l2 <= y <= u2 -> R x y) ->
  (forall l1 u1 l2 u2 x y, f l1 u1 l2 u2 = true -> l1 <= x <= u1 -> l2 <= y <= u2 -> ~ R x y) ->
  forall a b r x y, wf a -> wf b -> cmp_with t f a b = Ok r -> gamma a x -> gamma b y ->
    (r = TT -> R x y) /\ (r = TF -> ~ R x y).
Proof.
  intros Ht Hf a b r x y Ha Hb Hc Hx Hy. unfold cmp_with in Hc.
  destruct (bot a || bot b); [discriminate|].
  destruct (negb (bits a =? bits b)); [discriminate|].
  destruct (unsigned_bounds a) as [b1| | |] eqn:E1; try discriminate.
  destruct (unsigned_bounds b) as [b2| | |] eqn:E2; try discriminate.
  cbn [bind] in Hc. inversion Hc; subst r; clear Hc.
  destruct (bounds_cover a b1 x Ha E1 Hx) as (p1 & Hp1 & Hr1).
  destruct (bounds_cover b b2 y Hb E2 Hy) as (p2 & Hp2 & Hr2).
  split; intros Hd.
  - eapply Ht; [exact (decide_tt t f b1 b2 p1 p2 Hd Hp1 Hp2)|exact Hr1|exact Hr2].
  - eapply Hf; [exact (decide_tf t f b1 b2 p1 p2 Hd Hp1 Hp2)|exact Hr1|exact Hr2].
Qed.

Theorem ult_sound a b r x y : wf a -> wf b -> si_ult a b = Ok r -> gamma a x -> gamma b y ->
  (r = TT -> x < y) /\ (r = TF -> ~ x < y).
Proof. apply (cmp_sound t_lt t_ge Z.lt); unfold t_lt, t_ge; intros; lia. Qed.

Theorem ule_sound a b r x y : wf a -> wf b -> si_ule a b = Ok r -> gamma a x -> gamma b y ->
  (r = TT -> x <= y) /\ (r = TF -> ~ x <= y).
Proof. apply (cmp_sound t_le t_gt Z.le); unfold t_le, t_gt; intros; lia. Qed.

Theorem ugt_sound a b r x y : wf a -> wf b -> si_ugt a b = Ok r -> gamma a x -> gamma b y ->
  (r = TT -> x > y) /\ (r = TF -> ~ x > y).
Proof. apply (cmp_sound t_gt t_le Z.gt); unfold t_gt, t_le; intros; lia. Qed.

Theorem uge_sound a b r x y : wf a -> wf b -> si_uge a b = Ok r -> gamma a x -> gamma b y ->
  (r = TT -> x >= y) /\ (r = TF -> ~ x >= y).
Proof. apply (cmp_sound t_ge t_lt Z.ge); unfold t_ge, t_lt; intros; lia. Qed.

(* the comparison is answered (no exception) whenever a wrapping operand has a positive stride *)
Lemma bounds_total a : wf a -> (lb a <= ub a \/ 0 < stride a) -> exists bs, unsigned_bounds a = Ok bs.
Proof.
  intros (Hb & Hw & Hs & Hl & Hu) Hc.
  pose proof (pow_pos (bits a) ltac:(lia)) as Hn.
  unfold unsigned_bounds, ssplit. rewrite max_int_ok by lia. cbn [bind].
  destruct (ub a <? lb a) eqn:E; [|eexists; reflexivity].
  apply Z.ltb_lt in E. unfold py_mod. destruct (stride a =? 0) eqn:Es; [lia|]. cbn [bind].
  destruct (mk_sound (bits a) (stride a) (lb a) (2 ^ bits a - 1 - (2 ^ bits a - 1 - lb a) mod stride a) Hw Hs)
    as (A & -> & _). cbn [bind]. rewrite modular_add_ok by lia. cbn [bind].
  match goal with |- context [mk ?w ?s ?l ?u] => destruct (mk_sound w s l u Hw Hs) as (B & -> & _) end.
  cbn [bind]. eexists; reflexivity.
Qed.

Theorem cmp_total t f a b : wf a -> wf b -> bits a = bits b ->
  (lb a <= ub a \/ 0 < stride a) -> (lb b <= ub b \/ 0 < stride b) -> exists r, cmp_with t f a b = Ok r.
Proof.
  intros Ha Hb Hw Hca Hcb. unfold cmp_with.
  destruct Ha as (Hba & Ha'). destruct Hb as (Hbb & Hb'). rewrite Hba, Hbb. cbn [orb].
  rewrite Hw, Z.eqb_refl. cbn [negb].
  destruct (bounds_total a (conj Hba Ha') Hca) as (b1 & ->).
  destruct (bounds_total b (conj Hbb Hb') Hcb) as (b2 & ->).
  cbn [bind]. eexists; reflexivity.
Qed.

(* the premises are met and all three answers occur: 4-bit 4[14, 6] = {14, 2, 6} against 1[7, 13], 2[1, 5], 0[15, 15] *)
Example cmp_examples :
  let a := mkSI 4 4 14 6 false in
  wf a /\ si_ult a (mkSI 4 1 7 13 false) = Ok TM /\ si_ult a (mkSI 4 2 1 5 false) = Ok TM /\
  si_ult a (mkSI 4 0 15 15 false) = Ok TT /\ si_uge (mkSI 4 1 7 13 false) (mkSI 4 2 1 5 false) = Ok TT /\
  si_ult (mkSI 4 1 7 13 false) (mkSI 4 2 1 5 false) = Ok TF.
Proof. cbv zeta. split; [repeat split; cbn; unfold SHIFT_LIMIT; lia|]. vm_compute. repeat split. Qed.

(* ---------------- signed comparisons ---------------- *)

Lemma land_pow2 v k : 0 <= k -> Z.land v (2 ^ k) = if Z.testbit v k then 2 ^ k else 0.
Proof.
  intros Hk. apply Z.bits_inj'. intros m Hm. rewrite Z.land_spec, Z.pow2_bits_eqb by lia.
  destruct (Z.eqb_spec k m) as [->|Hne].
  - destruct (Z.testbit v m); [rewrite Z.pow2_bits_true by lia; reflexivity|rewrite Z.bits_0; reflexivity].
  - rewrite andb_false_r. destruct (Z.testbit v k); [rewrite Z.pow2_bits_false by lia; reflexivity|rewrite Z.bits_0; reflexivity].
Qed.

Lemma testbit_top v k : 0 <= k -> 0 <= v < 2 ^ (k + 1) -> Z.testbit v k = (2 ^ k <=? v).
Proof.
  intros Hk Hv. rewrite Z.pow_add_r in Hv by lia. change (2 ^ 1) with 2 in Hv.
  pose proof (pow_pos k Hk) as Hp.
  rewrite Z.testbit_eqb by lia.
  destruct (Z.leb_spec (2 ^ k) v) as [H|H].
  - assert (v / 2 ^ k = 1) as -> by (symmetry; apply (Z.div_unique v (2 ^ k) 1 (v - 2 ^ k)); lia). reflexivity.
  - rewrite Z.div_small by lia. reflexivity.
Qed.

Lemma u2s_ok v w : 0 < w < SHIFT_LIMIT -> 0 <= v < 2 ^ w -> si_unsigned_to_signed v w = Ok (sgn w v).
Proof.
  intros Hw Hv. unfold si_unsigned_to_signed, si_is_msb_zero, sgn.
  rewrite !pow_ok by lia. cbn [bind].
  rewrite land_mask by lia. rewrite (Z.mod_small v) by lia.
  rewrite land_pow2 by lia.
  rewrite testbit_top by (try lia; replace (w - 1 + 1) with w by lia; lia).
  pose proof (pow_pos (w - 1) ltac:(lia)) as Hp.
  destruct (Z.leb_spec (2 ^ (w - 1)) v) as [H|H].
  - replace (2 ^ (w - 1) =? 0) with false by (symmetry; apply Z.eqb_neq; lia).
    destruct (Z.ltb_spec v (2 ^ (w - 1))); [lia|]. f_equal. lia.
  - rewrite Z.eqb_refl. destruct (Z.ltb_spec v (2 ^ (w - 1))); [reflexivity|lia].
Qed.

(* a plain (non-wrapping) member of a piece: lb + j*stride, not beyond ub *)
Definition plain_member (p : si) (x : Z) : Prop :=
  lb p <= ub p /\ exists j, 0 <= j /\ x = lb p + j * stride p /\ x <= ub p.

(* the constructor applied to in-range bounds l <= u keeps every l + j*s <= u as a plain member *)
Lemma mk_member w s l u r j :
  0 < w < SHIFT_LIMIT -> 0 <= s -> 0 <= l -> l <= u -> u < 2 ^ w -> mk w s l u = Ok r ->
  0 <= j -> l + j * s <= u ->
  wf r /\ bits r = w /\ plain_member r (l + j * s) /\ ((lb r = l /\ ub r = u) \/ (lb r = 0 /\ ub r = 2 ^ w - 1 /\ s = 1)).
Proof.
  intros Hw Hs Hl Hlu Hu Hmk Hj Hm.
  destruct (mk_sound w s l u Hw Hs) as (r' & Hr' & Hwf & Hb & _).
  rewrite Hmk in Hr'. inversion Hr'; subst r'; clear Hr'.
  split; [exact Hwf|]. split; [exact Hb|].
  unfold plain_member. revert Hmk. unfold mk, normalize. cbn [bot bits lb ub stride].
  rewrite pow_ok by lia. cbn [bind]. rewrite !land_mask by lia.
  rewrite modular_add_ok by lia. cbn [bind].
  rewrite (Z.mod_small l), (Z.mod_small u) by lia.
  destruct (Z.eqb_spec l u) as [Elu|Elu].
  - replace ((l =? (u + 1) mod 2 ^ w) && (0 =? 1)) with false by (rewrite andb_false_r; reflexivity).
    cbn [bind fst snd Z.ltb Z.compare]. intros H; inversion H; subst r; clear H. cbn [lb ub stride].
    split; [|left; split; reflexivity].
    split; [lia|]. exists 0. nia.
  - destruct ((l =? (u + 1) mod 2 ^ w) && (s =? 1)) eqn:E.
    + apply andb_true_iff in E. destruct E as [_ E2]. apply Z.eqb_eq in E2.
      rewrite max_int_ok by lia. cbn [bind fst snd].
      destruct (s <? 0) eqn:Es; [discriminate|]. intros H; inversion H; subst r; clear H. cbn [lb ub stride].
      split; [|right; repeat split; lia].
      split; [lia|]. exists (l + j * s). nia.
    + cbn [bind fst snd]. destruct (s <? 0) eqn:Es; [discriminate|].
      intros H; inversion H; subst r; clear H. cbn [lb ub stride].
      split; [|left; split; reflexivity].
      split; [lia|]. exists j. lia.
Qed.

(* every member of an interval is a plain member of one of the pieces of _ssplit *)
Lemma ssplit_cover a ps x : wf a -> ssplit a = Ok ps -> gamma a x ->
  exists p, In p ps /\ wf p /\ bits p = bits a /\ plain_member p x.
Proof.
  intros Hwf Hps Hg. pose proof Hwf as (Hb & Hw & Hs & Hl & Hu). destruct Hg as (_ & k & Hk & Hks & Hx).
  pose proof (pow_pos (bits a) ltac:(lia)) as Hn.
  unfold ssplit in Hps. rewrite max_int_ok in Hps by lia. cbn [bind] in Hps.
  unfold span in Hks.
  destruct (ub a <? lb a) eqn:E.
  - apply Z.ltb_lt in E.
    unfold py_mod in Hps. destruct (stride a =? 0) eqn:Es; [discriminate|]. apply Z.eqb_neq in Es.
    cbn [bind] in Hps.
    assert (Hsp : 0 < stride a) by lia.
    set (n := 2 ^ bits a) in *.
    pose proof (Z.div_mod (n - 1 - lb a) (stride a) ltac:(lia)) as Hdm.
    pose proof (Z.mod_pos_bound (n - 1 - lb a) (stride a) Hsp) as Hr.
    assert (Hq : 0 <= (n - 1 - lb a) / stride a) by (apply Z.div_pos; lia).
    set (q := (n - 1 - lb a) / stride a) in *.
    set (r := (n - 1 - lb a) mod stride a) in *.
    assert (Hau : lb a <= n - 1 - r < n) by nia.
    destruct (mk (bits a) (stride a) (lb a) (n - 1 - r)) as [A| | |] eqn:EA; try discriminate.
    cbn [bind] in Hps. rewrite modular_add_ok in Hps by lia. cbn [bind] in Hps. fold n in Hps.
    destruct (mk (bits a) (stride a) ((n - 1 - r + stride a) mod n) (ub a)) as [B| | |] eqn:EB; try discriminate.
    cbn [bind] in Hps. inversion Hps; subst ps; clear Hps.
    rewrite (mod_minus n (ub a - lb a)) in Hks by lia.
    destruct (Z.lt_ge_cases (lb a + k * stride a) n) as [Hlt|Hge].
    + rewrite Z.mod_small in Hx by nia. assert (k <= q) by nia.
      destruct (mk_member (bits a) (stride a) (lb a) (n - 1 - r) A k Hw Hs ltac:(lia) ltac:(lia) ltac:(fold n; lia) EA Hk ltac:(nia))
        as (HwA & HbA & HmA & _).
      exists A. split; [left; reflexivity|]. split; [exact HwA|]. split; [exact HbA|]. rewrite Hx. exact HmA.
    + rewrite (mod_plus n) in Hx by nia.
      assert (Hkq : q + 1 <= k) by nia.
      assert (Hsn : stride a < n) by nia.
      rewrite (mod_plus n) in EB by nia.
      destruct (mk_member (bits a) (stride a) (n - 1 - r + stride a - n) (ub a) B (k - q - 1) Hw Hs ltac:(nia) ltac:(nia) ltac:(fold n; lia) EB ltac:(lia) ltac:(nia))
        as (HwB & HbB & HmB & _).
      exists B. split; [right; left; reflexivity|]. split; [exact HwB|]. split; [exact HbB|].
      replace x with (n - 1 - r + stride a - n + (k - q - 1) * stride a) by nia. exact HmB.
  - apply Z.ltb_ge in E. inversion Hps; subst ps; clear Hps.
    exists a. split; [left; reflexivity|]. split; [exact Hwf|]. split; [reflexivity|].
    rewrite Z.mod_small in Hks by lia. rewrite Z.mod_small in Hx by nia.
    split; [exact E|]. exists k. nia.
Qed.

(* a plain member of a piece lies between the bounds of one half of _nsplit, which is in one hemisphere *)
Lemma nsplit_cover p hs x : wf p -> nsplit p = Ok hs -> plain_member p x ->
  exists h, In h hs /\ lb h <= x <= ub h /\ 0 <= lb h /\ ub h < 2 ^ bits p /\
            (ub h < 2 ^ (bits p - 1) \/ 2 ^ (bits p - 1) <= lb h).
Proof.
  intros (Hb & Hw & Hs & Hl & Hu) Hhs (Hlu & j & Hj & Hx & Hxu).
  pose proof (pow_pos (bits p - 1) ltac:(lia)) as Hh.
  assert (H2 : 2 ^ bits p = 2 * 2 ^ (bits p - 1)).
  { replace (bits p) with (bits p - 1 + 1) at 1 by lia. rewrite Z.pow_add_r by lia. change (2 ^ 1) with 2. lia. }
  unfold nsplit in Hhs. rewrite max_int_ok, pow_ok in Hhs by lia. cbn [bind] in Hhs.
  set (h := 2 ^ (bits p - 1)) in *.
  destruct (ub p <? lb p) eqn:Ew; [apply Z.ltb_lt in Ew; lia|]. rewrite andb_false_l in Hhs.
  destruct (h <=? ub p) eqn:E1.
  - apply Z.leb_le in E1. destruct (lb p <=? h - 1) eqn:E2.
    + apply Z.leb_le in E2.
      unfold py_mod in Hhs. destruct (stride p =? 0) eqn:Es; [discriminate|]. apply Z.eqb_neq in Es.
      cbn [bind] in Hhs. assert (Hsp : 0 < stride p) by lia.
      pose proof (Z.div_mod (h - 1 - lb p) (stride p) ltac:(lia)) as Hdm.
      pose proof (Z.mod_pos_bound (h - 1 - lb p) (stride p) Hsp) as Hr.
      assert (Hq : 0 <= (h - 1 - lb p) / stride p) by (apply Z.div_pos; lia).
      set (q := (h - 1 - lb p) / stride p) in *.
      set (r := (h - 1 - lb p) mod stride p) in *.
      destruct (mk (bits p) (stride p) (lb p) (h - 1 - r)) as [A| | |] eqn:EA; try discriminate.
      cbn [bind] in Hhs.
      destruct (mk (bits p) (stride p) (h - 1 - r + stride p) (ub p)) as [B| | |] eqn:EB; try discriminate.
      cbn [bind] in Hhs. inversion Hhs; subst hs; clear Hhs.
      destruct (Z.lt_ge_cases x h) as [Hlt|Hge].
      * assert (j <= q) by nia.
        apply mk_bounds in EA; [|lia|lia|nia].
        exists A. split; [left; reflexivity|].
        destruct EA as [[-> ->]|(_ & _ & Etop & _)].
        -- repeat split; try nia; left; nia.
        -- (* TOP cannot arise here *) exfalso. rewrite Z.mod_small in Etop by nia. nia.
      * assert (q + 1 <= j) by nia.
        apply mk_bounds in EB; [|lia|nia|lia].
        exists B. split; [right; left; reflexivity|].
        destruct EB as [[-> ->]|(_ & _ & Etop & _)].
        -- repeat split; try nia; right; nia.
        -- exfalso. destruct (Z.eq_dec (ub p + 1) (2 ^ bits p)) as [Ee|Ee].
           ++ rewrite Ee, Z.mod_same in Etop by lia. nia.
           ++ rewrite Z.mod_small in Etop by lia. nia.
    + apply Z.leb_gt in E2. inversion Hhs; subst hs; clear Hhs.
      exists p. split; [left; reflexivity|]. repeat split; try nia; right; lia.
  - apply Z.leb_gt in E1. inversion Hhs; subst hs; clear Hhs.
    exists p. split; [left; reflexivity|]. repeat split; try nia; left; lia.
Qed.

Lemma sgn_mono w l x u : 0 < w -> 0 <= l -> l <= x <= u -> u < 2 ^ w ->
  (u < 2 ^ (w - 1) \/ 2 ^ (w - 1) <= l) -> sgn w l <= sgn w x <= sgn w u.
Proof.
  intros Hw Hl Hx Hu Hh. unfold sgn.
  destruct (Z.ltb_spec l (2 ^ (w - 1))); destruct (Z.ltb_spec x (2 ^ (w - 1))); destruct (Z.ltb_spec u (2 ^ (w - 1))); lia.
Qed.

Lemma half_bounds_in w hs : 0 < w < SHIFT_LIMIT -> forall bs h,
  half_bounds w hs = Ok bs -> In h hs -> lb h <= ub h -> 0 <= lb h -> ub h < 2 ^ w ->
  (ub h < 2 ^ (w - 1) \/ 2 ^ (w - 1) <= lb h) ->
  In (sgn w (lb h), sgn w (ub h)) bs.
Proof.
  intros Hw. induction hs as [|h0 rest IH]; intros bs h Hb Hin Hlu Hl Hu Hhemi; [destruct Hin|].
  cbn [half_bounds] in Hb.
  destruct (si_unsigned_to_signed (lb h0) w) as [l0| | |] eqn:E1; try discriminate. cbn [bind] in Hb.
  destruct (si_unsigned_to_signed (ub h0) w) as [u0| | |] eqn:E2; try discriminate. cbn [bind] in Hb.
  destruct (u0 <? l0) eqn:E.
  - destruct Hin as [->|Hin]; [|exact (IH bs h Hb Hin Hlu Hl Hu Hhemi)].
    (* the half that covers a member is never skipped: within one hemisphere the signed reading is monotone *)
    exfalso. rewrite u2s_ok in E1, E2 by lia. inversion E1; inversion E2; subst l0 u0.
    apply Z.ltb_lt in E. pose proof (sgn_mono w (lb h) (lb h) (ub h) ltac:(lia) Hl ltac:(lia) Hu Hhemi). lia.
  - destruct (half_bounds w rest) as [bs0| | |] eqn:E3; try discriminate. cbn [bind] in Hb.
    inversion Hb; subst bs; clear Hb.
    destruct Hin as [->|Hin].
    + rewrite u2s_ok in E1, E2 by lia. inversion E1; inversion E2. left; reflexivity.
    + right. exact (IH bs0 h eq_refl Hin Hlu Hl Hu Hhemi).
Qed.

Lemma piece_bounds_in a ps : forall bs p,
  piece_bounds a ps = Ok bs -> In p ps -> lb p <= ub p ->
  exists hs b, nsplit p = Ok hs /\ half_bounds (bits a) hs = Ok b /\ (forall e, In e b -> In e bs).
Proof.
  induction ps as [|p0 rest IH]; intros bs p Hb Hin Hlu; [destruct Hin|].
  cbn [piece_bounds] in Hb. destruct (ub p0 <? lb p0) eqn:E.
  - destruct Hin as [->|Hin]; [apply Z.ltb_lt in E; lia|]. exact (IH bs p Hb Hin Hlu).
  - destruct (nsplit p0) as [hs0| | |] eqn:E1; try discriminate. cbn [bind] in Hb.
    destruct (half_bounds (bits a) hs0) as [b0| | |] eqn:E2; try discriminate. cbn [bind] in Hb.
    destruct (piece_bounds a rest) as [bs0| | |] eqn:E3; try discriminate. cbn [bind] in Hb.
    inversion Hb; subst bs; clear Hb.
    destruct Hin as [->|Hin].
    + exists hs0, b0. split; [exact E1|]. split; [exact E2|]. intros e He. apply in_or_app. left; exact He.
    + destruct (IH bs0 p eq_refl Hin Hlu) as (hs & b & H1 & H2 & H3).
      exists hs, b. split; [exact H1|]. split; [exact H2|]. intros e He. apply in_or_app. right. exact (H3 e He).
Qed.

(* the signed reading of every member lies between one of the pairs of _signed_bounds *)
Lemma signed_cover a bs x : wf a -> signed_bounds a = Ok bs -> gamma a x -> covers bs (sgn (bits a) x).
Proof.
  intros Hwf Hbs Hg. pose proof Hwf as (_ & Hw & _).
  unfold signed_bounds in Hbs. destruct (ssplit a) as [ps| | |] eqn:Eps; try discriminate. cbn [bind] in Hbs.
  destruct (ssplit_cover a ps x Hwf Eps Hg) as (p & Hp & Hwp & Hbp & Hm).
  destruct (piece_bounds_in a ps bs p Hbs Hp (proj1 Hm)) as (hs & b & Hn & Hh & Hsub).
  destruct (nsplit_cover p hs x Hwp Hn Hm) as (h & Hin & Hx & Hl & Hu & Hhemi).
  rewrite Hbp in Hu, Hhemi.
  exists (sgn (bits a) (lb h), sgn (bits a) (ub h)). split.
  - apply Hsub. apply (half_bounds_in (bits a) hs Hw b h Hh Hin); lia.
  - cbn [fst snd]. apply sgn_mono; lia.
Qed.

Lemma scmp_sound t f (R : Z -> Z -> Prop) :
  (forall l1 u1 l2 u2 x y, t l1 u1 l2 u2 = true -> l1 <= x <= u1 -> l2 <= y <= u2 -> R x y) ->
  (forall l1 u1 l2 u2 x y, f l1 u1 l2 u2 = true -> l1 <= x <= u1 -> l2 <= y <= u2 -> ~ R x y) ->
  forall a b r x y, wf a -> wf b -> scmp_with t f a b = Ok r -> gamma a x -> gamma b y ->
    (r = TT -> R (sgn (bits a) x) (sgn (bits a) y)) /\ (r = TF -> ~ R (sgn (bits a) x) (sgn (bits a) y)).
Proof.
  intros Ht Hf a b r x y Ha Hb Hc Hx Hy. unfold scmp_with in Hc.
  destruct (bot a || bot b); [discriminate|].
  destruct (bits a =? bits b) eqn:Ew; [|discriminate]. apply Z.eqb_eq in Ew. cbn [negb] in Hc.
  destruct (signed_bounds a) as [b1| | |] eqn:E1; try discriminate.
  destruct (signed_bounds b) as [b2| | |] eqn:E2; try discriminate.
  cbn [bind] in Hc. inversion Hc; subst r; clear Hc.
  destruct (signed_cover a b1 x Ha E1 Hx) as (p1 & Hp1 & Hr1).
  destruct (signed_cover b b2 y Hb E2 Hy) as (p2 & Hp2 & Hr2).
  rewrite <- Ew in Hr2.
  split; intros Hd.
  - eapply Ht; [exact (decide_tt t f b1 b2 p1 p2 Hd Hp1 Hp2)|exact Hr1|exact Hr2].
  - eapply Hf; [exact (decide_tf t f b1 b2 p1 p2 Hd Hp1 Hp2)|exact Hr1|exact Hr2].
Qed.

Theorem slt_sound a b r x y : wf a -> wf b -> si_slt a b = Ok r -> gamma a x -> gamma b y ->
  (r = TT -> sgn (bits a) x < sgn (bits a) y) /\ (r = TF -> ~ sgn (bits a) x < sgn (bits a) y).
Proof. apply (scmp_sound t_lt t_ge Z.lt); unfold t_lt, t_ge; intros; lia. Qed.

Theorem sle_sound a b r x y : wf a -> wf b -> si_sle a b = Ok r -> gamma a x -> gamma b y ->
  (r = TT -> sgn (bits a) x <= sgn (bits a) y) /\ (r = TF -> ~ sgn (bits a) x <= sgn (bits a) y).
Proof. apply (scmp_sound t_le t_gt Z.le); unfold t_le, t_gt; intros; lia. Qed.

Theorem sgt_sound a b r x y : wf a -> wf b -> si_sgt a b = Ok r -> gamma a x -> gamma b y ->
  (r = TT -> sgn (bits a) x > sgn (bits a) y) /\ (r = TF -> ~ sgn (bits a) x > sgn (bits a) y).
Proof. apply (scmp_sound t_gt t_le Z.gt); unfold t_gt, t_le; intros; lia. Qed.

Theorem sge_sound a b r x y : wf a -> wf b -> si_sge a b = Ok r -> gamma a x -> gamma b y ->
  (r = TT -> sgn (bits a) x >= sgn (bits a) y) /\ (r = TF -> ~ sgn (bits a) x >= sgn (bits a) y).
Proof. apply (scmp_sound t_ge t_lt Z.ge); unfold t_ge, t_lt; intros; lia. Qed.

(* the pinned _signed_bounds (split at the north pole only, no conversion of the left half) on the witness of the
   known finding, 3 bits: {1, 2} >=s {7, 2} was answered TrueResult although 1 >=s 2 is false.  The repaired
   function answers Maybe. *)
Example sge_repaired_witness :
  let a := mkSI 3 1 1 2 false in let b := mkSI 3 3 7 4 false in
  wf a /\ wf b /\ gamma a 1 /\ gamma b 2 /\ si_sge a b = Ok TM /\ si_slt a b = Ok TM /\
  si_slt (mkSI 3 1 5 7 false) (mkSI 3 1 0 3 false) = Ok TT /\ si_sge (mkSI 3 1 5 7 false) (mkSI 3 1 0 3 false) = Ok TF.
Proof.
  cbv zeta. split; [repeat split; cbn; unfold SHIFT_LIMIT; lia|]. split; [repeat split; cbn; unfold SHIFT_LIMIT; lia|].
  split; [split; [reflexivity|exists 0; cbn; repeat split; lia]|].
  split; [split; [reflexivity|exists 1; cbn; repeat split; lia]|].
  vm_compute. repeat split.
Qed.
