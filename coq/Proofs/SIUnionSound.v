(* C22: the union (pseudo-join) of two strided intervals contains every member of both, for every width. *)
From Coq Require Import ZArith List Bool Lia.
Require Import CV.Model.PyPrelude CV.Gen.SIHelpers CV.Model.SI CV.Model.SIUnion CV.Proofs.SISound.
Open Scope Z_scope.

(* ---------- arithmetic on the circle ---------- *)
Definition off (N l v : Z) : Z := (v - l) mod N.

Lemma off_split N l v : 0 < N -> 0 <= l < N -> 0 <= v < N ->
  (l <= v /\ off N l v = v - l) \/ (v < l /\ off N l v = v - l + N).
Proof.
  intros HN Hl Hv. unfold off. destruct (Z_le_gt_dec l v) as [H|H].
  - left. split; [exact H|]. apply Z.mod_small. lia.
  - right. split; [lia|]. symmetry. apply Z.mod_unique with (-1); lia.
Qed.

Ltac offs N :=
  repeat match goal with
  | H : context [off N ?l ?v] |- _ =>
      let E := fresh "E" in
      destruct (off_split N l v ltac:(lia) ltac:(lia) ltac:(lia)) as [[? E]|[? E]]; rewrite E in *; clear E
  | |- context [off N ?l ?v] =>
      let E := fresh "E" in
      destruct (off_split N l v ltac:(lia) ltac:(lia) ltac:(lia)) as [[? E]|[? E]]; rewrite E in *; clear E
  end.

(* cond3 of _is_surrounded(a, b), the arcs being [la -> ua] and [lb -> ub] *)
Definition cond3 (N la ua lb ub : Z) : Prop :=
  off N lb la <= off N lb ub /\ off N lb ua <= off N lb ub /\
  ((lb = la /\ ub = ua) \/ ~ off N la lb <= off N la ua \/ ~ off N la ub <= off N la ua).

Lemma core_surrounded N la ua lb ub : 0 < N -> 0 <= la < N -> 0 <= ua < N -> 0 <= lb < N -> 0 <= ub < N ->
  cond3 N la ua lb ub -> off N lb la + off N la ua <= off N lb ub.
Proof. intros HN H1 H2 H3 H4 (C1 & C2 & C3). offs N; lia. Qed.

Lemma core_overlap N la ua lb ub : 0 < N -> 0 <= la < N -> 0 <= ua < N -> 0 <= lb < N -> 0 <= ub < N ->
  off N la lb <= off N la ua ->
  ~ cond3 N la ua lb ub -> ~ cond3 N lb ub la ua ->
  ~ (off N la lb <= off N la ua /\ off N la ub <= off N la ua /\ off N lb la <= off N lb ub /\ off N lb ua <= off N lb ub) ->
  off N la ua <= off N la ub /\ off N la lb + off N lb ub <= off N la ub.
Proof. intros HN H1 H2 H3 H4 C1 NA NB N4. unfold cond3 in *. offs N; lia. Qed.

Lemma core_disjoint N la ua lb ub : 0 < N -> 0 <= la < N -> 0 <= ua < N -> 0 <= lb < N -> 0 <= ub < N ->
  ~ off N la lb <= off N la ua -> ~ off N lb la <= off N lb ub ->
  off N la ua <= off N la ub /\ off N la lb + off N lb ub <= off N la ub.
Proof. intros HN H1 H2 H3 H4 C1 C2. offs N; lia. Qed.

(* ---------- members as offsets ---------- *)
Notation Nof a := (2 ^ bits a).

Lemma wf_N a : wf a -> 0 < Nof a.
Proof. intros (_ & Hw & _). apply Z.pow_pos_nonneg; lia. Qed.

Lemma span_off a : span a = off (Nof a) (lb a) (ub a).
Proof. reflexivity. Qed.

Lemma gamma_off a x : wf a -> gamma a x ->
  exists t, 0 <= t <= span a /\ x = (lb a + t) mod Nof a /\ (stride a | t) /\ (span a = 0 -> t = 0).
Proof.
  intros (Hb & Hw & Hs & Hl & Hu) (_ & k & Hk & Hks & Hx). exists (k * stride a).
  split; [nia|]. split; [exact Hx|]. split; [exists k; reflexivity|]. intros H0. nia.
Qed.

Lemma gamma_range a x : wf a -> gamma a x -> 0 <= x < Nof a.
Proof. intros Hw (_ & k & _ & _ & ->). apply Z.mod_pos_bound. apply wf_N; auto. Qed.

(* a member of a, seen from the lower bound L of a wider arc [L -> U] that contains a's arc *)
Lemma arc_in w g L U a x : wf a -> bits a = w -> 0 <= g -> gamma a x ->
  off (2 ^ w) L (lb a) + span a <= off (2 ^ w) L U ->
  (g | off (2 ^ w) L (lb a)) -> ((g | stride a) \/ span a = 0) ->
  gamma (mkSI w g L U false) x.
Proof.
  intros Hwf Hb Hg Gx Harc Hgd Hgs. subst w. pose proof (wf_N a Hwf) as HN.
  destruct (gamma_off a x Hwf Gx) as (t & Ht & Hx & Hdiv & H0).
  apply gamma_intro with (t := off (Nof a) L (lb a) + t).
  - exact Hg.
  - apply Z.divide_add_r; [exact Hgd|]. destruct Hgs as [Hgs|Hgs]; [eapply Z.divide_trans; eauto|rewrite (H0 Hgs); apply Z.divide_0_r].
  - unfold off in *. pose proof (Z.mod_pos_bound (lb a - L) (Nof a) HN). lia.
  - rewrite Hx. unfold off.
    replace (L + ((lb a - L) mod Nof a + t)) with ((lb a - L) mod Nof a + (L + t)) by lia.
    rewrite Zplus_mod_idemp_l. f_equal. lia.
Qed.

Lemma full_in w L U x : 0 < 2 ^ w -> 0 <= x < 2 ^ w -> off (2 ^ w) L U = 2 ^ w - 1 -> gamma (mkSI w 1 L U false) x.
Proof.
  intros HN Hx Hfull. apply gamma_intro with (t := (x - L) mod 2 ^ w).
  - lia.
  - apply Z.divide_1_l.
  - unfold off in Hfull. rewrite Hfull. pose proof (Z.mod_pos_bound (x - L) (2 ^ w) HN). lia.
  - rewrite Zplus_mod_idemp_r. replace (L + (x - L)) with x by lia. symmetry. apply Z.mod_small. exact Hx.
Qed.

(* ---------- the predicates of the code ---------- *)
Lemma surrounds_spec a v : surrounds a v = true <-> off (Nof a) (lb a) v <= off (Nof a) (lb a) (ub a).
Proof. unfold surrounds, modN, off. apply Z.leb_le. Qed.

Lemma surrounds_false a v : surrounds a v = false <-> ~ off (Nof a) (lb a) v <= off (Nof a) (lb a) (ub a).
Proof. unfold surrounds, modN, off. rewrite Z.leb_gt. lia. Qed.

Definition cond3b (a b : si) : bool :=
  surrounds b (lb a) && surrounds b (ub a) &&
  (((lb b =? lb a) && (ub b =? ub a)) || negb (surrounds a (lb b)) || negb (surrounds a (ub b))).

Lemma cond3b_spec a b : bits a = bits b ->
  cond3b a b = true <-> cond3 (Nof a) (lb a) (ub a) (lb b) (ub b).
Proof.
  intros Hb. unfold cond3b, cond3. rewrite !andb_true_iff, !orb_true_iff, !negb_true_iff, andb_true_iff, !Z.eqb_eq.
  rewrite !surrounds_spec, !surrounds_false, <- Hb. tauto.
Qed.

Lemma top_full a : wf a -> is_top a = true -> stride a = 1 /\ off (Nof a) (lb a) (ub a) = Nof a - 1.
Proof.
  intros Hwf H. pose proof (wf_N a Hwf) as HN. destruct Hwf as (_ & _ & _ & Hl & Hu).
  unfold is_top in H. apply andb_true_iff in H as [H1 H2]. apply Z.eqb_eq in H1, H2. split; [exact H1|].
  unfold modN in H2. unfold off.
  destruct (Z.eq_dec (ub a + 1) (Nof a)) as [E|E].
  - rewrite E, Z.mod_same in H2 by lia. rewrite H2. replace (ub a - 0) with (ub a) by lia. rewrite Z.mod_small; lia.
  - rewrite Z.mod_small in H2 by lia. rewrite H2. replace (ub a - (ub a + 1)) with (-1) by lia.
    symmetry. apply Z.mod_unique with (-1); lia.
Qed.

Lemma is_surrounded_true a b : wf a -> wf b -> bits a = bits b -> is_surrounded a b = true ->
  is_top b = true \/ cond3 (Nof a) (lb a) (ub a) (lb b) (ub b).
Proof.
  intros Wa Wb Hb H. unfold is_surrounded in H. destruct Wa as (Ba & _). rewrite Ba in H.
  destruct (is_top a) eqn:Ta, (is_top b) eqn:Tb; cbn [andb] in H; try discriminate; auto.
  right. apply cond3b_spec; auto.
Qed.

Lemma both_not_surrounded a b : wf a -> wf b -> bits a = bits b ->
  is_surrounded a b = false -> is_surrounded b a = false ->
  ~ cond3 (Nof a) (lb a) (ub a) (lb b) (ub b) /\ ~ cond3 (Nof a) (lb b) (ub b) (lb a) (ub a).
Proof.
  intros Wa Wb Hb H1 H2. unfold is_surrounded in H1, H2.
  destruct Wa as (Ba & _). destruct Wb as (Bb & _). rewrite Ba in H1. rewrite Bb in H2.
  destruct (is_top a) eqn:Ta, (is_top b) eqn:Tb; cbn [andb] in H1, H2; try discriminate.
  split.
  - intros C. apply (cond3b_spec a b Hb) in C. unfold cond3b in C. congruence.
  - intros C. rewrite Hb in C. apply (cond3b_spec b a (eq_sym Hb)) in C. unfold cond3b in C. congruence.
Qed.

(* the constructor keeps a positive stride when the bounds differ *)
Lemma mk_stride_pos w s l u r : 0 < w < SHIFT_LIMIT -> 0 < s -> 0 <= l < 2 ^ w -> 0 <= u < 2 ^ w -> l <> u ->
  mk w s l u = Ok r -> 0 < stride r.
Proof.
  intros Hw Hs Hl Hu Hlu H. unfold mk, normalize in H. cbn [bot bits lb ub stride] in H.
  rewrite pow_ok in H by lia. cbn [bind] in H. rewrite !land_mask in H by lia.
  rewrite modular_add_ok in H by lia. cbn [bind] in H.
  rewrite (Z.mod_small l), (Z.mod_small u) in H by lia.
  destruct (l =? u) eqn:E; [apply Z.eqb_eq in E; contradiction|].
  destruct ((l =? (u + 1) mod 2 ^ w) && (s =? 1)) eqn:Et.
  - rewrite max_int_ok in H by lia. cbn [bind fst snd] in H. destruct (s <? 0) eqn:Es; [apply Z.ltb_lt in Es; lia|].
    inversion H; subst r. cbn [stride]. exact Hs.
  - cbn [bind fst snd] in H. destruct (s <? 0) eqn:Es; [apply Z.ltb_lt in Es; lia|]. inversion H; subst r. cbn [stride]. exact Hs.
Qed.

Lemma n_values_ok r : 0 < stride r -> exists n, n_values r = Ok n.
Proof.
  intros H. unfold n_values, py_floordiv. destruct (stride r =? 0) eqn:E; [apply Z.eqb_eq in E; lia|]. cbn [bind]. eauto.
Qed.

Lemma off_self N l : 0 < N -> off N l l = 0.
Proof. intros H. unfold off. rewrite Z.sub_diag. apply Z.mod_0_l. lia. Qed.

Lemma gamma_int a x : wf a -> lb a = ub a -> gamma a x -> x = lb a.
Proof.
  intros Wa E Gx. pose proof (wf_N a Wa) as HN. destruct (gamma_off a x Wa Gx) as (t & Ht & Hx & _ & H0).
  assert (Hs : span a = 0) by (rewrite span_off, <- E; apply off_self; exact HN).
  rewrite (H0 Hs), Z.add_0_r in Hx. destruct Wa as (_ & _ & _ & Hl & _). rewrite Hx. apply Z.mod_small. exact Hl.
Qed.

(* ---------- the theorem ---------- *)
Ltac mk_case w g L U Hw Hg :=
  let r := fresh "r" in let E := fresh "E" in let Wr := fresh "Wr" in let Br := fresh "Br" in let Gr := fresh "Gr" in
  destruct (mk_sound w g L U Hw Hg) as (r & E & Wr & Br & Gr);
  rewrite E; exists r; split; [reflexivity|]; split; [exact Wr|]; split; [exact Br|].

Theorem join_sound smart a b : wf a -> wf b -> bits a = bits b ->
  exists r, si_join smart a b = Ok r /\ wf r /\ bits r = bits a /\ forall x, gamma a x \/ gamma b x -> gamma r x.
Proof.
  intros Wa Wb Hb. pose proof (wf_N a Wa) as HN.
  pose proof Wa as (Ba & Hw & Hsa & Hla & Hua). pose proof Wb as (Bb & _ & Hsb & Hlb & Hub).
  rewrite <- Hb in Hlb, Hub.
  unfold si_join. replace (bits a =? bits b) with true by (symmetry; apply Z.eqb_eq; exact Hb). cbn [negb].
  rewrite Ba, Bb.
  set (N := Nof a) in *.
  assert (Hoffb : forall l v, off (Nof b) l v = off N l v) by (intros; unfold N; rewrite Hb; reflexivity).
  destruct (is_integer a && is_integer b) eqn:Eint.
  { (* two integers *)
    apply andb_true_iff in Eint as [Ea Eb]. unfold is_integer in Ea, Eb. apply Z.eqb_eq in Ea, Eb.
    set (upper := if smart then Z.max (ub a) (ub b) else ub b).
    set (lower := if smart then Z.min (lb a) (lb b) else lb a).
    assert (Hmn : 0 <= modN a (upper - lower)) by (unfold modN; fold N; apply Z.mod_pos_bound; exact HN).
    mk_case (bits a) (modN a (upper - lower)) lower upper Hw Hmn.
    intros x Hx. apply Gr.
    assert (Hx' : x = lb a \/ x = lb b) by (destruct Hx as [Hx|Hx]; [left; apply gamma_int; auto|right; apply gamma_int; auto]).
    unfold modN. fold N.
    assert (Hlo : 0 <= lower < N) by (unfold lower; destruct smart; lia).
    assert (Hup : 0 <= upper < N) by (unfold upper; destruct smart; lia).
    assert (Hends : (x = lower \/ x = upper)).
    { unfold lower, upper. destruct smart; [|destruct Hx' as [->| ->]; [left; reflexivity|right; exact Eb]].
      destruct Hx' as [-> | ->]; destruct (Z_le_gt_dec (lb a) (lb b));
        rewrite ?Z.min_l, ?Z.min_r, ?Z.max_l, ?Z.max_r by lia; lia. }
    destruct Hends as [-> | ->].
    - apply gamma_intro with (t := 0); [exact Hmn|apply Z.divide_0_r| |].
      + fold N. pose proof (Z.mod_pos_bound (upper - lower) N HN). lia.
      + fold N. rewrite Z.add_0_r. symmetry. apply Z.mod_small. exact Hlo.
    - apply gamma_intro with (t := (upper - lower) mod N); [exact Hmn|apply Z.divide_refl| |].
      + fold N. pose proof (Z.mod_pos_bound (upper - lower) N HN). lia.
      + fold N. rewrite Zplus_mod_idemp_r. replace (lower + (upper - lower)) with upper by lia. symmetry. apply Z.mod_small. exact Hup. }
  destruct (is_surrounded a b) eqn:Sab.
  { (* the arc of a lies within the arc of b *)
    set (g0 := if negb (is_integer a) then Z.gcd (stride a) (stride b) else stride b).
    set (g := Z.gcd g0 (modN a (lb a - lb b))).
    assert (Hg0 : 0 <= g0) by (unfold g0; destruct (negb (is_integer a)); [apply Z.gcd_nonneg|lia]).
    mk_case (bits a) g (lb b) (ub b) Hw (Z.gcd_nonneg g0 (modN a (lb a - lb b))).
    intros x Hx. apply Gr.
    destruct (is_surrounded_true a b Wa Wb Hb Sab) as [Tb|C3].
    - (* b is TOP: the result is the full circle with stride 1 *)
      destruct (top_full b Wb Tb) as (S1 & Hfull). rewrite Hoffb in Hfull. replace (Nof b) with N in Hfull by (unfold N; rewrite Hb; reflexivity).
      assert (Eg : g = 1).
      { unfold g, g0. rewrite S1. destruct (negb (is_integer a)); [rewrite Z.gcd_1_r|]; apply Z.gcd_1_l. }
      rewrite Eg. apply full_in; [exact HN| |exact Hfull].
      destruct Hx as [Hx|Hx]; [apply gamma_range; auto|rewrite Hb; apply gamma_range; auto].
    - pose proof (core_surrounded N _ _ _ _ HN Hla Hua Hlb Hub C3) as Harc.
      destruct Hx as [Hx|Hx].
      + apply (arc_in (bits a) g (lb b) (ub b) a x Wa eq_refl); [apply Z.gcd_nonneg|exact Hx|exact Harc|apply Z.gcd_divide_r|].
        unfold g, g0, is_integer. destruct (lb a =? ub a) eqn:Ei; cbn [negb].
        * right. apply Z.eqb_eq in Ei. rewrite span_off, <- Ei. apply off_self. exact HN.
        * left. eapply Z.divide_trans; [apply Z.gcd_divide_l|apply Z.gcd_divide_l].
      + apply (arc_in (bits a) g (lb b) (ub b) b x Wb (eq_sym Hb)); [apply Z.gcd_nonneg|exact Hx| | |].
        * rewrite off_self by exact HN. rewrite span_off, Hoffb. fold N. lia.
        * rewrite off_self by exact HN. apply Z.divide_0_r.
        * left. unfold g, g0. destruct (negb (is_integer a)).
          -- eapply Z.divide_trans; [apply Z.gcd_divide_l|apply Z.gcd_divide_r].
          -- apply Z.gcd_divide_l. }
  destruct (is_surrounded b a) eqn:Sba.
  { set (g0 := if negb (is_integer b) then Z.gcd (stride a) (stride b) else stride a).
    set (g := Z.gcd g0 (modN a (lb b - lb a))).
    assert (Hg0 : 0 <= g0) by (unfold g0; destruct (negb (is_integer b)); [apply Z.gcd_nonneg|lia]).
    mk_case (bits a) g (lb a) (ub a) Hw (Z.gcd_nonneg g0 (modN a (lb b - lb a))).
    intros x Hx. apply Gr.
    destruct (is_surrounded_true b a Wb Wa (eq_sym Hb) Sba) as [Ta|C3].
    - destruct (top_full a Wa Ta) as (S1 & Hfull). fold N in Hfull.
      assert (Eg : g = 1).
      { unfold g, g0. rewrite S1. destruct (negb (is_integer b)); [rewrite Z.gcd_1_l|]; apply Z.gcd_1_l. }
      rewrite Eg. apply full_in; [exact HN| |exact Hfull].
      destruct Hx as [Hx|Hx]; [apply gamma_range; auto|rewrite Hb; apply gamma_range; auto].
    - replace (Nof b) with N in C3 by (unfold N; rewrite Hb; reflexivity).
      pose proof (core_surrounded N _ _ _ _ HN Hlb Hub Hla Hua C3) as Harc.
      destruct Hx as [Hx|Hx].
      + apply (arc_in (bits a) g (lb a) (ub a) a x Wa eq_refl); [apply Z.gcd_nonneg|exact Hx| | |].
        * rewrite off_self by exact HN. rewrite span_off. fold N. lia.
        * rewrite off_self by exact HN. apply Z.divide_0_r.
        * left. unfold g, g0. destruct (negb (is_integer b)).
          -- eapply Z.divide_trans; [apply Z.gcd_divide_l|apply Z.gcd_divide_l].
          -- apply Z.gcd_divide_l.
      + apply (arc_in (bits a) g (lb a) (ub a) b x Wb (eq_sym Hb)); [apply Z.gcd_nonneg|exact Hx| |apply Z.gcd_divide_r|].
        * rewrite span_off, Hoffb. exact Harc.
        * unfold g, g0, is_integer. destruct (lb b =? ub b) eqn:Ei; cbn [negb].
          -- right. apply Z.eqb_eq in Ei. rewrite span_off, <- Ei, Hoffb. apply off_self. exact HN.
          -- left. eapply Z.divide_trans; [apply Z.gcd_divide_l|apply Z.gcd_divide_r]. }
  destruct (both_not_surrounded a b Wa Wb Hb Sab Sba) as (NA & NB). fold N in NA, NB.
  destruct (surrounds a (lb b) && surrounds a (ub b) && surrounds b (lb a) && surrounds b (ub a)) eqn:E4.
  { (* the two arcs cover the circle *)
    destruct (top_sound (bits a) Hw) as (r & Er & Wr & Br & Gr). rewrite Er. exists r. split; [reflexivity|]. split; [exact Wr|].
    split; [exact Br|]. intros x Hx. apply Gr. destruct Hx as [Hx|Hx]; [apply gamma_range; auto|rewrite Hb; apply gamma_range; auto]. }
  assert (N4 : ~ (off N (lb a) (lb b) <= off N (lb a) (ub a) /\ off N (lb a) (ub b) <= off N (lb a) (ub a) /\
                  off N (lb b) (lb a) <= off N (lb b) (ub b) /\ off N (lb b) (ub a) <= off N (lb b) (ub b))).
  { intros (H1 & H2 & H3 & H4).
    apply (proj2 (surrounds_spec a (lb b))) in H1. apply (proj2 (surrounds_spec a (ub b))) in H2.
    rewrite <- !Hoffb in H3, H4.
    apply (proj2 (surrounds_spec b (lb a))) in H3. apply (proj2 (surrounds_spec b (ub a))) in H4.
    rewrite H1, H2, H3, H4 in E4. discriminate E4. }
  set (gg := Z.gcd (stride a) (stride b)).
  destruct (surrounds a (lb b)) eqn:Sab1.
  { apply surrounds_spec in Sab1. fold N in Sab1.
    destruct (core_overlap N _ _ _ _ HN Hla Hua Hlb Hub Sab1 NA NB N4) as (H1 & H2).
    mk_case (bits a) (Z.gcd gg (modN a (lb b - lb a))) (lb a) (ub b) Hw (Z.gcd_nonneg gg (modN a (lb b - lb a))).
    intros x Hx. apply Gr. destruct Hx as [Hx|Hx].
    - apply (arc_in (bits a) _ (lb a) (ub b) a x Wa eq_refl); [apply Z.gcd_nonneg|exact Hx| | |].
      + rewrite off_self by exact HN. rewrite span_off. fold N. lia.
      + rewrite off_self by exact HN. apply Z.divide_0_r.
      + left. eapply Z.divide_trans; [apply Z.gcd_divide_l|apply Z.gcd_divide_l].
    - apply (arc_in (bits a) _ (lb a) (ub b) b x Wb (eq_sym Hb)); [apply Z.gcd_nonneg|exact Hx| |apply Z.gcd_divide_r|].
      + rewrite span_off, Hoffb. exact H2.
      + left. eapply Z.divide_trans; [apply Z.gcd_divide_l|apply Z.gcd_divide_r]. }
  destruct (surrounds b (lb a)) eqn:Sba1.
  { apply surrounds_spec in Sba1. rewrite !Hoffb in Sba1.
    assert (N4' : ~ (off N (lb b) (lb a) <= off N (lb b) (ub b) /\ off N (lb b) (ub a) <= off N (lb b) (ub b) /\
                     off N (lb a) (lb b) <= off N (lb a) (ub a) /\ off N (lb a) (ub b) <= off N (lb a) (ub a))) by tauto.
    destruct (core_overlap N _ _ _ _ HN Hlb Hub Hla Hua Sba1 NB NA N4') as (H1 & H2).
    mk_case (bits a) (Z.gcd gg (modN a (lb a - lb b))) (lb b) (ub a) Hw (Z.gcd_nonneg gg (modN a (lb a - lb b))).
    intros x Hx. apply Gr. destruct Hx as [Hx|Hx].
    - apply (arc_in (bits a) _ (lb b) (ub a) a x Wa eq_refl); [apply Z.gcd_nonneg|exact Hx| |apply Z.gcd_divide_r|].
      + rewrite span_off. fold N. exact H2.
      + left. eapply Z.divide_trans; [apply Z.gcd_divide_l|apply Z.gcd_divide_l].
    - apply (arc_in (bits a) _ (lb b) (ub a) b x Wb (eq_sym Hb)); [apply Z.gcd_nonneg|exact Hx| | |].
      + rewrite off_self by exact HN. rewrite span_off, Hoffb. fold N. lia.
      + rewrite off_self by exact HN. apply Z.divide_0_r.
      + left. eapply Z.divide_trans; [apply Z.gcd_divide_l|apply Z.gcd_divide_r]. }
  (* disjoint arcs: both candidate joins are sound; the one with fewer values is returned *)
  apply surrounds_false in Sab1, Sba1. fold N in Sab1. rewrite !Hoffb in Sba1.
  destruct (core_disjoint N _ _ _ _ HN Hla Hua Hlb Hub Sab1 Sba1) as (A1 & A2).
  destruct (core_disjoint N _ _ _ _ HN Hlb Hub Hla Hua Sba1 Sab1) as (B1 & B2).
  set (g0 := if is_integer a then stride b else if is_integer b then stride a else gg).
  assert (Hg0 : 0 <= g0) by (unfold g0, gg; destruct (is_integer a); [lia|destruct (is_integer b); [lia|apply Z.gcd_nonneg]]).
  assert (Dg0a : (g0 | stride a) \/ span a = 0).
  { unfold g0, gg, is_integer. destruct (lb a =? ub a) eqn:Ei.
    - right. apply Z.eqb_eq in Ei. rewrite span_off, <- Ei. apply off_self. exact HN.
    - left. destruct (lb b =? ub b); [apply Z.divide_refl|apply Z.gcd_divide_l]. }
  assert (Dg0b : (g0 | stride b) \/ span b = 0).
  { unfold g0, gg, is_integer. destruct (lb a =? ub a) eqn:Ei; [left; apply Z.divide_refl|].
    destruct (lb b =? ub b) eqn:Ej.
    - right. apply Z.eqb_eq in Ej. rewrite span_off, <- Ej, Hoffb. apply off_self. exact HN.
    - left. apply Z.gcd_divide_r. }
  assert (Pos1 : 0 < off N (lb b) (lb a)) by (unfold off in *; pose proof (Z.mod_pos_bound (lb a - lb b) N HN); pose proof (Z.mod_pos_bound (ub b - lb b) N HN); lia).
  assert (Pos2 : 0 < off N (lb a) (lb b)) by (unfold off in *; pose proof (Z.mod_pos_bound (lb b - lb a) N HN); pose proof (Z.mod_pos_bound (ub a - lb a) N HN); lia).
  assert (Dne1 : lb b <> ub a) by (intros E; apply Sab1; rewrite E; lia).
  assert (Dne2 : lb a <> ub b) by (intros E; apply Sba1; rewrite E; lia).
  set (g1 := Z.gcd g0 (modN a (lb a - lb b))). set (g2 := Z.gcd g0 (modN a (lb b - lb a))).
  assert (Hg1 : 0 < g1).
  { unfold g1. pose proof (Z.gcd_nonneg g0 (modN a (lb a - lb b))). destruct (Z.eq_dec (Z.gcd g0 (modN a (lb a - lb b))) 0) as [E|E]; [|lia].
    apply Z.gcd_eq_0_r in E. unfold modN in E. fold N in E. unfold off in Pos1. lia. }
  assert (Hg2 : 0 < g2).
  { unfold g2. pose proof (Z.gcd_nonneg g0 (modN a (lb b - lb a))). destruct (Z.eq_dec (Z.gcd g0 (modN a (lb b - lb a))) 0) as [E|E]; [|lia].
    apply Z.gcd_eq_0_r in E. unfold modN in E. fold N in E. unfold off in Pos2. lia. }
  destruct (mk_sound (bits a) g1 (lb b) (ub a) Hw ltac:(lia)) as (r1 & E1 & W1 & B1' & G1).
  destruct (mk_sound (bits a) g2 (lb a) (ub b) Hw ltac:(lia)) as (r2 & E2 & W2 & B2' & G2).
  destruct (n_values_ok r1 (mk_stride_pos _ _ _ _ _ Hw Hg1 Hlb Hua Dne1 E1)) as (n1 & En1).
  destruct (n_values_ok r2 (mk_stride_pos _ _ _ _ _ Hw Hg2 Hla Hub Dne2 E2)) as (n2 & En2).
  assert (S1 : forall x, gamma a x \/ gamma b x -> gamma r1 x).
  { intros x Hx. apply G1. destruct Hx as [Hx|Hx].
    - apply (arc_in (bits a) g1 (lb b) (ub a) a x Wa eq_refl); [lia|exact Hx| |apply Z.gcd_divide_r|].
      + rewrite span_off. fold N. exact B2.
      + destruct Dg0a as [D|D]; [left; eapply Z.divide_trans; [apply Z.gcd_divide_l|exact D]|right; exact D].
    - apply (arc_in (bits a) g1 (lb b) (ub a) b x Wb (eq_sym Hb)); [lia|exact Hx| | |].
      + rewrite off_self by exact HN. rewrite span_off, Hoffb. fold N. lia.
      + rewrite off_self by exact HN. apply Z.divide_0_r.
      + destruct Dg0b as [D|D]; [left; eapply Z.divide_trans; [apply Z.gcd_divide_l|exact D]|right; exact D]. }
  assert (S2 : forall x, gamma a x \/ gamma b x -> gamma r2 x).
  { intros x Hx. apply G2. destruct Hx as [Hx|Hx].
    - apply (arc_in (bits a) g2 (lb a) (ub b) a x Wa eq_refl); [lia|exact Hx| | |].
      + rewrite off_self by exact HN. rewrite span_off. fold N. lia.
      + rewrite off_self by exact HN. apply Z.divide_0_r.
      + destruct Dg0a as [D|D]; [left; eapply Z.divide_trans; [apply Z.gcd_divide_l|exact D]|right; exact D].
    - apply (arc_in (bits a) g2 (lb a) (ub b) b x Wb (eq_sym Hb)); [lia|exact Hx| |apply Z.gcd_divide_r|].
      + rewrite span_off, Hoffb. exact A2.
      + destruct Dg0b as [D|D]; [left; eapply Z.divide_trans; [apply Z.gcd_divide_l|exact D]|right; exact D]. }
  destruct smart; cbn [negb].
  - rewrite E1, E2. cbn [bind]. rewrite En1, En2. cbn [bind].
    destruct (n1 <=? n2); eexists; (split; [reflexivity|]); auto.
  - rewrite E2. eexists; (split; [reflexivity|]); auto.
Qed.

Theorem union_sound a b : wf a -> wf b -> bits a = bits b ->
  exists r, si_union a b = Ok r /\ wf r /\ bits r = bits a /\ forall x, gamma a x \/ gamma b x -> gamma r x.
Proof. exact (join_sound true a b). Qed.
