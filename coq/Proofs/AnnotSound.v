(* C07: when _handle_annotations lets a rewrite through, no pinned annotation of any argument is lost and every relocatable
   annotation of every argument is on the result; the result is the simplified expression with annotations added only. *)
From Coq Require Import ZArith List Bool Lia.
Require Import CV.Model.Annot.
Import ListNotations.
Open Scope Z_scope.

Lemma akind_eqb_eq a b : akind_eqb a b = true <-> a = b.
Proof. destruct a, b; cbn; split; congruence. Qed.
Lemma ann_eqb_eq a b : ann_eqb a b = true <-> a = b.
Proof.
  destruct a as [i k], b as [j l]. unfold ann_eqb. cbn [fst snd].
  rewrite andb_true_iff, Z.eqb_eq, akind_eqb_eq. split; [intros [-> ->]; auto|intros H; inversion H; auto].
Qed.
Lemma amem_spec a l : amem a l = true <-> In a l.
Proof.
  unfold amem. rewrite existsb_exists. split.
  - intros (x & Hx & E). apply ann_eqb_eq in E. subst. auto.
  - intros H. exists a. split; auto. apply ann_eqb_eq. auto.
Qed.
Lemma aunion_spec x a b : In x (aunion a b) <-> In x a \/ In x b.
Proof.
  induction a as [|y r IH]; cbn [aunion]; [cbn [In]; tauto|].
  destruct (amem y b) eqn:E.
  - rewrite IH. cbn [In]. split; [tauto|]. intros [[<-|H]|H]; auto. right. apply amem_spec. auto.
  - cbn [In]. rewrite IH. tauto.
Qed.

(* the node keeps its sub-expressions; only its own tuple grows *)
Definition extends (n m : anode) : Prop :=
  kids_unel m = kids_unel n /\ (forall a, In a (own n) -> In a (own m)).

Lemma extends_refl n : extends n n. Proof. split; auto. Qed.
Lemma extends_trans a b c : extends a b -> extends b c -> extends a c.
Proof. intros [H1 H2] [H3 H4]. split; [congruence|auto]. Qed.

Lemma unel_spec n x : In x (unel n) <-> (In x (own n) /\ is_pinned x = true) \/ In x (kids_unel n).
Proof. unfold unel. rewrite aunion_spec, filter_In. tauto. Qed.

Lemma extends_unel n m x : extends n m -> In x (unel n) -> In x (unel m).
Proof. intros [H1 H2] H. apply unel_spec in H. apply unel_spec. rewrite H1. destruct H as [[H Hp]|H]; auto. Qed.

Lemma append_extends n a : extends n (append_annotation n a).
Proof. split; [reflexivity|]. intros x Hx. cbn. apply in_or_app. auto. Qed.

(* reloc of a node built by this module is the relocatable part of its own tuple *)
Definition reloc_ok (n : anode) : Prop := forall x, In x (reloc n) <-> (In x (own n) /\ is_reloc x = true).

Lemma append_reloc_ok n a : reloc_ok (append_annotation n a).
Proof. intros x. cbn [append_annotation reannotate reloc own]. rewrite filter_In. tauto. Qed.

Lemma relocate_all_spec preserved : forall todo relocated simp relocated' simp',
  reloc_ok simp ->
  relocate_all preserved todo relocated simp = (relocated', simp') ->
  extends simp simp' /\ reloc_ok simp' /\
  (forall x, In x relocated -> In x relocated') /\
  (forall x, In x todo -> is_reloc x = true -> In x preserved \/ In x relocated').
Proof.
  induction todo as [|oa r IH]; intros relocated simp relocated' simp' Hok H; cbn [relocate_all] in H.
  - inversion H; subst. split; [apply extends_refl|]. split; [exact Hok|]. split; [auto|]. intros y [].
  - destruct (amem oa preserved || amem oa relocated) eqn:E.
    + destruct (IH _ _ _ _ Hok H) as (I1 & I2 & I3 & I4). split; [exact I1|]. split; [exact I2|]. split; [exact I3|].
      intros x [<-|Hx] Hr; [|auto]. apply orb_true_iff in E as [E|E]; apply amem_spec in E; auto.
    + destruct (IH _ _ _ _ (append_reloc_ok simp oa) H) as (I1 & I2 & I3 & I4).
      split; [eapply extends_trans; [apply append_extends|exact I1]|]. split; [exact I2|]. split.
      * intros x Hx. apply I3. right. exact Hx.
      * intros x [<-|Hx] Hr; [right; apply I3; left; reflexivity|auto].
Qed.

(* every relocated annotation is on the node *)
Lemma relocate_all_on preserved : forall todo relocated simp relocated' simp',
  (forall x, In x relocated -> In x (own simp)) ->
  relocate_all preserved todo relocated simp = (relocated', simp') ->
  forall x, In x relocated' -> In x (own simp').
Proof.
  induction todo as [|oa r IH]; intros relocated simp relocated' simp' Hon H; cbn [relocate_all] in H.
  - inversion H; subst. exact Hon.
  - destruct (amem oa preserved || amem oa relocated); [eapply IH; eauto|].
    eapply IH; [|exact H]. intros x [<-|Hx]; cbn; apply in_or_app; [right; left; reflexivity|left; auto].
Qed.

Theorem handle_loop_spec preserved : forall args relocated simp bad r bad',
  reloc_ok simp -> (forall x, In x relocated -> In x (own simp)) ->
  handle_loop preserved args relocated simp bad = (r, bad') ->
  extends simp r /\ reloc_ok r /\ (bad <= bad')%nat /\
  (bad' = bad -> forall aa, In aa args -> forall p, In p (unel aa) -> In p (unel r)) /\
  (forall aa, In aa args -> forall q, In q (reloc aa) -> is_reloc q = true -> In q preserved \/ In q (own r)).
Proof.
  induction args as [|aa rest IH]; intros relocated simp bad r bad' Hok Hon H; cbn [handle_loop] in H.
  - inversion H; subst. split; [apply extends_refl|]. split; [exact Hok|]. split; [lia|]. split; [intros _ ? []|intros ? []].
  - destruct (relocate_all preserved (reloc aa) relocated simp) as [relocated1 simp1] eqn:Er.
    destruct (relocate_all_spec _ _ _ _ _ _ Hok Er) as (R1 & R2 & R3 & R4).
    pose proof (relocate_all_on _ _ _ _ _ _ Hon Er) as Hon1.
    destruct (IH _ _ _ _ _ R2 Hon1 H) as (I1 & I2 & I3 & I4 & I5).
    split; [eapply extends_trans; eauto|]. split; [exact I2|]. split; [lia|]. split.
    + intros Hb a [<-|Ha] p Hp.
      * (* nothing of aa was missing from simp1 *)
        assert (Hlen : length (filter (fun p0 => negb (amem p0 (unel simp1))) (unel aa)) = 0%nat) by lia.
        apply length_zero_iff_nil in Hlen.
        assert (Hin : In p (unel simp1)).
        { destruct (amem p (unel simp1)) eqn:E; [apply amem_spec; auto|].
          assert (In p (filter (fun p0 => negb (amem p0 (unel simp1))) (unel aa))) by (apply filter_In; rewrite E; auto).
          rewrite Hlen in H0. destruct H0. }
        eapply extends_unel; eauto.
      * apply (I4 ltac:(lia) a Ha p Hp).
    + intros a [<-|Ha] q Hq Hr.
      * destruct (R4 q Hq Hr) as [Hp|Hrel]; [left; auto|right]. destruct I1 as [_ I1]. apply I1. apply Hon1. exact Hrel.
      * eauto.
Qed.

Theorem handle_annotations_sound simp args r :
  reloc_ok simp -> handle_annotations simp args = Some r ->
  extends simp r /\
  (forall aa, In aa args -> forall p, In p (unel aa) -> In p (unel r)) /\
  (forall aa, In aa args -> forall q, In q (reloc aa) -> is_reloc q = true -> In q (own r)).
Proof.
  intros Hok H. unfold handle_annotations in H.
  destruct (handle_loop (reloc simp) args [] simp 0) as [r' bad] eqn:E.
  destruct bad; [|discriminate]. inversion H; subst r'.
  assert (Hnil : forall x : ann, In x [] -> In x (own simp)) by (intros ? []).
  destruct (handle_loop_spec _ _ _ _ _ _ _ Hok Hnil E) as (I1 & I2 & I3 & I4 & I5).
  split; [exact I1|]. split; [apply I4; reflexivity|].
  intros aa Ha q Hq Hr. destruct (I5 aa Ha q Hq Hr) as [Hp|Ho]; [|exact Ho].
  (* preserved: already relocatable on the simplified expression, hence in its own tuple, which only grows *)
  apply Hok in Hp. destruct I1 as [_ I1]. apply I1. tauto.
Qed.

(* when the rewrite is refused the plain node is built: it contains the arguments, so nothing is lost either *)
Theorem build_keeps given kids :
  (forall k, In k kids -> forall p, In p (unel k) -> In p (unel (build given kids))) /\
  (forall k, In k kids -> forall q, In q (reloc k) -> In q (own (build given kids))).
Proof.
  split.
  - intros k Hk p Hp. apply unel_spec. right. cbn [build kids_unel].
    induction kids as [|x r IH]; [destruct Hk|]. cbn [fold_right]. apply aunion_spec. destruct Hk as [<-|Hk]; auto.
  - intros k Hk q Hq. cbn [build own].
    assert (Hr : In q (fold_right (fun k acc => aunion (reloc k) acc) (filter is_reloc given) kids)).
    { induction kids as [|x r IH]; [destruct Hk|]. cbn [fold_right]. apply aunion_spec. destruct Hk as [<-|Hk]; auto. }
    set (l := given ++ fold_right (fun k acc => aunion (reloc k) acc) (filter is_reloc given) kids).
    assert (Hl : In q l) by (apply in_or_app; auto).
    clearbody l. clear -Hl. induction l as [|y s IH]; [destruct Hl|]. cbn [adedup].
    destruct (amem y s) eqn:E.
    + destruct Hl as [<-|Hl]; [apply IH; apply amem_spec; auto|auto].
    + destruct Hl as [<-|Hl]; [left; auto|right; auto].
Qed.
