(* C23 instances: discrete sets of strided intervals and value sets over the strided-interval model (Model/SI.v). *)
From Coq Require Import ZArith List Bool Lia.
Require Import CV.Model.PyPrelude CV.Model.SI CV.Model.Lift CV.Proofs.SISound CV.Proofs.LiftSound.
Require Import CV.Model.SINot CV.Proofs.SINotSound.
Import ListNotations.
Open Scope Z_scope.

Definition wfw (w : Z) (a : si) : Prop := wf a /\ bits a = w.
Definition dsis_add := lift2 si si_add.
Definition dsis_sub := lift2 si si_sub.
Definition dsis_neg := lift1 si si_neg.
Definition dsis_not := lift1 si si_not.
Definition vs_add {R} (v : vset si R) (c : si) := vmap si R (fun a => si_add a c) v.
Definition vs_sub {R} (v : vset si R) (c : si) := vmap si R (fun a => si_sub a c) v.

Lemma gamma_lb a : wf a -> gamma a (lb a).
Proof.
  intros (Hb & Hw & Hs & Hl & Hu). split; [exact Hb|]. exists 0. pose proof (span_range a ltac:(lia)).
  split; [lia|]. split; [lia|]. rewrite Z.mul_0_l, Z.add_0_r, Z.mod_small; lia.
Qed.

Lemma add_sound' w a b : wfw w a -> wfw w b -> True ->
  exists r, si_add a b = Ok r /\ wfw w r /\ forall x y, gamma a x -> gamma b y -> gamma r ((x + y) mod 2 ^ w).
Proof.
  intros [Wa Ba] [Wb Bb] _.
  destruct (add_sound a b _ _ Wa Wb ltac:(congruence) (gamma_lb a Wa) (gamma_lb b Wb)) as (r & E & Wr & Br & _).
  exists r. split; [exact E|]. split; [split; congruence|]. intros x y Gx Gy.
  destruct (add_sound a b x y Wa Wb ltac:(congruence) Gx Gy) as (r' & E' & _ & _ & G). rewrite E in E'. inversion E'; subst r'.
  rewrite <- Ba. exact G.
Qed.

Lemma sub_sound' w a b : wfw w a -> wfw w b -> proper b ->
  exists r, si_sub a b = Ok r /\ wfw w r /\ forall x y, gamma a x -> gamma b y -> gamma r ((x - y) mod 2 ^ w).
Proof.
  intros [Wa Ba] [Wb Bb] Al.
  destruct (sub_sound_proper a b _ _ Wa Wb ltac:(congruence) Al (gamma_lb a Wa) (gamma_lb b Wb)) as (r & E & Wr & Br & _).
  exists r. split; [exact E|]. split; [split; congruence|]. intros x y Gx Gy.
  destruct (sub_sound_proper a b x y Wa Wb ltac:(congruence) Al Gx Gy) as (r' & E' & _ & _ & G). rewrite E in E'. inversion E'; subst r'.
  rewrite <- Ba. exact G.
Qed.

Lemma neg_sound' w a : wfw w a -> proper a ->
  exists r, si_neg a = Ok r /\ wfw w r /\ forall y, gamma a y -> gamma r ((- y) mod 2 ^ w).
Proof.
  intros [Wa Ba] Al.
  destruct (neg_sound_proper a _ Wa Al (gamma_lb a Wa)) as (r & E & Wr & Br & _).
  exists r. split; [exact E|]. split; [split; congruence|]. intros y Gy.
  destruct (neg_sound_proper a y Wa Al Gy) as (r' & E' & _ & _ & G). rewrite E in E'. inversion E'; subst r'.
  rewrite <- Ba. exact G.
Qed.

Theorem dsis_add_sound w s t : Forall (wfw w) s -> Forall (wfw w) t ->
  exists r, dsis_add s t = Ok r /\ Forall (wfw w) r /\
    forall x y, gset si gamma s x -> gset si gamma t y -> gset si gamma r ((x + y) mod 2 ^ w).
Proof.
  intros Hs Ht.
  apply (lift2_sound si (wfw w) gamma si_add (fun x y => (x + y) mod 2 ^ w) (fun _ _ => True) (add_sound' w)); auto.
Qed.

Theorem dsis_sub_sound w s t : Forall (wfw w) s -> Forall (wfw w) t -> Forall proper t ->
  exists r, dsis_sub s t = Ok r /\ Forall (wfw w) r /\
    forall x y, gset si gamma s x -> gset si gamma t y -> gset si gamma r ((x - y) mod 2 ^ w).
Proof.
  intros Hs Ht Hal.
  apply (lift2_sound si (wfw w) gamma si_sub (fun x y => (x - y) mod 2 ^ w) (fun _ b => proper b) (sub_sound' w)); auto.
  intros a b _ Hb. rewrite Forall_forall in Hal. auto.
Qed.

Theorem dsis_neg_sound w s : Forall (wfw w) s -> Forall proper s ->
  exists r, dsis_neg s = Ok r /\ Forall (wfw w) r /\ forall y, gset si gamma s y -> gset si gamma r ((- y) mod 2 ^ w).
Proof.
  intros Hs Hal. apply (lift1_sound si (wfw w) gamma si_neg (fun y => (- y) mod 2 ^ w) proper (neg_sound' w)); auto.
Qed.

Lemma not_sound' w a : wfw w a -> proper a ->
  exists r, si_not a = Ok r /\ wfw w r /\ forall y, gamma a y -> gamma r (2 ^ w - 1 - y).
Proof.
  intros [Wa Ba] Pa. destruct (not_sound_total a Wa Pa) as (r & E & Wr & Br & G).
  exists r. split; [exact E|]. split; [split; congruence|]. intros y Gy. rewrite <- Ba. exact (G y Gy).
Qed.

Theorem dsis_not_sound w s : Forall (wfw w) s -> Forall proper s ->
  exists r, dsis_not s = Ok r /\ Forall (wfw w) r /\ forall y, gset si gamma s y -> gset si gamma r (2 ^ w - 1 - y).
Proof.
  intros Hs Hal. apply (lift1_sound si (wfw w) gamma si_not (fun y => 2 ^ w - 1 - y) proper (not_sound' w)); auto.
Qed.

(* value set + region-less interval: every region separately *)
Section VS.
Variable R : Type.
Variable r_eqb : R -> R -> bool.

Theorem vs_add_sound w (v : vset si R) c : vwf si (wfw w) R v -> wfw w c ->
  exists r, vs_add v c = Ok r /\ vwf si (wfw w) R r /\
    forall g x y, gvs si gamma R r_eqb v g x -> gamma c y -> gvs si gamma R r_eqb r g ((x + y) mod 2 ^ w).
Proof.
  intros Hv Hc.
  (* the concrete function depends on y: go through the relational form of vmap_sound for every y *)
  assert (Hex : exists r, vs_add v c = Ok r /\ vwf si (wfw w) R r).
  { destruct (vmap_sound si (wfw w) gamma (fun a => si_add a c) (fun x => (x + lb c) mod 2 ^ w) (fun _ => True)) with (R := R) (r_eqb := r_eqb) (v := v)
      as (r & E & Wr & _); auto.
    - intros a Pa _. destruct (add_sound' w a c Pa Hc I) as (r & E & Pr & G). exists r. split; [exact E|]. split; [exact Pr|].
      intros x Gx. apply G; [exact Gx|apply gamma_lb; apply Hc].
    - apply Forall_forall. auto.
    - exists r. auto. }
  destruct Hex as (r & E & Wr). exists r. split; [exact E|]. split; [exact Wr|].
  intros g x y Gx Gy.
  destruct (vmap_sound si (wfw w) gamma (fun a => si_add a c) (fun x => (x + y) mod 2 ^ w) (fun _ => True)) with (R := R) (r_eqb := r_eqb) (v := v)
    as (r' & E' & _ & G); auto.
  - intros a Pa _. destruct (add_sound' w a c Pa Hc I) as (q & Eq & Pq & Gq). exists q. split; [exact Eq|]. split; [exact Pq|].
    intros x' Gx'. apply Gq; auto.
  - apply Forall_forall. auto.
  - unfold vs_add in E. rewrite E in E'. inversion E'; subst r'. apply G. exact Gx.
Qed.
End VS.

(* the hypotheses are satisfiable: a two-member set at width 3, and the lifted sum computes *)
Example wfw_example : Forall (wfw 3) [mkSI 3 1 1 3 false; mkSI 3 2 0 6 false] /\ Forall proper [mkSI 3 1 1 3 false; mkSI 3 2 0 6 false].
Proof.
  split; repeat constructor; cbn; unfold SHIFT_LIMIT; try lia; intros H; cbn in H; discriminate H.
Qed.
Example dsis_add_example :
  dsis_add [mkSI 3 1 1 3 false; mkSI 3 2 0 6 false] [mkSI 3 0 1 1 false] = Ok [mkSI 3 1 2 4 false; mkSI 3 2 1 7 false].
Proof. vm_compute. reflexivity. Qed.
