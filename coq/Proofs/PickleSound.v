(* C18: a composite solver answers exactly when its unchecked set covers every child not yet known satisfiable; the repaired
   __setstate__ re-establishes that, the pinned one did not. *)
From Coq Require Import ZArith List Bool Lia.
Require Import CV.Model.Ast CV.Model.Pickle.
Import ListNotations.

Theorem check_exact sat c : pinv sat c -> check sat c = exact sat c.
Proof.
  intros H. unfold check, exact. f_equal. unfold pinv in H.
  induction (children c) as [|ch r IH]; [reflexivity|]. cbn [forallb].
  rewrite IH by (intros x Hx; apply H; right; exact Hx). f_equal.
  destruct (existsb (Nat.eqb (fst ch)) (unchecked c)) eqn:E; cbn [negb orb]; [reflexivity|].
  rewrite (H ch (or_introl eq_refl) E). reflexivity.
Qed.

Theorem roundtrip_inv sat c : pinv sat (setstate (getstate c)).
Proof.
  intros ch Hin E. cbn [setstate getstate fst snd children unchecked] in *. exfalso.
  assert (existsb (Nat.eqb (fst ch)) (map fst (children c)) = true).
  { apply existsb_exists. exists (fst ch). split; [apply in_map; exact Hin|apply Nat.eqb_refl]. }
  congruence.
Qed.

(* hence an unpickled solver answers exactly, whatever had or had not been checked before pickling *)
Theorem roundtrip_exact sat c : check sat (setstate (getstate c)) = exact sat c.
Proof. rewrite check_exact by apply roundtrip_inv. reflexivity. Qed.

(* the pinned __setstate__: an unsatisfiable child that was still unchecked is forgotten *)
Theorem pinned_refuted :
  exists sat c, pinv sat c /\ check sat c = false /\ check sat (setstate_pinned (getstate c)) = true.
Proof.
  exists (fun l => match l with [] => true | _ => false end), (mkComp [(0%nat, [BoolVe false])] [0%nat] false).
  split; [|split; reflexivity]. intros ch [<-|[]] E. cbn in E. discriminate.
Qed.
