(* C24: abstract evaluation over-approximates, for every expression, provided every transfer function does. *)
From Coq Require Import ZArith List Bool Lia.
Require Import CV.Model.PyPrelude CV.Model.Ast CV.Model.Build CV.Model.Rewrite CV.Model.AbsInt
               CV.Proofs.AstLemmas CV.Proofs.BuildSound CV.Proofs.RewriteSound.
Import ListNotations.
Open Scope Z_scope.

Section AbsIntSound.
Variable A : Type.
Variable gamma : A -> value -> Prop.
Variable aleaf : expr -> res A.
Variable aop : opk -> list Z -> list A -> res A.
Variable has_true has_false : A -> bool.
Variable join : A -> A -> res A.

Variable ok_env : env -> Prop.     (* the assignments under consideration: every variable within its annotation *)
Hypothesis leaf_sound : forall rho e a v, ok_env rho ->
  match e with Node _ _ _ _ => False | _ => True end -> aleaf e = Ok a -> eval rho e = Some v -> gamma a v.
Hypothesis op_sound : forall op ints avs vs a v,
  Forall2 gamma avs vs -> aop op ints avs = Ok a -> eval_op op ints vs = Some v -> gamma a v.
Hypothesis has_true_sound : forall a, gamma a (VBool true) -> has_true a = true.
Hypothesis has_false_sound : forall a, gamma a (VBool false) -> has_false a = true.
Hypothesis join_sound : forall a b c v, join a b = Ok c -> gamma a v \/ gamma b v -> gamma c v.

Lemma sequence_some {B} : forall (l : list (option B)) vs, sequence l = Some vs -> Forall2 (fun o v => o = Some v) l vs.
Proof.
  induction l as [|[x|] r IH]; intros vs H; cbn in H; try discriminate.
  - inversion H. constructor.
  - destruct (sequence r) eqn:E; [|discriminate]. inversion H; subst. constructor; auto.
Qed.

Lemma a_if_sound c t f r vc vt vf v :
  gamma c vc -> gamma t vt -> gamma f vf -> a_if A has_true has_false join c t f = Ok r ->
  eval_op OIf [] [vc; vt; vf] = Some v -> gamma r v.
Proof.
  intros Gc Gt Gf Hr Hv. unfold a_if in Hr.
  assert (Hsel : exists b, vc = VBool b /\ v = if b then vt else vf).
  { cbn in Hv. destruct vc as [w x|b]; [discriminate|]. exists b. split; [reflexivity|].
    destruct vt as [w x|x], vf as [w' y|y]; try discriminate.
    - destruct (w =? w') eqn:E; [|discriminate]. apply Z.eqb_eq in E. subst. inversion Hv. destruct b; reflexivity.
    - inversion Hv. destruct b; reflexivity. }
  destruct Hsel as (b & -> & ->).
  destruct (has_true c) eqn:Ht; cbn [negb] in Hr.
  - destruct (has_false c) eqn:Hf; cbn [negb] in Hr.
    + eapply join_sound; [exact Hr|]. destruct b; auto.
    + inversion Hr; subst. destruct b; [auto|]. apply has_false_sound in Gc. congruence.
  - inversion Hr; subst. destruct b; [|auto]. apply has_true_sound in Gc. congruence.
Qed.

Theorem aeval_sound rho : ok_env rho -> forall e a v,
  aeval A aleaf aop has_true has_false join e = Ok a -> eval rho e = Some v -> gamma a v.
Proof.
  intros Hrho. induction e as [n w|x w|n|b|op ints args len IH] using expr_ind2; intros a v Ha Hv.
  1-4: (eapply (leaf_sound rho _ a v Hrho); [|exact Ha|exact Hv]; exact I).
  cbn [aeval] in Ha. cbn [eval] in Hv.
  destruct (sequence_res (map (aeval A aleaf aop has_true has_false join) args)) as [avs| | |] eqn:Es; try discriminate Ha.
  cbn [bind] in Ha. apply sequence_res_spec in Es.
  destruct (sequence (map (eval rho) args)) as [vs|] eqn:Ev; [|discriminate]. apply sequence_some in Ev.
  assert (HF : Forall2 gamma avs vs).
  { clear Ha Hv. revert avs vs Es Ev. induction IH as [|e r He Hr IHr]; intros avs vs Es Ev.
    - inversion Es; subst. cbn in Ev. inversion Ev; subst. constructor.
    - inversion Es; subst. cbn [map] in Ev. inversion Ev; subst. constructor; [eapply He; eauto|apply IHr; auto]. }
  assert (Hgen : aop op ints avs = Ok a -> gamma a v) by (intros H; eapply op_sound; eauto).
  destruct op; try (apply Hgen; exact Ha).
  destruct ints; [|apply Hgen; exact Ha].
  destruct avs as [|c [|t [|f [|? ?]]]]; try (apply Hgen; exact Ha).
  inversion HF as [|? vc ? ? Gc HF1]; subst. inversion HF1 as [|? vt ? ? Gt HF2]; subst. inversion HF2 as [|? vf ? ? Gf HF3]; subst.
  inversion HF3; subst. cbn in Ha. exact (a_if_sound c t f a vc vt vf v Gc Gt Gf Ha Hv).
Qed.

Variable mkf : mkfun.
Hypothesis mkf_sound : sound_mk mkf.

Theorem convert_sound rho e a v : ok_env rho -> wfe e ->
  convert A aleaf aop has_true has_false join mkf e = Ok a -> eval rho e = Some v -> gamma a v.
Proof.
  intros Hrho Hw Hc Hv. unfold convert in Hc.
  destruct (excavate mkf e) as [e'| | |] eqn:Ex; try discriminate Hc. cbn [bind] in Hc.
  destruct (excavate_sound mkf mkf_sound e e' Hw Ex) as (_ & _ & Heq).
  eapply aeval_sound; [exact Hrho|exact Hc|]. rewrite Heq. exact Hv.
Qed.
End AbsIntSound.
