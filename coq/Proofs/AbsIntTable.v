(* C24, executable instance: if every recorded operator result and join is sound, the replayed conversion is sound. *)
From Coq Require Import ZArith List Bool Lia.
Require Import CV.Spec.BV CV.Model.PyPrelude CV.Model.Ast CV.Model.Build CV.Model.Rewrite CV.Model.SI CV.Model.AbsInt
               CV.Proofs.AstLemmas CV.Proofs.BuildSound CV.Proofs.RewriteSound CV.Proofs.AbsIntSound.
Import ListNotations.
Open Scope Z_scope.

Definition gamma_t (a : aval) (v : value) : Prop :=
  match a, v with
  | ASI w s l u bt, VBV w' x => w' = w /\ SI.gamma (mkSI w s l u bt) x
  | ABool t f, VBool b => if b then t = true else f = true
  | _, _ => False
  end.

Definition entry_ok (en : tab_entry) : Prop :=
  let '(op, ints, args, r) := en in
  forall vs v, Forall2 gamma_t args vs -> eval_op op ints vs = Some v -> gamma_t r v.

Definition join_ok (j : aval * aval * aval) : Prop :=
  let '(a, b, r) := j in forall v, gamma_t a v \/ gamma_t b v -> gamma_t r v.

Definition ann_ok (ann : list (Z * aval)) (rho : env) : Prop :=
  forall n w s l u bt, ann_lookup ann n = Ok (ASI w s l u bt) -> gamma_t (ASI w s l u bt) (VBV w (wrap w (bvenv rho n))).

Lemma aval_eqb_eq a b : aval_eqb a b = true -> a = b.
Proof.
  destruct a as [w s l u bt|t f], b as [w' s' l' u' bt'|t' f']; cbn; intros H; try discriminate.
  - repeat (apply andb_true_iff in H as [H ?]). apply Z.eqb_eq in H. repeat match goal with E : (_ =? _) = true |- _ => apply Z.eqb_eq in E end.
    match goal with E : Bool.eqb _ _ = true |- _ => apply Bool.eqb_prop in E end. congruence.
  - apply andb_true_iff in H as [H1 H2]. apply Bool.eqb_prop in H1, H2. congruence.
Qed.

Lemma avals_eqb_eq a : forall b, avals_eqb a b = true -> a = b.
Proof.
  induction a as [|x r IH]; intros [|y s] H; cbn in H; try discriminate; [reflexivity|].
  apply andb_true_iff in H as [H1 H2]. apply aval_eqb_eq in H1. f_equal; auto.
Qed.

Lemma zs_eqb_eq' a : forall b, zs_eqb a b = true -> a = b.
Proof.
  induction a as [|x r IH]; intros [|y s] H; cbn in H; try discriminate; [reflexivity|].
  apply andb_true_iff in H as [H1 H2]. apply Z.eqb_eq in H1. f_equal; auto.
Qed.

Lemma tab_lookup_in tab op ints args r : tab_lookup tab op ints args = Ok r -> In (op, ints, args, r) tab.
Proof.
  induction tab as [|[[[op' ints'] args'] r'] rest IH]; cbn [tab_lookup]; [discriminate|].
  destruct (opk_eqb op op' && zs_eqb ints ints' && avals_eqb args args') eqn:E.
  - intros H. inversion H; subst. apply andb_true_iff in E as [E E3]. apply andb_true_iff in E as [E1 E2].
    apply opk_eqb_eq in E1. apply zs_eqb_eq' in E2. apply avals_eqb_eq in E3. subst. left. reflexivity.
  - intros H. right. auto.
Qed.

Lemma join_lookup_in joins a b r : join_lookup joins a b = Ok r -> In (a, b, r) joins.
Proof.
  induction joins as [|[[x y] z] rest IH]; cbn [join_lookup]; [discriminate|].
  destruct (aval_eqb a x && aval_eqb b y) eqn:E.
  - intros H. inversion H; subst. apply andb_true_iff in E as [E1 E2]. apply aval_eqb_eq in E1, E2. subst. left. reflexivity.
  - intros H. right. auto.
Qed.

Theorem table_convert_sound mkf (Hmk : sound_mk mkf) ann tab joins rho e a v :
  Forall entry_ok tab -> Forall join_ok joins -> ann_ok ann rho -> wfe e ->
  vsa_convert mkf ann tab joins e = Ok a -> eval rho e = Some v -> gamma_t a v.
Proof.
  intros Ht Hj Ha Hw Hc Hv. unfold vsa_convert in Hc.
  eapply (convert_sound aval gamma_t (t_leaf ann) (tab_lookup tab) t_has_true t_has_false (t_join joins) (fun r => r = rho));
    try exact Hc; try exact Hv; try exact Hw; try exact Hmk; try reflexivity.
  - (* leaves *)
    intros rho' l al vl -> Hleaf Hl Hev. destruct l as [n w|x w|n|b|]; cbn [t_leaf] in Hl; try discriminate; try contradiction.
    + destruct (ann_lookup ann n) as [q| | |] eqn:Eq; try discriminate Hl. cbn [bind] in Hl.
      destruct q as [w' s l u bt|]; [|discriminate]. destruct (w =? w') eqn:Ew; [|discriminate]. apply Z.eqb_eq in Ew. subst w'.
      inversion Hl; subst. cbn [eval] in Hev. inversion Hev; subst. apply (Ha n w s l u bt Eq).
    + destruct ((0 <=? x) && (x <? 2 ^ w)) eqn:Er; [|discriminate]. inversion Hl; subst. cbn [eval] in Hev. inversion Hev; subst.
      apply andb_true_iff in Er as [E1 E2]. apply Z.leb_le in E1. apply Z.ltb_lt in E2.
      cbn [gamma_t]. split; [reflexivity|]. split; [reflexivity|]. exists 0. unfold span. cbn [stride lb ub bits].
      rewrite Z.sub_diag, Z.mul_0_l, Z.add_0_r. rewrite Z.mod_0_l by lia. rewrite Z.mod_small by lia. lia.
    + inversion Hl; subst. cbn [eval] in Hev. inversion Hev; subst. cbn [gamma_t]. destruct b; reflexivity.
  - (* operators *)
    intros op ints avs vs r vr HF Hl Hev. apply tab_lookup_in in Hl. rewrite Forall_forall in Ht. apply (Ht _ Hl vs vr HF Hev).
  - intros q Hq. destruct q as [|t f]; cbn in *; [contradiction|exact Hq].
  - intros q Hq. destruct q as [|t f]; cbn in *; [contradiction|exact Hq].
  - (* joins *)
    intros x y z vz Hjn Hor. destruct x as [w s l u bt|t f], y as [w' s' l' u' bt'|t' f']; cbn [t_join] in Hjn.
    + apply join_lookup_in in Hjn. rewrite Forall_forall in Hj. apply (Hj _ Hjn vz Hor).
    + apply join_lookup_in in Hjn. rewrite Forall_forall in Hj. apply (Hj _ Hjn vz Hor).
    + apply join_lookup_in in Hjn. rewrite Forall_forall in Hj. apply (Hj _ Hjn vz Hor).
    + inversion Hjn; subst. destruct vz as [|b]; cbn in Hor |- *; [tauto|].
      destruct b; destruct Hor as [->| ->]; cbn; auto using orb_true_r.
Qed.
