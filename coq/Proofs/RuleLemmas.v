(* Arithmetic facts behind individual rewrite rules of simplifications.py; width and constants universally quantified. *)
From Coq Require Import ZArith Bool Lia.
Require Import CV.Spec.BV CV.Proofs.BVLemmas.
Open Scope Z_scope.

(* expr - c1 == c2  <->  expr == c1 + c2 *)
Lemma sub_eq_rule w x c1 c2 : 0 <= w -> 0 <= x < 2 ^ w -> 0 <= c2 < 2 ^ w ->
  (bvsub w x c1 =? c2) = (x =? bvadd w c1 c2).
Proof.
  intros Hw Hx Hc. unfold bvsub, bvadd, wrap. pose proof (pow2_pos w Hw) as Hp.
  destruct (x =? (c1 + c2) mod 2 ^ w) eqn:E.
  - apply Z.eqb_eq in E. apply Z.eqb_eq. rewrite E. rewrite Zminus_mod_idemp_l.
    replace (c1 + c2 - c1) with c2 by lia. apply Z.mod_small; lia.
  - apply Z.eqb_neq in E. apply Z.eqb_neq. intros Heq. apply E.
    rewrite <- Heq. rewrite Zplus_mod_idemp_r. replace (c1 + (x - c1)) with x by lia.
    symmetry. apply Z.mod_small; lia.
Qed.

(* x ^ y == 0  <->  x == y *)
Lemma xor_zero_rule x y : (Z.lxor x y =? 0) = (x =? y).
Proof.
  destruct (x =? y) eqn:E.
  - apply Z.eqb_eq in E. subst. rewrite Z.lxor_nilpotent. reflexivity.
  - apply Z.eqb_neq in E. apply Z.eqb_neq. intros H. apply E. apply Z.lxor_eq. exact H.
Qed.

(* single-bit masks *)
Definition single_bit (m : Z) : Prop := 0 < m /\ Z.land m (m - 1) = 0.

Lemma single_bit_pow2 m : single_bit m -> m = 2 ^ Z.log2 m.
Proof.
  intros [Hm Hl]. pose proof (Z.log2_spec m Hm) as [Lo Hi]. set (k := Z.log2 m) in *.
  assert (Hk : 0 <= k) by apply Z.log2_nonneg.
  destruct (Z.eq_dec m (2 ^ k)) as [|Hne]; [assumption|exfalso].
  assert (Hbit_m : Z.testbit m k = true) by (apply Z.bit_log2; lia).
  assert (Hbit_m1 : Z.testbit (m - 1) k = true).
  { assert (Hr : 2 ^ k <= m - 1 < 2 ^ Z.succ k) by lia.
    assert (Z.log2 (m - 1) = k) by (apply Z.log2_unique; lia).
    rewrite <- H. apply Z.bit_log2. pose proof (pow2_pos k Hk). lia. }
  assert (Z.testbit (Z.land m (m - 1)) k = true) by (rewrite Z.land_spec, Hbit_m, Hbit_m1; reflexivity).
  rewrite Hl in H. rewrite Z.bits_0 in H. discriminate.
Qed.

Lemma land_pow2 e k : 0 <= k -> Z.land e (2 ^ k) = if Z.testbit e k then 2 ^ k else 0.
Proof.
  intros Hk. apply Z.bits_inj'. intros i Hi. rewrite Z.land_spec, Z.pow2_bits_eqb by lia.
  destruct (Z.eqb_spec k i) as [->|Hne].
  - destruct (Z.testbit e i); [rewrite Z.pow2_bits_true by lia; reflexivity|rewrite Z.bits_0; reflexivity].
  - rewrite andb_false_r. destruct (Z.testbit e k); [rewrite Z.pow2_bits_false by lia; reflexivity|rewrite Z.bits_0; reflexivity].
Qed.

Lemma single_bit_land e m : single_bit m -> Z.land e m = 0 \/ Z.land e m = m.
Proof.
  intros H. pose proof (single_bit_pow2 m H) as E. rewrite E at 1 2.
  rewrite land_pow2 by apply Z.log2_nonneg. destruct (Z.testbit e (Z.log2 m)); [right; lia|left; reflexivity].
Qed.

(* (e & m) ^ m == 0  <->  (e & m) != 0     for a single-bit m *)
Lemma mask_xor_rule e m : single_bit m ->
  (Z.lxor (Z.land e m) m =? 0) = negb (Z.land e m =? 0).
Proof.
  intros H. rewrite xor_zero_rule. destruct H as [Hm Hl].
  destruct (single_bit_land e m (conj Hm Hl)) as [E|E]; rewrite E.
  - rewrite Z.eqb_refl. cbn [negb]. apply Z.eqb_neq. lia.
  - rewrite Z.eqb_refl. symmetry. apply negb_true_iff. apply Z.eqb_neq. lia.
Qed.
