(* C22: least_upper_bound of any number of intervals contains every operand.  Every candidate is a fold of pseudo_join
   (sound for either value of smart_join: join_sound) over a rotation of the sorted operands, i.e. over a permutation of them;
   whichever candidate is picked is therefore sound. *)
From Coq Require Import ZArith List Bool Lia.
Require Import CV.Model.PyPrelude CV.Gen.SIHelpers CV.Model.SI CV.Model.SIUnion CV.Proofs.SISound CV.Proofs.SIUnionSound.
Import ListNotations.
Open Scope Z_scope.

Definition okw (w : Z) (y : si) : Prop := wf y /\ bits y = w.

Lemma fold_join_sound w l : forall x r, okw w x -> Forall (okw w) l -> foldM (si_join false) l x = Ok r ->
  okw w r /\ (forall v, gamma x v -> gamma r v) /\ (forall y v, In y l -> gamma y v -> gamma r v).
Proof.
  induction l as [|y l IH]; intros x r Hx Hl Hr; cbn [foldM] in Hr.
  - inversion Hr; subst r. split; [exact Hx|]. split; [auto|]. intros y v [].
  - inversion Hl as [|? ? Hy Hl']; subst.
    destruct Hx as [Wx Bx]. destruct Hy as [Wy By].
    destruct (join_sound false x y Wx Wy (eq_trans Bx (eq_sym By))) as (j & Ej & Wj & Bj & Gj).
    rewrite Ej in Hr. cbn [bind] in Hr.
    destruct (IH j r (conj Wj (eq_trans Bj Bx)) Hl' Hr) as (Hr' & Gjr & Glr).
    split; [exact Hr'|]. split.
    + intros v Hv. apply Gjr, Gj. left; exact Hv.
    + intros z v [<-|Hz] Hv; [apply Gjr, Gj; right; exact Hv|exact (Glr z v Hz Hv)].
Qed.

Lemma join_fold_sound w l r : Forall (okw w) l -> join_fold l = Ok r ->
  okw w r /\ forall y v, In y l -> gamma y v -> gamma r v.
Proof.
  intros Hl Hr. destruct l as [|x l]; [discriminate|]. cbn [join_fold] in Hr.
  inversion Hl as [|? ? Hx Hl']; subst.
  destruct (fold_join_sound w l x r Hx Hl' Hr) as (Hr' & Gx & Gl).
  split; [exact Hr'|]. intros y v [<-|Hy] Hv; [exact (Gx v Hv)|exact (Gl y v Hy Hv)].
Qed.

Lemma in_insert_lb x l a : In a (insert_lb x l) <-> a = x \/ In a l.
Proof.
  induction l as [|y l IH]; cbn [insert_lb].
  - cbn. intuition.
  - destruct (lb x <? lb y); cbn [In]; [intuition|]. rewrite IH. intuition.
Qed.

Lemma in_sort_lb l a : In a (sort_lb l) <-> In a l.
Proof.
  unfold sort_lb. assert (H : forall acc, In a (fold_left (fun acc x => insert_lb x acc) l acc) <-> In a acc \/ In a l).
  { induction l as [|x l IH]; intros acc; cbn [fold_left In]; [intuition|].
    rewrite IH, in_insert_lb. intuition. }
  rewrite H. cbn. intuition.
Qed.

Lemma in_rotation {A} (s : list A) i a : In a (skipn i s ++ firstn i s) <-> In a s.
Proof.
  rewrite in_app_iff. rewrite <- (firstn_skipn i s) at 3. rewrite in_app_iff. intuition.
Qed.

Lemma mapM_forall {A B} (f : A -> res B) (P : B -> Prop) l :
  (forall a b, In a l -> f a = Ok b -> P b) -> forall rs, mapM f l = Ok rs -> Forall P rs.
Proof.
  induction l as [|a0 l IH]; intros Hf rs H; cbn [mapM] in H; [inversion H; constructor|].
  destruct (f a0) as [b0| | |] eqn:E0; try discriminate. cbn [bind] in H.
  destruct (mapM f l) as [rs0| | |] eqn:E1; try discriminate. cbn [bind] in H. inversion H; subst rs; clear H.
  constructor; [exact (Hf a0 b0 (or_introl eq_refl) E0)|].
  apply IH; [|reflexivity]. intros a b Ha. apply Hf. right; exact Ha.
Qed.

Lemma pick_least_in best nb cands r : pick_least best nb cands = Ok r -> r = best \/ In r cands.
Proof.
  revert best nb. induction cands as [|c cs IH]; intros best nb H; cbn [pick_least] in H.
  - inversion H. left; reflexivity.
  - destruct (n_values c) as [nc| | |]; try discriminate. cbn [bind] in H.
    destruct (nc <? nb); destruct (IH _ _ H) as [->|Hin]; cbn [In]; auto.
Qed.

Theorem lub_sound w l r : Forall (okw w) l -> si_lub l = Ok r ->
  okw w r /\ forall a v, In a l -> gamma a v -> gamma r v.
Proof.
  intros Hl Hr. unfold si_lub in Hr.
  destruct l as [|x [|y [|z l]]]; [discriminate| | |].
  - inversion Hr; subst r. inversion Hl; subst. split; [assumption|]. intros a v [<-|[]] Hv; exact Hv.
  - inversion Hl as [|? ? Hx Hl']; subst. inversion Hl' as [|? ? Hy _]; subst. destruct Hx as [Wx Bx]. destruct Hy as [Wy By].
    destruct (bits x =? bits y); [|discriminate]. cbn [negb] in Hr.
    destruct (join_sound true x y Wx Wy (eq_trans Bx (eq_sym By))) as (j & Ej & Wj & Bj & Gj).
    rewrite Ej in Hr. inversion Hr; subst r. split; [split; [exact Wj|exact (eq_trans Bj Bx)]|].
    intros a v [<-|[<-|[]]] Hv; apply Gj; [left|right]; exact Hv.
  - set (L := x :: y :: z :: l) in *.
    destruct (negb (forallb (fun y0 => bits y0 =? bits x) L)); [discriminate|].
    destruct (mapM _ _) as [cands| | |] eqn:Ec; try discriminate. cbn [bind] in Hr.
    assert (Hs : Forall (okw w) (sort_lb L)).
    { rewrite Forall_forall in *. intros a Ha. apply Hl. apply in_sort_lb. exact Ha. }
    assert (Hc : Forall (fun c => okw w c /\ forall a v, In a L -> gamma a v -> gamma c v) cands).
    { apply (mapM_forall (fun i => join_fold (skipn i (sort_lb L) ++ firstn i (sort_lb L)))
                         (fun c => okw w c /\ forall a v, In a L -> gamma a v -> gamma c v)
                         (seq 0 (length (sort_lb L)))); [|exact Ec].
      intros i c _ Hic. cbv beta in Hic.
      assert (Hrot : Forall (okw w) (skipn i (sort_lb L) ++ firstn i (sort_lb L))).
      { rewrite Forall_forall in *. intros a Ha. apply Hs. apply in_rotation in Ha. exact Ha. }
      destruct (join_fold_sound w _ c Hrot Hic) as (Hcw & Hcg). split; [exact Hcw|].
      intros a v Ha Hv. apply (Hcg a v); [|exact Hv]. apply in_rotation. apply in_sort_lb. exact Ha. }
    destruct cands as [|c cs]; [discriminate|].
    destruct (n_values c) as [nc| | |]; try discriminate. cbn [bind] in Hr.
    rewrite Forall_forall in Hc.
    destruct (pick_least_in c nc cs r Hr) as [->|Hin]; [apply Hc; left; reflexivity|apply Hc; right; exact Hin].
Qed.

(* the premises are met and the function computes: 2 bits, the three single values 0, 2, 3 (the repaired non-smart join of
   3 and 0 wraps: 1[3, 0]), and a four-operand join at 3 bits *)
Example lub_examples :
  Forall (okw 2) [mkSI 2 0 0 0 false; mkSI 2 0 2 2 false; mkSI 2 0 3 3 false] /\
  (exists r, si_lub [mkSI 2 0 0 0 false; mkSI 2 0 2 2 false; mkSI 2 0 3 3 false] = Ok r /\
             In 0 (members r) /\ In 2 (members r) /\ In 3 (members r)) /\
  si_join false (mkSI 3 0 5 5 false) (mkSI 3 0 0 0 false) = Ok (mkSI 3 3 5 0 false).
Proof.
  split; [repeat constructor; cbn; unfold SHIFT_LIMIT; lia|].
  split; [eexists; split; [vm_compute; reflexivity|]; vm_compute; tauto|vm_compute; reflexivity].
Qed.
