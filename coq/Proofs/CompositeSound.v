(* C12: why solving variable-independent constraint groups separately is exact.
   If groups of constraints share no variable, a model of each group can be glued into a model of all of them;
   hence the whole set is satisfiable iff every group is, and the values an expression takes over all models are the
   values it takes over the models of the groups it depends on -- provided the other groups are satisfiable. *)
From Coq Require Import ZArith Bool List Lia.
Require Import CV.Model.PyPrelude CV.Model.Ast CV.Model.Build CV.Model.Rewrite CV.Model.Frontend
               CV.Proofs.AstLemmas CV.Proofs.BuildSound CV.Proofs.SimpSound CV.Proofs.TreeSound CV.Proofs.MetaSound
               CV.Proofs.RewriteSound CV.Proofs.FrontendSound.
Import ListNotations.
Open Scope Z_scope.

Definition gvars (g : list expr) : list (bool * Z) := flat_map fvars g.

(* glue: variables of V are read from rho1, all others from rho2 *)
Definition glue (V : list (bool * Z)) (rho1 rho2 : env) : env :=
  mkEnv (fun n => if vmem (false, n) V then bvenv rho1 n else bvenv rho2 n)
        (fun n => if vmem (true, n) V then boolenv rho1 n else boolenv rho2 n).

Lemma glue_left V rho1 rho2 vs : (forall v, In v vs -> In v V) -> agree (glue V rho1 rho2) rho1 vs.
Proof.
  intros H b n Hin. specialize (H _ Hin). apply vmem_spec in H.
  destruct b; cbn [glue boolenv bvenv]; rewrite H; reflexivity.
Qed.

Lemma glue_right V rho1 rho2 vs : (forall v, In v vs -> ~ In v V) -> agree (glue V rho1 rho2) rho2 vs.
Proof.
  intros H b n Hin. specialize (H _ Hin).
  assert (E : vmem (b, n) V = false).
  { destruct (vmem (b, n) V) eqn:E; [|reflexivity]. apply vmem_spec in E. contradiction. }
  destruct b; cbn [glue boolenv bvenv]; rewrite E; reflexivity.
Qed.

Lemma models_ext rho rho' g : agree rho rho' (gvars g) -> models rho g = models rho' g.
Proof.
  unfold models, gvars. induction g as [|c r IH]; intros H; cbn [forallb flat_map] in *; [reflexivity|].
  assert (Hc : holds rho c = holds rho' c).
  { unfold holds. rewrite (eval_ext rho rho' c); [reflexivity|]. intros b n Hin. apply H. apply in_or_app. auto. }
  rewrite Hc, IH; [reflexivity|]. intros b n Hin. apply H. apply in_or_app. auto.
Qed.

Definition disjoint (a b : list (bool * Z)) : Prop := forall v, In v a -> ~ In v b.

(* the groups are pairwise variable-disjoint *)
Fixpoint independent (gs : list (list expr)) : Prop :=
  match gs with
  | [] => True
  | g :: r => disjoint (gvars g) (gvars (concat r)) /\ independent r
  end.

Theorem composite_sat gs :
  independent gs -> (forall g, In g gs -> exists rho, models rho g = true) ->
  exists rho, models rho (concat gs) = true.
Proof.
  induction gs as [|g r IH]; intros Hi Hs; cbn [concat].
  - exists (mkEnv (fun _ => 0) (fun _ => false)). reflexivity.
  - destruct Hi as [Hd Hi]. destruct (Hs g (or_introl eq_refl)) as (rho1 & H1).
    destruct (IH Hi (fun g' Hg' => Hs g' (or_intror Hg'))) as (rho2 & H2).
    exists (glue (gvars g) rho1 rho2). rewrite models_app.
    rewrite (models_ext _ rho1 g) by (apply glue_left; auto).
    rewrite (models_ext _ rho2 (concat r)).
    + rewrite H1, H2. reflexivity.
    + apply glue_right. intros v Hv Hg. exact (Hd v Hg Hv).
Qed.

Theorem composite_sat_iff gs :
  independent gs ->
  ((exists rho, models rho (concat gs) = true) <-> (forall g, In g gs -> exists rho, models rho g = true)).
Proof.
  intros Hi. split; [|apply composite_sat; auto].
  intros (rho & H) g Hg. exists rho. clear Hi. induction gs as [|x r IH]; [destruct Hg|].
  cbn [concat] in H. rewrite models_app in H. apply andb_true_iff in H as [Hx Hr].
  destruct Hg as [<-|Hg]; auto.
Qed.

(* a query answered from the groups it depends on: rel are the constraints of those groups, other the rest *)
Theorem composite_eval rel other e v :
  disjoint (gvars rel ++ fvars e) (gvars other) ->
  (exists rho, models rho other = true) ->
  ((exists rho, models rho (rel ++ other) = true /\ eval rho e = v) <->
   (exists rho, models rho rel = true /\ eval rho e = v)).
Proof.
  intros Hd (rhoo & Ho). split.
  - intros (rho & H & He). rewrite models_app in H. apply andb_true_iff in H as [Hr _]. exists rho. auto.
  - intros (rho & Hr & He). exists (glue (gvars rel ++ fvars e) rho rhoo). split.
    + rewrite models_app.
      rewrite (models_ext _ rho rel) by (apply glue_left; intros; apply in_or_app; auto).
      rewrite (models_ext _ rhoo other).
      * rewrite Hr, Ho. reflexivity.
      * apply glue_right. intros x Hx Hg. exact (Hd x Hg Hx).
    + rewrite <- He. apply eval_ext. apply glue_left. intros; apply in_or_app; auto.
Qed.

(* without the premise that the other groups are satisfiable the reduction is wrong: this is what _ensure_sat is for *)
Theorem composite_eval_needs_sat :
  exists rel other e v,
    disjoint (gvars rel ++ fvars e) (gvars other) /\
    (exists rho, models rho rel = true /\ eval rho e = v) /\
    ~ (exists rho, models rho (rel ++ other) = true /\ eval rho e = v).
Proof.
  exists [], [BoolVe false], (BoolVe true), (Some (VBool true)). split; [intros x []|]. split.
  - exists (mkEnv (fun _ => 0) (fun _ => false)). split; reflexivity.
  - intros (rho & H & _). cbn in H. discriminate.
Qed.
