(* Soundness of each modelled simplifier, parametric in the soundness of the constructor it calls. *)
From Coq Require Import ZArith Bool List Lia.
Require Import CV.Model.PyPrelude CV.Spec.BV CV.Model.BVExec CV.Gen.BvConcrete CV.Model.Ast CV.Model.Build.
Require Import CV.Proofs.BVLemmas CV.Proofs.BVExecProof CV.Proofs.BVSigned CV.Proofs.SpecRange CV.Proofs.AstLemmas
               CV.Proofs.BvConcreteProof CV.Proofs.BuildSound CV.Proofs.BigOp CV.Proofs.FlattenSound CV.Proofs.FlattenInst CV.Proofs.RuleLemmas.
Import ListNotations.
Open Scope Z_scope.

(* ---- inversion of the rule-chaining combinators ---- *)
Lemma orelse_inv r k x : (r <|> k) = Ok (Some x) -> r = Ok (Some x) \/ (r = Ok None /\ k = Ok (Some x)).
Proof. unfold orelse. destruct r as [[y|]| | |]; cbn; intros H; try discriminate; [left; exact H|right; auto]. Qed.
Lemma when_inv c k x : when c k = Ok (Some x) -> c = true /\ k = Ok (Some x).
Proof. unfold when, skip. destruct c; intros H; [auto|discriminate]. Qed.
Lemma ret_inv r x : ret r = Ok (Some x) -> r = Ok x.
Proof. unfold ret. destruct r; cbn; intros H; inversion H; reflexivity. Qed.
Lemma done_inv e x : done e = Ok (Some x) -> e = x.
Proof. unfold done. intros H; inversion H; reflexivity. Qed.
Lemma skip_inv x : skip = Ok (Some x) -> False.
Proof. unfold skip. discriminate. Qed.
Lemma test_inv r k x : test r k = Ok (Some x) -> r = Ok (BoolVe true) /\ k = Ok (Some x).
Proof.
  unfold test, skip. destruct r as [c| | |]; cbn; try discriminate.
  destruct c as [| | |[|]|]; cbn; try discriminate. auto.
Qed.
Lemma guard_inv c x : guard_unmodelled c = Ok (Some x) -> False.
Proof. unfold guard_unmodelled, unmodelled, skip. destruct c; discriminate. Qed.

Ltac chain H :=
  repeat match type of H with
  | (_ <|> _) = Ok (Some _) =>
      let H1 := fresh "R" in apply orelse_inv in H as [H1|[_ H]]; [revert H1|]
  end.

(* ---- well-formed constants ---- *)
Lemma cbvv_wf k w : wok w = true -> wfe (cbvv k w) /\ elen (cbvv k w) = w.
Proof.
  intros Hw. unfold cbvv. split; [|reflexivity]. cbn. split; auto.
  apply Z.mod_pos_bound. apply pow2_pos. apply wok_nonneg; auto.
Qed.

(* ---- what a comparison built by a sound constructor tells us ---- *)
Section WithMk.
Variable mk : mkfun.
Hypothesis Hmk : sound_mk mk.

Definition bvlen (e : expr) : Prop := wfe e /\ wok (elen e) = true.

Lemma valof rho e : bvlen e -> exists x, eval rho e = Some (VBV (elen e) x) /\ 0 <= x < 2 ^ elen e.
Proof. intros [H1 H2]. apply eval_bv; auto. Qed.

Lemma targs2 op a b : wfe a -> wfe b -> (exists len, tyop op [] [elen a; elen b] = Some len) -> targs op [] [a; b].
Proof. intros Ha Hb Ht. split; [repeat constructor; auto|exact Ht]. Qed.

Lemma targs_cmp op a b : (op = OEq \/ op = ONe \/ op = OULT \/ op = OULE \/ op = OUGT \/ op = OUGE
                          \/ op = OSLT \/ op = OSLE \/ op = OSGT \/ op = OSGE) ->
  bvlen a -> bvlen b -> elen a = elen b -> targs op [] [a; b].
Proof.
  intros Hop [Ha Hwa] [Hb Hwb] He. apply targs2; auto. exists (-1). rewrite <- He.
  destruct Hop as [->|[->|[->|[->|[->|[->|[->|[->|[->| ->]]]]]]]]]; cbn [tyop]; rewrite Hwa, Z.eqb_refl; reflexivity.
Qed.

Lemma eq_true_bv rho a b : bvlen a -> bvlen b -> elen a = elen b ->
  mk OEq [] [a; b] = Ok (BoolVe true) -> eval rho a = eval rho b.
Proof.
  intros Ha Hb He H.
  destruct (Hmk OEq [] [a; b] _ (targs_cmp OEq a b ltac:(auto) Ha Hb He) H) as (_ & _ & E).
  specialize (E rho). unfold plain in E. cbn [eval map sequence] in E.
  destruct (valof rho a Ha) as (x & Ex & _). destruct (valof rho b Hb) as (y & Ey & _).
  rewrite Ex, Ey in *. cbn [eval_op] in E. rewrite He, Z.eqb_refl in E. inversion E as [E'].
  symmetry in E'. apply Z.eqb_eq in E'. subst. rewrite He. reflexivity.
Qed.

Lemma eq_int_true rho a k : bvlen a -> mk OEq [] [a; cbvv k (elen a)] = Ok (BoolVe true) ->
  eval rho a = Some (VBV (elen a) (k mod 2 ^ elen a)).
Proof.
  intros Ha H. pose proof Ha as [Hwf Hw]. destruct (cbvv_wf k (elen a) Hw) as [Cw Cl].
  assert (Hc : bvlen (cbvv k (elen a))) by (split; auto; rewrite Cl; auto).
  rewrite (eq_true_bv rho a (cbvv k (elen a)) Ha Hc (eq_sym Cl) H). reflexivity.
Qed.

(* ---- shape of a well-typed binary bitvector application ---- *)
Definition binbv (op : opk) : Prop :=
  op = OSub \/ op = OUDiv \/ op = OURem \/ op = OSDiv \/ op = OSMod \/ op = OShl \/ op = OAShr \/ op = OLShr
  \/ op = ORotL \/ op = ORotR.

Lemma targs_bin_inv op a b : binbv op -> targs op [] [a; b] ->
  bvlen a /\ bvlen b /\ elen a = elen b /\ calc_len op [] [a; b] = elen a.
Proof.
  intros Hop [Hf [len Hty]]. inversion Hf as [|? ? Ha Hr]; subst. inversion Hr as [|? ? Hb _]; subst.
  assert (X : wok (elen a) && (elen a =? elen b) = true).
  { destruct Hop as [->|[->|[->|[->|[->|[->|[->|[->|[->| ->]]]]]]]]]; cbn [tyop map] in Hty;
    destruct (wok (elen a) && (elen a =? elen b)); auto; discriminate. }
  apply andb_true_iff in X as [Hw He]. apply Z.eqb_eq in He.
  split; [split; auto|]. split; [split; auto; rewrite <- He; auto|]. split; auto.
  destruct Hop as [->|[->|[->|[->|[->|[->|[->|[->|[->| ->]]]]]]]]]; reflexivity.
Qed.

Lemma eval_node2 rho op a b l x y :
  eval rho a = Some x -> eval rho b = Some y -> eval rho (Node op [] [a; b] l) = eval_op op [] [x; y].
Proof. intros Ea Eb. cbn [eval map sequence]. rewrite Ea, Eb. reflexivity. Qed.

Lemma good_intro op ints args r :
  wfe r -> elen r = calc_len op ints args -> (forall rho, eval rho r = eval rho (plain op ints args)) ->
  good op ints args r.
Proof. intros; split; auto. Qed.

(* ---- shifts ---- *)
Lemma shift_by_zero_sound op val shift :
  (op = OShl \/ op = OAShr \/ op = OLShr) ->
  targs op [] [val; shift] -> eq_int mk shift 0 = Ok (BoolVe true) -> good op [] [val; shift] val.
Proof.
  intros Hop Ht H.
  destruct (targs_bin_inv op val shift ltac:(unfold binbv; tauto) Ht) as (Hv & Hs & He & Hc).
  apply good_intro; [apply Hv|congruence|].
  intros rho. destruct (valof rho val Hv) as (x & Ex & Rx).
  pose proof (eq_int_true rho shift 0 Hs H) as Es.
  pose proof (wok_pos _ (proj2 Hv)) as Hpos.
  rewrite Z.mod_0_l in Es by (pose proof (pow2_pos (elen shift)); lia).
  unfold plain. rewrite (eval_node2 rho op val shift _ _ _ Ex Es). rewrite Ex.
  destruct Hop as [->|[->| ->]]; cbn [eval_op bin_bv]; rewrite He, Z.eqb_refl; rewrite <- He; do 2 f_equal.
  - symmetry. apply shl_x_0; auto.
  - symmetry. apply ashr_x_0; auto.
  - symmetry. apply lshr_x_0; auto.
Qed.

Lemma simp_rshift_sound op val shift r :
  (op = OAShr \/ op = OLShr) ->
  targs op [] [val; shift] -> simp_rshift mk val shift = Ok (Some r) -> good op [] [val; shift] r.
Proof.
  intros Hop Ht H. unfold simp_rshift in H. chain H.
  - intros R. apply test_inv in R as [R1 R2]. apply done_inv in R2. subst r.
    apply shift_by_zero_sound; auto; tauto.
  - intros R. exfalso. destruct val as [| | | |o i a l]; try (apply skip_inv in R; auto).
    destruct o; try (apply skip_inv in R; auto). destruct i; try (apply skip_inv in R; auto).
    destruct a; try (apply skip_inv in R; auto).
    apply test_inv in R as [_ R]. apply test_inv in R as [_ R]. discriminate R.
  - exfalso. destruct val as [| | | |o i a l]; try (apply skip_inv in H; auto).
    destruct o; try (apply skip_inv in H; auto). destruct i as [|n [|? ?]]; try (apply skip_inv in H; auto).
    apply test_inv in H as [_ H]. discriminate H.
Qed.

Lemma simp_lshift_sound val shift r :
  targs OShl [] [val; shift] -> simp_lshift mk val shift = Ok (Some r) -> good OShl [] [val; shift] r.
Proof.
  intros Ht H. unfold simp_lshift in H. chain H.
  - intros R. apply test_inv in R as [R1 R2]. apply done_inv in R2. subst r.
    apply shift_by_zero_sound; auto.
  - destruct (targs_bin_inv OShl val shift ltac:(unfold binbv; tauto) Ht) as (Hv & Hs & He & Hc).
    destruct val as [| | | |o i a l]; try (apply skip_inv in H; tauto).
    destruct o; try (apply skip_inv in H; tauto). destruct i; try (apply skip_inv in H; tauto).
    destruct a as [|rv [|[| iv iw | | |] [|? ?]]]; try (apply skip_inv in H; tauto).
    destruct shift as [| sv sw | | |]; try (apply skip_inv in H; tauto).
    (* val = (rv << iv), shift = sv *)
    destruct Hv as [Hvw Hvl]. cbn [elen] in *. subst sw.
    apply wfe_node in Hvw as [Hargs Hty]. inversion Hargs as [|? ? Hrv Hr1]; subst.
    inversion Hr1 as [|? ? Hiv _]; subst. cbn [map tyop elen] in Hty.
    destruct (wok (elen rv) && (elen rv =? iw)) eqn:Hc2; [|discriminate Hty].
    inversion Hty; subst l. apply andb_true_iff in Hc2 as [Hw Heq]. apply Z.eqb_eq in Heq. subst iw.
    destruct Hiv as [_ Hir]. destruct Hs as [[_ Hsr] _].
    pose proof (wok_pos _ Hw) as Hpos. pose proof (wok_nonneg _ Hw) as Hnn.
    assert (Hplain : forall rho x, eval rho rv = Some (VBV (elen rv) x) ->
              eval rho (plain OShl [] [Node OShl [] [rv; BVVe iv (elen rv)] (elen rv); BVVe sv (elen rv)])
              = Some (VBV (elen rv) (bvshl_x (elen rv) x (iv + sv)))).
    { intros rho x Ex. unfold plain. cbn [eval map sequence]. rewrite Ex. cbn [eval_op bin_bv].
      rewrite Z.eqb_refl. cbn [eval_op bin_bv]. rewrite Z.eqb_refl. rewrite shl_shl by lia. reflexivity. }
    destruct (elen rv <=? iv + sv) eqn:Esat.
    + apply done_inv in H. subst r. apply Z.leb_le in Esat.
      destruct (cbvv_wf 0 (elen rv) Hw) as [Cw Cl].
      apply good_intro; auto. intros rho.
      destruct (eval_bv rho rv Hrv Hw) as (x & Ex & _). rewrite (Hplain rho x Ex).
      unfold cbvv. cbn [eval]. rewrite Z.mod_0_l by (pose proof (pow2_pos (elen rv)); lia).
      rewrite shl_x_sat by lia. reflexivity.
    + apply ret_inv in H. apply Z.leb_gt in Esat.
      destruct (cbvv_wf (iv + sv) (elen rv) Hw) as [Cw Cl].
      assert (Ht2 : targs OShl [] [rv; cbvv (iv + sv) (elen rv)]).
      { apply targs2; auto. exists (elen rv). cbn [tyop]. rewrite Cl, Hw, Z.eqb_refl. reflexivity. }
      destruct (Hmk OShl [] _ r Ht2 H) as (Gw & Gl & Ge).
      apply good_intro; auto. intros rho. rewrite (Ge rho).
      destruct (eval_bv rho rv Hrv Hw) as (x & Ex & _). rewrite (Hplain rho x Ex).
      unfold plain, cbvv. cbn [eval map sequence]. rewrite Ex. cbn [eval_op bin_bv]. rewrite Z.eqb_refl.
      pose proof (lt_pow2_self (elen rv) Hnn). rewrite Z.mod_small by lia. reflexivity.
Qed.

Lemma simp_zeroext_sound n e r :
  targs OZeroExt [n] [e] -> simp_zeroext mk n e = Ok (Some r) -> good OZeroExt [n] [e] r.
Proof.
  intros Ht H. unfold simp_zeroext in H. destruct (n =? 0) eqn:En.
  - apply done_inv in H. subst r. apply Z.eqb_eq in En. subst n.
    destruct Ht as [Hf [len Hty]]. inversion Hf as [|? ? He _]; subst. cbn [map tyop] in Hty.
    destruct (wok (elen e) && (0 <=? 0) && wok (elen e + 0)) eqn:Hc; [|discriminate Hty].
    apply andb_true_iff in Hc as [Hc _]. apply andb_true_iff in Hc as [Hw _].
    apply good_intro; auto; [cbn; lia|]. intros rho. destruct (eval_bv rho e He Hw) as (x & Ex & _).
    unfold plain. cbn [eval map sequence]. rewrite Ex. cbn. rewrite Z.add_0_r. reflexivity.
  - exfalso. destruct e as [| | | |o i a l]; try (apply skip_inv in H; auto).
    destruct o; try (apply skip_inv in H; auto). destruct i as [|m [|? ?]]; try (apply skip_inv in H; auto).
    destruct a as [|x [|? ?]]; try (apply skip_inv in H; auto).
    destruct (mk OZeroExt [n + m] [x]); cbn in H; try discriminate H.
Qed.

Lemma simp_signext_sound n e r :
  targs OSignExt [n] [e] -> simp_signext n e = Ok (Some r) -> good OSignExt [n] [e] r.
Proof.
  intros Ht H. unfold simp_signext in H. destruct (n =? 0) eqn:En; [|apply skip_inv in H; tauto].
  apply done_inv in H. subst r. apply Z.eqb_eq in En. subst n.
  destruct Ht as [Hf [len Hty]]. inversion Hf as [|? ? He _]; subst. cbn [map tyop] in Hty.
  destruct (wok (elen e) && (0 <=? 0) && wok (elen e + 0)) eqn:Hc; [|discriminate Hty].
  apply andb_true_iff in Hc as [Hc _]. apply andb_true_iff in Hc as [Hw _].
  apply good_intro; auto; [cbn; lia|]. intros rho. destruct (eval_bv rho e He Hw) as (x & Ex & Rx).
  unfold plain. cbn [eval map sequence]. rewrite Ex. cbn. rewrite Z.add_0_r.
  unfold sign_extend. rewrite Z.add_0_r. rewrite wrap_sval by (auto; apply wok_pos; auto). reflexivity.
Qed.

(* ---- Not ---- *)
Definition cmp_pair (o o' : opk) : Prop :=
  (o = OEq /\ o' = ONe) \/ (o = ONe /\ o' = OEq) \/ (o = OSLT /\ o' = OSGE) \/ (o = OSLE /\ o' = OSGT)
  \/ (o = OSGT /\ o' = OSLE) \/ (o = OSGE /\ o' = OSLT) \/ (o = OULT /\ o' = OUGE) \/ (o = OULE /\ o' = OUGT)
  \/ (o = OUGT /\ o' = OULE) \/ (o = OUGE /\ o' = OULT).

Lemma not_cmp_values o o' va vb v : cmp_pair o o' ->
  eval_op o [] [va; vb] = Some v -> eval_op OBNot [] [v] = eval_op o' [] [va; vb].
Proof.
  intros Hp H.
  destruct va as [w x|p]; destruct vb as [w' y|q];
  destruct Hp as [[-> ->]|[[-> ->]|[[-> ->]|[[-> ->]|[[-> ->]|[[-> ->]|[[-> ->]|[[-> ->]|[[-> ->]|[-> ->]]]]]]]]]];
  cbn [eval_op cmp_bv] in *; try discriminate H;
  try (destruct (w =? w'); [|discriminate H]); inversion H; subst; cbn [eval_op];
  unfold bvslt, bvsle, bvsgt, bvsge, bvult, bvule, bvugt, bvuge;
  rewrite ?negb_involutive; try reflexivity; f_equal; f_equal;
  first [ symmetry; apply Z.leb_antisym | symmetry; apply Z.ltb_antisym
        | rewrite Z.leb_antisym; rewrite negb_involutive; reflexivity
        | rewrite Z.ltb_antisym; rewrite negb_involutive; reflexivity ].
Qed.

Lemma tyop_cmp_same o o' a b : cmp_pair o o' -> tyop o [] [a; b] = tyop o' [] [a; b].
Proof.
  intros Hp.
  destruct Hp as [[-> ->]|[[-> ->]|[[-> ->]|[[-> ->]|[[-> ->]|[[-> ->]|[[-> ->]|[[-> ->]|[[-> ->]|[-> ->]]]]]]]]]];
  reflexivity.
Qed.

Lemma not_cmp_sound o o' x y l r : cmp_pair o o' ->
  targs OBNot [] [Node o [] [x; y] l] -> mk o' [] [x; y] = Ok r -> good OBNot [] [Node o [] [x; y] l] r.
Proof.
  intros Hp Ht H. destruct Ht as [Hf _]. inversion Hf as [|? ? Hb _]; subst.
  apply wfe_node in Hb as [Hargs Hty].
  assert (Ht2 : targs o' [] [x; y]).
  { split; auto. exists l. cbn [map] in *. rewrite <- (tyop_cmp_same o o'); auto. }
  destruct (Hmk o' [] [x; y] r Ht2 H) as (Gw & Gl & Ge).
  assert (Hl : calc_len o' [] [x; y] = -1).
  { destruct Hp as [[-> ->]|[[-> ->]|[[-> ->]|[[-> ->]|[[-> ->]|[[-> ->]|[[-> ->]|[[-> ->]|[[-> ->]|[-> ->]]]]]]]]]]; reflexivity. }
  apply good_intro; [auto|rewrite Gl, Hl; reflexivity|]. intros rho. rewrite (Ge rho). unfold plain.
  inversion Hargs as [|? ? Hx Hr1]; subst. inversion Hr1 as [|? ? Hy _]; subst.
  destruct (eval_wf rho x Hx) as (vx & Ex & _). destruct (eval_wf rho y Hy) as (vy & Ey & _).
  cbn [eval map sequence]. rewrite Ex, Ey.
  destruct (eval_op o [] [vx; vy]) as [v|] eqn:Eo.
  - symmetry. apply (not_cmp_values o o'); auto.
  - exfalso.
    assert (Hwf : wfe (Node o [] [x; y] l)) by (apply wfe_node; auto).
    destruct (eval_wf rho _ Hwf) as (v & Ev & _). cbn [eval map sequence] in Ev. rewrite Ex, Ey in Ev. congruence.
Qed.

Lemma simp_not_sound body r :
  targs OBNot [] [body] -> simp_not mk body = Ok (Some r) -> good OBNot [] [body] r.
Proof.
  intros Ht H. unfold simp_not in H.
  destruct body as [| | | |o i a l]; try (apply skip_inv in H; tauto).
  destruct o; try (apply skip_inv in H; tauto); destruct i; try (apply skip_inv in H; tauto);
  destruct a as [|x [|y [|? ?]]]; try (apply skip_inv in H; tauto);
  try (apply ret_inv in H; eapply not_cmp_sound; eauto; unfold cmp_pair; tauto).
  (* Not (Not x) *)
  apply done_inv in H. subst r. destruct Ht as [Hf _]. inversion Hf as [|? ? Hb _]; subst.
  apply wfe_node in Hb as [Hargs Hty]. inversion Hargs as [|? ? Hx _]; subst.
  cbn [map tyop] in Hty. destruct (elen x =? -1) eqn:El; [|discriminate Hty]. apply Z.eqb_eq in El.
  apply good_intro; auto. intros rho. destruct (eval_bool rho x Hx El) as (b & Eb).
  unfold plain. cbn [eval map sequence]. rewrite Eb. cbn. rewrite negb_involutive. reflexivity.
Qed.

(* ---- n-ary bitvector operators ---- *)
Definition narybv (op : opk) : Prop := op = OAdd \/ op = OMul \/ op = OAnd \/ op = OOr \/ op = OXor.

Lemma tyop_nary op ints ls : narybv op -> tyop op ints ls =
  match ints, ls with
  | [], x :: r => if wok x && forallb (Z.eqb x) r then Some x else None
  | _, _ => None
  end.
Proof. intros [->|[->|[->|[->| ->]]]]; destruct ints, ls; reflexivity. Qed.

Lemma targs_nary_okl op args : narybv op -> targs op [] args ->
  exists w, wok w = true /\ okl w args /\ args <> [] /\ calc_len op [] args = w.
Proof.
  intros Hop [Hf [len Hty]]. pose proof (calc_len_tyop _ _ _ _ Hty) as Hcl.
  rewrite (tyop_nary op [] _ Hop) in Hty.
  destruct args as [|e r]; [discriminate Hty|]. cbn [map] in Hty.
  destruct (wok (elen e) && forallb (Z.eqb (elen e)) (map elen r)) eqn:E; [|discriminate Hty].
  inversion Hty; subst len. apply andb_true_iff in E as [Hw Hall].
  exists (elen e). split; auto. split; [|split; [discriminate|auto]].
  unfold okl. inversion Hf as [|? ? He Hr]; subst. constructor; [auto|].
  clear -Hr Hall. induction Hr as [|x r Hx Hr IH]; [constructor|]. cbn in Hall.
  apply andb_true_iff in Hall as [H1 H2]. apply Z.eqb_eq in H1. constructor; auto.
Qed.

Lemma targs_nary2_inv op a b : narybv op -> targs op [] [a; b] ->
  bvlen a /\ bvlen b /\ elen a = elen b /\ calc_len op [] [a; b] = elen a.
Proof.
  intros Hop Ht. destruct (targs_nary_okl op _ Hop Ht) as (w & Hw & Hok & _ & Hc).
  unfold okl in Hok. inversion Hok as [|? ? [Ha La] Hr]. inversion Hr as [|? ? [Hb Lb] _].
  split; [split; auto; rewrite La; auto|]. split; [split; auto; rewrite Lb; auto|]. split; [congruence|].
  destruct Hop as [->|[->|[->|[->| ->]]]]; reflexivity.
Qed.

Lemma nary2_eval rho op a b f : narybv op -> (forall vs, eval_op op [] vs = nary (bin_bv f) vs) ->
  bvlen a -> bvlen b -> elen a = elen b ->
  exists x y, eval rho a = Some (VBV (elen a) x) /\ eval rho b = Some (VBV (elen a) y)
    /\ 0 <= x < 2 ^ elen a /\ 0 <= y < 2 ^ elen a
    /\ eval rho (plain op [] [a; b]) = Some (VBV (elen a) (f (elen a) x y)).
Proof.
  intros Hop Hev Ha Hb He. destruct (valof rho a Ha) as (x & Ex & Rx). destruct (valof rho b Hb) as (y & Ey & Ry).
  rewrite <- He in *. exists x, y. repeat split; auto; try lia.
  unfold plain. rewrite (eval_node2 rho op a b _ _ _ Ex Ey). rewrite Hev. cbn [nary fold_bin bin_bv].
  rewrite Z.eqb_refl. reflexivity.
Qed.

Lemma simp_mul_sound args r : targs OMul [] args -> simp_mul args = Ok (Some r) -> good OMul [] args r.
Proof.
  intros Ht H. destruct (targs_nary_okl OMul args ltac:(unfold narybv; tauto) Ht) as (w & Hw & Hok & Hne & _).
  eapply flatten_mul_sound; eauto.
Qed.

(* same_value_rule: fires only when the two operands denote the same value *)
Lemma same_value_sem a b r : bvlen a -> bvlen b -> elen a = elen b ->
  same_value_rule mk a b = Ok (Some r) -> r = a /\ forall rho, eval rho a = eval rho b.
Proof.
  intros Ha Hb He H. unfold same_value_rule in H.
  destruct (same_leaf_kind a b).
  - apply when_inv in H as [_ H]. apply test_inv in H as [H1 H2]. apply done_inv in H2.
    split; auto. intros rho. eapply eq_true_bv; eauto.
  - apply test_inv in H as [H1 H2]. apply done_inv in H2. split; auto. intros rho. eapply eq_true_bv; eauto.
Qed.

Lemma cbvv0_eval rho w : wok w = true -> eval rho (cbvv 0 w) = Some (VBV w 0).
Proof. intros Hw. unfold cbvv. rewrite Z.mod_0_l by (pose proof (pow2_pos w (wok_nonneg _ Hw)); lia). reflexivity. Qed.

Lemma simp_xor_sound args r : targs OXor [] args -> simp_xor mk args = Ok (Some r) -> good OXor [] args r.
Proof.
  intros Ht H. destruct (targs_nary_okl OXor args ltac:(unfold narybv; tauto) Ht) as (w & Hw & Hok & Hne & Hcl).
  unfold simp_xor in H. destruct args as [|a [|b [|c rest]]]; try congruence.
  - (* one argument *) unfold okl in Hok. inversion Hok as [|? ? [_ La] _]; subst.
    eapply flatten_xor_sound; eauto.
  - destruct (targs_nary2_inv OXor a b ltac:(unfold narybv; tauto) Ht) as (Ha & Hb & He & Hc).
    assert (Hwa : elen a = w) by (unfold okl in Hok; inversion Hok as [|? ? [_ La] _]; auto).
    pose proof (proj2 Ha) as Hwe. rewrite <- Hwa in Hok.
    destruct (cbvv_wf 0 (elen a) Hwe) as [Zw Zl].
    pose proof (fun rho => nary2_eval rho OXor a b bvxor ltac:(unfold narybv; tauto) (fun vs => eq_refl) Ha Hb He) as Hev.
    chain H.
    + intros R. apply when_inv in R as [E R]. apply done_inv in R. subst r. apply expr_eqb_eq in E.
      apply good_intro; [apply Hb|congruence|]. intros rho. destruct (Hev rho) as (x & y & Ex & Ey & Rx & Ry & Ep).
      assert (Ea0 : eval rho a = Some (VBV (elen a) 0)) by (rewrite E at 1; apply cbvv0_eval; auto).
      rewrite Ep, Ey. rewrite Ea0 in Ex. inversion Ex; subst. unfold bvxor. rewrite Z.lxor_0_l. reflexivity.
    + intros R. apply when_inv in R as [E R]. apply done_inv in R. subst r. apply expr_eqb_eq in E. subst b.
      apply good_intro; [apply Ha|congruence|]. intros rho. destruct (Hev rho) as (x & y & Ex & Ey & Rx & Ry & Ep).
      rewrite Ep, Ex. rewrite (cbvv0_eval rho _ Hwe) in Ey. inversion Ey; subst. unfold bvxor. rewrite Z.lxor_0_r. reflexivity.
    + intros R. apply when_inv in R as [E R]. apply done_inv in R. subst r. apply expr_eqb_eq in E. subst b.
      apply good_intro; [auto|congruence|]. intros rho. destruct (Hev rho) as (x & y & Ex & Ey & Rx & Ry & Ep).
      rewrite Ep, (cbvv0_eval rho _ Hwe). rewrite Ex in Ey. inversion Ey; subst. unfold bvxor. rewrite Z.lxor_nilpotent. reflexivity.
    + intros R. apply test_inv in R as [R1 R2]. apply done_inv in R2. subst r.
      apply good_intro; [auto|congruence|]. intros rho. destruct (Hev rho) as (x & y & Ex & Ey & Rx & Ry & Ep).
      pose proof (eq_true_bv rho a b Ha Hb He R1) as Eab. rewrite Ex, Ey in Eab. inversion Eab; subst.
      rewrite Ep, (cbvv0_eval rho _ Hwe). unfold bvxor. rewrite Z.lxor_nilpotent. reflexivity.
    + intros R. exfalso. eapply guard_inv; eauto.
    + eapply (flatten_xor_sound (elen a)); eauto.
  - assert (Hwa : elen a = w) by (unfold okl in Hok; inversion Hok as [|? ? [_ La] _]; auto). subst w.
    eapply flatten_xor_sound; eauto.
Qed.

Lemma simp_or_sound args r : targs OOr [] args -> simp_or mk args = Ok (Some r) -> good OOr [] args r.
Proof.
  intros Ht H. destruct (targs_nary_okl OOr args ltac:(unfold narybv; tauto) Ht) as (w & Hw & Hok & Hne & Hcl).
  unfold simp_or in H. destruct args as [|a [|b [|c rest]]]; try congruence;
  try (eapply flatten_or_sound; eauto; fail).
  destruct (targs_nary2_inv OOr a b ltac:(unfold narybv; tauto) Ht) as (Ha & Hb & He & Hc).
  assert (Hwa : elen a = w) by (unfold okl in Hok; inversion Hok as [|? ? [_ La] _]; auto).
  pose proof (proj2 Ha) as Hwe. rewrite <- Hwa in Hok.
  pose proof (fun rho => nary2_eval rho OOr a b bvor ltac:(unfold narybv; tauto) (fun vs => eq_refl) Ha Hb He) as Hev.
  chain H.
  - intros R. apply when_inv in R as [E R]. apply done_inv in R. subst r. apply expr_eqb_eq in E.
    apply good_intro; [apply Hb|congruence|]. intros rho. destruct (Hev rho) as (x & y & Ex & Ey & Rx & Ry & Ep).
    assert (Ea0 : eval rho a = Some (VBV (elen a) 0)) by (rewrite E at 1; apply cbvv0_eval; auto).
    rewrite Ep, Ey. rewrite Ea0 in Ex. inversion Ex; subst. unfold bvor. rewrite Z.lor_0_l. reflexivity.
  - intros R. apply when_inv in R as [E R]. apply done_inv in R. subst r. apply expr_eqb_eq in E. subst b.
    apply good_intro; [apply Ha|congruence|]. intros rho. destruct (Hev rho) as (x & y & Ex & Ey & Rx & Ry & Ep).
    rewrite Ep, Ex. rewrite (cbvv0_eval rho _ Hwe) in Ey. inversion Ey; subst. unfold bvor. rewrite Z.lor_0_r. reflexivity.
  - intros R. destruct (same_value_sem a b r Ha Hb He R) as [-> Eab].
    apply good_intro; [apply Ha|congruence|]. intros rho. destruct (Hev rho) as (x & y & Ex & Ey & Rx & Ry & Ep).
    rewrite Ep, Ex. specialize (Eab rho). rewrite Ex, Ey in Eab. inversion Eab; subst. unfold bvor. rewrite Z.lor_diag. reflexivity.
  - intros R. apply when_inv in R as [E R]. apply done_inv in R. subst r. apply expr_eqb_eq in E. subst b.
    apply good_intro; [apply Ha|congruence|]. intros rho. destruct (Hev rho) as (x & y & Ex & Ey & Rx & Ry & Ep).
    rewrite Ep, Ex. rewrite Ex in Ey. inversion Ey; subst. unfold bvor. rewrite Z.lor_diag. reflexivity.
  - eapply (flatten_or_sound (elen a)); eauto.
Qed.

Lemma is_allones_spec e : is_allones e = true -> exists w, e = BVVe (2 ^ w - 1) w.
Proof. destruct e; cbn; try discriminate. intros H. apply Z.eqb_eq in H. subst. eauto. Qed.
Lemma is_zero_bvv_spec e : is_zero_bvv e = true -> exists w, e = BVVe 0 w.
Proof. destruct e as [|v w| | |]; cbn; try discriminate. destruct v; try discriminate. eauto. Qed.

Lemma simp_and_sound args r : targs OAnd [] args -> simp_and mk args = Ok (Some r) -> good OAnd [] args r.
Proof.
  intros Ht H. destruct (targs_nary_okl OAnd args ltac:(unfold narybv; tauto) Ht) as (w & Hw & Hok & Hne & Hcl).
  unfold simp_and in H. destruct args as [|a [|b [|c rest]]]; try congruence;
  try (eapply flatten_and_sound; eauto; fail).
  destruct (targs_nary2_inv OAnd a b ltac:(unfold narybv; tauto) Ht) as (Ha & Hb & He & Hc).
  assert (Hwa : elen a = w) by (unfold okl in Hok; inversion Hok as [|? ? [_ La] _]; auto).
  pose proof (proj2 Ha) as Hwe. rewrite <- Hwa in Hok. pose proof (wok_nonneg _ Hwe) as Hnn.
  pose proof (fun rho => nary2_eval rho OAnd a b bvand ltac:(unfold narybv; tauto) (fun vs => eq_refl) Ha Hb He) as Hev.
  chain H.
  - intros R. exfalso. eapply guard_inv; eauto.
  - intros R. apply when_inv in R as [E R]. apply done_inv in R. subst r. apply is_allones_spec in E as [w' E].
    apply good_intro; [apply Hb|congruence|]. intros rho. destruct (Hev rho) as (x & y & Ex & Ey & Rx & Ry & Ep).
    rewrite Ep, Ey. subst a. cbn [elen eval] in *. inversion Ex; subst.
    unfold bvand. rewrite Z.land_comm. rewrite land_mask_mod by lia. rewrite Z.mod_small by lia. reflexivity.
  - intros R. apply when_inv in R as [E R]. apply done_inv in R. subst r. apply is_allones_spec in E as [w' E].
    apply good_intro; [apply Ha|congruence|]. intros rho. destruct (Hev rho) as (x & y & Ex & Ey & Rx & Ry & Ep).
    rewrite Ep, Ex. subst b. cbn [elen eval] in *. inversion Ey. subst w'.
    unfold bvand. rewrite land_mask_mod by lia. rewrite Z.mod_small by lia. reflexivity.
  - intros R. apply when_inv in R as [E R]. apply done_inv in R. subst r. apply expr_eqb_eq in E. subst b.
    apply good_intro; [apply Ha|congruence|]. intros rho. destruct (Hev rho) as (x & y & Ex & Ey & Rx & Ry & Ep).
    rewrite Ep, Ex. rewrite Ex in Ey. inversion Ey; subst. unfold bvand. rewrite Z.land_diag. reflexivity.
  - intros R. destruct (same_value_sem a b r Ha Hb He R) as [-> Eab].
    apply good_intro; [apply Ha|congruence|]. intros rho. destruct (Hev rho) as (x & y & Ex & Ey & Rx & Ry & Ep).
    rewrite Ep, Ex. specialize (Eab rho). rewrite Ex, Ey in Eab. inversion Eab; subst. unfold bvand. rewrite Z.land_diag. reflexivity.
  - intros R. apply when_inv in R as [E R]. apply done_inv in R. subst r.
    destruct (cbvv_wf 0 (elen a) Hwe) as [Zw Zl].
    apply good_intro; [auto|congruence|]. intros rho. destruct (Hev rho) as (x & y & Ex & Ey & Rx & Ry & Ep).
    rewrite Ep, (cbvv0_eval rho _ Hwe). apply orb_true_iff in E as [E|E]; apply is_zero_bvv_spec in E as [w' E].
    + rewrite E in Ex. cbn in Ex. inversion Ex; subst. unfold bvand. rewrite Z.land_0_l. reflexivity.
    + rewrite E in Ey. cbn in Ey. inversion Ey; subst. unfold bvand. rewrite Z.land_0_r. reflexivity.
  - intros R. exfalso. eapply guard_inv; eauto.
  - eapply (flatten_and_sound (elen a)); eauto.
Qed.

(* ---- add / sub ---- *)
Lemma wrap_sub_sub w x y z : 0 <= w -> wrap w (wrap w (x - y) - z) = wrap w (x - wrap w (y + z)).
Proof. intros. unfold wrap. rewrite Zminus_mod_idemp_l, Zminus_mod_idemp_r. f_equal. lia. Qed.
Lemma wrap_add_sub w x y z : 0 <= w -> wrap w (wrap w (x + y) - z) = wrap w (x + wrap w (y - z)).
Proof. intros. unfold wrap. rewrite Zminus_mod_idemp_l, Zplus_mod_idemp_r. f_equal. lia. Qed.
Lemma wrap_sub_add w x y z : 0 <= w -> wrap w (wrap w (x - y) + z) = wrap w (x - wrap w (y - z)).
Proof. intros. unfold wrap. rewrite Zplus_mod_idemp_l, Zminus_mod_idemp_r. f_equal. lia. Qed.

Lemma bin_eval rho op a b f : binbv op -> (forall x y, eval_op op [] [x; y] = bin_bv f x y) ->
  bvlen a -> bvlen b -> elen a = elen b ->
  exists x y, eval rho a = Some (VBV (elen a) x) /\ eval rho b = Some (VBV (elen a) y)
    /\ 0 <= x < 2 ^ elen a /\ 0 <= y < 2 ^ elen a
    /\ eval rho (plain op [] [a; b]) = Some (VBV (elen a) (f (elen a) x y)).
Proof.
  intros Hop Hev Ha Hb He. destruct (valof rho a Ha) as (x & Ex & Rx). destruct (valof rho b Hb) as (y & Ey & Ry).
  rewrite <- He in *. exists x, y. repeat split; auto; try lia.
  unfold plain. rewrite (eval_node2 rho op a b _ _ _ Ex Ey). rewrite Hev. cbn [bin_bv].
  rewrite Z.eqb_refl. reflexivity.
Qed.

Lemma targs_sub a b : bvlen a -> bvlen b -> elen a = elen b -> targs OSub [] [a; b].
Proof.
  intros [Ha Hwa] [Hb Hwb] He. apply targs2; auto. exists (elen a). cbn [tyop]. rewrite Hwa, He, Z.eqb_refl. reflexivity.
Qed.
Lemma targs_add2 a b : bvlen a -> bvlen b -> elen a = elen b -> targs OAdd [] [a; b].
Proof.
  intros [Ha Hwa] [Hb Hwb] He. apply targs2; auto. exists (elen a). cbn [tyop forallb]. rewrite Hwa, He, Z.eqb_refl. reflexivity.
Qed.

(* a node Node op [] [x; y] that is a well-formed binary bv node *)
Lemma wfe_bin_node op x y l : binbv op \/ narybv op -> wfe (Node op [] [x; y] l) ->
  bvlen x /\ bvlen y /\ elen x = l /\ elen y = l.
Proof.
  intros Hop Hw. apply wfe_node in Hw as [Hargs Hty]. inversion Hargs as [|? ? Hx Hr]; subst.
  inversion Hr as [|? ? Hy _]; subst. cbn [map] in Hty.
  assert (X : wok (elen x) && (elen x =? elen y) = true /\ l = elen x).
  { destruct Hop as [Hop|Hop].
    - destruct Hop as [->|[->|[->|[->|[->|[->|[->|[->|[->| ->]]]]]]]]]; cbn [tyop] in Hty;
      destruct (wok (elen x) && (elen x =? elen y)); inversion Hty; auto.
    - destruct Hop as [->|[->|[->|[->| ->]]]]; cbn [tyop forallb] in Hty; rewrite andb_true_r in Hty;
      destruct (wok (elen x) && (elen x =? elen y)); inversion Hty; auto. }
  destruct X as [X ->]. apply andb_true_iff in X as [Hw He]. apply Z.eqb_eq in He.
  repeat split; auto. rewrite <- He; auto.
Qed.

Lemma simp_sub_sound a b r : targs OSub [] [a; b] -> simp_sub mk a b = Ok (Some r) -> good OSub [] [a; b] r.
Proof.
  intros Ht H.
  destruct (targs_bin_inv OSub a b ltac:(unfold binbv; tauto) Ht) as (Ha & Hb & He & Hc).
  pose proof (proj2 Ha) as Hwe. pose proof (wok_nonneg _ Hwe) as Hnn.
  pose proof (fun rho => bin_eval rho OSub a b bvsub ltac:(unfold binbv; tauto) (fun x y => eq_refl) Ha Hb He) as Hev.
  unfold simp_sub in H. destruct b as [|bv bw| | |bo bi ba bl].
  2:{ (* b is a constant *)
    destruct (bv =? 0) eqn:Eb.
    - apply done_inv in H. subst r. apply Z.eqb_eq in Eb. subst bv.
      apply good_intro; [apply Ha|congruence|]. intros rho. destruct (Hev rho) as (x & y & Ex & Ey & Rx & Ry & Ep).
      rewrite Ep, Ex. cbn in Ey. inversion Ey; subst. unfold bvsub. rewrite Z.sub_0_r, wrap_small by lia. reflexivity.
    - destruct a as [| | | |ao ai aa al]; try (apply skip_inv in H; tauto).
      destruct ao; try (apply skip_inv in H; tauto); destruct ai; try (apply skip_inv in H; tauto).
      + (* (x + ... + c) - z *)
        destruct (rev aa) as [|lastc rest_rev] eqn:Erev; [apply skip_inv in H; tauto|].
        destruct lastc as [|cv cw| | |]; try (apply skip_inv in H; tauto).
        destruct (mk OSub [] [BVVe cv cw; BVVe bv bw]) as [d| | |] eqn:Ed; cbn [bind] in H; try discriminate H.
        destruct aa as [|x [|y [|? ?]]]; try discriminate H.
        cbn [rev app] in Erev. inversion Erev; subst y. clear Erev.
        apply ret_inv in H.
        destruct (wfe_bin_node OAdd x (BVVe cv cw) al ltac:(right; unfold narybv; tauto) (proj1 Ha)) as (Hx & Hcst & Lx & Lc).
        cbn [elen] in *. subst cw. subst al.
        assert (Hbb : bvlen (BVVe bv bw)) by exact Hb.
        destruct (Hmk OSub [] _ d (targs_sub _ _ Hcst Hbb ltac:(cbn; congruence)) Ed) as (Dw & Dl & De).
        cbn [calc_len elen] in Dl.
        assert (Hd : bvlen d) by (split; auto; rewrite Dl; auto).
        destruct (Hmk OAdd [] _ r (targs_add2 x d Hx Hd ltac:(congruence)) H) as (Gw & Gl & Ge).
        apply good_intro; [auto|cbn [calc_len elen] in *; congruence|].
        intros rho. rewrite (Ge rho).
        destruct (valof rho x Hx) as (vx & Ex & Rx). specialize (De rho).
        unfold plain in *. cbn [eval map sequence] in *. rewrite Ex in *. rewrite De.
        rewrite Lx. repeat (cbn [eval_op nary fold_bin bin_bv]; rewrite ?Z.eqb_refl).
        f_equal. f_equal. unfold bvadd, bvsub. symmetry. apply wrap_add_sub; auto.
      + (* (x - y) - z *)
        destruct aa as [|x [|[|yv yw| | |] [|? ?]]]; try (apply skip_inv in H; tauto).
        destruct (mk OAdd [] [BVVe yv yw; BVVe bv bw]) as [sm| | |] eqn:Es; cbn [bind] in H; try discriminate H.
        apply ret_inv in H.
        destruct (wfe_bin_node OSub x (BVVe yv yw) al ltac:(left; unfold binbv; tauto) (proj1 Ha)) as (Hx & Hcst & Lx & Lc).
        cbn [elen] in *. subst yw. subst al.
        assert (Hbb : bvlen (BVVe bv bw)) by exact Hb.
        destruct (Hmk OAdd [] _ sm (targs_add2 _ _ Hcst Hbb ltac:(cbn; congruence)) Es) as (Dw & Dl & De).
        cbn [calc_len elen] in Dl.
        assert (Hd : bvlen sm) by (split; auto; rewrite Dl; auto).
        destruct (Hmk OSub [] _ r (targs_sub x sm Hx Hd ltac:(congruence)) H) as (Gw & Gl & Ge).
        apply good_intro; [auto|cbn [calc_len elen] in *; congruence|].
        intros rho. rewrite (Ge rho).
        destruct (valof rho x Hx) as (vx & Ex & Rx). specialize (De rho).
        unfold plain in *. cbn [eval map sequence] in *. rewrite Ex in *. rewrite De.
        rewrite Lx. repeat (cbn [eval_op nary fold_bin bin_bv]; rewrite ?Z.eqb_refl).
        f_equal. f_equal. unfold bvadd, bvsub. symmetry. apply wrap_sub_sub; auto. }
  all: chain H.
  all: try (intros R; apply when_inv in R as [E R]; apply done_inv in R; subst r; apply expr_eqb_eq in E; subst a;
            destruct (cbvv_wf 0 _ Hwe) as [Zw Zl];
            apply good_intro; [auto|congruence|]; intros rho; destruct (Hev rho) as (x & y & Ex & Ey & Rx & Ry & Ep);
            rewrite Ep, (cbvv0_eval rho _ Hwe); rewrite Ex in Ey; inversion Ey; subst;
            unfold bvsub; rewrite Z.sub_diag; rewrite wrap_small by lia; reflexivity).
  all: apply test_inv in H as [H1 H2]; apply done_inv in H2; subst r;
       destruct (cbvv_wf 0 _ Hwe) as [Zw Zl];
       apply good_intro; [auto|congruence|]; intros rho; destruct (Hev rho) as (x & y & Ex & Ey & Rx & Ry & Ep);
       rewrite Ep, (cbvv0_eval rho _ Hwe);
       pose proof (eq_true_bv rho _ _ Ha Hb He H1) as Eab; rewrite Ex, Ey in Eab; inversion Eab; subst;
       unfold bvsub; rewrite Z.sub_diag; rewrite wrap_small by lia; reflexivity.
Qed.

Lemma simp_add_sound args r : targs OAdd [] args -> simp_add mk args = Ok (Some r) -> good OAdd [] args r.
Proof.
  intros Ht H. destruct (targs_nary_okl OAdd args ltac:(unfold narybv; tauto) Ht) as (w & Hw & Hok & Hne & Hcl).
  unfold simp_add in H.
  assert (Hflat : forall a0 rest, args = a0 :: rest ->
            flatten OAdd FAdd args (Some (cbvv 0 (elen a0))) = Ok (Some r) -> good OAdd [] args r).
  { intros a0 rest -> Hf. assert (Hwa : elen a0 = w) by (unfold okl in Hok; inversion Hok as [|? ? [_ La] _]; auto).
    rewrite Hwa in Hf. eapply flatten_add_sound; eauto. }
  repeat match type of H with
  | match ?e with _ => _ end = _ => destruct e; try congruence; try (eapply Hflat; eauto; fail)
  end.
  match goal with
  | Ht : targs OAdd [] [Node OSub [] [?x'; BVVe ?yv' ?yw'] ?al'; BVVe ?zv' ?zw'] |- _ =>
      rename x' into x; rename yv' into yv; rename yw' into yw; rename al' into al; rename zv' into zv; rename zw' into zw
  end.
  (* (x - y) + z ==> x - (y - z) *)
  destruct (targs_nary2_inv OAdd _ _ ltac:(unfold narybv; tauto) Ht) as (Ha & Hb & He & Hc).
  pose proof (proj2 Ha) as Hwe. pose proof (wok_nonneg _ Hwe) as Hnn.
  destruct (mk OSub [] [BVVe yv yw; BVVe zv zw]) as [d| | |] eqn:Ed; cbn [bind] in H; try discriminate H.
  apply ret_inv in H.
  destruct (wfe_bin_node OSub x (BVVe yv yw) al ltac:(left; unfold binbv; tauto) (proj1 Ha)) as (Hx & Hcst & Lx & Lc).
  cbn [elen] in *. subst yw. subst al.
  destruct (Hmk OSub [] _ d (targs_sub _ _ Hcst Hb ltac:(cbn; congruence)) Ed) as (Dw & Dl & De).
  cbn [calc_len elen] in Dl.
  assert (Hd : bvlen d) by (split; auto; rewrite Dl; auto).
  destruct (Hmk OSub [] _ r (targs_sub x d Hx Hd ltac:(congruence)) H) as (Gw & Gl & Ge).
  apply good_intro; [auto|cbn [calc_len elen] in *; congruence|].
  intros rho. rewrite (Ge rho).
  destruct (valof rho x Hx) as (vx & Ex & Rx). specialize (De rho).
  unfold plain in *. cbn [eval map sequence] in *. rewrite Ex in *. rewrite De.
  rewrite Lx. repeat (cbn [eval_op nary fold_bin bin_bv]; rewrite ?Z.eqb_refl).
  f_equal. f_equal. unfold bvadd, bvsub. symmetry. apply wrap_sub_add; auto.
Qed.

(* ---- invert ---- *)
Lemma simp_invert_sound e r : targs OInvert [] [e] -> simp_invert mk e = Ok (Some r) -> good OInvert [] [e] r.
Proof.
  intros Ht H. unfold simp_invert in H.
  repeat match type of H with
  | match ?x with _ => _ end = _ => destruct x; try (apply skip_inv in H; tauto)
  end.
  match goal with
  | Ht : targs OInvert [] [Node OIf [] [?c'; BVVe 1 ?tw'; BVVe 0 ?fw'] 1] |- _ =>
      rename c' into c; rename tw' into tw; rename fw' into fw
  end.
  destruct (mk_not mk c) as [nc| | |] eqn:En; cbn [bind] in H; try discriminate H. apply ret_inv in H.
  destruct Ht as [Hf _]. inversion Hf as [|? ? He _]; subst. apply wfe_node in He as [Hargs Hty].
  inversion Hargs as [|? ? Hc Hr1]; subst. inversion Hr1 as [|? ? Htw Hr2]; subst. inversion Hr2 as [|? ? Hfw _]; subst.
  cbn [map tyop elen] in Hty.
  destruct ((elen c =? -1) && (wok tw || (tw =? -1)) && (tw =? fw)) eqn:E; [|discriminate Hty].
  inversion Hty; subst tw. apply andb_true_iff in E as [E E3]. apply andb_true_iff in E as [E1 _].
  apply Z.eqb_eq in E1, E3. subst fw.
  assert (Htn : targs OBNot [] [c]).
  { split; [repeat constructor; auto|]. exists (-1). cbn. rewrite E1. reflexivity. }
  destruct (Hmk OBNot [] [c] nc Htn En) as (Nw & Nl & Ne). cbn [calc_len] in Nl.
  assert (Hti : targs OIf [] [nc; BVVe 1 1; BVVe 0 1]).
  { split; [constructor; [auto|constructor; [exact Htw|constructor; [exact Hfw|constructor]]]|].
    exists 1. cbn [map tyop elen]. rewrite Nl. reflexivity. }
  destruct (Hmk OIf [] _ r Hti H) as (Gw & Gl & Ge).
  apply good_intro; [auto|exact Gl|]. intros rho. rewrite (Ge rho).
  destruct (eval_bool rho c Hc E1) as (cb & Ec). specialize (Ne rho).
  unfold plain in *. cbn [eval map sequence] in *. rewrite Ec in *. rewrite Ne. cbn.
  destruct cb; reflexivity.
Qed.

(* ---- eq / ne ---- *)
Lemma targs_eq_inv op a b : (op = OEq \/ op = ONe) -> targs op [] [a; b] ->
  wfe a /\ wfe b /\ elen a = elen b /\ (wok (elen a) = true \/ elen a = -1).
Proof.
  intros Hop [Hf [len Hty]]. inversion Hf as [|? ? Ha Hr]; subst. inversion Hr as [|? ? Hb _]; subst.
  assert (X : (wok (elen a) || (elen a =? -1)) && (elen a =? elen b) = true).
  { destruct Hop as [-> | ->]; cbn [map tyop] in Hty;
    destruct ((wok (elen a) || (elen a =? -1)) && (elen a =? elen b)); auto; discriminate. }
  apply andb_true_iff in X as [X He]. apply Z.eqb_eq in He. apply orb_true_iff in X.
  repeat split; auto. destruct X as [X|X]; [left; auto|right; apply Z.eqb_eq; auto].
Qed.

Lemma targs_eq op a b : (op = OEq \/ op = ONe) -> wfe a -> wfe b -> elen a = elen b ->
  (wok (elen a) = true \/ elen a = -1) -> targs op [] [a; b].
Proof.
  intros Hop Ha Hb He Hk. apply targs2; auto. exists (-1). rewrite <- He.
  assert (X : (wok (elen a) || (elen a =? -1)) = true) by (destruct Hk as [->| ->]; auto using orb_true_r).
  destruct Hop as [-> | ->]; cbn [tyop]; rewrite X, Z.eqb_refl; reflexivity.
Qed.

(* the value-level meaning of == and != on two well-formed operands of the same length *)
Definition veq (x y : value) : bool :=
  match x, y with
  | VBV _ p, VBV _ q => p =? q
  | VBool p, VBool q => Bool.eqb p q
  | _, _ => false
  end.

Lemma eq_eval rho a b : wfe a -> wfe b -> elen a = elen b ->
  exists x y, eval rho a = Some x /\ eval rho b = Some y /\ vty x (elen a) /\ vty y (elen a)
    /\ eval rho (plain OEq [] [a; b]) = Some (VBool (veq x y))
    /\ eval rho (plain ONe [] [a; b]) = Some (VBool (negb (veq x y))).
Proof.
  intros Ha Hb He. destruct (eval_wf rho a Ha) as (x & Ex & Tx). destruct (eval_wf rho b Hb) as (y & Ey & Ty).
  rewrite <- He in Ty. exists x, y. repeat split; try apply Tx; try apply Ty; auto.
  - unfold plain. rewrite (eval_node2 rho OEq a b _ _ _ Ex Ey).
    destruct Tx as [Lx Vx], Ty as [Ly Vy]. destruct x, y; cbn in *; try reflexivity;
    try (exfalso; repeat match goal with V : wok _ = true /\ _ |- _ => destruct V as [V _]; apply wok_spec in V end; lia).
    assert (w = w0) by lia. subst. rewrite Z.eqb_refl. reflexivity.
  - unfold plain. rewrite (eval_node2 rho ONe a b _ _ _ Ex Ey).
    destruct Tx as [Lx Vx], Ty as [Ly Vy]. destruct x, y; cbn in *; try reflexivity;
    try (exfalso; repeat match goal with V : wok _ = true /\ _ |- _ => destruct V as [V _]; apply wok_spec in V end; lia).
    assert (w = w0) by lia. subst. rewrite Z.eqb_refl. reflexivity.
Qed.

Lemma veq_refl x : veq x x = true.
Proof. destruct x; cbn; [apply Z.eqb_refl|apply eqb_reflx]. Qed.
Lemma veq_sym x y : veq x y = veq y x.
Proof. destruct x, y; cbn; auto; [apply Z.eqb_sym|destruct b, b0; reflexivity]. Qed.

Lemma mk_eq_true rho a b : wfe a -> wfe b -> elen a = elen b -> (wok (elen a) = true \/ elen a = -1) ->
  mk OEq [] [a; b] = Ok (BoolVe true) -> forall x y, eval rho a = Some x -> eval rho b = Some y -> veq x y = true.
Proof.
  intros Ha Hb He Hk H x y Ex Ey.
  destruct (Hmk OEq [] [a; b] _ (targs_eq OEq a b ltac:(auto) Ha Hb He Hk) H) as (_ & _ & E).
  destruct (eq_eval rho a b Ha Hb He) as (x' & y' & Ex' & Ey' & _ & _ & Ep & _).
  rewrite Ex in Ex'. rewrite Ey in Ey'. inversion Ex'; inversion Ey'; subst.
  specialize (E rho). rewrite Ep in E. cbn in E. inversion E. auto.
Qed.
Lemma mk_ne_true rho a b : wfe a -> wfe b -> elen a = elen b -> (wok (elen a) = true \/ elen a = -1) ->
  mk ONe [] [a; b] = Ok (BoolVe true) -> forall x y, eval rho a = Some x -> eval rho b = Some y -> veq x y = false.
Proof.
  intros Ha Hb He Hk H x y Ex Ey.
  destruct (Hmk ONe [] [a; b] _ (targs_eq ONe a b ltac:(auto) Ha Hb He Hk) H) as (_ & _ & E).
  destruct (eq_eval rho a b Ha Hb He) as (x' & y' & Ex' & Ey' & _ & _ & _ & Ep).
  rewrite Ex in Ex'. rewrite Ey in Ey'. inversion Ex'; inversion Ey'; subst.
  specialize (E rho). rewrite Ep in E. cbn in E. inversion E as [E']. symmetry in E'. apply negb_true_iff in E'. auto.
Qed.

Definition cmpop (p : bool) : opk := if p then OEq else ONe.
Definition pol (p : bool) (v : bool) : bool := if p then v else negb v.
Definition mkint (p : bool) (x : expr) (k : Z) : res expr := mk (cmpop p) [] [x; cbvv k (elen x)].

Lemma cmp_eval rho p a b : wfe a -> wfe b -> elen a = elen b ->
  exists x y, eval rho a = Some x /\ eval rho b = Some y /\ vty x (elen a) /\ vty y (elen a)
    /\ eval rho (plain (cmpop p) [] [a; b]) = Some (VBool (pol p (veq x y))).
Proof.
  intros Ha Hb He. destruct (eq_eval rho a b Ha Hb He) as (x & y & Ex & Ey & Tx & Ty & E1 & E2).
  exists x, y. split; [auto|]. split; [auto|]. split; [auto|]. split; [auto|]. destruct p; cbn; auto.
Qed.

Lemma targs_cmpop p a b : wfe a -> wfe b -> elen a = elen b ->
  (wok (elen a) = true \/ elen a = -1) -> targs (cmpop p) [] [a; b].
Proof. intros. apply targs_eq; auto. destruct p; cbn; auto. Qed.

Lemma calc_len_cmpop p a b : calc_len (cmpop p) [] [a; b] = -1.
Proof. destruct p; reflexivity. Qed.

(* result of comparing x against the integer k, built by the sound constructor *)
Lemma mkint_sem p x k r : bvlen x -> mkint p x k = Ok r ->
  wfe r /\ elen r = -1 /\ forall rho vx, eval rho x = Some (VBV (elen x) vx) ->
     eval rho r = Some (VBool (pol p (vx =? k mod 2 ^ elen x))).
Proof.
  intros [Hx Hw] H. destruct (cbvv_wf k (elen x) Hw) as [Cw Cl].
  destruct (Hmk (cmpop p) [] _ r (targs_cmpop p x (cbvv k (elen x)) Hx Cw (eq_sym Cl) (or_introl Hw)) H) as (Gw & Gl & Ge).
  rewrite calc_len_cmpop in Gl. repeat split; auto. intros rho vx Ex. rewrite (Ge rho).
  destruct (cmp_eval rho p x (cbvv k (elen x)) Hx Cw (eq_sym Cl)) as (a & b & Ea & Eb & _ & _ & Ep).
  rewrite Ep. rewrite Ex in Ea. inversion Ea; subst. unfold cbvv in Eb. cbn in Eb. inversion Eb; subst. reflexivity.
Qed.

Lemma is_single_bit_spec m : is_single_bit m = true -> single_bit m.
Proof. unfold is_single_bit, single_bit. rewrite andb_true_iff, Z.ltb_lt, Z.eqb_eq. tauto. Qed.

Lemma xor_zero_sound p a b r :
  targs (cmpop p) [] [a; b] ->
  xor_zero_rules mk (mkint p) (mkint (negb p)) a b = Ok (Some r) -> good (cmpop p) [] [a; b] r.
Proof.
  intros Ht H.
  destruct (targs_eq_inv (cmpop p) a b ltac:(destruct p; cbn; auto) Ht) as (Ha & Hb & He & Hk).
  unfold xor_zero_rules in H.
  destruct a as [| | | |ao ai aa al]; try (apply skip_inv in H; tauto).
  destruct ao; try (apply skip_inv in H; tauto). destruct ai; try (apply skip_inv in H; tauto).
  destruct aa as [|a0 [|a1 [|? ?]]]; try (apply skip_inv in H; tauto).
  destruct b as [|bv bw| | |]; try (apply skip_inv in H; tauto).
  destruct bv; try (apply skip_inv in H; tauto).
  destruct (wfe_bin_node OXor a0 a1 al ltac:(right; unfold narybv; tauto) Ha) as (H0 & H1 & L0 & L1).
  cbn [elen] in He. subst bw. pose proof (proj2 H0) as Hw0. rewrite L0 in Hw0.
  pose proof (wok_nonneg _ Hw0) as Hnn. pose proof (pow2_pos al Hnn) as Hpp.
  assert (Hplain : forall rho v0 v1, eval rho a0 = Some (VBV al v0) -> eval rho a1 = Some (VBV al v1) ->
            eval rho (plain (cmpop p) [] [Node OXor [] [a0; a1] al; BVVe 0 al])
            = Some (VBool (pol p (Z.lxor v0 v1 =? 0)))).
  { intros rho v0 v1 E0 E1.
    destruct (cmp_eval rho p (Node OXor [] [a0; a1] al) (BVVe 0 al) Ha Hb eq_refl) as (x & y & Ex & Ey & _ & _ & Ep).
    rewrite Ep. cbn [eval map sequence] in Ex. rewrite E0, E1 in Ex. cbn in Ex. rewrite Z.eqb_refl in Ex.
    inversion Ex; subst. cbn in Ey. inversion Ey; subst. reflexivity. }
  chain H.
  - (* a1 = 1 *)
    intros R. destruct a1 as [|v1 w1| | |]; try (apply skip_inv in R; tauto).
    destruct v1 as [|[| |]|]; try (apply skip_inv in R; tauto). apply ret_inv in R.
    destruct (mkint_sem p a0 1 r H0 R) as (Gw & Gl & Ge).
    apply good_intro; [auto|rewrite calc_len_cmpop; auto|]. intros rho.
    destruct (valof rho a0 H0) as (v0 & E0 & R0). rewrite (Ge rho v0 E0). rewrite L0 in *. cbn [elen] in L1. subst w1.
    rewrite (Hplain rho v0 1 E0 eq_refl). rewrite xor_zero_rule.
    assert (2 ^ 1 <= 2 ^ al) by (apply Z.pow_le_mono_r; apply wok_pos in Hw0; lia).
    rewrite Z.mod_small by lia. reflexivity.
  - (* a0 = 1 *)
    intros R. destruct a0 as [|v0 w0| | |]; try (apply skip_inv in R; tauto).
    destruct v0 as [|[| |]|]; try (apply skip_inv in R; tauto). apply ret_inv in R.
    destruct (mkint_sem p a1 1 r H1 R) as (Gw & Gl & Ge).
    apply good_intro; [auto|rewrite calc_len_cmpop; auto|]. intros rho.
    destruct (valof rho a1 H1) as (v1 & E1 & R1). rewrite (Ge rho v1 E1). rewrite L1 in *. cbn [elen] in L0. subst w0.
    rewrite (Hplain rho 1 v1 eq_refl E1). rewrite xor_zero_rule.
    assert (2 ^ 1 <= 2 ^ al) by (apply Z.pow_le_mono_r; apply wok_pos in Hw0; lia).
    rewrite Z.mod_small by lia. rewrite Z.eqb_sym. reflexivity.
  - (* (e & m) ^ m *)
    intros R. destruct a1 as [|m w1| | |]; try (apply skip_inv in R; tauto).
    destruct a0 as [| | | |o0 i0 g0 l0]; try (apply skip_inv in R; tauto).
    destruct o0; try (apply skip_inv in R; tauto). destruct i0; try (apply skip_inv in R; tauto).
    destruct g0 as [|e [|[|m' w'| | |] [|? ?]]]; try (apply skip_inv in R; tauto).
    apply when_inv in R as [Ec R]. apply andb_true_iff in Ec as [Em Esb]. apply Z.eqb_eq in Em. subst m'.
    apply is_single_bit_spec in Esb. apply ret_inv in R.
    destruct (mkint_sem (negb p) _ 0 r H0 R) as (Gw & Gl & Ge).
    apply good_intro; [auto|rewrite calc_len_cmpop; auto|]. intros rho.
    cbn [elen] in L0, L1. subst l0 w1.
    destruct (wfe_bin_node OAnd e (BVVe m w') al ltac:(right; unfold narybv; tauto) (proj1 H0)) as (He' & Hm' & Le & Lm).
    cbn [elen] in Lm. subst w'.
    destruct (valof rho e He') as (ve & Ee & Re). rewrite Le in Ee.
    assert (E0 : eval rho (Node OAnd [] [e; BVVe m al] al) = Some (VBV al (Z.land ve m))).
    { cbn [eval map sequence]. rewrite Ee. cbn. rewrite Z.eqb_refl. reflexivity. }
    rewrite (Ge rho _ E0). rewrite (Hplain rho _ m E0 eq_refl). cbn [elen].
    rewrite Z.mod_0_l by lia. rewrite mask_xor_rule by auto. destruct p; cbn; rewrite ?negb_involutive; reflexivity.
  - (* (m & e) ^ m *)
    destruct a1 as [|m w1| | |]; try (apply skip_inv in H; tauto).
    destruct a0 as [| | | |o0 i0 g0 l0]; try (apply skip_inv in H; tauto).
    destruct o0; try (apply skip_inv in H; tauto). destruct i0; try (apply skip_inv in H; tauto).
    destruct g0 as [|[|m' w'| | |] [|e1 [|? ?]]]; try (apply skip_inv in H; tauto).
    apply when_inv in H as [Ec R]. apply andb_true_iff in Ec as [Em Esb]. apply Z.eqb_eq in Em. subst m'.
    apply is_single_bit_spec in Esb.
    destruct (mk OAnd [] [e1; BVVe m w']) as [x| | |] eqn:Ex'; cbn [bind] in R; try discriminate R.
    apply ret_inv in R.
    cbn [elen] in L0, L1. subst l0 w1.
    destruct (wfe_bin_node OAnd (BVVe m w') e1 al ltac:(right; unfold narybv; tauto) (proj1 H0)) as (Hm' & He' & Lm & Le).
    cbn [elen] in Lm. subst w'.
    assert (Htx : targs OAnd [] [e1; BVVe m al]).
    { apply targs2; [apply He'|apply Hm'|]. exists al. cbn [tyop forallb elen]. rewrite Le, Hw0, Z.eqb_refl. reflexivity. }
    destruct (Hmk OAnd [] _ x Htx Ex') as (Xw & Xl & Xe). cbn [calc_len] in Xl.
    assert (Hxb : bvlen x) by (split; auto; rewrite Xl, Le; auto).
    destruct (mkint_sem (negb p) x 0 r Hxb R) as (Gw & Gl & Ge).
    apply good_intro; [auto|rewrite calc_len_cmpop; auto|]. intros rho.
    destruct (valof rho e1 He') as (ve & Ee & Re). rewrite Le in Ee.
    assert (E0 : eval rho (Node OAnd [] [BVVe m al; e1] al) = Some (VBV al (Z.land m ve))).
    { cbn [eval map sequence]. rewrite Ee. cbn. rewrite Z.eqb_refl. reflexivity. }
    assert (Ex2 : eval rho x = Some (VBV (elen x) (Z.land ve m))).
    { rewrite (Xe rho). unfold plain. cbn [eval map sequence]. rewrite Ee. cbn. rewrite Z.eqb_refl.
      rewrite Xl, Le. reflexivity. }
    rewrite (Ge rho _ Ex2). rewrite (Hplain rho _ m E0 eq_refl). rewrite Xl, Le.
    rewrite Z.mod_0_l by lia. rewrite (Z.land_comm m ve). rewrite mask_xor_rule by auto.
    destruct p; cbn; rewrite ?negb_involutive; reflexivity.
Qed.

Lemma mk_not_sem c nc : wfe c -> elen c = -1 -> mk_not mk c = Ok nc ->
  wfe nc /\ elen nc = -1 /\ forall rho cb, eval rho c = Some (VBool cb) -> eval rho nc = Some (VBool (negb cb)).
Proof.
  intros Hc El H.
  assert (Htn : targs OBNot [] [c]).
  { split; [repeat constructor; auto|]. exists (-1). cbn. rewrite El. reflexivity. }
  destruct (Hmk OBNot [] [c] nc Htn H) as (Nw & Nl & Ne). repeat split; auto.
  intros rho cb Ec. rewrite (Ne rho). unfold plain. cbn [eval map sequence]. rewrite Ec. reflexivity.
Qed.

Lemma is_bool_spec e : wfe e -> is_bool e = true -> elen e = -1.
Proof.
  intros Hw H. unfold is_bool in H. apply Z.ltb_lt in H. destruct (wfe_len e Hw) as [E|E]; auto.
  apply wok_pos in E. lia.
Qed.

(* If(c,t,f) compared with one of its branches when the other branch is known to differ *)
Lemma if_branch_eval rho c t f l : wfe (Node OIf [] [c; t; f] l) ->
  exists cb vt vf, eval rho c = Some (VBool cb) /\ eval rho t = Some vt /\ eval rho f = Some vf
    /\ eval rho (Node OIf [] [c; t; f] l) = Some (if cb then vt else vf)
    /\ wfe c /\ elen c = -1 /\ wfe t /\ wfe f /\ elen t = l /\ elen f = l.
Proof.
  intros Hw. pose proof Hw as Hw'. apply wfe_node in Hw as [Hargs Hty].
  inversion Hargs as [|? ? Hc Hr1]; subst. inversion Hr1 as [|? ? Ht Hr2]; subst. inversion Hr2 as [|? ? Hf _]; subst.
  cbn [map tyop] in Hty.
  destruct ((elen c =? -1) && (wok (elen t) || (elen t =? -1)) && (elen t =? elen f)) eqn:E; [|discriminate Hty].
  inversion Hty; subst l. apply andb_true_iff in E as [E E3]. apply andb_true_iff in E as [E1 E2].
  apply Z.eqb_eq in E1, E3.
  destruct (eval_bool rho c Hc E1) as (cb & Ec).
  destruct (eval_wf rho t Ht) as (vt & Et & Tt). destruct (eval_wf rho f Hf) as (vf & Ef & Tf).
  exists cb, vt, vf. repeat split; auto.
  cbn [eval map sequence]. rewrite Ec, Et, Ef.
  destruct Tt as [Lt Vt], Tf as [Lf Vf]. rewrite <- E3 in Lf.
  destruct vt, vf; cbn in *; try (destruct cb; reflexivity);
  try (exfalso; repeat match goal with V : wok _ = true /\ _ |- _ => destruct V as [V _]; apply wok_spec in V end; lia).
  assert (w = w0) by lia. subst. rewrite Z.eqb_refl. destruct cb; reflexivity.
Qed.

Lemma simp_cmp_if_sound p c t f l b r (first : bool) :
  (* first = true: the then-branch is b and the else-branch differs; result is c (for ==) *)
  targs (cmpop p) [] [Node OIf [] [c; t; f] l; b] ->
  (if first then t = b else f = b) ->
  mk ONe [] [if first then f else t; b] = Ok (BoolVe true) ->
  (if Bool.eqb p first then r = c else mk_not mk c = Ok r) ->
  good (cmpop p) [] [Node OIf [] [c; t; f] l; b] r.
Proof.
  intros Ht Hbr Hne Hr.
  destruct (targs_eq_inv (cmpop p) _ b ltac:(destruct p; cbn; auto) Ht) as (Ha & Hb & He & Hk).
  cbn [elen] in He, Hk.
  assert (Hres : wfe r /\ elen r = -1 /\ forall rho cb, eval rho c = Some (VBool cb) ->
             eval rho r = Some (VBool (if Bool.eqb p first then cb else negb cb))).
  { destruct (if_branch_eval (mkEnv (fun _ => 0) (fun _ => false)) c t f l Ha) as (_ & _ & _ & _ & _ & _ & _ & Hc & Lc & _).
    destruct (Bool.eqb p first).
    - subst r. repeat split; auto.
    - apply (mk_not_sem c r Hc Lc Hr). }
  destruct Hres as (Gw & Gl & Ge).
  apply good_intro; [auto|rewrite calc_len_cmpop; auto|]. intros rho.
  destruct (if_branch_eval rho c t f l Ha) as (cb & vt & vf & Ec & Et & Ef & Ei & Hc & Lc & Htw & Hfw & Lt & Lf).
  rewrite (Ge rho cb Ec).
  destruct (cmp_eval rho p _ b Ha Hb He) as (x & y & Ex & Ey & _ & _ & Ep). rewrite Ep.
  rewrite Ei in Ex. inversion Ex; subst x. clear Ex.
  assert (Hother : veq (if first then vf else vt) y = false).
  { destruct first.
    - eapply (mk_ne_true rho f b); eauto; congruence.
    - eapply (mk_ne_true rho t b); eauto; congruence. }
  assert (Hsame : (if first then vt else vf) = y).
  { destruct first; subst b; congruence. }
  f_equal. f_equal. destruct first, p, cb; cbn in *; subst; rewrite ?veq_refl, ?Hother; reflexivity.
Qed.

Lemma cmp_swap p a b r : targs (cmpop p) [] [b; a] -> good (cmpop p) [] [a; b] r -> good (cmpop p) [] [b; a] r.
Proof.
  intros Ht (Gw & Gl & Ge).
  destruct (targs_eq_inv (cmpop p) b a ltac:(destruct p; cbn; auto) Ht) as (Hb & Ha & He & Hk).
  apply good_intro; [auto|rewrite calc_len_cmpop in *; auto|]. intros rho. rewrite (Ge rho).
  destruct (cmp_eval rho p a b Ha Hb (eq_sym He)) as (x & y & Ex & Ey & _ & _ & Ep).
  destruct (cmp_eval rho p b a Hb Ha He) as (y' & x' & Ey' & Ex' & _ & _ & Ep').
  rewrite Ep, Ep'. rewrite Ex in Ex'. rewrite Ey in Ey'. inversion Ex'; inversion Ey'; subst.
  rewrite veq_sym. reflexivity.
Qed.

Lemma targs_swap p a b : targs (cmpop p) [] [a; b] -> targs (cmpop p) [] [b; a].
Proof.
  intros Ht. destruct (targs_eq_inv (cmpop p) a b ltac:(destruct p; cbn; auto) Ht) as (Ha & Hb & He & Hk).
  apply targs_cmpop; auto; congruence.
Qed.

Lemma simp_eq_sound a b r : targs OEq [] [a; b] -> simp_eq mk a b = Ok (Some r) -> good OEq [] [a; b] r.
Proof.
  intros Ht H.
  destruct (targs_eq_inv OEq a b ltac:(auto) Ht) as (Ha & Hb & He & Hk).
  pose proof (fun rho => cmp_eval rho true a b Ha Hb He) as Hev. cbn [cmpop pol] in Hev.
  unfold simp_eq in H. chain H.
  - intros R. apply when_inv in R as [E R]. apply done_inv in R. subst r. apply expr_eqb_eq in E. subst b.
    apply good_intro; [exact I|reflexivity|]. intros rho. destruct (Hev rho) as (x & y & Ex & Ey & _ & _ & Ep).
    rewrite Ep. rewrite Ex in Ey. inversion Ey; subst. rewrite veq_refl. reflexivity.
  - intros R. apply when_inv in R as [E R]. apply done_inv in R. subst r. apply andb_true_iff in E as [E1 E2].
    apply expr_eqb_eq in E2. subst b. pose proof (is_bool_spec a Ha E1) as El.
    apply good_intro; [auto|auto|]. intros rho. destruct (Hev rho) as (x & y & Ex & Ey & Tx & _ & Ep).
    rewrite Ep, Ex. rewrite El in Tx. destruct (vty_bool _ Tx) as (xb & ->). cbn in Ey. inversion Ey; subst.
    cbn. destruct xb; reflexivity.
  - intros R. apply when_inv in R as [E R]. apply done_inv in R. subst r. apply andb_true_iff in E as [E1 E2].
    apply expr_eqb_eq in E2. subst a. pose proof (is_bool_spec b Hb E1) as El.
    apply good_intro; [auto|auto|]. intros rho. destruct (Hev rho) as (x & y & Ex & Ey & _ & Ty & Ep).
    rewrite Ep, Ey. cbn [elen] in Ty. destruct (vty_bool _ Ty) as (yb & ->). cbn in Ex. inversion Ex; subst.
    cbn. destruct yb; reflexivity.
  - intros R. apply when_inv in R as [E R]. apply ret_inv in R. apply andb_true_iff in E as [E1 E2].
    apply expr_eqb_eq in E2. subst b. pose proof (is_bool_spec a Ha E1) as El.
    destruct (mk_not_sem a r Ha El R) as (Gw & Gl & Ge).
    apply good_intro; [auto|auto|]. intros rho. destruct (Hev rho) as (x & y & Ex & Ey & Tx & _ & Ep).
    rewrite Ep. rewrite El in Tx. destruct (vty_bool _ Tx) as (xb & ->). rewrite (Ge rho xb Ex).
    cbn in Ey. inversion Ey; subst. cbn. destruct xb; reflexivity.
  - intros R. apply when_inv in R as [E R]. apply ret_inv in R. apply andb_true_iff in E as [E1 E2].
    apply expr_eqb_eq in E2. subst a. pose proof (is_bool_spec b Hb E1) as El.
    destruct (mk_not_sem b r Hb El R) as (Gw & Gl & Ge).
    apply good_intro; [auto|auto|]. intros rho. destruct (Hev rho) as (x & y & Ex & Ey & _ & Ty & Ep).
    rewrite Ep. cbn [elen] in Ty. destruct (vty_bool _ Ty) as (yb & ->). rewrite (Ge rho yb Ey).
    cbn in Ex. inversion Ex; subst. cbn. destruct yb; reflexivity.
  - intros R. exfalso. eapply guard_inv; eauto.
  - intros R. apply when_inv in R as [_ R]. apply ret_inv in R.
    apply (cmp_swap true b a r Ht). apply (Hmk OEq [] [b; a] r (targs_swap true a b Ht) R).
  - (* expr - c1 == c2 *)
    intros R.
    repeat match type of R with
    | match ?e with _ => _ end = _ => destruct e; try (apply skip_inv in R; tauto)
    end.
    match goal with
    | Ht : targs OEq [] [Node OSub [] [?x'; BVVe ?c1' ?w1'] ?l'; BVVe ?c2' ?w2'] |- _ =>
        rename x' into x; rename c1' into c1; rename w1' into w1; rename l' into l; rename c2' into c2; rename w2' into w2
    end.
    destruct (mk OAdd [] [BVVe c1 w1; BVVe c2 w2]) as [sm| | |] eqn:Es; cbn [bind] in R; try discriminate R.
    apply ret_inv in R.
    destruct (wfe_bin_node OSub x (BVVe c1 w1) l ltac:(left; unfold binbv; tauto) Ha) as (Hx & Hc1 & Lx & L1).
    cbn [elen] in *. subst w1 w2.
    assert (Hc2 : bvlen (BVVe c2 l)) by (split; [exact Hb|apply Hc1]).
    destruct (Hmk OAdd [] _ sm (targs_add2 _ _ Hc1 Hc2 eq_refl) Es) as (Sw & Sl & Se). cbn [calc_len elen] in Sl.
    assert (Hts : targs OEq [] [x; sm]).
    { apply (targs_cmpop true); auto; [apply Hx|congruence|left; apply Hx]. }
    destruct (Hmk OEq [] _ r Hts R) as (Gw & Gl & Ge).
    apply good_intro; [auto|auto|]. intros rho. rewrite (Ge rho).
    destruct (valof rho x Hx) as (vx & Ex & Rx). rewrite Lx in *.
    specialize (Se rho). unfold plain in *. cbn [eval map sequence] in *. rewrite Ex in *. rewrite Se.
    repeat (cbn [eval_op nary fold_bin bin_bv]; rewrite ?Z.eqb_refl).
    destruct Hc2 as [[_ Rc2] _]. pose proof (wok_nonneg _ (proj2 Hx)) as Hnn. rewrite Lx in Hnn.
    rewrite (sub_eq_rule l vx c1 c2) by auto. reflexivity.
  - intros R. apply (xor_zero_sound true a b r Ht R).
  - intros R. destruct a as [| | | |ao ai aa al]; try (apply skip_inv in R; tauto).
    destruct ao; try (apply skip_inv in R; tauto). destruct ai; try (apply skip_inv in R; tauto).
    destruct aa as [|c [|t [|f [|? ?]]]]; try (apply skip_inv in R; tauto).
    chain R.
    + intros R1. apply when_inv in R1 as [E R1]. apply test_inv in R1 as [R1 R2]. apply done_inv in R2.
      apply expr_eqb_eq in E.
      apply (simp_cmp_if_sound true c t f al b r true Ht E R1). cbn. auto.
    + apply when_inv in R as [E R]. apply test_inv in R as [R1 R2]. apply ret_inv in R2.
      apply expr_eqb_eq in E.
      apply (simp_cmp_if_sound true c t f al b r false Ht E R1). cbn. auto.
  - intros R. destruct b as [| | | |bo bi ba bl]; try (apply skip_inv in R; tauto).
    destruct bo; try (apply skip_inv in R; tauto). destruct bi; try (apply skip_inv in R; tauto).
    destruct ba as [|c [|t [|f [|? ?]]]]; try (apply skip_inv in R; tauto).
    chain R.
    + intros R1. exfalso. eapply guard_inv; eauto.
    + apply when_inv in R as [E R]. apply test_inv in R as [R1 R2]. apply ret_inv in R2.
      apply expr_eqb_eq in E.
      apply (cmp_swap true _ a r Ht).
      apply (simp_cmp_if_sound true c t f bl a r false (targs_swap true _ _ Ht) E R1). cbn. auto.
  - exfalso. eapply guard_inv; eauto.
Qed.

Lemma simp_ne_sound a b r : targs ONe [] [a; b] -> simp_ne mk a b = Ok (Some r) -> good ONe [] [a; b] r.
Proof.
  intros Ht H.
  destruct (targs_eq_inv ONe a b ltac:(auto) Ht) as (Ha & Hb & He & Hk).
  pose proof (fun rho => cmp_eval rho false a b Ha Hb He) as Hev. cbn [cmpop pol] in Hev.
  unfold simp_ne in H. chain H.
  - intros R. apply when_inv in R as [E R]. apply done_inv in R. subst r. apply expr_eqb_eq in E. subst b.
    apply good_intro; [exact I|reflexivity|]. intros rho. destruct (Hev rho) as (x & y & Ex & Ey & _ & _ & Ep).
    rewrite Ep. rewrite Ex in Ey. inversion Ey; subst. rewrite veq_refl. reflexivity.
  - intros R. exfalso. eapply guard_inv; eauto.
  - intros R. apply when_inv in R as [_ R]. apply ret_inv in R.
    apply (cmp_swap false b a r Ht). apply (Hmk ONe [] [b; a] r (targs_swap false a b Ht) R).
  - intros R. destruct a as [| | | |ao ai aa al]; try (apply skip_inv in R; tauto).
    destruct ao; try (apply skip_inv in R; tauto). destruct ai; try (apply skip_inv in R; tauto).
    destruct aa as [|c [|t [|f [|? ?]]]]; try (apply skip_inv in R; tauto).
    chain R.
    + intros R1. apply when_inv in R1 as [E R1]. apply test_inv in R1 as [R1 R2]. apply done_inv in R2.
      apply expr_eqb_eq in E.
      apply (simp_cmp_if_sound false c t f al b r false Ht E R1). cbn. auto.
    + apply when_inv in R as [E R]. apply test_inv in R as [R1 R2]. apply ret_inv in R2.
      apply expr_eqb_eq in E.
      apply (simp_cmp_if_sound false c t f al b r true Ht E R1). cbn. auto.
  - intros R. destruct b as [| | | |bo bi ba bl]; try (apply skip_inv in R; tauto).
    destruct bo; try (apply skip_inv in R; tauto). destruct bi; try (apply skip_inv in R; tauto).
    destruct ba as [|c [|t [|f [|? ?]]]]; try (apply skip_inv in R; tauto).
    chain R.
    + intros R1. apply when_inv in R1 as [E R1]. apply test_inv in R1 as [R1 R2]. apply done_inv in R2.
      apply expr_eqb_eq in E.
      apply (cmp_swap false _ a r Ht).
      apply (simp_cmp_if_sound false c t f bl a r false (targs_swap false _ _ Ht) E R1). cbn. auto.
    + apply when_inv in R as [E R]. apply test_inv in R as [R1 R2]. apply ret_inv in R2.
      apply expr_eqb_eq in E.
      apply (cmp_swap false _ a r Ht).
      apply (simp_cmp_if_sound false c t f bl a r true (targs_swap false _ _ Ht) E R1). cbn. auto.
  - intros R. apply (xor_zero_sound false a b r Ht R).
  - exfalso. eapply guard_inv; eauto.
Qed.

Lemma simp_uge_sound a b r : simp_uge a b = Ok (Some r) -> False.
Proof. unfold simp_uge. apply guard_inv. Qed.

(* ---- Boolean Or / And ---- *)
Definition boolop (op : opk) : Prop := op = OBAnd \/ op = OBOr.

Lemma targs_bool_okl op args : boolop op -> targs op [] args -> okl (-1) args /\ args <> [].
Proof.
  intros Hop [Hf [len Hty]].
  assert (X : args <> [] /\ forallb (Z.eqb (-1)) (map elen args) = true).
  { destruct Hop as [-> | ->]; cbn [tyop] in Hty; destruct args; try discriminate Hty;
    cbn [map] in *; destruct (forallb (Z.eqb (-1)) (elen e :: map elen args)); try discriminate Hty;
    split; auto; discriminate. }
  destruct X as [Hne Hall]. split; auto. unfold okl.
  clear -Hf Hall. induction Hf as [|x r Hx Hr IH]; [constructor|]. cbn [map forallb] in Hall.
  apply andb_true_iff in Hall as [H1 H2]. apply Z.eqb_eq in H1. constructor; auto.
Qed.

Lemma okl_bool_targs op args : boolop op -> okl (-1) args -> args <> [] -> targs op [] args.
Proof.
  intros Hop Hok Hne. split; [eapply Forall_impl; [|exact Hok]; cbn; tauto|]. exists (-1).
  destruct args as [|e r]; [congruence|].
  pose proof (okl_bool_forallb _ Hok) as Hall.
  destruct Hop as [-> | ->]; cbn [tyop map] in *; rewrite Hall; reflexivity.
Qed.

(* value of an n-ary Boolean node *)
Definition valb (rho : env) (e : expr) : bool := match eval rho e with Some (VBool b) => b | _ => false end.

Lemma okl_bool_seq rho args : okl (-1) args -> sequence (map (eval rho) args) = Some (map VBool (map (valb rho) args)).
Proof.
  unfold okl. induction 1 as [|e r [Hw Hl] Hr IH]; cbn; [reflexivity|].
  destruct (eval_bool rho e Hw Hl) as (b & Eb). unfold valb at 1. rewrite Eb, IH. reflexivity.
Qed.

Lemma fold_orb l : forall acc, fold_left orb l acc = acc || existsb (fun b => b) l.
Proof. induction l as [|x l IH]; intros acc; cbn; [rewrite orb_false_r; reflexivity|]. rewrite IH. rewrite orb_assoc. reflexivity. Qed.
Lemma fold_andb l : forall acc, fold_left andb l acc = acc && forallb (fun b => b) l.
Proof. induction l as [|x l IH]; intros acc; cbn; [rewrite andb_true_r; reflexivity|]. rewrite IH. rewrite andb_assoc. reflexivity. Qed.

Lemma bor_eval rho args : okl (-1) args -> args <> [] ->
  eval rho (plain OBOr [] args) = Some (VBool (existsb (valb rho) args)).
Proof.
  intros Hok Hne. unfold plain. cbn [eval]. rewrite okl_bool_seq by auto.
  destruct args as [|e r]; [congruence|]. cbn [map eval_op nary]. rewrite fold_bin_boolv, fold_orb.
  cbn [existsb]. f_equal. f_equal. f_equal. clear. induction r; cbn; congruence.
Qed.
Lemma band_eval rho args : okl (-1) args -> args <> [] ->
  eval rho (plain OBAnd [] args) = Some (VBool (forallb (valb rho) args)).
Proof.
  intros Hok Hne. unfold plain. cbn [eval]. rewrite okl_bool_seq by auto.
  destruct args as [|e r]; [congruence|]. cbn [map eval_op nary]. rewrite fold_bin_boolv, fold_andb.
  cbn [forallb]. f_equal. f_equal. f_equal. clear. induction r; cbn; congruence.
Qed.

Lemma valb_eval rho e : wfe e -> elen e = -1 -> eval rho e = Some (VBool (valb rho e)).
Proof. intros Hw Hl. destruct (eval_bool rho e Hw Hl) as (b & Eb). unfold valb. rewrite Eb. reflexivity. Qed.

Lemma existsb_filter_nonconst rho args :
  existsb (fun a => expr_eqb a (BoolVe true)) args = false ->
  existsb (valb rho) (filter (fun a => negb (is_boolv a)) args) = existsb (valb rho) args.
Proof.
  induction args as [|e r IH]; cbn [existsb filter]; intros H; [reflexivity|].
  apply orb_false_iff in H as [H1 H2]. specialize (IH H2).
  destruct e as [| | |b|]; cbn [is_boolv negb existsb]; try (rewrite IH; reflexivity).
  destruct b; [cbn in H1; discriminate H1|]. cbn. exact IH.
Qed.
Lemma forallb_filter_nonconst rho args :
  existsb (fun a => expr_eqb a (BoolVe false)) args = false ->
  forallb (valb rho) (filter (fun a => negb (is_boolv a)) args) = forallb (valb rho) args.
Proof.
  induction args as [|e r IH]; cbn [existsb forallb filter]; intros H; [reflexivity|].
  apply orb_false_iff in H as [H1 H2]. specialize (IH H2).
  destruct e as [| | |b|]; cbn [is_boolv negb forallb]; try (rewrite IH; reflexivity).
  destruct b; [|cbn in H1; discriminate H1]. cbn. exact IH.
Qed.

Lemma simp_bor_sound args r : targs OBOr [] args -> simp_bor mk args = Ok (Some r) -> good OBOr [] args r.
Proof.
  intros Ht H. destruct (targs_bool_okl OBOr args ltac:(unfold boolop; tauto) Ht) as (Hok & Hne).
  unfold simp_bor in H.
  destruct (existsb (fun a => expr_eqb a (BoolVe true)) args) eqn:Et.
  - (* some operand is the constant True *)
    apply done_inv in H. subst r. apply good_intro; [exact I|reflexivity|]. intros rho.
    rewrite bor_eval by auto. cbn [eval]. f_equal. f_equal. symmetry.
    apply existsb_exists in Et as (x & Hin & Ex). apply expr_eqb_eq in Ex. subst x.
    apply existsb_exists. exists (BoolVe true). split; auto.
  - destruct (existsb is_boolv args) eqn:Eb.
    + (* drop the constant False operands *)
      set (na := filter (fun a => negb (is_boolv a)) args) in *.
      assert (Hna : okl (-1) na) by (apply okl_filter; auto).
      assert (Hval : forall rho, existsb (valb rho) na = existsb (valb rho) args)
        by (intros rho; apply existsb_filter_nonconst; auto).
      destruct na as [|x [|y rest]] eqn:Ena.
      * apply done_inv in H. subst r. apply good_intro; [exact I|reflexivity|]. intros rho.
        rewrite bor_eval by auto. rewrite <- Hval. reflexivity.
      * apply done_inv in H. subst r. unfold okl in Hna. inversion Hna as [|? ? [Xw Xl] _]; subst.
        apply good_intro; [auto|auto|]. intros rho. rewrite bor_eval by auto. rewrite <- Hval.
        cbn [existsb]. rewrite orb_false_r. apply valb_eval; auto.
      * apply ret_inv in H.
        destruct (Hmk OBOr [] _ r (okl_bool_targs OBOr _ ltac:(unfold boolop; tauto) Hna ltac:(discriminate)) H) as (Gw & Gl & Ge).
        apply good_intro; [auto|auto|]. intros rho. rewrite (Ge rho).
        rewrite !bor_eval by (auto; discriminate). rewrite Hval. reflexivity.
    + eapply flatten_bor_sound; eauto.
Qed.

Lemma good_band_transfer args na r :
  okl (-1) args -> args <> [] -> na = filter (fun a => negb (is_boolv a)) args ->
  existsb (fun a => expr_eqb a (BoolVe false)) args = false -> na <> [] ->
  good OBAnd [] na r -> good OBAnd [] args r.
Proof.
  intros Hok Hne -> Hf Hna (Gw & Gl & Ge). apply good_intro; [auto|auto|]. intros rho. rewrite (Ge rho).
  rewrite !band_eval by (auto using okl_filter). rewrite forallb_filter_nonconst by auto. reflexivity.
Qed.

Lemma simp_band_sound args r : targs OBAnd [] args -> simp_band mk args = Ok (Some r) -> good OBAnd [] args r.
Proof.
  intros Ht H. destruct (targs_bool_okl OBAnd args ltac:(unfold boolop; tauto) Ht) as (Hok & Hne).
  unfold simp_band in H.
  destruct (existsb (fun a => expr_eqb a (BoolVe false)) args) eqn:Ef.
  - apply done_inv in H. subst r. apply good_intro; [exact I|reflexivity|]. intros rho.
    rewrite band_eval by auto. cbn [eval]. f_equal. f_equal. symmetry.
    apply existsb_exists in Ef as (x & Hin & Ex). apply expr_eqb_eq in Ex. subst x.
    apply not_true_iff_false. intros Hall. rewrite forallb_forall in Hall. specialize (Hall _ Hin). discriminate Hall.
  - set (na := filter (fun a => negb (is_boolv a)) args) in *.
    assert (Hna : okl (-1) na) by (apply okl_filter; auto).
    assert (Hval : forall rho, forallb (valb rho) na = forallb (valb rho) args)
      by (intros rho; apply forallb_filter_nonconst; auto).
    destruct na as [|x [|y rest]] eqn:Ena.
    + apply done_inv in H. subst r. apply good_intro; [exact I|reflexivity|]. intros rho.
      rewrite band_eval by auto. rewrite <- Hval. reflexivity.
    + apply done_inv in H. subst r. unfold okl in Hna. inversion Hna as [|? ? [Xw Xl] _]; subst.
      apply good_intro; [auto|auto|]. intros rho. rewrite band_eval by auto. rewrite <- Hval.
      cbn [forallb]. rewrite andb_true_r. apply valb_eval; auto.
    + apply (good_band_transfer args (x :: y :: rest) r Hok Hne (eq_sym Ena) Ef ltac:(discriminate)).
      assert (Htn : targs OBAnd [] (x :: y :: rest))
        by (apply okl_bool_targs; [unfold boolop; tauto|auto|discriminate]).
      clear Hval Ena. chain H.
      * (* x == c1 && x == c2 with c1 <> c2 *)
        intros R.
        repeat match type of R with
        | match ?e with _ => _ end = _ => destruct e; try (apply skip_inv in R; tauto)
        end.
        apply when_inv in R as [E R]. apply done_inv in R. subst r.
        apply andb_true_iff in E as [E1 E2]. apply expr_eqb_eq in E1. subst. apply negb_true_iff, Z.eqb_neq in E2.
        apply good_intro; [exact I|reflexivity|]. intros rho. rewrite band_eval by (auto; discriminate).
        cbn [eval forallb]. f_equal. f_equal. rewrite andb_true_r.
        unfold okl in Hna. inversion Hna as [|? ? [W1 _] Hr1]; subst. inversion Hr1 as [|? ? [W2 _] _]; subst.
        match goal with
        | W1 : wfe (Node OEq [] [?e; BVVe ?v1 ?w1] _), W2 : wfe (Node OEq [] [?e; BVVe ?v2 ?w2] _) |- _ =>
            destruct (targs_eq_inv OEq e (BVVe v1 w1) ltac:(auto)
                        (conj (proj1 (proj1 (wfe_node _ _ _ _) W1)) (ex_intro _ _ (proj2 (proj1 (wfe_node _ _ _ _) W1)))))
              as (He & Hc1 & L1 & K1);
            destruct (targs_eq_inv OEq e (BVVe v2 w2) ltac:(auto)
                        (conj (proj1 (proj1 (wfe_node _ _ _ _) W2)) (ex_intro _ _ (proj2 (proj1 (wfe_node _ _ _ _) W2)))))
              as (_ & Hc2 & L2 & _);
            destruct (eq_eval rho e (BVVe v1 w1) He Hc1 L1) as (xv & y1 & Exv & Ey1 & Tx & _ & Ep1 & _);
            destruct (eq_eval rho e (BVVe v2 w2) He Hc2 L2) as (xv' & y2 & Exv' & Ey2 & _ & _ & Ep2 & _);
            unfold plain in Ep1, Ep2; unfold valb
        end.
        cbn [calc_len] in Ep1, Ep2.
        repeat match goal with
        | |- context [eval rho (Node OEq [] [?e; BVVe ?v ?w] ?l)] =>
            lazymatch l with
            | -1 => fail
            | _ => change (eval rho (Node OEq [] [e; BVVe v w] l)) with (eval rho (Node OEq [] [e; BVVe v w] (-1)))
            end
        end.
        rewrite Ep1, Ep2. rewrite Exv in Exv'. inversion Exv'; subst xv'.
        cbn in Ey1, Ey2. inversion Ey1; inversion Ey2; subst.
        destruct xv as [wx px|bx]; cbn [veq].
        -- destruct (px =? _) eqn:A1; [|reflexivity]. apply Z.eqb_eq in A1. subst.
           cbn. symmetry. apply Z.eqb_neq. auto.
        -- reflexivity.
      * (* x >= y && x != y  ->  x > y *)
        intros R.
        repeat match type of R with
        | match ?e with _ => _ end = _ => destruct e; try (apply skip_inv in R; tauto)
        end.
        apply when_inv in R as [E R]. apply ret_inv in R.
        apply andb_true_iff in E as [E1 E2]. apply expr_eqb_eq in E1, E2. subst.
        unfold okl in Hna. inversion Hna as [|? ? [W1 _] Hr1]; subst. inversion Hr1 as [|? ? [W2 _] _]; subst.
        match goal with
        | W1 : wfe (Node OUGE [] [?a; ?b] _) |- _ =>
            pose proof (proj1 (wfe_node _ _ _ _) W1) as [Hab Hty];
            inversion Hab as [|? ? Ha Hr2]; subst; inversion Hr2 as [|? ? Hb _]; subst;
            cbn [map tyop] in Hty;
            destruct (wok (elen a) && (elen a =? elen b)) eqn:Ew; [|discriminate Hty];
            apply andb_true_iff in Ew as [Hw He]; apply Z.eqb_eq in He;
            assert (Hba : bvlen a) by (split; auto);
            assert (Hbb : bvlen b) by (split; auto; rewrite <- He; auto);
            destruct (Hmk OUGT [] [a; b] r (targs_cmp OUGT a b ltac:(tauto) Hba Hbb He) R) as (Gw & Gl & Ge);
            apply good_intro; [auto|auto|]; intros rho; rewrite (Ge rho);
            rewrite band_eval by (auto; discriminate);
            destruct (valof rho a Hba) as (va & Ea & _); destruct (valof rho b Hbb) as (vb & Eb & _);
            unfold plain, valb; cbn [eval map sequence forallb]; rewrite Ea, Eb;
            cbn [eval_op cmp_bv]; rewrite He, Z.eqb_refl; cbn [eval_op cmp_bv];
            unfold bvuge, bvugt; f_equal; f_equal; rewrite andb_true_r;
            destruct (Z.ltb_spec vb va), (Z.leb_spec vb va), (Z.eqb_spec va vb); cbn; try reflexivity; lia
        end.
      * (* flatten, then post-processing *)
        destruct (flatten OBAnd FDedup (x :: y :: rest) None) as [[fl|]| | |] eqn:Efl; cbn [bind] in H;
          try discriminate H; try (apply skip_inv in H; tauto).
        pose proof (flatten_band_sound _ fl Hna ltac:(discriminate) Efl) as (Fw & Fl & Fe).
        destruct (negb (is_op OBAnd fl)) eqn:Eop.
        -- apply done_inv in H. subst r. split; auto.
        -- destruct (args_of fl) as [|f1 [|f2 frest]] eqn:Eargs.
           ++ destruct (existsb _ []) eqn:Ex in H; [|discriminate H]. cbn in Ex. discriminate Ex.
           ++ apply done_inv in H. subst r.
              apply negb_false_iff in Eop. destruct fl as [| | | |fo fi fa fl']; try discriminate Eop.
              cbn [is_op] in Eop. apply opk_eqb_eq in Eop. subst fo. cbn [args_of] in Eargs. subst fa.
              pose proof (proj1 (wfe_node _ _ _ _) Fw) as [Hfa Hfty]. inversion Hfa as [|? ? Hf1 _]; subst.
              destruct fi; [|cbn in Hfty; discriminate Hfty]. cbn [map tyop forallb] in Hfty.
              destruct (-1 =? elen f1) eqn:E1; [|discriminate Hfty]. apply Z.eqb_eq in E1.
              apply good_intro; [auto|cbn; auto|]. intros rho. rewrite <- (Fe rho).
              cbn [eval map sequence]. destruct (eval_bool rho f1 Hf1 (eq_sym E1)) as (b1 & Eb1). rewrite Eb1. reflexivity.
           ++ destruct (existsb _ (f1 :: f2 :: frest)) in H; [|discriminate H].
              apply done_inv in H. subst r. split; auto.
Qed.

(* ---- If ---- *)
Lemma targs_if c t f : wfe c -> elen c = -1 -> wfe t -> wfe f -> elen t = elen f -> targs OIf [] [c; t; f].
Proof.
  intros Hc Lc Ht Hf He. split; [repeat constructor; auto|]. exists (elen t). cbn [map tyop].
  rewrite Lc, <- He, !Z.eqb_refl. cbn [andb].
  destruct (wfe_len t Ht) as [E|E]; [rewrite E; reflexivity|rewrite E; reflexivity].
Qed.

Lemma simp_if_sound c t f r : targs OIf [] [c; t; f] -> simp_if mk c t f = Ok (Some r) -> good OIf [] [c; t; f] r.
Proof.
  intros Ht H. pose proof (targs_plain_wf _ _ _ Ht) as Hp. unfold plain in Hp.
  assert (Hev := fun rho => if_branch_eval rho c t f _ Hp).
  destruct (Hev (mkEnv (fun _ => 0) (fun _ => false))) as (_ & _ & _ & _ & _ & _ & _ & Hc & Lc & Htw & Hfw & Lt & Lf).
  cbn [calc_len] in Lt, Lf.
  assert (Hgood : forall r', wfe r' -> elen r' = elen t ->
            (forall rho cb vt vf, eval rho c = Some (VBool cb) -> eval rho t = Some vt -> eval rho f = Some vf ->
               eval rho r' = Some (if cb then vt else vf)) -> good OIf [] [c; t; f] r').
  { intros r' Rw Rl Re. apply good_intro; [auto|cbn; auto|]. intros rho.
    destruct (Hev rho) as (cb & vt & vf & Ec & Et & Ef & Ei & _). unfold plain. rewrite Ei. eapply Re; eauto. }
  unfold simp_if in H. chain H.
  - intros R. apply when_inv in R as [E R]. apply done_inv in R. subst r.
    destruct c as [| | |[|]|]; try discriminate E. apply Hgood; auto.
    intros rho cb vt vf Ec Et Ef. cbn in Ec. inversion Ec; subst. auto.
  - intros R. apply when_inv in R as [E R]. apply done_inv in R. subst r.
    destruct c as [| | |[|]|]; try discriminate E. apply Hgood; auto.
    intros rho cb vt vf Ec Et Ef. cbn in Ec. inversion Ec; subst. auto.
  - (* nested If in the then-branch *)
    intros R. destruct t as [| | | |to ti ta tl]; try (apply skip_inv in R; tauto).
    destruct to; try (apply skip_inv in R; tauto). destruct ti; try (apply skip_inv in R; tauto).
    destruct ta as [|c' [|t1 [|f1 [|? ?]]]]; try (apply skip_inv in R; tauto).
    assert (Hti := fun rho => if_branch_eval rho c' t1 f1 tl Htw).
    destruct (Hti (mkEnv (fun _ => 0) (fun _ => false))) as (_ & _ & _ & _ & _ & _ & _ & Hc' & Lc' & Ht1 & Hf1 & Lt1 & Lf1).
    cbn [elen] in *.
    chain R.
    + intros R1. apply when_inv in R1 as [E R1]. apply ret_inv in R1. apply expr_eqb_eq in E. subst c'.
      destruct (Hmk OIf [] _ r (targs_if c t1 f Hc Lc Ht1 Hfw ltac:(congruence)) R1) as (Gw & Gl & Ge).
      apply Hgood; [auto|cbn [calc_len] in Gl; cbn; congruence|].
      intros rho cb vt vf Ec Et Ef. rewrite (Ge rho).
      destruct (Hti rho) as (cb' & vt1 & vf1 & Ec' & Et1 & Ef1 & Ei & _).
      rewrite Ec in Ec'. inversion Ec'; subst cb'. rewrite Ei in Et. inversion Et; subst vt.
      pose proof (targs_plain_wf _ _ _ (targs_if c t1 f Hc Lc Ht1 Hfw ltac:(congruence))) as Hp2.
      destruct (if_branch_eval rho c t1 f _ Hp2) as (cb2 & a & b & Ec2 & Ea & Eb & Ei2 & _).
      unfold plain. rewrite Ei2. rewrite Ec in Ec2. rewrite Et1 in Ea. rewrite Ef in Eb.
      inversion Ec2; inversion Ea; inversion Eb; subst. destruct cb2; reflexivity.
    + destruct (mk_not mk c) as [nc| | |] eqn:En; cbn [bind] in R; try discriminate R.
      apply when_inv in R as [E R]. apply ret_inv in R. apply expr_eqb_eq in E. subst c'.
      destruct (mk_not_sem c nc Hc Lc En) as (_ & _ & Nsem).
      destruct (Hmk OIf [] _ r (targs_if c f1 f Hc Lc Hf1 Hfw ltac:(congruence)) R) as (Gw & Gl & Ge).
      apply Hgood; [auto|cbn [calc_len] in Gl; cbn; congruence|].
      intros rho cb vt vf Ec Et Ef. rewrite (Ge rho).
      destruct (Hti rho) as (cb' & vt1 & vf1 & Ec' & Et1 & Ef1 & Ei & _).
      rewrite (Nsem rho cb Ec) in Ec'. inversion Ec'; subst cb'. rewrite Ei in Et. inversion Et; subst vt.
      pose proof (targs_plain_wf _ _ _ (targs_if c f1 f Hc Lc Hf1 Hfw ltac:(congruence))) as Hp2.
      destruct (if_branch_eval rho c f1 f _ Hp2) as (cb2 & a & b & Ec2 & Ea & Eb & Ei2 & _).
      unfold plain. rewrite Ei2. rewrite Ec in Ec2. rewrite Ef1 in Ea. rewrite Ef in Eb.
      inversion Ec2; inversion Ea; inversion Eb; subst. destruct cb2; reflexivity.
  - (* nested If in the else-branch *)
    intros R. destruct f as [| | | |fo fi fa fl]; try (apply skip_inv in R; tauto).
    destruct fo; try (apply skip_inv in R; tauto). destruct fi; try (apply skip_inv in R; tauto).
    destruct fa as [|c' [|t2 [|f2 [|? ?]]]]; try (apply skip_inv in R; tauto).
    assert (Hfi := fun rho => if_branch_eval rho c' t2 f2 fl Hfw).
    destruct (Hfi (mkEnv (fun _ => 0) (fun _ => false))) as (_ & _ & _ & _ & _ & _ & _ & Hc' & Lc' & Ht2 & Hf2 & Lt2 & Lf2).
    cbn [elen] in *.
    chain R.
    + intros R1. apply when_inv in R1 as [E R1]. apply ret_inv in R1. apply expr_eqb_eq in E. subst c'.
      destruct (Hmk OIf [] _ r (targs_if c t f2 Hc Lc Htw Hf2 ltac:(congruence)) R1) as (Gw & Gl & Ge).
      apply Hgood; [auto|cbn [calc_len] in Gl; cbn; congruence|].
      intros rho cb vt vf Ec Et Ef. rewrite (Ge rho).
      destruct (Hfi rho) as (cb' & vt2 & vf2 & Ec' & Et2 & Ef2 & Ei & _).
      rewrite Ec in Ec'. inversion Ec'; subst cb'. rewrite Ei in Ef. inversion Ef; subst vf.
      pose proof (targs_plain_wf _ _ _ (targs_if c t f2 Hc Lc Htw Hf2 ltac:(congruence))) as Hp2.
      destruct (if_branch_eval rho c t f2 _ Hp2) as (cb2 & a & b & Ec2 & Ea & Eb & Ei2 & _).
      unfold plain. rewrite Ei2. rewrite Ec in Ec2. rewrite Et in Ea. rewrite Ef2 in Eb.
      inversion Ec2; inversion Ea; inversion Eb; subst. destruct cb2; reflexivity.
    + destruct (mk_not mk c) as [nc| | |] eqn:En; cbn [bind] in R; try discriminate R.
      apply when_inv in R as [E R]. apply ret_inv in R. apply expr_eqb_eq in E. subst c'.
      destruct (mk_not_sem c nc Hc Lc En) as (_ & _ & Nsem).
      destruct (Hmk OIf [] _ r (targs_if c t t2 Hc Lc Htw Ht2 ltac:(congruence)) R) as (Gw & Gl & Ge).
      apply Hgood; [auto|cbn [calc_len] in Gl; cbn; congruence|].
      intros rho cb vt vf Ec Et Ef. rewrite (Ge rho).
      destruct (Hfi rho) as (cb' & vt2 & vf2 & Ec' & Et2 & Ef2 & Ei & _).
      rewrite (Nsem rho cb Ec) in Ec'. inversion Ec'; subst cb'. rewrite Ei in Ef. inversion Ef; subst vf.
      pose proof (targs_plain_wf _ _ _ (targs_if c t t2 Hc Lc Htw Ht2 ltac:(congruence))) as Hp2.
      destruct (if_branch_eval rho c t t2 _ Hp2) as (cb2 & a & b & Ec2 & Ea & Eb & Ei2 & _).
      unfold plain. rewrite Ei2. rewrite Ec in Ec2. rewrite Et in Ea. rewrite Et2 in Eb.
      inversion Ec2; inversion Ea; inversion Eb; subst. destruct cb2; reflexivity.
  - intros R. apply when_inv in R as [E R]. apply done_inv in R. subst r. apply expr_eqb_eq in E. subst f.
    apply Hgood; auto. intros rho cb vt vf Ec Et Ef. rewrite Et in Ef. inversion Ef; subst. destruct cb; auto.
  - intros R. apply when_inv in R as [E R]. apply done_inv in R. subst r. apply andb_true_iff in E as [E1 E2].
    apply expr_eqb_eq in E1, E2. subst t f. apply Hgood; auto.
    intros rho cb vt vf Ec Et Ef. cbn in Et, Ef. inversion Et; inversion Ef; subst. rewrite Ec. destruct cb; reflexivity.
  - apply when_inv in H as [E R]. apply ret_inv in R. apply andb_true_iff in E as [E1 E2].
    apply expr_eqb_eq in E1, E2. subst t f. destruct (mk_not_sem c r Hc Lc R) as (Gw & Gl & Ge).
    apply Hgood; auto. intros rho cb vt vf Ec Et Ef. cbn in Et, Ef. inversion Et; inversion Ef; subst.
    rewrite (Ge rho cb Ec). destruct cb; reflexivity.
Qed.
End WithMk.

(* ---- all simplifiers together, and the constructor ---- *)
Lemma simplify_sound mk : sound_mk mk -> forall op ints args r,
  targs op ints args -> simplify mk op ints args = Ok (Some r) -> good op ints args r.
Proof.
  intros Hmk op ints args r Ht H. unfold simplify in H.
  destruct op; try (apply skip_inv in H; tauto); try discriminate H;
  repeat match type of H with
  | match ?e with _ => _ end = _ => destruct e; try (apply skip_inv in H; tauto); try discriminate H
  end.
  - eapply simp_add_sound; eauto.
  - eapply simp_sub_sound; eauto.
  - eapply simp_mul_sound; eauto.
  - eapply simp_invert_sound; eauto.
  - eapply simp_and_sound; eauto.
  - eapply simp_or_sound; eauto.
  - eapply simp_xor_sound; eauto.
  - eapply simp_lshift_sound; eauto.
  - eapply simp_rshift_sound; eauto.
  - eapply simp_rshift_sound; eauto.
  - eapply simp_zeroext_sound; eauto.
  - eapply simp_signext_sound; eauto.
  - eapply simp_eq_sound; eauto.
  - eapply simp_ne_sound; eauto.
  - exfalso. eapply simp_uge_sound; eauto.
  - eapply simp_band_sound; eauto.
  - eapply simp_bor_sound; eauto.
  - eapply simp_not_sound; eauto.
  - eapply simp_if_sound; eauto.
Qed.

Theorem mk_sound : forall fuel, sound_mk (mk fuel).
Proof.
  induction fuel as [|f IH]; intros op ints args r Ht H; cbn [mk] in H; [discriminate H|].
  destruct (simplify (mk f) op ints args) as [[s|]| | |] eqn:Es; cbn [bind] in H; try discriminate H.
  - inversion H; subst. eapply simplify_sound; eauto.
  - eapply construct_sound; eauto.
Qed.
