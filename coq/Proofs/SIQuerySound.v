(* C22: the queries that read the (lower, upper) pairs of _unsigned_bounds / _signed_bounds.
     max is an upper bound and min a lower bound of every member, in either signedness (partial: max is not always a member);
     unsigned min is exactly the least member; unsigned eval lists members only. *)
From Coq Require Import ZArith List Bool Lia.
Require Import CV.Model.PyPrelude CV.Gen.SIHelpers CV.Model.SI CV.Model.SICmp CV.Model.SIQuery CV.Proofs.SISound CV.Proofs.SICmpSound.
Import ListNotations.
Open Scope Z_scope.

Lemma fold_max_ge r : forall x0, x0 <= fold_left Z.max r x0 /\ forall y, In y r -> y <= fold_left Z.max r x0.
Proof.
  induction r as [|z r IH]; intros x0; cbn [fold_left]; [split; [lia|intros y []]|].
  destruct (IH (Z.max x0 z)) as [H1 H2]. split; [lia|]. intros y [<-|Hy]; [lia|exact (H2 y Hy)].
Qed.

Lemma fold_min_le r : forall x0, fold_left Z.min r x0 <= x0 /\ forall y, In y r -> fold_left Z.min r x0 <= y.
Proof.
  induction r as [|z r IH]; intros x0; cbn [fold_left]; [split; [lia|intros y []]|].
  destruct (IH (Z.min x0 z)) as [H1 H2]. split; [lia|]. intros y [<-|Hy]; [lia|exact (H2 y Hy)].
Qed.

Lemma fold_min_in r : forall x0, In (fold_left Z.min r x0) (x0 :: r).
Proof.
  induction r as [|z r IH]; intros x0; cbn [fold_left]; [left; reflexivity|].
  destruct (IH (Z.min x0 z)) as [H|H].
  - rewrite <- H. destruct (Z.min_spec x0 z) as [[_ ->]|[_ ->]]; [left|right; left]; reflexivity.
  - right; right; exact H.
Qed.

Lemma list_max_ge l m x : list_max l = Ok m -> In x l -> x <= m.
Proof.
  destruct l as [|x0 r]; [discriminate|]. cbn [list_max]. intros H; inversion H; subst m; clear H.
  destruct (fold_max_ge r x0) as [H1 H2]. intros [<-|Hx]; [exact H1|exact (H2 x Hx)].
Qed.

Lemma list_min_le l m x : list_min l = Ok m -> In x l -> m <= x.
Proof.
  destruct l as [|x0 r]; [discriminate|]. cbn [list_min]. intros H; inversion H; subst m; clear H.
  destruct (fold_min_le r x0) as [H1 H2]. intros [<-|Hx]; [exact H1|exact (H2 x Hx)].
Qed.

Lemma list_min_in l m : list_min l = Ok m -> In m l.
Proof.
  destruct l as [|x0 r]; [discriminate|]. cbn [list_min]. intros H; inversion H. apply fold_min_in.
Qed.

(* the reading of a member in the requested signedness *)
Definition rd (sg : bool) (a : si) (x : Z) : Z := if sg then sgn (bits a) x else x.

Lemma bounds_of_cover sg a bs x : wf a -> bounds_of sg a = Ok bs -> gamma a x -> covers bs (rd sg a x).
Proof.
  unfold bounds_of, rd. destruct sg; intros Hwf Hbs Hg; [exact (signed_cover a bs x Hwf Hbs Hg)|exact (bounds_cover a bs x Hwf Hbs Hg)].
Qed.

Theorem max_upper sg a m x : wf a -> si_max sg a = Ok m -> gamma a x -> rd sg a x <= m.
Proof.
  intros Hwf Hm Hg. unfold si_max in Hm. destruct Hwf as (Hb & Hwf'). rewrite Hb in Hm.
  destruct (bounds_of sg a) as [bs| | |] eqn:E; try discriminate. cbn [bind] in Hm.
  destruct (bounds_of_cover sg a bs x (conj Hb Hwf') E Hg) as (p & Hp & Hr).
  pose proof (list_max_ge _ _ (snd p) Hm (in_map snd bs p Hp)). lia.
Qed.

Theorem min_lower sg a m x : wf a -> si_min sg a = Ok m -> gamma a x -> m <= rd sg a x.
Proof.
  intros Hwf Hm Hg. unfold si_min in Hm. destruct Hwf as (Hb & Hwf'). rewrite Hb in Hm.
  destruct (bounds_of sg a) as [bs| | |] eqn:E; try discriminate. cbn [bind] in Hm.
  destruct (bounds_of_cover sg a bs x (conj Hb Hwf') E Hg) as (p & Hp & Hr).
  pose proof (list_min_le _ _ (fst p) Hm (in_map fst bs p Hp)). lia.
Qed.

(* the other direction for the unsigned pairs: every lb + i*stride <= ub of a pair is a member *)
Lemma ubounds_sound a bs q : wf a -> stride a < 2 ^ bits a -> unsigned_bounds a = Ok bs -> In q bs ->
  fst q <= snd q /\ forall i, 0 <= i -> fst q + i * stride a <= snd q -> gamma a (fst q + i * stride a).
Proof.
  intros (Hb & Hw & Hs & Hl & Hu) Hsn Hbs Hq.
  pose proof (pow_pos (bits a) ltac:(lia)) as Hn.
  unfold unsigned_bounds, ssplit in Hbs. rewrite max_int_ok in Hbs by lia. cbn [bind] in Hbs.
  destruct (ub a <? lb a) eqn:E.
  - apply Z.ltb_lt in E.
    unfold py_mod in Hbs. destruct (stride a =? 0) eqn:Es; [discriminate|]. apply Z.eqb_neq in Es.
    cbn [bind] in Hbs. assert (Hsp : 0 < stride a) by lia.
    set (n := 2 ^ bits a) in *.
    pose proof (Z.div_mod (n - 1 - lb a) (stride a) ltac:(lia)) as Hdm.
    pose proof (Z.mod_pos_bound (n - 1 - lb a) (stride a) Hsp) as Hr.
    assert (Hq0 : 0 <= (n - 1 - lb a) / stride a) by (apply Z.div_pos; lia).
    set (q0 := (n - 1 - lb a) / stride a) in *.
    set (r := (n - 1 - lb a) mod stride a) in *.
    assert (Hau : lb a <= n - 1 - r < n) by nia.
    destruct (mk (bits a) (stride a) (lb a) (n - 1 - r)) as [A| | |] eqn:EA; try discriminate.
    cbn [bind] in Hbs. rewrite modular_add_ok in Hbs by lia. cbn [bind] in Hbs. fold n in Hbs.
    rewrite (mod_plus n) in Hbs by nia.
    destruct (mk (bits a) (stride a) (n - 1 - r + stride a - n) (ub a)) as [B| | |] eqn:EB; try discriminate.
    cbn [bind] in Hbs.
    apply mk_bounds in EA; [|lia|fold n; lia|fold n; lia].
    apply mk_bounds in EB; [|lia|fold n; nia|fold n; lia].
    fold n in EA, EB.
    (* neither half is widened to TOP *)
    assert (HA : lb A = lb a /\ ub A = n - 1 - r).
    { destruct EA as [HA|(_ & _ & Etop & _)]; [exact HA|]. exfalso.
      destruct (Z.eq_dec (n - 1 - r + 1) n) as [Ee|Ee].
      - rewrite Ee, Z.mod_same in Etop by lia. lia.
      - rewrite Z.mod_small in Etop by lia. lia. }
    assert (HB : lb B = n - 1 - r + stride a - n /\ ub B = ub a \/ (lb B = 0 /\ ub B = n - 1 /\ r = 0 /\ stride a = 1 /\ False)).
    { destruct EB as [HB|(_ & _ & Etop & Es1)]; [left; exact HB|]. exfalso.
      assert (r = 0) by lia.
      destruct (Z.eq_dec (ub a + 1) n) as [Ee|Ee].
      - lia.
      - rewrite Z.mod_small in Etop by lia. lia. }
    destruct HB as [HB|(_ & _ & _ & _ & [])].
    assert (Hspan : span a = ub a - lb a + n) by (unfold span; fold n; apply mod_minus; lia).
    assert (HmemA : forall i, 0 <= i -> lb a + i * stride a <= n - 1 - r -> gamma a (lb a + i * stride a)).
    { intros i Hi Hle. split; [exact Hb|]. exists i. split; [exact Hi|]. rewrite Hspan. split; [nia|].
      fold n. symmetry. apply Z.mod_small. nia. }
    assert (HmemB : forall i, 0 <= i -> n - 1 - r + stride a - n + i * stride a <= ub a ->
                              gamma a (n - 1 - r + stride a - n + i * stride a)).
    { intros i Hi Hle. split; [exact Hb|]. exists (q0 + 1 + i). split; [lia|]. rewrite Hspan. split; [nia|].
      fold n. symmetry. replace (lb a + (q0 + 1 + i) * stride a) with (n - 1 - r + stride a - n + i * stride a + 1 * n) by nia.
      rewrite Z.mod_add by lia. apply Z.mod_small. nia. }
    destruct HA as [HA1 HA2]. destruct HB as [HB1 HB2].
    destruct (ub B <? lb B) eqn:EBw; inversion Hbs; subst bs; clear Hbs.
    + destruct Hq as [<-|[]]. unfold bnd; cbn [fst snd]. rewrite HA1, HA2. split; [lia|exact HmemA].
    + apply Z.ltb_ge in EBw. destruct Hq as [<-|[<-|[]]]; unfold bnd; cbn [fst snd].
      * rewrite HA1, HA2. split; [lia|exact HmemA].
      * split; [exact EBw|]. rewrite HB1, HB2. exact HmemB.
  - apply Z.ltb_ge in E. inversion Hbs; subst bs; clear Hbs. destruct Hq as [<-|[]]. unfold bnd; cbn [fst snd].
    split; [exact E|]. intros i Hi Hle. split; [exact Hb|]. exists i. split; [exact Hi|].
    unfold span. rewrite Z.mod_small by lia. split; [lia|]. symmetry. apply Z.mod_small. nia.
Qed.

(* unsigned min is the least member *)
Theorem min_exact a m : wf a -> stride a < 2 ^ bits a -> si_min false a = Ok m ->
  gamma a m /\ forall x, gamma a x -> m <= x.
Proof.
  intros Hwf Hsn Hm. split; [|intros x Hg; exact (min_lower false a m x Hwf Hm Hg)].
  unfold si_min in Hm. pose proof Hwf as (Hb & _). rewrite Hb in Hm. cbn [bounds_of] in Hm.
  destruct (unsigned_bounds a) as [bs| | |] eqn:E; try discriminate. cbn [bind] in Hm.
  apply list_min_in in Hm. apply in_map_iff in Hm. destruct Hm as (q & <- & Hq).
  destruct (ubounds_sound a bs q Hwf Hsn E Hq) as [Hle Hmem].
  specialize (Hmem 0 ltac:(lia) ltac:(lia)). rewrite Z.mul_0_l, Z.add_0_r in Hmem. exact Hmem.
Qed.

Lemma firstn_in {A} (n : nat) (l : list A) x : In x (firstn n l) -> In x l.
Proof.
  revert l; induction n as [|n IH]; intros l H; [destruct H|].
  destruct l as [|y l]; [destruct H|]. cbn [firstn] in H. destruct H as [->|H]; [left; reflexivity|right; exact (IH l H)].
Qed.

(* unsigned eval lists members only *)
Theorem eval_sound a n vs v : wf a -> stride a < 2 ^ bits a -> si_eval false a n = Ok vs -> In v vs -> gamma a v.
Proof.
  intros Hwf Hsn He Hv. pose proof Hwf as (Hb & Hw & Hs & Hl & Hu).
  pose proof (pow_pos (bits a) ltac:(lia)) as Hn.
  unfold si_eval in He. rewrite Hb in He.
  destruct ((stride a =? 0) && negb (Nat.eqb n 0)) eqn:E0.
  - inversion He; subst vs; clear He. destruct Hv as [<-|[]].
    split; [exact Hb|]. exists 0. pose proof (span_range a ltac:(lia)). split; [lia|]. split; [lia|].
    rewrite Z.mul_0_l, Z.add_0_r. symmetry. apply Z.mod_small. lia.
  - cbn [bounds_of] in He. destruct (unsigned_bounds a) as [bs| | |] eqn:E; try discriminate. cbn [bind] in He.
    inversion He; subst vs; clear He. apply firstn_in in Hv. apply in_flat_map in Hv. destruct Hv as (q & Hq & Hv).
    destruct (ubounds_sound a bs q Hwf Hsn E Hq) as [Hle Hmem].
    unfold piece_vals in Hv. destruct (snd q <? fst q) eqn:Ew; [destruct Hv|].
    apply in_map_iff in Hv. destruct Hv as (i & <- & Hi). apply in_seq in Hi.
    destruct (Z.eq_dec (stride a) 0) as [Ez|Ez].
    + (* stride 0 reaches this branch only with n = 0 *)
      rewrite Ez in E0. cbn in E0. destruct n; [|discriminate]. cbn in Hi. lia.
    + apply Hmem; [lia|].
      assert (Hsp : 0 < stride a) by lia.
      pose proof (Z.div_mod (snd q - fst q) (stride a) ltac:(lia)) as Hdm.
      pose proof (Z.mod_pos_bound (snd q - fst q) (stride a) Hsp) as Hr.
      assert (Hd : 0 <= (snd q - fst q) / stride a) by (apply Z.div_pos; lia).
      assert (Z.of_nat i < (snd q - fst q) / stride a + 1) by lia.
      nia.
Qed.

(* max is not always a member: 4 bits 2[0, 5] = {0, 2, 4}, max() = 5 (a known finding) *)
Theorem max_not_member_refuted :
  let a := mkSI 4 2 0 5 false in wf a /\ si_max false a = Ok 5 /\ ~ In 5 (members a).
Proof.
  cbv zeta. split; [repeat split; cbn; unfold SHIFT_LIMIT; lia|]. split; [vm_compute; reflexivity|].
  vm_compute. intros [H|[H|[H|[]]]]; discriminate H.
Qed.

Example query_examples :
  let a := mkSI 4 4 14 6 false in
  wf a /\ stride a < 2 ^ bits a /\ si_min false a = Ok 2 /\ si_max false a = Ok 14 /\ si_min true a = Ok (-2) /\ si_max true a = Ok 6 /\
  si_eval false a 10 = Ok [14; 2; 6] /\ si_eval false a 2 = Ok [14; 2] /\ si_eval true a 10 = Ok [-2; 2; 6].
Proof. cbv zeta. split; [repeat split; cbn; unfold SHIFT_LIMIT; lia|]. vm_compute. repeat split. Qed.
