(* Soundness of strided-interval add / sub / neg for every width and every operand. *)
From Coq Require Import ZArith List Bool Lia Znumtheory.
Import ListNotations.
Require Import CV.Model.PyPrelude CV.Gen.SIHelpers CV.Model.SI.
Open Scope Z_scope.

Local Arguments Z.pow : simpl never.
Local Arguments Z.land : simpl never.
Local Arguments Z.gcd : simpl never.

(* ---------- modular arithmetic by cases ---------- *)

Lemma mod_minus n a : 0 < n -> - n <= a < 0 -> a mod n = a + n.
Proof. intros Hn Ha. symmetry. apply Z.mod_unique with (-1); lia. Qed.

Lemma mod_plus n a : 0 < n -> n <= a < 2 * n -> a mod n = a - n.
Proof. intros Hn Ha. symmetry. apply Z.mod_unique with 1; lia. Qed.

Lemma mod_eq_shift n a b : 0 < n -> (a + b * n) mod n = a mod n.
Proof. intros Hn. apply Z.mod_add. lia. Qed.

Lemma pow_pos w : 0 <= w -> 0 < 2 ^ w.
Proof. intros. apply Z.pow_pos_nonneg; lia. Qed.

(* ---------- the generated helpers ---------- *)

Lemma pow_ok w : 0 <= w < SHIFT_LIMIT -> py_pow 2 w = Ok (2 ^ w).
Proof.
  intros Hw. unfold py_pow.
  destruct (w <? 0) eqn:E; [lia|].
  destruct (SHIFT_LIMIT <? w) eqn:E2; [lia|]. reflexivity.
Qed.

Lemma modular_add_ok a b w : 0 <= w < SHIFT_LIMIT -> si_modular_add a b w = Ok ((a + b) mod 2 ^ w).
Proof.
  intros Hw. unfold si_modular_add. rewrite pow_ok by lia. cbn [bind].
  unfold py_mod. pose proof (pow_pos w). destruct (2 ^ w =? 0) eqn:E; [lia|]. reflexivity.
Qed.

Lemma modular_sub_ok a b w : 0 <= w < SHIFT_LIMIT -> si_modular_sub a b w = Ok ((a - b) mod 2 ^ w).
Proof.
  intros Hw. unfold si_modular_sub. rewrite pow_ok by lia. cbn [bind].
  unfold py_mod. pose proof (pow_pos w). destruct (2 ^ w =? 0) eqn:E; [lia|]. reflexivity.
Qed.

Lemma max_int_ok w : 0 <= w < SHIFT_LIMIT -> si_max_int w = Ok (2 ^ w - 1).
Proof.
  intros Hw. unfold si_max_int, si_highbit, py_shl. cbn [bind].
  destruct (w + 1 - 1 <? 0) eqn:E; [lia|]. cbn [Z.eqb].
  destruct (SHIFT_LIMIT <? w + 1 - 1) eqn:E2; [lia|]. cbn [bind].
  rewrite Z.shiftl_1_l. replace (w + 1 - 1) with w by lia. reflexivity.
Qed.

Lemma land_mask x w : 0 <= w -> Z.land x (2 ^ w - 1) = x mod 2 ^ w.
Proof. intros. replace (2 ^ w - 1) with (Z.ones w) by (rewrite Z.ones_equiv; lia). apply Z.land_ones. assumption. Qed.

Lemma wrapped_cardinality_ok x y w :
  0 <= w < SHIFT_LIMIT -> 0 <= x < 2 ^ w -> 0 <= y < 2 ^ w ->
  si_wrapped_cardinality x y w = Ok ((y - x) mod 2 ^ w + 1).
Proof.
  intros Hw Hx Hy. unfold si_wrapped_cardinality.
  rewrite !pow_ok by lia. cbn [bind]. unfold py_mod.
  pose proof (pow_pos w ltac:(lia)) as Hn. set (n := 2 ^ w) in *.
  destruct (n =? 0) eqn:E; [lia|]. cbn [bind].
  destruct (x =? (y + 1) mod n) eqn:E1.
  - f_equal. apply Z.eqb_eq in E1.
    destruct (Z.eq_dec (y + 1) n) as [Hy1|Hy1].
    + rewrite Hy1, Z.mod_same in E1 by lia. subst x. rewrite Z.sub_0_r, Z.mod_small; lia.
    + rewrite Z.mod_small in E1 by lia. subst x.
      replace (y - (y + 1)) with (-1) by lia. rewrite mod_minus; lia.
  - f_equal. apply Z.eqb_neq in E1. fold n. unfold n at 1. rewrite land_mask by lia. fold n.
    destruct (Z_lt_le_dec y x) as [Hlt|Hle].
    + rewrite (mod_minus n (y - x)) by lia.
      destruct (Z.eq_dec (y + 1) x) as [Hyx|Hyx].
      * exfalso. apply E1. rewrite Z.mod_small; lia.
      * rewrite (mod_minus n (y - x + 1)); lia.
    + rewrite (Z.mod_small (y - x)) by lia.
      destruct (Z.eq_dec (y - x + 1) n) as [Hyx|Hyx].
      * exfalso. apply E1. assert (x = 0) by lia. assert (y + 1 = n) by lia.
        subst x. replace (y + 1) with n by lia. rewrite Z.mod_same; lia.
      * rewrite Z.mod_small; lia.
Qed.

(* ---------- normalize keeps every member ---------- *)

(* a raw record before normalisation: bounds may be any integers *)
Definition rawok (a : si) : Prop := bot a = false /\ 0 < bits a < SHIFT_LIMIT /\ 0 <= stride a.

Lemma span_range a : 0 <= bits a -> 0 <= span a < 2 ^ bits a.
Proof. intros. unfold span. apply Z.mod_pos_bound. apply pow_pos; assumption. Qed.

Lemma normalize_sound a :
  rawok a -> exists r, normalize a = Ok r /\ wf r /\ bits r = bits a /\ (forall x, gamma a x -> gamma r x).
Proof.
  intros (Hb & Hw & Hs). unfold normalize. rewrite Hb.
  rewrite pow_ok by lia. cbn [bind].
  rewrite !land_mask by lia.
  rewrite modular_add_ok by lia. cbn [bind].
  pose proof (pow_pos (bits a) ltac:(lia)) as Hn.
  set (n := 2 ^ bits a) in *.
  pose proof (Z.mod_pos_bound (lb a) n Hn) as Hl.
  pose proof (Z.mod_pos_bound (ub a) n Hn) as Hu.
  set (l := lb a mod n) in *. set (u := ub a mod n) in *.
  assert (Hspan : span a = (u - l) mod n).
  { unfold span, u, l. fold n. rewrite <- Zminus_mod. reflexivity. }
  destruct (l =? u) eqn:Elu.
  - (* singleton *)
    apply Z.eqb_eq in Elu.
    replace ((l =? (u + 1) mod n) && (0 =? 1)) with false by (rewrite andb_false_r; reflexivity).
    cbn [bind fst snd Z.ltb Z.compare].
    eexists. split; [reflexivity|]. split; [|split; [reflexivity|]].
    + unfold wf; cbn [bot bits stride lb ub]. fold n. lia.
    + intros x (_ & k & Hk & Hks & Hx). split; [reflexivity|].
      exists 0. cbn [stride lb ub bits]. unfold span; cbn [lb ub bits]. fold n.
      rewrite Hspan, Elu, Z.sub_diag, Z.mod_0_l in Hks by lia.
      assert (k * stride a = 0) by nia.
      split; [lia|]. split; [pose proof (Z.mod_pos_bound (u - l) n Hn); lia|].
      subst x. rewrite H. rewrite !Z.add_0_r. unfold l. rewrite Z.mod_mod by lia. reflexivity.
  - apply Z.eqb_neq in Elu.
    destruct ((l =? (u + 1) mod n) && (stride a =? 1)) eqn:Etop.
    + (* TOP *)
      apply andb_true_iff in Etop. destruct Etop as [E1 E2].
      apply Z.eqb_eq in E2.
      rewrite max_int_ok by lia. cbn [bind fst snd]. fold n.
      destruct (stride a <? 0) eqn:Es; [lia|].
      eexists. split; [reflexivity|]. split; [|split; [reflexivity|]].
      * unfold wf; cbn [bot bits stride lb ub]. fold n. lia.
      * intros x (_ & k & Hk & Hks & Hx). split; [reflexivity|].
        cbn [stride lb ub bits]. unfold span; cbn [lb ub bits]. fold n.
        assert (Hxr : 0 <= x < n) by (subst x; apply Z.mod_pos_bound; lia).
        exists x. rewrite E2. rewrite Z.sub_0_r, Z.mod_small by lia.
        split; [lia|]. split; [lia|]. rewrite Z.mod_small; lia.
    + cbn [bind fst snd].
      destruct (stride a <? 0) eqn:Es; [lia|].
      eexists. split; [reflexivity|]. split; [|split; [reflexivity|]].
      * unfold wf; cbn [bot bits stride lb ub]. fold n. lia.
      * intros x (_ & k & Hk & Hks & Hx). split; [reflexivity|].
        exists k. cbn [stride lb ub bits]. unfold span; cbn [lb ub bits]. fold n.
        rewrite <- Hspan. split; [lia|]. split; [lia|].
        subst x. fold n. unfold l. rewrite Zplus_mod_idemp_l. reflexivity.
Qed.

Lemma mk_sound w s l u :
  0 < w < SHIFT_LIMIT -> 0 <= s ->
  exists r, mk w s l u = Ok r /\ wf r /\ bits r = w /\ (forall x, gamma (mkSI w s l u false) x -> gamma r x).
Proof.
  intros Hw Hs. unfold mk.
  destruct (normalize_sound (mkSI w s l u false)) as (r & Hr & Hwf & Hb & Hg).
  - unfold rawok; cbn [bot bits stride]. lia.
  - exists r. auto.
Qed.

Lemma wf_rawok a : wf a -> rawok a.
Proof. unfold wf, rawok. tauto. Qed.

Lemma top_sound w :
  0 < w < SHIFT_LIMIT -> exists r, top w = Ok r /\ wf r /\ bits r = w /\ (forall x, 0 <= x < 2 ^ w -> gamma r x).
Proof.
  intros Hw. unfold top. rewrite max_int_ok by lia. cbn [bind].
  destruct (mk_sound w 1 0 (2 ^ w - 1) Hw ltac:(lia)) as (r & Hr & Hwf & Hb & Hg).
  exists r. split; [exact Hr|]. split; [exact Hwf|]. split; [exact Hb|].
  intros x Hx. apply Hg. split; [reflexivity|].
    pose proof (pow_pos w ltac:(lia)).
    exists x. cbn [stride lb ub bits]. unfold span; cbn [lb ub bits].
    rewrite Z.sub_0_r, Z.mod_small by lia. split; [lia|]. split; [lia|].
    rewrite Z.mod_small; lia.
Qed.

(* ---------- the overflow test ---------- *)

Lemma card_ok a :
  wf a -> exists c, card_for_overflow a = Ok c /\
                    (c = span a + 1 \/ (c = 0 /\ span a = 0)).
Proof.
  intros (Hb & Hw & Hs & Hl & Hu). unfold card_for_overflow, is_integer.
  destruct ((lb a =? ub a) && (lb a =? 0)) eqn:E.
  - apply andb_true_iff in E. destruct E as [E1 E2].
    apply Z.eqb_eq in E1. apply Z.eqb_eq in E2.
    exists 0. split; [reflexivity|]. right. split; [reflexivity|].
    unfold span. rewrite <- E1, Z.sub_diag. apply Z.mod_0_l. pose proof (pow_pos (bits a)); lia.
  - rewrite wrapped_cardinality_ok by lia. eexists. split; [reflexivity|]. left. reflexivity.
Qed.

Lemma overflow_ok a b :
  wf a -> wf b -> bits a = bits b ->
  exists o, wrapped_overflow_add a b = Ok o /\ (o = false -> span a + span b < 2 ^ bits a).
Proof.
  intros Ha Hb Hab. unfold wrapped_overflow_add.
  destruct (card_ok a Ha) as (ca & -> & Hca). destruct (card_ok b Hb) as (cb & -> & Hcb).
  cbn [bind]. destruct Ha as (_ & Hw & _). rewrite max_int_ok by lia. cbn [bind].
  eexists. split; [reflexivity|]. intros Ho. apply Z.ltb_ge in Ho.
  pose proof (span_range a ltac:(lia)). pose proof (span_range b ltac:(destruct Hb; lia)).
  rewrite <- Hab in *. lia.
Qed.

(* ---------- membership of a linear offset ---------- *)

Lemma gamma_intro w g l u t v :
  0 <= g -> (g | t) -> 0 <= t <= (u - l) mod 2 ^ w -> v = (l + t) mod 2 ^ w ->
  gamma (mkSI w g l u false) v.
Proof.
  intros Hg [q Hq] Ht Hv. split; [reflexivity|].
  cbn [stride lb ub bits]. unfold span; cbn [lb ub bits].
  destruct (Z.eq_dec g 0) as [Hg0|Hg0].
  - exists 0. subst g. rewrite Z.mul_0_r in Hq. subst t. rewrite Z.mul_0_l. split; [lia|]. split; [lia|]. exact Hv.
  - exists q. assert (0 <= q) by nia. rewrite <- Hq. split; [lia|]. split; [lia|]. exact Hv.
Qed.

Lemma gcd_div_lin sa sb i j : (Z.gcd sa sb | i * sa + j * sb).
Proof.
  apply Z.divide_add_r; apply Z.divide_mul_r; [apply Z.gcd_divide_l | apply Z.gcd_divide_r].
Qed.

(* ---------- add ---------- *)

Theorem add_sound a b x y :
  wf a -> wf b -> bits a = bits b -> gamma a x -> gamma b y ->
  exists r, si_add a b = Ok r /\ wf r /\ bits r = bits a /\ gamma r ((x + y) mod 2 ^ bits a).
Proof.
  intros Ha Hb Hab Gx Gy. unfold si_add.
  rewrite <- Hab. rewrite Z.eqb_refl. cbn [negb]. rewrite Z.max_id.
  destruct (overflow_ok a b Ha Hb Hab) as (o & -> & Ho). cbn [bind].
  pose proof Ha as (_ & Hw & Hsa & Hla & Hua). pose proof Hb as (_ & _ & Hsb & Hlb & Hub).
  pose proof (pow_pos (bits a) ltac:(lia)) as Hn.
  destruct o.
  - destruct (top_sound (bits a) Hw) as (r & Hr & Hwf & Hbits & Hg).
    exists r. repeat split; try apply Hwf; auto. apply Hg. apply Z.mod_pos_bound. lia.
  - specialize (Ho eq_refl).
    rewrite !modular_add_ok by lia. cbn [bind].
    set (n := 2 ^ bits a) in *.
    set (l := (lb a + lb b) mod n). set (u := (ub a + ub b) mod n).
    destruct (mk_sound (bits a) (Z.gcd (stride a) (stride b)) l u Hw (Z.gcd_nonneg _ _))
      as (r1 & -> & Hwf1 & Hb1 & Hg1). cbn [bind].
    destruct (normalize_sound r1 (wf_rawok _ Hwf1)) as (r & Hr & Hwf & Hbits & Hg).
    exists r. split; [exact Hr|]. split; [exact Hwf|]. split; [lia|].
    apply Hg, Hg1.
    destruct Gx as (_ & i & Hi & His & Hx). destruct Gy as (_ & j & Hj & Hjs & Hy).
    pose proof (span_range a ltac:(lia)) as Hra. pose proof (span_range b ltac:(lia)) as Hrb.
    assert (Hsa' : span a = (ub a - lb a) mod n) by reflexivity.
    assert (Hsb' : span b = (ub b - lb b) mod n) by (unfold span; rewrite <- Hab; reflexivity).
    rewrite <- Hab in Hy, Hrb. fold n in Hx, Hy, Hra, Hrb, Ho.
    assert (Hsp : (u - l) mod n = span a + span b).
    { unfold u, l. rewrite <- Zminus_mod.
      replace (ub a + ub b - (lb a + lb b)) with ((ub a - lb a) + (ub b - lb b)) by lia.
      rewrite Zplus_mod, <- Hsa', <- Hsb'. apply Z.mod_small. lia. }
    apply gamma_intro with (t := i * stride a + j * stride b).
    + apply Z.gcd_nonneg.
    + apply gcd_div_lin.
    + fold n. rewrite Hsp. nia.
    + fold n. subst x y. unfold l.
      rewrite <- Zplus_mod. rewrite Zplus_mod_idemp_l. f_equal. lia.
Qed.

(* ---------- sub, neg ---------- *)

(* the upper bound is itself a member (always so for results of add/sub and for user intervals built with a
   matching stride); the bounds computation of sub (si_sub_core) is NOT sound without it: see sub_unaligned_refuted;
   sub itself first replaces the subtrahend's upper bound by its last member (align_ub) *)
Definition aligned (a : si) : Prop := exists m, 0 <= m /\ span a = m * stride a.

Theorem sub_core_sound a b x y :
  wf a -> wf b -> bits a = bits b -> aligned b -> gamma a x -> gamma b y ->
  exists r, si_sub_core a b = Ok r /\ wf r /\ bits r = bits a /\ gamma r ((x - y) mod 2 ^ bits a).
Proof.
  intros Ha Hb Hab (m & Hm & Hal) Gx Gy. unfold si_sub_core.
  rewrite <- Hab. rewrite Z.eqb_refl. cbn [negb]. rewrite Z.max_id.
  destruct (overflow_ok a b Ha Hb Hab) as (o & -> & Ho). cbn [bind].
  pose proof Ha as (_ & Hw & Hsa & Hla & Hua). pose proof Hb as (_ & _ & Hsb & Hlb & Hub).
  pose proof (pow_pos (bits a) ltac:(lia)) as Hn.
  destruct o.
  - destruct (top_sound (bits a) Hw) as (r & Hr & Hwf & Hbits & Hg).
    exists r. repeat split; try apply Hwf; auto. apply Hg. apply Z.mod_pos_bound. lia.
  - specialize (Ho eq_refl).
    rewrite !modular_sub_ok by lia. cbn [bind].
    set (n := 2 ^ bits a) in *.
    set (l := (lb a - ub b) mod n). set (u := (ub a - lb b) mod n).
    destruct (mk_sound (bits a) (Z.gcd (stride a) (stride b)) l u Hw (Z.gcd_nonneg _ _))
      as (r1 & -> & Hwf1 & Hb1 & Hg1). cbn [bind].
    destruct (normalize_sound r1 (wf_rawok _ Hwf1)) as (r & Hr & Hwf & Hbits & Hg).
    exists r. split; [exact Hr|]. split; [exact Hwf|]. split; [lia|].
    apply Hg, Hg1.
    destruct Gx as (_ & i & Hi & His & Hx). destruct Gy as (_ & j & Hj & Hjs & Hy).
    pose proof (span_range a ltac:(lia)) as Hra. pose proof (span_range b ltac:(lia)) as Hrb.
    assert (Hsa' : span a = (ub a - lb a) mod n) by reflexivity.
    assert (Hsb' : span b = (ub b - lb b) mod n) by (unfold span; rewrite <- Hab; reflexivity).
    rewrite <- Hab in Hy, Hrb. fold n in Hx, Hy, Hra, Hrb, Ho.
    assert (Hsp : (u - l) mod n = span a + span b).
    { unfold u, l. rewrite <- Zminus_mod.
      replace (ub a - lb b - (lb a - ub b)) with ((ub a - lb a) + (ub b - lb b)) by lia.
      rewrite Zplus_mod, <- Hsa', <- Hsb'. apply Z.mod_small. lia. }
    apply gamma_intro with (t := i * stride a + (m - j) * stride b).
    + apply Z.gcd_nonneg.
    + apply gcd_div_lin.
    + fold n. rewrite Hsp. nia.
    + fold n. subst x y. unfold l.
      rewrite <- Zminus_mod. rewrite Zplus_mod_idemp_l.
      replace (m - j) with (m + - j) by lia. rewrite Z.mul_add_distr_r, <- Hal, Hsb'.
      replace (lb a - ub b + (i * stride a + ((ub b - lb b) mod n + - j * stride b)))
        with ((ub b - lb b) mod n + (lb a - ub b + i * stride a - j * stride b)) by lia.
      rewrite Zplus_mod_idemp_l. f_equal. lia.
Qed.

(* what the constructor returns for bounds that are already in range *)
Lemma mk_cases w s l u r :
  0 < w < SHIFT_LIMIT -> 0 <= s -> 0 <= l < 2 ^ w -> 0 <= u < 2 ^ w -> mk w s l u = Ok r ->
  (l = u /\ r = mkSI w 0 l u false) \/
  (l <> u /\ s = 1 /\ l = (u + 1) mod 2 ^ w /\ r = mkSI w 1 0 (2 ^ w - 1) false) \/
  (l <> u /\ r = mkSI w s l u false).
Proof.
  intros Hw Hs Hl Hu. unfold mk, normalize. cbn [bot bits lb ub stride].
  rewrite pow_ok by lia. cbn [bind]. rewrite !land_mask by lia.
  rewrite modular_add_ok by lia. cbn [bind].
  rewrite (Z.mod_small l), (Z.mod_small u) by lia.
  destruct (Z.eqb_spec l u) as [Elu|Elu].
  - replace ((l =? (u + 1) mod 2 ^ w) && (0 =? 1)) with false by (rewrite andb_false_r; reflexivity).
    cbn [bind fst snd Z.ltb Z.compare]. intros H; inversion H. left. split; [exact Elu|reflexivity].
  - destruct ((l =? (u + 1) mod 2 ^ w) && (s =? 1)) eqn:E.
    + apply andb_true_iff in E. destruct E as [E1 E2]. apply Z.eqb_eq in E1. apply Z.eqb_eq in E2.
      rewrite max_int_ok by lia. cbn [bind fst snd].
      destruct (s <? 0) eqn:Es; [discriminate|]. intros H; inversion H. right; left. subst s. repeat split; assumption.
    + cbn [bind fst snd]. destruct (s <? 0) eqn:Es; [discriminate|]. intros H; inversion H. right; right. split; [exact Elu|reflexivity].
Qed.

(* an interval whose stride is 0 is a single value *)
Definition proper (b : si) : Prop := stride b = 0 -> lb b = ub b.

(* the first step of sub: same members, and the upper bound is now one of them *)
Lemma align_sound b : wf b -> proper b ->
  exists b', align_ub b = Ok b' /\ wf b' /\ bits b' = bits b /\ aligned b' /\ (forall y, gamma b y -> gamma b' y).
Proof.
  intros Hwf Hp. pose proof Hwf as (Hb & Hw & Hs & Hl & Hu).
  pose proof (pow_pos (bits b) ltac:(lia)) as Hn.
  unfold align_ub. rewrite Hb. cbn [negb]. rewrite andb_true_r.
  destruct (0 <? stride b) eqn:Es.
  - apply Z.ltb_lt in Es.
    rewrite modular_sub_ok by lia. cbn [bind]. unfold py_mod.
    destruct (stride b =? 0) eqn:Ez; [apply Z.eqb_eq in Ez; lia|]. cbn [bind].
    rewrite modular_add_ok by lia. cbn [bind].
    set (n := 2 ^ bits b) in *.
    pose proof (Z.mod_pos_bound (ub b - lb b) n Hn) as Hsp.
    set (sp := (ub b - lb b) mod n) in *.
    pose proof (Z.div_mod sp (stride b) ltac:(lia)) as Hdm.
    pose proof (Z.mod_pos_bound sp (stride b) Es) as Hr.
    assert (Hq : 0 <= sp / stride b) by (apply Z.div_pos; lia).
    set (q := sp / stride b) in *. set (r := sp mod stride b) in *.
    assert (Hspan : span b = sp) by reflexivity.
    assert (Hub : ub b = (lb b + sp) mod n).
    { unfold sp. rewrite Zplus_mod_idemp_r. replace (lb b + (ub b - lb b)) with (ub b) by lia. symmetry. apply Z.mod_small. lia. }
    destruct (Z.eqb_spec ((lb b + (sp - r)) mod n) (ub b)) as [Elast|Elast].
    + (* the upper bound is already the last member *)
      exists b. split; [reflexivity|]. split; [exact Hwf|]. split; [reflexivity|]. split; [|auto].
      exists q. split; [exact Hq|]. rewrite Hspan.
      assert (r = 0).
      { rewrite Hub in Elast.
        assert (Hd : ((lb b + sp) - (lb b + (sp - r))) mod n = 0).
        { rewrite Zminus_mod, <- Elast, Z.sub_diag. apply Z.mod_0_l. lia. }
        replace (lb b + sp - (lb b + (sp - r))) with r in Hd by lia. rewrite Z.mod_small in Hd by lia. exact Hd. }
      nia.
    + set (last := (lb b + (sp - r)) mod n) in *.
      pose proof (Z.mod_pos_bound (lb b + (sp - r)) n Hn) as Hlast. fold last in Hlast.
      destruct (mk_sound (bits b) (stride b) (lb b) last Hw Hs) as (b' & Hb' & Hwf' & Hbits' & Hg').
      exists b'. split; [exact Hb'|]. split; [exact Hwf'|]. split; [exact Hbits'|].
      assert (Hspan' : (last - lb b) mod n = sp - r).
      { unfold last. rewrite Zminus_mod_idemp_l. replace (lb b + (sp - r) - lb b) with (sp - r) by lia. apply Z.mod_small. lia. }
      split.
      * (* aligned *)
        destruct (mk_cases _ _ _ _ _ Hw Hs Hl ltac:(fold n; exact Hlast) Hb') as [[E1 ->]|[(E1 & E2 & E3 & ->)|[E1 ->]]].
        -- exists 0. unfold span; cbn [lb ub bits stride]. fold n. rewrite E1, Z.sub_diag, Z.mod_0_l by lia. lia.
        -- (* stride 1: then r = 0 and last = ub b *) exfalso. assert (r = 0) by lia.
           apply Elast. fold last. unfold last. rewrite Hub. f_equal. lia.
        -- exists q. unfold span; cbn [lb ub bits stride]. fold n. rewrite Hspan'. split; [exact Hq|]. nia.
      * intros y (_ & k & Hk & Hks & Hy). apply Hg'. split; [reflexivity|]. exists k. cbn [stride lb ub bits].
        unfold span; cbn [lb ub bits]. fold n. rewrite Hspan'. rewrite Hspan in Hks.
        split; [exact Hk|]. split; [|exact Hy].
        assert (k <= q) by nia. nia.
  - apply Z.ltb_ge in Es. assert (E0 : stride b = 0) by lia.
    exists b. split; [reflexivity|]. split; [exact Hwf|]. split; [reflexivity|]. split; [|auto].
    exists 0. unfold span. rewrite (Hp E0), Z.sub_diag, Z.mod_0_l by lia. lia.
Qed.

(* sub, as repaired: sound for every subtrahend *)
Theorem sub_sound_proper a b x y :
  wf a -> wf b -> bits a = bits b -> proper b -> gamma a x -> gamma b y ->
  exists r, si_sub a b = Ok r /\ wf r /\ bits r = bits a /\ gamma r ((x - y) mod 2 ^ bits a).
Proof.
  intros Ha Hb Hab Hp Gx Gy. unfold si_sub.
  replace (bits a =? bits b) with true by (symmetry; apply Z.eqb_eq; exact Hab). cbn [negb].
  destruct (align_sound b Hb Hp) as (b' & -> & Hwf' & Hbits' & Hal' & Hg'). cbn [bind].
  exact (sub_core_sound a b' x y Ha Hwf' ltac:(congruence) Hal' Gx (Hg' y Gy)).
Qed.

Lemma aligned_proper b : wf b -> aligned b -> proper b.
Proof.
  intros (_ & Hw & _ & Hl & Hu) (m & _ & Hm) E0. rewrite E0, Z.mul_0_r in Hm. unfold span in Hm.
  pose proof (pow_pos (bits b) ltac:(lia)) as Hn.
  destruct (Z.le_gt_cases (lb b) (ub b)).
  - rewrite Z.mod_small in Hm by lia. lia.
  - rewrite (mod_minus (2 ^ bits b)) in Hm by lia. lia.
Qed.

Theorem sub_sound a b x y :
  wf a -> wf b -> bits a = bits b -> aligned b -> gamma a x -> gamma b y ->
  exists r, si_sub a b = Ok r /\ wf r /\ bits r = bits a /\ gamma r ((x - y) mod 2 ^ bits a).
Proof. intros Ha Hb Hab Hal. exact (sub_sound_proper a b x y Ha Hb Hab (aligned_proper b Hb Hal)). Qed.

Theorem neg_sound a y :
  wf a -> aligned a -> gamma a y ->
  exists r, si_neg a = Ok r /\ wf r /\ bits r = bits a /\ gamma r ((- y) mod 2 ^ bits a).
Proof.
  intros Ha Hal Gy. unfold si_neg.
  pose proof Ha as (_ & Hw & _).
  destruct (mk_sound (bits a) 0 0 0 Hw ltac:(lia)) as (z & -> & Hwfz & Hbz & Hgz). cbn [bind].
  assert (Gz : gamma z 0).
  { apply Hgz. split; [reflexivity|]. exists 0. cbn [stride lb ub bits]. unfold span; cbn [lb ub bits].
    pose proof (pow_pos (bits a) ltac:(lia)). rewrite Z.mod_0_l by lia. split; [lia|]. split; [lia|].
    rewrite Z.mod_0_l; lia. }
  destruct (sub_sound z a 0 y Hwfz Ha Hbz Hal Gz Gy) as (r & Hr & Hwf & Hbits & Hg).
  exists r. rewrite Hbz in *. split; [exact Hr|]. split; [exact Hwf|]. split; [exact Hbits|].
  exact Hg.
Qed.

Theorem neg_sound_proper a y :
  wf a -> proper a -> gamma a y ->
  exists r, si_neg a = Ok r /\ wf r /\ bits r = bits a /\ gamma r ((- y) mod 2 ^ bits a).
Proof.
  intros Ha Hp Gy. unfold si_neg.
  pose proof Ha as (_ & Hw & _).
  destruct (mk_sound (bits a) 0 0 0 Hw ltac:(lia)) as (z & -> & Hwfz & Hbz & Hgz). cbn [bind].
  assert (Gz : gamma z 0).
  { apply Hgz. split; [reflexivity|]. exists 0. cbn [stride lb ub bits]. unfold span; cbn [lb ub bits].
    pose proof (pow_pos (bits a) ltac:(lia)). rewrite Z.mod_0_l by lia. split; [lia|]. split; [lia|].
    rewrite Z.mod_0_l; lia. }
  destruct (sub_sound_proper z a 0 y Hwfz Ha Hbz Hp Gz Gy) as (r & Hr & Hwf & Hbits & Hg).
  exists r. rewrite Hbz in *. split; [exact Hr|]. split; [exact Hwf|]. split; [exact Hbits|].
  exact Hg.
Qed.

(* without the alignment (the pinned rule) sub is unsound when the subtrahend's upper bound is not a member:
   {0} - 2[0,1] at 2 bits is computed as 2[3,0] = {3}, but 0 - 0 = 0; the repaired sub returns {0} *)
Definition sub_unaligned_witness : si * si := (mkSI 2 0 0 0 false, mkSI 2 2 0 1 false).

Theorem sub_unaligned_refuted :
  let '(a, b) := sub_unaligned_witness in
  wf a /\ wf b /\ gamma a 0 /\ gamma b 0 /\
  (exists r, si_sub_core a b = Ok r /\ ~ In ((0 - 0) mod 2 ^ bits a) (members r)) /\
  (exists r, si_sub a b = Ok r /\ In ((0 - 0) mod 2 ^ bits a) (members r)).
Proof.
  unfold sub_unaligned_witness.
  assert (P : 2 ^ 2 = 4) by reflexivity.
  split; [unfold wf; cbn [bot bits stride lb ub]; rewrite P; unfold SHIFT_LIMIT; lia|].
  split; [unfold wf; cbn [bot bits stride lb ub]; rewrite P; unfold SHIFT_LIMIT; lia|].
  split; [split; [reflexivity|]; exists 0; unfold span; cbn [bot bits stride lb ub]; rewrite P; vm_compute; intuition discriminate|].
  split; [split; [reflexivity|]; exists 0; unfold span; cbn [bot bits stride lb ub]; rewrite P; vm_compute; intuition discriminate|].
  split.
  - eexists. split; [vm_compute; reflexivity|]. vm_compute. intros [H|[]]; discriminate.
  - eexists. split; [vm_compute; reflexivity|]. vm_compute. left; reflexivity.
Qed.

(* members is gamma, so "not in members" above is "not in gamma" *)
Lemma members_gamma a x : 0 <= bits a -> 0 <= stride a -> (In x (members a) <-> gamma a x).
Proof.
  intros Hw Hs. unfold members, gamma. destruct (bot a).
  - split; [intros []|intros [H _]; discriminate].
  - destruct (stride a <=? 0) eqn:E.
    + assert (Hs0 : stride a = 0) by lia. rewrite Hs0. split.
      * intros [H|[]]. split; [reflexivity|]. exists 0. pose proof (span_range a Hw).
        rewrite Z.mul_0_r, Z.add_0_r. split; [lia|]. split; [lia|]. auto.
      * intros (_ & k & _ & _ & Hx). rewrite Z.mul_0_r, Z.add_0_r in Hx. left. auto.
    + assert (Hs1 : 0 < stride a) by lia. pose proof (span_range a Hw) as Hr. split.
      * intros H. apply in_map_iff in H. destruct H as (k & Hx & Hk). apply in_seq in Hk.
        split; [reflexivity|]. exists (Z.of_nat k). split; [lia|]. split; [|auto].
        assert (Z.of_nat k <= span a / stride a).
        { assert (0 <= span a / stride a) by (apply Z.div_pos; lia). lia. }
        apply Z.le_trans with (span a / stride a * stride a); [nia|].
        rewrite Z.mul_comm. apply Z.mul_div_le. lia.
      * intros (_ & k & Hk & Hks & Hx). apply in_map_iff. exists (Z.to_nat k).
        rewrite Z2Nat.id by lia. split; [auto|]. apply in_seq.
        assert (k <= span a / stride a) by (apply Z.div_le_lower_bound; lia).
        assert (0 <= span a / stride a) by (apply Z.div_pos; lia). lia.
Qed.

(* ---------- cardinality ---------- *)

Theorem cardinality_exact a :
  wf a -> (lb a <> ub a -> 0 < stride a) ->
  cardinality a = Ok (Z.of_nat (length (members a))).
Proof.
  intros (Hb & Hw & Hs & Hl & Hu) Hred. unfold cardinality, members, is_integer. rewrite Hb.
  pose proof (pow_pos (bits a) ltac:(lia)) as Hn.
  destruct (lb a =? ub a) eqn:E.
  - apply Z.eqb_eq in E. destruct (stride a <=? 0) eqn:E2; [reflexivity|].
    unfold span. rewrite <- E, Z.sub_diag, Z.mod_0_l by lia.
    rewrite Z.div_0_l by lia. reflexivity.
  - apply Z.eqb_neq in E. specialize (Hred E).
    destruct (stride a <=? 0) eqn:E2; [lia|].
    rewrite modular_sub_ok by lia. cbn [bind]. unfold py_floordiv.
    destruct (stride a =? 0) eqn:E3; [lia|].
    rewrite map_length, seq_length. f_equal. fold (span a).
    pose proof (span_range a ltac:(lia)).
    rewrite Z2Nat.id.
    + replace (span a + stride a) with (span a + 1 * stride a) by lia. rewrite Z.div_add by lia. reflexivity.
    + assert (0 <= span a / stride a) by (apply Z.div_pos; lia). lia.
Qed.
