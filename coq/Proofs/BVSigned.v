(* Spec-level facts: the SMT-LIB sign-case definitions of bvsdiv / bvsrem coincide with
   truncated division on two's complement values. *)
From Coq Require Import ZArith Bool Lia.
Require Import CV.Spec.BV CV.Proofs.BVLemmas.
Open Scope Z_scope.

Lemma py_trunc_div a b : b <> 0 ->
  (if 0 <? a * b then a / b else (a + (- a) mod b) / b) = Z.quot a b.
Proof.
  intros Hb. destruct (0 <? a * b) eqn:E.
  - apply Z.ltb_lt in E.
    destruct (Z_lt_le_dec 0 b) as [Hp|Hn].
    + assert (0 < a) by nia. symmetry. apply Z.quot_div_nonneg; lia.
    + assert (a < 0) by nia. assert (b < 0) by lia.
      rewrite <- (Z.div_opp_opp a b) by lia. rewrite <- (Z.quot_opp_opp a b) by lia.
      symmetry. apply Z.quot_div_nonneg; lia.
  - apply Z.ltb_ge in E.
    assert (Hq : (a + (- a) mod b) / b = - ((- a) / b)).
    { pose proof (Z.div_mod (- a) b Hb) as D.
      replace (a + (- a) mod b) with ((- ((- a) / b)) * b) by lia.
      apply Z.div_mul; lia. }
    rewrite Hq.
    destruct (Z_lt_le_dec 0 b) as [Hp|Hn].
    + assert (a <= 0) by nia.
      rewrite <- (Z.quot_div_nonneg (- a) b) by lia. rewrite Z.quot_opp_l by lia. lia.
    + assert (b < 0) by lia. assert (0 <= a) by nia.
      replace ((- a) / b) with (a / (- b)) by (rewrite <- (Z.div_opp_opp a (- b)) by lia; f_equal; lia).
      rewrite <- (Z.quot_div_nonneg a (- b)) by lia. rewrite Z.quot_opp_r by lia. lia.
Qed.

Lemma sval_nonneg w v : 0 < w -> 0 <= v < 2 ^ w -> msb w v = false -> sval w v = v /\ 0 <= v < 2 ^ (w - 1).
Proof.
  unfold msb, sval. intros Hw Hv E. apply Z.leb_gt in E.
  destruct (v <? 2 ^ (w - 1)) eqn:L; [|apply Z.ltb_ge in L; lia]. lia.
Qed.

Lemma sval_neg w v : 0 < w -> 0 <= v < 2 ^ w -> msb w v = true ->
  sval w v = v - 2 ^ w /\ 2 ^ (w - 1) <= v /\ bvneg w v = 2 ^ w - v.
Proof.
  unfold msb, sval, bvneg, wrap. intros Hw Hv E. apply Z.leb_le in E.
  pose proof (pow2_pos (w - 1) ltac:(lia)).
  destruct (v <? 2 ^ (w - 1)) eqn:L; [apply Z.ltb_lt in L; lia|].
  split; [reflexivity|]. split; [lia|].
  symmetry. apply Zmod_unique with (q := -1); lia.
Qed.

Lemma wrap_neg_small w x : 0 <= w -> 0 < x <= 2 ^ w -> wrap w (- x) = 2 ^ w - x.
Proof. intros. unfold wrap. symmetry. apply Zmod_unique with (q := -1); lia. Qed.

Lemma wrap_0 w : 0 <= w -> wrap w 0 = 0.
Proof. intros. unfold wrap. apply Z.mod_0_l. pose proof (pow2_pos w); lia. Qed.

Lemma wrap_opp_opp w x : 0 <= w -> wrap w (- wrap w (- x)) = wrap w x.
Proof.
  intros. unfold wrap. pose proof (pow2_pos w ltac:(lia)).
  rewrite <- (Z.sub_0_l (_ mod _)). rewrite Zminus_mod_idemp_r. f_equal. lia.
Qed.

Theorem bvsdiv_quot w a b : 0 < w -> 0 <= a < 2 ^ w -> 0 <= b < 2 ^ w -> b <> 0 ->
  bvsdiv w a b = wrap w (Z.quot (sval w a) (sval w b)).
Proof.
  intros Hw Ha Hb Hnz. pose proof (pow2_half w Hw) as H2. pose proof (pow2_pos (w - 1) ltac:(lia)) as Hp.
  unfold bvsdiv.
  destruct (msb w a) eqn:Ma; destruct (msb w b) eqn:Mb.
  - destruct (sval_neg w a Hw Ha Ma) as (Sa & La & Na). destruct (sval_neg w b Hw Hb Mb) as (Sb & Lb & Nb).
    rewrite Sa, Sb, Na, Nb. unfold bvudiv.
    destruct (2 ^ w - b =? 0) eqn:E; [apply Z.eqb_eq in E; lia|].
    replace (a - 2 ^ w) with (- (2 ^ w - a)) by lia. replace (b - 2 ^ w) with (- (2 ^ w - b)) by lia.
    rewrite Z.quot_opp_opp by lia. rewrite Z.quot_div_nonneg by lia.
    symmetry. apply wrap_small. pose proof (div_le_self (2 ^ w - a) (2 ^ w - b) ltac:(lia) ltac:(lia)). lia.
  - destruct (sval_neg w a Hw Ha Ma) as (Sa & La & Na). destruct (sval_nonneg w b Hw Hb Mb) as (Sb & Lb).
    rewrite Sa, Sb, Na. unfold bvudiv.
    destruct (b =? 0) eqn:E; [apply Z.eqb_eq in E; lia|].
    replace (a - 2 ^ w) with (- (2 ^ w - a)) by lia.
    rewrite Z.quot_opp_l by lia. rewrite Z.quot_div_nonneg by lia. reflexivity.
  - destruct (sval_nonneg w a Hw Ha Ma) as (Sa & La). destruct (sval_neg w b Hw Hb Mb) as (Sb & Lb & Nb).
    rewrite Sa, Sb, Nb. unfold bvudiv.
    destruct (2 ^ w - b =? 0) eqn:E; [apply Z.eqb_eq in E; lia|].
    replace (b - 2 ^ w) with (- (2 ^ w - b)) by lia.
    rewrite Z.quot_opp_r by lia. rewrite Z.quot_div_nonneg by lia. reflexivity.
  - destruct (sval_nonneg w a Hw Ha Ma) as (Sa & La). destruct (sval_nonneg w b Hw Hb Mb) as (Sb & Lb).
    rewrite Sa, Sb. unfold bvudiv.
    destruct (b =? 0) eqn:E; [apply Z.eqb_eq in E; lia|].
    rewrite Z.quot_div_nonneg by lia. symmetry. apply wrap_small.
    pose proof (div_le_self a b ltac:(lia) ltac:(lia)). lia.
Qed.

Theorem bvsrem_rem w a b : 0 < w -> 0 <= a < 2 ^ w -> 0 <= b < 2 ^ w -> b <> 0 ->
  bvsrem w a b = wrap w (Z.rem (sval w a) (sval w b)).
Proof.
  intros Hw Ha Hb Hnz. pose proof (pow2_half w Hw) as H2. pose proof (pow2_pos (w - 1) ltac:(lia)) as Hp.
  unfold bvsrem.
  destruct (msb w a) eqn:Ma; destruct (msb w b) eqn:Mb.
  - destruct (sval_neg w a Hw Ha Ma) as (Sa & La & Na). destruct (sval_neg w b Hw Hb Mb) as (Sb & Lb & Nb).
    rewrite Sa, Sb, Na, Nb. unfold bvurem.
    destruct (2 ^ w - b =? 0) eqn:E; [apply Z.eqb_eq in E; lia|].
    replace (a - 2 ^ w) with (- (2 ^ w - a)) by lia. replace (b - 2 ^ w) with (- (2 ^ w - b)) by lia.
    rewrite Z.rem_opp_opp by lia. rewrite Z.rem_mod_nonneg by lia. reflexivity.
  - destruct (sval_neg w a Hw Ha Ma) as (Sa & La & Na). destruct (sval_nonneg w b Hw Hb Mb) as (Sb & Lb).
    rewrite Sa, Sb, Na. unfold bvurem.
    destruct (b =? 0) eqn:E; [apply Z.eqb_eq in E; lia|].
    replace (a - 2 ^ w) with (- (2 ^ w - a)) by lia.
    rewrite Z.rem_opp_l by lia. rewrite Z.rem_mod_nonneg by lia. reflexivity.
  - destruct (sval_nonneg w a Hw Ha Ma) as (Sa & La). destruct (sval_neg w b Hw Hb Mb) as (Sb & Lb & Nb).
    rewrite Sa, Sb, Nb. unfold bvurem.
    destruct (2 ^ w - b =? 0) eqn:E; [apply Z.eqb_eq in E; lia|].
    replace (b - 2 ^ w) with (- (2 ^ w - b)) by lia.
    rewrite Z.rem_opp_r by lia. rewrite Z.rem_mod_nonneg by lia.
    symmetry. apply wrap_small. pose proof (Z.mod_pos_bound a (2 ^ w - b) ltac:(lia)). lia.
  - destruct (sval_nonneg w a Hw Ha Ma) as (Sa & La). destruct (sval_nonneg w b Hw Hb Mb) as (Sb & Lb).
    rewrite Sa, Sb. unfold bvurem.
    destruct (b =? 0) eqn:E; [apply Z.eqb_eq in E; lia|].
    rewrite Z.rem_mod_nonneg by lia. symmetry. apply wrap_small.
    pose proof (Z.mod_pos_bound a b ltac:(lia)). lia.
Qed.
