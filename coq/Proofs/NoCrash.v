(* Concrete folding never takes an unrelated Python exception: corollaries of the functional specifications. *)
From Coq Require Import ZArith List.
Require Import CV.Model.PyPrelude CV.Gen.BvConcrete CV.Proofs.BvConcreteProof.
Import ListNotations.
Open Scope Z_scope.

Definition benign {A} (r : res A) : Prop :=
  match r with Ok _ => True | Err ZeroDiv => True | _ => False end.

Section Binary.
Variables a b : bvv.
Hypothesis Ha : wfb a.
Hypothesis Hb : wfb b.
Hypothesis Hw : bbits a = bbits b.
Hypothesis Hp : 0 < bbits a.

Ltac by_spec L := first [rewrite (L a b Ha Hb Hw Hp) | rewrite (L a b Ha Hb Hw) | rewrite (L a b Ha Hb) | rewrite (L a b)]; exact I.
Ltac by_div S Z := destruct (Z.eq_dec (bvalue b) 0) as [E|E];
  [rewrite (Z a b Ha Hb Hw Hp E); exact I | rewrite (S a b Ha Hb Hw Hp E); exact I].

Theorem binary_total :
  benign (bvv___add__ a b) /\ benign (bvv___sub__ a b) /\ benign (bvv___mul__ a b) /\
  benign (bvv___and__ a b) /\ benign (bvv___or__ a b) /\ benign (bvv___xor__ a b) /\
  benign (bvv___floordiv__ a b) /\ benign (bvv___mod__ a b) /\ benign (bv_SDiv a b) /\ benign (bv_SMod a b) /\
  benign (bvv___lshift__ a b) /\ benign (bvv___rshift__ a b) /\ benign (bv_LShR a b) /\
  benign (bv_RotateLeft a b) /\ benign (bv_RotateRight a b) /\
  benign (bvv___eq__ a b) /\ benign (bvv___ne__ a b) /\
  benign (bv_ULT a b) /\ benign (bv_ULE a b) /\ benign (bv_UGT a b) /\ benign (bv_UGE a b) /\
  benign (bv_SLT a b) /\ benign (bv_SLE a b) /\ benign (bv_SGT a b) /\ benign (bv_SGE a b).
Proof.
  repeat split.
  - by_spec add_spec.
  - by_spec sub_spec.
  - by_spec mul_spec.
  - by_spec and_spec.
  - by_spec or_spec.
  - by_spec xor_spec.
  - by_div udiv_spec udiv_zero.
  - by_div urem_spec urem_zero.
  - by_div sdiv_spec sdiv_zero.
  - by_div smod_spec smod_zero.
  - by_spec shl_spec.
  - by_spec ashr_spec.
  - by_spec lshr_spec.
  - by_spec rotate_left_spec.
  - by_spec rotate_right_spec.
  - by_spec eq_spec.
  - by_spec ne_spec.
  - by_spec ult_spec.
  - by_spec ule_spec.
  - by_spec ugt_spec.
  - by_spec uge_spec.
  - by_spec slt_spec.
  - by_spec sle_spec.
  - by_spec sgt_spec.
  - by_spec sge_spec.
Qed.
End Binary.

Theorem unary_total : forall a, wfb a -> benign (bvv___neg__ a) /\ benign (bvv___invert__ a).
Proof. intros a Ha. split; [rewrite (neg_spec a Ha)|rewrite (invert_spec a Ha)]; exact I. Qed.

Theorem resize_total : forall a k hi lo, wfb a -> 0 < bbits a ->
  (0 <= k -> bbits a + k <= SHIFT_LIMIT -> benign (bv_ZeroExt k a) /\ benign (bv_SignExt k a)) /\
  (0 <= lo <= hi -> hi < bbits a -> hi + 2 <= SHIFT_LIMIT -> benign (bv_Extract hi lo a)).
Proof.
  intros a k hi lo Ha Hp. split.
  - intros Hk Hl. split; [rewrite (zeroext_spec k a Ha Hk Hl)|rewrite (signext_spec k a Ha Hp Hk Hl)]; exact I.
  - intros H1 H2 H3. rewrite (extract_spec hi lo a Ha H1 H2 H3). exact I.
Qed.

Theorem concat_total : forall l, Forall wfb l -> total_bits l <= SHIFT_LIMIT -> benign (bv_Concat l).
Proof. intros l Hl Ht. rewrite (concat_spec l Hl Ht). exact I. Qed.
