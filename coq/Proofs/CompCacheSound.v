(* C12: after a child is stored, every merged solver that stays in the cache still combines current children only. *)
From Coq Require Import ZArith List Bool Arith Lia.
Require Import CV.Model.CompCache.
Import ListNotations.

Lemma inter_spec a b : inter a b = true <-> exists x, In x a /\ In x b.
Proof.
  unfold inter. rewrite existsb_exists. split.
  - intros (x & Ha & Hb). apply existsb_exists in Hb as (y & Hy & E). apply Nat.eqb_eq in E. subst. eauto.
  - intros (x & Ha & Hb). exists x. split; [auto|]. apply existsb_exists. exists x. split; [auto|apply Nat.eqb_refl].
Qed.

(* an entry is valid if every child it combined is still a current child (same identity, same version) *)
Definition valid (kids : list child) (e : entry) : Prop := forall k, In k (ekids e) -> In k kids.

Theorem store_keeps_cache_valid kids cache ns :
  Forall (valid kids) cache ->
  Forall (valid (store_child kids ns)) (remove_cached cache (cvars ns)).
Proof.
  intros H. rewrite Forall_forall in *. intros e He. unfold remove_cached in He. apply filter_In in He as [He Hf].
  apply andb_true_iff in Hf as [_ Hf]. apply negb_true_iff in Hf.
  intros k Hk. unfold store_child. right. apply filter_In. split; [apply (H e He k Hk)|].
  apply negb_true_iff. destruct (inter (cvars k) (cvars ns)) eqn:E; [|reflexivity].
  apply inter_spec in E as (x & Hx & Hn).
  assert (Hin : inter (evars e) (cvars ns) = true).
  { apply inter_spec. exists x. split; [|exact Hn]. unfold evars. apply in_flat_map. exists k. auto. }
  congruence.
Qed.

(* with the invalidation of the pinned code an entry survives although one of its children was superseded: the entry was
   requested for {1}, its closure pulled in the child over {2}; storing a new child over {2} leaves it in the cache *)
Theorem pinned_invalidation_refuted : exists kids cache ns,
  Forall (valid kids) cache /\ ~ Forall (valid (store_child kids ns)) (remove_cached_pinned cache (cvars ns)).
Proof.
  set (k1 := mkChild 1 [1; 2] 0). set (k2 := mkChild 2 [2] 0). set (ns := mkChild 2 [2] 1).
  exists [k1; k2], [mkEntry [1] [k1; k2]], ns. split.
  - constructor; [|constructor]. intros k Hk. exact Hk.
  - intros H. cbn in H. inversion H as [|e l Hv _]; subst. specialize (Hv k2 (or_intror (or_introl eq_refl))).
    cbn in Hv. destruct Hv as [E|[]]. discriminate E.
Qed.
