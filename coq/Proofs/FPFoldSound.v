(* C02: the folded double-precision operations are the IEEE-754 binary64 operations (Flocq's formalisation, which is also the
   meaning SMT-LIB gives to fp.add etc.), and computing a single-precision operation in double precision and rounding the
   result to single precision is the single-precision operation (double rounding is innocuous for + - * / sqrt). *)
From Coq Require Import ZArith Reals Floats Bool Lia Lra.
From Flocq Require Import Core BinarySingleNaN Double_rounding.
Require Flocq.IEEE754.PrimFloat.
Require Import CV.Model.FPFold.
Module FP := Flocq.IEEE754.PrimFloat.
Local Existing Instance FP.Hprec.
Local Existing Instance FP.Hmax.

Notation b64 := (binary_float prec emax).
Notation P2B := FP.Prim2B.

(* ---- double precision, round to nearest even ---- *)
Theorem fold_add_ieee a b : P2B (fold_add a b) = Bplus mode_NE (P2B a) (P2B b).
Proof. apply FP.add_equiv. Qed.
Theorem fold_sub_ieee a b : P2B (fold_sub a b) = Bminus mode_NE (P2B a) (P2B b).
Proof. apply FP.sub_equiv. Qed.
Theorem fold_mul_ieee a b : P2B (fold_mul a b) = Bmult mode_NE (P2B a) (P2B b).
Proof. apply FP.mul_equiv. Qed.
Theorem fold_neg_ieee a : P2B (fold_neg a) = Bopp (P2B a).
Proof. apply FP.opp_equiv. Qed.
Theorem fold_abs_ieee a : P2B (fold_abs a) = Babs (P2B a).
Proof. apply FP.abs_equiv. Qed.
Theorem fold_lt_ieee a b : fold_lt a b = Bltb (P2B a) (P2B b).
Proof. apply FP.ltb_equiv. Qed.
Theorem fold_le_ieee a b : fold_le a b = Bleb (P2B a) (P2B b).
Proof. apply FP.leb_equiv. Qed.
Theorem fold_eq_ieee a b : fold_eq a b = Beqb (P2B a) (P2B b).
Proof. apply FP.eqb_equiv. Qed.
Theorem fold_is_nan_ieee a : fold_is_nan a = is_nan (P2B a).
Proof. apply FP.is_nan_equiv. Qed.

Lemma P2B_nan : P2B nan = B754_nan.
Proof. rewrite FP.nan_equiv. apply FP.Prim2B_B2Prim. Qed.
Lemma P2B_inf : P2B infinity = B754_infinity false.
Proof. rewrite FP.infinity_equiv. apply FP.Prim2B_B2Prim. Qed.
Lemma P2B_ninf : P2B neg_infinity = B754_infinity true.
Proof. rewrite FP.neg_infinity_equiv. apply FP.Prim2B_B2Prim. Qed.

(* the special-casing of a zero divisor (Python raises there) is exactly IEEE-754 division *)
Theorem fold_div_ieee a b : P2B (fold_div a b) = Bdiv mode_NE (P2B a) (P2B b).
Proof.
  unfold fold_div. rewrite FP.is_zero_equiv.
  destruct (P2B b) as [sb|sb| |sb mb eb Bb] eqn:Eb;
    try (rewrite FP.div_equiv, Eb; reflexivity).
  (* b = +-0 *)
  unfold divide_by_zero. rewrite FP.is_zero_equiv, FP.is_nan_equiv, !FP.get_sign_equiv, Eb.
  destruct (P2B a) as [sa|sa| |sa ma ea Ba]; cbn [BinarySingleNaN.is_nan orb Bsign Bdiv];
    try (apply P2B_nan);
    destruct sa, sb; cbn [xorb]; first [apply P2B_inf | apply P2B_ninf].
Qed.

(* ... which the code before the repair was not: 0/0 *)
Theorem fold_div_pinned_refuted : exists a b, P2B (fold_div_pinned a b) <> Bdiv mode_NE (P2B a) (P2B b).
Proof.
  exists 0%float, 0%float. rewrite <- FP.div_equiv. intros H. apply FP.Prim2B_inj in H. apply (f_equal PrimFloat.is_nan) in H. vm_compute in H. discriminate H.
Qed.

(* math.sqrt raises for negative arguments; answering NaN there is IEEE-754's square root *)
Theorem fold_sqrt_ieee a : P2B (fold_sqrt a) = Bsqrt mode_NE (P2B a).
Proof.
  unfold fold_sqrt. rewrite FP.ltb_equiv. rewrite <- FP.sqrt_equiv.
  assert (H0 : P2B 0 = B754_zero false) by (change 0%float with PrimFloat.zero; rewrite FP.zero_equiv; apply FP.Prim2B_B2Prim).
  rewrite H0. destruct (Bltb (P2B a) (B754_zero false)) eqn:E; [|reflexivity].
  rewrite FP.sqrt_equiv, P2B_nan.
  destruct (P2B a) as [sa|sa| |sa ma ea Ba]; try discriminate E.
  - destruct sa; [reflexivity|discriminate E].
  - destruct sa; [reflexivity|]. unfold Bltb, SpecFloat.SFltb in E. cbn in E. discriminate E.
Qed.

(* ---- single precision computed in double precision ---- *)
(* binary32: 24 bits, emin = -149; binary64: 53 bits, emin = -1074.  x, y range over the real numbers representable in
   binary32; rounding is to nearest, ties to even.  (Overflow to infinity, the sign of zero and the special values are the
   same decision on the rounded real in both computations; they are not part of this statement.) *)
Definition fexp32 := FLT_exp (-149) 24.
Definition fexp64 := FLT_exp (-1074) 53.
Definition rnd32 (x : R) : R := round radix2 fexp32 ZnearestE x.
Definition rnd64 (x : R) : R := round radix2 fexp64 ZnearestE x.
Definition is32 (x : R) : Prop := FLT_format radix2 (-149) 24 x.

Local Instance p24 : Prec_gt_0 24. Proof. unfold Prec_gt_0. lia. Qed.
Local Instance p53 : Prec_gt_0 53. Proof. unfold Prec_gt_0. lia. Qed.

Theorem float_add_via_double x y : is32 x -> is32 y -> rnd32 (rnd64 (x + y)) = rnd32 (x + y).
Proof. intros Hx Hy. apply (round_round_plus_FLT radix2 (-149) 24 (-1074) 53); auto; lia. Qed.

Theorem float_sub_via_double x y : is32 x -> is32 y -> rnd32 (rnd64 (x - y)) = rnd32 (x - y).
Proof. intros Hx Hy. apply (round_round_minus_FLT radix2 (-149) 24 (-1074) 53); auto; lia. Qed.

Theorem float_mul_via_double x y : is32 x -> is32 y -> rnd32 (rnd64 (x * y)) = rnd32 (x * y).
Proof. intros Hx Hy. apply (round_round_mult_FLT radix2 ZnearestE (-149) 24 (-1074) 53); auto; lia. Qed.

Theorem float_div_via_double x y : is32 x -> is32 y -> y <> 0%R -> rnd32 (rnd64 (x / y)) = rnd32 (x / y).
Proof.
  intros Hx Hy Hn. apply (round_round_div_FLT radix2 (-149) 24 (-1074) 53); auto; try lia.
  exists 1%Z. reflexivity.
Qed.

Theorem float_sqrt_via_double x : is32 x -> rnd32 (rnd64 (R_sqrt.sqrt x)) = rnd32 (R_sqrt.sqrt x).
Proof. intros Hx. apply (round_round_sqrt_FLT radix2 (-149) 24 (-1074) 53); auto; lia. Qed.

(* the hypotheses are satisfiable: 1.5 and 2^24 + 2 are single-precision reals (the second is the kind of operand for which
   a sum computed in double precision is not a single-precision real before the final rounding) *)
Example is32_example : is32 (3 / 2)%R /\ is32 16777218%R.
Proof.
  split.
  - apply (FLT_spec radix2 (-149) 24 _ (Float radix2 3 (-1))); [unfold F2R; cbn; lra|cbn; lia|cbn; lia].
  - apply (FLT_spec radix2 (-149) 24 _ (Float radix2 8388609 1)); [unfold F2R; cbn; lra|cbn; lia|cbn; lia].
Qed.
