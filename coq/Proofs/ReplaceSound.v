(* C13: with the default settings the replacement frontend is exact: the actual frontend holds constraints with exactly the
   models of what was added, and every query is about an expression that has the asked expression's value in each of them. *)
From Coq Require Import ZArith List Bool Lia.
Require Import CV.Model.PyPrelude CV.Model.Ast CV.Model.Build CV.Model.Rewrite CV.Model.Frontend CV.Model.Replace
               CV.Proofs.AstLemmas CV.Proofs.BuildSound CV.Proofs.RewriteSound.
Import ListNotations.
Open Scope Z_scope.

Definition map_ok (rho : env) (m : list (expr * expr)) : Prop :=
  forall k v, In (k, v) m -> wfe k -> wfe v /\ elen v = elen k /\ eval rho v = eval rho k.

Definition RInv (s : rstate) : Prop :=
  Forall wfe (rorig s) /\
  (forall rho, models rho (rcs s) = models rho (rorig s)) /\
  (forall rho, models rho (rcs s) = true -> map_ok rho (rmap s)).

Lemma models_app rho a b : models rho (a ++ b) = models rho a && models rho b.
Proof. unfold models. apply forallb_app. Qed.

Lemma models_one rho c : models rho [c] = holds rho c.
Proof. unfold models. cbn. apply andb_true_r. Qed.

Lemma holds_eval_eq rho a b : eval rho a = eval rho b -> holds rho a = holds rho b.
Proof. unfold holds. intros ->. reflexivity. Qed.

(* the derived replacement is implied by the constraint it is derived from *)
Lemma derive_sound rho c k v : wfe c -> derive c = Some (k, v) -> holds rho c = true ->
  wfe k -> wfe v /\ elen v = elen k /\ eval rho v = eval rho k.
Proof.
  intros Hw Hd Hh Hk. unfold derive in Hd.
  destruct c as [| | | |op ints args len]; try discriminate.
  destruct op; try discriminate; destruct ints; try discriminate.
  - (* == *)
    destruct args as [|a [|b [|? ?]]]; try discriminate.
    apply wfe_node in Hw as [Hargs Hty].
    assert (Wa : wfe a) by (inversion Hargs; auto). assert (Wb : wfe b) by (inversion Hargs as [|? ? _ H']; inversion H'; auto).
    unfold holds in Hh. cbn [eval map sequence] in Hh.
    destruct (eval rho a) as [va|] eqn:Ea; [|discriminate]. destruct (eval rho b) as [vb|] eqn:Eb; [|discriminate].
    assert (Hsame : va = vb /\ elen a = elen b).
    { cbn in Hh.
      destruct (eval_wf rho a Wa) as (va' & Ea' & [La _]). rewrite Ea in Ea'. inversion Ea'; subst va'.
      destruct (eval_wf rho b Wb) as (vb' & Eb' & [Lb _]). rewrite Eb in Eb'. inversion Eb'; subst vb'.
      destruct va as [wa xa|ba], vb as [wb xb|bb]; cbn in Hh; try discriminate.
      - destruct (wa =? wb) eqn:Ew; [|discriminate]. apply Z.eqb_eq in Ew. subst.
        destruct (xa =? xb) eqn:Ex; [|discriminate]. apply Z.eqb_eq in Ex. subst. split; [reflexivity|]. cbn in La, Lb. congruence.
      - destruct (Bool.eqb ba bb) eqn:Ex; [|discriminate]. apply Bool.eqb_prop in Ex. subst. split; [reflexivity|]. cbn in La, Lb. congruence. }
    destruct Hsame as [-> Hl].
    destruct (symbolic a && negb (symbolic b)); [inversion Hd; subst; split; [auto|split; congruence]|].
    destruct (symbolic b && negb (symbolic a)); [inversion Hd; subst; split; [auto|split; congruence]|discriminate].
  - (* Not *)
    destruct args as [|a [|? ?]]; try discriminate. inversion Hd; subst.
    apply wfe_node in Hw as [Hargs Hty]. assert (Wa : wfe k) by (inversion Hargs; auto).
    unfold holds in Hh. cbn [eval map sequence] in Hh.
    destruct (eval rho k) as [va|] eqn:Ea; [|discriminate].
    destruct (eval_wf rho k Wa) as (va' & Ea' & [La _]). rewrite Ea in Ea'. inversion Ea'; subst va'.
    destruct va as [|ba]; cbn in Hh; [discriminate|]. destruct ba; [discriminate|].
    split; [exact I|]. split; [cbn in La |- *; congruence|reflexivity].
Qed.

Lemma add_repl_ok rho m kv : map_ok rho m ->
  (wfe (fst kv) -> wfe (snd kv) /\ elen (snd kv) = elen (fst kv) /\ eval rho (snd kv) = eval rho (fst kv)) ->
  map_ok rho (add_repl m kv).
Proof.
  intros Hm Hkv. unfold add_repl. destruct (lookup m (fst kv)); [exact Hm|].
  intros k v [E|Hin]; [destruct kv; inversion E; subst; exact Hkv|apply Hm; exact Hin].
Qed.

Theorem radd_inv s c s' : RInv s -> wfe c -> radd s c = Ok s' -> RInv s'.
Proof.
  intros (Hwo & Hmod & Hmap) Hw H. unfold radd in H.
  destruct (negb (symbolic c)).
  - inversion H; subst; clear H. unfold RInv. cbn [rcs rmap rorig]. split; [|split].
    + apply Forall_app. split; [auto|constructor; auto].
    + intros rho. rewrite !models_app, Hmod. reflexivity.
    + intros rho Hm. rewrite models_app in Hm. apply andb_true_iff in Hm as [Hm _]. apply Hmap. exact Hm.
  - destruct (subst (rmap s) [] c) as [c'| | |] eqn:Es; try discriminate H. cbn [bind] in H. inversion H; subst; clear H.
    unfold RInv. cbn [rcs rmap rorig].
    assert (Hc' : forall rho, models rho (rcs s) = true -> wfe c' /\ elen c' = elen c /\ eval rho c' = eval rho c).
    { intros rho Hm. eapply subst_equiv; [apply Hmap; exact Hm|exact Hw|exact Es]. }
    split; [|split].
    + apply Forall_app. split; [auto|constructor; auto].
    + intros rho. rewrite !models_app, !models_one, <- Hmod.
      destruct (models rho (rcs s)) eqn:Em; [|reflexivity]. cbn [andb].
      apply holds_eval_eq. apply (Hc' rho Em).
    + intros rho Hm. rewrite models_app, models_one in Hm. apply andb_true_iff in Hm as [Hm Hh].
      assert (Hhc : holds rho c = true) by (rewrite <- Hh; symmetry; apply holds_eval_eq; apply (Hc' rho Hm)).
      destruct (derive c) as [[k v]|] eqn:Ed; [|apply Hmap; exact Hm].
      apply add_repl_ok; [apply Hmap; exact Hm|]. cbn [fst snd]. intros Hk. exact (derive_sound rho c k v Hw Ed Hhc Hk).
Qed.

Theorem radd_all_inv cs : forall s s', RInv s -> Forall wfe cs -> radd_all s cs = Ok s' -> RInv s'.
Proof.
  induction cs as [|c r IH]; intros s s' Hi Hw H; cbn [radd_all] in H; [inversion H; subst; exact Hi|].
  inversion Hw; subst. destruct (radd s c) as [s1| | |] eqn:E; try discriminate H. cbn [bind] in H.
  eapply IH; [eapply radd_inv; eauto|auto|exact H].
Qed.

Lemma rblank_inv : RInv rblank.
Proof. split; [constructor|split; [reflexivity|intros rho _ k v []]]. Qed.

(* every query is exact: in every model of what was added, the expression sent to the actual frontend has the value of the
   expression asked about; and the actual frontend's constraints have exactly those models *)
Theorem rquery_exact s e e' : RInv s -> wfe e -> rquery s e = Ok e' ->
  (forall rho, models rho (rcs s) = models rho (rorig s)) /\
  (forall rho, models rho (rorig s) = true -> eval rho e' = eval rho e).
Proof.
  intros (Hwo & Hmod & Hmap) Hw H. split; [exact Hmod|]. intros rho Hm. rewrite <- Hmod in Hm.
  unfold rquery in H. eapply subst_equiv; [apply Hmap; exact Hm|exact Hw|exact H].
Qed.

(* the order of the pinned code is not exact: after add(x + y == 5) the actual frontend holds only True *)
Definition pinned_witness : expr := Node OEq [] [Node OAdd [] [BVS 1 4; BVS 2 4] 4; BVVe 5 4] (-1).

Theorem radd_pinned_refuted : exists s' rho, wfe pinned_witness /\ radd_pinned rblank pinned_witness = Ok s' /\
  models rho (rcs s') = true /\ models rho (rorig s') = false.
Proof.
  eexists. exists (mkEnv (fun _ => 0) (fun _ => false)). split; [|split; [vm_compute; reflexivity|split; vm_compute; reflexivity]].
  cbn. repeat split; try reflexivity; try lia.
Qed.

(* ... while the repaired order keeps it *)
Example radd_witness_kept : exists s', radd rblank pinned_witness = Ok s' /\ rcs s' = [pinned_witness] /\
  rmap s' = [(Node OAdd [] [BVS 1 4; BVS 2 4] 4, BVVe 5 4)].
Proof. eexists. split; [vm_compute; reflexivity|split; reflexivity]. Qed.
