(* Facts behind C05 and C10: free variables, extensionality of the denotation, width accuracy,
   soundness of the cheap truth checks on built expressions. *)
From Coq Require Import ZArith Bool List Lia.
Require Import CV.Model.PyPrelude CV.Model.Ast CV.Model.Build CV.Proofs.AstLemmas CV.Proofs.BuildSound
               CV.Proofs.SimpSound CV.Proofs.TreeSound.
Import ListNotations.
Open Scope Z_scope.

Definition agree (rho rho' : env) (vs : list (bool * Z)) : Prop :=
  forall b n, In (b, n) vs -> if b then boolenv rho n = boolenv rho' n else bvenv rho n = bvenv rho' n.

(* the value of an expression depends only on the variables that occur in it *)
Theorem eval_ext rho rho' e : agree rho rho' (fvars e) -> eval rho e = eval rho' e.
Proof.
  induction e as [n w|v w|n|b|op ints args len IH] using expr_ind2; intros H; cbn [eval].
  - rewrite (H false n (or_introl eq_refl)). reflexivity.
  - reflexivity.
  - rewrite (H true n (or_introl eq_refl)). reflexivity.
  - reflexivity.
  - assert (E : map (eval rho) args = map (eval rho') args).
    { cbn [fvars] in H. induction IH as [|x r Hx Hr IHr]; [reflexivity|]. cbn [map flat_map] in *. f_equal.
      - apply Hx. intros b n Hin. apply H. apply in_or_app. auto.
      - apply IHr. intros b n Hin. apply H. apply in_or_app. auto. }
    rewrite E. reflexivity.
Qed.

(* an expression without variables denotes the same value under every assignment *)
Corollary eval_closed rho rho' e : fvars e = [] -> eval rho e = eval rho' e.
Proof. intros H. apply eval_ext. rewrite H. intros b n []. Qed.

(* symbolic = "has a variable" *)
Lemma symbolic_fvars e : symbolic e = false <-> fvars e = [].
Proof.
  induction e as [n w|v w|n|b|op ints args len IH] using expr_ind2; cbn [symbolic fvars]; try (split; congruence).
  induction IH as [|x r Hx Hr IHr]; cbn [existsb flat_map]; [tauto|].
  rewrite orb_false_iff. rewrite Hx, IHr. split.
  - intros [-> ->]. reflexivity.
  - intros H. apply app_eq_nil in H. exact H.
Qed.

(* width accuracy: the reported length of a built expression is the width of the value of the written tree *)
Theorem width_accurate fuel t e : builds fuel t e ->
  forall rho, exists v, teval rho t = Some v /\ vlen v = elen e.
Proof.
  intros H rho. destruct (builds_sound fuel t e H) as [Hw He].
  destruct (eval_wf rho e Hw) as (v & Ev & [Lv _]). exists v. rewrite <- He. auto.
Qed.

(* depth is one more than the deepest sub-expression *)
Theorem depth_node op ints args len :
  depth (Node op ints args len) = S (fold_right (fun a m => Nat.max (depth a) m) O args).
Proof. reflexivity. Qed.

(* cheap truth checks: the model's is_true / is_false only answer True on the constants *)
Theorem is_true_sound fuel t e : builds fuel t e -> is_true e = true ->
  forall rho, teval rho t = Some (VBool true).
Proof.
  intros H Ht rho. destruct (builds_sound fuel t e H) as [_ He]. rewrite <- He.
  destruct e as [| | |[|]|]; cbn in Ht; try discriminate. reflexivity.
Qed.
Theorem is_false_sound fuel t e : builds fuel t e -> is_false e = true ->
  forall rho, teval rho t = Some (VBool false).
Proof.
  intros H Ht rho. destruct (builds_sound fuel t e H) as [_ He]. rewrite <- He.
  destruct e as [| | |[|]|]; cbn in Ht; try discriminate. reflexivity.
Qed.
