(* conversions between OCaml ints / decimal strings (via zarith) and the extracted Coq numbers.
   This text is appended after `open <Extracted module>` so the constructors resolve there. *)
let rec pos_of_zz (n : ZZ.t) : positive =
  if ZZ.equal n ZZ.one then XH
  else if ZZ.is_even n then XO (pos_of_zz (ZZ.shift_right n 1))
  else XI (pos_of_zz (ZZ.shift_right n 1))
let cz_of_zz (n : ZZ.t) = if ZZ.sign n = 0 then Z0 else if ZZ.sign n > 0 then Zpos (pos_of_zz n) else Zneg (pos_of_zz (ZZ.neg n))
let rec zz_of_pos = function
  | XH -> ZZ.one | XO p -> ZZ.shift_left (zz_of_pos p) 1 | XI p -> ZZ.succ (ZZ.shift_left (zz_of_pos p) 1)
let zz_of_cz = function Z0 -> ZZ.zero | Zpos p -> zz_of_pos p | Zneg p -> ZZ.neg (zz_of_pos p)
let cz_of_string s = cz_of_zz (ZZ.of_string s)
let string_of_cz z = ZZ.to_string (zz_of_cz z)
let rec nat_of_int n = if n <= 0 then O else S (nat_of_int (n - 1))
let rec int_of_nat = function O -> 0 | S n -> 1 + int_of_nat n
