(* driver for the strided-interval model (extracted module Simodel) *)
open Sexp

let a_z z = A (string_of_cz z)
let z_a = function A s -> cz_of_string s | _ -> failwith "int expected"
let exn_s = function ZeroDiv -> "ZeroDiv" | OpErr -> "OpErr" | TypeErr -> "TypeErr" | ValueErr -> "ValueErr"
  | BackendErr -> "BackendErr" | VSAErr -> "VSAErr" | Unmodelled -> "Unmodelled"
let crash_s = function PyZeroDivision -> "ZeroDivisionError" | PyNegShift -> "NegShift" | PyMemory -> "MemoryError"
  | PyAssert -> "AssertionError" | PyType -> "TypeError" | PyOther -> "Other"
let res_sexp f = function
  | Ok x -> L [A "ok"; f x] | Err e -> L [A "err"; A (exn_s e)] | Crash k -> L [A "crash"; A (crash_s k)]
  | OutOfFuel -> L [A "fuel"]

let si_of = function
  | L [w; s; l; u; A b] -> { bits = z_a w; stride = z_a s; lb = z_a l; ub = z_a u; bot = (b = "1") }
  | _ -> failwith "si"
let si_sexp x = L [a_z x.bits; a_z x.stride; a_z x.lb; a_z x.ub; A (if x.bot then "1" else "0")]
let bool_sexp b = A (if b then "1" else "0")

let reg_of = function L [r; a] -> (z_a r, si_of a) | _ -> failwith "region"
let vs_sexp v = L (List.map (fun (r, a) -> L [a_z r; si_sexp a]) v)

let handle = function
  | L [A "add"; a; b] -> res_sexp si_sexp (si_add (si_of a) (si_of b))
  | L [A "sub"; a; b] -> res_sexp si_sexp (si_sub (si_of a) (si_of b))
  | L [A "join"; A smart; a; b] -> res_sexp si_sexp (si_join (smart = "1") (si_of a) (si_of b))
  | L [A "lub"; L l] -> res_sexp si_sexp (si_lub (List.map si_of l))
  | L [A "union"; a; b] -> res_sexp si_sexp (si_union (si_of a) (si_of b))
  | L [A "ucmp"; A op; a; b] ->
    let f = (match op with "ULT" -> si_ult | "ULE" -> si_ule | "UGT" -> si_ugt | "UGE" -> si_uge
      | "SLT" -> si_slt | "SLE" -> si_sle | "SGT" -> si_sgt | "SGE" -> si_sge | _ -> failwith "ucmp") in
    res_sexp (function TT -> A "TT" | TF -> A "TF" | TM -> A "TM") (f (si_of a) (si_of b))
  | L [A "qmax"; A sg; a] -> res_sexp a_z (si_max (sg = "1") (si_of a))
  | L [A "qmin"; A sg; a] -> res_sexp a_z (si_min (sg = "1") (si_of a))
  | L [A "qeval"; A sg; a; A n] -> res_sexp (fun l -> L (List.map a_z l)) (si_eval (sg = "1") (si_of a) (nat_of_int (int_of_string n)))
  | L [A "sbounds"; a] -> res_sexp (fun l -> L (List.map (fun (x, y) -> L [a_z x; a_z y]) l)) (signed_bounds (si_of a))
  | L [A "ubounds"; a] -> res_sexp (fun l -> L (List.map (fun (x, y) -> L [a_z x; a_z y]) l)) (unsigned_bounds (si_of a))
  | L [A "zext"; a; n] -> res_sexp si_sexp (si_zext (si_of a) (z_a n))
  | L [A "not"; a] -> res_sexp si_sexp (si_not (si_of a))
  | L [A "neg"; a] -> res_sexp si_sexp (si_neg (si_of a))
  | L [A "dsis_add"; L s; L t] -> res_sexp (fun r -> L (List.map si_sexp r)) (dsis_add (List.map si_of s) (List.map si_of t))
  | L [A "dsis_sub"; L s; L t] -> res_sexp (fun r -> L (List.map si_sexp r)) (dsis_sub (List.map si_of s) (List.map si_of t))
  | L [A "dsis_not"; L s] -> res_sexp (fun r -> L (List.map si_sexp r)) (dsis_not (List.map si_of s))
  | L [A "dsis_neg"; L s] -> res_sexp (fun r -> L (List.map si_sexp r)) (dsis_neg (List.map si_of s))
  | L [A "vs_add"; L v; c] -> res_sexp vs_sexp (vs_add_z (List.map reg_of v) (si_of c))
  | L [A "vs_sub"; L v; c] -> res_sexp vs_sexp (vs_sub_z (List.map reg_of v) (si_of c))
  | L [A "vunion"; L v; L w] ->
    let tr = function L [r; L ids] -> (z_a r, List.map z_a ids) | _ -> failwith "trace" in
    L (List.map (fun (r, ids) -> L [a_z r; L (List.map a_z ids)]) (vunion_trace (List.map tr v) (List.map tr w)))
  | L [A "mk"; a] -> res_sexp si_sexp (normalize (si_of a))
  | L [A "top"; w] -> res_sexp si_sexp (top (z_a w))
  | L [A "members"; a] -> L (List.map a_z (members (si_of a)))
  | L [A "cardinality"; a] -> res_sexp a_z (cardinality (si_of a))
  | L [A "overflow"; a; b] -> res_sexp bool_sexp (wrapped_overflow_add (si_of a) (si_of b))
  | L (A "helper" :: A name :: args) ->
    let z = List.map z_a args in
    (match name, z with
     | "_modular_add", [a; b; c] -> res_sexp a_z (si_modular_add a b c)
     | "_modular_sub", [a; b; c] -> res_sexp a_z (si_modular_sub a b c)
     | "_modular_mul", [a; b; c] -> res_sexp a_z (si_modular_mul a b c)
     | "highbit", [a] -> res_sexp a_z (si_highbit a)
     | "max_int", [a] -> res_sexp a_z (si_max_int a)
     | "min_int", [a] -> res_sexp a_z (si_min_int a)
     | "signed_max_int", [a] -> res_sexp a_z (si_signed_max_int a)
     | "signed_min_int", [a] -> res_sexp a_z (si_signed_min_int a)
     | "_to_negative", [a; b] -> res_sexp a_z (si_to_negative a b)
     | "upper", [a; b; c] -> res_sexp a_z (si_upper a b c)
     | "lower", [a; b; c] -> res_sexp a_z (si_lower a b c)
     | "_wrapped_cardinality", [a; b; c] -> res_sexp a_z (si_wrapped_cardinality a b c)
     | "_is_msb_zero", [a; b] -> res_sexp bool_sexp (si_is_msb_zero a b)
     | "_is_msb_one", [a; b] -> res_sexp bool_sexp (si_is_msb_one a b)
     | "_get_msb", [a; b] -> res_sexp a_z (si_get_msb a b)
     | "_unsigned_to_signed", [a; b] -> res_sexp a_z (si_unsigned_to_signed a b)
     | "_lex_lte", [a; b; c] -> res_sexp bool_sexp (si_lex_lte a b c)
     | "_lex_lt", [a; b; c] -> res_sexp bool_sexp (si_lex_lt a b c)
     | _ -> failwith ("helper " ^ name))
  | _ -> failwith "unknown command"

let () =
  try
    while true do
      let line = input_line stdin in
      if String.trim line <> "" then begin
        (try print_string (to_string (handle (parse line)))
         with e -> print_string (to_string (L [A "error"; A (Printexc.to_string e)])));
        print_newline ()
      end
    done
  with End_of_file -> ()
