(* minimal S-expressions: atoms and lists; atoms may be double-quoted (backslash escapes the next character) *)
type t = A of string | L of t list

exception Parse_error of string

let parse (s : string) : t =
  let n = String.length s in
  let pos = ref 0 in
  let rec skip () =
    while !pos < n && (s.[!pos] = ' ' || s.[!pos] = '\t' || s.[!pos] = '\n' || s.[!pos] = '\r') do incr pos done
  and item () =
    skip ();
    if !pos >= n then raise (Parse_error "eof");
    match s.[!pos] with
    | '(' ->
      incr pos;
      let acc = ref [] in
      let fin = ref false in
      while not !fin do
        skip ();
        if !pos >= n then raise (Parse_error "unclosed (");
        if s.[!pos] = ')' then (incr pos; fin := true) else acc := item () :: !acc
      done;
      L (List.rev !acc)
    | ')' -> raise (Parse_error "unexpected )")
    | '"' ->
      incr pos;
      let b = Buffer.create 16 in
      let fin = ref false in
      while not !fin do
        if !pos >= n then raise (Parse_error "unclosed string");
        let c = s.[!pos] in
        if c = '"' then (incr pos; fin := true)
        else if c = '\\' && !pos + 1 < n then (Buffer.add_char b s.[!pos + 1]; pos := !pos + 2)
        else (Buffer.add_char b c; incr pos)
      done;
      A (Buffer.contents b)
    | _ ->
      let st = !pos in
      while !pos < n && not (List.mem s.[!pos] [' '; '\t'; '\n'; '\r'; '('; ')']) do incr pos done;
      A (String.sub s st (!pos - st))
  in
  let r = item () in
  skip ();
  if !pos < n then raise (Parse_error "trailing input");
  r

let rec to_buf b = function
  | A s ->
    let needq = s = "" || String.exists (fun c -> c = ' ' || c = '(' || c = ')' || c = '"' || c = '\\') s in
    if needq then begin
      Buffer.add_char b '"';
      String.iter (fun c -> if c = '"' || c = '\\' then Buffer.add_char b '\\'; Buffer.add_char b c) s;
      Buffer.add_char b '"'
    end else Buffer.add_string b s
  | L l ->
    Buffer.add_char b '(';
    List.iteri (fun i x -> if i > 0 then Buffer.add_char b ' '; to_buf b x) l;
    Buffer.add_char b ')'

let to_string x = let b = Buffer.create 64 in to_buf b x; Buffer.contents b
