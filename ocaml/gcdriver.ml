(* driver for the C19 model: runs the extracted Gallina semantics (Gcmodel) *)
open Gcmodel
open Sexp

let rec nat_of_int n = if n <= 0 then O else S (nat_of_int (n - 1))
let rec int_of_nat = function O -> 0 | S n -> 1 + int_of_nat n
let rec int_of_pos = function XH -> 1 | XO p -> 2 * int_of_pos p | XI p -> 2 * int_of_pos p + 1
let int_of_z = function Z0 -> 0 | Zpos p -> int_of_pos p | Zneg p -> - (int_of_pos p)

let choice_of = function
  | "step" -> ChStep | "call" -> ChCall | "finish" -> ChFinish | "raise" -> ChRaise
  | s -> failwith ("choice " ^ s)
let choice_str = function ChStep -> "step" | ChCall -> "call" | ChFinish -> "finish" | ChRaise -> "raise"

let b x = A (if x then "1" else "0")
let i x = A (string_of_int x)

let mode_sexp t = match t.md with
  | Idle -> L [A "idle"; i (int_of_nat t.depth)]
  | InBody -> L [A "body"; i (int_of_nat t.depth)]
  | InEnter pc -> L [A "enter"; i (int_of_nat pc); i (int_of_nat t.depth)]
  | InExit pc -> L [A "exit"; i (int_of_nat pc); i (int_of_nat t.depth)]

let state_sexp st =
  let s = st.sh in
  L [ (match s.lock with None -> A "-" | Some k -> i (int_of_nat k));
      i (int_of_z s.calls); b s.was; b s.gc_on; L (List.map mode_sexp st.thr) ]

let stepG = step enter_prog exit_prog exit_in_finally

let choices = [ChStep; ChCall; ChFinish; ChRaise]

let explore gc0 n maxnest maxstates =
  let tbl = Hashtbl.create 100000 in
  let hash st = Hashtbl.hash_param 200 400 st in
  let q = Queue.create () in
  let st0 = init gc0 (nat_of_int n) in
  let seen st =
    let h = hash st in
    let l = try Hashtbl.find tbl h with Not_found -> [] in
    if List.mem st l then true else (Hashtbl.replace tbl h (st :: l); false) in
  ignore (seen st0);
  Queue.add (st0, []) q;
  let states = ref 1 and trans = ref 0 in
  let bad = ref None in
  (try
    while not (Queue.is_empty q) do
      let (st, path) = Queue.pop q in
      if not (good gc0 st) then (bad := Some (List.rev path); raise Exit);
      if !states < maxstates then
      for k = 0 to n - 1 do
        List.iter (fun c ->
          match stepG (nat_of_int k) c st with
          | None -> ()
          | Some st' ->
            incr trans;
            let deep = List.exists (fun t -> int_of_nat t.depth > maxnest) st'.thr in
            if not deep && not (seen st') then (incr states; Queue.add (st', (k, c) :: path) q))
          choices
      done
    done
  with Exit -> ());
  match !bad with
  | None -> L [A "ok"; i !states; i !trans]
  | Some p -> L [A "bad"; L (List.map (fun (k, c) -> L [i k; A (choice_str c)]) p)]

let handle = function
  | L [A "info"] ->
    L [ L (A "enter_lines" :: List.map (fun x -> i (int_of_nat x)) enter_lines);
        L (A "exit_lines" :: List.map (fun x -> i (int_of_nat x)) exit_lines);
        L [A "exit_in_finally"; b exit_in_finally];
        L [A "enter_before_body"; b enter_before_body];
        L [A "enter_len"; i (List.length enter_prog)]; L [A "exit_len"; i (List.length exit_prog)] ]
  | L [A "run"; A gc0; A n; L sched] ->
    let gc0 = gc0 = "1" in
    let st = ref (init gc0 (nat_of_int (int_of_string n))) in
    let out = ref [] in
    List.iter (function
      | L [A k; A c] ->
        (match stepG (nat_of_int (int_of_string k)) (choice_of c) !st with
         | Some st' -> st := st'; out := L [A "ok"; state_sexp st'; b (good gc0 st')] :: !out
         | None -> out := L [A "skip"; state_sexp !st; b (good gc0 !st)] :: !out)
      | _ -> failwith "sched item") sched;
    L (List.rev !out)
  | L [A "explore"; A gc0; A n; A maxnest; A maxstates] ->
    explore (gc0 = "1") (int_of_string n) (int_of_string maxnest) (int_of_string maxstates)
  | _ -> failwith "unknown command"

let () =
  try
    while true do
      let line = input_line stdin in
      if String.trim line <> "" then begin
        (try print_string (to_string (handle (parse line)))
         with e -> print_string (to_string (L [A "error"; A (Printexc.to_string e)])));
        print_newline ()
      end
    done
  with End_of_file -> ()
