(* driver for the bitvector / AST construction model (extracted module Bvmodel) *)
open Sexp

let ops = [
  "__add__", OAdd; "__sub__", OSub; "__mul__", OMul; "__floordiv__", OUDiv; "__mod__", OURem;
  "SDiv", OSDiv; "SMod", OSMod; "__neg__", ONeg; "__invert__", OInvert; "__and__", OAnd; "__or__", OOr;
  "__xor__", OXor; "__lshift__", OShl; "__rshift__", OAShr; "LShR", OLShr; "RotateLeft", ORotL;
  "RotateRight", ORotR; "Concat", OConcat; "Extract", OExtract; "ZeroExt", OZeroExt; "SignExt", OSignExt;
  "Reverse", OReverse; "__eq__", OEq; "__ne__", ONe; "ULT", OULT; "ULE", OULE; "UGT", OUGT; "UGE", OUGE;
  "SLT", OSLT; "SLE", OSLE; "SGT", OSGT; "SGE", OSGE; "And", OBAnd; "Or", OBOr; "Not", OBNot; "If", OIf ]
let op_of_string s = try List.assoc s ops with Not_found -> failwith ("op " ^ s)
let string_of_op o = fst (List.find (fun (_, x) -> x = o) ops)

let a_z z = A (string_of_cz z)
let z_a = function A s -> cz_of_string s | _ -> failwith "int expected"

let rec expr_of = function
  | L [A "BVS"; n; w] -> BVS (z_a n, z_a w)
  | L [A "BVV"; v; w] -> BVVe (z_a v, z_a w)
  | L [A "BoolS"; n] -> BoolS (z_a n)
  | L [A "BoolV"; A b] -> BoolVe (b = "1")
  | L [A "N"; A op; L ints; L args; len] -> Node (op_of_string op, List.map z_a ints, List.map expr_of args, z_a len)
  | x -> failwith ("expr: " ^ to_string x)
let rec sexp_of_expr = function
  | BVS (n, w) -> L [A "BVS"; a_z n; a_z w]
  | BVVe (v, w) -> L [A "BVV"; a_z v; a_z w]
  | BoolS n -> L [A "BoolS"; a_z n]
  | BoolVe b -> L [A "BoolV"; A (if b then "1" else "0")]
  | Node (op, ints, args, len) -> L [A "N"; A (string_of_op op); L (List.map a_z ints); L (List.map sexp_of_expr args); a_z len]

let exn_s = function ZeroDiv -> "ZeroDiv" | OpErr -> "OpErr" | TypeErr -> "TypeErr" | ValueErr -> "ValueErr"
  | BackendErr -> "BackendErr" | VSAErr -> "VSAErr" | Unmodelled -> "Unmodelled"
let crash_s = function PyZeroDivision -> "ZeroDivisionError" | PyNegShift -> "NegShift" | PyMemory -> "MemoryError"
  | PyAssert -> "AssertionError" | PyType -> "TypeError" | PyOther -> "Other"
let res_sexp f = function
  | Ok x -> L [A "ok"; f x] | Err e -> L [A "err"; A (exn_s e)] | Crash k -> L [A "crash"; A (crash_s k)]
  | OutOfFuel -> L [A "fuel"]

let value_sexp = function
  | Some (VBV (w, v)) -> L [A "bv"; a_z w; a_z v]
  | Some (VBool b) -> L [A "bool"; A (if b then "1" else "0")]
  | None -> L [A "none"]
let value_of = function
  | L [A "bv"; w; v] -> VBV (z_a w, z_a v)
  | L [A "bool"; A b] -> VBool (b = "1")
  | _ -> failwith "value"

let env_of bvs bools =
  let bt = Hashtbl.create 16 and ot = Hashtbl.create 16 in
  List.iter (function L [n; v] -> Hashtbl.replace bt (string_of_cz (z_a n)) (z_a v) | _ -> failwith "env") bvs;
  List.iter (function L [n; A v] -> Hashtbl.replace ot (string_of_cz (z_a n)) (v = "1") | _ -> failwith "env") bools;
  { bvenv = (fun n -> try Hashtbl.find bt (string_of_cz n) with Not_found -> Z0);
    boolenv = (fun n -> try Hashtbl.find ot (string_of_cz n) with Not_found -> false) }

let bvv_of = function L [v; w] -> { bvalue = z_a v; bbits = z_a w } | _ -> failwith "bvv"
let bvv_sexp x = L [a_z x.bvalue; a_z x.bbits]
let bool_sexp b = A (if b then "1" else "0")

let fe_of = function
  | L [L cs; L seen] -> { cs = List.map expr_of cs; seen = List.map expr_of seen }
  | _ -> failwith "fe"
let fe_sexp s = L [L (List.map sexp_of_expr s.cs); L (List.map sexp_of_expr s.seen)]

let ann_of = function
  | L [i; A k] -> (z_a i, (match k with "E" -> KElim | "P" -> KPinned | "R" -> KReloc | _ -> failwith "akind"))
  | _ -> failwith "ann"
let ann_sexp (i, k) = L [a_z i; A (match k with KElim -> "E" | KPinned -> "P" | KReloc -> "R")]
let anode_of = function
  | L [L o; L ku; L r] -> { own = List.map ann_of o; kids_unel = List.map ann_of ku; reloc = List.map ann_of r }
  | _ -> failwith "anode"
let anode_sexp n = L [L (List.map ann_sexp n.own); L (List.map ann_sexp (unel n)); L (List.map ann_sexp n.reloc)]

let fuel = nat_of_int 60

(* the generated concrete functions, by python name *)
let bvfn name args =
  let b2 f = (match args with [a; b] -> res_sexp bvv_sexp (f (bvv_of a) (bvv_of b)) | _ -> failwith "arity") in
  let c2 f = (match args with [a; b] -> res_sexp bool_sexp (f (bvv_of a) (bvv_of b)) | _ -> failwith "arity") in
  let u1 f = (match args with [a] -> res_sexp bvv_sexp (f (bvv_of a)) | _ -> failwith "arity") in
  match name with
  | "__add__" -> b2 bvv___add__ | "__sub__" -> b2 bvv___sub__ | "__mul__" -> b2 bvv___mul__
  | "__mod__" -> b2 bvv___mod__ | "__floordiv__" -> b2 bvv___floordiv__
  | "__radd__" -> b2 bvv___radd__ | "__rsub__" -> b2 bvv___rsub__ | "__rmul__" -> b2 bvv___rmul__
  | "__rmod__" -> b2 bvv___rmod__ | "__rfloordiv__" -> b2 bvv___rfloordiv__
  | "__and__" -> b2 bvv___and__ | "__or__" -> b2 bvv___or__ | "__xor__" -> b2 bvv___xor__
  | "__rand__" -> b2 bvv___rand__ | "__ror__" -> b2 bvv___ror__ | "__rxor__" -> b2 bvv___rxor__
  | "__lshift__" -> b2 bvv___lshift__ | "__rshift__" -> b2 bvv___rshift__
  | "__invert__" -> u1 bvv___invert__ | "__neg__" -> u1 bvv___neg__
  | "__eq__" -> c2 bvv___eq__ | "__ne__" -> c2 bvv___ne__
  | "ULT" -> c2 bv_ULT | "ULE" -> c2 bv_ULE | "UGT" -> c2 bv_UGT | "UGE" -> c2 bv_UGE
  | "SLT" -> c2 bv_SLT | "SLE" -> c2 bv_SLE | "SGT" -> c2 bv_SGT | "SGE" -> c2 bv_SGE
  | "SDiv" -> b2 bv_SDiv | "SMod" -> b2 bv_SMod | "LShR" -> b2 bv_LShR
  | "RotateLeft" -> b2 bv_RotateLeft | "RotateRight" -> b2 bv_RotateRight
  | "Reverse" -> u1 bv_Reverse
  | "ZeroExt" -> (match args with [n; a] -> res_sexp bvv_sexp (bv_ZeroExt (z_a n) (bvv_of a)) | _ -> failwith "arity")
  | "SignExt" -> (match args with [n; a] -> res_sexp bvv_sexp (bv_SignExt (z_a n) (bvv_of a)) | _ -> failwith "arity")
  | "Extract" -> (match args with [h; l; a] -> res_sexp bvv_sexp (bv_Extract (z_a h) (z_a l) (bvv_of a)) | _ -> failwith "arity")
  | "Concat" -> res_sexp bvv_sexp (bv_Concat (List.map bvv_of args))
  | "signed" -> (match args with [a] -> res_sexp a_z (bvv_signed (bvv_of a)) | _ -> failwith "arity")
  | _ -> failwith ("bvfn " ^ name)

let handle = function
  | L [A "mk"; A op; L ints; L args] ->
    res_sexp sexp_of_expr (mk fuel (op_of_string op) (List.map z_a ints) (List.map expr_of args))
  | L [A "eval"; e; L bvs; L bools] -> value_sexp (eval (env_of bvs bools) (expr_of e))
  | L [A "evalop"; A op; L ints; L vals] -> value_sexp (eval_op (op_of_string op) (List.map z_a ints) (List.map value_of vals))
  | L (A "bv" :: A name :: args) -> bvfn name args
  | L [A "enum"; L exprs; L bvvars; L boolvars] ->
    (* all assignments of the given variables (id width) / Boolean ids; for each, the values of exprs *)
    let es = List.map expr_of exprs in
    let bvs = List.map (function L [n; w] -> (string_of_cz (z_a n), int_of_string (string_of_cz (z_a w))) | _ -> failwith "enum") bvvars in
    let bools = List.map (fun n -> string_of_cz (z_a n)) boolvars in
    let bt = Hashtbl.create 16 and ot = Hashtbl.create 16 in
    let env = { bvenv = (fun n -> try Hashtbl.find bt (string_of_cz n) with Not_found -> Z0);
                boolenv = (fun n -> try Hashtbl.find ot (string_of_cz n) with Not_found -> false) } in
    let out = Buffer.create 65536 in
    let rec go_b = function
      | [] ->
        List.iter (fun e ->
          (match eval env e with
           | Some (VBV (_, v)) -> Buffer.add_string out (string_of_cz v)
           | Some (VBool b) -> Buffer.add_string out (if b then "T" else "F")
           | None -> Buffer.add_string out "N");
          Buffer.add_char out ' ') es;
        Buffer.add_char out ';'
      | n :: r -> Hashtbl.replace ot n false; go_b r; Hashtbl.replace ot n true; go_b r in
    let rec go = function
      | [] -> go_b bools
      | (n, w) :: r ->
        for v = 0 to (1 lsl w) - 1 do
          Hashtbl.replace bt n (cz_of_zz (ZZ.of_int v)); go r
        done in
    go bvs;
    A (Buffer.contents out)
  | L [A "extrema"; A is_max; lo; hi; L feas] ->
    (* the model of BackendZ3._extrema against the oracle "some feasible value lies in [a,b]" *)
    let fs = List.map (fun x -> zz_of_cz (z_a x)) feas in
    let probe a b = let a = zz_of_cz a and b = zz_of_cz b in List.exists (fun v -> ZZ.leq a v && ZZ.leq v b) fs in
    let (r, k) = extrema probe (is_max = "1") (z_a lo) (z_a hi) in
    L [a_z r; A (string_of_int (int_of_nat k))]
  | L [A "enumerate"; A n; L order] ->
    (* the model of _batch_eval against an oracle returning the first value of [order] not yet blocked *)
    let vs = List.map (fun x -> string_of_cz (z_a x)) order in
    let pick blocked = (try Some (List.find (fun v -> not (List.mem v blocked)) vs) with Not_found -> None) in
    L (List.map (fun v -> A v) (enumerate pick (nat_of_int (int_of_string n)) []))
  | L [A "subst"; L m; L vs; e] ->
    let m' = List.map (function L [k; v] -> (expr_of k, expr_of v) | _ -> failwith "subst map") m in
    let vs' = List.map (function L [A b; n] -> ((b = "1"), z_a n) | _ -> failwith "subst vars") vs in
    res_sexp sexp_of_expr (subst m' vs' (expr_of e))
  | L [A "replace"; e; o; n] -> res_sexp sexp_of_expr (replace (expr_of e) (expr_of o) (expr_of n))
  | L [A "canon"; e] -> res_sexp (fun (c, r) -> L [a_z c; sexp_of_expr r]) (canonicalize (expr_of e))
  | L [A "ite_cases"; L cs; d] ->
    let cs' = List.map (function L [c; v] -> (expr_of c, expr_of v) | _ -> failwith "cases") cs in
    res_sexp sexp_of_expr (ite_cases (mk fuel) cs' (expr_of d))
  | L [A "ite_dict"; i; L kv; d] ->
    let kv' = List.map (function L [k; v] -> (z_a k, expr_of v) | _ -> failwith "dict") kv in
    res_sexp sexp_of_expr (ite_dict (mk fuel) (nat_of_int 40) (expr_of i) kv' (expr_of d))
  | L [A "rev_ite"; e] ->
    res_sexp (fun l -> L (List.map (fun (c, v) -> L [sexp_of_expr c; sexp_of_expr v]) l))
      (reverse_ite_cases (mk fuel) (nat_of_int 4000) (expr_of e))
  | L [A "chop"; e; b] -> res_sexp (fun l -> L (List.map sexp_of_expr l)) (chop (mk fuel) (expr_of e) (z_a b))
  | L [A "get_bytes"; e; i; n] -> res_sexp sexp_of_expr (get_bytes (mk fuel) (expr_of e) (z_a i) (z_a n))
  | L [A "cache_remove"; L entries; L names] ->
    (* entries: ((key vars) (merged vars)); answer: 1/0 per entry -- does it stay cached after _remove_cached(names)? *)
    let rec nat_of_i n = if n <= 0 then O else S (nat_of_i (n - 1)) in
    let nat_of x = nat_of_i (int_of_string (string_of_cz (z_a x))) in
    let es = List.map (function L [L key; L mv] -> { ekey = List.map nat_of key; ekids = [ { cid = O; cvars = List.map nat_of mv; version = O } ] }
                              | _ -> failwith "cache entry") entries in
    let ns = List.map nat_of names in
    L (List.map (fun e -> A (if List.length (remove_cached [e] ns) = 1 then "1" else "0")) es)
  | L [A "track_run"; L batches; L core_names] ->
    (* constraints are opaque ids with a given name each: ((id name) ...) per add() call; answer: the asserted (name id) list in
       order and the ids that core_of selects for the given names *)
    let tbl = Hashtbl.create 16 in
    let cons = List.map (function L items -> List.map (function L [i; n] -> Hashtbl.replace tbl (string_of_cz (z_a i)) (z_a n); BoolS (z_a i)
                                                                  | _ -> failwith "track item") items
                                | _ -> failwith "track batch") batches in
    let name = function BoolS i -> (try Hashtbl.find tbl (string_of_cz i) with Not_found -> Z0) | _ -> Z0 in
    let st = List.fold_left (fun st b -> track_add name st b) [] cons in
    let id_of = function BoolS i -> a_z i | _ -> A "?" in
    L [L (List.map (fun (n, c) -> L [a_z n; id_of c]) st);
       L (List.map id_of (core_of st (List.map z_a core_names)))]
  | L [A "repl_run"; L adds; L queries] ->
    (* add the constraints one by one; answer: the actual frontend's constraints, the replacement map, the rewritten queries *)
    let rec go s = function
      | [] -> Ok s
      | c :: r -> (match radd s (expr_of c) with Ok s' -> go s' r | Err e -> Err e | Crash k -> Crash k | OutOfFuel -> OutOfFuel) in
    (match go rblank adds with
     | Ok s ->
       L [A "ok"; L (List.map sexp_of_expr s.rcs);
          L (List.map (fun (k, v) -> L [sexp_of_expr k; sexp_of_expr v]) s.rmap);
          L (List.map (fun q -> res_sexp sexp_of_expr (rquery s (expr_of q))) queries)]
     | r -> res_sexp (fun _ -> A "") r)
  | L (A "bal" :: A what :: rest) ->
    let cop_of = function "__eq__" -> CEq | "__ne__" -> CNe | "ULT" -> CULT | "ULE" -> CULE | "UGT" -> CUGT | "UGE" -> CUGE
      | "SLT" -> CSLT | "SLE" -> CSLE | "SGT" -> CSGT | "SGE" -> CSGE | s -> failwith ("cop " ^ s) in
    let cop_s = function CEq -> "__eq__" | CNe -> "__ne__" | CULT -> "ULT" | CULE -> "ULE" | CUGT -> "UGT" | CUGE -> "UGE"
      | CSLT -> "SLT" | CSLE -> "SLE" | CSGT -> "SGT" | CSGE -> "SGE" in
    let bs b = A (if b then "1" else "0") in
    (match what, rest with
     | "simple", [A op; A side; size; k; lmin; lmax] ->
       (match simple_bounds (cop_of op) (side = "1") (z_a size) (z_a k) (z_a lmin) (z_a lmax) with
        | Some ((sat, lo), hi) -> L [A "some"; bs sat; a_z lo; a_z hi] | None -> L [A "none"])
     | "in_bound", [n; mn; mx; x] -> bs (in_bound (z_a n) (z_a mn) (z_a mx) (z_a x))
     | "nonstrict", [A op; size; c] -> let (o, c') = nonstrict (cop_of op) (z_a size) (z_a c) in L [A (cop_s o); a_z c']
     | "zeroext", [A op; z] -> A (cop_s (zeroext_rule (cop_of op) (z_a z)))
     | "reverse", [A op] -> (match reverse_op (cop_of op) with Some o -> A (cop_s o) | None -> A "none")
     | "cmp", [A op; n; x; y] -> bs (cmp (cop_of op) (z_a n) (z_a x) (z_a y))
     | _ -> failwith "bal")
  | L [A (("vsa_convert" | "vsa_aeval") as which); L ann; L tab; L joins; e] ->
    let av = function
      | L [A "si"; w; s; l; u; A b] -> ASI (z_a w, z_a s, z_a l, z_a u, b = "1")
      | L [A "bool"; A t; A f] -> ABool (t = "1", f = "1")
      | x -> failwith ("aval: " ^ to_string x) in
    let av_sexp = function
      | ASI (w, s, l, u, b) -> L [A "si"; a_z w; a_z s; a_z l; a_z u; A (if b then "1" else "0")]
      | ABool (t, f) -> L [A "bool"; A (if t then "1" else "0"); A (if f then "1" else "0")] in
    let ann' = List.map (function L [n; a] -> (z_a n, av a) | _ -> failwith "ann") ann in
    let tab' = List.map (function L [A op; L ints; L args; r] -> (((op_of_string op, List.map z_a ints), List.map av args), av r)
                                | _ -> failwith "tab") tab in
    let joins' = List.map (function L [a; b; r] -> ((av a, av b), av r) | _ -> failwith "joins") joins in
    res_sexp av_sexp (if which = "vsa_aeval" then vsa_aeval ann' tab' joins' (expr_of e)
                      else vsa_convert (mk fuel) ann' tab' joins' (expr_of e))
  | L [A "excavate"; e] -> res_sexp sexp_of_expr (excavate (mk fuel) (expr_of e))
  | L [A "fe_add"; st; L nw] -> fe_sexp (fe_add (fe_of st) (List.map expr_of nw))
  | L [A "fe_merge"; L sts; L conds] ->
    (match List.map fe_of sts with
     | s :: others -> res_sexp fe_sexp (fe_merge (mk fuel) s others (List.map expr_of conds))
     | [] -> failwith "fe_merge")
  | L [A "fe_merge_anc"; st; L conds] -> res_sexp fe_sexp (fe_merge_anc (mk fuel) (fe_of st) (List.map expr_of conds))
  | L [A "fe_combine"; L sts] ->
    (match List.map fe_of sts with s :: others -> fe_sexp (combine_fe s others) | [] -> failwith "fe_combine")
  | L [A "fe_split"; L cs] ->
    let (gs, conc) = split_constraints (List.map expr_of cs) in
    L [L (List.map (fun (vs, idx) ->
            L [L (List.map (fun (b, n) -> L [A (if b then "1" else "0"); a_z n]) vs);
               L (List.map (fun i -> A (string_of_int (int_of_nat i))) idx)]) gs);
       L (List.map sexp_of_expr conc)]
  | L [A "store_run"; L ops] ->
    (* solver 0 starts blank; returns the final store *)
    let op_of = function
      | L [A "add"; A i; L cs] -> SAdd (nat_of_int (int_of_string i), List.map expr_of cs)
      | L [A "branch"; A i; A j] -> SBranch (nat_of_int (int_of_string i), nat_of_int (int_of_string j))
      | L [A "query"; A i] -> SQuery (nat_of_int (int_of_string i))
      | _ -> failwith "sop" in
    let m = List.fold_left (fun m o -> sstep m (op_of o)) [(O, blank)] ops in
    L (List.map (fun (i, s) -> L [A (string_of_int (int_of_nat i)); fe_sexp s]) m)
  | L [A "str_to_int"; A k; A digs] ->
    let ds = List.init (String.length digs) (fun i -> cz_of_zz (ZZ.of_int (Char.code digs.[i] - 48))) in
    a_z (str_to_int (nat_of_int (int_of_string k)) ds)
  | L [A "int_to_str"; A k; v] ->
    A (String.concat "" (List.map string_of_cz (int_to_str (nat_of_int (int_of_string k)) (z_a v))))
  | L [A "annot_handle"; simp; L args] ->
    (match handle_annotations (anode_of simp) (List.map anode_of args) with
     | Some r -> L [A "some"; anode_sexp r]
     | None -> L [A "none"])
  | L [A "annot_build"; L given; L kids] -> anode_sexp (build (List.map ann_of given) (List.map anode_of kids))
  | L [A "enc_int"; v] -> L (List.map a_z (enc_int (z_a v)))
  | L [A "dec_int"; L bs] -> a_z (dec_int (List.map z_a bs))
  | L [A "hc_body"; L args; L anns; len] ->
    let bl = function L bs -> List.map z_a bs | _ -> failwith "bytes" in
    L (List.map a_z (body (List.map bl args) (List.map bl anns) (match len with L [] -> None | l -> Some (bl l))))
  | L [A "comp_check"; L kids; L unch; A uns; A roundtrip] ->
    (* children are given as (id satisfiable?) ; the oracle reads the flag back *)
    let ch = List.map (function L [A i; A b] -> (nat_of_int (int_of_string i), [BoolVe (b = "1")]) | _ -> failwith "kid") kids in
    let c = { children = ch; unchecked = List.map (function A i -> nat_of_int (int_of_string i) | _ -> failwith "id") unch; unsat_flag = (uns = "1") } in
    let c = if roundtrip = "1" then setstate (getstate c) else c in
    let sat = function [BoolVe b] -> b | _ -> true in
    L [A (if check sat c then "1" else "0"); A (if exact sat c then "1" else "0")]
  | L [A "z3_batch_eval"; A n; L outcomes; L frames] ->
    (* outcomes: per check "1" sat, "0" unsat, "x" gives up; frames: number of assertions per frame, top first *)
    let outs = Array.of_list (List.map (function A "1" -> Some true | A "0" -> Some false | _ -> None) outcomes) in
    let chk k = let i = int_of_nat k in if i < Array.length outs then outs.(i) else Some false in
    let st = List.map (function A c -> List.init (int_of_string c) (fun _ -> O) | _ -> failwith "frame") frames in
    let (o, st') = batch_eval (nat_of_int (int_of_string n)) chk st in
    L [(match o with Values k -> A (string_of_int (int_of_nat k)) | GaveUp -> A "gaveup");
       L (List.map (fun f -> A (string_of_int (List.length f))) st')]
  | L (A "str" :: A fn :: args) ->
    let sv = function L cs -> List.map z_a cs | _ -> failwith "str" in
    let ss l = L (List.map a_z l) in
    (match fn, args with
     | "substr", [st; cnt; s] -> ss (substr (z_a st) (z_a cnt) (sv s))
     | "replace", [s; p; r] -> ss (replace1 (sv s) (sv p) (sv r))
     | "len", [s] -> a_z (strlen (sv s))
     | "contains", [s; t] -> bool_sexp (contains (sv s) (sv t))
     | "prefixof", [t; s] -> bool_sexp (prefixof (sv t) (sv s))
     | "suffixof", [t; s] -> bool_sexp (suffixof (sv t) (sv s))
     | "indexof", [s; t; i] -> a_z (indexof (sv s) (sv t) (z_a i))
     | "to_int", [s] -> a_z (to_int (sv s))
     | "from_int", [v] -> ss (from_int (z_a v))
     | _ -> failwith "str fn")
  | L [A "tls_run"; L reqs] ->
    let rq = List.map (function L [A t; A e] -> (nat_of_int (int_of_string t), nat_of_int (int_of_string e)) | _ -> failwith "req") reqs in
    let (os, _) = run (fun _ -> []) rq in
    L (List.map (fun o -> L [A (string_of_int (int_of_nat o.o_ctx)); A (string_of_int (int_of_nat o.o_expr))]) os)
  | L [A "fe_split_fe"; st] -> L (List.map fe_sexp (split_fe (fe_of st)))
  | L [A "meta"; e] ->
    let x = expr_of e in
    L [A (if symbolic x then "1" else "0"); A (string_of_int (int_of_nat (depth x))); a_z (elen x)]
  | _ -> failwith "unknown command"

let () =
  try
    while true do
      let line = input_line stdin in
      if String.trim line <> "" then begin
        (try print_string (to_string (handle (parse line)))
         with e -> print_string (to_string (L [A "error"; A (Printexc.to_string e)])));
        print_newline ()
      end
    done
  with End_of_file -> ()
