"""C04: building and folding well-typed expressions never crashes.

Proof: Props/C04.v -- every concrete folding function generated from backend_concrete/bv.py returns a value or the documented
division-by-zero error for all well-formed operands of all widths (corollaries of the C01 specifications).
Tie: bv.py is re-translated on every run; each generated function is run against the real one on boundary operands and must
end in the same class (value / claripy error / never a crash).
Search: well-typed operation programs and rule templates whose constants are drawn from boundary values (2^w-1, 2^(w-1),
2^63, 2^64-1, w, w+-1, 0) are built on the real claripy under a time and memory limit: every step must return an expression
or raise a claripy error; where the construction model covers the step it must end in the same class.
"""
from __future__ import annotations

import collections
import json
import random
import resource
import signal
import sys

from common import KERNEL_TB, REPO, Driver, Report, build_driver, check_props, coq_make, regen_all, scan_forbidden
from c01 import BV_DRIVER, BIN_FNS, CMP_FNS, TEMPLATE_RULES, model_bv_call, real_bv_call, template_program

PROP = "C04"
EXT_WIDTHS = [1, 2, 3, 7, 8, 9, 16, 31, 32, 33, 48, 63, 64, 65, 96, 127, 128, 129, 256, 1024]


class Hang(Exception):
    pass


def _alarm(signum, frame):
    raise Hang()


def extreme(w, rng):
    m = (1 << w) - 1
    pool = [0, 1, 2, m, m - 1, 1 << (w - 1), (1 << (w - 1)) - 1, (1 << (w - 1)) + 1, w, w - 1, w + 1, 2 * w, (1 << 63), (1 << 64) - 1,
            (1 << 64), (1 << 40), (1 << 32) - 1, (1 << 31), 0xFF, 0xFFFF0000, 1 << rng.randrange(w), rng.getrandbits(w)]
    return rng.choice(pool) & m


def extreme_bv_cases(rng, n):
    cases = []
    for _ in range(n):
        w = rng.choice(EXT_WIDTHS)
        a, b = extreme(w, rng), extreme(w, rng)
        r = rng.random()
        if r < 0.6:
            cases.append((rng.choice(BIN_FNS + CMP_FNS), [(a, w), (b, w)]))
        elif r < 0.7:
            cases.append((rng.choice(["__invert__", "__neg__", "signed"]), [(a, w)]))
        elif r < 0.8:
            hi = rng.choice([0, w - 1, rng.randrange(w)])
            lo = rng.choice([0, hi, rng.randrange(hi + 1)])
            cases.append(("Extract", [hi, lo, (a, w)]))
        elif r < 0.9:
            cases.append((rng.choice(["ZeroExt", "SignExt"]), [rng.choice([0, 1, 7, 64, w, 1000]), (a, w)]))
        else:
            w2 = rng.choice([1, 8, 64, 65])
            cases.append(("Concat", [(a, w), (extreme(w2, rng), w2)] + ([(b, w)] if rng.random() < 0.3 else [])))
    return cases


def extreme_program(rng, gen):
    """a TreeGen program whose constants are boundary values"""
    import astio
    steps = gen.program(rng.randrange(4, 14))
    out = []
    for st in steps:
        if st[0] == "leaf" and st[1] == "BVV" and rng.random() < 0.8:
            out.append(("leaf", "BVV", [], [extreme(st[4], rng)], st[4]))
        else:
            out.append(st)
    return out


def extra_templates(rng):
    """shapes that reach particular simplifier branches, with boundary constants"""
    S = []
    w = rng.choice([8, 16, 32, 64, 65])

    def leaf(nm, ww=None):
        S.append(("leaf", "BVS", [], ["%s_%d" % (nm, ww or w)], ww or w))
        return len(S) - 1

    def boolleaf(nm):
        S.append(("leaf", "BoolS", [], [nm], -1))
        return len(S) - 1

    def c(v, ww=None):
        ww = ww or w
        S.append(("leaf", "BVV", [], [v & ((1 << ww) - 1)], ww))
        return len(S) - 1

    def op(o, ints, refs, ww):
        S.append(("op", o, ints, refs, ww))
        return len(S) - 1

    x, y = leaf("x"), leaf("y")
    b1, b2 = boolleaf("p"), boolleaf("q")
    kind = rng.choice(["rot_mask", "and_eq_ne", "shift_chain", "cmp_chain", "ext_chain", "if_consts", "or_eq", "concat_extract"])
    k1, k2, k3 = extreme(w, rng), extreme(w, rng), extreme(w, rng)
    if kind == "rot_mask":
        ww = rng.choice([32, 64])
        r = leaf("r", ww)
        sl = op("__lshift__", [], [r, c(extreme(ww, rng), ww)], ww)
        sr = op("LShR", [], [r, c(extreme(ww, rng), ww)], ww)
        o = op("__or__", [], [sl, sr], ww)
        op("__and__", [], [o, c(rng.choice([0xFFFF, 0xFFFFFFFF, extreme(ww, rng), (1 << ww) - 1]), ww)], ww)
    elif kind in ("and_eq_ne", "or_eq"):
        top = "And" if kind == "and_eq_ne" else "Or"
        e1 = op(rng.choice(["__eq__", "__ne__"]), [], [x, c(k1)], -1)
        e2 = op(rng.choice(["__eq__", "__ne__"]), [], [x, c(k2)], -1)
        e3 = op(rng.choice(["__eq__", "__ne__", "ULT"]), [], [y, c(k3)], -1)
        n1 = op("Not", [], [b1], -1)
        order = [e1, e2] + rng.sample([e3, b1, n1, b2], rng.choice([1, 2, 3]))
        if rng.random() < 0.3:
            rng.shuffle(order)
        acc = order[0]
        if rng.random() < 0.5:
            for t in order[1:]:
                acc = op(top, [], [acc, t], -1)
        else:
            inner = op(top, [], order[:2], -1)
            op(top, [], [inner] + order[2:], -1)
    elif kind == "shift_chain":
        a = op(rng.choice(["__lshift__", "LShR", "__rshift__"]), [], [x, c(k1)], w)
        a = op(rng.choice(["__lshift__", "LShR", "__rshift__", "RotateLeft", "RotateRight"]), [], [a, c(k2)], w)
        op(rng.choice(["__eq__", "ULT", "SGE"]), [], [a, c(k3)], -1)
    elif kind == "cmp_chain":
        a = op(rng.choice(["__add__", "__sub__", "__xor__", "__and__"]), [], [x, c(k1)], w)
        e = op(rng.choice(["__eq__", "__ne__", "ULT", "ULE", "UGT", "UGE", "SLT", "SLE", "SGT", "SGE"]), [], [a, c(k2)], -1)
        i = op("If", [], [e, c(k3), c(k1)], w)
        op(rng.choice(["__eq__", "__ne__"]), [], [i, c(rng.choice([k3, k1, k2]))], -1)
    elif kind == "ext_chain":
        n = rng.choice([0, 1, 8, 64, w])
        a = op(rng.choice(["ZeroExt", "SignExt"]), [n], [x], w + n)
        hi = rng.choice([w + n - 1, w - 1, 0, rng.randrange(w + n)])
        lo = rng.choice([0, hi, rng.randrange(hi + 1)])
        e = op("Extract", [hi, lo], [a], hi - lo + 1)
        op(rng.choice(["__eq__", "ULT"]), [], [e, c(extreme(hi - lo + 1, rng), hi - lo + 1)], -1)
    elif kind == "if_consts":
        i = op("If", [], [b1, c(k1), c(k2)], w)
        j = op(rng.choice(["__add__", "__and__", "__lshift__", "__floordiv__", "SMod"]), [], [i, c(k3)], w)
        op("Extract", [0, 0], [j], 1)
    else:
        cc = op("Concat", [], [x, y], 2 * w)
        hi = rng.choice([2 * w - 1, w, w - 1, 0])
        lo = rng.choice([0, w, hi, w - 1])
        if lo > hi:
            lo = hi
        op("Extract", [hi, lo], [cc], hi - lo + 1)
    return S


def main(tier, seed, replay=None):
    sys.path.insert(0, REPO)
    import astio
    import claripy
    import claripy.backends.backend_concrete.bv as bv
    rep = Report(PROP, tier, seed)
    rng = random.Random(seed)
    if replay:
        r = json.load(open(replay))
        print("replay file records:", json.dumps(r, default=str)[:1500])
        return 1
    try:
        resource.setrlimit(resource.RLIMIT_AS, (6 << 30, 6 << 30))
    except (ValueError, OSError):
        pass
    regen_all()
    ok_make, log = coq_make(["Proofs/NoCrash.vo"])
    pr = check_props(PROP) if ok_make else {"ok": False, "obligations": [
        {"name": "C04_*", "closed": False, "axioms": ["<does not compile>"], "ok": False}], "log": log[-3000:]}
    rep.obligations(pr, "make Proofs/NoCrash.vo && coqc -R coq CV coq/Props/C04.v (Print Assumptions)")
    forb = scan_forbidden()
    proof_ok = pr["ok"] and not forb
    okd, dlog = build_driver(*BV_DRIVER)
    stats = collections.Counter()
    fail = mismatch = None
    drv = Driver("bvdriver") if okd else None
    signal.signal(signal.SIGALRM, _alarm)
    if drv is not None:
        # ---------- (1) the generated folding functions on boundary operands ----------
        for (f, args) in extreme_bv_cases(rng, 1500 if tier == "quick" else 40000):
            try:
                signal.alarm(20)
                real = real_bv_call(bv, f, args)
            except Hang:
                real = ("crash", "hang")
            finally:
                signal.alarm(0)
            mod = model_bv_call(drv, f, args)
            stats["fold_" + real[0]] += 1
            rep.count(("fold", f, tuple(map(str, args))))
            if real[0] == "crash" and fail is None:
                fail = {"what": "concrete folding raised %s" % real[1], "function": f,
                        "args": [list(a) if isinstance(a, tuple) else a for a in args]}
            if real[0] != mod[0] and not (real[0] in ("ok", "okb", "oki") and mod[0] in ("ok", "okb", "oki")) and mismatch is None:
                mismatch = {"kind": "generated function ends differently from the source", "function": f,
                            "args": [list(a) if isinstance(a, tuple) else a for a in args], "real": real, "generated": mod}
        # ---------- (2) programs with boundary constants ----------
        gen = astio.TreeGen(rng, widths=[1, 2, 8, 16, 32, 33, 64, 65, 128])
        nprog = 260 if tier == "quick" else 12000
        for it in range(nprog):
            if fail:
                break
            r = rng.random()
            if r < 0.4:
                steps = extreme_program(rng, gen)
            elif r < 0.65:
                steps = template_program(rng, rng.choice(TEMPLATE_RULES))
                steps = [("leaf", "BVV", [], [extreme(st[4], rng)], st[4]) if (st[0] == "leaf" and st[1] == "BVV" and rng.random() < 0.6) else st
                         for st in steps]
            else:
                steps = extra_templates(rng)
            names = astio.Names()
            real, sers = [], []
            rep.count(("prog", seed, it))
            for idx, st in enumerate(steps):
                if st[0] == "leaf":
                    a = astio.make_leaf(st)
                    real.append(("ok", a))
                    sers.append(astio.ser(a, names))
                    continue
                _, op, ints, refs, w = st
                if any(real[x][0] != "ok" for x in refs):
                    real.append(("skip", None))
                    sers.append(None)
                    continue
                args = [real[x][1] for x in refs]
                try:
                    signal.alarm(20)
                    res = ("ok", astio.apply_op(op, ints, args))
                except Hang:
                    res = ("crash", "hang (20 s)")
                except MemoryError:
                    res = ("crash", "MemoryError")
                except Exception as ex:  # noqa
                    res = astio.classify_exc(ex)
                finally:
                    signal.alarm(0)
                real.append(res)
                stats["step_" + res[0]] += 1
                if res[0] == "crash":
                    fail = {"what": "building %s raised %s (not a claripy error)" % (op, res[1]), "op": op, "ints": ints,
                            "operands": [str(a) for a in args], "program": [list(map(str, s)) for s in steps[:idx + 1]]}
                    break
                try:
                    sres = astio.ser(res[1], names) if res[0] == "ok" else None
                except astio.Unser:
                    sres = None
                sers.append(sres)
                sargs = [sers[x] for x in refs]
                if any(x is None for x in sargs):
                    continue
                m = drv.ask(["mk", op, ints, sargs])
                if m[0] == "err" and m[1] == "Unmodelled":
                    stats["unmodelled"] += 1
                    continue
                stats["modelled"] += 1
                same_class = (m[0] == "ok" and res[0] == "ok") or (m[0] == "err" and res[0] == "err")
                if not same_class and mismatch is None:
                    mismatch = {"kind": "construction model ends differently from the implementation", "op": op, "ints": ints,
                                "operands": [str(a) for a in args], "claripy": str(res[1]) if res[0] == "ok" else list(res), "model": m}
    rep.cov["rule"] = ("(1) the 44 generated folding functions on boundary operands (0, 1, 2^w-1, 2^(w-1)+-1, w, w+-1, 2w, 2^63, 2^64, 2^64-1, 2^40) at "
                       "widths 1..1024: same ending as the real function, never a non-claripy exception, 20 s limit; (2) random operation programs, the "
                       "C01 rule templates and eight extra shapes (rotate-shift-mask, n-ary And/Or over ==/!= with Boolean leaves, shift chains, "
                       "comparison-of-If, extension/extraction chains, Concat/Extract) with boundary constants: each construction step must return an "
                       "expression or raise a claripy error, under a 20 s / 6 GB limit; the construction model must end in the same class where it "
                       "covers the step")
    rep.cov["histogram"] = dict(stats)
    rep.cov["traces_validated_against_impl"] = (stats["modelled"] + sum(v for k, v in stats.items() if k.startswith("fold_"))) if not mismatch else 0
    if fail:
        rep.violation(fail)
    elif not proof_ok or mismatch or drv is None:
        rep.violation({"broken": {"obligations_not_discharged": [o for o in pr["obligations"] if not o["ok"]], "forbidden": forb,
                                  "model_mismatch": mismatch, "driver": None if okd else dlog[-800:],
                                  "coq_log_tail": pr.get("log", "")[-1200:]},
                       "note": "theorem or correspondence no longer checks; no crashing input was found"}, found_input=False)
    if drv:
        drv.close()
    rep.cov["trusted_base"] = KERNEL_TB + [
        "Print Assumptions of Props/C04.v theorems: Closed under the global context",
        "proved: totality of the generated folding functions (all widths, all operands). NOT proved: that the simplifiers, "
        "operations.op and Base.__new__ do not raise -- tested on boundary-constant programs only",
        "floats and strings are not covered by this check",
    ]
    rep.assumptions = ["widths below the resource limit SHIFT_LIMIT = 2^24"]
    return rep.finish("proof")
