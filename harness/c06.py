"""C06: structurally equal expressions are one object; different ones never merge.

Proof: Props/C06.v -- the integer encoding of the hash-consing key round-trips and the framing of nodes with expression
arguments, annotation hashes and optional length is decodable (hence injective).
Tie: the extracted encoders run next to Base._arg_serialize / Base._ast_serialize on boundary integers and on real nodes.
Search: a large pool of expressions built through every construction path (operators, low-level constructors, make_like,
annotate/remove, replace) with near-miss requests (swapped integer arguments, equal values at different widths, constants
around 2^61 and 2^63, annotations differing in content only): the object returned for a request must carry exactly the
requested operation, arguments, width and annotations, and two live objects with the same of these must be one object.
"""
from __future__ import annotations

import collections
import json
import random
import sys

from common import KERNEL_TB, REPO, Driver, Report, build_driver, check_props, coq_make, known_findings, regen_all, scan_forbidden
from c01 import BV_DRIVER

PROP = "C06"
INTS = [0, 1, -1, 2, -2, 127, 128, -128, -129, 255, 256, -255, -256, 32767, 32768, -32768, -32769, 65535, 65536,
        (1 << 31) - 1, 1 << 31, -(1 << 31), (1 << 61) - 2, (1 << 61) - 1, 1 << 61, (1 << 61) + 1, (1 << 62), (1 << 63) - 1, 1 << 63,
        -(1 << 63), (1 << 64) - 1, 1 << 64, (1 << 64) + 1, 2 * ((1 << 61) - 1), 3 * ((1 << 61) - 1) + 5, (1 << 127) - 1, 1 << 128,
        0x3c3e, 0x3e3c, 0x3c, 0x3e, 0x28, 0x29, 0x7b, 0x7d, 15, 31, 46]


def main(tier, seed, replay=None):
    sys.path.insert(0, REPO)
    import claripy
    from claripy.ast.base import Base
    rep = Report(PROP, tier, seed)
    rng = random.Random(seed)
    if replay:
        r = json.load(open(replay))
        print("replay file records:", json.dumps(r, default=str)[:1500])
        return 1
    regen_all()
    ok_make, log = coq_make(["Proofs/HashConsSound.vo"])
    pr = check_props(PROP) if ok_make else {"ok": False, "obligations": [
        {"name": "C06_*", "closed": False, "axioms": ["<does not compile>"], "ok": False}], "log": log[-3000:]}
    rep.obligations(pr, "make Proofs/HashConsSound.vo && coqc -R coq CV coq/Props/C06.v (Print Assumptions)")
    forb = scan_forbidden()
    proof_ok = pr["ok"] and not forb
    okd, dlog = build_driver(*BV_DRIVER)
    stats = collections.Counter()
    kf = {f["site"]: f for f in known_findings(PROP)}
    fail = mismatch = None
    drv = Driver("bvdriver") if okd else None

    class T(claripy.Annotation):
        """content-bearing annotation; hash and equality by content"""
        def __init__(self, n, elim=True, reloc=False):
            self.n, self._e, self._r = n, elim, reloc

        @property
        def eliminatable(self):
            return self._e

        @property
        def relocatable(self):
            return self._r

        def __hash__(self):
            return hash(self.n)

        def __eq__(self, o):
            return type(o) is T and (o.n, o._e, o._r) == (self.n, self._e, self._r)

        def __repr__(self):
            return "T(%r)" % (self.n,)

    def bad(what, **kw):
        nonlocal fail
        site = kw.pop("site", None)
        if site and site in kf:
            rep.known(kf[site], what + " -- " + kf[site]["text"][:140])
            return
        if fail is None:
            fail = {"what": what}
            fail.update({k: (v if isinstance(v, (int, list, dict, type(None))) else str(v)) for k, v in kw.items()})

    if drv is not None:
        # ---------- (1) the encoders ----------
        ints = list(INTS) + [rng.randrange(-(1 << k), 1 << k) for k in (8, 16, 60, 62, 64, 100, 300) for _ in range(6)]
        for z in ints:
            real = list(Base._arg_serialize(z))
            m = [int(x) for x in drv.ask(["enc_int", z])]
            back = int(drv.ask(["dec_int", m]))
            stats["enc_int"] += 1
            if real != m or back != z:
                mismatch = {"kind": "model/implementation mismatch", "function": "_arg_serialize(int)", "value": z, "real": real, "model": m}
                break
        live = []   # keep everything alive: the cache is weak
        x8, y8, x16, p, q = (claripy.BVS("hx8", 8, explicit_name=True), claripy.BVS("hy8", 8, explicit_name=True),
                             claripy.BVS("hx16", 16, explicit_name=True), claripy.BoolS("hp", explicit_name=True), claripy.BoolS("hq", explicit_name=True))
        for _ in range(60 if tier == "quick" else 1500):
            if mismatch:
                break
            args = [rng.choice([x8, y8, x16, x8 + y8, p, claripy.And(p, q)]) for _ in range(rng.randrange(1, 4))]
            anns = tuple(T(rng.choice(INTS[:20])) for _ in range(rng.randrange(0, 3)))
            length = rng.choice([None, 8, 16, 40, 60, 62])
            op = rng.choice(["__add__", "Concat", "If", "And", "foo"])
            real = Base._ast_serialize(op, tuple(args), anns, length)
            pre = b"{" + op.encode()
            assert real.startswith(pre) and real.endswith(b"}")
            body = list(real[len(pre):-1])
            m = [int(v) for v in drv.ask(["hc_body", [list(a._hash.to_bytes(8, "little")) for a in args],
                                          [list(hash(a).to_bytes(8, "little", signed=True)) for a in anns],
                                          [] if length is None else list(length.to_bytes(8, "little"))])]
            stats["frame"] += 1
            if body != m:
                mismatch = {"kind": "model/implementation mismatch", "function": "_ast_serialize", "op": op, "real": body, "model": m}
        # ---------- (2) requests against the table ----------
        table = {}    # key -> object

        def key_of(o):
            return (type(o).__name__, o.op, tuple((("ast", id(a)) if isinstance(a, Base) else (type(a).__name__, a)) for a in o.args), o.length if hasattr(o, "length") else None,
                    tuple(sorted((repr(a), a.eliminatable, a.relocatable) for a in o.annotations)))

        def note(o, how):
            live.append(o)
            k = key_of(o)
            if k in table and table[k] is not o:
                bad("two live expressions have the same operation, arguments, width and annotations but are different objects",
                    first=table[k], second=o, built_by=how, annotations=str(o.annotations))
            table.setdefault(k, o)

        def request(cls, op, args, length, anns, how):
            """the low-level constructor: no rewriting, so the result must be exactly what was asked for"""
            kw = {}
            if length is not None:
                kw["length"] = length
            if anns:
                kw["annotations"] = anns
            o = cls(op, args, **kw)
            stats["requests"] += 1
            same = (o.op == op and len(o.args) == len(args) and all((a is b) if isinstance(b, Base) else (type(a) is type(b) and a == b)
                                                                    for a, b in zip(o.args, args))
                    and (length is None or o.length == length))
            want_anns = set(anns) | {r for a in args if isinstance(a, Base) for r in a._relocatable_annotations}
            if same and set(o.annotations) != want_anns:
                same = False
            if not same:
                collide = any(hash(a) == hash(b) and a != b for a in o.annotations for b in anns)
                bad("the expression returned for a request differs from the request", site="annotation_hash_collision" if collide else None,
                    requested="%s%r len=%s anns=%s" % (op, tuple(args), length, anns),
                    returned="%s%r len=%s anns=%s" % (o.op, o.args, getattr(o, "length", None), o.annotations), built_by=how)
            note(o, how)
            return o

        pool_bv8 = [x8, y8]
        pool_bv16 = [x16]
        pool_bool = [p, q]
        iters = 700 if tier == "quick" else 30000
        for it in range(iters):
            if fail:
                break
            rep.count(("req", seed, it))
            k = rng.random()
            if k < 0.22:
                # constants: equal values at different widths, values around 2^61 / 2^63 / 2^64
                w = rng.choice([1, 8, 16, 61, 62, 63, 64, 65, 128, 130])
                v = rng.choice(INTS) & ((1 << w) - 1)
                if rng.random() < 0.5:
                    o = claripy.BVV(v, w)
                    if o.args != (v, w) or o.length != w:
                        bad("BVV returned another constant", requested=[v, w], returned=str(o.args))
                    note(o, "BVV")
                else:
                    request(claripy.ast.BV, "BVV", (v, w), w, (), "BV('BVV')")
            elif k < 0.40:
                a = rng.choice(pool_bv16 + pool_bv8)
                w = a.length
                hi = rng.randrange(w)
                lo = rng.randrange(hi + 1)
                if rng.random() < 0.5:
                    request(claripy.ast.BV, "Extract", (hi, lo, a), hi - lo + 1, (), "BV('Extract')")
                    if lo != hi and hi - (hi - lo) >= 0:
                        request(claripy.ast.BV, "Extract", (hi - lo + lo, lo, a), hi - lo + 1, (), "BV('Extract')")
                else:
                    n = rng.choice([0, 1, 8, w, 256, 257])
                    request(claripy.ast.BV, rng.choice(["ZeroExt", "SignExt"]), (n, a), w + n, (), "BV('ZeroExt')")
            elif k < 0.62:
                pool = rng.choice([pool_bv8, pool_bv16])
                a, b = rng.choice(pool), rng.choice(pool)
                op = rng.choice(["__add__", "__sub__", "__mul__", "__and__", "__xor__", "Concat"])
                ln = a.length + b.length if op == "Concat" else a.length
                o = request(claripy.ast.BV, op, (a, b), ln, (), "BV(op)")
                if op != "Concat" and len(pool) < 40:
                    pool.append(o)
                if rng.random() < 0.3:
                    request(claripy.ast.BV, op, (b, a), ln, (), "BV(op) swapped")
                if rng.random() < 0.3:
                    o2 = o.make_like(op, (a, b), length=ln)
                    if o2 is not o:
                        bad("make_like with the same operation and arguments returned another object", first=o, second=o2)
            elif k < 0.75:
                a, b = rng.choice(pool_bv8), rng.choice(pool_bv8)
                o = request(claripy.ast.Bool, rng.choice(["__eq__", "ULT", "SLE"]), (a, b), None, (), "Bool(op)")
                if len(pool_bool) < 30:
                    pool_bool.append(o)
                request(claripy.ast.Bool, rng.choice(["And", "Or"]), tuple(rng.choice(pool_bool) for _ in range(rng.choice([2, 3]))), None, (), "Bool(And)")
            else:
                # annotations that differ in content only; the same annotation applied twice; removal
                base = rng.choice(pool_bv8 + pool_bool)
                n1 = rng.choice([1, 2, 3, 7, 1 << 61, (1 << 61) - 1, 0, 5])
                n2 = rng.choice([n1, n1 + 1, 4])
                a1, a2 = T(n1), T(n2)
                o1 = base.annotate(a1)
                o2 = base.annotate(a2)
                note(o1, "annotate")
                note(o2, "annotate")
                if a1 == a2 and o1 is not o2:
                    bad("the same annotation on the same expression gave two objects", expression=base)
                if a1 != a2 and o1 is o2:
                    bad("expressions that differ only in annotation content were conflated",
                        site="annotation_hash_collision" if hash(a1) == hash(a2) else None, a=str(a1), b=str(a2), expression=base)
                if set(o1.annotations) != set(base.annotations) | {a1}:
                    bad("annotate() returned an expression with other annotations than asked for",
                        site="annotation_hash_collision" if any(hash(a1) == hash(z) and a1 != z for z in o1.annotations) else None,
                        expression=base, wanted=str(a1), got=str(o1.annotations))
                if set(o1.annotations) == set(base.annotations) | {a1}:
                    o3 = o1.annotate(a1)
                    note(o3, "annotate twice")
                    o4 = o1.remove_annotation(a1)
                    note(o4, "remove_annotation")
                    if not base.annotations and o4 is not base:
                        bad("removing the only annotation did not give back the original object", expression=base)
        # colliding Python hashes of different annotations (-1 / -2): conflated on the pinned tree
        if not fail:
            o1, o2 = x8.annotate(T(-1)), y8.annotate(T(-1))
            c1, c2 = x8.annotate(T(-1)), x8.annotate(T(-2))
            live.extend([o1, o2, c1, c2])
            if c1 is c2:
                bad("expressions that differ only in annotation content (T(-1) vs T(-2), equal Python hashes) were conflated",
                    site="annotation_hash_collision")
    rep.cov["rule"] = ("(1) Base._arg_serialize on boundary integers (0, +-2^7.., 2^61-1, 2^61, 2^63, 2^64, byte patterns of the framing characters) and "
                       "Base._ast_serialize on random nodes against the extracted encoders; (2) requests through the low-level constructors, BVV, "
                       "make_like, annotate/remove_annotation: constants of equal value at different widths and around 2^61/2^63/2^64, Extract / "
                       "ZeroExt / SignExt with near-miss integer arguments, swapped operands, n-ary Boolean nodes, annotations differing in content "
                       "only and applied twice; every returned object must carry exactly the request, and equal (operation, arguments, width, "
                       "annotations) must mean one object")
    rep.cov["histogram"] = dict(stats)
    rep.cov["traces_validated_against_impl"] = stats["enc_int"] + stats["frame"] if not mismatch else 0
    if fail:
        rep.violation(fail)
    elif not proof_ok or mismatch or drv is None:
        rep.violation({"broken": {"obligations_not_discharged": [o for o in pr["obligations"] if not o["ok"]], "forbidden": forb,
                                  "model_mismatch": mismatch, "driver": None if okd else dlog[-800:],
                                  "coq_log_tail": pr.get("log", "")[-1200:]},
                       "note": "theorem or correspondence no longer checks; no conflated or duplicated expression was found"}, found_input=False)
    if drv:
        drv.close()
    rep.cov["trusted_base"] = KERNEL_TB + [
        "Print Assumptions of Props/C06.v theorems: Closed under the global context",
        "Model/HashCons.v is hand-written (byte lists) and tied by comparing encodings; blake2b (64-bit digest), the Python hash of "
        "annotation objects and the weak-value table are oracles; nodes mixing integer/string/float/tuple arguments are tested only",
    ]
    rep.assumptions = ["no collision of the 64-bit blake2b digest among live expressions"]
    return rep.finish("proof")
