"""C26: values extracted from models are values the expression actually takes.

Proof: Props/C26.v -- the decimal numeral codec between claripy and Z3 (int_to_str_unlimited / str_to_int_unlimited /
_abstract_bv_val) is the identity for every value and chunk size; the values returned by the enumeration loop and the
optimum search are feasible for every truthful oracle.
Tie: the extracted codec runs next to the real functions (module chunk size patched to small and large values).
Search: solvers over bitvectors of width 1..256 whose variables range over explicit candidate sets of boundary values, so
that the feasible set is known exactly by evaluating the constraints with the extracted SMT-LIB evaluator; every value
returned by eval / batch_eval / min / max (signed and unsigned), with and without model completion, must be feasible.
"""
from __future__ import annotations

import collections
import itertools
import json
import random
import sys

from common import KERNEL_TB, REPO, Driver, Report, build_driver, check_props, coq_make, regen_all, scan_forbidden
from c01 import BV_DRIVER

PROP = "C26"
WIDTHS = [1, 2, 7, 8, 31, 32, 63, 64, 65, 66, 71, 96, 100, 127, 128, 129, 200, 256]


def tosigned(v, w):
    return v - (1 << w) if v >= (1 << (w - 1)) else v


def main(tier, seed, replay=None):
    sys.path.insert(0, REPO)
    import astio
    import claripy
    import claripy.backends.backend_z3 as bz3
    rep = Report(PROP, tier, seed)
    rng = random.Random(seed)
    if replay:
        r = json.load(open(replay))
        print("replay file records:", json.dumps(r, default=str)[:1500])
        return 1
    regen_all()
    ok_make, log = coq_make(["Proofs/NumeralSound.vo", "Proofs/SolveProof.vo"])
    pr = check_props(PROP) if ok_make else {"ok": False, "obligations": [
        {"name": "C26_*", "closed": False, "axioms": ["<does not compile>"], "ok": False}], "log": log[-3000:]}
    rep.obligations(pr, "make Proofs/NumeralSound.vo && coqc -R coq CV coq/Props/C26.v (Print Assumptions)")
    forb = scan_forbidden()
    proof_ok = pr["ok"] and not forb
    okd, dlog = build_driver(*BV_DRIVER)
    stats = collections.Counter()
    fail = mismatch = None
    drv = Driver("bvdriver") if okd else None
    if drv is not None:
        # ---------- (1) the codec ----------
        try:
            sys.set_int_max_str_digits(0)
        except AttributeError:
            pass
        saved = bz3.INT_STRING_CHUNK_SIZE
        try:
            for it in range(60 if tier == "quick" else 1500):
                k = rng.choice([1, 2, 3, 7, 19, 640, 4300])
                nd = rng.choice([1, 2, 3, 5, 19, 20, 21, 64, 639, 640, 641, 1300, 4299, 4300, 4301, 9000])
                v = rng.choice([0, 1, 9, 10, 10 ** (nd - 1), 10 ** nd - 1, rng.randrange(10 ** (nd - 1), 10 ** nd)])
                bz3.INT_STRING_CHUNK_SIZE = k
                s_real = bz3.int_to_str_unlimited(v)
                v_real = bz3.str_to_int_unlimited(str(v))
                s_model = drv.ask(["int_to_str", k, v])
                v_model = int(drv.ask(["str_to_int", k, str(v)]))
                stats["codec_cases"] += 1
                if s_real != str(v) or v_real != v:
                    fail = {"what": "the numeral codec is not the identity", "chunk": k, "value": str(v)[:80] + "...", "digits": len(str(v)),
                            "int_to_str_unlimited": s_real[:80], "str_to_int_unlimited": str(v_real)[:80]}
                    break
                if s_model != s_real or v_model != v_real:
                    mismatch = {"kind": "model/implementation mismatch", "function": "numeral codec", "chunk": k, "digits": len(str(v))}
                    break
            # negative numerals and the empty string (the model covers non-negative numerals only)
            for v in (-1, -10 ** 30, -(10 ** 700) + 3):
                bz3.INT_STRING_CHUNK_SIZE = 7
                if bz3.str_to_int_unlimited(bz3.int_to_str_unlimited(v)) != v and not fail:
                    fail = {"what": "negative numeral does not round-trip", "value": str(v)[:60]}
        finally:
            bz3.INT_STRING_CHUNK_SIZE = saved

        # ---------- (2) values returned by solvers ----------
        names = astio.Names()
        classes = [("Solver", claripy.Solver), ("SolverCacheless", claripy.SolverCacheless), ("SolverComposite", claripy.SolverComposite)]
        iters = 70 if tier == "quick" else 3000
        for it in range(iters):
            if fail:
                break
            W = rng.choice(WIDTHS)
            rep.count(case_key=("vals", seed, it))
            a = claripy.BVS("a%d_%d" % (W, it % 3), W, explicit_name=True)
            b = claripy.BVS("b%d_%d" % (W, it % 3), W, explicit_name=True)
            cfree = claripy.BVS("c%d_%d" % (W, it % 3), W, explicit_name=True)
            top = (1 << W) - 1
            pool = sorted({0, 1 & top, top, 1 << (W - 1), (1 << (W - 1)) - 1, (1 << 64) & top, ((1 << 64) - 1) & top, (1 << 63) & top,
                           ((1 << 63) - 1) & top, rng.getrandbits(W), rng.getrandbits(W), (top ^ (top >> 1)) | 1})
            ca = rng.sample(pool, min(len(pool), rng.choice([1, 2, 3, 4])))
            cb = rng.sample(pool, min(len(pool), rng.choice([1, 2, 3])))
            cons = [claripy.Or(*[a == v for v in ca]), claripy.Or(*[b == v for v in cb])]
            x0, y0 = rng.choice(ca), rng.choice(cb)
            extra_forms = [lambda: claripy.ULE(a, b), lambda: a + b == ((x0 + y0) & top), lambda: claripy.SGE(a, 0), lambda: (a & b) == (x0 & y0),
                           lambda: a != rng.choice(ca), lambda: claripy.UGT(a, 1 << (W - 1)) if W > 1 else a == 1, lambda: claripy.SLT(b, a),
                           lambda: (a ^ b) == (x0 ^ y0)]
            for _ in range(rng.choice([0, 1, 1, 2])):
                cons.append(rng.choice(extra_forms)())
            bvs = {names.id(a.args[0]): None, names.id(b.args[0]): None}
            try:
                sers = [astio.ser(c, names) for c in cons]
            except astio.Unser:
                continue
            feas = []
            for x, y in itertools.product(ca, cb):
                env = [[names.id(a.args[0]), x], [names.id(b.args[0]), y]]
                if all(drv.ask(["eval", s, env, []]) == ["bool", "1"] for s in sers):
                    feas.append((x, y))
            cname, cls = rng.choice(classes)
            s = cls()
            for c in cons:
                s.add(c)
            ctx = {"class": cname, "width": W, "constraints": [str(c) for c in cons], "feasible_assignments": [list(map(hex, p)) for p in feas[:8]]}
            exprs = [("a", a, lambda x, y: x), ("b", b, lambda x, y: y), ("a+b", a + b, lambda x, y: (x + y) & top),
                     ("a^b", a ^ b, lambda x, y: x ^ y), ("LShR(a,1)", claripy.LShR(a, 1), lambda x, y: x >> 1),
                     ("a*3", a * 3, lambda x, y: (x * 3) & top)]
            try:
                for _ in range(rng.choice([2, 3, 4])):
                    nm, e, f = rng.choice(exprs)
                    fvals = sorted({f(x, y) for x, y in feas})
                    q = rng.choice(["eval", "eval", "batch_eval", "min", "max", "eval_free"])
                    stats["query_" + q] += 1
                    if q == "eval":
                        n = rng.choice([1, 2, 3, 10])
                        r = list(s.eval(e, n))
                        if not feas:
                            fail = dict(ctx, what="eval(%s) returned %s on unsatisfiable constraints" % (nm, r))
                        elif any(v not in fvals for v in r) or len(set(r)) != len(r) or len(r) != min(n, len(fvals)):
                            fail = dict(ctx, what="eval(%s, %d) returned %s; the values the expression takes are %s" % (
                                nm, n, [hex(v) for v in r], [hex(v) for v in fvals]))
                    elif q == "batch_eval":
                        n = rng.choice([1, 2, 5])
                        r = [tuple(t) for t in s.batch_eval([a, b, cfree], n)]
                        if not feas:
                            fail = dict(ctx, what="batch_eval returned %s on unsatisfiable constraints" % (r,))
                        elif any((t[0], t[1]) not in feas or not (0 <= t[2] <= top) for t in r):
                            fail = dict(ctx, what="batch_eval([a, b, free]) returned %s: not a model" % ([tuple(map(hex, t)) for t in r],))
                    elif q in ("min", "max"):
                        signed = rng.random() < 0.5
                        r = getattr(s, q)(e, signed=signed)
                        if not feas:
                            fail = dict(ctx, what="%s(%s) returned %s on unsatisfiable constraints" % (q, nm, r))
                        else:
                            key = (lambda v: tosigned(v, W)) if signed else (lambda v: v)
                            want = (min if q == "min" else max)(fvals, key=key)
                            if (r & top) != want:
                                fail = dict(ctx, what="%s(%s, signed=%s) returned %s, the optimum is %s" % (q, nm, signed, hex(r & top), hex(want)))
                    else:
                        r = list(s.eval(cfree, 2))
                        if feas and (len(r) != min(2, top + 1) or any(not (0 <= v <= top) for v in r) or len(set(r)) != len(r)):
                            fail = dict(ctx, what="eval of an unconstrained variable returned %s" % ([hex(v) for v in r],))
                    if fail:
                        break
            except claripy.errors.UnsatError:
                if feas:
                    fail = dict(ctx, what="UnsatError although the constraints have a model")
            except claripy.errors.ClaripyError as ex:
                fail = dict(ctx, what="claripy error %s: %s" % (type(ex).__name__, ex))
        # ---------- (3) values served from the model cache across histories ----------
        if not fail:
            import solverhist
            facs = [("Solver", lambda: claripy.Solver()), ("SolverComposite", lambda: claripy.SolverComposite())]
            ops = ["add", "add", "eval", "eval", "batch_eval", "min", "max", "eval", "branch"]
            n3 = 60 if tier == "quick" else 3000
            fail = solverhist.run_histories(claripy, drv, rng, facs, n3, 14, report=rep, tag="c26", ops=ops)
            stats["value_histories"] += n3
    rep.cov["rule"] = ("(1) int_to_str_unlimited / str_to_int_unlimited with the chunk size patched to 1..4300 on numerals of 1..9000 digits "
                       "(boundaries of the chunk size) against the extracted codec and Python's own conversion; (2) Solver, SolverCacheless, "
                       "SolverComposite over two variables of width 1..256 ranging over candidate sets of boundary values (0, 2^w-1, 2^(w-1), 2^64, "
                       "2^63...) under 0-2 relational constraints; the feasible assignments are computed with the extracted evaluator; eval, "
                       "batch_eval (with an unconstrained variable), signed/unsigned min/max of six expressions must return feasible values "
                       "(and the exact count / optimum); (3) 14-step add/eval/batch_eval/min/max/branch histories on Solver and SolverComposite over "
                       "x,y:BV4 z:BV3 (including division by variables) against enumeration: values served from cached models")
    rep.cov["histogram"] = dict(stats)
    rep.cov["traces_validated_against_impl"] = stats["codec_cases"] if not mismatch else 0
    if fail:
        rep.violation(fail)
    elif not proof_ok or mismatch or drv is None:
        rep.violation({"broken": {"obligations_not_discharged": [o for o in pr["obligations"] if not o["ok"]], "forbidden": forb,
                                  "model_mismatch": mismatch, "driver": None if okd else dlog[-800:],
                                  "coq_log_tail": pr.get("log", "")[-1200:]},
                       "note": "theorem or correspondence no longer checks; the direct test found no infeasible value"}, found_input=False)
    if drv:
        drv.close()
    rep.cov["trusted_base"] = KERNEL_TB + [
        "Print Assumptions of Props/C26.v theorems: Closed under the global context",
        "Model/Numeral.v is hand-written (digit lists) and tied by comparing outputs; Z3's own numeral printing and model completion are "
        "oracles; floats and strings are NOT covered by this check",
        "reference of the direct test: the extracted SMT-LIB evaluator over explicit candidate assignments",
    ]
    rep.assumptions = ["Z3 answers truthfully"]
    return rep.finish("proof")
