"""C09: solver-backed simplification preserves meaning and handles all claripy operators.

Proof: Props/C09.v over the operator tables regenerated from backend_z3.py (op_map, _op_raw_*): every entry in the
bitvector/Boolean fragment pairs a Z3 operator with a claripy operation of the same SMT-LIB meaning.
Tie: the tables are re-translated on every run (a changed entry changes the theorem's statement).
Search: random expressions over x,y:BV4 z:BV3 b:Bool (all operators, rotates by symbolic amounts at the non-power-of-two
width 3, signed division/remainder, extension/extraction/concatenation, If at Bool and BV sort): the Z3 round trip without
simplification, claripy.simplify and Solver.simplify must not raise and must preserve the value under all 4096
assignments; wide expressions (65..256 bits) with constants around 2^63/2^64 are compared on sampled assignments with the
extracted evaluator.
"""
from __future__ import annotations

import collections
import json
import random
import sys

from common import KERNEL_TB, REPO, Driver, Report, build_driver, check_props, coq_make, known_findings, regen_all, scan_forbidden
from c01 import BV_DRIVER

PROP = "C09"


def main(tier, seed, replay=None):
    sys.path.insert(0, REPO)
    import astio
    import claripy
    import solverhist
    from c08 import Gen
    rep = Report(PROP, tier, seed)
    rng = random.Random(seed)
    if replay:
        r = json.load(open(replay))
        print("replay file records:", json.dumps(r, default=str)[:1500])
        return 1
    errs = regen_all()
    ok_make, log = coq_make(["Proofs/Z3ConvProof.vo"])
    pr = check_props(PROP) if ok_make else {"ok": False, "obligations": [
        {"name": "C09_*", "closed": False, "axioms": ["<does not compile>"], "ok": False}], "log": log[-3000:]}
    rep.obligations(pr, "make Proofs/Z3ConvProof.vo && coqc -R coq CV coq/Props/C09.v (Print Assumptions)")
    forb = scan_forbidden()
    proof_ok = pr["ok"] and not forb and not errs.get("Z3OpMap")
    okd, dlog = build_driver(*BV_DRIVER)
    stats = collections.Counter()
    fail = None
    drv = Driver("bvdriver") if okd else None

    def bad(what, **kw):
        nonlocal fail
        if fail is None:
            fail = {"what": what}
            fail.update({k: (v if isinstance(v, (int, list, dict, type(None))) else str(v)) for k, v in kw.items()})

    if drv is not None:
        u = solverhist.Universe(claripy, drv, tag="u")
        g = Gen(claripy, u, rng)
        bz = claripy.backends.z3
        N = u.n_assign

        def extra_shapes():
            z, x, y = u.z, u.x, u.y
            k3 = lambda: claripy.BVV(rng.getrandbits(3), 3)
            k4 = lambda: claripy.BVV(rng.getrandbits(4), 4)
            return rng.choice([
                lambda: claripy.RotateRight(z, z + k3()), lambda: claripy.RotateLeft(z, z * 3 + k3()), lambda: claripy.RotateRight(z, k3()),
                lambda: claripy.RotateLeft(x, y), lambda: claripy.RotateRight(x, y + k4()),
                lambda: claripy.SMod(x, y), lambda: claripy.SDiv(x, y), lambda: claripy.SMod(x, k4()), lambda: x // y, lambda: x % y,
                lambda: claripy.SignExt(1, z)[3:1], lambda: claripy.Concat(z, x)[5:2], lambda: claripy.ZeroExt(2, claripy.Concat(x, z))[6:0],
                lambda: claripy.If(u.b, x == y, claripy.ULT(x, y)), lambda: claripy.If(claripy.SLT(x, y), x - y, y - x),
                lambda: (x ^ y) == (x | y), lambda: claripy.And(x != y, y != k4(), x != k4()), lambda: ~(x & y) | ~y,
                lambda: claripy.Concat(x, y) == claripy.BVV(rng.getrandbits(8), 8), lambda: x * y + k4(), lambda: -x + ~y,
                lambda: claripy.Or(claripy.Not(u.b), claripy.And(u.b, claripy.SGE(x, k4()))), lambda: claripy.LShR(x, y) + (x >> y) + (x << y),
            ])()

        iters = 220 if tier == "quick" else 9000
        for it in range(iters):
            if fail:
                break
            rep.count(("expr", seed, it))
            e = extra_shapes() if rng.random() < 0.5 else g.any(rng.choice([2, 3, 4]))
            ve = u.values(e)
            for nm, f in (("convert+abstract", lambda: bz._abstract(bz.convert(e))), ("claripy.simplify", lambda: claripy.simplify(e)),
                          ("backends.z3.simplify", lambda: bz.simplify(e))):
                try:
                    r = f()
                except claripy.errors.ClaripyZeroDivisionError:
                    continue
                except Exception as ex:  # noqa
                    bad("%s raised %s: %s" % (nm, type(ex).__name__, str(ex)[:200]), expression=e)
                    break
                stats[nm] += 1
                try:
                    vr = u.values(r)
                except astio.Unser as ex:
                    bad("%s returned an expression with an operator outside claripy's bitvector/Boolean operations (%s)" % (nm, ex), expression=e, result=r)
                    break
                if vr != ve:
                    i = next(i for i in range(N) if vr[i] != ve[i])
                    bad("%s changed the value of the expression" % nm, expression=e, result=r, assignment_index=i, before=str(ve[i]), after=str(vr[i]))
                    break
            if len(u._cache) > 5000:
                u._cache.clear()
        # Solver.simplify keeps the model set
        if not fail:
            facs = [("Solver", lambda: claripy.Solver()), ("SolverCacheless", lambda: claripy.SolverCacheless()), ("SolverComposite", lambda: claripy.SolverComposite())]
            n = 60 if tier == "quick" else 2500
            fail = solverhist.run_histories(claripy, drv, rng, facs, n, 10, report=rep, tag="c09", ops=["add", "add", "simplify", "simplify", "satisfiable", "eval"])
            stats["simplify_histories"] += n
        # wide expressions: constants around 2^63 / 2^64 inside wider bitvectors
        if not fail:
            names = astio.Names()
            for it in range(40 if tier == "quick" else 1500):
                W = rng.choice([65, 66, 71, 96, 128, 129, 200, 256])
                top = (1 << W) - 1
                a = claripy.BVS("wa%d" % W, W, explicit_name=True)
                b = claripy.BVS("wb%d" % W, W, explicit_name=True)
                K = lambda: claripy.BVV(rng.choice([1 << 63, (1 << 63) + 1, (1 << 64) - 1, 1 << 64, (1 << 63) - 1, rng.getrandbits(64) | (1 << 63), rng.getrandbits(W)]) & top, W)
                e = rng.choice([lambda: a + K(), lambda: (a ^ K()) + b, lambda: (a & K()) | (b & ~K()), lambda: claripy.ULT(a + K(), b), lambda: a * K() == b,
                                lambda: claripy.If(claripy.UGE(a, K()), a - K(), b + K()), lambda: (a + K())[70 if W > 70 else W - 1:3] , lambda: claripy.SGT(a, K())])()
                try:
                    r = claripy.simplify(e)
                    se, sr = astio.ser(e, names), astio.ser(r, names)
                except astio.Unser:
                    continue
                except Exception as ex:  # noqa
                    bad("claripy.simplify raised %s" % type(ex).__name__, expression=e)
                    break
                stats["wide"] += 1
                for _ in range(6):
                    env = [[names.id(a.args[0]), rng.choice([0, top, 1 << 63, rng.getrandbits(W)])], [names.id(b.args[0]), rng.choice([0, top, rng.getrandbits(W)])]]
                    v1, v2 = drv.ask(["eval", se, env, []]), drv.ask(["eval", sr, env, []])
                    if v1 != v2:
                        bad("claripy.simplify changed the value of a %d-bit expression" % W, expression=e, result=r, assignment=str(env), before=str(v1), after=str(v2))
                        break
                if fail:
                    break
    rep.cov["rule"] = ("random and shaped expressions over x,y:BV4 z:BV3 b:Bool (rotates by symbolic amounts at width 3 and 4, SDiv/SMod/UDiv/URem, "
                       "extension/extraction/concatenation chains, If at both sorts, Boolean structure): convert+abstract, claripy.simplify and "
                       "backends.z3.simplify must not raise, must stay within claripy's operations and must keep the value under all 4096 "
                       "assignments; add/simplify histories keep the model set; 65..256-bit expressions with constants around 2^63/2^64 on "
                       "sampled assignments (extracted evaluator)")
    rep.cov["histogram"] = dict(stats)
    rep.cov["traces_validated_against_impl"] = 0
    rep.cov["translator"] = {"Z3OpMap": errs.get("Z3OpMap") or "regenerated"}
    if fail:
        rep.violation(fail)
    elif not proof_ok or drv is None:
        rep.violation({"broken": {"obligations_not_discharged": [o for o in pr["obligations"] if not o["ok"]], "forbidden": forb,
                                  "translator": errs.get("Z3OpMap"), "driver": None if okd else dlog[-800:],
                                  "coq_log_tail": pr.get("log", "")[-1200:]},
                       "note": "the table theorem no longer checks against the regenerated tables; the direct test found no changed value"},
                      found_input=False)
    if drv:
        drv.close()
    rep.cov["trusted_base"] = KERNEL_TB + [
        "Print Assumptions of Props/C09.v theorems: Closed under the global context",
        "tools/py2coq.py (Z3OpMap generator: dict literal op_map; regex over the _op_raw_ bodies); Model/Z3Conv.v states the SMT-LIB meaning of "
        "each Z3 operator name by hand; Z3's simplifier, constant/sort conversion, n-ary distinct, floats and strings are NOT modelled",
    ]
    rep.assumptions = ["Z3's simplifier preserves meaning (tested by enumeration)"]
    return rep.finish("proof")
