"""Strided-interval sweeps: every interval of a width, members by enumeration (independent of the code),
soundness of every transfer function / join / query on the real StridedInterval."""
from __future__ import annotations

import itertools


def all_sis(SI, w, aligned_only=False):
    """every (stride, lb, ub) at width w, as real objects; stride 0 only for singletons"""
    out = []
    n = 1 << w
    for lb in range(n):
        for ub in range(n):
            if lb == ub:
                out.append(SI(bits=w, stride=0, lower_bound=lb, upper_bound=ub))
                continue
            for st in range(1, n):
                if aligned_only and ((ub - lb) % n) % st != 0:
                    continue
                out.append(SI(bits=w, stride=st, lower_bound=lb, upper_bound=ub))
    return out


def members(si):
    """gamma, from the definition: lb + k*stride (mod 2^w) for 0 <= k*stride <= (ub - lb) mod 2^w"""
    if si.is_empty:
        return frozenset()
    n = 1 << si.bits
    lb, ub, st = si.lower_bound, si.upper_bound, si.stride
    if st == 0:
        return frozenset([lb])
    span = (ub - lb) % n
    return frozenset((lb + k) % n for k in range(0, span + 1, st))


def key(si):
    return (si.bits, si.stride, si.lower_bound, si.upper_bound, bool(si.is_empty))


def sgn(v, w):
    return v - (1 << w) if v >= (1 << (w - 1)) else v


def tdiv(a, b):
    q = abs(a) // abs(b)
    return q if (a < 0) == (b < 0) else -q


# concrete semantics of each binary transfer function: f(x, y, w) -> value or None (exempt)
BIN = {
    "add": lambda x, y, w: (x + y) % (1 << w),
    "sub": lambda x, y, w: (x - y) % (1 << w),
    "mul": lambda x, y, w: (x * y) % (1 << w),
    "udiv": lambda x, y, w: None if y == 0 else x // y,
    "sdiv": lambda x, y, w: None if y == 0 else tdiv(sgn(x, w), sgn(y, w)) % (1 << w),
    "mod": lambda x, y, w: None if y == 0 else x % y,
    "and": lambda x, y, w: x & y,
    "or": lambda x, y, w: x | y,
    "xor": lambda x, y, w: x ^ y,
    "shl": lambda x, y, w: (x << y) % (1 << w) if y < w else 0,
    "lshr": lambda x, y, w: x >> y if y < w else 0,
    "ashr": lambda x, y, w: (sgn(x, w) >> min(y, w)) % (1 << w),
}
BIN_CALL = {
    "add": lambda a, b: a.add(b), "sub": lambda a, b: a.sub(b), "mul": lambda a, b: a.mul(b),
    "udiv": lambda a, b: a.udiv(b), "sdiv": lambda a, b: a.sdiv(b), "mod": lambda a, b: a % b,
    "and": lambda a, b: a.bitwise_and(b), "or": lambda a, b: a.bitwise_or(b), "xor": lambda a, b: a.bitwise_xor(b),
    "shl": lambda a, b: a.lshift(b), "lshr": lambda a, b: a.rshift_logical(b), "ashr": lambda a, b: a.rshift_arithmetic(b),
}
CMP = {
    "ULT": lambda x, y, w: x < y, "ULE": lambda x, y, w: x <= y, "UGT": lambda x, y, w: x > y, "UGE": lambda x, y, w: x >= y,
    "SLT": lambda x, y, w: sgn(x, w) < sgn(y, w), "SLE": lambda x, y, w: sgn(x, w) <= sgn(y, w),
    "SGT": lambda x, y, w: sgn(x, w) > sgn(y, w), "SGE": lambda x, y, w: sgn(x, w) >= sgn(y, w),
    "eq": lambda x, y, w: x == y,
}
UN = {
    "neg": (lambda a: a.neg(), lambda x, w: (-x) % (1 << w)),
    "opneg": (lambda a: -a, lambda x, w: (-x) % (1 << w)),
    "not": (lambda a: a.bitwise_not(), lambda x, w: (~x) % (1 << w)),
}
JOIN = {
    "union": lambda a, b: a.union(b),
    "lub": lambda a, b: type(a).least_upper_bound(a, b),
    "pseudo_join": lambda a, b: type(a).pseudo_join(a, b),
    "widen": lambda a, b: a.widen(b),
}


def bool_values(r):
    """the truth values a BoolResult allows"""
    return frozenset(r.value)


def check_binary(name, a, b, ma, mb):
    """-> None | 'unsound' | 'exception:<type>'"""
    w = a.bits
    try:
        if name in BIN:
            r = BIN_CALL[name](a, b)
            mr = members(r)
            f = BIN[name]
            for x in ma:
                for y in mb:
                    v = f(x, y, w)
                    if v is not None and v not in mr:
                        return "unsound"
        elif name in CMP:
            r = getattr(a, name)(b)
            allowed = bool_values(r)
            f = CMP[name]
            for x in ma:
                for y in mb:
                    if f(x, y, w) not in allowed:
                        return "unsound"
        elif name in JOIN:
            r = JOIN[name](a, b)
            mr = members(r)
            if not (ma <= mr and mb <= mr):
                return "unsound"
        elif name == "intersection":
            r = a.intersection(b)
            if not ((ma & mb) <= members(r)):
                return "unsound"
        elif name == "concat":
            r = a.concat(b)
            mr = members(r)
            for x in ma:
                for y in mb:
                    if ((x << b.bits) | y) not in mr:
                        return "unsound"
    except Exception as ex:  # noqa
        return "exception:" + type(ex).__name__
    return None


def check_unary(name, a, ma):
    w = a.bits
    try:
        if name in UN:
            r = UN[name][0](a)
            mr = members(r)
            if any(UN[name][1](x, w) not in mr for x in ma):
                return "unsound"
        elif name.startswith("zext"):
            k = int(name[4:])
            mr = members(a.zero_extend(w + k))
            if any(x not in mr for x in ma):
                return "unsound"
        elif name.startswith("sext"):
            k = int(name[4:])
            mr = members(a.sign_extend(w + k))
            if any((sgn(x, w) % (1 << (w + k))) not in mr for x in ma):
                return "unsound"
        elif name.startswith("extract"):
            hi, lo = map(int, name[7:].split("_"))
            mr = members(a.extract(hi, lo))
            if any(((x >> lo) & ((1 << (hi - lo + 1)) - 1)) not in mr for x in ma):
                return "unsound"
        elif name == "queries":
            # C22: eval lists members only (at most n), min/max are least/greatest members, cardinality, solution
            n = 1 << w
            for signed in (False, True):
                ev = a.eval(n + 2, signed=signed)
                k = (lambda v: sgn(v % n, w)) if signed else (lambda v: v % n)
                if any((v % n) not in ma for v in ev) or len(ev) > n + 2:
                    return "eval-nonmember"
                if len(set(v % n for v in ev)) != len(ma):
                    return "eval-incomplete"
                mn, mx = a.min(signed=signed), a.max(signed=signed)
                if (mn % n) not in ma or k(mn) != min(k(v) for v in ma):
                    return "min-wrong(signed=%s)" % signed
                if (mx % n) not in ma or k(mx) != max(k(v) for v in ma):
                    return "max-wrong(signed=%s)" % signed
            if a.cardinality != len(ma):
                return "cardinality-wrong"
            for v in range(n):
                if a.solution(v) != (v in ma):
                    return "solution-wrong"
    except Exception as ex:  # noqa
        return "exception:" + type(ex).__name__
    return None
